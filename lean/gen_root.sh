#!/bin/bash
# regenerate Prs.lean = import of every module under Prs/ (so `lake build Prs` checks everything)
cd "$(dirname "$0")"
find Prs -name '*.lean' | sort | sed 's/\.lean$//; s/\//./g; s/^/import /' > Prs.lean.new
cmp -s Prs.lean.new Prs.lean || mv Prs.lean.new Prs.lean
rm -f Prs.lean.new
