/- Driver.lean — JSON line protocol: one operation per input line, one JSON answer per output line.
   Imports only core-Lean model files, so it links as a native executable. -/
import Prs.Driver.Search
import Prs.Driver.Stats
import Prs.Driver.Misc
open Lean Prs.Drv

def dispatch (op : String) (j : Json) : Option (R Json) :=
  (opSearch op j) <|> (opStats op j) <|> (opMisc op j)

def step (line : String) : String :=
  match Json.parse line with
  | .error e => (Json.mkObj [("error", Json.str s!"bad-json {e}")]).compress
  | .ok j =>
    match j.getObjValAs? String "op" with
    | .error _ => (Json.mkObj [("error", Json.str "bad-op")]).compress
    | .ok op =>
      match dispatch op j with
      | none => (Json.mkObj [("error", Json.str "bad-op")]).compress
      | some (.ok r) => (Json.mkObj [("ok", r)]).compress
      | some (.error e) => (Json.mkObj [("error", Json.str e)]).compress

partial def loop (hin hout : IO.FS.Stream) : IO Unit := do
  let line ← hin.getLine
  if line.isEmpty then return ()
  hout.putStrLn (step line)
  hout.flush
  loop hin hout

def main : IO Unit := do loop (← IO.getStdin) (← IO.getStdout)
