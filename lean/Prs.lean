-- This module serves as the root of the `Prs` library.
-- Import modules here that should be built as part of the library.
import Prs.Basic
