/-
Proofs/Lev.lean — alignment characterisation of `lev` (core Lean only).
`Ed n a b` : there is an alignment (edit script) of cost n turning a into b.
-/
import Prs.Model.Lev
namespace Prs
variable {α : Type} [DecidableEq α]

inductive Ed : Nat → List α → List α → Prop
  | nil : Ed 0 [] []
  | keep {n a b} (c : α) : Ed n a b → Ed n (c :: a) (c :: b)
  | sub {n a b} (x y : α) : Ed n a b → Ed (n+1) (x :: a) (y :: b)
  | del {n a b} (x : α) : Ed n a b → Ed (n+1) (x :: a) b
  | ins {n a b} (y : α) : Ed n a b → Ed (n+1) a (y :: b)

omit [DecidableEq α] in
theorem Ed_nil_left : ∀ (b : List α), Ed b.length [] b
  | [] => Ed.nil
  | y :: b => Ed.ins y (Ed_nil_left b)

omit [DecidableEq α] in
theorem Ed_nil_right : ∀ (a : List α), Ed a.length a []
  | [] => Ed.nil
  | x :: a => Ed.del x (Ed_nil_right a)

theorem lev_Ed (a b : List α) : Ed (lev a b) a b := by
  induction a, b using lev.induct with
  | case1 ys => simpa [lev] using Ed_nil_left ys
  | case2 xs h =>
    cases xs with
    | nil => simp at h
    | cons x xs => simpa [lev] using Ed_nil_right (x :: xs)
  | case3 x xs y ys ih1 ih2 ih3 =>
    rw [lev]
    have h1 := Ed.del x ih1
    have h2 := Ed.ins y ih2
    have h3 : Ed (lev xs ys + (if x = y then 0 else 1)) (x :: xs) (y :: ys) := by
      by_cases hxy : x = y
      · subst hxy; simpa using Ed.keep x ih3
      · simpa [hxy] using Ed.sub x y ih3
    generalize (lev xs ys + (if x = y then 0 else 1)) = c at h3 ⊢
    simp only [Nat.min_def]
    split <;> split <;> first | exact h1 | exact h2 | exact h3

theorem Ed_lev {n : Nat} {a b : List α} (h : Ed n a b) : lev a b ≤ n := by
  induction h with
  | nil => simp [lev]
  | keep c _ ih => rw [lev]; simp; omega
  | @sub n a b x y _ ih => rw [lev]; by_cases hxy : x = y <;> simp [hxy] <;> omega
  | @del n a b x _ ih =>
    cases b with
    | nil => cases a <;> simp_all [lev] <;> omega
    | cons y b => rw [lev]; omega
  | @ins n a b y _ ih =>
    cases a with
    | nil => simp_all [lev]
    | cons x a => rw [lev]; omega

theorem lev_le_iff (a b : List α) (n : Nat) : lev a b ≤ n ↔ ∃ m, m ≤ n ∧ Ed m a b :=
  ⟨fun h => ⟨_, h, lev_Ed a b⟩, fun ⟨_, hm, h⟩ => Nat.le_trans (Ed_lev h) hm⟩

/-- symmetric-delete key lemma -/
theorem Ed_common {n : Nat} {a b : List α} (h : Ed n a b) :
    ∃ c : List α, c.Sublist a ∧ c.Sublist b ∧ a.length ≤ c.length + n ∧ b.length ≤ c.length + n := by
  induction h with
  | nil => exact ⟨[], .slnil, .slnil, by simp, by simp⟩
  | keep x _ ih =>
    obtain ⟨c, h1, h2, h3, h4⟩ := ih
    exact ⟨x :: c, h1.cons_cons x, h2.cons_cons x, by simp; omega, by simp; omega⟩
  | sub x y _ ih =>
    obtain ⟨c, h1, h2, h3, h4⟩ := ih
    exact ⟨c, h1.cons x, h2.cons y, by simp; omega, by simp; omega⟩
  | del x _ ih =>
    obtain ⟨c, h1, h2, h3, h4⟩ := ih
    exact ⟨c, h1.cons x, h2, by simp; omega, by omega⟩
  | ins y _ ih =>
    obtain ⟨c, h1, h2, h3, h4⟩ := ih
    exact ⟨c, h1, h2.cons y, by omega, by simp; omega⟩


omit [DecidableEq α] in
theorem Ed_trans {m : Nat} {b c : List α} (h2 : Ed m b c) :
    ∀ {n : Nat} {a : List α}, Ed n a b → ∃ p, p ≤ n + m ∧ Ed p a c := by
  induction h2 with
  | nil => intro n a h1; exact ⟨n, by omega, h1⟩
  | @ins m b c y _ ih =>
    intro n a h1
    obtain ⟨p, hp, h⟩ := ih h1
    exact ⟨p + 1, by omega, Ed.ins y h⟩
  | @keep m b c x _ ih =>
    intro n a h1
    generalize hbb : x :: b = bb at h1
    induction h1 with
    | nil => cases hbb
    | keep z h1' _ =>
      cases hbb
      obtain ⟨p, hp, h⟩ := ih h1'
      exact ⟨p, by omega, Ed.keep _ h⟩
    | sub z w h1' _ =>
      cases hbb
      obtain ⟨p, hp, h⟩ := ih h1'
      exact ⟨p + 1, by omega, Ed.sub _ _ h⟩
    | del z h1' ih1 =>
      obtain ⟨p, hp, h⟩ := ih1 hbb
      exact ⟨p + 1, by omega, Ed.del z h⟩
    | ins w h1' _ =>
      cases hbb
      obtain ⟨p, hp, h⟩ := ih h1'
      exact ⟨p + 1, by omega, Ed.ins _ h⟩
  | @sub m b c x y _ ih =>
    intro n a h1
    generalize hbb : x :: b = bb at h1
    induction h1 with
    | nil => cases hbb
    | keep z h1' _ =>
      cases hbb
      obtain ⟨p, hp, h⟩ := ih h1'
      exact ⟨p + 1, by omega, Ed.sub _ _ h⟩
    | sub z w h1' _ =>
      cases hbb
      obtain ⟨p, hp, h⟩ := ih h1'
      exact ⟨p + 1, by omega, Ed.sub _ _ h⟩
    | del z h1' ih1 =>
      obtain ⟨p, hp, h⟩ := ih1 hbb
      exact ⟨p + 1, by omega, Ed.del z h⟩
    | ins w h1' _ =>
      cases hbb
      obtain ⟨p, hp, h⟩ := ih h1'
      exact ⟨p + 1, by omega, Ed.ins _ h⟩
  | @del m b c x _ ih =>
    intro n a h1
    generalize hbb : x :: b = bb at h1
    induction h1 with
    | nil => cases hbb
    | keep z h1' _ =>
      cases hbb
      obtain ⟨p, hp, h⟩ := ih h1'
      exact ⟨p + 1, by omega, Ed.del _ h⟩
    | sub z w h1' _ =>
      cases hbb
      obtain ⟨p, hp, h⟩ := ih h1'
      exact ⟨p + 1, by omega, Ed.del _ h⟩
    | del z h1' ih1 =>
      obtain ⟨p, hp, h⟩ := ih1 hbb
      exact ⟨p + 1, by omega, Ed.del z h⟩
    | ins w h1' _ =>
      cases hbb
      obtain ⟨p, hp, h⟩ := ih h1'
      exact ⟨p, by omega, h⟩

theorem lev_triangle (a b c : List α) : lev a c ≤ lev a b + lev b c := by
  obtain ⟨p, hp, h⟩ := Ed_trans (lev_Ed b c) (lev_Ed a b)
  exact Nat.le_trans (Ed_lev h) hp

end Prs

namespace Prs
variable {α : Type} [DecidableEq α]

omit [DecidableEq α] in
theorem Ed_symm {n : Nat} {a b : List α} (h : Ed n a b) : Ed n b a := by
  induction h with
  | nil => exact Ed.nil
  | keep c _ ih => exact Ed.keep c ih
  | sub x y _ ih => exact Ed.sub y x ih
  | del x _ ih => exact Ed.ins x ih
  | ins y _ ih => exact Ed.del y ih

theorem lev_comm (a b : List α) : lev a b = lev b a :=
  Nat.le_antisymm (Ed_lev (Ed_symm (lev_Ed b a))) (Ed_lev (Ed_symm (lev_Ed a b)))

omit [DecidableEq α] in
theorem Ed_refl : ∀ s : List α, Ed 0 s s
  | [] => Ed.nil
  | c :: s => Ed.keep c (Ed_refl s)

omit [DecidableEq α] in
theorem Ed_zero_eq {n : Nat} {a b : List α} (h : Ed n a b) : n = 0 → a = b := by
  induction h with
  | nil => intro; rfl
  | keep c _ ih => intro h0; rw [ih h0]
  | sub | del | ins => intro h0; omega

theorem lev_self (s : List α) : lev s s = 0 := Nat.le_zero.mp (Ed_lev (Ed_refl s))

theorem lev_eq_zero {a b : List α} (h : lev a b = 0) : a = b := by
  have := lev_Ed a b; rw [h] at this; exact Ed_zero_eq this rfl

theorem lev_eq_zero_iff (a b : List α) : lev a b = 0 ↔ a = b :=
  ⟨lev_eq_zero, fun h => h ▸ lev_self a⟩

omit [DecidableEq α] in
/-- an alignment changes the length by at most its cost -/
theorem Ed_length {n : Nat} {a b : List α} (h : Ed n a b) :
    a.length ≤ b.length + n ∧ b.length ≤ a.length + n := by
  induction h with
  | nil => simp
  | keep | sub | del | ins => simp only [List.length_cons]; omega

theorem lev_length (a b : List α) : a.length ≤ b.length + lev a b ∧ b.length ≤ a.length + lev a b :=
  Ed_length (lev_Ed a b)
end Prs

namespace Prs
variable {α : Type} [DecidableEq α]
/-- equal-length strings: substituting the mismatching positions is an alignment -/
theorem Ed_mismatches : ∀ (a b : List α), a.length = b.length → Ed (mismatches a b) a b
  | [], [], _ => Ed.nil
  | [], _ :: _, h => by simp at h
  | _ :: _, [], h => by simp at h
  | x :: a, y :: b, h => by
    have ih := Ed_mismatches a b (by simpa using h)
    by_cases hxy : x = y
    · subst hxy; simpa [mismatches] using Ed.keep x ih
    · have := Ed.sub x y ih
      simpa [mismatches, hxy, Nat.add_comm] using this

theorem lev_le_mismatches (a b : List α) (h : a.length = b.length) : lev a b ≤ mismatches a b :=
  Ed_lev (Ed_mismatches a b h)

theorem mismatches_comm : ∀ (a b : List α), mismatches a b = mismatches b a
  | [], [] => rfl
  | [], _ :: _ => rfl
  | _ :: _, [] => rfl
  | x :: a, y :: b => by
    simp only [mismatches, mismatches_comm a b]
    by_cases h : x = y
    · subst h; rfl
    · have h' : ¬ y = x := fun e => h e.symm
      simp [h, h']

theorem ham_comm (a b : List α) : ham a b = ham b a := by
  unfold ham
  by_cases h : a.length = b.length
  · simp [h, mismatches_comm a b]
  · have h' : ¬ b.length = a.length := fun e => h e.symm
    simp [h, h']
end Prs
