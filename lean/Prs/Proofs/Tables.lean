/-
Proofs/Tables.lean — the decidable checks on bundled tables imply the readable properties.
Core Lean only.
-/
import Prs.Model.Tables

namespace Prs

/-- entry (i, j) of a list-of-rows matrix (`none` when out of range) -/
abbrev entry (M : List (List Nat)) (i j : Nat) : Option Nat := M[i]?.bind (·[j]?)

/-- `symmZero n` on a square matrix of size `n`: symmetric (for ALL index pairs, out-of-range
entries being `none` on both sides) with zero diagonal -/
theorem symmZero_spec : ∀ (n : Nat) (M : List (List Nat)), M.length = n → (∀ r ∈ M, r.length = n) →
    symmZero n M = true →
    (∀ i j, entry M i j = entry M j i) ∧ (∀ i, i < n → entry M i i = some 0) := by
  intro n
  induction n with
  | zero =>
    intro M hlen _ _
    have : M = [] := List.eq_nil_of_length_eq_zero hlen
    subst this
    exact ⟨fun i j => by simp [entry], fun i hi => absurd hi (Nat.not_lt_zero _)⟩
  | succ n ih =>
    intro M hlen hrows hs
    match M, hlen, hrows, hs with
    | [], hlen, _, _ => simp at hlen
    | [] :: _, _, hrows, _ =>
      have := hrows [] List.mem_cons_self
      simp at this
    | (a :: r') :: rest, hlen, hrows, hs =>
      simp only [symmZero, Bool.and_eq_true, beq_iff_eq, List.all_eq_true] at hs
      obtain ⟨⟨⟨ha, hcol⟩, _⟩, hrec⟩ := hs
      have hrestlen : rest.length = n := by simpa using hlen
      have hrestrows : ∀ r ∈ rest, r.length = n + 1 :=
        fun r hr => hrows r (List.mem_cons_of_mem _ hr)
      have hih := ih (rest.map List.tail) (by simpa using hrestlen)
        (by
          intro r hr
          obtain ⟨r0, hr0, rfl⟩ := List.mem_map.1 hr
          simp [hrestrows r0 hr0])
        hrec
      -- first column of `rest` versus first row
      have hfirst : ∀ j : Nat, r'[j]? = rest[j]?.bind (·[0]?) := by
        intro j
        rw [← hcol, List.getElem?_map]
        cases hj : rest[j]? with
        | none => rfl
        | some row =>
          have hrow : row.length = n + 1 := hrestrows row (List.mem_of_getElem? hj)
          match row, hrow with
          | x :: _, _ => rfl
      -- inner block
      have hinner : ∀ i j : Nat, rest[i]?.bind (·[j + 1]?) = entry (rest.map List.tail) i j := by
        intro i j
        simp only [entry, List.getElem?_map]
        cases rest[i]? with
        | none => rfl
        | some row => simp [List.getElem?_tail]
      refine ⟨?_, ?_⟩
      · intro i j
        match i, j with
        | 0, 0 => rfl
        | 0, j + 1 =>
          show r'[j]? = rest[j]?.bind (·[0]?)
          exact hfirst j
        | i + 1, 0 =>
          show rest[i]?.bind (·[0]?) = r'[i]?
          exact (hfirst i).symm
        | i + 1, j + 1 =>
          show rest[i]?.bind (·[j + 1]?) = rest[j]?.bind (·[i + 1]?)
          rw [hinner, hinner]
          exact hih.1 i j
      · intro i hi
        match i, hi with
        | 0, _ =>
          show some a = some 0
          rw [ha]
        | i + 1, hi =>
          show rest[i]?.bind (·[i + 1]?) = some 0
          rw [hinner]
          exact hih.2 i (Nat.lt_of_succ_lt_succ hi)

/-- the three components of `tableOk` -/
theorem tableOk_parts (n : Nat) (M : List (List Nat)) (h : tableOk n M = true) :
    M.length = n ∧ (∀ r ∈ M, r.length = n) ∧ symmZero n M = true := by
  simp only [tableOk, Bool.and_eq_true, beq_iff_eq, List.all_eq_true] at h
  exact ⟨h.1.1, h.1.2, h.2⟩

/-- symmetry for all index pairs (both sides are `none` out of range) -/
theorem tableOk_symm (n : Nat) (M : List (List Nat)) (h : tableOk n M = true) (i j : Nat) :
    (M[i]?.bind (·[j]?)) = (M[j]?.bind (·[i]?)) := by
  obtain ⟨h1, h2, h3⟩ := tableOk_parts n M h
  exact (symmZero_spec n M h1 h2 h3).1 i j

/-- the decidable check implies the readable property: square of size n, symmetric, zero diagonal -/
theorem tableOk_spec (n : Nat) (M : List (List Nat)) (h : tableOk n M = true) :
    M.length = n ∧ (∀ r ∈ M, r.length = n) ∧
      (∀ i j, i < n → j < n → (M[i]?.bind (·[j]?)) = (M[j]?.bind (·[i]?))) ∧
      (∀ i, i < n → (M[i]?.bind (·[i]?)) = some 0) := by
  obtain ⟨h1, h2, h3⟩ := tableOk_parts n M h
  have hs := symmZero_spec n M h1 h2 h3
  exact ⟨h1, h2, fun i j _ _ => hs.1 i j, hs.2⟩

/-- in-range entries of a checked table exist -/
theorem tableOk_entry_isSome (n : Nat) (M : List (List Nat)) (h : tableOk n M = true)
    (i j : Nat) (hi : i < n) (hj : j < n) : (M[i]?.bind (·[j]?)).isSome = true := by
  obtain ⟨h1, h2, _⟩ := tableOk_parts n M h
  have hi' : i < M.length := by rw [h1]; exact hi
  have hrow : M[i].length = n := h2 _ (List.getElem_mem hi')
  have hj' : j < M[i].length := by rw [hrow]; exact hj
  simp [List.getElem?_eq_getElem hi', List.getElem?_eq_getElem hj']

theorem backgroundBins_range (n : Nat) (hn : 0 < n) :
    backgroundBins (List.range n) = List.range (n + 1) := by
  have hne : n ≠ 0 := Nat.pos_iff_ne_zero.1 hn
  have hsub : n - 1 + 1 = n := Nat.sub_add_cancel hn
  simp only [backgroundBins, List.getLast?_range, if_neg hne, hsub]
  exact List.range_succ.symm

theorem tableLookup_symm (index : List String) (M : List (List Nat)) (r c : String)
    (h : tableOk index.length M = true) : tableLookup index M r c = tableLookup index M c r := by
  unfold tableLookup
  simp only
  rw [tableOk_symm index.length M h (index.idxOf r) (index.idxOf c)]
  by_cases hrc : index.idxOf r < index.length ∧ index.idxOf c < index.length
  · rw [if_pos hrc, if_pos hrc.symm]
  · rw [if_neg hrc, if_neg (fun hcr => hrc hcr.symm)]

theorem tableLookup_self (index : List String) (M : List (List Nat)) (r : String)
    (h : tableOk index.length M = true) (hr : r ∈ index) : tableLookup index M r r = some 0 := by
  have hi : index.idxOf r < index.length := List.idxOf_lt_length_of_mem hr
  unfold tableLookup
  simp only
  rw [if_pos ⟨hi, hi⟩]
  exact (tableOk_spec index.length M h).2.2.2 _ hi

/-- lookups by labels that both occur in the index always succeed -/
theorem tableLookup_isSome (index : List String) (M : List (List Nat)) (r c : String)
    (h : tableOk index.length M = true) (hr : r ∈ index) (hc : c ∈ index) :
    (tableLookup index M r c).isSome = true := by
  have hi : index.idxOf r < index.length := List.idxOf_lt_length_of_mem hr
  have hj : index.idxOf c < index.length := List.idxOf_lt_length_of_mem hc
  unfold tableLookup
  simp only
  rw [if_pos ⟨hi, hj⟩]
  exact tableOk_entry_isSome index.length M h _ _ hi hj

end Prs

