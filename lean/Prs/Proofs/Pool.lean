/- Proofs/Pool.lean — `Pool.map(chunksize)`: chunking and schedule independence (core Lean only). -/
import Prs.Model.Search
namespace Prs
variable {β γ : Type}

theorem chunks_zero (xs : List β) : chunks 0 xs = [] := by
  rw [chunks]; simp

theorem chunks_nil (c : Nat) : chunks c ([] : List β) = [] := by
  rw [chunks]; simp

theorem chunks_cons_eq (c : Nat) (xs : List β) (hc : c ≠ 0) (hx : xs ≠ []) :
    chunks c xs = xs.take c :: chunks c (xs.drop c) := by
  rw [chunks]; simp [hc, hx]

theorem chunks_flatten (c : Nat) (xs : List β) (hc : 0 < c) : (chunks c xs).flatten = xs := by
  induction h : xs.length using Nat.strongRecOn generalizing xs with
  | _ n ih =>
    by_cases hx : xs = []
    · subst hx; rw [chunks_nil]; rfl
    · rw [chunks_cons_eq c xs (by omega) hx, List.flatten_cons,
        ih (xs.drop c).length (by
          have : 0 < xs.length := List.length_pos_iff.mpr hx
          simp only [List.length_drop]; omega) _ rfl]
      exact List.take_append_drop c xs

theorem chunks_length_le (c : Nat) (xs : List β) (hc : 0 < c) :
    ∀ ch ∈ chunks c xs, ch.length ≤ c ∧ 0 < ch.length := by
  induction h : xs.length using Nat.strongRecOn generalizing xs with
  | _ n ih =>
    by_cases hx : xs = []
    · subst hx; rw [chunks_nil]; simp
    · have hpos : 0 < xs.length := List.length_pos_iff.mpr hx
      rw [chunks_cons_eq c xs (by omega) hx]
      intro ch hch
      rcases List.mem_cons.1 hch with rfl | hch
      · simp only [List.length_take]; omega
      · exact ih (xs.drop c).length (by simp only [List.length_drop]; omega) _ rfl ch hch

/-- one completion step of the pool -/
def poolStep (f : β → γ) (tasks : List (List β)) (slots : List (Option (List γ))) (t : Nat) :
    List (Option (List γ)) :=
  match tasks[t]? with
  | some ch => slots.set t (some (ch.map f))
  | none => slots

theorem poolRun_eq (f : β → γ) (tasks : List (List β)) (sched : List Nat) :
    poolRun f tasks sched = sched.foldl (poolStep f tasks) (tasks.map fun _ => none) := rfl

/-- a slot holds nothing or the right answer -/
def SlotsOk (f : β → γ) (tasks : List (List β)) (slots : List (Option (List γ))) : Prop :=
  slots.length = tasks.length ∧
  ∀ (t : Nat) (ch : List β), tasks[t]? = some ch → slots[t]? = some none ∨ slots[t]? = some (some (ch.map f))

theorem SlotsOk.step {f : β → γ} {tasks : List (List β)} {slots : List (Option (List γ))}
    (h : SlotsOk f tasks slots) (t : Nat) :
    SlotsOk f tasks (poolStep f tasks slots t) ∧
    (∀ u ch, tasks[u]? = some ch → (u = t ∨ slots[u]? = some (some (ch.map f))) →
      (poolStep f tasks slots t)[u]? = some (some (ch.map f))) := by
  cases ht : tasks[t]? with
  | none =>
    have e : poolStep f tasks slots t = slots := by simp [poolStep, ht]
    rw [e]
    refine ⟨h, ?_⟩
    rintro u ch hu (rfl | hs)
    · rw [ht] at hu; cases hu
    · exact hs
  | some cht =>
    have e : poolStep f tasks slots t = slots.set t (some (cht.map f)) := by simp [poolStep, ht]
    rw [e]
    have htl : t < slots.length := by
      rw [h.1]; exact (List.getElem?_eq_some_iff.1 ht).1
    have hself : (slots.set t (some (cht.map f)))[t]? = some (some (cht.map f)) := by
      simp [List.getElem?_set_self htl]
    refine ⟨⟨by simp [h.1], ?_⟩, ?_⟩
    · intro u ch hu
      by_cases hut : t = u
      · subst hut
        rw [ht] at hu; injection hu with hu; subst hu
        exact Or.inr hself
      · simp only [List.getElem?_set_ne hut]
        exact h.2 u ch hu
    · rintro u ch hu (rfl | hs)
      · rw [ht] at hu; injection hu with hu; subst hu
        exact hself
      · by_cases hut : t = u
        · subst hut
          rw [ht] at hu; injection hu with hu; subst hu
          exact hself
        · simpa only [List.getElem?_set_ne hut] using hs

theorem poolRun_aux (f : β → γ) (tasks : List (List β)) (sched : List Nat)
    (slots : List (Option (List γ))) (h : SlotsOk f tasks slots) :
    SlotsOk f tasks (sched.foldl (poolStep f tasks) slots) ∧
    (∀ u ch, tasks[u]? = some ch → (u ∈ sched ∨ slots[u]? = some (some (ch.map f))) →
      (sched.foldl (poolStep f tasks) slots)[u]? = some (some (ch.map f))) := by
  induction sched generalizing slots with
  | nil =>
    refine ⟨h, ?_⟩
    rintro u ch _ (hu | hs)
    · simp at hu
    · exact hs
  | cons t sched ih =>
    obtain ⟨h1, h2⟩ := h.step t
    obtain ⟨h3, h4⟩ := ih _ h1
    refine ⟨h3, ?_⟩
    rintro u ch hu (hm | hs)
    · rcases List.mem_cons.1 hm with rfl | hm
      · exact h4 u ch hu (Or.inr (h2 u ch hu (Or.inl rfl)))
      · exact h4 u ch hu (Or.inl hm)
    · exact h4 u ch hu (Or.inr (h2 u ch hu (Or.inr hs)))

/-- once every task id occurs in the schedule, every slot holds its chunk's answer -/
theorem poolRun_complete (f : β → γ) (tasks : List (List β)) (sched : List Nat)
    (hs : ∀ t, t < tasks.length → t ∈ sched) :
    poolRun f tasks sched = tasks.map fun ch => some (ch.map f) := by
  have h0 : SlotsOk f tasks (tasks.map fun _ => none) := by
    refine ⟨by simp, fun t ch ht => Or.inl ?_⟩
    simp [List.getElem?_map, ht]
  obtain ⟨h1, h2⟩ := poolRun_aux f tasks sched _ h0
  rw [poolRun_eq]
  apply List.ext_getElem?
  intro u
  cases hu : tasks[u]? with
  | none =>
    have hlen : tasks.length ≤ u := by
      rcases Nat.lt_or_ge u tasks.length with hlt | hge
      · rw [List.getElem?_eq_getElem hlt] at hu; cases hu
      · exact hge
    have hl1 := h1.1
    rw [List.getElem?_eq_none (by omega), List.getElem?_eq_none (by simpa using hlen)]
  | some ch =>
    have hlt : u < tasks.length := (List.getElem?_eq_some_iff.1 hu).1
    rw [h2 u ch hu (Or.inl (hs u hlt))]
    simp [List.getElem?_map, hu]

/-- whatever the order in which the pool completes its tasks (any schedule that eventually completes
every task, repetitions and unknown ids allowed), the result is the serial map -/
theorem poolMap_any_schedule (f : β → γ) (xs : List β) (c : Nat) (hc : 0 < c) (sched : List Nat)
    (hs : ∀ t, t < (chunks c xs).length → t ∈ sched) : poolMap f xs c sched = xs.map f := by
  unfold poolMap
  rw [poolRun_complete f (chunks c xs) sched hs, List.map_map]
  have : ((fun s : Option (List γ) => s.getD []) ∘ fun ch : List β => some (ch.map f)) =
      List.map f := by
    funext ch; rfl
  rw [this, ← List.map_flatten, chunks_flatten c xs hc]

/-- the model of chunksize 0 loses everything (CPython raises) -/
theorem poolMap_chunk_zero (f : β → γ) (xs : List β) (sched : List Nat) :
    poolMap f xs 0 sched = [] := by
  unfold poolMap
  rw [chunks_zero, poolRun_eq]
  have : ∀ slots : List (Option (List γ)),
      sched.foldl (poolStep f ([] : List (List β))) slots = slots := by
    induction sched with
    | nil => intro _; rfl
    | cons t sched ih => intro slots; simp only [List.foldl_cons, poolStep]; simpa using ih slots
  rw [this]; rfl

end Prs

