/-
Proofs/Linkage.lean — single-linkage flat clusters (`flatSingle`) are the connected components of
the threshold graph; merge heights; bridge to the C15 connected-components material.
-/
import Prs.Model.Linkage
import Prs.Proofs.Cluster
import Prs.Proofs.LinkageAux
import Mathlib.Logic.Relation

namespace Prs

/-- adjacency of the t-threshold graph of the distance d on the observations 0..n-1 -/
def dAdj (d : Nat → Nat → Rat) (n : Nat) (t : Rat) (u v : Nat) : Prop := u < n ∧ v < n ∧ d u v ≤ t

/-- the Levenshtein distance matrix of a list of sequences, as a rational-valued function -/
def levDist {α : Type} [DecidableEq α] (xs : List (List α)) : Nat → Nat → Rat :=
  fun i j => ((lev (xs.getD i []) (xs.getD j []) : Nat) : Rat)

/-! ### unfolding `linkRun` -/

theorem linkRun_zero (d : Nat → Nat → Rat) (t : Option Rat) (cs : List (List Nat)) :
    linkRun d t 0 cs = (cs, []) := rfl

theorem linkRun_succ_none {d : Nat → Nat → Rat} {t : Option Rat} {cs : List (List Nat)}
    (fuel : Nat) (h : linkStep d t cs = none) : linkRun d t (fuel + 1) cs = (cs, []) := by
  simp only [linkRun, h]

theorem linkRun_succ_some {d : Nat → Nat → Rat} {t : Option Rat} {cs cs' : List (List Nat)}
    {h : Rat} (fuel : Nat) (hs : linkStep d t cs = some (cs', h)) :
    linkRun d t (fuel + 1) cs = ((linkRun d t fuel cs').1, h :: (linkRun d t fuel cs').2) := by
  simp only [linkRun, hs]

/-! ### the partition invariant -/

/-- the clusters partition 0..n-1 into non-empty blocks -/
def Part (n : Nat) (cs : List (List Nat)) : Prop :=
  cs.flatten.Perm (List.range n) ∧ ∀ c ∈ cs, c ≠ []

theorem flatten_map_singleton (l : List Nat) : (l.map fun i => [i]).flatten = l := by
  induction l with
  | nil => rfl
  | cons x xs ih => simp only [List.map_cons, List.flatten_cons, ih]; rfl

theorem part_singletons (n : Nat) : Part n (singletons n) := by
  refine ⟨?_, ?_⟩
  · unfold singletons
    rw [flatten_map_singleton]
  · intro c hc
    unfold singletons at hc
    obtain ⟨i, _, rfl⟩ := List.mem_map.1 hc
    exact List.cons_ne_nil _ _

theorem singletons_length (n : Nat) : (singletons n).length = n := by
  simp [singletons]

theorem part_step {d : Nat → Nat → Rat} {t : Option Rat} {cs cs' : List (List Nat)} {h : Rat}
    {n : Nat} (hs : linkStep d t cs = some (cs', h)) (hp : Part n cs) : Part n cs' := by
  obtain ⟨i, j, hij, hj, rfl, -, -, -⟩ := linkStep_some hs
  refine ⟨(mergeClusters_flatten_perm cs i j hij hj).trans hp.1, ?_⟩
  intro c hc
  rcases (mem_mergeClusters cs i j c).1 hc with hr | rfl
  · exact hp.2 c ((mem_of_perm_merge cs i j hij hj c).2 (Or.inr (Or.inr hr)))
  · have := hp.2 _ (getD_mem' cs i (by omega))
    intro h0
    exact this (List.append_eq_nil_iff.1 h0).1

theorem part_run (d : Nat → Nat → Rat) (t : Option Rat) (n : Nat) :
    ∀ (fuel : Nat) (cs : List (List Nat)), Part n cs → Part n (linkRun d t fuel cs).1 := by
  intro fuel
  induction fuel with
  | zero => intro cs hp; exact hp
  | succ fuel ih =>
    intro cs hp
    cases hs : linkStep d t cs with
    | none => rw [linkRun_succ_none fuel hs]; exact hp
    | some pr =>
      obtain ⟨cs', h⟩ := pr
      rw [linkRun_succ_some fuel hs]
      exact ih cs' (part_step hs hp)

theorem part_mem_lt {n : Nat} {cs : List (List Nat)} (hp : Part n cs) {c : List Nat} (hc : c ∈ cs)
    {a : Nat} (ha : a ∈ c) : a < n := by
  have : a ∈ cs.flatten := List.mem_flatten.2 ⟨c, hc, ha⟩
  exact List.mem_range.1 (hp.1.mem_iff.1 this)

theorem part_exists {n : Nat} {cs : List (List Nat)} (hp : Part n cs) {a : Nat} (ha : a < n) :
    ∃ c ∈ cs, a ∈ c := by
  have : a ∈ cs.flatten := hp.1.mem_iff.2 (List.mem_range.2 ha)
  obtain ⟨c, hc, hac⟩ := List.mem_flatten.1 this
  exact ⟨c, hc, hac⟩

theorem part_nodup {n : Nat} {cs : List (List Nat)} (hp : Part n cs) : cs.flatten.Nodup :=
  hp.1.nodup_iff.2 List.nodup_range

/-- with disjoint blocks, the block index of a point is unique -/
theorem idx_unique {cs : List (List Nat)} (hnd : cs.flatten.Nodup) {p q : Nat} (hp : p < cs.length)
    (hq : q < cs.length) {u : Nat} (hup : u ∈ cs[p]) (huq : u ∈ cs[q]) : p = q := by
  have hpw := (List.nodup_flatten.1 hnd).2
  rw [List.pairwise_iff_getElem] at hpw
  rcases Nat.lt_trichotomy p q with h | h | h
  · exact absurd huq (fun h2 => hpw p q hp hq h hup h2)
  · exact h
  · exact absurd hup (fun h2 => hpw q p hq hp h huq h2)

/-! ### the connectivity invariant -/

theorem dAdj_symm {d : Nat → Nat → Rat} (hsymm : ∀ i j, d i j = d j i) {n : Nat} {t : Rat}
    {a b : Nat} (h : dAdj d n t a b) : dAdj d n t b a :=
  ⟨h.2.1, h.1, by rw [hsymm]; exact h.2.2⟩

theorem rtg_symm {d : Nat → Nat → Rat} (hsymm : ∀ i j, d i j = d j i) {n : Nat} {t : Rat}
    {a b : Nat} (h : Relation.ReflTransGen (dAdj d n t) a b) :
    Relation.ReflTransGen (dAdj d n t) b a := by
  induction h with
  | refl => exact Relation.ReflTransGen.refl
  | tail _ hbc ih => exact Relation.ReflTransGen.head (dAdj_symm hsymm hbc) ih

/-- every block is connected in the threshold graph -/
def Conn (d : Nat → Nat → Rat) (n : Nat) (t : Rat) (cs : List (List Nat)) : Prop :=
  ∀ c ∈ cs, ∀ a ∈ c, ∀ b ∈ c, Relation.ReflTransGen (dAdj d n t) a b

theorem conn_singletons (d : Nat → Nat → Rat) (n : Nat) (t : Rat) : Conn d n t (singletons n) := by
  intro c hc a ha b hb
  unfold singletons at hc
  obtain ⟨i, _, rfl⟩ := List.mem_map.1 hc
  rw [List.mem_singleton] at ha hb
  subst ha; subst hb
  exact Relation.ReflTransGen.refl

theorem conn_step {d : Nat → Nat → Rat} (hsymm : ∀ i j, d i j = d j i) {n : Nat} {t : Rat}
    {cs cs' : List (List Nat)} {h : Rat} (hs : linkStep d (some t) cs = some (cs', h))
    (hp : Part n cs) (hc : Conn d n t cs) : Conn d n t cs' := by
  obtain ⟨i, j, hij, hj, rfl, hcd, hle, -⟩ := linkStep_some hs
  obtain ⟨⟨a0, ha0, b0, hb0, hab⟩, -⟩ := clusterDist_some d hcd
  have hi : i < cs.length := by omega
  have hci := getD_mem' cs i hi
  have hcj := getD_mem' cs j hj
  have edge : dAdj d n t a0 b0 :=
    ⟨part_mem_lt hp hci ha0, part_mem_lt hp hcj hb0, by rw [hab]; exact hle t rfl⟩
  have key : ∀ x ∈ cs.getD i [] ++ cs.getD j [], Relation.ReflTransGen (dAdj d n t) x a0 := by
    intro x hx
    rcases List.mem_append.1 hx with hx | hx
    · exact hc _ hci x hx a0 ha0
    · exact (hc _ hcj x hx b0 hb0).tail (dAdj_symm hsymm edge)
  intro c hcm a ha b hb
  rcases (mem_mergeClusters cs i j c).1 hcm with hr | rfl
  · exact hc c ((mem_of_perm_merge cs i j hij hj c).2 (Or.inr (Or.inr hr))) a ha b hb
  · exact (key a ha).trans (rtg_symm hsymm (key b hb))

theorem conn_run {d : Nat → Nat → Rat} (hsymm : ∀ i j, d i j = d j i) (n : Nat) (t : Rat) :
    ∀ (fuel : Nat) (cs : List (List Nat)), Part n cs → Conn d n t cs →
      Conn d n t (linkRun d (some t) fuel cs).1 := by
  intro fuel
  induction fuel with
  | zero => intro cs _ hc; exact hc
  | succ fuel ih =>
    intro cs hp hc
    cases hs : linkStep d (some t) cs with
    | none => rw [linkRun_succ_none fuel hs]; exact hc
    | some pr =>
      obtain ⟨cs', h⟩ := pr
      rw [linkRun_succ_some fuel hs]
      exact ih cs' (part_step hs hp) (conn_step hsymm hs hp hc)

/-! ### the state on exit -/

theorem run_final (d : Nat → Nat → Rat) (t : Rat) :
    ∀ (fuel : Nat) (cs : List (List Nat)), cs.length ≤ fuel + 1 →
      (linkRun d (some t) fuel cs).1.length ≤ 1 ∨
        linkStep d (some t) (linkRun d (some t) fuel cs).1 = none := by
  intro fuel
  induction fuel with
  | zero => intro cs hl; left; exact hl
  | succ fuel ih =>
    intro cs hl
    cases hs : linkStep d (some t) cs with
    | none => rw [linkRun_succ_none fuel hs]; right; exact hs
    | some pr =>
      obtain ⟨cs', h⟩ := pr
      rw [linkRun_succ_some fuel hs]
      apply ih cs'
      obtain ⟨i, j, hij, hj, rfl, -, -, -⟩ := linkStep_some hs
      have := mergeClusters_length cs i j hij hj
      omega

/-- when no merge below the cut is possible, threshold edges stay inside blocks -/
theorem closed_of_final {d : Nat → Nat → Rat} (hsymm : ∀ i j, d i j = d j i) {n : Nat} {t : Rat}
    {cs : List (List Nat)} (hp : Part n cs) (hfin : linkStep d (some t) cs = none) {a b : Nat}
    (hab : dAdj d n t a b) {c : List Nat} (hc : c ∈ cs) (ha : a ∈ c) : b ∈ c := by
  obtain ⟨c', hc', hb⟩ := part_exists hp hab.2.1
  obtain ⟨p, hp', rfl⟩ := List.getElem_of_mem hc
  obtain ⟨q, hq', rfl⟩ := List.getElem_of_mem hc'
  have hcut := linkStep_none_of_cut hfin
  rcases Nat.lt_trichotomy p q with h | h | h
  · exfalso
    obtain ⟨h', hh', hle⟩ := clusterDist_le d ha hb
    have := hcut p q h' h hq' (by rw [getD_eq_getElem' cs p hp', getD_eq_getElem' cs q hq']; exact hh')
    exact absurd (le_trans hle hab.2.2) (not_le.2 this)
  · subst h; exact hb
  · exfalso
    obtain ⟨h', hh', hle⟩ := clusterDist_le d hb ha
    have := hcut q p h' h hp' (by rw [getD_eq_getElem' cs p hp', getD_eq_getElem' cs q hq']; exact hh')
    rw [hsymm] at hle
    exact absurd (le_trans hle hab.2.2) (not_le.2 this)

theorem mem_eq_of_length_le_one {cs : List (List Nat)} (h : cs.length ≤ 1) {c c' : List Nat}
    (hc : c ∈ cs) (hc' : c' ∈ cs) : c = c' := by
  cases cs with
  | nil => cases hc
  | cons x r =>
    cases r with
    | nil =>
      rw [List.mem_singleton] at hc hc'
      rw [hc, hc']
    | cons y r' => simp at h

theorem together_of_rtg {d : Nat → Nat → Rat} (hsymm : ∀ i j, d i j = d j i) {n : Nat} {t : Rat}
    {cs : List (List Nat)} (hp : Part n cs)
    (hfin : cs.length ≤ 1 ∨ linkStep d (some t) cs = none) {u v : Nat} (hu : u < n) (hv : v < n)
    (h : Relation.ReflTransGen (dAdj d n t) u v) : ∃ c ∈ cs, u ∈ c ∧ v ∈ c := by
  obtain ⟨c, hc, huc⟩ := part_exists hp hu
  rcases hfin with hlen | hfin
  · obtain ⟨c', hc', hvc⟩ := part_exists hp hv
    rw [mem_eq_of_length_le_one hlen hc' hc] at hvc
    exact ⟨c, hc, huc, hvc⟩
  · refine ⟨c, hc, huc, ?_⟩
    clear hv
    induction h with
    | refl => exact huc
    | tail _ hbv ih => exact closed_of_final hsymm hp hfin hbv hc ih

/-! ### flatLabel -/

theorem flatLabel_some {cs : List (List Nat)} {u : Nat} (hu : u ∈ cs.flatten) :
    ∃ p, ∃ hp : p < cs.length, flatLabel cs u = some p ∧ u ∈ cs[p] := by
  unfold flatLabel
  cases h : cs.findIdx? (fun c => c.contains u) with
  | none =>
    exfalso
    rw [List.findIdx?_eq_none_iff] at h
    obtain ⟨c, hc, huc⟩ := List.mem_flatten.1 hu
    have := h c hc
    rw [List.contains_iff_mem.2 huc] at this
    cases this
  | some p =>
    obtain ⟨hp, hcont, _⟩ := List.findIdx?_eq_some_iff_getElem.1 h
    exact ⟨p, hp, rfl, List.contains_iff_mem.1 hcont⟩

theorem flatLabel_eq_iff {cs : List (List Nat)} (hnd : cs.flatten.Nodup) {u v : Nat}
    (hu : u ∈ cs.flatten) (hv : v ∈ cs.flatten) :
    flatLabel cs u = flatLabel cs v ↔ ∃ c ∈ cs, u ∈ c ∧ v ∈ c := by
  obtain ⟨p, hp, hlp, hup⟩ := flatLabel_some hu
  obtain ⟨q, hq, hlq, hvq⟩ := flatLabel_some hv
  rw [hlp, hlq, Option.some_inj]
  constructor
  · intro h
    subst h
    exact ⟨cs[p], List.getElem_mem hp, hup, hvq⟩
  · rintro ⟨c, hc, huc, hvc⟩
    obtain ⟨k, hk, rfl⟩ := List.getElem_of_mem hc
    rw [idx_unique hnd hp hk hup huc, idx_unique hnd hq hk hvq hvc]

/-! ### the main theorems -/

theorem flatSingle_part (d : Nat → Nat → Rat) (n : Nat) (t : Rat) : Part n (flatSingle d n t) :=
  part_run d (some t) n n (singletons n) (part_singletons n)

/-- 1. every observation lies in exactly one flat cluster, nothing else does -/
theorem flatSingle_partition (d : Nat → Nat → Rat) (n : Nat) (t : Rat) :
    (flatSingle d n t).flatten.Perm (List.range n) :=
  (flatSingle_part d n t).1

/-- 2. flat clusters are non-empty -/
theorem flatSingle_nonempty (d : Nat → Nat → Rat) (n : Nat) (t : Rat) :
    ∀ c ∈ flatSingle d n t, c ≠ [] :=
  (flatSingle_part d n t).2

/-- 3. two observations share a flat cluster iff they are connected in the threshold graph -/
theorem flatSingle_same_iff (d : Nat → Nat → Rat) (hsymm : ∀ i j, d i j = d j i) (n : Nat) (t : Rat)
    (u v : Nat) (hu : u < n) (hv : v < n) :
    (∃ c ∈ flatSingle d n t, u ∈ c ∧ v ∈ c) ↔ Relation.ReflTransGen (dAdj d n t) u v := by
  constructor
  · rintro ⟨c, hc, huc, hvc⟩
    exact conn_run hsymm n t n (singletons n) (part_singletons n) (conn_singletons d n t) c hc u huc
      v hvc
  · intro h
    refine together_of_rtg hsymm (flatSingle_part d n t) ?_ hu hv h
    exact run_final d t n (singletons n) (by rw [singletons_length]; omega)

/-- 4a. labels agree iff connected in the threshold graph -/
theorem flatLabel_same_iff (d : Nat → Nat → Rat) (hsymm : ∀ i j, d i j = d j i) (n : Nat) (t : Rat)
    (u v : Nat) (hu : u < n) (hv : v < n) :
    flatLabel (flatSingle d n t) u = flatLabel (flatSingle d n t) v ↔
      Relation.ReflTransGen (dAdj d n t) u v := by
  have hp := flatSingle_part d n t
  rw [← flatSingle_same_iff d hsymm n t u v hu hv]
  exact flatLabel_eq_iff (part_nodup hp) (hp.1.mem_iff.2 (List.mem_range.2 hu))
    (hp.1.mem_iff.2 (List.mem_range.2 hv))

/-- 4b. every observation gets a label -/
theorem flatLabel_isSome (d : Nat → Nat → Rat) (n : Nat) (t : Rat) (v : Nat) (hv : v < n) :
    (flatLabel (flatSingle d n t) v).isSome := by
  have hp := flatSingle_part d n t
  obtain ⟨p, _, hl, _⟩ := flatLabel_some (hp.1.mem_iff.2 (List.mem_range.2 hv))
  rw [hl]; rfl

/-! ### merge heights: length -/

theorem linkStep_none_isSome {d : Nat → Nat → Rat} {cs : List (List Nat)}
    (hne : ∀ c ∈ cs, c ≠ []) (hlen : 2 ≤ cs.length) : ∃ pr, linkStep d none cs = some pr := by
  cases hs : linkStep d none cs with
  | some pr => exact ⟨pr, rfl⟩
  | none =>
    exfalso
    have hnil := linkStep_none_none hs
    have h0 : cs.getD 0 [] ∈ cs := getD_mem' cs 0 (by omega)
    have h1 : cs.getD 1 [] ∈ cs := getD_mem' cs 1 (by omega)
    obtain ⟨a, ha⟩ := List.exists_mem_of_ne_nil _ (hne _ h0)
    obtain ⟨b, hb⟩ := List.exists_mem_of_ne_nil _ (hne _ h1)
    obtain ⟨h, hh, _⟩ := clusterDist_le d ha hb
    have := (mem_clusterPairs d cs 0 1 h).2 ⟨by omega, by omega, hh⟩
    rw [hnil] at this
    cases this

theorem linkStep_none_short {d : Nat → Nat → Rat} {t : Option Rat} {cs : List (List Nat)}
    (hlen : cs.length ≤ 1) : linkStep d t cs = none := by
  cases hs : linkStep d t cs with
  | none => rfl
  | some pr =>
    obtain ⟨cs', h⟩ := pr
    obtain ⟨i, j, hij, hj, -⟩ := linkStep_some hs
    omega

theorem heights_length (d : Nat → Nat → Rat) (n : Nat) :
    ∀ (fuel : Nat) (cs : List (List Nat)), Part n cs →
      (linkRun d none fuel cs).2.length = min fuel (cs.length - 1) := by
  intro fuel
  induction fuel with
  | zero => intro cs _; simp [linkRun_zero]
  | succ fuel ih =>
    intro cs hp
    by_cases hlen : cs.length ≤ 1
    · rw [linkRun_succ_none fuel (linkStep_none_short hlen)]
      simp only [List.length_nil]
      omega
    · obtain ⟨⟨cs', h⟩, hs⟩ := linkStep_none_isSome (d := d) hp.2 (by omega)
      rw [linkRun_succ_some fuel hs]
      simp only [List.length_cons]
      rw [ih cs' (part_step hs hp)]
      obtain ⟨i, j, hij, hj, rfl, -, -, -⟩ := linkStep_some hs
      have := mergeClusters_length cs i j hij hj
      omega

/-- 5. a full dendrogram on n observations has n - 1 merges -/
theorem singleHeights_length (d : Nat → Nat → Rat) (n : Nat) : (singleHeights d n).length = n - 1 := by
  unfold singleHeights
  rw [heights_length d n n (singletons n) (part_singletons n), singletons_length]
  omega

/-! ### merge heights: monotonicity -/

/-- every two points in different blocks are at distance at least h0 -/
def LB (d : Nat → Nat → Rat) (cs : List (List Nat)) (h0 : Rat) : Prop :=
  ∀ a ∈ cs.flatten, ∀ b ∈ cs.flatten, (¬ ∃ c ∈ cs, a ∈ c ∧ b ∈ c) → h0 ≤ d a b

theorem lb_of_step {d : Nat → Nat → Rat} (hsymm : ∀ i j, d i j = d j i) {t : Option Rat}
    {cs cs' : List (List Nat)} {h : Rat} (hs : linkStep d t cs = some (cs', h)) : LB d cs h := by
  obtain ⟨i, j, hij, hj, -, -, -, hmin⟩ := linkStep_some hs
  intro a ha b hb hnot
  obtain ⟨c, hc, hac⟩ := List.mem_flatten.1 ha
  obtain ⟨c', hc', hbc⟩ := List.mem_flatten.1 hb
  obtain ⟨p, hp', rfl⟩ := List.getElem_of_mem hc
  obtain ⟨q, hq', rfl⟩ := List.getElem_of_mem hc'
  rcases Nat.lt_trichotomy p q with hpq | hpq | hpq
  · obtain ⟨h', hh', hle⟩ := clusterDist_le d hac hbc
    have := hmin p q h' hpq hq'
      (by rw [getD_eq_getElem' cs p hp', getD_eq_getElem' cs q hq']; exact hh')
    exact le_trans this hle
  · subst hpq
    exact absurd ⟨cs[p], hc, hac, hbc⟩ hnot
  · obtain ⟨h', hh', hle⟩ := clusterDist_le d hbc hac
    have := hmin q p h' hpq hp'
      (by rw [getD_eq_getElem' cs p hp', getD_eq_getElem' cs q hq']; exact hh')
    rw [hsymm] at hle
    exact le_trans this hle

theorem lb_merge {d : Nat → Nat → Rat} {cs : List (List Nat)} {h0 : Rat} (hlb : LB d cs h0)
    {i j : Nat} (hij : i < j) (hj : j < cs.length) : LB d (mergeClusters cs i j) h0 := by
  intro a ha b hb hnot
  have hperm := mergeClusters_flatten_perm cs i j hij hj
  refine hlb a (hperm.mem_iff.1 ha) b (hperm.mem_iff.1 hb) ?_
  intro htog
  exact hnot (together_merge cs i j hij hj htog)

theorem lb_le_step {d : Nat → Nat → Rat} {t : Option Rat} {cs cs' : List (List Nat)} {h h0 : Rat}
    (hnd : cs.flatten.Nodup) (hlb : LB d cs h0) (hs : linkStep d t cs = some (cs', h)) :
    h0 ≤ h := by
  obtain ⟨i, j, hij, hj, -, hcd, -, -⟩ := linkStep_some hs
  obtain ⟨⟨a0, ha0, b0, hb0, hab⟩, -⟩ := clusterDist_some d hcd
  have hi : i < cs.length := by omega
  rw [← hab]
  refine hlb a0 (List.mem_flatten.2 ⟨_, getD_mem' cs i hi, ha0⟩) b0
    (List.mem_flatten.2 ⟨_, getD_mem' cs j hj, hb0⟩) ?_
  rintro ⟨c, hc, hac, hbc⟩
  obtain ⟨k, hk, rfl⟩ := List.getElem_of_mem hc
  rw [getD_eq_getElem' cs i hi] at ha0
  rw [getD_eq_getElem' cs j hj] at hb0
  have h1 := idx_unique hnd hi hk ha0 hac
  have h2 := idx_unique hnd hj hk hb0 hbc
  omega

theorem nodup_step {d : Nat → Nat → Rat} {t : Option Rat} {cs cs' : List (List Nat)} {h : Rat}
    (hs : linkStep d t cs = some (cs', h)) (hnd : cs.flatten.Nodup) : cs'.flatten.Nodup := by
  obtain ⟨i, j, hij, hj, rfl, -, -, -⟩ := linkStep_some hs
  exact (mergeClusters_flatten_perm cs i j hij hj).nodup_iff.2 hnd

theorem heights_sorted {d : Nat → Nat → Rat} (hsymm : ∀ i j, d i j = d j i) (t : Option Rat) :
    ∀ (fuel : Nat) (cs : List (List Nat)), cs.flatten.Nodup →
      (linkRun d t fuel cs).2.Pairwise (· ≤ ·) ∧
        ∀ h0, LB d cs h0 → ∀ h ∈ (linkRun d t fuel cs).2, h0 ≤ h := by
  intro fuel
  induction fuel with
  | zero =>
    intro cs _
    rw [linkRun_zero]
    exact ⟨List.Pairwise.nil, by intro h0 _ h hh; cases hh⟩
  | succ fuel ih =>
    intro cs hnd
    cases hs : linkStep d t cs with
    | none =>
      rw [linkRun_succ_none fuel hs]
      exact ⟨List.Pairwise.nil, by intro h0 _ h hh; cases hh⟩
    | some pr =>
      obtain ⟨cs', h⟩ := pr
      rw [linkRun_succ_some fuel hs]
      obtain ⟨ih1, ih2⟩ := ih cs' (nodup_step hs hnd)
      obtain ⟨i, j, hij, hj, hcs', -, -, -⟩ := linkStep_some hs
      have hlb' : ∀ h0, LB d cs h0 → LB d cs' h0 := by
        intro h0 hlb; rw [hcs']; exact lb_merge hlb hij hj
      refine ⟨List.pairwise_cons.2 ⟨?_, ih1⟩, ?_⟩
      · intro x hx
        exact ih2 h (hlb' h (lb_of_step hsymm hs)) x hx
      · intro h0 hlb x hx
        rcases List.mem_cons.1 hx with rfl | hx
        · exact lb_le_step hnd hlb hs
        · exact ih2 h0 (hlb' h0 hlb) x hx

/-- 7. single-linkage merge heights never decrease -/
theorem singleHeights_sorted (d : Nat → Nat → Rat) (hsymm : ∀ i j, d i j = d j i) (n : Nat) :
    (singleHeights d n).Pairwise (· ≤ ·) :=
  (heights_sorted hsymm none n (singletons n) (part_nodup (part_singletons n))).1

/-! ### cutting the dendrogram -/

theorem cut_eq_prefix {d : Nat → Nat → Rat} (hsymm : ∀ i j, d i j = d j i) (t : Rat) :
    ∀ (fuel : Nat) (cs : List (List Nat)), cs.flatten.Nodup →
      (linkRun d (some t) fuel cs).1 =
        (linkRun d none (((linkRun d none fuel cs).2.filter (· ≤ t)).length) cs).1 := by
  intro fuel
  induction fuel with
  | zero => intro cs _; rfl
  | succ fuel ih =>
    intro cs hnd
    have hsorted := (heights_sorted hsymm none (fuel + 1) cs hnd).1
    cases hs : linkStep d none cs with
    | none =>
      have hs' : linkStep d (some t) cs = none := by rw [linkStep_some_eq, hs]
      rw [linkRun_succ_none fuel hs', linkRun_succ_none fuel hs]
      rfl
    | some pr =>
      obtain ⟨cs', h⟩ := pr
      rw [linkRun_succ_some fuel hs] at hsorted ⊢
      by_cases hle : h ≤ t
      · have hs' : linkStep d (some t) cs = some (cs', h) := by
          rw [linkStep_some_eq, hs]; exact if_pos hle
        rw [linkRun_succ_some fuel hs', List.filter_cons_of_pos (by simpa using hle),
          List.length_cons, linkRun_succ_some _ hs]
        exact ih cs' (nodup_step hs hnd)
      · have hs' : linkStep d (some t) cs = none := by
          rw [linkStep_some_eq, hs]; exact if_neg hle
        have hnil : (h :: (linkRun d none fuel cs').2).filter (· ≤ t) = [] := by
          rw [List.filter_eq_nil_iff]
          intro x hx
          have hhx : h ≤ x := by
            rcases List.mem_cons.1 hx with rfl | hx'
            · exact le_refl _
            · exact (List.pairwise_cons.1 hsorted).1 x hx'
          have : ¬ x ≤ t := fun hxt => hle (le_trans hhx hxt)
          simpa using this
        rw [linkRun_succ_none fuel hs', hnil]
        rfl

/-- 8. cutting at t = performing exactly the merges of the full dendrogram of height ≤ t -/
theorem flatSingle_eq_prefix (d : Nat → Nat → Rat) (hsymm : ∀ i j, d i j = d j i) (n : Nat) (t : Rat) :
    flatSingle d n t =
      (linkRun d none ((singleHeights d n).filter (· ≤ t)).length (singletons n)).1 :=
  cut_eq_prefix hsymm t n (singletons n) (part_nodup (part_singletons n))

/-! ### bridge to C15 -/

section bridge
variable {α : Type} [DecidableEq α]

theorem levDist_symm (xs : List (List α)) : ∀ i j, levDist xs i j = levDist xs j i := by
  intro i j
  unfold levDist
  rw [lev_comm]

omit [DecidableEq α] in
theorem getD_of_getElem? {xs : List (List α)} {u : Nat} {a : List α} (h : xs[u]? = some a) :
    xs.getD u [] = a := by
  simp [List.getD, h]

omit [DecidableEq α] in
theorem getD_eq_getElem'' (xs : List (List α)) (i : Nat) (hi : i < xs.length) :
    xs.getD i [] = xs[i] := by
  simp [List.getD, hi]

omit [DecidableEq α] in
theorem lt_of_getElem?_some {xs : List (List α)} {u : Nat} {a : List α} (h : xs[u]? = some a) :
    u < xs.length := by
  rcases Nat.lt_or_ge u xs.length with h' | h'
  · exact h'
  · rw [List.getElem?_eq_none h'] at h; cases h

theorem rtg_dAdj_iff_threshold (xs : List (List α)) (t : Nat) (u v : Nat) :
    Relation.ReflTransGen (dAdj (levDist xs) xs.length (t : Rat)) u v ↔
      Relation.ReflTransGen (thresholdAdj xs t) u v := by
  constructor
  · intro h
    induction h with
    | refl => exact Relation.ReflTransGen.refl
    | @tail b c _ hbc ih =>
      by_cases hne : b = c
      · subst hne; exact ih
      · refine ih.tail ⟨hne, xs.getD b [], xs.getD c [], ?_, ?_, ?_⟩
        · rw [List.getElem?_eq_getElem hbc.1, getD_eq_getElem'' xs b hbc.1]
        · rw [List.getElem?_eq_getElem hbc.2.1, getD_eq_getElem'' xs c hbc.2.1]
        · have := hbc.2.2
          unfold levDist at this
          exact Nat.cast_le.1 this
  · intro h
    induction h with
    | refl => exact Relation.ReflTransGen.refl
    | @tail b c _ hbc ih =>
      obtain ⟨_, a, a', ha, ha', hl⟩ := hbc
      refine ih.tail ⟨lt_of_getElem?_some ha, lt_of_getElem?_some ha', ?_⟩
      unfold levDist
      rw [getD_of_getElem? ha, getD_of_getElem? ha']
      exact Nat.cast_le.2 hl

/-- 6. the single-linkage flat labels at integer height t agree exactly when the
connected-components labels of the neighbour graph agree -/
theorem flatSingle_lev_components (xs : List (List α)) (t : Nat) (u v : Nat)
    (hu : u < xs.length) (hv : v < xs.length) :
    flatLabel (flatSingle (levDist xs) xs.length (t : Rat)) u =
        flatLabel (flatSingle (levDist xs) xs.length t) v ↔
      (components xs.length (neighbourEdges (symdelDefault t xs)))[u]? =
        (components xs.length (neighbourEdges (symdelDefault t xs)))[v]? := by
  rw [flatLabel_same_iff (levDist xs) (levDist_symm xs) xs.length t u v hu hv,
    components_same_iff xs.length _ (neighbourEdges_edgesIn xs t) u v hu hv,
    connected_neighbourEdges_iff, rtg_dAdj_iff_threshold]

end bridge


end Prs
