/-
Proofs/FormulasDownsample.lean — `downsample` of ONE flat collection as GENERATED from pyrepseq/distance.py
(Generated/FormulasDownsample, written by tools/gen_formulas.py on every run; NumPy's `random.choice(a, m, replace=False)` is a
function parameter) satisfies the model relation `IsDownsample` whenever the choice function does what NumPy documents.
-/
import Prs.Generated.FormulasDownsample
import Prs.Model.Stats2

namespace Prs
variable {β : Type} [DecidableEq β]

/-- what `np.random.choice(a, m, replace=False)` is taken to return when m < len(a): m elements, none more often than in a -/
def ChoiceOk (choice : List β → Nat → List β) : Prop :=
  ∀ l m, m < l.length → (choice l m).length = m ∧ ∀ v, (choice l m).count v ≤ l.count v

theorem gen_downsample_ok (choice : List β → Nat → List β) (hc : ChoiceOk choice) (xs : List β) (m : Nat) :
    IsDownsample xs (some m) (Generated.downsample choice xs m) := by
  unfold Generated.downsample IsDownsample
  by_cases h : xs.length ≤ m
  · simp [h]
  · have := hc xs m (by omega)
    simp [h, this.1, this.2]

theorem gen_downsample_none (choice : List β → Nat → List β) (xs : List β) :
    IsDownsample xs none (Generated.downsample_none choice xs) := by
  unfold Generated.downsample_none IsDownsample
  first | rfl | simp

/-- and nothing is drawn when the collection is short enough: the choice function is not consulted -/
theorem gen_downsample_short (choice : List β → Nat → List β) (xs : List β) (m : Nat) (h : xs.length ≤ m) :
    Generated.downsample choice xs m = xs := by
  unfold Generated.downsample
  simp [h]

end Prs
