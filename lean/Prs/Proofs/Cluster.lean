/-
Proofs/Cluster.lean — helper definitions and lemmas for C15 (clusters are connected components of
the neighbour graph).  Uses `Relation.ReflTransGen` through Proofs/Graph.
-/
import Prs.Proofs.Graph
import Prs.Proofs.Engines
import Prs.Proofs.Lev
namespace Prs

/-! ### neighbour graph = threshold graph -/

/-- a clustering that never leaves a component: nodes with the same label are connected -/
def RefinesComponents (edges : List (Nat × Nat)) (memb : List Nat) : Prop :=
  ∀ u v lu lv, memb[u]? = some lu → memb[v]? = some lv → lu = lv → Connected edges u v

/-- edges of the neighbour graph built from search triplets -/
def neighbourEdges (ts : List (Trip Nat)) : List (Nat × Nat) := ts.map fun t => (t.1, t.2.1)

section threshold
variable {α : Type} [DecidableEq α]

/-- adjacency of the t-threshold graph of the Levenshtein matrix -/
def thresholdAdj (xs : List (List α)) (t : Nat) (u v : Nat) : Prop :=
  u ≠ v ∧ ∃ a b, xs[u]? = some a ∧ xs[v]? = some b ∧ lev a b ≤ t

theorem thresholdAdj_symm {xs : List (List α)} {t u v : Nat} (h : thresholdAdj xs t u v) :
    thresholdAdj xs t v u := by
  obtain ⟨hne, a, b, ha, hb, hl⟩ := h
  exact ⟨hne.symm, b, a, hb, ha, by rwa [lev_comm]⟩

theorem mem_neighbourEdges_symdelDefault (xs : List (List α)) (t u v : Nat) :
    (u, v) ∈ neighbourEdges (symdelDefault t xs) ↔ thresholdAdj xs t u v := by
  simp only [neighbourEdges, List.mem_map, thresholdAdj]
  constructor
  · rintro ⟨⟨i, j, d⟩, hmem, heq⟩
    simp only [Prod.mk.injEq] at heq
    obtain ⟨rfl, rfl⟩ := heq
    rw [symdelDefault_iff, selfPairs_lev] at hmem
    obtain ⟨a, b, hne, ha, hb, hl, _⟩ := hmem
    exact ⟨hne, a, b, ha, hb, hl⟩
  · rintro ⟨hne, a, b, ha, hb, hl⟩
    refine ⟨(u, v, lev a b), ?_, rfl⟩
    rw [symdelDefault_iff, selfPairs_lev]
    exact ⟨a, b, hne, ha, hb, hl, rfl⟩

theorem adj_neighbourEdges_symdelDefault (xs : List (List α)) (t u v : Nat) :
    Adj (neighbourEdges (symdelDefault t xs)) u v ↔ thresholdAdj xs t u v := by
  unfold Adj
  rw [mem_neighbourEdges_symdelDefault, mem_neighbourEdges_symdelDefault]
  exact ⟨fun h => h.elim id thresholdAdj_symm, Or.inl⟩

theorem neighbourEdges_edgesIn (xs : List (List α)) (t : Nat) :
    EdgesIn xs.length (neighbourEdges (symdelDefault t xs)) := by
  rintro ⟨u, v⟩ he
  obtain ⟨_, a, b, ha, hb, _⟩ := (mem_neighbourEdges_symdelDefault xs t u v).1 he
  have hu : u < xs.length := by
    rcases Nat.lt_or_ge u xs.length with h | h
    · exact h
    · rw [List.getElem?_eq_none h] at ha; cases ha
  have hv : v < xs.length := by
    rcases Nat.lt_or_ge v xs.length with h | h
    · exact h
    · rw [List.getElem?_eq_none h] at hb; cases hb
  exact ⟨hu, hv⟩

/-- connectedness in the neighbour graph is connectedness in the threshold graph -/
theorem connected_neighbourEdges_iff (xs : List (List α)) (t u v : Nat) :
    Connected (neighbourEdges (symdelDefault t xs)) u v ↔
      Relation.ReflTransGen (thresholdAdj xs t) u v := by
  have : Adj (neighbourEdges (symdelDefault t xs)) = thresholdAdj xs t := by
    funext a b
    exact propext (adj_neighbourEdges_symdelDefault xs t a b)
  unfold Connected
  rw [this]

end threshold

/-- labels of rows of `graph_clustering('cc')` agree iff the nodes are connected -/
theorem graphClusteringCC_labels (n : Nat) (edges : List (Nat × Nat)) (hE : EdgesIn n edges)
    (u v lu lv : Nat) (hu : (u, lu) ∈ graphClusteringCC n edges)
    (hv : (v, lv) ∈ graphClusteringCC n edges) : lu = lv ↔ Connected edges u v := by
  obtain ⟨hun, rfl, _⟩ := (mem_graphClusteringCC n edges hE u lu).1 hu
  obtain ⟨hvn, rfl, _⟩ := (mem_graphClusteringCC n edges hE v lv).1 hv
  exact compLabel_eq_iff n edges hE u v hun hvn

end Prs
