/-
Proofs/NeighborLoops3.lean — `calculate_neighbor_numbers` and `find_neighbor_pairs_index` as GENERATED from
pyrepseq/distance.py (Generated/NeighborLoops, tools/gen_loops.py, every run) are the hand-written models
`neighborNumbers`, `findNeighborPairsIndex` of Model/Neighbors (Python ints seen as Lean `Int`).
-/
import Prs.Proofs.NeighborLoops2
import Prs.Proofs.Util
import Mathlib.Tactic.CongrExclamation

namespace Prs
variable {α : Type} [DecidableEq α] [Inhabited α]

theorem filter_mem_dedup {β : Type} [DecidableEq β] (l xs : List β) :
    (l.filter fun y => decide (y ∈ dedup xs)) = l.filter fun y => decide (y ∈ xs) := by
  apply List.filter_congr
  intro y _
  simp [mem_dedup]

/-- the two files decide `y ∈ l` on lists of strings through different (equal) instances -/
theorem filter_inst {β : Type} (p : β → Prop) (i1 i2 : DecidablePred p) (l : List β) :
    (l.filter fun y => @decide (p y) (i1 y)) = l.filter fun y => @decide (p y) (i2 y) := by
  have : i1 = i2 := Subsingleton.elim _ _
  subst this
  rfl

theorem gen_neighbor_numbers_eq (nb : List α → List (List α)) (xs : List (List α)) (ref : Option (List (List α))) :
    Generated.calculate_neighbor_numbers xs ref nb = (neighborNumbers nb xs ref).map fun n : Nat => (n : Int) := by
  unfold Generated.calculate_neighbor_numbers neighborNumbers
  cases ref with
  | none =>
    simp only [Option.getD_none, mem_dedup, List.map_map, Function.comp_def]
    apply List.map_congr_left
    intro a _
    congr!
  | some r =>
    simp only [Option.getD_some, List.map_map, Function.comp_def]
    apply List.map_congr_left
    intro a _
    congr!

theorem flatMap_singleton_map {β γ : Type} (f : β → γ) (l : List β) : (l.flatMap fun y => [f y]) = l.map f := by
  induction l with
  | nil => rfl
  | cons y l ih => simp [List.flatMap_cons, ih]

theorem gen_pairs_index_eq (nb : List α → List (List α)) (xs : List (List α)) :
    Generated.find_neighbor_pairs_index xs nb
      = (findNeighborPairsIndex nb xs).map fun p : Nat × Nat => ((p.1 : Int), (p.2 : Int)) := by
  unfold Generated.find_neighbor_pairs_index findNeighborPairsIndex Py.enumerate Py.index
  simp only [mem_dedup, List.flatMap_map, List.map_flatMap, List.map_map, flatMap_singleton_map]
  apply flatMap_congr'
  intro xi _
  congr!

end Prs
