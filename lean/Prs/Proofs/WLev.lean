/-
Proofs/WLev.lean — alignment characterisation of the weighted Levenshtein distance `wlev`
(core Lean only).  `EdW wi wd ws n a b` : there is an edit script of total weight n turning a into b.
-/
import Prs.Model.Lev
import Prs.Proofs.LevDP
namespace Prs
variable {α : Type}

/-- edit scripts turning a into b with total weight n -/
inductive EdW {α : Type} (wi wd ws : Nat) : Nat → List α → List α → Prop
  | nil : EdW wi wd ws 0 [] []
  | keep {n a b} (c : α) : EdW wi wd ws n a b → EdW wi wd ws n (c :: a) (c :: b)
  | sub {n a b} (x y : α) : EdW wi wd ws n a b → EdW wi wd ws (n + ws) (x :: a) (y :: b)
  | del {n a b} (x : α) : EdW wi wd ws n a b → EdW wi wd ws (n + wd) (x :: a) b
  | ins {n a b} (y : α) : EdW wi wd ws n a b → EdW wi wd ws (n + wi) a (y :: b)

variable {wi wd ws : Nat}

theorem EdW_nil_left (wi wd ws : Nat) : ∀ (b : List α), EdW wi wd ws (wi * b.length) [] b
  | [] => EdW.nil
  | y :: b => by
    have := EdW.ins (wi := wi) (wd := wd) (ws := ws) y (EdW_nil_left wi wd ws b)
    simpa [Nat.mul_succ] using this

theorem EdW_nil_right (wi wd ws : Nat) : ∀ (a : List α), EdW wi wd ws (wd * a.length) a []
  | [] => EdW.nil
  | x :: a => by
    have := EdW.del (wi := wi) (wd := wd) (ws := ws) x (EdW_nil_right wi wd ws a)
    simpa [Nat.mul_succ] using this

theorem EdW_refl : ∀ s : List α, EdW wi wd ws 0 s s
  | [] => EdW.nil
  | c :: s => EdW.keep c (EdW_refl s)

/-- reversing the direction of a script swaps insertions and deletions -/
theorem EdW_symm {n : Nat} {a b : List α} (h : EdW wi wd ws n a b) : EdW wd wi ws n b a := by
  induction h with
  | nil => exact EdW.nil
  | keep c _ ih => exact EdW.keep c ih
  | sub x y _ ih => exact EdW.sub y x ih
  | del x _ ih => exact EdW.ins x ih
  | ins y _ ih => exact EdW.del y ih

/-- scaling all weights scales the total weight -/
theorem EdW_scale (c : Nat) {n : Nat} {a b : List α} (h : EdW wi wd ws n a b) :
    EdW (c * wi) (c * wd) (c * ws) (c * n) a b := by
  induction h with
  | nil => exact EdW.nil
  | keep x _ ih => exact EdW.keep x ih
  | sub x y _ ih => rw [Nat.mul_add]; exact EdW.sub x y ih
  | del x _ ih => rw [Nat.mul_add]; exact EdW.del x ih
  | ins y _ ih => rw [Nat.mul_add]; exact EdW.ins y ih

variable [DecidableEq α]

/-- the value `wlev a b` is attained by an edit script -/
theorem wlev_EdW (wi wd ws : Nat) (a b : List α) : EdW wi wd ws (wlev wi wd ws a b) a b := by
  induction a, b using wlev.induct with
  | case1 ys => simpa [wlev] using EdW_nil_left wi wd ws ys
  | case2 xs h =>
    cases xs with
    | nil => simp at h
    | cons x xs => simpa [wlev] using EdW_nil_right wi wd ws (x :: xs)
  | case3 x xs y ys ih1 ih2 ih3 =>
    rw [wlev]
    have h1 := EdW.del x ih1
    have h2 := EdW.ins y ih2
    have h3 : EdW wi wd ws (wlev wi wd ws xs ys + (if x = y then 0 else ws)) (x :: xs) (y :: ys) := by
      by_cases hxy : x = y
      · subst hxy; simpa using EdW.keep x ih3
      · simpa [hxy] using EdW.sub x y ih3
    generalize (wlev wi wd ws xs ys + (if x = y then 0 else ws)) = c at h3 ⊢
    simp only [Nat.min_def]
    split <;> split <;> first | exact h1 | exact h2 | exact h3

/-- no edit script is cheaper than `wlev a b` -/
theorem EdW_wlev {n : Nat} {a b : List α} (h : EdW wi wd ws n a b) : wlev wi wd ws a b ≤ n := by
  induction h with
  | nil => simp [wlev]
  | keep c _ ih => rw [wlev_cons_cons]; simp; omega
  | @sub n a b x y _ ih => rw [wlev_cons_cons]; by_cases hxy : x = y <;> simp [hxy] <;> omega
  | @del n a b x _ ih =>
    cases b with
    | nil =>
      rw [wlev_nil_right] at ih ⊢
      rw [List.length_cons, Nat.mul_succ]; omega
    | cons y b => rw [wlev_cons_cons]; omega
  | @ins n a b y _ ih =>
    cases a with
    | nil =>
      rw [wlev_nil_left] at ih ⊢
      rw [List.length_cons, Nat.mul_succ]; omega
    | cons x a => rw [wlev_cons_cons]; omega

/-- `wlev a b` is the minimum total weight of an edit script turning a into b -/
theorem wlev_le_iff (a b : List α) (n : Nat) :
    wlev wi wd ws a b ≤ n ↔ ∃ m, m ≤ n ∧ EdW wi wd ws m a b :=
  ⟨fun h => ⟨_, h, wlev_EdW wi wd ws a b⟩, fun ⟨_, hm, h⟩ => Nat.le_trans (EdW_wlev h) hm⟩

theorem wlev_self (a : List α) : wlev wi wd ws a a = 0 :=
  Nat.le_zero.mp (EdW_wlev (EdW_refl a))

/-- reversing direction swaps insertion and deletion weights -/
theorem wlev_swap (a b : List α) : wlev wi wd ws a b = wlev wd wi ws b a :=
  Nat.le_antisymm (EdW_wlev (EdW_symm (wlev_EdW wd wi ws b a)))
    (EdW_wlev (EdW_symm (wlev_EdW wi wd ws a b)))

/-- with equal insertion/deletion weights `wlev` is symmetric -/
theorem wlev_comm (w ws : Nat) (a b : List α) : wlev w w ws a b = wlev w w ws b a :=
  wlev_swap a b

theorem wlev_scale (c wi wd ws : Nat) (a b : List α) :
    wlev (c * wi) (c * wd) (c * ws) a b = c * wlev wi wd ws a b := by
  induction a, b using wlev.induct with
  | case1 ys => simp [wlev, Nat.mul_assoc]
  | case2 xs h =>
    cases xs with
    | nil => simp at h
    | cons x xs => simp [wlev, Nat.mul_assoc]
  | case3 x xs y ys ih1 ih2 ih3 =>
    rw [wlev_cons_cons, wlev_cons_cons, ih1, ih2, ih3, ← Nat.mul_min_mul_left,
      ← Nat.mul_min_mul_left, Nat.mul_add, Nat.mul_add, Nat.mul_add]
    by_cases hxy : x = y <;> simp [hxy]

end Prs

