/-
Proofs/Cleaning.lean — helper lemmas for C18 (input cleaning predicates, standardize_dataframe).
-/
import Prs.Model.Cleaning
namespace Prs

/-- `all(...)` over items only ever raises TypeError -/
theorem allInAA_ok_or_typeError (A : List Char) (xs : List PyItem) :
    (∃ b, allInAA A xs = .ok b) ∨ allInAA A xs = .error .typeError := by
  induction xs with
  | nil => exact .inl ⟨true, rfl⟩
  | cons x xs ih =>
    cases x with
    | char c =>
      cases h : A.contains c with
      | true =>
        have : allInAA A (.char c :: xs) = allInAA A xs := by
          simp only [allInAA, itemInAA, h, bind, Except.bind, if_true]
        rw [this]; exact ih
      | false =>
        exact .inl ⟨false, by
          simp only [allInAA, itemInAA, h, bind, Except.bind, pure, Except.pure,
            Bool.false_eq_true, if_false]⟩
    | str s => exact .inl ⟨false, by simp [allInAA, itemInAA, bind, Except.bind, pure, Except.pure]⟩
    | int n => exact .inl ⟨false, by simp [allInAA, itemInAA, bind, Except.bind, pure, Except.pure]⟩
    | otherHashable =>
      exact .inl ⟨false, by simp [allInAA, itemInAA, bind, Except.bind, pure, Except.pure]⟩
    | unhashable => exact .inr (by simp [allInAA, itemInAA, bind, Except.bind])

theorem allInAA_chars (A : List Char) (s : List Char) :
    allInAA A (s.map .char) = .ok (s.all fun c => A.contains c) := by
  induction s with
  | nil => rfl
  | cons c s ih =>
    by_cases h : A.contains c = true
    · simp only [List.map_cons, allInAA, itemInAA, bind, Except.bind, h, if_true, List.all_cons,
        Bool.true_and]
      exact ih
    · simp only [Bool.not_eq_true] at h
      simp only [List.map_cons, allInAA, itemInAA, bind, Except.bind, h, pure, Except.pure,
        Bool.false_eq_true, if_false, List.all_cons, Bool.false_and]

theorem iter_ok_or_typeError (o : PyObj) :
    (∃ xs, o.iter = .ok xs) ∨ o.iter = .error .typeError := by
  cases o <;> first | exact .inl ⟨_, rfl⟩ | exact .inr rfl

theorem isvalidaa_total (A : List Char) (o : PyObj) : ∃ b, isvalidaa A o = .ok b := by
  unfold isvalidaa
  rcases iter_ok_or_typeError o with ⟨xs, h⟩ | h
  · rw [h]
    rcases allInAA_ok_or_typeError A xs with ⟨b, hb⟩ | hb
    · exact ⟨b, by simp [bind, Except.bind, hb]⟩
    · exact ⟨false, by simp [bind, Except.bind, hb]⟩
  · rw [h]; exact ⟨false, by simp [bind, Except.bind]⟩

theorem isvalidaa_str (A : List Char) (s : List Char) :
    isvalidaa A (.str s) = .ok (s.all fun c => A.contains c) := by
  simp [isvalidaa, PyObj.iter, bind, Except.bind, allInAA_chars]

/-- indexing raises only TypeError, IndexError or KeyError -/
theorem index_err (o : PyObj) (first : Bool) (e : PyErr) (h : o.index first = .error e) :
    e = .typeError ∨ e = .indexError ∨ e = .keyError := by
  have pick : ∀ xs : List PyItem,
      (match (if first then xs.head? else xs.getLast?) with
        | some x => (Except.ok x : Except PyErr PyItem)
        | Option.none => .error .indexError) = .error e → e = .indexError := by
    intro xs hx
    split at hx
    · cases hx
    · cases hx; rfl
  cases o with
  | str s => exact .inr (.inl (pick _ h))
  | bytes b => exact .inr (.inl (pick _ h))
  | list xs => exact .inr (.inl (pick _ h))
  | tuple xs => exact .inr (.inl (pick _ h))
  | dict ks =>
    simp only [PyObj.index] at h
    generalize ks.contains (PyItem.int (if first = true then 0 else -1)) = b at h
    split at h
    · cases h
    · cases h; exact .inr (.inr rfl)
  | set xs => cases h; exact .inl rfl
  | none => cases h; exact .inl rfl
  | nan => cases h; exact .inl rfl
  | int n => cases h; exact .inl rfl
  | float => cases h; exact .inl rfl
  | other => cases h; exact .inl rfl

theorem isvalidcdr3Body_err (A : List Char) (o : PyObj) (e : PyErr)
    (h : isvalidcdr3Body A o = .error e) : e = .typeError ∨ e = .indexError ∨ e = .keyError := by
  unfold isvalidcdr3Body at h
  obtain ⟨b, hb⟩ := isvalidaa_total A o
  rw [hb] at h
  simp only [bind, Except.bind] at h
  cases b with
  | false => simp [pure, Except.pure] at h
  | true =>
    simp only [Bool.not_true, Bool.false_eq_true, if_false] at h
    cases h1 : o.index true with
    | error e1 =>
      rw [h1] at h; simp only at h
      cases h; exact index_err o true _ h1
    | ok a =>
      rw [h1] at h; simp only at h
      split at h
      · simp [pure, Except.pure] at h
      · cases h2 : o.index false with
        | error e2 => rw [h2] at h; cases h; exact index_err o false _ h2
        | ok z => rw [h2] at h; simp [pure, Except.pure] at h

theorem isvalidcdr3_total (A : List Char) (o : PyObj) : ∃ b, isvalidcdr3 A o = .ok b := by
  unfold isvalidcdr3 isvalidcdr3With
  cases h : isvalidcdr3Body A o with
  | ok b => exact ⟨b, rfl⟩
  | error e =>
    rcases isvalidcdr3Body_err A o e h with rfl | rfl | rfl <;> exact ⟨false, by simp⟩

theorem head?_map_char (s : List Char) : (s.map PyItem.char).head? = s.head?.map .char := by
  cases s <;> rfl

theorem getLast?_map_char (s : List Char) :
    (s.map PyItem.char).getLast? = s.getLast?.map .char := by
  simp [List.getLast?_map]

theorem isvalidcdr3_str (A : List Char) (s : List Char) :
    isvalidcdr3 A (.str s) = .ok (decide (s ≠ []) && (s.all fun c => A.contains c) &&
      decide (s.head? = some 'C') &&
      decide (s.getLast? = some 'F' ∨ s.getLast? = some 'W' ∨ s.getLast? = some 'C')) := by
  unfold isvalidcdr3 isvalidcdr3With isvalidcdr3Body
  rw [isvalidaa_str]
  cases s with
  | nil => simp [bind, Except.bind, PyObj.index]
  | cons c s =>
    cases hall : ((c :: s).all fun c => A.contains c) with
    | false => simp [bind, Except.bind, pure, Except.pure]
    | true =>
      have hl : ∃ z, (c :: s).getLast? = some z := ⟨_, List.getLast?_eq_some_getLast (by simp)⟩
      obtain ⟨z, hz⟩ := hl
      have hz' : ((c :: s).map PyItem.char).getLast? = some (.char z) := by
        rw [getLast?_map_char, hz]; rfl
      simp only [bind, Except.bind, pure, Except.pure, PyObj.index, Bool.not_true,
        Bool.false_eq_true, if_false, if_true, List.map_cons, List.head?_cons]
      rw [← List.map_cons, hz', hz]
      by_cases hc : c = 'C'
      · subst hc
        simp [Bool.or_assoc]
      · simp [hc]

/-! ### table lemmas -/

theorem renameColumns_length (mapper : List (String × String)) (cols : List String) :
    (renameColumns mapper cols).length = cols.length := by
  simp [renameColumns]

theorem standardizeTable_entry (mapper : List (String × String)) (standardize : Bool)
    (f : String → List Char → TCell) (t : Table) (i j : Nat) (row : List TCell) (cell : TCell)
    (col : String) (hrow : t.rows[i]? = some row) (hcell : row[j]? = some cell)
    (hcol : (renameColumns mapper t.columns)[j]? = some col) :
    ((standardizeTable mapper standardize f t).rows[i]?.bind (·[j]?)) =
      some (if standardize && standardColumns.contains col then cell.bind (f col) else cell) := by
  have hz : (row.zip (renameColumns mapper t.columns))[j]? = some (cell, col) :=
    List.getElem?_zip_eq_some.2 ⟨hcell, hcol⟩
  simp only [standardizeTable, List.getElem?_map, hrow, Option.map_some, Option.bind_some, hz]
  cases cell <;> rfl

theorem zip_map_fst {α β : Type} (l : List α) (m : List β) (h : l.length ≤ m.length) :
    (l.zip m).map (·.1) = l := by
  induction l generalizing m with
  | nil => rfl
  | cons a l ih =>
    cases m with
    | nil => simp at h
    | cons b m => simp [ih m (by simpa using h)]

/-- the exception classes named in an `except` clause, as the model's error enum (any other class: `other`) -/
def pyErrOfName : String → PyErr
  | "TypeError" => .typeError
  | "IndexError" => .indexError
  | "KeyError" => .keyError
  | _ => .other

/-- `isvalidcdr3With` depends on the caught list only through membership -/
theorem isvalidcdr3With_congr (c1 c2 : List PyErr) (h : ∀ e, c1.contains e = c2.contains e) (A : List Char) (o : PyObj) :
    isvalidcdr3With c1 A o = isvalidcdr3With c2 A o := by
  unfold isvalidcdr3With
  cases isvalidcdr3Body A o with
  | ok b => rfl
  | error e => simp only [h e]

end Prs
