/- Proofs/Coo.lean — the dense output matrix of `_make_output` (core Lean only). -/
import Prs.Model.Search
namespace Prs

theorem cooDense_shape (trip : List (Trip Int)) (nRef nQry : Nat) :
    (cooDense trip nRef nQry).length = nRef ∧ ∀ row ∈ cooDense trip nRef nQry, row.length = nQry := by
  refine ⟨by simp [cooDense], ?_⟩
  intro row h
  simp only [cooDense, List.mem_map] at h
  obtain ⟨r, _, rfl⟩ := h
  simp

/-- a repeated pair is ACCUMULATED (why duplicates in the triplets would corrupt the matrix) -/
theorem cooDense_sum (trip : List (Trip Int)) (nRef nQry q r : Nat) (hq : q < nQry) (hr : r < nRef) :
    ((cooDense trip nRef nQry)[r]?.bind (·[q]?)) =
      some (((trip.filter fun t => t.1 == q && t.2.1 == r).map (·.2.2)).foldl (· + ·) 0) := by
  simp [cooDense, List.getElem?_map, List.getElem?_range hr, List.getElem?_range hq]

theorem cooDense_zero (trip : List (Trip Int)) (nRef nQry q r : Nat) (hq : q < nQry) (hr : r < nRef)
    (h : ∀ d, (q, r, d) ∉ trip) :
    ((cooDense trip nRef nQry)[r]?.bind (·[q]?)) = some 0 := by
  rw [cooDense_sum trip nRef nQry q r hq hr]
  have : (trip.filter fun t => t.1 == q && t.2.1 == r) = [] := by
    rw [List.filter_eq_nil_iff]
    rintro ⟨q', r', d⟩ hm
    simp only [Bool.and_eq_true, beq_iff_eq, not_and]
    rintro rfl rfl
    exact h d hm
  rw [this]; rfl

/-- if the position pairs of the triplets are duplicate-free, the triplets at position (q, r)
    are exactly `[(q, r, d)]` -/
theorem filter_pos_singleton (trip : List (Trip Int))
    (hnd : (trip.map fun t => (t.1, t.2.1)).Nodup) (q r : Nat) (d : Int) (h : (q, r, d) ∈ trip) :
    (trip.filter fun t => t.1 == q && t.2.1 == r) = [(q, r, d)] := by
  induction trip with
  | nil => simp at h
  | cons t trip ih =>
    simp only [List.map_cons, List.nodup_cons] at hnd
    rcases List.mem_cons.1 h with rfl | h'
    · have : (trip.filter fun t => t.1 == q && t.2.1 == r) = [] := by
        rw [List.filter_eq_nil_iff]
        rintro ⟨q', r', d'⟩ hm
        simp only [Bool.and_eq_true, beq_iff_eq, not_and]
        rintro rfl rfl
        exact hnd.1 (List.mem_map.2 ⟨_, hm, rfl⟩)
      simp [this]
    · have hne : ¬ (t.1 = q ∧ t.2.1 = r) := by
        rintro ⟨h1, h2⟩
        apply hnd.1
        rw [h1, h2]
        exact List.mem_map.2 ⟨_, h', rfl⟩
      have : ((t.1 == q && t.2.1 == r) = true) ↔ (t.1 = q ∧ t.2.1 = r) := by simp
      rw [List.filter_cons, if_neg (fun hh => hne (this.1 hh))]
      exact ih hnd.2 h'

/-- with no (q, r) position pair occurring twice, the matrix holds d at [r][q] for every triplet
    (q, r, d) and 0 elsewhere (`cooDense_zero`) -/
theorem cooDense_entry (trip : List (Trip Int)) (nRef nQry : Nat)
    (hnd : (trip.map fun t => (t.1, t.2.1)).Nodup)
    (q r : Nat) (d : Int) (hq : q < nQry) (hr : r < nRef) (h : (q, r, d) ∈ trip) :
    ((cooDense trip nRef nQry)[r]?.bind (·[q]?)) = some d := by
  rw [cooDense_sum trip nRef nQry q r hq hr, filter_pos_singleton trip hnd q r d h]
  simp

end Prs

