/- Proofs/OneEdit.lean — the one-edit generators of pyrepseq/distance.py (core Lean only).
`Step A x y`: y arises from x by one deletion, one substitution by a different letter of A, or one
insertion of a letter of A. -/
import Prs.Proofs.Lev
import Prs.Model.Search
namespace Prs
variable {α : Type} [DecidableEq α]

theorem delsAux_length (prev : Option α) (s t : List α) (h : t ∈ delsAux prev s) :
    t.length + 1 = s.length := by
  induction s generalizing prev t with
  | nil => simp [delsAux] at h
  | cons c s ih =>
    simp only [delsAux, List.mem_append, List.mem_map] at h
    rcases h with h | ⟨t', ht', rfl⟩
    · split at h <;> simp_all
    · simp [ih _ _ ht']

theorem not_mem_delsAux_self (c : α) (t : List α) : t ∉ delsAux (some c) (c :: t) := by
  induction t with
  | nil => simp [delsAux]
  | cons d t ih =>
    simp only [delsAux, if_pos, List.nil_append, List.mem_map, not_exists, not_and]
    intro u hu heq
    injection heq with h1 h2
    subst h1 h2
    exact ih hu

theorem delsAux_nodup (prev : Option α) (s : List α) : (delsAux prev s).Nodup := by
  induction s generalizing prev with
  | nil => simp [delsAux]
  | cons c s ih =>
    simp only [delsAux]
    have hmap : ((delsAux (some c) s).map (c :: ·)).Nodup :=
      (ih (some c)).map (c :: ·) (fun a b hab h => hab (List.cons.inj h).2)
    split
    · simpa using hmap
    · simp only [List.singleton_append, List.nodup_cons]
      refine ⟨?_, hmap⟩
      simp only [List.mem_map, not_exists, not_and]
      intro t ht heq
      subst heq
      exact not_mem_delsAux_self c t ht

theorem insAux_length (A : List α) (prev : Option α) (s t : List α) (h : t ∈ insAux A prev s) :
    t.length = s.length + 1 := by
  induction s generalizing prev t with
  | nil => simp [insAux] at h; obtain ⟨a, _, rfl⟩ := h; rfl
  | cons c s ih =>
    simp only [insAux, List.mem_append, List.mem_map] at h
    rcases h with ⟨a, _, rfl⟩ | ⟨t', ht', rfl⟩
    · simp
    · simp [ih _ _ ht']

theorem not_mem_insAux_self (A : List α) (c : α) (u : List α) : c :: u ∉ insAux A (some c) u := by
  induction u with
  | nil => simp [insAux]
  | cons d u ih =>
    simp only [insAux, List.mem_append, List.mem_map, List.mem_filter, not_or, not_exists, not_and]
    constructor
    · rintro a ⟨_, ha⟩ heq
      injection heq with h1 _
      subst h1; simp at ha
    · intro t ht heq
      injection heq with h1 h2
      subst h1 h2
      exact ih ht

theorem insAux_nodup (A : List α) (hA : A.Nodup) (prev : Option α) (s : List α) :
    (insAux A prev s).Nodup := by
  induction s generalizing prev with
  | nil =>
    simp only [insAux]
    exact (hA.filter _).map (fun a => [a]) (fun a b hab h => hab (List.cons.inj h).1)
  | cons c s ih =>
    simp only [insAux]
    rw [List.nodup_append]
    refine ⟨(hA.filter _).map (· :: c :: s) (fun a b hab h => hab (List.cons.inj h).1),
            (ih (some c)).map (c :: ·) (fun a b hab h => hab (List.cons.inj h).2), ?_⟩
    intro t1 h1 t2 h2 heq
    simp only [List.mem_map, List.mem_filter] at h1 h2
    obtain ⟨a, _, rfl⟩ := h1
    obtain ⟨t, ht, rfl⟩ := h2
    injection heq with e1 e2
    subst e1 e2
    exact not_mem_insAux_self A a s ht

inductive Step (A : List α) : List α → List α → Prop
  | del (c : α) (s : List α) : Step A (c :: s) s
  | sub (c d : α) (s : List α) : d ∈ A → d ≠ c → Step A (c :: s) (d :: s)
  | ins (d : α) (s : List α) : d ∈ A → Step A s (d :: s)
  | cons (c : α) {s t : List α} : Step A s t → Step A (c :: s) (c :: t)

/-! ### generated ⊆ Step -/
theorem delsAux_step (A : List α) (p : Option α) (s t : List α) (h : t ∈ delsAux p s) : Step A s t := by
  induction s generalizing p t with
  | nil => simp [delsAux] at h
  | cons c s ih =>
    simp only [delsAux, List.mem_append, List.mem_map] at h
    rcases h with h | ⟨u, hu, rfl⟩
    · split at h
      · simp at h
      · simp at h; rw [h]; exact Step.del c s
    · exact Step.cons c (ih _ _ hu)

theorem subsAux_step (A : List α) (s t : List α) (h : t ∈ subsAux A s) : Step A s t := by
  induction s generalizing t with
  | nil => simp [subsAux] at h
  | cons c s ih =>
    simp only [subsAux, List.mem_append, List.mem_map, List.mem_filter] at h
    rcases h with ⟨d, ⟨hd, hne⟩, rfl⟩ | ⟨u, hu, rfl⟩
    · exact Step.sub c d s hd (by simpa using hne)
    · exact Step.cons c (ih _ hu)

theorem insAux_step (A : List α) (p : Option α) (s t : List α) (h : t ∈ insAux A p s) : Step A s t := by
  induction s generalizing p t with
  | nil =>
    simp only [insAux, List.mem_map, List.mem_filter] at h
    obtain ⟨d, ⟨hd, _⟩, rfl⟩ := h
    exact Step.ins d [] hd
  | cons c s ih =>
    simp only [insAux, List.mem_append, List.mem_map, List.mem_filter] at h
    rcases h with ⟨d, ⟨hd, _⟩, rfl⟩ | ⟨u, hu, rfl⟩
    · exact Step.ins d (c :: s) hd
    · exact Step.cons c (ih _ _ hu)

/-! ### changing the "previous letter" only removes the one variant that is generated elsewhere -/
theorem delsAux_prev (c : α) (s t : List α) (h : t ∈ delsAux none s) :
    t ∈ delsAux (some c) s ∨ s = c :: t := by
  cases s with
  | nil => simp [delsAux] at h
  | cons d s =>
    simp only [delsAux, List.mem_append, List.mem_map] at h ⊢
    rcases h with h | h
    · simp at h; subst h
      by_cases hcd : c = d
      · right; rw [hcd]
      · left; left; simp [hcd]
    · left; right; exact h

theorem insAux_prev (A : List α) (c : α) (s t : List α) (h : t ∈ insAux A none s) :
    t ∈ insAux A (some c) s ∨ (t = c :: s ∧ c ∈ A) := by
  cases s with
  | nil =>
    simp only [insAux, List.mem_map, List.mem_filter] at h ⊢
    obtain ⟨d, ⟨hd, _⟩, rfl⟩ := h
    by_cases hcd : c = d
    · right; subst hcd; exact ⟨rfl, hd⟩
    · left; exact ⟨d, ⟨hd, by simpa using hcd⟩, rfl⟩
  | cons e s =>
    simp only [insAux, List.mem_append, List.mem_map, List.mem_filter] at h ⊢
    rcases h with ⟨d, ⟨hd, _⟩, rfl⟩ | h
    · by_cases hcd : c = d
      · right; subst hcd; exact ⟨rfl, hd⟩
      · left; left; exact ⟨d, ⟨hd, by simpa using hcd⟩, rfl⟩
    · left; right; exact h

/-! ### Step ⊆ generated -/
theorem step_mem (A : List α) {s t : List α} (h : Step A s t) : t ∈ levNeighbors A s := by
  induction h with
  | del c s => simp [levNeighbors, delsAux]
  | sub c d s hd hne =>
    simp only [levNeighbors, List.mem_append]
    left; right
    simp only [subsAux, List.mem_append, List.mem_map, List.mem_filter]
    left; exact ⟨d, ⟨hd, by simpa using hne⟩, rfl⟩
  | ins d s hd =>
    simp only [levNeighbors, List.mem_append]
    right
    cases s with
    | nil => simp [insAux, hd]
    | cons e s => simp [insAux, hd]
  | @cons c s t _ ih =>
    simp only [levNeighbors, List.mem_append] at ih ⊢
    rcases ih with (h | h) | h
    · rcases delsAux_prev c s t h with h' | h'
      · left; left; simp only [delsAux, List.mem_append, List.mem_map]; right; exact ⟨t, h', rfl⟩
      · left; left; subst h'; simp [delsAux]
    · left; right; simp only [subsAux, List.mem_append, List.mem_map]; right; exact ⟨t, h, rfl⟩
    · rcases insAux_prev A c s t h with h' | ⟨h', hc⟩
      · right; simp only [insAux, List.mem_append, List.mem_map]; right; exact ⟨t, h', rfl⟩
      · right; subst h'; simp [insAux, hc]

theorem mem_levNeighbors (A : List α) (s t : List α) : t ∈ levNeighbors A s ↔ Step A s t := by
  constructor
  · intro h
    simp only [levNeighbors, List.mem_append] at h
    rcases h with (h | h) | h
    · exact delsAux_step A _ _ _ h
    · exact subsAux_step A _ _ h
    · exact insAux_step A _ _ _ h
  · exact step_mem A

/-! ### Step ↔ distance one -/


theorem step_Ed (A : List α) {s t : List α} (h : Step A s t) : Ed 1 s t := by
  induction h with
  | del c s => exact Ed.del c (Ed_refl s)
  | sub c d s _ _ => exact Ed.sub c d (Ed_refl s)
  | ins d s _ => exact Ed.ins d (Ed_refl s)
  | cons c _ ih => exact Ed.keep c ih

theorem step_ne (A : List α) {s t : List α} (h : Step A s t) : s ≠ t := by
  induction h with
  | del c s => intro h; have := congrArg List.length h; simp at this
  | sub c d s _ hne => intro h; injection h with h1 _; exact hne h1.symm
  | ins d s _ => intro h; have := congrArg List.length h; simp at this
  | cons c _ ih => intro h; injection h with _ h2; exact ih h2

theorem Ed_one_step (A : List α) {n : Nat} {a b : List α} (h : Ed n a b) :
    n = 1 → a ≠ b → (∀ c ∈ b, c ∈ A) → Step A a b := by
  induction h with
  | nil => intro h; omega
  | keep c _ ih =>
    intro h1 hne hA
    exact Step.cons c (ih h1 (fun h => hne (by rw [h])) (fun x hx => hA x (List.mem_cons_of_mem _ hx)))
  | @sub n a b x y h' _ =>
    intro h1 hne hA
    have : a = b := Ed_zero_eq h' (by omega)
    subst this
    exact Step.sub x y a (hA y (by simp)) (fun h => hne (by rw [h]))
  | @del n a b x h' _ =>
    intro h1 _ _
    have : a = b := Ed_zero_eq h' (by omega)
    subst this; exact Step.del x a
  | @ins n a b y h' _ =>
    intro h1 _ hA
    have : a = b := Ed_zero_eq h' (by omega)
    subst this; exact Step.ins y a (hA y (by simp))



/-- C12 core: over the alphabet, the generator yields exactly the strings at distance one -/
theorem levNeighbors_exact (A : List α) (x y : List α) (hA : ∀ c ∈ y, c ∈ A) :
    y ∈ levNeighbors A x ↔ lev x y = 1 := by
  rw [mem_levNeighbors]
  constructor
  · intro h
    have h1 : lev x y ≤ 1 := Ed_lev (step_Ed A h)
    have h0 : lev x y ≠ 0 := fun h0 => step_ne A h (lev_eq_zero h0)
    omega
  · intro h
    have hE := lev_Ed x y
    rw [h] at hE
    exact Ed_one_step A hE rfl (fun hxy => by subst hxy; rw [lev_self] at h; omega) hA

end Prs
