/- Proofs/LookupDB.lean — the hash-based engine (LookupDB) is exact on references over the alphabet. -/
import Prs.Proofs.Bfs
import Prs.Proofs.Util
namespace Prs
variable {S D : Type} [DecidableEq S] [DecidableEq D]

/-- membership in the result of `lookupDB`, for any neighbour function, in terms of ball keys -/
theorem mem_lookupDB (nb : S → List S) (cd : S → S → D) (keep : D → Bool) (pdist : Bool)
    (ref qs : List S) (k : Nat) (i j : Nat) (d : D) :
    (i, j, d) ∈ lookupDB nb cd keep pdist ref qs k ↔
      ∃ q r, qs[i]? = some q ∧ ref[j]? = some r ∧ r ∈ (bfsBall nb q k).map (·.1) ∧
        ¬ (pdist = true ∧ i = j) ∧ keep (cd q r) = true ∧ d = cd q r := by
  simp only [lookupDB, List.mem_flatMap, List.mem_filterMap, List.mem_zipIdx_iff_getElem?,
    mem_positionsOf, List.mem_map]
  constructor
  · rintro ⟨⟨q, i'⟩, hq, ⟨r, e⟩, hball, j', hr, h⟩
    simp only at hq hr h
    split at h
    · cases h
    · rename_i hp
      split at h
      · rename_i hk
        simp only [Option.some.injEq, Prod.mk.injEq] at h
        obtain ⟨rfl, rfl, rfl⟩ := h
        refine ⟨q, r, hq, hr, ⟨(r, e), hball, rfl⟩, ?_, hk, rfl⟩
        simpa using hp
      · cases h
  · rintro ⟨q, r, hq, hr, ⟨⟨r', e⟩, hball, rfl⟩, hp, hk, rfl⟩
    refine ⟨(q, i), hq, (r', e), hball, j, hr, ?_⟩
    have hp' : ¬ ((pdist && i == j) = true) := by simpa using hp
    simp [hp', hk]

theorem lookup_entry_eq (cd : S → S → D) (keep : D → Bool) (pdist : Bool) (q pe : S) (i j : Nat)
    (t : Trip D)
    (h : (if (pdist && i == j) = true then none
          else
            let d := cd q pe
            if keep d = true then some (i, j, d) else none) = some t) :
    t = (i, j, cd q pe) := by
  split at h
  · cases h
  · simp only at h
    split at h
    · exact (Option.some.inj h).symm
    · cases h

theorem lookupDB_nodup (nb : S → List S) (cd : S → S → D) (keep : D → Bool) (pdist : Bool)
    (ref qs : List S) (k : Nat) : (lookupDB nb cd keep pdist ref qs k).Nodup := by
  unfold lookupDB
  apply nodup_flatMap
  · -- one query
    rintro ⟨q, i⟩ _
    apply nodup_flatMap
    · rintro ⟨pe, e⟩ _
      refine nodup_filterMap ?_ (positionsWhere_nodup _ _)
      intro j1 j2 t h1 h2
      have e1 := lookup_entry_eq cd keep pdist q pe i j1 t h1
      have e2 := lookup_entry_eq cd keep pdist q pe i j2 t h2
      rw [e1] at e2
      simp only [Prod.mk.injEq] at e2
      exact e2.2.1
    · -- different ball keys hit different positions
      have hk := bfsBall_keys_nodup nb q k
      have hk' : (bfsBall nb q k).Pairwise (fun a b => a.1 ≠ b.1) := List.pairwise_map.1 hk
      refine hk'.imp ?_
      rintro ⟨pe1, e1⟩ ⟨pe2, e2⟩ hne t h1 h2
      simp only [List.mem_filterMap, mem_positionsOf] at h1 h2
      obtain ⟨j1, hj1, ht1⟩ := h1
      obtain ⟨j2, hj2, ht2⟩ := h2
      have e1' : t.2.1 = j1 := by rw [lookup_entry_eq cd keep pdist _ _ _ _ t ht1]
      have e2' : t.2.1 = j2 := by rw [lookup_entry_eq cd keep pdist _ _ _ _ t ht2]
      have : j1 = j2 := by rw [← e1', e2']
      subst this
      rw [hj1] at hj2
      exact hne (Option.some.inj hj2)
  · -- different queries have different first components
    refine (zipIdx_pairwise_snd qs).imp ?_
    rintro ⟨q1, i1⟩ ⟨q2, i2⟩ hne t h1 h2
    simp only [List.mem_flatMap, List.mem_filterMap] at h1 h2
    obtain ⟨pe1, _, j1, _, ht1⟩ := h1
    obtain ⟨pe2, _, j2, _, ht2⟩ := h2
    have e1 : t.1 = i1 := by rw [lookup_entry_eq cd keep pdist _ _ _ _ t ht1]
    have e2 : t.1 = i2 := by rw [lookup_entry_eq cd keep pdist _ _ _ _ t ht2]
    exact hne (by rw [← e1, e2])

end Prs
