import Prs.Proofs.Prob2
import Mathlib.Algebra.BigOperators.Group.Finset.Basic
import Mathlib.Tactic.NormNum
import Mathlib.Algebra.BigOperators.GroupWithZero.Finset

open Finset BigOperators
namespace Prs
variable {N K : ℕ}

theorem allEq_bool (S : Finset (Fin N)) (u : Fin K) (x : Fin N → Fin K) :
    allEq S u x = if ∀ l ∈ S, x l = u then 1 else 0 := by
  unfold allEq; rw [Finset.prod_boole]; congr

theorem allEq_merge (S T : Finset (Fin N)) (h : ¬ Disjoint S T) (u v : Fin K) (x : Fin N → Fin K) :
    allEq S u x * allEq T v x = if u = v then allEq (S ∪ T) u x else 0 := by
  obtain ⟨l0, hS, hT⟩ := Finset.not_disjoint_iff.mp h
  simp only [allEq_bool]
  by_cases huv : u = v
  · subst huv
    rw [if_pos rfl]
    by_cases h1 : ∀ l ∈ S, x l = u <;> by_cases h2 : ∀ l ∈ T, x l = u
    · have h3 : ∀ l ∈ S ∪ T, x l = u := fun l hl => (Finset.mem_union.mp hl).elim (h1 l) (h2 l)
      rw [if_pos h1, if_pos h2, if_pos h3]; norm_num
    · have h3 : ¬ ∀ l ∈ S ∪ T, x l = u := fun hh => h2 (fun l hl => hh l (Finset.mem_union_right _ hl))
      rw [if_pos h1, if_neg h2, if_neg h3]; norm_num
    · have h3 : ¬ ∀ l ∈ S ∪ T, x l = u := fun hh => h1 (fun l hl => hh l (Finset.mem_union_left _ hl))
      rw [if_neg h1, if_pos h2, if_neg h3]; norm_num
    · have h3 : ¬ ∀ l ∈ S ∪ T, x l = u := fun hh => h1 (fun l hl => hh l (Finset.mem_union_left _ hl))
      rw [if_neg h1, if_neg h2, if_neg h3]; norm_num
  · rw [if_neg huv]
    by_cases h1 : ∀ l ∈ S, x l = u
    · have h2 : ¬ ∀ l ∈ T, x l = v := fun h2 => huv ((h1 l0 hS).symm.trans (h2 l0 hT))
      rw [if_pos h1, if_neg h2]; norm_num
    · rw [if_neg h1]; norm_num

/-- the pair indicator as a sum of block indicators -/
theorem pair_ind (i j : Fin N) (x : Fin N → Fin K) :
    (if x i = x j then (1:ℚ) else 0) = ∑ u, allEq {i, j} u x := by
  simp only [allEq_bool]
  rw [Finset.sum_eq_single (x i)]
  · by_cases h : x i = x j
    · have : ∀ l ∈ ({i, j} : Finset (Fin N)), x l = x i := by
        intro l hl; simp at hl; rcases hl with rfl | rfl <;> simp [h]
      rw [if_pos h, if_pos this]
    · have : ¬ ∀ l ∈ ({i, j} : Finset (Fin N)), x l = x i := fun hh => h (hh j (by simp)).symm
      rw [if_neg h, if_neg this]
  · intro b _ hb
    have : ¬ ∀ l ∈ ({i, j} : Finset (Fin N)), x l = b := fun hh => hb (hh i (by simp)).symm
    rw [if_neg this]
  · simp

def Pm (p : Fin K → ℚ) (m : ℕ) : ℚ := ∑ u, p u ^ m

/-- E[h_a h_b] in closed form -/
theorem E_pair_pair (p : Fin K → ℚ) (hp : ∑ v, p v = 1) (i j k l : Fin N) :
    ∑ x : Fin N → Fin K, w p x * ((if x i = x j then 1 else 0) * (if x k = x l then 1 else 0))
      = if Disjoint ({i, j} : Finset (Fin N)) {k, l}
        then Pm p ({i,j} : Finset (Fin N)).card * Pm p ({k,l} : Finset (Fin N)).card
        else Pm p (({i, j} : Finset (Fin N)) ∪ {k, l}).card := by
  have hx : ∀ x : Fin N → Fin K,
      w p x * ((if x i = x j then 1 else 0) * (if x k = x l then 1 else 0))
        = ∑ u, ∑ v, w p x * (allEq {i, j} u x * allEq {k, l} v x) := by
    intro x
    rw [pair_ind, pair_ind, Finset.sum_mul_sum, Finset.mul_sum]
    exact Finset.sum_congr rfl fun u _ => by rw [Finset.mul_sum]
  simp only [hx]
  rw [Finset.sum_comm]
  split
  · rename_i hd
    simp only [Pm, Finset.sum_mul_sum]
    refine Finset.sum_congr rfl fun u _ => ?_
    rw [Finset.sum_comm]
    refine Finset.sum_congr rfl fun v _ => ?_
    exact E_allEq2 p hp _ _ hd u v
  · rename_i hd
    simp only [Pm]
    refine Finset.sum_congr rfl fun u _ => ?_
    rw [Finset.sum_comm]
    simp only [allEq_merge _ _ hd]
    rw [Finset.sum_eq_single u]
    · simp only [if_true]; exact E_allEq p hp _ u
    · intro b _ hb; simp [Ne.symm hb]
    · simp
end Prs
