/-
Proofs/Powerlaw.lean — `powerlaw_sample` returns values ≥ xmin (real-arithmetic model of
`np.floor((xmin - 0.5) * (1.0 - r) ** (-1.0 / (alpha - 1.0)) + 0.5)`, r uniform in [0, 1)),
and the closed-form MLE is the unique stationary point of the continuous log-likelihood.
-/
import Mathlib.Analysis.SpecialFunctions.Pow.Real
import Mathlib.Algebra.Order.Floor.Ring
import Mathlib.Algebra.Order.Archimedean.Real.Basic
import Mathlib.Tactic.Linarith
import Mathlib.Tactic.FieldSimp
import Mathlib.Tactic.Ring

namespace Prs

/-- the exponent `-1/(α-1)` is negative for `α > 1` -/
theorem powerlaw_exponent_neg (α : ℝ) (hα : 1 < α) : -1 / (α - 1) < 0 :=
  div_neg_of_neg_of_pos (by norm_num) (by linarith)

/-- the real-valued sample before flooring is at least `xmin` -/
theorem powerlaw_real_ge_xmin (xmin : ℕ) (hx : 1 ≤ xmin) (α r : ℝ) (hα : 1 < α) (hr0 : 0 ≤ r)
    (hr1 : r < 1) : (xmin : ℝ) ≤ ((xmin : ℝ) - 1/2) * (1 - r) ^ (-1 / (α - 1)) + 1/2 := by
  have hx' : (1 : ℝ) ≤ (xmin : ℝ) := by exact_mod_cast hx
  have hp : (1 : ℝ) ≤ (1 - r) ^ (-1 / (α - 1)) :=
    Real.one_le_rpow_of_pos_of_le_one_of_nonpos (by linarith) (by linarith)
      (powerlaw_exponent_neg α hα).le
  nlinarith [mul_nonneg (show (0 : ℝ) ≤ (xmin : ℝ) - 1/2 by linarith) (sub_nonneg.2 hp)]

theorem powerlaw_ge_xmin (xmin : ℕ) (hx : 1 ≤ xmin) (α r : ℝ) (hα : 1 < α) (hr0 : 0 ≤ r)
    (hr1 : r < 1) :
    (xmin : ℤ) ≤ ⌊((xmin : ℝ) - 1/2) * (1 - r) ^ (-1 / (α - 1)) + 1/2⌋ := by
  rw [Int.le_floor, Int.cast_natCast]
  exact powerlaw_real_ge_xmin xmin hx α r hα hr0 hr1

/-- r = 0 gives exactly xmin -/
theorem powerlaw_r0 (xmin : ℕ) (α : ℝ) :
    ⌊((xmin : ℝ) - 1/2) * (1 - (0:ℝ)) ^ (-1 / (α - 1)) + 1/2⌋ = xmin := by
  rw [sub_zero, Real.one_rpow, mul_one, sub_add_cancel, Int.floor_natCast]

-- `h0` is kept for the documented domain r ∈ [0, 1); the proof only needs r ≤ r' < 1
set_option linter.unusedVariables false in
theorem powerlaw_mono (xmin : ℕ) (hx : 1 ≤ xmin) (α : ℝ) (hα : 1 < α) (r r' : ℝ) (h0 : 0 ≤ r)
    (hrr : r ≤ r') (h1 : r' < 1) :
    ⌊((xmin : ℝ) - 1/2) * (1 - r) ^ (-1 / (α - 1)) + 1/2⌋ ≤
      ⌊((xmin : ℝ) - 1/2) * (1 - r') ^ (-1 / (α - 1)) + 1/2⌋ := by
  have hx' : (1 : ℝ) ≤ (xmin : ℝ) := by exact_mod_cast hx
  have hp : (1 - r) ^ (-1 / (α - 1)) ≤ (1 - r') ^ (-1 / (α - 1)) :=
    Real.rpow_le_rpow_of_nonpos (by linarith) (by linarith) (powerlaw_exponent_neg α hα).le
  apply Int.floor_le_floor
  have := mul_le_mul_of_nonneg_left hp (show (0 : ℝ) ≤ (xmin : ℝ) - 1/2 by linarith)
  linarith

-- `hn` is kept for the documented domain (n ≥ 1 observations); the equivalence does not need it
set_option linter.unusedVariables false in
/-- the closed-form MLE is the unique stationary point of the continuous power-law log-likelihood:
    d/dα [ n log(α−1) − n log cmin − α Σ log(c_i/cmin) ] = 0  ⇔  α = 1 + n / Σ log(c_i/cmin) -/
theorem mle_simple_stationary (n : ℕ) (S : ℝ) (hn : 0 < n) (hS : 0 < S) (α : ℝ) (hα : 1 < α) :
    (n : ℝ) / (α - 1) - S = 0 ↔ α = 1 + (n : ℝ) / S := by
  have hα' : α - 1 ≠ 0 := by linarith
  have hS' : S ≠ 0 := hS.ne'
  rw [sub_eq_zero, div_eq_iff hα', ← sub_eq_iff_eq_add', eq_div_iff hS']
  constructor
  · intro h; linarith
  · intro h; linarith

end Prs

