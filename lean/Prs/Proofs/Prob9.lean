/-
Proofs/Prob9.lean — total probability, third moment, cross moment, and the model estimators
(`pc1`, `pc2`, `p3hat`, `varpcN`) written through the counting statistics `C`, `C3`, `Cx`.
-/
import Prs.Proofs.Prob8

open Finset BigOperators
namespace Prs
variable {N M K : ℕ}

/-- total probability -/
theorem sum_w (p : Fin K → ℚ) (hp : ∑ v, p v = 1) : ∑ x : Fin N → Fin K, w p x = 1 := by
  have := sum_w_prod (N := N) p (fun _ _ => 1)
  simpa [hp] using this

/-- E[Σ_u 1{all coordinates in S equal u}] = Σ_u p_u^|S| -/
theorem E_sum_allEq (p : Fin K → ℚ) (hp : ∑ v, p v = 1) (S : Finset (Fin N)) :
    ∑ x : Fin N → Fin K, w p x * ∑ u, allEq S u x = Pm p S.card := by
  simp only [Finset.mul_sum]
  rw [Finset.sum_comm]
  exact Finset.sum_congr rfl fun u _ => E_allEq p hp S u

theorem triple_ind (i j k : Fin N) (x : Fin N → Fin K) :
    (if x i = x j ∧ x i = x k then (1:ℚ) else 0) = ∑ u, allEq {i, j, k} u x := by
  simp only [allEq_bool]
  rw [Finset.sum_eq_single (x i)]
  · by_cases h : x i = x j ∧ x i = x k
    · have : ∀ l ∈ ({i, j, k} : Finset (Fin N)), x l = x i := by
        intro l hl; simp at hl; rcases hl with rfl | rfl | rfl <;> first | rfl | exact h.1.symm | exact h.2.symm
      rw [if_pos h, if_pos this]
    · have : ¬ ∀ l ∈ ({i, j, k} : Finset (Fin N)), x l = x i :=
        fun hh => h ⟨(hh j (by simp)).symm, (hh k (by simp)).symm⟩
      rw [if_neg h, if_neg this]
  · intro b _ hb
    have : ¬ ∀ l ∈ ({i, j, k} : Finset (Fin N)), x l = b := fun hh => hb (hh i (by simp)).symm
    rw [if_neg this]
  · simp

theorem triple_coincidence (p : Fin K → ℚ) (hp : ∑ v, p v = 1) (i j k : Fin N)
    (hij : i ≠ j) (hik : i ≠ k) (hjk : j ≠ k) :
    ∑ x : Fin N → Fin K, w p x * (if x i = x j ∧ x i = x k then 1 else 0) = Pm p 3 := by
  simp only [triple_ind]
  rw [E_sum_allEq p hp]
  congr 1
  rw [Finset.card_insert_of_notMem (by simp [hij, hik]), Finset.card_pair hjk]

/-- number of ordered coinciding triples of pairwise distinct positions, `= Σ_k n_k (n_k-1)(n_k-2)` -/
def C3 (x : Fin N → Fin K) : ℚ :=
  ∑ t ∈ T3 (univ : Finset (Fin N)), (if x t.1 = x t.2.1 ∧ x t.1 = x t.2.2 then 1 else 0)

theorem third_moment (p : Fin K → ℚ) (hp : ∑ v, p v = 1) :
    ∑ x : Fin N → Fin K, w p x * C3 x = (N * (N - 1) * (N - 2) : ℚ) * Pm p 3 := by
  unfold C3
  simp only [Finset.mul_sum]
  rw [Finset.sum_comm]
  have : ∀ t ∈ T3 (univ : Finset (Fin N)),
      ∑ x : Fin N → Fin K, w p x * (if x t.1 = x t.2.1 ∧ x t.1 = x t.2.2 then 1 else 0)
        = Pm p 3 := by
    intro t ht
    obtain ⟨-, h1, h2, h3⟩ := (mem_T3 _ _).mp ht
    exact triple_coincidence p hp _ _ _ h1 h2 h3
  rw [Finset.sum_congr rfl this, sum_const, nsmul_eq_mul, card_T3, card_univ, Fintype.card_fin]
  congr 1
  rcases N with _ | _ | n
  · simp
  · simp
  · have e1 : n + 1 + 1 - 1 = n + 1 := by omega
    have e2 : n + 1 + 1 - 2 = n := by omega
    rw [e1, e2]; push_cast; ring

/-- number of cross pairs `(i, j)` with `x i = y j` -/
def Cx (x : Fin N → Fin K) (y : Fin M → Fin K) : ℚ :=
  ∑ b : Fin N × Fin M, (if x b.1 = y b.2 then 1 else 0)

theorem single_ind (i : Fin N) (u : Fin K) (x : Fin N → Fin K) :
    allEq {i} u x = if x i = u then 1 else 0 := by
  simp [allEq]

theorem cross_coincidence (p q : Fin K → ℚ) (hp : ∑ v, p v = 1) (hq : ∑ v, q v = 1)
    (i : Fin N) (j : Fin M) :
    ∑ x : Fin N → Fin K, ∑ y : Fin M → Fin K, w p x * w q y * (if x i = y j then 1 else 0)
      = ∑ k, p k * q k := by
  have h : ∀ (x : Fin N → Fin K) (y : Fin M → Fin K),
      w p x * w q y * (if x i = y j then 1 else 0)
        = ∑ k, (w p x * allEq {i} k x) * (w q y * allEq {j} k y) := by
    intro x y
    simp only [single_ind]
    rw [Finset.sum_eq_single (x i)]
    · by_cases h : x i = y j
      · simp [h]
      · simp [h, Ne.symm h]
    · intro b _ hb; simp [Ne.symm hb]
    · simp
  simp only [h]
  have h2 : ∀ x : Fin N → Fin K, ∑ y : Fin M → Fin K,
      ∑ k, (w p x * allEq {i} k x) * (w q y * allEq {j} k y)
        = ∑ k, (w p x * allEq {i} k x) * q k := by
    intro x
    rw [Finset.sum_comm]
    refine Finset.sum_congr rfl fun k _ => ?_
    rw [← Finset.mul_sum, E_allEq q hq]; simp
  simp only [h2]
  rw [Finset.sum_comm]
  refine Finset.sum_congr rfl fun k _ => ?_
  rw [← Finset.sum_mul, E_allEq p hp]; simp

theorem cross_moment (p q : Fin K → ℚ) (hp : ∑ v, p v = 1) (hq : ∑ v, q v = 1) :
    ∑ x : Fin N → Fin K, ∑ y : Fin M → Fin K, w p x * w q y * Cx x y
      = (N * M : ℚ) * ∑ k, p k * q k := by
  unfold Cx
  simp only [Finset.mul_sum]
  have : ∀ x : Fin N → Fin K, ∑ y : Fin M → Fin K, ∑ b : Fin N × Fin M,
      w p x * w q y * (if x b.1 = y b.2 then 1 else 0)
      = ∑ b : Fin N × Fin M, ∑ y : Fin M → Fin K,
          w p x * w q y * (if x b.1 = y b.2 then 1 else 0) := fun x => Finset.sum_comm
  simp only [this]
  rw [Finset.sum_comm]
  simp only [cross_coincidence p q hp hq]
  simp [Finset.mul_sum]

/-! ### the model estimators through `C`, `C3`, `Cx` -/

theorem C_eq_card (x : Fin N → Fin K) : C x = ((eqPairs x).card : ℚ) := by
  unfold C eqPairs; rw [Finset.sum_boole]

theorem C3_eq_card (x : Fin N → Fin K) : C3 x = ((eqTriples x).card : ℚ) := by
  unfold C3 eqTriples; rw [Finset.sum_boole]

theorem Cx_eq_card (x : Fin N → Fin K) (y : Fin M → Fin K) : Cx x y = ((eqCross x y).card : ℚ) := by
  unfold Cx eqCross; rw [Finset.sum_boole]

theorem sumFall2_sample (x : Fin N → Fin K) : (sumFall2 (counts (List.ofFn x)) : ℚ) = C x := by
  rw [sumFall2_ofFn, C_eq_card]

theorem sumFall3_sample (x : Fin N → Fin K) : (sumFall3 (counts (List.ofFn x)) : ℚ) = C3 x := by
  rw [sumFall3_ofFn, C3_eq_card]

theorem crossCount_sample (x : Fin N → Fin K) (y : Fin M → Fin K) :
    (crossCount (List.ofFn x) (List.ofFn y) : ℚ) = Cx x y := by
  rw [crossCount_ofFn, Cx_eq_card]

theorem counts_sum_sample (x : Fin N → Fin K) : (counts (List.ofFn x)).sum = N := by
  rw [counts_sum, List.length_ofFn]

theorem pcN_sample (x : Fin N → Fin K) :
    pcN (counts (List.ofFn x)) = C x / ((N : ℚ) * (N - 1)) := by
  simp only [pcN, counts_sum_sample, sumFall2_sample]

theorem pc1_sample (x : Fin N → Fin K) : pc1 (List.ofFn x) = C x / ((N : ℚ) * (N - 1)) :=
  pcN_sample x

theorem pc2_sample (x : Fin N → Fin K) (y : Fin M → Fin K) :
    pc2 (List.ofFn x) (List.ofFn y) = Cx x y / ((N : ℚ) * M) := by
  simp only [pc2, List.length_ofFn, crossCount_sample]

theorem p3hat_sample (x : Fin N → Fin K) :
    p3hat (counts (List.ofFn x)) = C3 x / ((N : ℚ) * (N - 1) * (N - 2)) := by
  simp only [p3hat, counts_sum_sample, sumFall3_sample]

/-- `varpc_n` on a sample, term by term -/
theorem varpcN_sample (x : Fin N → Fin K) :
    varpcN (counts (List.ofFn x))
      = 4 * ((N:ℚ) - 2) / (N * (N - 1)) * (1 + 2 * (2 * (N:ℚ) - 3) / ((N - 2) * (N - 3)))
            * p3hat (counts (List.ofFn x))
        - 2 * (2 * (N:ℚ) - 3) / ((N - 2) * (N - 3)) * (pc1 (List.ofFn x)) ^ 2
        + 2 / ((N:ℚ) * (N - 1)) * (1 + 2 * (2 * (N:ℚ) - 3) / ((N - 2) * (N - 3)))
            * pc1 (List.ofFn x) := by
  simp only [varpcN, pc1, counts_sum_sample]

end Prs
