/- Proofs/Util.lean — lemmas about dedup, pairsOf, positionsWhere (core Lean only). -/
import Prs.Model.Search
namespace Prs

section dedup
variable {β : Type} [DecidableEq β]

@[simp] theorem mem_dedup (a : β) (l : List β) : a ∈ dedup l ↔ a ∈ l := by
  induction l with
  | nil => simp [dedup]
  | cons x xs ih =>
    simp only [dedup, List.mem_cons, List.mem_filter, ih]
    by_cases h : a = x <;> simp [h]

theorem nodup_dedup (l : List β) : (dedup l).Nodup := by
  induction l with
  | nil => simp [dedup]
  | cons x xs ih =>
    simp only [dedup, List.nodup_cons, List.mem_filter]
    exact ⟨by simp, ih.filter _⟩

theorem dedup_eq_self_of_nodup (l : List β) (h : l.Nodup) : dedup l = l := by
  induction l with
  | nil => rfl
  | cons x xs ih =>
    simp only [List.nodup_cons] at h
    simp only [dedup, ih h.2]
    congr 1
    apply List.filter_eq_self.2
    intro a ha
    simp only [ne_eq, decide_eq_true_eq]
    rintro rfl
    exact h.1 ha
end dedup

section pairs
variable {γ : Type}

theorem mem_pairsOf_lt {l : List Nat} (hl : l.Pairwise (· < ·)) (x y : Nat) :
    (x, y) ∈ pairsOf l ↔ x ∈ l ∧ y ∈ l ∧ x < y := by
  induction l with
  | nil => simp [pairsOf]
  | cons a l ih =>
    rw [List.pairwise_cons] at hl
    simp only [pairsOf, List.mem_append, List.mem_map, Prod.mk.injEq, List.mem_cons, ih hl.2]
    constructor
    · rintro (⟨b, hb, rfl, rfl⟩ | ⟨hx, hy, hxy⟩)
      · exact ⟨Or.inl rfl, Or.inr hb, hl.1 _ hb⟩
      · exact ⟨Or.inr hx, Or.inr hy, hxy⟩
    · rintro ⟨hx | hx, hy | hy, hxy⟩
      · omega
      · left; exact ⟨y, hy, hx.symm, rfl⟩
      · subst hy; have := hl.1 _ hx; omega
      · right; exact ⟨hx, hy, hxy⟩
end pairs

section positions
variable {γ : Type}

theorem mem_positionsWhere (p : γ → Bool) (xs : List γ) (i : Nat) :
    i ∈ positionsWhere p xs ↔ ∃ a, xs[i]? = some a ∧ p a = true := by
  simp only [positionsWhere, List.mem_map, List.mem_filter, List.mem_zipIdx_iff_getElem?]
  constructor
  · rintro ⟨⟨a, j⟩, ⟨h1, h2⟩, rfl⟩
    exact ⟨a, h1, h2⟩
  · rintro ⟨a, h1, h2⟩
    exact ⟨(a, i), ⟨h1, h2⟩, rfl⟩

theorem zipIdx_filter_pairwise (q : γ × Nat → Bool) (xs : List γ) (k : Nat) :
    (((xs.zipIdx k).filter q).map (·.2)).Pairwise (· < ·) ∧
    ∀ i ∈ ((xs.zipIdx k).filter q).map (·.2), k ≤ i := by
  induction xs generalizing k with
  | nil => simp
  | cons x xs ih =>
    obtain ⟨h1, h2⟩ := ih (k + 1)
    simp only [List.zipIdx_cons, List.filter_cons]
    split
    · simp only [List.map_cons, List.pairwise_cons, List.mem_cons]
      refine ⟨⟨fun i hi => by have := h2 i hi; omega, h1⟩, ?_⟩
      rintro i (rfl | hi)
      · exact Nat.le_refl _
      · have := h2 i hi; omega
    · exact ⟨h1, fun i hi => by have := h2 i hi; omega⟩

theorem positionsWhere_pairwise (p : γ → Bool) (xs : List γ) :
    (positionsWhere p xs).Pairwise (· < ·) :=
  (zipIdx_filter_pairwise (fun q => p q.1) xs 0).1

theorem positionsWhere_nodup (p : γ → Bool) (xs : List γ) : (positionsWhere p xs).Nodup :=
  (positionsWhere_pairwise p xs).imp (fun h => Nat.ne_of_lt h)

theorem mem_positionsOf {β : Type} [DecidableEq β] (xs : List β) (s : β) (i : Nat) :
    i ∈ positionsOf xs s ↔ xs[i]? = some s := by
  simp only [positionsOf, mem_positionsWhere, beq_iff_eq]
  constructor
  · rintro ⟨a, h, rfl⟩; exact h
  · intro h; exact ⟨s, h, rfl⟩
end positions

theorem nodup_filterMap {α β : Type} {f : α → Option β} {l : List α}
    (h : ∀ a a' b, f a = some b → f a' = some b → a = a') (hl : l.Nodup) :
    (l.filterMap f).Nodup := by
  refine List.Pairwise.filterMap (R := (· ≠ ·)) (S := (· ≠ ·)) f ?_ hl
  intro a a' hne b hb b' hb' e
  subst e
  exact hne (h a a' b hb hb')

end Prs

namespace Prs
theorem nodup_flatMap {α β : Type} {l : List α} {f : α → List β}
    (h1 : ∀ a ∈ l, (f a).Nodup)
    (h2 : l.Pairwise (fun a b => ∀ x ∈ f a, x ∉ f b)) : (l.flatMap f).Nodup := by
  induction l with
  | nil => simp
  | cons a l ih =>
    rw [List.pairwise_cons] at h2
    simp only [List.flatMap_cons]
    rw [List.nodup_append]
    refine ⟨h1 a (by simp), ih (fun b hb => h1 b (by simp [hb])) h2.2, ?_⟩
    intro x hx y hy hxy
    subst hxy
    simp only [List.mem_flatMap] at hy
    obtain ⟨b, hb, hxb⟩ := hy
    exact h2.1 b hb x hx hxb

theorem zipIdx_pairwise_snd {γ : Type} (xs : List γ) :
    xs.zipIdx.Pairwise (fun a b => a.2 ≠ b.2) := by
  have h : (xs.zipIdx.map (·.2)).Nodup := by
    rw [List.zipIdx_map_snd]; exact List.nodup_range' (step := 1)
  exact (List.pairwise_map.1 h)
end Prs
