/-
Proofs/Grouped.lean — helper lemmas for C13: weighted means over groups (`pcConditional`),
symmetry of `crossCount` / `pc2`, and the partition of a table into its groups.
-/
import Prs.Model.Stats2
import Prs.Proofs.Util
import Prs.Proofs.Prob7
import Mathlib.Algebra.BigOperators.Ring.Finset
import Mathlib.Tactic.Ring
import Mathlib.Tactic.FieldSimp
import Mathlib.Tactic.Linarith
import Mathlib.Algebra.Order.Field.Rat
import Mathlib.Analysis.SpecialFunctions.Log.Base

open Finset BigOperators
namespace Prs

/-! ### list sums over ℚ -/

theorem sum_map_div_mul {γ : Type} (l : List γ) (f g : γ → ℚ) (t : ℚ) (ht : t ≠ 0) :
    (l.map fun p => f p / t * g p).sum * t = (l.map fun p => f p * g p).sum := by
  induction l with
  | nil => simp
  | cons a l ih =>
    simp only [List.map_cons, List.sum_cons, add_mul, ih]
    congr 1
    field_simp

theorem sum_map_mul_left_rat {γ : Type} (l : List γ) (f : γ → ℚ) (c : ℚ) :
    (l.map fun p => c * f p).sum = c * (l.map f).sum := by
  induction l with
  | nil => simp
  | cons a l ih => simp only [List.map_cons, List.sum_cons, ih]; ring

theorem zip_sq_eq {γ : Type} (w : List ℚ) (big : List γ) :
    (w.map fun x => x * x).zip big = (w.zip big).map fun p => (p.1 * p.1, p.2) := by
  rw [List.zip_map_left]
  rfl

theorem sum_zip_ones {γ : Type} (big : List γ) (F : γ → ℚ) :
    (((big.map fun _ => (1 : ℚ)).zip big).map fun p => p.1 * p.1 * F p.2).sum = (big.map F).sum := by
  induction big with
  | nil => simp
  | cons a l ih => simp only [List.map_cons, List.zip_cons_cons, List.sum_cons, ih]; ring

theorem sum_sq_ones {γ : Type} (big : List γ) :
    ((big.map fun _ => (1 : ℚ)).map fun x => x * x).sum = (big.length : ℚ) := by
  induction big with
  | nil => simp
  | cons a l ih => simp only [List.map_cons, List.sum_cons, ih, List.length_cons]; push_cast; ring

/-! ### `pcConditional` -/
section cond
variable {K β : Type} [DecidableEq K]

/-- groups with at least two members -/
def bigGroups (keys : List K) (tbl : List (K × β)) : List K :=
  keys.filter fun g => decide (1 < (groupRows tbl g).length)

/-- rows whose group has at least two members -/
def keptRows (keys : List K) (tbl : List (K × β)) : List (K × β) :=
  tbl.filter fun r => decide (r.1 ∈ bigGroups keys tbl)

theorem pcConditional_eq (stat : List β → ℚ) (keys : List K) (tbl : List (K × β))
    (weights : Option (List ℚ)) :
    pcConditional stat keys tbl weights =
      if (keptRows keys tbl).length < 2 then none else
        some ((((weights.getD ((bigGroups keys tbl).map fun _ => 1)).map fun x => x * x).zip
          (bigGroups keys tbl)).map fun p =>
            p.1 / ((weights.getD ((bigGroups keys tbl).map fun _ => 1)).map fun x => x * x).sum
              * stat (groupRows tbl p.2)).sum := rfl

theorem pcConditional_none_iff (stat : List β → ℚ) (keys : List K) (tbl : List (K × β))
    (weights : Option (List ℚ)) :
    pcConditional stat keys tbl weights = none ↔ (keptRows keys tbl).length < 2 := by
  rw [pcConditional_eq]
  split <;> simp [*]

/-- uniform weights are the explicit weights 1, 1, …, 1 -/
theorem pcConditional_uniform_eq (stat : List β → ℚ) (keys : List K) (tbl : List (K × β)) :
    pcConditional stat keys tbl none
      = pcConditional stat keys tbl (some ((bigGroups keys tbl).map fun _ => 1)) := rfl

theorem pcConditional_weighted (stat : List β → ℚ) (keys : List K) (tbl : List (K × β))
    (w : List ℚ) (v : ℚ) (h : pcConditional stat keys tbl (some w) = some v)
    (hw : (w.map fun x => x * x).sum ≠ 0) :
    v * (w.map fun x => x * x).sum
      = ((w.zip (bigGroups keys tbl)).map fun p => p.1 * p.1 * stat (groupRows tbl p.2)).sum := by
  rw [pcConditional_eq] at h
  split at h
  · cases h
  · simp only [Option.getD_some, Option.some.injEq] at h
    rw [← h, sum_map_div_mul _ (fun p : ℚ × K => p.1) (fun p : ℚ × K => stat (groupRows tbl p.2)) _ hw,
      zip_sq_eq, List.map_map]
    rfl

theorem bigGroups_ne_nil_of_some (stat : List β → ℚ) (keys : List K) (tbl : List (K × β))
    (weights : Option (List ℚ)) (v : ℚ) (h : pcConditional stat keys tbl weights = some v) :
    bigGroups keys tbl ≠ [] := by
  intro hb
  have hn : pcConditional stat keys tbl weights = none := by
    rw [pcConditional_none_iff, keptRows, hb]
    simp
  rw [hn] at h
  cases h

theorem pcConditional_scale (stat : List β → ℚ) (keys : List K) (tbl : List (K × β))
    (w : List ℚ) (c : ℚ) (hc : c ≠ 0) :
    pcConditional stat keys tbl (some (w.map (c * ·))) = pcConditional stat keys tbl (some w) := by
  rw [pcConditional_eq, pcConditional_eq]
  simp only [Option.getD_some]
  have e1 : ((w.map (c * ·)).map fun x => x * x) = (w.map fun x => x * x).map (c * c * ·) := by
    simp only [List.map_map]
    apply List.map_congr_left
    intro x _
    simp only [Function.comp]
    ring
  have e2 : ((w.map fun x => x * x).map (c * c * ·)).sum = c * c * (w.map fun x => x * x).sum :=
    by
    have := sum_map_mul_left_rat (w.map fun x => x * x) id (c * c)
    simp only [id_eq, List.map_id] at this
    exact this
  rw [e1, e2, List.zip_map_left, List.map_map]
  have hcc : c * c ≠ 0 := mul_ne_zero hc hc
  have e3 : ∀ p : ℚ × K,
      ((fun p : ℚ × K => p.1 / (c * c * (w.map fun x => x * x).sum) * stat (groupRows tbl p.2))
          ∘ Prod.map (c * c * ·) id) p
        = p.1 / (w.map fun x => x * x).sum * stat (groupRows tbl p.2) := by
    intro p
    simp only [Function.comp, Prod.map, id]
    rw [mul_div_mul_left _ _ hcc]
  rw [List.map_congr_left (fun p _ => e3 p)]

end cond

/-! ### `crossCount` and `pc2` are symmetric -/
section sym
variable {β : Type} [DecidableEq β]

theorem crossCount_comm (as bs : List β) : crossCount as bs = crossCount bs as := by
  rw [crossCount_eq, crossCount_eq]
  have h1 : ∑ v ∈ as.toFinset, as.count v * bs.count v
      = ∑ v ∈ as.toFinset ∪ bs.toFinset, as.count v * bs.count v := by
    apply Finset.sum_subset Finset.subset_union_left
    intro v _ hv
    have : v ∉ as := by simpa using hv
    simp [List.count_eq_zero_of_not_mem this]
  have h2 : ∑ v ∈ bs.toFinset, bs.count v * as.count v
      = ∑ v ∈ as.toFinset ∪ bs.toFinset, bs.count v * as.count v := by
    apply Finset.sum_subset Finset.subset_union_right
    intro v _ hv
    have : v ∉ bs := by simpa using hv
    simp [List.count_eq_zero_of_not_mem this]
  rw [h1, h2]
  exact Finset.sum_congr rfl fun v _ => Nat.mul_comm _ _

theorem pc2_comm (as bs : List β) : pc2 as bs = pc2 bs as := by
  unfold pc2
  rw [crossCount_comm, mul_comm]

end sym

/-! ### the groups partition the table -/
section part
variable {K β : Type} [DecidableEq K]

theorem groupRows_length_cons (r : K × β) (tbl : List (K × β)) (g : K) :
    (groupRows (r :: tbl) g).length = (groupRows tbl g).length + (if r.1 = g then 1 else 0) := by
  unfold groupRows
  by_cases h : r.1 = g <;> simp [h]

theorem sum_indicator_eq_one (keys : List K) (hk : keys.Nodup) (k : K) (hmem : k ∈ keys) :
    (keys.map fun g => if k = g then 1 else 0).sum = 1 := by
  induction keys with
  | nil => cases hmem
  | cons a l ih =>
    rw [List.nodup_cons] at hk
    simp only [List.map_cons, List.sum_cons]
    by_cases ha : k = a
    · subst ha
      have hz : (l.map fun g => if k = g then 1 else 0).sum = 0 := by
        apply List.sum_eq_zero
        intro x hx
        simp only [List.mem_map] at hx
        obtain ⟨y, hy, rfl⟩ := hx
        have : k ≠ y := fun e => hk.1 (e ▸ hy)
        simp [this]
      simp [hz]
    · have hm : k ∈ l := by
        rcases List.mem_cons.1 hmem with h | h
        · exact (ha h).elim
        · exact h
      simp [ha, ih hk.2 hm]

theorem groupRows_partition (keys : List K) (hk : keys.Nodup) (tbl : List (K × β))
    (hall : ∀ r ∈ tbl, r.1 ∈ keys) :
    (keys.map fun g => (groupRows tbl g).length).sum = tbl.length := by
  induction tbl with
  | nil => simp [groupRows]
  | cons r tbl ih =>
    have ih' := ih (fun r' hr' => hall r' (List.mem_cons_of_mem _ hr'))
    have e : (keys.map fun g => (groupRows (r :: tbl) g).length)
        = keys.map fun g => (groupRows tbl g).length + (if r.1 = g then 1 else 0) :=
      List.map_congr_left fun g _ => groupRows_length_cons r tbl g
    have hadd : ∀ (l : List K) (f g : K → ℕ),
        (l.map fun b => f b + g b).sum = (l.map f).sum + (l.map g).sum := by
      intro l f g
      induction l with
      | nil => rfl
      | cons a l ih => simp only [List.map_cons, List.sum_cons, ih]; omega
    rw [e, hadd, ih', sum_indicator_eq_one keys hk r.1 (hall r List.mem_cons_self)]
    simp

end part

/-! ### entropy over ℝ -/

/-- `renyi2_entropy(..., base)`: `-np.log(pc)`, divided by `np.log(base)` when a base is given -/
noncomputable def renyi2 (b : Option ℝ) (p : ℝ) : ℝ :=
  match b with
  | none => -Real.log p
  | some b => -Real.log p / Real.log b

/-- `stdrenyi2_entropy(..., base)` as a function of the standard deviation and the value of the coincidence probability:
`stdpc / pc`, divided by `np.log(base)` when a base is given (linear error propagation through the logarithm) -/
noncomputable def stdRenyi2 (b : Option ℝ) (sd p : ℝ) : ℝ :=
  match b with
  | none => sd / p
  | some b => sd / p / Real.log b

/-- both entropy functions validate `base` first: a base that is given and not positive is rejected (`none` = ValueError),
whatever the table holds -/
noncomputable def checkedBase (b : Option ℝ) (v : Option ℝ → ℝ) : Option ℝ :=
  match b with
  | some x => if x ≤ 0 then none else some (v (some x))
  | none => some (v none)

end Prs
