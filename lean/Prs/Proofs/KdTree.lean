/-
Proofs/KdTree.lean — exactness of the kd-tree engine model (`kdtreeSelf`, `kdtreeHamming`):
the histogram pre-filter with squared radius 2k² never loses a pair within Levenshtein
distance k, for every compression c ≥ 1.
-/
import Prs.Proofs.Hist
import Prs.Proofs.Util
import Prs.Spec.Neighbours
import Prs.Spec.Scores
import Mathlib.Algebra.BigOperators.Fin
import Mathlib.Data.List.Nodup

open Finset BigOperators
namespace Prs

/-! ### the encoding -/
section encode
variable {α : Type} [DecidableEq α]

theorem letterIndex_eq (A : List α) (ch : α) (h : ch ∈ A) :
    letterIndex A ch = some (A.idxOf ch) := by
  simp [letterIndex, List.idxOf_lt_length_iff.2 h]

theorem letterIndex_isSome (A : List α) (ch : α) : (letterIndex A ch).isSome ↔ ch ∈ A := by
  unfold letterIndex
  simp only
  split
  · rename_i h; simpa using List.idxOf_lt_length_iff.1 h
  · rename_i h; simpa using fun h' => h (List.idxOf_lt_length_iff.2 h')

theorem histEncode_isSome_iff (A : List α) (c : Nat) (s : List α) :
    (histEncode A c s).isSome ↔ ∀ ch ∈ s, ch ∈ A := by
  unfold histEncode
  split
  · rename_i h
    simp only [List.all_eq_true, letterIndex_isSome] at h
    simpa using h
  · rename_i h
    simp only [List.all_eq_true, letterIndex_isSome] at h
    simpa using h

theorem histEncode_eq_none_iff (A : List α) (c : Nat) (s : List α) :
    histEncode A c s = none ↔ ∃ ch ∈ s, ch ∉ A := by
  have := histEncode_isSome_iff A c s
  rw [← Option.not_isSome_iff_eq_none, this]; simp

theorem idx_div_lt (A : List α) (c : Nat) (hc : 1 ≤ c) (ch : α) (h : ch ∈ A) :
    A.idxOf ch / c < (A.length + c - 1) / c := by
  have h1 := List.idxOf_lt_length_iff.2 h
  rw [Nat.div_lt_iff_lt_mul (by omega)]
  have h2 := Nat.div_add_mod (A.length + c - 1) c
  have h3 := Nat.mod_lt (A.length + c - 1) (show c > 0 by omega)
  rw [Nat.mul_comm] at h2
  omega

/-- the encoding of a string over `A`, with the per-bin predicate simplified -/
theorem histEncode_eq (A : List α) (c : Nat) (s : List α) (hs : ∀ ch ∈ s, ch ∈ A) :
    histEncode A c s = some ((List.range ((A.length + c - 1) / c)).map fun t =>
      s.countP fun ch => decide (A.idxOf ch / c = t)) := by
  unfold histEncode
  rw [if_pos (by simpa [letterIndex_isSome] using hs)]
  congr 1
  refine List.map_congr_left fun t _ => List.countP_congr fun ch hch => ?_
  rw [letterIndex_eq A ch (hs ch hch)]
  simp
end encode

/-! ### integer squared distance of count vectors = `sqdistZ` of a binning -/
section bridge
variable {α : Type}

theorem sqdist_map_cast (F G : Nat → Nat) (l : List Nat) :
    ((sqdist (l.map F) (l.map G) : Nat) : ℤ) = (l.map fun t => ((F t : ℤ) - G t) ^ 2).sum := by
  induction l with
  | nil => simp [sqdist]
  | cons t l ih =>
    simp only [List.map_cons, sqdist, List.sum_cons, Nat.cast_add, ih]
    congr 1
    split
    · rename_i h; rw [Nat.cast_mul, Nat.cast_sub h]; ring
    · rename_i h; rw [Nat.cast_mul, Nat.cast_sub (by omega)]; ring

theorem list_range_sum (h : Nat → ℤ) (n : Nat) :
    ((List.range n).map h).sum = ∑ t ∈ Finset.range n, h t := by
  induction n with
  | zero => simp
  | succ n ih => rw [List.sum_range_succ, Finset.sum_range_succ, ih]

theorem cnt_eq_countP {m : ℕ} (g : α → Fin m) (t : Fin m) (s : List α) :
    cnt g t s = (s.countP (fun ch => decide (g ch = t)) : ℕ) := by
  induction s with
  | nil => simp [cnt]
  | cons x s ih =>
    simp only [cnt, List.countP_cons, ih]
    split <;> simp [*]

/-- bins `0..n-1` given by `f`, everything else thrown into an extra bin `n` -/
def binOf (f : α → ℕ) (n : ℕ) (ch : α) : Fin (n + 1) := ⟨min (f ch) n, by omega⟩

theorem sqdist_counts (f : α → ℕ) (n : ℕ) (a b : List α)
    (ha : ∀ ch ∈ a, f ch < n) (hb : ∀ ch ∈ b, f ch < n) :
    ((sqdist ((List.range n).map fun t => a.countP fun ch => decide (f ch = t))
        ((List.range n).map fun t => b.countP fun ch => decide (f ch = t)) : ℕ) : ℤ)
      = sqdistZ (binOf f n) a b := by
  have hlast : ∀ s : List α, (∀ ch ∈ s, f ch < n) → cnt (binOf f n) (Fin.last n) s = 0 := by
    intro s hs
    rw [cnt_eq_countP]
    have : s.countP (fun ch => decide (binOf f n ch = Fin.last n)) = 0 := by
      rw [List.countP_eq_zero]
      intro ch hch
      have := hs ch hch
      simp only [binOf, Fin.ext_iff, Fin.val_last, decide_eq_true_eq]
      omega
    simp [this]
  have hmid : ∀ (s : List α) (i : Fin n), cnt (binOf f n) i.castSucc s
      = (s.countP (fun ch => decide (f ch = i.1)) : ℕ) := by
    intro s i
    rw [cnt_eq_countP]
    congr 1
    refine List.countP_congr fun ch _ => ?_
    have := i.2
    simp only [binOf, Fin.ext_iff, Fin.val_castSucc, decide_eq_true_eq]
    omega
  rw [sqdist_map_cast, list_range_sum, Finset.sum_range]
  unfold sqdistZ
  rw [Fin.sum_univ_castSucc, hlast a ha, hlast b hb]
  simp only [hmid]
  simp
end bridge

section bridge2
variable {α : Type} [DecidableEq α]

theorem sqdist_histEncode_le (A : List α) (c k : Nat) (hc : 1 ≤ c) (a b : List α)
    (ha : ∀ ch ∈ a, ch ∈ A) (hb : ∀ ch ∈ b, ch ∈ A)
    (u v : List Nat) (hu : histEncode A c a = some u) (hv : histEncode A c b = some v)
    (h : lev a b ≤ k) : sqdist u v ≤ 2 * k * k := by
  rw [histEncode_eq A c a ha] at hu
  rw [histEncode_eq A c b hb] at hv
  cases hu; cases hv
  have h1 := sqdist_counts (fun ch => A.idxOf ch / c) ((A.length + c - 1) / c) a b
    (fun ch hch => idx_div_lt A c hc ch (ha ch hch)) (fun ch hch => idx_div_lt A c hc ch (hb ch hch))
  have h2 := sqdist_hist_le (binOf (fun ch => A.idxOf ch / c) ((A.length + c - 1) / c)) a b k h
  rw [← h1] at h2
  have : ((2 * k * k : ℕ) : ℤ) = 2 * (k : ℤ) ^ 2 := by push_cast; ring
  rw [← this] at h2
  exact_mod_cast h2
end bridge2

/-! ### `mapM` in the `Option` monad -/
section mapM
variable {β γ : Type}

theorem mapM_option_cons (f : β → Option γ) (x : β) (xs : List β) :
    (x :: xs).mapM f = (f x).bind fun y => (xs.mapM f).map (y :: ·) := by
  rw [List.mapM_cons]
  cases f x <;> cases xs.mapM f <;> rfl

theorem mapM_eq_some_map (f : β → Option γ) (g : β → γ) (xs : List β)
    (h : ∀ x ∈ xs, f x = some (g x)) : xs.mapM f = some (xs.map g) := by
  induction xs with
  | nil => rfl
  | cons x xs ih =>
    rw [mapM_option_cons, h x (by simp), ih fun y hy => h y (by simp [hy])]
    rfl

theorem mapM_eq_none_iff (f : β → Option γ) (xs : List β) :
    xs.mapM f = none ↔ ∃ x ∈ xs, f x = none := by
  induction xs with
  | nil => simp
  | cons x xs ih =>
    rw [mapM_option_cons]
    cases hx : f x with
    | none => simp [hx]
    | some y => simp [hx, ih]
end mapM

/-! ### the engine -/
section engine
variable {α D : Type} [DecidableEq α]

omit [DecidableEq α] in
theorem mem_kdRow (score : List α → List α → Option D) (xs : List (List α)) (i : Nat)
    (cand : List Nat) (t : Trip D) :
    t ∈ kdRow score xs i cand ↔ ∃ q r j d, xs[i]? = some q ∧ xs[j]? = some r ∧ j ∈ cand ∧ j ≠ i ∧
      score q r = some d ∧ t = (i, j, d) := by
  unfold kdRow
  cases hi : xs[i]? with
  | none => simp
  | some q =>
    simp only [List.mem_filterMap, List.mem_filter, ne_eq, decide_eq_true_eq]
    constructor
    · rintro ⟨j, ⟨hj, hne⟩, h⟩
      cases hr : xs[j]? with
      | none => simp [hr] at h
      | some r =>
        simp only [hr, Option.map_eq_some_iff] at h
        obtain ⟨d, hd, rfl⟩ := h
        exact ⟨q, r, j, d, rfl, hr, hj, hne, hd, rfl⟩
    · rintro ⟨q', r, j, d, hq, hr, hj, hne, hd, rfl⟩
      cases hq
      exact ⟨j, ⟨hj, hne⟩, by simp [hr, hd]⟩

omit [DecidableEq α] in
theorem kdRow_nodup (score : List α → List α → Option D) (xs : List (List α)) (i : Nat)
    (cand : List Nat) (h : cand.Nodup) : (kdRow score xs i cand).Nodup := by
  unfold kdRow
  cases hi : xs[i]? with
  | none => simp
  | some q =>
    refine nodup_filterMap ?_ (h.filter _)
    intro a a' b h1 h2
    cases hr : xs[a]? with
    | none => simp [hr] at h1
    | some r =>
      cases hr' : xs[a']? with
      | none => simp [hr'] at h2
      | some r' =>
        simp only [hr, hr', Option.map_eq_some_iff] at h1 h2
        obtain ⟨d, _, rfl⟩ := h1
        obtain ⟨d', _, h2⟩ := h2
        simp only [Prod.mk.injEq] at h2
        exact h2.2.1.symm

/-- what `kdtreeSelf` computes once the encodings `hs` are known -/
theorem kdRows_spec (A : List α) (c k : Nat) (hc : 1 ≤ c) (score : List α → List α → Option D)
    (xs : List (List α)) (hA : ∀ s ∈ xs, ∀ ch ∈ s, ch ∈ A)
    (hscore : ∀ a b d, score a b = some d → lev a b ≤ k)
    (G : List α → List Nat) (hG : ∀ s ∈ xs, histEncode A c s = some (G s)) :
    let ts := (ballQuery k (xs.map G)).zipIdx.flatMap fun ci => kdRow score xs ci.2 ci.1
    ts.Nodup ∧ ∀ t, t ∈ ts ↔ SelfPairs score xs t := by
  intro ts
  constructor
  · refine nodup_flatMap ?_ ?_
    · intro ci hci
      apply kdRow_nodup
      have := List.mem_of_getElem? (List.mem_zipIdx_iff_getElem?.1 hci)
      simp only [ballQuery, List.mem_map] at this
      obtain ⟨v, _, hv⟩ := this
      rw [← hv]; exact positionsWhere_nodup _ _
    · refine (zipIdx_pairwise_snd _).imp ?_
      intro p p' hne x hx hx'
      rw [mem_kdRow] at hx hx'
      obtain ⟨_, _, _, _, _, _, _, _, _, rfl⟩ := hx
      obtain ⟨_, _, _, _, _, _, _, _, _, h⟩ := hx'
      simp only [Prod.mk.injEq] at h
      exact hne h.1
  · intro t
    simp only [ts, List.mem_flatMap]
    constructor
    · rintro ⟨ci, _, ht⟩
      rw [mem_kdRow] at ht
      obtain ⟨q, r, j, d, hq, hr, _, hne, hd, rfl⟩ := ht
      exact ⟨q, r, fun e => hne e.symm, hq, hr, hd⟩
    · rintro ⟨a, b, hne, hi, hj, hd⟩
      obtain ⟨i, j, d⟩ := t
      simp only at hne hi hj hd
      refine ⟨(positionsWhere (fun u => decide (sqdist (G a) u ≤ 2 * k * k)) (xs.map G), i), ?_, ?_⟩
      · rw [List.mem_zipIdx_iff_getElem?]
        simp [ballQuery, hi]
      · rw [mem_kdRow]
        refine ⟨a, b, j, d, hi, hj, ?_, fun e => hne e.symm, hd, rfl⟩
        rw [mem_positionsWhere]
        refine ⟨G b, by simp [hj], decide_eq_true ?_⟩
        have ha := List.mem_of_getElem? hi
        have hb := List.mem_of_getElem? hj
        exact sqdist_histEncode_le A c k hc a b (hA a ha) (hA b hb) _ _ (hG a ha) (hG b hb)
          (hscore a b d hd)

/-- EXACTNESS of the kd-tree engine for every compression c ≥ 1, every k, every score that only
accepts pairs within Levenshtein distance k -/
theorem kdtreeSelf_exact (A : List α) (c k : Nat) (hc : 1 ≤ c)
    (score : List α → List α → Option D) (xs : List (List α))
    (hA : ∀ s ∈ xs, ∀ ch ∈ s, ch ∈ A)
    (hscore : ∀ a b d, score a b = some d → lev a b ≤ k) :
    ∃ ts, kdtreeSelf A c k score xs = some ts ∧ ts.Nodup ∧ ∀ t, t ∈ ts ↔ SelfPairs score xs t := by
  have hG : ∀ s ∈ xs, histEncode A c s = some ((histEncode A c s).getD []) := by
    intro s hs
    have := (histEncode_isSome_iff A c s).2 (hA s hs)
    obtain ⟨u, hu⟩ := Option.isSome_iff_exists.1 this
    simp [hu]
  have hm := mapM_eq_some_map (histEncode A c) _ xs hG
  have := kdRows_spec A c k hc score xs hA hscore _ hG
  exact ⟨_, by simp only [kdtreeSelf, hm], this⟩

theorem kdtreeSelf_none_iff (A : List α) (c k : Nat) (score : List α → List α → Option D)
    (xs : List (List α)) :
    kdtreeSelf A c k score xs = none ↔ ∃ s ∈ xs, ∃ ch ∈ s, ch ∉ A := by
  unfold kdtreeSelf
  cases h : xs.mapM (histEncode A c) with
  | none =>
    simp only [true_iff]
    obtain ⟨s, hs, hn⟩ := (mapM_eq_none_iff _ _).1 h
    exact ⟨s, hs, (histEncode_eq_none_iff A c s).1 hn⟩
  | some hs =>
    simp only [reduceCtorEq, false_iff]
    rintro ⟨s, hs', hn⟩
    have := (mapM_eq_none_iff (histEncode A c) xs).2 ⟨s, hs', (histEncode_eq_none_iff A c s).2 hn⟩
    rw [h] at this; cases this
end engine

/-! ### Hamming mode: length buckets -/
section hamming
variable {α D : Type} [DecidableEq α]

/-- the bucket of length `l` -/
def bucketOf (xs : List (List α)) (l : Nat) : List (List α × Nat) :=
  xs.zipIdx.filter fun p => p.1.length == l

omit [DecidableEq α] in
theorem mem_bucketOf (xs : List (List α)) (l : Nat) (s : List α) (i : Nat) :
    (s, i) ∈ bucketOf xs l ↔ xs[i]? = some s ∧ s.length = l := by
  simp [bucketOf, List.mem_filter, List.mem_zipIdx_iff_getElem?]

omit [DecidableEq α] in
theorem bucketOf_snd_nodup (xs : List (List α)) (l : Nat) : ((bucketOf xs l).map (·.2)).Nodup :=
  (zipIdx_filter_pairwise (fun p : List α × Nat => p.1.length == l) xs 0).1.imp
    (fun h => Nat.ne_of_lt h)

omit [DecidableEq α] in
/-- two bucket slots carrying the same original position are the same slot -/
theorem bucketOf_slot_inj (xs : List (List α)) (l p q : Nat) (s s' : List α) (i : Nat)
    (hp : (bucketOf xs l)[p]? = some (s, i)) (hq : (bucketOf xs l)[q]? = some (s', i)) : p = q := by
  have hlt : p < ((bucketOf xs l).map (·.2)).length := by
    rw [List.length_map]; exact (List.getElem?_eq_some_iff.1 hp).1
  refine (List.getElem?_inj hlt (bucketOf_snd_nodup xs l)).1 ?_
  simp [List.getElem?_map, hp, hq]

omit [DecidableEq α] in
theorem lenBuckets_eq (xs : List (List α)) :
    lenBuckets xs = (dedup (xs.map List.length)).map (bucketOf xs) := rfl

/-- bucket-local triplet ↦ triplet of original positions -/
def relabel (b : List (List α × Nat)) (t : Trip D) : Trip D :=
  (((b.map (·.2))[t.1]?).getD 0, ((b.map (·.2))[t.2.1]?).getD 0, t.2.2)

omit [DecidableEq α] in
theorem relabel_eq (b : List (List α × Nat)) (t : Trip D) (a a' : List α) (i j : Nat)
    (h1 : b[t.1]? = some (a, i)) (h2 : b[t.2.1]? = some (a', j)) :
    relabel b t = (i, j, t.2.2) := by
  simp [relabel, List.getElem?_map, h1, h2]

omit [DecidableEq α] in
theorem selfPairs_bucket (score : List α → List α → Option D) (b : List (List α × Nat))
    (t : Trip D) :
    SelfPairs score (b.map (·.1)) t ↔ ∃ a i a' j, t.1 ≠ t.2.1 ∧ b[t.1]? = some (a, i) ∧
      b[t.2.1]? = some (a', j) ∧ score a a' = some t.2.2 := by
  unfold SelfPairs
  simp only [List.getElem?_map, Option.map_eq_some_iff]
  constructor
  · rintro ⟨a, a', hne, ⟨⟨x, i⟩, hx, rfl⟩, ⟨⟨y, j⟩, hy, rfl⟩, hs⟩
    exact ⟨x, i, y, j, hne, hx, hy, hs⟩
  · rintro ⟨a, i, a', j, hne, hx, hy, hs⟩
    exact ⟨a, a', hne, ⟨_, hx, rfl⟩, ⟨_, hy, rfl⟩, hs⟩

omit [DecidableEq α] in
/-- one bucket: relabelled exact answer of the bucket = the pairs of `xs` whose first string has
length `l` (both strings, since `score` only accepts equal lengths) -/
theorem bucket_spec (score : List α → List α → Option D) (xs : List (List α)) (l : Nat)
    (hlen : ∀ a b d, score a b = some d → a.length = b.length)
    (ts : List (Trip D)) (hnd : ts.Nodup)
    (hts : ∀ t, t ∈ ts ↔ SelfPairs score ((bucketOf xs l).map (·.1)) t) :
    (ts.map (relabel (bucketOf xs l))).Nodup ∧
    ∀ t, t ∈ ts.map (relabel (bucketOf xs l)) ↔
      SelfPairs score xs t ∧ ∃ a, xs[t.1]? = some a ∧ a.length = l := by
  have F1 : ∀ (p : Nat) (s : List α) (i : Nat), (bucketOf xs l)[p]? = some (s, i) → xs[i]? = some s ∧ s.length = l :=
    fun p s i h => (mem_bucketOf xs l s i).1 (List.mem_of_getElem? h)
  constructor
  · refine List.Nodup.map_on ?_ hnd
    intro t1 h1 t2 h2 he
    obtain ⟨a1, i1, b1, j1, _, hp1, hq1, _⟩ := (selfPairs_bucket score _ t1).1 ((hts t1).1 h1)
    obtain ⟨a2, i2, b2, j2, _, hp2, hq2, _⟩ := (selfPairs_bucket score _ t2).1 ((hts t2).1 h2)
    rw [relabel_eq _ t1 _ _ _ _ hp1 hq1, relabel_eq _ t2 _ _ _ _ hp2 hq2] at he
    simp only [Prod.mk.injEq] at he
    obtain ⟨rfl, rfl, hd⟩ := he
    have e1 := bucketOf_slot_inj xs l _ _ _ _ _ hp1 hp2
    have e2 := bucketOf_slot_inj xs l _ _ _ _ _ hq1 hq2
    obtain ⟨p1, q1, d1⟩ := t1
    obtain ⟨p2, q2, d2⟩ := t2
    simp only at e1 e2 hd
    rw [e1, e2, hd]
  · intro t
    rw [List.mem_map]
    constructor
    · rintro ⟨t', ht', rfl⟩
      obtain ⟨a, i, a', j, hne, hp, hq, hs⟩ := (selfPairs_bucket score _ t').1 ((hts t').1 ht')
      rw [relabel_eq _ t' _ _ _ _ hp hq]
      obtain ⟨hi, hl⟩ := F1 _ _ _ hp
      obtain ⟨hj, _⟩ := F1 _ _ _ hq
      refine ⟨⟨a, a', ?_, hi, hj, hs⟩, a, hi, hl⟩
      intro e
      simp only at e
      subst e
      exact hne (bucketOf_slot_inj xs l _ _ _ _ _ hp hq)
    · rintro ⟨⟨a, a', hne, hi, hj, hs⟩, a0, hi0, hl⟩
      rw [hi] at hi0; cases hi0
      obtain ⟨i, j, d⟩ := t
      simp only at hne hi hj hs
      have hl' : a'.length = l := by rw [← hlen a a' d hs]; exact hl
      obtain ⟨p, hp⟩ := List.getElem?_of_mem ((mem_bucketOf xs l a i).2 ⟨hi, hl⟩)
      obtain ⟨q, hq⟩ := List.getElem?_of_mem ((mem_bucketOf xs l a' j).2 ⟨hj, hl'⟩)
      refine ⟨(p, q, d), (hts _).2 ((selfPairs_bucket score _ _).2 ⟨a, i, a', j, ?_, hp, hq, hs⟩), ?_⟩
      · intro e
        simp only at e
        subst e
        rw [hp] at hq
        simp only [Option.some.injEq, Prod.mk.injEq] at hq
        exact hne hq.2
      · exact relabel_eq _ (p, q, d) _ _ _ _ hp hq

/-- Hamming mode: sequences are bucketed by length, each bucket searched separately, positions
mapped back to ORIGINAL input positions -/
theorem kdtreeHamming_exact (A : List α) (c k : Nat) (hc : 1 ≤ c)
    (score : List α → List α → Option D) (xs : List (List α))
    (hA : ∀ s ∈ xs, ∀ ch ∈ s, ch ∈ A)
    (hscore : ∀ a b d, score a b = some d → lev a b ≤ k ∧ a.length = b.length) :
    ∃ ts, kdtreeHamming A c k score xs = some ts ∧ ts.Nodup ∧
      ∀ t, t ∈ ts ↔ SelfPairs score xs t := by
  -- per-bucket answers
  let g : List (List α × Nat) → List (Trip D) := fun b =>
    ((kdtreeSelf A c k score (b.map (·.1))).getD []).map (relabel b)
  have hb : ∀ l, ∃ ts, kdtreeSelf A c k score ((bucketOf xs l).map (·.1)) = some ts ∧
      (ts.map (relabel (bucketOf xs l))).Nodup ∧
      ∀ t, t ∈ ts.map (relabel (bucketOf xs l)) ↔
        SelfPairs score xs t ∧ ∃ a, xs[t.1]? = some a ∧ a.length = l := by
    intro l
    have hA' : ∀ s ∈ (bucketOf xs l).map (·.1), ∀ ch ∈ s, ch ∈ A := by
      intro s hs
      rw [List.mem_map] at hs
      obtain ⟨⟨s', i⟩, hm, rfl⟩ := hs
      exact hA _ (List.mem_of_getElem? ((mem_bucketOf xs l s' i).1 hm).1)
    obtain ⟨ts, h1, h2, h3⟩ := kdtreeSelf_exact A c k hc score _ hA'
      (fun a b d h => (hscore a b d h).1)
    exact ⟨ts, h1, bucket_spec score xs l (fun a b d h => (hscore a b d h).2) ts h2 h3⟩
  have hg : ∀ l, (g (bucketOf xs l)).Nodup ∧ ∀ t, t ∈ g (bucketOf xs l) ↔
      SelfPairs score xs t ∧ ∃ a, xs[t.1]? = some a ∧ a.length = l := by
    intro l
    obtain ⟨ts, h1, h2⟩ := hb l
    simp only [g, h1, Option.getD_some]
    exact h2
  have hm : (lenBuckets xs).mapM (fun b =>
      (kdtreeSelf A c k score (b.map (·.1))).map fun ts =>
        ts.map fun t => (((b.map (·.2))[t.1]?).getD 0, ((b.map (·.2))[t.2.1]?).getD 0, t.2.2))
      = some ((lenBuckets xs).map g) := by
    refine mapM_eq_some_map _ g _ ?_
    intro b hb'
    rw [lenBuckets_eq, List.mem_map] at hb'
    obtain ⟨l, _, rfl⟩ := hb'
    obtain ⟨ts, h1, _⟩ := hb l
    simp only [g, h1, Option.getD_some, Option.map_some]
    rfl
  refine ⟨((lenBuckets xs).map g).flatten, by simp only [kdtreeHamming, hm, Option.map_some], ?_, ?_⟩
  · rw [← List.flatMap_def]
    refine nodup_flatMap ?_ ?_
    · intro b hb'
      rw [lenBuckets_eq, List.mem_map] at hb'
      obtain ⟨l, _, rfl⟩ := hb'
      exact (hg l).1
    · rw [lenBuckets_eq, List.pairwise_map]
      refine (nodup_dedup (xs.map List.length)).imp ?_
      intro l l' hne x hx hx'
      obtain ⟨_, a, ha, hl⟩ := ((hg l).2 x).1 hx
      obtain ⟨_, a', ha', hl'⟩ := ((hg l').2 x).1 hx'
      rw [ha] at ha'; cases ha'
      exact hne (hl.symm.trans hl')
  · intro t
    rw [List.mem_flatten]
    constructor
    · rintro ⟨r, hr, ht⟩
      rw [lenBuckets_eq, List.map_map, List.mem_map] at hr
      obtain ⟨l, _, rfl⟩ := hr
      exact (((hg l).2 t).1 ht).1
    · intro h
      obtain ⟨a, b, _, hi, _, _⟩ := id h
      refine ⟨g (bucketOf xs a.length), ?_, ((hg a.length).2 t).2 ⟨h, a, hi, rfl⟩⟩
      rw [lenBuckets_eq, List.map_map, List.mem_map]
      refine ⟨a.length, ?_, rfl⟩
      rw [mem_dedup, List.mem_map]
      exact ⟨a, List.mem_of_getElem? hi, rfl⟩
end hamming

/-! ### the three concrete modes -/
section modes
variable {α : Type} [DecidableEq α]

theorem kdtreeSelf_levScore_exact (A : List α) (c k : Nat) (hc : 1 ≤ c) (xs : List (List α))
    (hA : ∀ s ∈ xs, ∀ ch ∈ s, ch ∈ A) :
    ∃ ts, kdtreeSelf A c k (levScore k) xs = some ts ∧ ts.Nodup ∧
      ∀ t, t ∈ ts ↔ SelfPairs (levScore k) xs t := by
  refine kdtreeSelf_exact A c k hc _ xs hA ?_
  intro a b d h
  unfold levScore at h
  split at h
  · assumption
  · cases h

theorem kdtreeSelf_customScore_exact {D : Type} (A : List α) (c k : Nat) (hc : 1 ≤ c)
    (cd : List α → List α → D) (inRadius : D → Bool) (xs : List (List α))
    (hA : ∀ s ∈ xs, ∀ ch ∈ s, ch ∈ A) :
    ∃ ts, kdtreeSelf A c k (customScore k cd inRadius) xs = some ts ∧ ts.Nodup ∧
      ∀ t, t ∈ ts ↔ SelfPairs (customScore k cd inRadius) xs t := by
  refine kdtreeSelf_exact A c k hc _ xs hA ?_
  intro a b d h
  unfold customScore at h
  split at h
  · rename_i h'; exact h'.1
  · cases h

theorem kdtreeHamming_hamScore_exact (A : List α) (c k : Nat) (hc : 1 ≤ c) (xs : List (List α))
    (hA : ∀ s ∈ xs, ∀ ch ∈ s, ch ∈ A) :
    ∃ ts, kdtreeHamming A c k (hamScore k) xs = some ts ∧ ts.Nodup ∧
      ∀ t, t ∈ ts ↔ SelfPairs (hamScore k) xs t := by
  refine kdtreeHamming_exact A c k hc _ xs hA ?_
  intro a b d h
  unfold hamScore ham at h
  by_cases hl : a.length = b.length
  · simp only [hl, if_true] at h
    split at h
    · rename_i hd
      exact ⟨Nat.le_trans (lev_le_mismatches a b hl) hd, hl⟩
    · cases h
  · simp [hl] at h
end modes

end Prs

