/-
Proofs/LinkageAux.lean — helper lemmas for Proofs/Linkage.lean: the running-minimum folds,
`clusterDist`, `clusterPairs`, `closestPair`, `linkStep`, `mergeClusters`.
-/
import Prs.Model.Linkage
import Prs.Proofs.Cluster
import Mathlib.Logic.Relation
import Mathlib.Algebra.Order.Ring.Rat
import Mathlib.Data.Nat.Cast.Order.Basic

namespace Prs

/-! ### running minimum -/

section foldmin
variable {β : Type} (k : β → Rat)

/-- the step function shared by `clusterDist` and `closestPair` -/
def minStep (k : β → Rat) (acc : Option β) (x : β) : Option β :=
  match acc with
  | none => some x
  | some m => if k x < k m then some x else some m

theorem foldl_minStep_some (l : List β) (m : β) :
    ∃ r, l.foldl (minStep k) (some m) = some r ∧ (r = m ∨ r ∈ l) ∧ k r ≤ k m ∧
      ∀ x ∈ l, k r ≤ k x := by
  induction l generalizing m with
  | nil => exact ⟨m, rfl, Or.inl rfl, le_refl _, by simp⟩
  | cons x xs ih =>
    simp only [List.foldl_cons, minStep]
    by_cases hx : k x < k m
    · rw [if_pos hx]
      obtain ⟨r, hr, hmem, hle, hall⟩ := ih x
      refine ⟨r, hr, Or.inr ?_, le_trans hle (le_of_lt hx), ?_⟩
      · rcases hmem with rfl | h
        · simp
        · simp [h]
      · intro y hy
        rcases List.mem_cons.1 hy with rfl | h
        · exact hle
        · exact hall y h
    · rw [if_neg hx]
      obtain ⟨r, hr, hmem, hle, hall⟩ := ih m
      refine ⟨r, hr, ?_, hle, ?_⟩
      · rcases hmem with rfl | h
        · left; rfl
        · right; simp [h]
      · intro y hy
        rcases List.mem_cons.1 hy with rfl | h
        · exact le_trans hle (not_lt.1 hx)
        · exact hall y h

theorem foldl_minStep_nil : ([] : List β).foldl (minStep k) none = none := rfl

theorem foldl_minStep_ne_nil (l : List β) (hl : l ≠ []) :
    ∃ r, l.foldl (minStep k) none = some r ∧ r ∈ l ∧ ∀ x ∈ l, k r ≤ k x := by
  cases l with
  | nil => exact absurd rfl hl
  | cons x xs =>
    obtain ⟨r, hr, hmem, hle, hall⟩ := foldl_minStep_some k xs x
    refine ⟨r, ?_, ?_, ?_⟩
    · simpa [List.foldl_cons, minStep] using hr
    · rcases hmem with rfl | h
      · simp
      · simp [h]
    · intro y hy
      rcases List.mem_cons.1 hy with rfl | h
      · exact hle
      · exact hall y h

theorem foldl_minStep_eq_some {l : List β} {r : β} (h : l.foldl (minStep k) none = some r) :
    r ∈ l ∧ ∀ x ∈ l, k r ≤ k x := by
  by_cases hl : l = []
  · subst hl; cases h
  · obtain ⟨r', hr', hmem, hall⟩ := foldl_minStep_ne_nil k l hl
    rw [hr'] at h
    cases h
    exact ⟨hmem, hall⟩

theorem foldl_minStep_eq_none {l : List β} (h : l.foldl (minStep k) none = none) : l = [] := by
  by_cases hl : l = []
  · exact hl
  · obtain ⟨r', hr', _⟩ := foldl_minStep_ne_nil k l hl
    rw [hr'] at h
    cases h

end foldmin

/-! ### clusterDist -/

theorem clusterDist_eq (d : Nat → Nat → Rat) (A B : List Nat) :
    clusterDist d A B = (A.flatMap fun a => B.map fun b => d a b).foldl (minStep fun x => x) none := by
  unfold clusterDist
  congr 1
  funext acc x
  cases acc <;> rfl

theorem closestPair_eq (ps : List (Nat × Nat × Rat)) :
    closestPair ps = ps.foldl (minStep fun x => x.2.2) none := by
  unfold closestPair
  congr 1
  funext acc x
  cases acc <;> rfl

theorem clusterDist_le (d : Nat → Nat → Rat) {A B : List Nat} {a b : Nat} (ha : a ∈ A)
    (hb : b ∈ B) : ∃ h, clusterDist d A B = some h ∧ h ≤ d a b := by
  have hmem : d a b ∈ (A.flatMap fun a => B.map fun b => d a b) :=
    List.mem_flatMap.2 ⟨a, ha, List.mem_map.2 ⟨b, hb, rfl⟩⟩
  obtain ⟨r, hr, _, hall⟩ :=
    foldl_minStep_ne_nil (fun x : Rat => x) _ (List.ne_nil_of_mem hmem)
  exact ⟨r, by rw [clusterDist_eq]; exact hr, hall _ hmem⟩

theorem clusterDist_some (d : Nat → Nat → Rat) {A B : List Nat} {h : Rat}
    (hc : clusterDist d A B = some h) :
    (∃ a ∈ A, ∃ b ∈ B, d a b = h) ∧ ∀ a ∈ A, ∀ b ∈ B, h ≤ d a b := by
  rw [clusterDist_eq] at hc
  obtain ⟨hmem, hall⟩ := foldl_minStep_eq_some (fun x : Rat => x) hc
  constructor
  · obtain ⟨a, ha, hm⟩ := List.mem_flatMap.1 hmem
    obtain ⟨b, hb, hab⟩ := List.mem_map.1 hm
    exact ⟨a, ha, b, hb, hab⟩
  · intro a ha b hb
    exact hall _ (List.mem_flatMap.2 ⟨a, ha, List.mem_map.2 ⟨b, hb, rfl⟩⟩)

/-! ### clusterPairs / closestPair -/

theorem mem_clusterPairs (d : Nat → Nat → Rat) (cs : List (List Nat)) (i j : Nat) (h : Rat) :
    (i, j, h) ∈ clusterPairs d cs ↔
      i < j ∧ j < cs.length ∧ clusterDist d (cs.getD i []) (cs.getD j []) = some h := by
  simp only [clusterPairs, List.mem_flatMap, List.mem_range, List.mem_filterMap]
  constructor
  · rintro ⟨i', hi', j', hj', heq⟩
    split at heq
    · rename_i hlt
      obtain ⟨h', hh, he⟩ := Option.map_eq_some_iff.1 heq
      simp only [Prod.mk.injEq] at he
      obtain ⟨rfl, rfl, rfl⟩ := he
      exact ⟨hlt, hj', hh⟩
    · cases heq
  · rintro ⟨hij, hj, hc⟩
    exact ⟨i, by omega, j, hj, by rw [if_pos hij, hc]; rfl⟩

theorem closestPair_some {ps : List (Nat × Nat × Rat)} {p : Nat × Nat × Rat}
    (h : closestPair ps = some p) : p ∈ ps ∧ ∀ q ∈ ps, p.2.2 ≤ q.2.2 := by
  rw [closestPair_eq] at h
  exact foldl_minStep_eq_some (fun x : Nat × Nat × Rat => x.2.2) h

theorem closestPair_none {ps : List (Nat × Nat × Rat)} (h : closestPair ps = none) : ps = [] := by
  rw [closestPair_eq] at h
  exact foldl_minStep_eq_none _ h

/-! ### linkStep -/

theorem linkStep_some_eq (d : Nat → Nat → Rat) (tt : Rat) (cs : List (List Nat)) :
    linkStep d (some tt) cs =
      match linkStep d none cs with
      | none => none
      | some (cs', h) => if h ≤ tt then some (cs', h) else none := by
  unfold linkStep
  cases closestPair (clusterPairs d cs) with
  | none => rfl
  | some p => obtain ⟨i, j, h⟩ := p; rfl

theorem linkStep_some {d : Nat → Nat → Rat} {t : Option Rat} {cs cs' : List (List Nat)} {h : Rat}
    (hs : linkStep d t cs = some (cs', h)) :
    ∃ i j, i < j ∧ j < cs.length ∧ cs' = mergeClusters cs i j ∧
      clusterDist d (cs.getD i []) (cs.getD j []) = some h ∧ (∀ tt, t = some tt → h ≤ tt) ∧
      ∀ p q h', p < q → q < cs.length →
        clusterDist d (cs.getD p []) (cs.getD q []) = some h' → h ≤ h' := by
  unfold linkStep at hs
  cases hcp : closestPair (clusterPairs d cs) with
  | none => rw [hcp] at hs; cases hs
  | some pr =>
    obtain ⟨i, j, h0⟩ := pr
    rw [hcp] at hs
    obtain ⟨hmem, hmin⟩ := closestPair_some hcp
    obtain ⟨hij, hj, hc⟩ := (mem_clusterPairs d cs i j h0).1 hmem
    have key : cs' = mergeClusters cs i j ∧ h = h0 ∧ (∀ tt, t = some tt → h ≤ tt) := by
      cases t with
      | none =>
        simp only [Option.some.injEq, Prod.mk.injEq] at hs
        exact ⟨hs.1.symm, hs.2.symm, by intro tt ht; cases ht⟩
      | some tt =>
        simp only at hs
        split at hs
        · rename_i hle
          simp only [Option.some.injEq, Prod.mk.injEq] at hs
          refine ⟨hs.1.symm, hs.2.symm, ?_⟩
          intro tt' ht'
          cases ht'
          rw [← hs.2]; exact hle
        · cases hs
    obtain ⟨h1, h2, h3⟩ := key
    subst h2
    refine ⟨i, j, hij, hj, h1, hc, h3, ?_⟩
    intro p q h' hpq hq hc'
    exact hmin (p, q, h') ((mem_clusterPairs d cs p q h').2 ⟨hpq, hq, hc'⟩)

theorem linkStep_none_of_cut {d : Nat → Nat → Rat} {tt : Rat} {cs : List (List Nat)}
    (hs : linkStep d (some tt) cs = none) :
    ∀ p q h', p < q → q < cs.length →
      clusterDist d (cs.getD p []) (cs.getD q []) = some h' → tt < h' := by
  intro p q h' hpq hq hc'
  have hmem := (mem_clusterPairs d cs p q h').2 ⟨hpq, hq, hc'⟩
  unfold linkStep at hs
  cases hcp : closestPair (clusterPairs d cs) with
  | none =>
    rw [closestPair_none hcp] at hmem
    cases hmem
  | some pr =>
    obtain ⟨i, j, h0⟩ := pr
    rw [hcp] at hs
    simp only at hs
    split at hs
    · cases hs
    · rename_i hnle
      have := (closestPair_some hcp).2 _ hmem
      exact lt_of_lt_of_le (not_le.1 hnle) this

theorem linkStep_none_none {d : Nat → Nat → Rat} {cs : List (List Nat)}
    (hs : linkStep d none cs = none) : clusterPairs d cs = [] := by
  unfold linkStep at hs
  cases hcp : closestPair (clusterPairs d cs) with
  | none => exact closestPair_none hcp
  | some pr =>
    obtain ⟨i, j, h0⟩ := pr
    rw [hcp] at hs
    cases hs

/-! ### mergeClusters -/

theorem getD_eq_getElem' (cs : List (List Nat)) (i : Nat) (hi : i < cs.length) :
    cs.getD i [] = cs[i] := by
  simp [List.getD, hi]

theorem getD_mem' (cs : List (List Nat)) (i : Nat) (hi : i < cs.length) : cs.getD i [] ∈ cs := by
  rw [getD_eq_getElem' cs i hi]; exact List.getElem_mem hi

theorem mergeClusters_perm (cs : List (List Nat)) (i j : Nat) (hij : i < j) (hj : j < cs.length) :
    (cs.getD j [] :: cs.getD i [] :: ((cs.eraseIdx j).eraseIdx i)).Perm cs := by
  have h1 := List.getElem_cons_eraseIdx_perm hj
  have hlen : i < (cs.eraseIdx j).length := by
    rw [List.length_eraseIdx_of_lt hj]; omega
  have h2 := List.getElem_cons_eraseIdx_perm hlen
  rw [List.getElem_eraseIdx_of_lt hlen hij] at h2
  rw [getD_eq_getElem' cs j hj, getD_eq_getElem' cs i (by omega)]
  exact (List.Perm.cons _ h2).trans h1

theorem mem_mergeClusters (cs : List (List Nat)) (i j : Nat) (c : List Nat) :
    c ∈ mergeClusters cs i j ↔
      c ∈ (cs.eraseIdx j).eraseIdx i ∨ c = cs.getD i [] ++ cs.getD j [] := by
  simp [mergeClusters]

theorem mem_of_perm_merge (cs : List (List Nat)) (i j : Nat) (hij : i < j) (hj : j < cs.length)
    (c : List Nat) :
    c ∈ cs ↔ c = cs.getD j [] ∨ c = cs.getD i [] ∨ c ∈ (cs.eraseIdx j).eraseIdx i := by
  rw [← (mergeClusters_perm cs i j hij hj).mem_iff]
  simp

theorem mergeClusters_length (cs : List (List Nat)) (i j : Nat) (hij : i < j)
    (hj : j < cs.length) : (mergeClusters cs i j).length + 1 = cs.length := by
  have := (mergeClusters_perm cs i j hij hj).length_eq
  simp only [List.length_cons] at this
  simp only [mergeClusters, List.length_append, List.length_cons, List.length_nil]
  omega

theorem mergeClusters_flatten_perm (cs : List (List Nat)) (i j : Nat) (hij : i < j)
    (hj : j < cs.length) : (mergeClusters cs i j).flatten.Perm cs.flatten := by
  have h := (mergeClusters_perm cs i j hij hj).flatten
  refine List.Perm.trans ?_ h
  simp only [mergeClusters, List.flatten_append, List.flatten_cons, List.flatten_nil,
    List.append_nil]
  refine List.perm_append_comm.trans ?_
  rw [List.append_assoc]
  refine List.Perm.trans ?_ (List.perm_append_comm_assoc _ _ _)
  exact List.Perm.refl _

/-- if two points share a cluster before a merge, they share one after it -/
theorem together_merge (cs : List (List Nat)) (i j : Nat) (hij : i < j) (hj : j < cs.length)
    {a b : Nat} (h : ∃ c ∈ cs, a ∈ c ∧ b ∈ c) : ∃ c ∈ mergeClusters cs i j, a ∈ c ∧ b ∈ c := by
  obtain ⟨c, hc, ha, hb⟩ := h
  rcases (mem_of_perm_merge cs i j hij hj c).1 hc with rfl | rfl | hr
  · exact ⟨_, (mem_mergeClusters cs i j _).2 (Or.inr rfl), List.mem_append.2 (Or.inr ha),
      List.mem_append.2 (Or.inr hb)⟩
  · exact ⟨_, (mem_mergeClusters cs i j _).2 (Or.inr rfl), List.mem_append.2 (Or.inl ha),
      List.mem_append.2 (Or.inl hb)⟩
  · exact ⟨c, (mem_mergeClusters cs i j _).2 (Or.inl hr), ha, hb⟩

end Prs
