/-
Proofs/Purity.lean — history independence of calls whose footprints satisfy `footprintsOk` (C20).
Core Lean only.
-/
import Prs.Model.Purity

namespace Prs

/-- `footprintsOk` unfolds to the readable statement -/
theorem footprintsOk_iff (table : List Footprint) :
    footprintsOk table = true ↔
      ∀ op ∈ table, op.mutatesArgs = false ∧ ∀ c ∈ op.writes, ∀ op' ∈ table, c ∉ op'.readsIn := by
  simp [footprintsOk, List.all_eq_true]

/-- under the side condition, a cell that some operation of the table reads is written by none -/
theorem not_mem_writes_of_readsIn (table : List Footprint) (hok : footprintsOk table = true)
    (fp : Footprint) (hfp : fp ∈ table) (c : CellId) (hc : ∃ op' ∈ table, c ∈ op'.readsIn) :
    c ∉ fp.writes := by
  intro hw
  obtain ⟨op', hop', hc'⟩ := hc
  exact ((footprintsOk_iff table).1 hok fp hfp).2 c hw op' hop' hc'

/-- cells that no operation of the table depends on are the only ones ever modified: the state after
any history agrees with the initial state on every cell some operation reads (before writing it) -/
theorem history_preserves_read_cells {A V R : Type} (table : List Footprint)
    (hok : footprintsOk table = true)
    (h : List (Op A V R × A)) (hmem : ∀ p ∈ h, p.1.fp ∈ table) (hresp : ∀ p ∈ h, p.1.Respects)
    (s : CellId → V) (c : CellId) (hc : ∃ op' ∈ table, c ∈ op'.readsIn) :
    (runHistory h s).2 c = s c := by
  induction h generalizing s with
  | nil => rfl
  | cons p rest ih =>
    obtain ⟨op, a⟩ := p
    have hrest := ih (fun q hq => hmem q (List.mem_cons_of_mem _ hq))
      (fun q hq => hresp q (List.mem_cons_of_mem _ hq)) (op.run a s).2
    have hop : op.fp ∈ table := hmem (op, a) List.mem_cons_self
    have hr : op.Respects := hresp (op, a) List.mem_cons_self
    have hnw : c ∉ op.fp.writes := not_mem_writes_of_readsIn table hok op.fp hop c hc
    show (runHistory rest (op.run a s).2).2 c = s c
    rw [hrest, hr.1 a s c hnw]

/-- HISTORY INDEPENDENCE: a call returns the same value after any history of other calls as it does
first, in the initial state -/
theorem history_independent {A V R : Type} (table : List Footprint)
    (hok : footprintsOk table = true)
    (h : List (Op A V R × A)) (hmem : ∀ p ∈ h, p.1.fp ∈ table) (hresp : ∀ p ∈ h, p.1.Respects)
    (op : Op A V R) (a : A) (hop : op.fp ∈ table) (hr : op.Respects) (s : CellId → V) :
    (op.run a (runHistory h s).2).1 = (op.run a s).1 :=
  hr.2 a _ _ fun c hc =>
    history_preserves_read_cells table hok h hmem hresp s c ⟨op.fp, hop, hc⟩

/-- the k-th result of a history is the result of the k-th call in the state left by the first k
calls (no side condition needed) -/
theorem runHistory_results_take {A V R : Type} (h : List (Op A V R × A)) (s : CellId → V) (k : Nat)
    (p : Op A V R × A) (hk : h[k]? = some p) :
    (runHistory h s).1[k]? = some (p.1.run p.2 (runHistory (h.take k) s).2).1 := by
  induction h generalizing s k with
  | nil => simp at hk
  | cons q rest ih =>
    obtain ⟨op, a⟩ := q
    cases k with
    | zero =>
      simp only [List.getElem?_cons_zero, Option.some.injEq] at hk
      subst hk
      simp [runHistory]
    | succ k =>
      simp only [List.getElem?_cons_succ] at hk
      have := ih (op.run a s).2 k hk
      simpa [runHistory] using this

/-- the k-th result of a history equals the result of that call alone in the initial state -/
theorem history_results {A V R : Type} (table : List Footprint) (hok : footprintsOk table = true)
    (h : List (Op A V R × A)) (hmem : ∀ p ∈ h, p.1.fp ∈ table) (hresp : ∀ p ∈ h, p.1.Respects)
    (s : CellId → V) (k : Nat) (p : Op A V R × A) (hk : h[k]? = some p) :
    (runHistory h s).1[k]? = some (p.1.run p.2 s).1 := by
  have hp : p ∈ h := List.mem_of_getElem? hk
  rw [runHistory_results_take h s k p hk]
  congr 1
  exact history_independent table hok (h.take k)
    (fun q hq => hmem q (List.mem_of_mem_take hq)) (fun q hq => hresp q (List.mem_of_mem_take hq))
    p.1 p.2 (hmem p hp) (hresp p hp) s

/-- in particular repeating a call gives the same value (determinism across repetitions) -/
theorem history_repeat {A V R : Type} (table : List Footprint) (hok : footprintsOk table = true)
    (h : List (Op A V R × A)) (hmem : ∀ p ∈ h, p.1.fp ∈ table) (hresp : ∀ p ∈ h, p.1.Respects)
    (s : CellId → V) (k k' : Nat) (p : Op A V R × A)
    (hk : h[k]? = some p) (hk' : h[k']? = some p) :
    (runHistory h s).1[k]? = (runHistory h s).1[k']? := by
  rw [history_results table hok h hmem hresp s k p hk,
    history_results table hok h hmem hresp s k' p hk']

/-- the list of results has one entry per call -/
theorem runHistory_length {A V R : Type} (h : List (Op A V R × A)) (s : CellId → V) :
    (runHistory h s).1.length = h.length := by
  induction h generalizing s with
  | nil => rfl
  | cons q rest ih => obtain ⟨op, a⟩ := q; simp [runHistory, ih]

/-- all results at once: the results of a history are the results of each call run alone in the
initial state -/
theorem history_results_map {A V R : Type} (table : List Footprint) (hok : footprintsOk table = true)
    (h : List (Op A V R × A)) (hmem : ∀ p ∈ h, p.1.fp ∈ table) (hresp : ∀ p ∈ h, p.1.Respects)
    (s : CellId → V) :
    (runHistory h s).1 = h.map fun p => (p.1.run p.2 s).1 := by
  apply List.ext_getElem?
  intro k
  cases hk : h[k]? with
  | none =>
    have hlen : h.length ≤ k := List.getElem?_eq_none_iff.1 hk
    simp only [List.getElem?_map, hk, Option.map_none]
    exact List.getElem?_eq_none_iff.2 (by rw [runHistory_length]; exact hlen)
  | some p =>
    rw [history_results table hok h hmem hresp s k p hk]
    simp [List.getElem?_map, hk]

/-- counter-example operation: writes 1 into cell 0, returns 0 -/
def cexWrite : Op Unit Nat Nat where
  fp := { name := "w", reads := [], writes := [0], writesBeforeRead := [], mutatesArgs := false }
  run := fun _ s => (0, fun c => if c = 0 then 1 else s c)

/-- counter-example operation: returns the value of cell 0, writes nothing -/
def cexRead : Op Unit Nat Nat where
  fp := { name := "r", reads := [0], writes := [], writesBeforeRead := [], mutatesArgs := false }
  run := fun _ s => (s 0, s)

theorem cexWrite_respects : cexWrite.Respects := by
  refine ⟨?_, ?_⟩
  · intro a s c hc
    have : c ≠ 0 := by simpa [cexWrite] using hc
    simp [cexWrite, this]
  · intro a s s' _
    rfl

theorem cexRead_respects : cexRead.Respects := by
  refine ⟨?_, ?_⟩
  · intro a s c _
    rfl
  · intro a s s' h
    exact h 0 (by simp [cexRead, Footprint.readsIn])

/-- the counter-example table violates the side condition -/
theorem cex_not_ok : footprintsOk [cexWrite.fp, cexRead.fp] = false := by decide

/-- WHY the side condition matters: a two-operation counter-example where an op writes a cell another
op reads and the second result depends on history -/
theorem history_dependence_without_condition :
    ∃ (opW opR : Op Unit Nat Nat), opW.Respects ∧ opR.Respects ∧
      (opR.run () (runHistory [(opW, ())] (fun _ => 0)).2).1 ≠ (opR.run () (fun _ => 0)).1 :=
  ⟨cexWrite, cexRead, cexWrite_respects, cexRead_respects, by simp [runHistory, cexWrite, cexRead]⟩

end Prs

