/-
Proofs/FormulasPc2.lean — `pc` of ONE flat collection as GENERATED from pyrepseq/stats.py (Generated/FormulasPc
`pc_one_sample`: `array2=None`, not a DataFrame, `np.unique(return_counts=True)` = `counts`, `N = array.shape[0]`) is the
hand-written model `pc1`.
-/
import Prs.Proofs.FormulasPc
import Prs.Proofs.Prob7

namespace Prs

theorem gen_pc_one_sample_eq {β : Type} [DecidableEq β] (xs : List β) : Generated.pc_one_sample xs = pc1 xs := by
  have e1 := castCounts_sum (counts xs)
  have e2 := castCounts_fall2 (counts xs)
  simp only [Generated.pc_one_sample, pc1, pcN, counts_sum, castCounts] at e1 e2 ⊢
  try push_cast
  try ring_nf at e1
  ring_nf at e2 ⊢
  rw [e2]
  try rw [e1]
  try first | rfl | ring

/-- summing the products of multiplicities over the shared values only (what `np.intersect1d(..., return_indices=True)` selects)
is summing them over all values of the first collection: a value absent from the second contributes 0 -/
theorem shared_sum {β : Type} [DecidableEq β] (A B l : List β) :
    ((l.filter fun y => decide (y ∈ dedup B)).map fun x => ((A.count x : ℕ) : ℚ) * ((B.count x : ℕ) : ℚ)).sum
      = (((l.map fun v => A.count v * B.count v).sum : ℕ) : ℚ) := by
  induction l with
  | nil => simp
  | cons x l ih =>
    by_cases h : x ∈ B
    · have h' : x ∈ dedup B := (mem_dedup x B).2 h
      simp only [List.filter_cons, h', decide_true, if_true, List.map_cons, List.sum_cons, ih]
      push_cast
      ring
    · have h' : ¬ x ∈ dedup B := fun hx => h ((mem_dedup x B).1 hx)
      have h0 : B.count x = 0 := List.count_eq_zero_of_not_mem h
      rw [List.filter_cons_of_neg (by simp [h]), ih]
      simp [h0]

theorem gen_pc_two_samples_eq {β : Type} [DecidableEq β] (as bs : List β) : Generated.pc_two_samples as bs = pc2 as bs := by
  simp only [Generated.pc_two_samples, pc2, crossCount]
  have e' : ∀ f : β → ℚ, (∀ x, f x = ((as.count x : ℕ) : ℚ) * ((bs.count x : ℕ) : ℚ)) →
      (((dedup as).filter fun y => decide (y ∈ dedup bs)).map f).sum
        = (((dedup as).map fun v => as.count v * bs.count v).sum : ℕ) := by
    intro f hf
    rw [show f = fun x => ((as.count x : ℕ) : ℚ) * ((bs.count x : ℕ) : ℚ) from funext hf]
    simpa using shared_sum as bs (dedup as)
  -- the element-wise product may be spelled in either order, with either collection first
  rw [e' _ (fun x => by first | rfl | ring)]
  try push_cast
  try first | rfl | ring

end Prs
