/-
Proofs/FormulasPc2.lean — `pc` of ONE flat collection as GENERATED from pyrepseq/stats.py (Generated/FormulasPc
`pc_one_sample`: `array2=None`, not a DataFrame, `np.unique(return_counts=True)` = `counts`, `N = array.shape[0]`) is the
hand-written model `pc1`.
-/
import Prs.Proofs.FormulasPc
import Prs.Proofs.Prob7

namespace Prs

theorem gen_pc_one_sample_eq {β : Type} [DecidableEq β] (xs : List β) : Generated.pc_one_sample xs = pc1 xs := by
  have e1 := castCounts_sum (counts xs)
  have e2 := castCounts_fall2 (counts xs)
  simp only [Generated.pc_one_sample, pc1, pcN, counts_sum, castCounts] at e1 e2 ⊢
  try push_cast
  try ring_nf at e1
  ring_nf at e2 ⊢
  rw [e2]
  try rw [e1]
  try first | rfl | ring

end Prs
