/-
Proofs/FormulasRichness.lean — the definitions GENERATED from pyrepseq/stats.py (Generated/FormulasRichness,
written by tools/gen_formulas.py on every run) are the hand-written models of Model/Stats2 that the C16
theorems are about.
-/
import Prs.Generated.FormulasRichness
import Prs.Proofs.StatsSets
import Mathlib.Tactic.Ring
import Mathlib.Tactic.Push
import Mathlib.Data.Nat.Cast.Basic
import Mathlib.Data.Rat.Defs
import Mathlib.Tactic.FieldSimp

set_option linter.unnecessarySeqFocus false
set_option linter.unusedSimpArgs false

/-! The proofs are written to survive algebraically equal re-spellings of the Python source (`f1*f1` for `f1**2`,
a reordered condition, …): `simp` unfolds and decides the branch, `ring` closes what is left. A changed
coefficient, exponent, branch or index is not an identity of rational expressions and breaks them. -/

namespace Prs
open Generated

theorem gen_chao1_eq (f : List ℚ) : Generated.chao1 f = Prs.chao1 f := by
  match f with
  | [] => simp [Generated.chao1, Prs.chao1] <;> ring
  | [a] => simp [Generated.chao1, Prs.chao1] <;> ring
  | a :: b :: r =>
    by_cases h : b = 0
    · simp [Generated.chao1, Prs.chao1, h] <;> ring
    · simp [Generated.chao1, Prs.chao1, h] <;> ring

theorem gen_var_chao1_eq (f : List ℚ) : Generated.var_chao1 f = Prs.varChao f := by
  match f with
  | [] => simp [Generated.var_chao1, Prs.varChao] <;> ring
  | [a] => simp [Generated.var_chao1, Prs.varChao] <;> ring
  | a :: b :: r =>
    by_cases h : b = 0
    · simp [Generated.var_chao1, Prs.varChao, h] <;> ring
    · simp [Generated.var_chao1, Prs.varChao, h] <;> ring

theorem gen_chao2_eq (q : List ℚ) (m : ℚ) : Generated.chao2 q m = Prs.chao2 q := by
  match q with
  | [] => simp [Generated.chao2, Prs.chao2] <;> ring
  | [a] => simp [Generated.chao2, Prs.chao2] <;> ring
  | a :: b :: r =>
    by_cases h : b = 0
    · simp [Generated.chao2, Prs.chao2, h] <;> ring
    · simp [Generated.chao2, Prs.chao2, h] <;> ring

theorem gen_var_chao2_eq (q : List ℚ) (m : ℚ) : Generated.var_chao2 q m = Prs.varChao q := by
  match q with
  | [] => simp [Generated.var_chao2, Prs.varChao] <;> ring
  | [a] => simp [Generated.var_chao2, Prs.varChao] <;> ring
  | a :: b :: r =>
    by_cases h : b = 0
    · simp [Generated.var_chao2, Prs.varChao, h] <;> ring
    · simp [Generated.var_chao2, Prs.varChao, h] <;> ring

section sets
variable {β : Type} [DecidableEq β]

theorem gen_inter_card (a b : List β) :
    ((dedup a).filter fun y => decide (y ∈ dedup b)).length = interCard a b := by
  unfold interCard
  congr 1
  apply List.filter_congr
  intro x _
  simp [mem_dedup]

theorem gen_union_card (a b : List β) : (dedup (dedup a ++ dedup b)).length = unionCard a b := by
  rw [unionCard_eq, dedup_length, List.toFinset_append, toFinset_dedup, toFinset_dedup]

/-- inclusion–exclusion, in the shape a source that computes |A ∪ B| as |A| + |B| − |A ∩ B| translates to -/
theorem gen_union_incl_excl (a b : List β) :
    ((((dedup a).length + (dedup b).length : ℕ) : ℚ) - ((interCard a b : ℕ) : ℚ)) = ((unionCard a b : ℕ) : ℚ) := by
  have h : unionCard a b + interCard a b = (dedup a).length + (dedup b).length := by
    rw [unionCard_eq, interCard_eq, dedup_length, dedup_length]
    exact Finset.card_union_add_card_inter _ _
  rw [← h]
  push_cast
  ring

theorem gen_jaccard_eq (a b : List β) : Generated.jaccard_index a b = Prs.jaccard a b := by
  simp only [Generated.jaccard_index, Prs.jaccard, gen_inter_card, gen_union_card, gen_union_incl_excl]

theorem gen_overlap_eq (a b : List β) : Generated.overlap a b = Prs.overlapCount a b := by
  simp only [Generated.overlap, Prs.overlapCount, gen_inter_card]

theorem gen_overlap_coefficient_eq (a b : List β) :
    Generated.overlap_coefficient a b = Prs.overlapCoefficient a b := by
  simp only [Generated.overlap_coefficient, Prs.overlapCoefficient, gen_inter_card]

end sets
end Prs
