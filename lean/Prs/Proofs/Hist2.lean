/-
Proofs/Hist2.lean — helper lemmas for C05: `pdistVec` as the list of `pairsOf` distances, the
`numpy.histogram` model (`inBin`, `histogram`, `normalizeHist`), and the pair-count bridge
`2 · #{i < j : xs[i] = xs[j]} = Σ c (c − 1)`.
-/
import Prs.Model.Stats2
import Prs.Proofs.Condensed
import Prs.Proofs.Util
import Prs.Proofs.Prob7
import Mathlib.Algebra.BigOperators.Ring.Finset
import Mathlib.Tactic.Ring
import Mathlib.Tactic.FieldSimp
import Mathlib.Tactic.Linarith
import Mathlib.Algebra.Order.Field.Rat

open Finset BigOperators
namespace Prs
variable {S : Type}

/-! ### the condensed distance vector is the list of distances of `pairsOf` -/

theorem pdistLoop_eq_pairs (d : S → S → ℚ) :
    ∀ xs : List S, pdistLoop d xs = (pairsOf xs).map (fun p => d p.1 p.2)
  | [] => rfl
  | x :: xs => by
    simp [pdistLoop, pairsOf, pdistLoop_eq_pairs d xs, List.map_map, Function.comp_def]

theorem pdistVec_eq_pairs (d : S → S → ℚ) (xs : List S) :
    pdistVec d xs = (pairsOf xs).map (fun p => d p.1 p.2) := by
  rw [← pdistLoop_eq_pdistVec, pdistLoop_eq_pairs]

theorem pairsOf_length (xs : List S) : (pairsOf xs).length = xs.length * (xs.length - 1) / 2 := by
  have h := pdistVec_length (fun (_ _ : S) => (0 : ℚ)) xs
  rw [pdistVec_eq_pairs, List.length_map] at h
  exact h

theorem cdistMat_flatten_eq (d : S → S → ℚ) (as bs : List S) :
    (cdistMat d as bs).flatten
      = (as.flatMap fun a => bs.map fun c => (a, c)).map (fun p => d p.1 p.2) := by
  induction as with
  | nil => rfl
  | cons a as ih =>
    simp only [cdistMat] at ih
    simp [cdistMat, ih, List.map_map, Function.comp_def]

/-! ### bins -/

theorem inBin_iff (edges : List ℚ) (b : ℕ) (v : ℚ) :
    inBin edges b v = true ↔ ∃ lo hi, edges[b]? = some lo ∧ edges[b + 1]? = some hi ∧ lo ≤ v ∧
      (v < hi ∨ (b + 2 = edges.length ∧ v = hi)) := by
  unfold inBin
  split
  · rename_i lo hi h1 h2
    simp [h1, h2]
  · rename_i h
    constructor
    · intro h'; cases h'
    · rintro ⟨lo, hi, h1, h2, _⟩
      exact (h lo hi h1 h2).elim

theorem inBin_cons_succ (e : ℚ) (edges : List ℚ) (b : ℕ) (v : ℚ) :
    inBin (e :: edges) (b + 1) v = inBin edges b v := by
  unfold inBin
  simp only [List.getElem?_cons_succ, List.length_cons]
  have : (b + 1 + 2 = edges.length + 1) ↔ (b + 2 = edges.length) := by omega
  simp only [this]

theorem pairwise_lt_getElem? {edges : List ℚ} (hinc : edges.Pairwise (· < ·)) {i j : ℕ} {x y : ℚ}
    (hij : i ≤ j) (hx : edges[i]? = some x) (hy : edges[j]? = some y) : x ≤ y := by
  rcases Nat.eq_or_lt_of_le hij with rfl | hlt
  · rw [hx] at hy; cases hy; exact le_refl _
  · obtain ⟨hi, rfl⟩ := List.getElem?_eq_some_iff.1 hx
    obtain ⟨hj, rfl⟩ := List.getElem?_eq_some_iff.1 hy
    exact le_of_lt (List.pairwise_iff_getElem.1 hinc i j hi hj hlt)

/-- for strictly increasing edges no value lies in two bins, `b < b'` version -/
theorem inBin_disjoint_lt (edges : List ℚ) (hinc : edges.Pairwise (· < ·)) (v : ℚ) (b b' : ℕ)
    (hbb : b < b') (h : inBin edges b v = true) (h' : inBin edges b' v = true) : False := by
  obtain ⟨lo, hi, _, h2, _, h4⟩ := (inBin_iff _ _ _).1 h
  obtain ⟨lo', hi', h1', h2', h3', _⟩ := (inBin_iff _ _ _).1 h'
  have hle : hi ≤ lo' := pairwise_lt_getElem? hinc (by omega) h2 h1'
  rcases h4 with h4 | ⟨hlen, _⟩
  · linarith
  · have : b' + 1 < edges.length := (List.getElem?_eq_some_iff.1 h2').1
    omega

theorem inBin_disjoint (edges : List ℚ) (hinc : edges.Pairwise (· < ·)) (v : ℚ) (b b' : ℕ)
    (h : inBin edges b v = true) (h' : inBin edges b' v = true) : b = b' := by
  rcases Nat.lt_trichotomy b b' with hlt | heq | hgt
  · exact (inBin_disjoint_lt edges hinc v b b' hlt h h').elim
  · exact heq
  · exact (inBin_disjoint_lt edges hinc v b' b hgt h' h).elim

/-- with at least two strictly increasing edges, every value of `[first, last]` lies in a bin -/
theorem inBin_cover : ∀ (edges : List ℚ), edges.Pairwise (· < ·) → 2 ≤ edges.length →
    ∀ (v lo hi : ℚ), edges.head? = some lo → edges.getLast? = some hi → lo ≤ v → v ≤ hi →
    ∃ b, inBin edges b v = true
  | [], _, hlen, _, _, _, _, _, _, _ => by simp at hlen
  | [_], _, hlen, _, _, _, _, _, _, _ => by simp at hlen
  | [e0, e1], _, _, v, lo, hi, h0, h1, hlo, hhi => by
    simp at h0 h1
    subst h0; subst h1
    refine ⟨0, (inBin_iff _ _ _).2 ⟨e0, e1, rfl, rfl, hlo, ?_⟩⟩
    rcases lt_or_eq_of_le hhi with h | h
    · exact Or.inl h
    · exact Or.inr ⟨rfl, h⟩
  | e0 :: e1 :: e2 :: rest, hinc, _, v, lo, hi, h0, h1, hlo, hhi => by
    simp only [List.head?_cons, Option.some.injEq] at h0
    subst h0
    by_cases hv : v < e1
    · exact ⟨0, (inBin_iff _ _ _).2 ⟨e0, e1, rfl, rfl, hlo, Or.inl hv⟩⟩
    · have hinc' := (List.pairwise_cons.1 hinc).2
      have h1' : (e1 :: e2 :: rest).getLast? = some hi := by
        rw [List.getLast?_cons_cons] at h1; exact h1
      obtain ⟨b, hb⟩ := inBin_cover (e1 :: e2 :: rest) hinc' (by simp) v e1 hi rfl h1'
        (not_lt.1 hv) hhi
      exact ⟨b + 1, by rw [inBin_cons_succ]; exact hb⟩

/-! ### histogram -/

theorem histogram_length (edges vals : List ℚ) :
    (histogram edges vals).length = edges.length - 1 := by
  simp [histogram]

theorem histogram_getElem? (edges vals : List ℚ) (b : ℕ) (hb : b + 1 < edges.length) :
    (histogram edges vals)[b]? = some (vals.countP (inBin edges b)) := by
  have : b < edges.length - 1 := by omega
  simp [histogram, List.getElem?_map, List.getElem?_range this]

theorem sum_map_add_nat {γ : Type} (l : List γ) (f g : γ → ℕ) :
    (l.map fun b => f b + g b).sum = (l.map f).sum + (l.map g).sum := by
  induction l with
  | nil => rfl
  | cons a l ih => simp only [List.map_cons, List.sum_cons, ih]; omega

/-- a property holding for at most one member of a duplicate-free list is counted at most once -/
theorem sum_indicator_le_one {γ : Type} (l : List γ) (hl : l.Nodup) (q : γ → Bool)
    (hq : ∀ a ∈ l, ∀ b ∈ l, q a = true → q b = true → a = b) :
    (l.map fun b => if q b = true then 1 else 0).sum ≤ 1 := by
  induction l with
  | nil => simp
  | cons a l ih =>
    rw [List.nodup_cons] at hl
    have ih' := ih hl.2 (fun x hx y hy => hq x (List.mem_cons_of_mem _ hx) y (List.mem_cons_of_mem _ hy))
    simp only [List.map_cons, List.sum_cons]
    by_cases ha : q a = true
    · have hz : (l.map fun b => if q b = true then 1 else 0).sum = 0 := by
        apply List.sum_eq_zero
        intro x hx
        simp only [List.mem_map] at hx
        obtain ⟨y, hy, rfl⟩ := hx
        by_cases hy' : q y = true
        · have := hq a List.mem_cons_self y (List.mem_cons_of_mem _ hy) ha hy'
          subst this
          exact (hl.1 hy).elim
        · simp [hy']
      rw [hz]; simp [ha]
    · simp only [ha]; simpa using ih'

/-- disjoint bins: the histogram total is at most the number of values -/
theorem histogram_sum_le (edges : List ℚ) (hinc : edges.Pairwise (· < ·)) (vals : List ℚ) :
    (histogram edges vals).sum ≤ vals.length := by
  unfold histogram
  induction vals with
  | nil => simp
  | cons v vals ih =>
    have e : ((List.range (edges.length - 1)).map fun b => (v :: vals).countP (inBin edges b))
        = (List.range (edges.length - 1)).map fun b =>
            vals.countP (inBin edges b) + (if inBin edges b v = true then 1 else 0) := by
      apply List.map_congr_left
      intro b _
      rw [List.countP_cons]
    rw [e, sum_map_add_nat]
    have h1 := sum_indicator_le_one (List.range (edges.length - 1)) List.nodup_range
      (fun b => inBin edges b v) (fun a _ b _ ha hb => inBin_disjoint edges hinc v a b ha hb)
    simp only [List.length_cons]
    omega

/-! ### normalisation -/

theorem sum_map_div_rat (h : List ℕ) (t : ℚ) :
    (h.map fun (c : ℕ) => (c : ℚ) / t).sum = ((h.sum : ℕ) : ℚ) / t := by
  induction h with
  | nil => simp
  | cons a h ih =>
    simp only [List.map_cons, List.sum_cons, ih, Nat.cast_add]
    ring

theorem normalizeHist_zero_sum (h : List ℕ) (hpos : 0 < h.sum) : (normalizeHist h 0).sum = 1 := by
  unfold normalizeHist
  simp only [if_true]
  rw [sum_map_div_rat]
  have : ((h.sum : ℕ) : ℚ) ≠ 0 := by exact_mod_cast (Nat.ne_of_gt hpos)
  exact div_self this

theorem normalizeHist_zero_getElem? (h : List ℕ) (b c : ℕ) (hb : h[b]? = some c) :
    (normalizeHist h 0)[b]? = some ((c : ℚ) / (h.sum : ℚ)) := by
  unfold normalizeHist
  simp [List.getElem?_map, hb]

theorem normalizeHist_pseudo_getElem? (h : List ℕ) (c : ℚ) (hc : c ≠ 0) (b n : ℕ)
    (hb : h[b]? = some n) :
    (normalizeHist h c)[b]? = some (((n : ℚ) + c) / ((h.sum : ℚ) + 2 * c)) := by
  unfold normalizeHist
  simp [List.getElem?_map, hb, hc]

/-! ### coincidences at distance zero -/

section zero
variable {β : Type} [DecidableEq β]

theorem pairsOf_countP_eq_cons (x : β) (xs : List β) :
    (pairsOf (x :: xs)).countP (fun p => decide (p.1 = p.2))
      = xs.count x + (pairsOf xs).countP (fun p => decide (p.1 = p.2)) := by
  simp only [pairsOf, List.countP_append, List.countP_map]
  congr 1
  rw [List.count_eq_countP]
  apply List.countP_congr
  intro y _
  by_cases h : y = x
  · subst h; simp
  · have h' : ¬ x = y := fun e => h e.symm
    simp [h, h']

/-- `Σ_v c_v (c_v − 1)` may be summed over any finite superset of the support -/
theorem sumFall2_counts_superset (xs : List β) (s : Finset β) (hs : xs.toFinset ⊆ s) :
    sumFall2 (counts xs) = ∑ v ∈ s, xs.count v * (xs.count v - 1) := by
  rw [sumFall2_counts_eq]
  apply Finset.sum_subset hs
  intro v _ hv
  have : v ∉ xs := by simpa using hv
  simp [List.count_eq_zero_of_not_mem this]

theorem sumFall2_counts_cons (x : β) (xs : List β) :
    sumFall2 (counts (x :: xs)) = sumFall2 (counts xs) + 2 * xs.count x := by
  have hs : xs.toFinset ⊆ (x :: xs).toFinset := by
    intro a; simp only [List.mem_toFinset, List.mem_cons]; exact Or.inr
  rw [sumFall2_counts_eq, sumFall2_counts_superset xs _ hs]
  have e : ∀ v ∈ (x :: xs).toFinset, (x :: xs).count v * ((x :: xs).count v - 1)
      = xs.count v * (xs.count v - 1) + (if v = x then 2 * xs.count x else 0) := by
    intro v _
    by_cases hv : v = x
    · subst hv
      simp only [List.count_cons_self, if_true, Nat.add_sub_cancel]
      cases xs.count v with
      | zero => simp
      | succ n => simp only [Nat.add_sub_cancel]; ring
    · have : (x :: xs).count v = xs.count v := by
        rw [List.count_cons]; simp [Ne.symm hv]
      simp [this, hv]
  rw [Finset.sum_congr rfl e, Finset.sum_add_distrib, Finset.sum_ite_eq' _ x]
  simp

theorem pairsOf_eq_count (xs : List β) :
    2 * (pairsOf xs).countP (fun p => decide (p.1 = p.2)) = sumFall2 (counts xs) := by
  induction xs with
  | nil => simp [pairsOf, counts, dedup, sumFall2]
  | cons x xs ih =>
    rw [pairsOf_countP_eq_cons, sumFall2_counts_cons, ← ih]
    ring

end zero

end Prs
