/-
Proofs/Tcr.lean — the TcrLevenshtein metric family: column selection, weights, explicit sums,
matrix / condensed layout and input validation (core Lean only).
-/
import Prs.Model.Tcr
import Prs.Proofs.WLev
import Prs.Proofs.Condensed
namespace Prs

/-! ### columns and weights -/

theorem columnWeight_table (w : TcrWeights) :
    columnWeight w "CDR1A" = w.alphaW * w.cdr1W ∧ columnWeight w "CDR2A" = w.alphaW * w.cdr2W ∧
    columnWeight w "CDR3A" = w.alphaW * w.cdr3W ∧ columnWeight w "CDR1B" = w.betaW * w.cdr1W ∧
    columnWeight w "CDR2B" = w.betaW * w.cdr2W ∧ columnWeight w "CDR3B" = w.betaW * w.cdr3W := by
  simp [columnWeight]

theorem columnsToCompare_table :
    columnsToCompare .paired .all = ["CDR3A", "CDR3B", "CDR1A", "CDR1B", "CDR2A", "CDR2B"] ∧
    columnsToCompare .alpha .all = ["CDR3A", "CDR1A", "CDR2A"] ∧
    columnsToCompare .beta .all = ["CDR3B", "CDR1B", "CDR2B"] ∧
    columnsToCompare .paired .cdr3 = ["CDR3A", "CDR3B"] ∧
    columnsToCompare .alpha .cdr3 = ["CDR3A"] ∧
    columnsToCompare .beta .cdr3 = ["CDR3B"] := by
  decide

theorem colValue_table (r : TcrRow) :
    colValue r "CDR1A" = r.cdr1a ∧ colValue r "CDR2A" = r.cdr2a ∧ colValue r "CDR3A" = r.cdr3a ∧
    colValue r "CDR1B" = r.cdr1b ∧ colValue r "CDR2B" = r.cdr2b ∧ colValue r "CDR3B" = r.cdr3b := by
  simp [colValue]

/-! ### explicit sums -/

theorem tcrDist_paired_all (w : TcrWeights) (r1 r2 : TcrRow) :
    tcrDist .paired .all w r1 r2 =
      w.alphaW * w.cdr3W * wlev w.wi w.wd w.ws r1.cdr3a r2.cdr3a +
      w.betaW * w.cdr3W * wlev w.wi w.wd w.ws r1.cdr3b r2.cdr3b +
      w.alphaW * w.cdr1W * wlev w.wi w.wd w.ws r1.cdr1a r2.cdr1a +
      w.betaW * w.cdr1W * wlev w.wi w.wd w.ws r1.cdr1b r2.cdr1b +
      w.alphaW * w.cdr2W * wlev w.wi w.wd w.ws r1.cdr2a r2.cdr2a +
      w.betaW * w.cdr2W * wlev w.wi w.wd w.ws r1.cdr2b r2.cdr2b := by
  simp [tcrDist, columnsToCompare_table.1, columnWeight, colValue, Nat.add_assoc]

theorem tcrDist_alpha_all (w : TcrWeights) (r1 r2 : TcrRow) :
    tcrDist .alpha .all w r1 r2 =
      w.alphaW * w.cdr3W * wlev w.wi w.wd w.ws r1.cdr3a r2.cdr3a +
      w.alphaW * w.cdr1W * wlev w.wi w.wd w.ws r1.cdr1a r2.cdr1a +
      w.alphaW * w.cdr2W * wlev w.wi w.wd w.ws r1.cdr2a r2.cdr2a := by
  simp [tcrDist, columnsToCompare_table.2.1, columnWeight, colValue, Nat.add_assoc]

theorem tcrDist_beta_all (w : TcrWeights) (r1 r2 : TcrRow) :
    tcrDist .beta .all w r1 r2 =
      w.betaW * w.cdr3W * wlev w.wi w.wd w.ws r1.cdr3b r2.cdr3b +
      w.betaW * w.cdr1W * wlev w.wi w.wd w.ws r1.cdr1b r2.cdr1b +
      w.betaW * w.cdr2W * wlev w.wi w.wd w.ws r1.cdr2b r2.cdr2b := by
  simp [tcrDist, columnsToCompare_table.2.2.1, columnWeight, colValue, Nat.add_assoc]

theorem tcrDist_paired_cdr3 (w : TcrWeights) (r1 r2 : TcrRow) :
    tcrDist .paired .cdr3 w r1 r2 =
      w.alphaW * w.cdr3W * wlev w.wi w.wd w.ws r1.cdr3a r2.cdr3a +
      w.betaW * w.cdr3W * wlev w.wi w.wd w.ws r1.cdr3b r2.cdr3b := by
  simp [tcrDist, columnsToCompare_table.2.2.2.1, columnWeight, colValue]

theorem tcrDist_alpha_cdr3 (w : TcrWeights) (r1 r2 : TcrRow) :
    tcrDist .alpha .cdr3 w r1 r2 =
      w.alphaW * w.cdr3W * wlev w.wi w.wd w.ws r1.cdr3a r2.cdr3a := by
  simp [tcrDist, columnsToCompare_table.2.2.2.2.1, columnWeight, colValue]

theorem tcrDist_beta_cdr3 (w : TcrWeights) (r1 r2 : TcrRow) :
    tcrDist .beta .cdr3 w r1 r2 =
      w.betaW * w.cdr3W * wlev w.wi w.wd w.ws r1.cdr3b r2.cdr3b := by
  simp [tcrDist, columnsToCompare_table.2.2.2.2.2, columnWeight, colValue]

/-! ### additivity over chains -/

theorem tcrDist_additive_cdr3 (w : TcrWeights) (r1 r2 : TcrRow) :
    tcrDist .paired .cdr3 w r1 r2 =
      w.alphaW * tcrDist .alpha .cdr3 {w with alphaW := 1, betaW := 1} r1 r2 +
      w.betaW * tcrDist .beta .cdr3 {w with alphaW := 1, betaW := 1} r1 r2 := by
  rw [tcrDist_paired_cdr3, tcrDist_alpha_cdr3, tcrDist_beta_cdr3]
  simp [Nat.mul_assoc]

theorem tcrDist_additive_all (w : TcrWeights) (r1 r2 : TcrRow) :
    tcrDist .paired .all w r1 r2 =
      w.alphaW * tcrDist .alpha .all {w with alphaW := 1, betaW := 1} r1 r2 +
      w.betaW * tcrDist .beta .all {w with alphaW := 1, betaW := 1} r1 r2 := by
  rw [tcrDist_paired_all, tcrDist_alpha_all, tcrDist_beta_all]
  simp only [Nat.one_mul, Nat.mul_add, Nat.mul_assoc]
  omega

theorem tcrDist_unit (r1 r2 : TcrRow) :
    tcrDist .paired .cdr3 {} r1 r2 = lev r1.cdr3a r2.cdr3a + lev r1.cdr3b r2.cdr3b := by
  rw [tcrDist_paired_cdr3]
  simp [wlev_unit_eq_lev]

/-! ### symmetry, identity -/

theorem tcrDist_symm (cs : ChainScope) (ds : CdrScope) (w : TcrWeights) (r1 r2 : TcrRow)
    (h : w.wi = w.wd) : tcrDist cs ds w r1 r2 = tcrDist cs ds w r2 r1 := by
  unfold tcrDist
  congr 1
  apply List.map_congr_left
  intro col _
  rw [h, wlev_comm]

theorem sum_map_zero {β : Type} (l : List β) (f : β → Nat) (h : ∀ x ∈ l, f x = 0) :
    (l.map f).sum = 0 := by
  induction l with
  | nil => rfl
  | cons x xs ih =>
    rw [List.map_cons, List.sum_cons, h x List.mem_cons_self,
      ih (fun y hy => h y (List.mem_cons_of_mem _ hy))]

theorem tcrDist_self (cs : ChainScope) (ds : CdrScope) (w : TcrWeights) (r : TcrRow) :
    tcrDist cs ds w r r = 0 := by
  unfold tcrDist
  apply sum_map_zero
  intro col _
  rw [wlev_self, Nat.mul_zero]

/-! ### matrix layout and re-indexing -/

theorem tcrCdist_entry (cs : ChainScope) (ds : CdrScope) (w : TcrWeights) (as bs : List TcrRow)
    (i j : Nat) (a b : TcrRow) (ha : as[i]? = some a) (hb : bs[j]? = some b) :
    ((tcrCdist cs ds w as bs)[i]?.bind (·[j]?)) = some (tcrDist cs ds w a b) :=
  cdistMat_entry _ as bs i j a b ha hb

/-- re-indexing a list by a list of in-range positions -/
theorem reindex_getElem? {β : Type} (xs : List β) : ∀ (p : List Nat) (i : Nat),
    (∀ k ∈ p, k < xs.length) → (p.filterMap (xs[·]?))[i]? = p[i]?.bind (xs[·]?)
  | [], i, _ => by simp
  | k :: p, i, hp => by
    have hk : k < xs.length := hp k List.mem_cons_self
    have ih := reindex_getElem? xs p
    have hp' : ∀ k' ∈ p, k' < xs.length := fun k' h' => hp k' (List.mem_cons_of_mem _ h')
    rw [List.filterMap_cons, List.getElem?_eq_getElem hk]
    cases i with
    | zero => simp [hk]
    | succ i => simpa using ih i hp'

theorem tcrCdist_reindex (cs : ChainScope) (ds : CdrScope) (w : TcrWeights) (as bs : List TcrRow)
    (p q : List Nat) (hp : ∀ k ∈ p, k < as.length) (hq : ∀ k ∈ q, k < bs.length)
    (i j pi qj : Nat) (hi : p[i]? = some pi) (hj : q[j]? = some qj) :
    ((tcrCdist cs ds w (p.filterMap (as[·]?)) (q.filterMap (bs[·]?)))[i]?.bind (·[j]?)) =
      ((tcrCdist cs ds w as bs)[pi]?.bind (·[qj]?)) := by
  have hpi : pi < as.length := hp pi (List.mem_of_getElem? hi)
  have hqj : qj < bs.length := hq qj (List.mem_of_getElem? hj)
  have ha : (p.filterMap (as[·]?))[i]? = some as[pi] := by
    rw [reindex_getElem? as p i hp, hi]; simp [hpi]
  have hb : (q.filterMap (bs[·]?))[j]? = some bs[qj] := by
    rw [reindex_getElem? bs q j hq, hj]; simp [hqj]
  rw [tcrCdist_entry cs ds w _ _ i j _ _ ha hb,
    tcrCdist_entry cs ds w as bs pi qj _ _ (List.getElem?_eq_getElem hpi)
      (List.getElem?_eq_getElem hqj)]

theorem tcrPdist_eq (cs : ChainScope) (ds : CdrScope) (w : TcrWeights) (xs : List TcrRow) :
    tcrPdist cs ds w xs = condensed (tcrCdist cs ds w xs xs) := rfl

theorem tcrPdist_index (cs : ChainScope) (ds : CdrScope) (w : TcrWeights) (xs : List TcrRow)
    (i j : Nat) (a b : TcrRow) (hij : i < j) (ha : xs[i]? = some a) (hb : xs[j]? = some b) :
    (tcrPdist cs ds w xs)[condensedIndex xs.length i j]? = some (tcrDist cs ds w a b) :=
  pdistVec_index _ xs i j a b hij ha hb

/-! ### input validation -/

theorem isStandardFormat_iff (df : Bool) (cols : List String) :
    isStandardFormat df cols = true ↔
      df = true ∧ ∃ c ∈ cols, c ∈ ["TRAV", "CDR3A", "TRAJ", "TRBV", "CDR3B", "TRBJ"] := by
  simp only [isStandardFormat, Bool.and_eq_true, List.any_eq_true, List.contains_iff_mem]

/-! ### names used in the source for the scopes and the constructor parameters -/

def chainOfName : String → Option ChainScope
  | "PAIRED" => some .paired | "ALPHA" => some .alpha | "BETA" => some .beta | _ => none

def cdrOfName : String → Option CdrScope
  | "ALL" => some .all | "CDR3" => some .cdr3 | _ => none

/-- the constructor parameters a class of the given scopes exposes: the three edit weights, the chain weights when both chains are
compared, the CDR weights when all CDRs are compared -/
def expectedParams (cs : Option ChainScope) (ds : Option CdrScope) : List String :=
  ["insertion_weight", "deletion_weight", "substitution_weight"]
    ++ (if cs = some .paired then ["alpha_weight", "beta_weight"] else [])
    ++ (if ds = some .all then ["cdr1_weight", "cdr2_weight", "cdr3_weight"] else [])

/-- same names, in any order -/
def sameNames (a b : List String) : Bool := a.all b.contains && b.all a.contains && a.length == b.length

end Prs
