/- Proofs/LevDP.lean — the row dynamic programme computes the recursive specification. -/
import Prs.Model.Lev
namespace Prs
variable {α : Type} [DecidableEq α]

/-- row of the recursive spec: `wlev xs (ys.drop j)` for j = 0..|ys| -/
def wspecRow (wi wd ws : Nat) (xs : List α) : List α → List Nat
  | [] => [wlev wi wd ws xs []]
  | y :: ys => wlev wi wd ws xs (y :: ys) :: wspecRow wi wd ws xs ys

theorem wlev_nil_left (wi wd ws : Nat) (ys : List α) : wlev wi wd ws [] ys = wi * ys.length := by
  simp [wlev]

theorem wlev_nil_right (wi wd ws : Nat) (xs : List α) : wlev wi wd ws xs [] = wd * xs.length := by
  cases xs <;> simp [wlev]

theorem wbaseRow_eq (wi wd ws : Nat) (ys : List α) : wbaseRow wi ys = wspecRow wi wd ws [] ys := by
  induction ys with
  | nil => simp [wbaseRow, wspecRow, wlev]
  | cons y ys ih => simp [wbaseRow, wspecRow, wlev_nil_left, ih]

theorem wspecRow_head (wi wd ws : Nat) (xs ys : List α) :
    ∃ t, wspecRow wi wd ws xs ys = wlev wi wd ws xs ys :: t := by
  cases ys with
  | nil => exact ⟨[], rfl⟩
  | cons y ys => exact ⟨_, rfl⟩

theorem wlev_cons_cons (wi wd ws : Nat) (x y : α) (xs ys : List α) :
    wlev wi wd ws (x :: xs) (y :: ys) =
      min (min (wlev wi wd ws xs (y :: ys) + wd) (wlev wi wd ws (x :: xs) ys + wi))
          (wlev wi wd ws xs ys + (if x = y then 0 else ws)) := by
  rw [wlev]

theorem wnextRow_eq (wi wd ws : Nat) (x : α) (xs ys : List α) :
    wnextRow wi wd ws x ys (wspecRow wi wd ws xs ys) = wspecRow wi wd ws (x :: xs) ys := by
  induction ys with
  | nil =>
    simp only [wspecRow, wnextRow, wlev_nil_right, List.length_cons]
    rw [Nat.mul_succ]
  | cons y ys ih =>
    obtain ⟨t, ht⟩ := wspecRow_head wi wd ws xs ys
    obtain ⟨t', ht'⟩ := wspecRow_head wi wd ws (x :: xs) ys
    rw [ht] at ih
    rw [ht'] at ih
    show wnextRow wi wd ws x (y :: ys) (wlev wi wd ws xs (y :: ys) :: wspecRow wi wd ws xs ys) =
      wlev wi wd ws (x :: xs) (y :: ys) :: wspecRow wi wd ws (x :: xs) ys
    rw [ht, ht', wnextRow, ih, wlev_cons_cons]

theorem wrowDP_eq (wi wd ws : Nat) (xs ys : List α) :
    wrowDP wi wd ws xs ys = wspecRow wi wd ws xs ys := by
  induction xs with
  | nil => simp [wrowDP, wbaseRow_eq wi wd ws]
  | cons x xs ih => simp [wrowDP, ih, wnextRow_eq]

theorem wlevDP_eq_wlev (wi wd ws : Nat) (xs ys : List α) :
    wlevDP wi wd ws xs ys = wlev wi wd ws xs ys := by
  simp only [wlevDP, wrowDP_eq]
  cases ys <;> simp [wspecRow]

theorem wlev_unit_eq_lev (xs ys : List α) : wlev 1 1 1 xs ys = lev xs ys := by
  induction xs, ys using lev.induct with
  | case1 ys => simp [wlev, lev]
  | case2 xs h => cases xs with
    | nil => simp at h
    | cons x xs => simp [wlev, lev]
  | case3 x xs y ys ih1 ih2 ih3 => rw [wlev, lev, ih1, ih2, ih3]

theorem levDP_eq_lev (xs ys : List α) : levDP xs ys = lev xs ys := by
  rw [levDP, wlevDP_eq_wlev, wlev_unit_eq_lev]
end Prs

namespace Prs
/-- compiled code evaluates the recursive specifications through the (proved equal) row programme -/
@[csimp] theorem lev_eq_levDP_csimp : @lev = @levDP := by
  funext α inst a b
  exact (levDP_eq_lev a b).symm

@[csimp] theorem wlev_eq_wlevDP_csimp : @wlev = @wlevDP := by
  funext α inst wi wd ws a b
  exact (wlevDP_eq_wlev wi wd ws a b).symm
end Prs
