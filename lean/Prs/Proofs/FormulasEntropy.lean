/-
Proofs/FormulasEntropy.lean — `renyi2_entropy` and `stdrenyi2_entropy` as GENERATED from pyrepseq/entropy.py
(Generated/FormulasEntropy, written by tools/gen_formulas.py on every run) are `renyi2` / `stdRenyi2` of the coincidence
statistic that belongs to the shape of the call (one feature: `pc`; a list of features: `pc_joint`; with `by`:
`pc_conditional`), behind the validation of `base`.
-/
import Prs.Generated.FormulasEntropy
import Prs.Proofs.Grouped

set_option linter.unusedTactic false
set_option linter.unreachableTactic false

namespace Prs

theorem gen_renyi2_single (p pj pcnd b : ℝ) :
    Generated.renyi2_entropy_single p pj pcnd b = checkedBase (some b) fun b => renyi2 b p := by
  unfold Generated.renyi2_entropy_single checkedBase renyi2
  by_cases h : b ≤ 0 <;> simp [h] <;> ring

theorem gen_renyi2_single_nat (p pj pcnd : ℝ) :
    Generated.renyi2_entropy_single_nat p pj pcnd = checkedBase none fun b => renyi2 b p := by
  unfold Generated.renyi2_entropy_single_nat checkedBase renyi2
  simp <;> ring

theorem gen_renyi2_joint (p pj pcnd b : ℝ) :
    Generated.renyi2_entropy_joint p pj pcnd b = checkedBase (some b) fun b => renyi2 b pj := by
  unfold Generated.renyi2_entropy_joint checkedBase renyi2
  by_cases h : b ≤ 0 <;> simp [h] <;> ring

theorem gen_renyi2_joint_nat (p pj pcnd : ℝ) :
    Generated.renyi2_entropy_joint_nat p pj pcnd = checkedBase none fun b => renyi2 b pj := by
  unfold Generated.renyi2_entropy_joint_nat checkedBase renyi2
  simp <;> ring

theorem gen_renyi2_conditional (p pj pcnd b : ℝ) :
    Generated.renyi2_entropy_conditional p pj pcnd b = checkedBase (some b) fun b => renyi2 b pcnd := by
  unfold Generated.renyi2_entropy_conditional checkedBase renyi2
  by_cases h : b ≤ 0 <;> simp [h] <;> ring

theorem gen_renyi2_conditional_nat (p pj pcnd : ℝ) :
    Generated.renyi2_entropy_conditional_nat p pj pcnd = checkedBase none fun b => renyi2 b pcnd := by
  unfold Generated.renyi2_entropy_conditional_nat checkedBase renyi2
  simp <;> ring

theorem gen_stdrenyi2_single (p pj sd sdj b : ℝ) :
    Generated.stdrenyi2_entropy_single p pj sd sdj b = checkedBase (some b) fun b => stdRenyi2 b sd p := by
  unfold Generated.stdrenyi2_entropy_single checkedBase stdRenyi2
  by_cases h : b ≤ 0 <;> simp [h] <;> ring

theorem gen_stdrenyi2_single_nat (p pj sd sdj : ℝ) :
    Generated.stdrenyi2_entropy_single_nat p pj sd sdj = checkedBase none fun b => stdRenyi2 b sd p := by
  unfold Generated.stdrenyi2_entropy_single_nat checkedBase stdRenyi2
  simp <;> ring

theorem gen_stdrenyi2_joint (p pj sd sdj b : ℝ) :
    Generated.stdrenyi2_entropy_joint p pj sd sdj b = checkedBase (some b) fun b => stdRenyi2 b sdj pj := by
  unfold Generated.stdrenyi2_entropy_joint checkedBase stdRenyi2
  by_cases h : b ≤ 0 <;> simp [h] <;> ring

theorem gen_stdrenyi2_joint_nat (p pj sd sdj : ℝ) :
    Generated.stdrenyi2_entropy_joint_nat p pj sd sdj = checkedBase none fun b => stdRenyi2 b sdj pj := by
  unfold Generated.stdrenyi2_entropy_joint_nat checkedBase stdRenyi2
  simp <;> ring

end Prs
