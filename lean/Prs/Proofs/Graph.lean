/-
Proofs/Graph.lean — the reachability-closure model of `connected_components(mode='weak')`
computes connected components (reflexive transitive closure of undirected adjacency).
-/
import Prs.Model.Graph
import Prs.Proofs.Util
import Mathlib.Logic.Relation
import Mathlib.Data.Finset.Card
import Mathlib.Data.Finset.Range

namespace Prs

/-- adjacency of the undirected edge list -/
def Adj (edges : List (Nat × Nat)) (u v : Nat) : Prop := (u, v) ∈ edges ∨ (v, u) ∈ edges

/-- connectedness = reflexive transitive closure of adjacency -/
def Connected (edges : List (Nat × Nat)) (u v : Nat) : Prop :=
  Relation.ReflTransGen (Adj edges) u v

/-- all edge endpoints are `< n` -/
def EdgesIn (n : Nat) (edges : List (Nat × Nat)) : Prop := ∀ e ∈ edges, e.1 < n ∧ e.2 < n

/-- `Walk edges m u v`: there is a walk of exactly `m` adjacency steps from `u` to `v` -/
def Walk (edges : List (Nat × Nat)) : Nat → Nat → Nat → Prop
  | 0, u, v => u = v
  | m+1, u, v => ∃ w, Walk edges m u w ∧ Adj edges w v

theorem Adj.symm {edges : List (Nat × Nat)} {u v : Nat} (h : Adj edges u v) : Adj edges v u :=
  Or.symm h

theorem Connected.refl (edges : List (Nat × Nat)) (u : Nat) : Connected edges u u :=
  Relation.ReflTransGen.refl

theorem Connected.symm {edges : List (Nat × Nat)} {u v : Nat} (h : Connected edges u v) :
    Connected edges v u := by
  induction h with
  | refl => exact Connected.refl _ _
  | tail _ hbc ih => exact Relation.ReflTransGen.head (Adj.symm hbc) ih

theorem Connected.trans {edges : List (Nat × Nat)} {u v w : Nat} (h : Connected edges u v)
    (h' : Connected edges v w) : Connected edges u w :=
  Relation.ReflTransGen.trans h h'

theorem connected_iff_walk (edges : List (Nat × Nat)) (u v : Nat) :
    Connected edges u v ↔ ∃ m, Walk edges m u v := by
  constructor
  · intro h
    induction h with
    | refl => exact ⟨0, rfl⟩
    | tail _ hbc ih =>
      obtain ⟨m, hm⟩ := ih
      exact ⟨m + 1, _, hm, hbc⟩
  · rintro ⟨m, hm⟩
    induction m generalizing v with
    | zero => cases hm; exact Connected.refl _ _
    | succ m ih =>
      obtain ⟨w, hw, ha⟩ := hm
      exact (ih w hw).tail ha

/-! ### membership in the closure rounds -/

theorem mem_nbrsOf (edges : List (Nat × Nat)) (front : List Nat) (v : Nat) :
    v ∈ nbrsOf edges front ↔ ∃ w ∈ front, Adj edges w v := by
  simp only [nbrsOf, List.mem_flatMap, List.mem_append]
  constructor
  · rintro ⟨⟨a, b⟩, he, h | h⟩
    · by_cases hc : a ∈ front
      · simp [hc] at h
        subst h
        exact ⟨a, hc, Or.inl he⟩
      · simp [hc] at h
    · by_cases hc : b ∈ front
      · simp [hc] at h
        subst h
        exact ⟨b, hc, Or.inr he⟩
      · simp [hc] at h
  · rintro ⟨w, hw, he | he⟩
    · exact ⟨(w, v), he, Or.inl (by simp [hw])⟩
    · exact ⟨(v, w), he, Or.inr (by simp [hw])⟩

theorem mem_closeOnce (edges : List (Nat × Nat)) (cur : List Nat) (v : Nat) :
    v ∈ closeOnce edges cur ↔ v ∈ cur ∨ ∃ w ∈ cur, Adj edges w v := by
  simp [closeOnce, mem_nbrsOf]

/-- `reachIn edges r u` is exactly the set of endpoints of walks from `u` with at most `r` steps -/
theorem mem_reachIn (edges : List (Nat × Nat)) (r u v : Nat) :
    v ∈ reachIn edges r u ↔ ∃ m ≤ r, Walk edges m u v := by
  induction r generalizing v with
  | zero =>
    simp only [reachIn, List.mem_singleton, Nat.le_zero]
    constructor
    · rintro rfl; exact ⟨0, rfl, rfl⟩
    · rintro ⟨m, rfl, h⟩; exact h.symm
  | succ r ih =>
    simp only [reachIn, mem_closeOnce]
    constructor
    · rintro (h | ⟨w, hw, ha⟩)
      · obtain ⟨m, hm, hW⟩ := (ih v).1 h
        exact ⟨m, Nat.le_succ_of_le hm, hW⟩
      · obtain ⟨m, hm, hW⟩ := (ih w).1 hw
        exact ⟨m + 1, Nat.succ_le_succ hm, w, hW, ha⟩
    · rintro ⟨m, hm, hW⟩
      rcases Nat.lt_or_ge m (r + 1) with hlt | hge
      · exact Or.inl ((ih v).2 ⟨m, Nat.le_of_lt_succ hlt, hW⟩)
      · have : m = r + 1 := Nat.le_antisymm hm hge
        subst this
        obtain ⟨w, hw, ha⟩ := hW
        exact Or.inr ⟨w, (ih w).2 ⟨r, Nat.le_refl _, hw⟩, ha⟩

theorem self_mem_reachIn (edges : List (Nat × Nat)) (r u : Nat) : u ∈ reachIn edges r u :=
  (mem_reachIn edges r u u).2 ⟨0, Nat.zero_le _, rfl⟩

theorem reachIn_mono (edges : List (Nat × Nat)) {r s : Nat} (h : r ≤ s) (u : Nat) :
    reachIn edges r u ⊆ reachIn edges s u := by
  intro v hv
  obtain ⟨m, hm, hW⟩ := (mem_reachIn edges r u v).1 hv
  exact (mem_reachIn edges s u v).2 ⟨m, Nat.le_trans hm h, hW⟩

theorem reachIn_connected {edges : List (Nat × Nat)} {r u v : Nat} (h : v ∈ reachIn edges r u) :
    Connected edges u v := by
  obtain ⟨m, _, hW⟩ := (mem_reachIn edges r u v).1 h
  exact (connected_iff_walk edges u v).2 ⟨m, hW⟩

/-! ### n rounds suffice (pigeonhole) -/

theorem closeOnce_subset_of_subset (edges : List (Nat × Nat)) {a b : List Nat} (h : a ⊆ b) :
    closeOnce edges a ⊆ closeOnce edges b := by
  intro v hv
  rw [mem_closeOnce] at hv ⊢
  rcases hv with hv | ⟨w, hw, ha⟩
  · exact Or.inl (h hv)
  · exact Or.inr ⟨w, h hw, ha⟩

/-- once a round adds nothing, no later round adds anything -/
theorem reachIn_stable (edges : List (Nat × Nat)) (u r : Nat)
    (h : reachIn edges (r + 1) u ⊆ reachIn edges r u) (k : Nat) :
    reachIn edges (r + k) u ⊆ reachIn edges r u := by
  induction k with
  | zero => exact fun _ hv => hv
  | succ k ih =>
    intro v hv
    have : reachIn edges (r + k + 1) u ⊆ reachIn edges (r + 1) u :=
      closeOnce_subset_of_subset edges ih
    exact h (this hv)

theorem reachIn_lt (n : Nat) (edges : List (Nat × Nat)) (hE : EdgesIn n edges) (u : Nat)
    (hu : u < n) (r v : Nat) (hv : v ∈ reachIn edges r u) : v < n := by
  induction r generalizing v with
  | zero => simp only [reachIn, List.mem_singleton] at hv; subst hv; exact hu
  | succ r ih =>
    simp only [reachIn, mem_closeOnce] at hv
    rcases hv with hv | ⟨w, _, ha | ha⟩
    · exact ih v hv
    · exact (hE _ ha).2
    · exact (hE _ ha).1

/-- each round either has at least `r + 1` members or the closure has already stabilised -/
theorem reachIn_card_or_stable (edges : List (Nat × Nat)) (u r : Nat) :
    r + 1 ≤ (reachIn edges r u).toFinset.card ∨
      ∀ k, reachIn edges (r + k) u ⊆ reachIn edges r u := by
  induction r with
  | zero => left; simp [reachIn]
  | succ r ih =>
    have stab : (∀ k, reachIn edges (r + k) u ⊆ reachIn edges r u) →
        ∀ k, reachIn edges (r + 1 + k) u ⊆ reachIn edges (r + 1) u := by
      intro h k v hv
      have h1 : v ∈ reachIn edges (r + (1 + k)) u := by
        rwa [← Nat.add_assoc]
      exact reachIn_mono edges (Nat.le_succ r) u (h _ h1)
    rcases ih with hc | hs
    · by_cases hsub : reachIn edges (r + 1) u ⊆ reachIn edges r u
      · exact Or.inr (stab (reachIn_stable edges u r hsub))
      · left
        have hss : (reachIn edges r u).toFinset ⊂ (reachIn edges (r + 1) u).toFinset := by
          rw [Finset.ssubset_iff_subset_ne]
          refine ⟨fun x hx => ?_, fun heq => hsub ?_⟩
          · rw [List.mem_toFinset] at hx ⊢
            exact reachIn_mono edges (Nat.le_succ r) u hx
          · intro x hx
            have : x ∈ (reachIn edges (r + 1) u).toFinset := List.mem_toFinset.2 hx
            rw [← heq] at this
            exact List.mem_toFinset.1 this
        have := Finset.card_lt_card hss
        omega
    · exact Or.inr (stab hs)

theorem reachIn_card_le (n : Nat) (edges : List (Nat × Nat)) (hE : EdgesIn n edges) (u : Nat)
    (hu : u < n) (r : Nat) : (reachIn edges r u).toFinset.card ≤ n := by
  have : (reachIn edges r u).toFinset ⊆ Finset.range n := by
    intro x hx
    rw [List.mem_toFinset] at hx
    exact Finset.mem_range.2 (reachIn_lt n edges hE u hu r x hx)
  simpa using Finset.card_le_card this

/-- the model's reachable set is the connected component -/
theorem mem_reachable_iff (n : Nat) (edges : List (Nat × Nat)) (hE : EdgesIn n edges)
    (u v : Nat) (hu : u < n) : v ∈ reachable n edges u ↔ Connected edges u v := by
  constructor
  · exact reachIn_connected
  · intro h
    obtain ⟨m, hW⟩ := (connected_iff_walk edges u v).1 h
    have hm : v ∈ reachIn edges m u := (mem_reachIn edges m u v).2 ⟨m, Nat.le_refl _, hW⟩
    rcases reachIn_card_or_stable edges u n with hc | hs
    · have := reachIn_card_le n edges hE u hu n
      omega
    · exact hs m (reachIn_mono edges (Nat.le_add_left m n) u hm)

/-- `EdgesIn` is needed: with an out-of-range endpoint, `n` rounds need not suffice
    (here 0 — 1 — 2 with n = 1: vertex 2 is connected to 0 but not found). -/
example : 2 ∉ reachable 1 [(0, 1), (1, 2)] 0 ∧ Connected [(0, 1), (1, 2)] 0 2 := by
  refine ⟨by decide, ?_⟩
  have h01 : Adj [(0, 1), (1, 2)] 0 1 := Or.inl (by decide)
  have h12 : Adj [(0, 1), (1, 2)] 1 2 := Or.inl (by decide)
  exact Relation.ReflTransGen.tail (Relation.ReflTransGen.single h01) h12

/-! ### component labels -/

theorem foldl_min_le_init (l : List Nat) (a : Nat) : l.foldl min a ≤ a := by
  induction l generalizing a with
  | nil => exact Nat.le_refl _
  | cons x xs ih => exact Nat.le_trans (ih _) (Nat.min_le_left _ _)

theorem foldl_min_le_mem (l : List Nat) (a x : Nat) (hx : x ∈ l) : l.foldl min a ≤ x := by
  induction l generalizing a with
  | nil => cases hx
  | cons y ys ih =>
    rcases List.mem_cons.1 hx with rfl | hx
    · exact Nat.le_trans (foldl_min_le_init ys (min a x)) (Nat.min_le_right _ _)
    · exact ih (min a y) hx

theorem foldl_min_mem (l : List Nat) (a : Nat) : l.foldl min a = a ∨ l.foldl min a ∈ l := by
  induction l generalizing a with
  | nil => exact Or.inl rfl
  | cons y ys ih =>
    simp only [List.foldl_cons, List.mem_cons]
    rcases ih (min a y) with h | h
    · rw [h]
      rcases Nat.le_total a y with hay | hya
      · left; exact Nat.min_eq_left hay
      · right; left; exact Nat.min_eq_right hya
    · exact Or.inr (Or.inr h)

theorem compLabel_mem (n : Nat) (edges : List (Nat × Nat)) (u : Nat) :
    compLabel n edges u ∈ reachable n edges u := by
  rcases foldl_min_mem (reachable n edges u) u with h | h
  · unfold compLabel; rw [h]; exact self_mem_reachIn edges n u
  · exact h

theorem compLabel_le (n : Nat) (edges : List (Nat × Nat)) (u x : Nat)
    (hx : x ∈ reachable n edges u) : compLabel n edges u ≤ x :=
  foldl_min_le_mem _ _ _ hx

/-- the label is the least vertex of the component -/
theorem compLabel_connected (n : Nat) (edges : List (Nat × Nat)) (hE : EdgesIn n edges) (u : Nat)
    (hu : u < n) : Connected edges u (compLabel n edges u) :=
  (mem_reachable_iff n edges hE u _ hu).1 (compLabel_mem n edges u)

theorem compLabel_le_of_connected (n : Nat) (edges : List (Nat × Nat)) (hE : EdgesIn n edges)
    (u x : Nat) (hu : u < n) (h : Connected edges u x) : compLabel n edges u ≤ x :=
  compLabel_le n edges u x ((mem_reachable_iff n edges hE u x hu).2 h)

theorem compLabel_eq_iff (n : Nat) (edges : List (Nat × Nat)) (hE : EdgesIn n edges)
    (u v : Nat) (hu : u < n) (hv : v < n) :
    compLabel n edges u = compLabel n edges v ↔ Connected edges u v := by
  constructor
  · intro h
    have h1 := compLabel_connected n edges hE u hu
    have h2 := compLabel_connected n edges hE v hv
    rw [h] at h1
    exact h1.trans h2.symm
  · intro h
    apply Nat.le_antisymm
    · exact compLabel_le_of_connected n edges hE u _ hu
        (h.trans (compLabel_connected n edges hE v hv))
    · exact compLabel_le_of_connected n edges hE v _ hv
        (h.symm.trans (compLabel_connected n edges hE u hu))

theorem compLabel_lt (n : Nat) (edges : List (Nat × Nat)) (hE : EdgesIn n edges) (u : Nat)
    (hu : u < n) : compLabel n edges u < n :=
  reachIn_lt n edges hE u hu n _ (compLabel_mem n edges u)

/-! ### membership vector -/

theorem components_length (n : Nat) (edges : List (Nat × Nat)) :
    (components n edges).length = n := by
  simp [components]

theorem components_getElem? (n : Nat) (edges : List (Nat × Nat)) (u : Nat) (hu : u < n) :
    (components n edges)[u]? = some (compLabel n edges u) := by
  simp [components, hu]

theorem components_getElem?_eq_some (n : Nat) (edges : List (Nat × Nat)) (u l : Nat) :
    (components n edges)[u]? = some l ↔ u < n ∧ l = compLabel n edges u := by
  by_cases hu : u < n
  · rw [components_getElem? n edges u hu]
    simp [hu, eq_comm]
  · have : (components n edges)[u]? = none := by
      apply List.getElem?_eq_none
      rw [components_length]; omega
    simp [this, hu]

theorem components_same_iff (n : Nat) (edges : List (Nat × Nat)) (hE : EdgesIn n edges)
    (u v : Nat) (hu : u < n) (hv : v < n) :
    (components n edges)[u]? = (components n edges)[v]? ↔ Connected edges u v := by
  rw [components_getElem? n edges u hu, components_getElem? n edges v hv, Option.some_inj]
  exact compLabel_eq_iff n edges hE u v hu hv

/-! ### graph_clustering('cc') -/

theorem one_lt_length_iff_of_nodup {L : List Nat} (hL : L.Nodup) {v : Nat} (hv : v ∈ L) :
    1 < L.length ↔ ∃ w ∈ L, w ≠ v := by
  constructor
  · intro h
    match L, hL, hv, h with
    | a :: b :: _, hL, _, _ =>
      have hab : a ≠ b := by
        intro e; subst e
        simp at hL
      by_cases ha : a = v
      · exact ⟨b, by simp, fun e => hab (ha.trans e.symm)⟩
      · exact ⟨a, by simp, ha⟩
  · rintro ⟨w, hw, hne⟩
    match L, hv, hw with
    | [a], hv, hw =>
      simp only [List.mem_singleton] at hv hw
      exact absurd (hw.trans hv.symm) hne
    | _ :: _ :: _, _, _ => simp

theorem count_components (n : Nat) (edges : List (Nat × Nat)) (l : Nat) :
    (components n edges).count l =
      ((List.range n).filter fun w => decide (compLabel n edges w = l)).length := by
  simp only [components, List.count_eq_countP, List.countP_eq_length_filter, List.filter_map,
    List.length_map]
  congr 1

/-- `graph_clustering('cc')` returns exactly the vertices whose component has another member,
    each with its component's label -/
theorem mem_graphClusteringCC (n : Nat) (edges : List (Nat × Nat)) (hE : EdgesIn n edges)
    (v l : Nat) :
    (v, l) ∈ graphClusteringCC n edges ↔
      v < n ∧ l = compLabel n edges v ∧ ∃ w, w < n ∧ w ≠ v ∧ Connected edges v w := by
  have key : (v, l) ∈ graphClusteringCC n edges ↔
      (components n edges)[v]? = some l ∧ 1 < (components n edges).count l := by
    simp only [graphClusteringCC, List.mem_map, List.mem_filter, List.mem_zipIdx_iff_getElem?,
      decide_eq_true_eq, Prod.mk.injEq]
    constructor
    · rintro ⟨⟨a, i⟩, ⟨h1, h2⟩, rfl, rfl⟩
      exact ⟨h1, h2⟩
    · rintro ⟨h1, h2⟩
      exact ⟨(l, v), ⟨h1, h2⟩, rfl, rfl⟩
  rw [key, components_getElem?_eq_some, count_components]
  constructor
  · rintro ⟨⟨hv, hl⟩, hc⟩
    refine ⟨hv, hl, ?_⟩
    have hnd : ((List.range n).filter fun w => decide (compLabel n edges w = l)).Nodup :=
      List.nodup_range.filter _
    have hmem : v ∈ (List.range n).filter fun w => decide (compLabel n edges w = l) := by
      simp [hv, hl]
    obtain ⟨w, hw, hne⟩ := (one_lt_length_iff_of_nodup hnd hmem).1 hc
    simp only [List.mem_filter, List.mem_range, decide_eq_true_eq] at hw
    refine ⟨w, hw.1, hne, ?_⟩
    rw [← compLabel_eq_iff n edges hE v w hv hw.1, hw.2, hl]
  · rintro ⟨hv, hl, w, hw, hne, hc⟩
    refine ⟨⟨hv, hl⟩, ?_⟩
    have hnd : ((List.range n).filter fun w => decide (compLabel n edges w = l)).Nodup :=
      List.nodup_range.filter _
    have hmem : v ∈ (List.range n).filter fun w => decide (compLabel n edges w = l) := by
      simp [hv, hl]
    refine (one_lt_length_iff_of_nodup hnd hmem).2 ⟨w, ?_, hne⟩
    simp only [List.mem_filter, List.mem_range, decide_eq_true_eq]
    refine ⟨hw, ?_⟩
    rw [hl]
    exact ((compLabel_eq_iff n edges hE v w hv hw).2 hc).symm

/-- the rows come in strictly increasing vertex order (so each vertex appears at most once) -/
theorem graphClusteringCC_pairwise (n : Nat) (edges : List (Nat × Nat)) :
    ((graphClusteringCC n edges).map (·.1)).Pairwise (· < ·) := by
  have := (zipIdx_filter_pairwise
    (fun li : Nat × Nat => decide (1 < (components n edges).count li.1)) (components n edges) 0).1
  unfold graphClusteringCC
  rw [List.map_map]
  exact this

theorem graphClusteringCC_nodup (n : Nat) (edges : List (Nat × Nat)) :
    ((graphClusteringCC n edges).map (·.1)).Nodup :=
  (graphClusteringCC_pairwise n edges).imp (fun h => Nat.ne_of_lt h)

end Prs

