/- Proofs/MergeFold.lean — the fold of pairwise joins equals the direct description of multimerge. -/
import Prs.Proofs.Merge
namespace Prs

section dedupAux
variable {β : Type} [DecidableEq β]

theorem dedup_append (l m : List β) :
    dedup (l ++ m) = dedup l ++ (dedup m).filter (fun x => decide (x ∉ l)) := by
  induction l with
  | nil =>
    simp only [dedup, List.nil_append, List.not_mem_nil, not_false_eq_true, decide_true]
    exact (List.filter_eq_self.2 (fun _ _ => rfl)).symm
  | cons x xs ih =>
    simp only [List.cons_append, dedup, ih, List.filter_append, List.filter_filter]
    congr 2
    apply List.filter_congr
    intro a _
    by_cases h : a = x <;> simp [h]

theorem dedup_dedup_append (l m : List β) : dedup (dedup l ++ m) = dedup (l ++ m) := by
  rw [dedup_append, dedup_append, dedup_eq_self_of_nodup _ (nodup_dedup l)]
  congr 1
  apply List.filter_congr
  intro a _
  simp
end dedupAux

variable {K V : Type} [DecidableEq K]

/-- the keyed normal form: the given keys, each with every table's cells side by side -/
def keyedForm (ks : List K) (ts : List (KTable K V)) : KTable K V :=
  { cols := ts.flatMap (·.cols), rows := ks.map fun k => (k, ts.flatMap fun t => cellsFor t k) }

theorem mergeTables_eq_keyedForm (outer : Bool) (ts : List (KTable K V)) :
    mergeTables outer ts = keyedForm (joinKeys outer ts) ts := rfl

theorem keyedForm_keys (ks : List K) (ts : List (KTable K V)) : (keyedForm ks ts).keys = ks := by
  simp [keyedForm, KTable.keys, List.map_map, Function.comp_def]

theorem cellsFor_of_mem (t : KTable K V) (hn : t.keys.Nodup) {r : K × List (Option V)} (hr : r ∈ t.rows) :
    cellsFor t r.1 = r.2 := by
  unfold cellsFor
  rw [find_row_of_mem_nodup hn hr]

theorem cellsFor_of_not_mem (t : KTable K V) {k : K} (hk : k ∉ t.keys) :
    cellsFor t k = List.replicate t.cols.length none := by
  unfold cellsFor
  rw [find_row_none hk]

theorem rows_eq_of_wf (t : KTable K V) (h : t.WF) : t.rows = t.keys.map fun k => (k, cellsFor t k) := by
  unfold KTable.keys
  rw [List.map_map]
  conv => lhs; rw [← List.map_id t.rows]
  apply List.map_congr_left
  intro r hr
  simp [cellsFor_of_mem t h.1 hr]

theorem cellsFor_keyedForm (ks : List K) (ts : List (KTable K V)) (hn : ks.Nodup) {k : K} (hk : k ∈ ks) :
    cellsFor (keyedForm ks ts) k = ts.flatMap fun t => cellsFor t k := by
  have hn' : (keyedForm ks ts).keys.Nodup := by rw [keyedForm_keys]; exact hn
  have hmem : (k, ts.flatMap fun t => cellsFor t k) ∈ (keyedForm ks ts).rows := by
    simp only [keyedForm, List.mem_map]
    exact ⟨k, hk, rfl⟩
  exact cellsFor_of_mem _ hn' hmem

theorem flatMap_cells_absent (ts : List (KTable K V)) (k : K) (h : ∀ t ∈ ts, k ∉ t.keys) :
    (ts.flatMap fun t => cellsFor t k) = List.replicate (ts.flatMap (·.cols)).length none := by
  induction ts with
  | nil => rfl
  | cons t rest ih =>
    simp only [List.flatMap_cons, List.length_append]
    rw [cellsFor_of_not_mem t (h t List.mem_cons_self), ih (fun u hu => h u (List.mem_cons_of_mem _ hu)),
      List.replicate_append_replicate]

theorem keyedForm_singleton (t : KTable K V) (h : t.WF) : keyedForm t.keys [t] = t := by
  have hr := rows_eq_of_wf t h
  cases t with
  | mk cols rows =>
    simp only [keyedForm, List.flatMap_cons, List.flatMap_nil, List.append_nil]
    simp only at hr
    rw [← hr]

theorem mergeTables_singleton (outer : Bool) (t : KTable K V) (h : t.WF) : mergeTables outer [t] = t := by
  have hk : joinKeys outer [t] = t.keys := by
    cases outer <;> simp [joinKeys, dedup_eq_self_of_nodup _ h.1]
  rw [mergeTables_eq_keyedForm, hk, keyedForm_singleton t h]

theorem mergeTwo_keys (how : JoinHow) (a b : KTable K V) :
    (mergeTwo how a b).keys = match how with
      | .outer => dedup (a.keys ++ b.keys)
      | .inner => (dedup a.keys).filter fun k => b.keys.contains k
      | .left => dedup a.keys
      | .right => dedup b.keys := by
  cases how <;> simp [mergeTwo, KTable.keys, List.map_map, Function.comp_def]

/-- a pairwise join of well-formed tables is well formed -/
theorem mergeTwo_wf (how : JoinHow) (a b : KTable K V) (ha : a.WF) (hb : b.WF) : (mergeTwo how a b).WF := by
  refine ⟨?_, ?_⟩
  · rw [mergeTwo_keys]
    cases how
    · exact nodup_dedup _
    · exact (nodup_dedup _).sublist List.filter_sublist
    · exact nodup_dedup _
    · exact nodup_dedup _
  · intro r hr
    simp only [mergeTwo, List.mem_map] at hr
    rcases hr with ⟨k, _, rfl⟩
    simp only [List.length_append]
    rw [cellsFor_length a k ha.2, cellsFor_length b k hb.2]
    simp [mergeTwo]

/-! ### outer -/

theorem cellsFor_mergeTables_outer (pre : List (KTable K V)) (k : K) :
    cellsFor (mergeTables true pre) k = pre.flatMap fun t => cellsFor t k := by
  by_cases hk : k ∈ joinKeys true pre
  · exact cellsFor_keyedForm _ pre (joinKeys_nodup true pre) hk
  · rw [cellsFor_of_not_mem _ (by rw [mergeTables_keys]; exact hk)]
    rw [flatMap_cells_absent pre k]
    · rfl
    · intro t ht hkt
      exact hk ((mem_joinKeys_outer pre k).2 ⟨t, ht, hkt⟩)

theorem mergeTwo_outer_step (pre : List (KTable K V)) (t : KTable K V) :
    mergeTwo .outer (mergeTables true pre) t = mergeTables true (pre ++ [t]) := by
  have hkeys : dedup ((mergeTables true pre).keys ++ t.keys) = joinKeys true (pre ++ [t]) := by
    rw [mergeTables_keys]
    simp only [joinKeys, if_true, List.flatMap_append, List.flatMap_cons, List.flatMap_nil, List.append_nil]
    exact dedup_dedup_append _ _
  unfold mergeTwo
  simp only [hkeys]
  simp only [mergeTables, List.flatMap_append, List.flatMap_cons, List.flatMap_nil, List.append_nil]
  congr 1
  apply List.map_congr_left
  intro k _
  have := cellsFor_mergeTables_outer pre k
  simp only [mergeTables] at this
  rw [this]

theorem foldl_outer (ts pre : List (KTable K V)) :
    ts.foldl (mergeTwo .outer) (mergeTables true pre) = mergeTables true (pre ++ ts) := by
  induction ts generalizing pre with
  | nil => simp
  | cons t ts ih =>
    rw [List.foldl_cons, mergeTwo_outer_step, ih (pre ++ [t]), List.append_assoc]
    rfl

/-- outer: folding pairwise outer joins over the list gives exactly the direct description -/
theorem mergeFold_outer (ts : List (KTable K V)) (hne : ts ≠ []) (hwf : ∀ t ∈ ts, t.WF) :
    multimergeFold .outer ts = some (mergeTables true ts) := by
  cases ts with
  | nil => exact absurd rfl hne
  | cons t rest =>
    simp only [multimergeFold]
    congr 1
    have h1 := foldl_outer rest [t]
    rw [mergeTables_singleton true t (hwf t List.mem_cons_self)] at h1
    exact h1

/-! ### inner -/

theorem mergeTwo_inner_step (pre : List (KTable K V)) (hpre : pre ≠ []) (t : KTable K V) :
    mergeTwo .inner (mergeTables false pre) t = mergeTables false (pre ++ [t]) := by
  have hkeys : ((dedup (mergeTables false pre).keys).filter fun k => t.keys.contains k)
      = joinKeys false (pre ++ [t]) := by
    rw [mergeTables_keys, dedup_eq_self_of_nodup _ (joinKeys_nodup false pre)]
    cases pre with
    | nil => exact absurd rfl hpre
    | cons p ps =>
      simp only [joinKeys, Bool.false_eq_true, if_false, List.cons_append, List.filter_filter]
      apply List.filter_congr
      intro k _
      simp only [List.all_append, List.all_cons, List.all_nil, Bool.and_true]
      exact Bool.and_comm _ _
  unfold mergeTwo
  simp only [hkeys]
  simp only [mergeTables, List.flatMap_append, List.flatMap_cons, List.flatMap_nil, List.append_nil]
  congr 1
  apply List.map_congr_left
  intro k hk
  have hk' : k ∈ joinKeys false pre := by
    rw [mem_joinKeys_inner] at hk ⊢
    exact ⟨hpre, fun u hu => hk.2 u (List.mem_append_left _ hu)⟩
  have := cellsFor_keyedForm _ pre (joinKeys_nodup false pre) hk'
  simp only [keyedForm] at this
  rw [this]

theorem foldl_inner (ts pre : List (KTable K V)) (hpre : pre ≠ []) :
    ts.foldl (mergeTwo .inner) (mergeTables false pre) = mergeTables false (pre ++ ts) := by
  induction ts generalizing pre with
  | nil => simp
  | cons t ts ih =>
    rw [List.foldl_cons, mergeTwo_inner_step pre hpre, ih (pre ++ [t]) (by simp), List.append_assoc]
    rfl

/-- inner: likewise -/
theorem mergeFold_inner (ts : List (KTable K V)) (hne : ts ≠ []) (hwf : ∀ t ∈ ts, t.WF) :
    multimergeFold .inner ts = some (mergeTables false ts) := by
  cases ts with
  | nil => exact absurd rfl hne
  | cons t rest =>
    simp only [multimergeFold]
    congr 1
    have h1 := foldl_inner rest [t] (by simp)
    rw [mergeTables_singleton false t (hwf t List.mem_cons_self)] at h1
    exact h1

/-! ### left -/

theorem mergeTwo_left_step (ks : List K) (hn : ks.Nodup) (pre : List (KTable K V)) (t : KTable K V) :
    mergeTwo .left (keyedForm ks pre) t = keyedForm ks (pre ++ [t]) := by
  have hkeys : dedup (keyedForm ks pre).keys = ks := by
    rw [keyedForm_keys, dedup_eq_self_of_nodup _ hn]
  unfold mergeTwo
  simp only [hkeys]
  simp only [keyedForm, List.flatMap_append, List.flatMap_cons, List.flatMap_nil, List.append_nil]
  congr 1
  apply List.map_congr_left
  intro k hk
  have := cellsFor_keyedForm ks pre hn hk
  simp only [keyedForm] at this
  rw [this]

theorem foldl_left (ks : List K) (hn : ks.Nodup) (ts pre : List (KTable K V)) :
    ts.foldl (mergeTwo .left) (keyedForm ks pre) = keyedForm ks (pre ++ ts) := by
  induction ts generalizing pre with
  | nil => simp
  | cons t ts ih =>
    rw [List.foldl_cons, mergeTwo_left_step ks hn, ih (pre ++ [t]), List.append_assoc]
    rfl

/-- left: the keys of the FIRST table, each with every table's cells for that key side by side -/
theorem mergeFold_left (t : KTable K V) (ts : List (KTable K V)) (hwf : ∀ u ∈ t :: ts, u.WF) :
    multimergeFold .left (t :: ts) =
      some { cols := (t :: ts).flatMap (·.cols), rows := t.keys.map fun k => (k, (t :: ts).flatMap fun u => cellsFor u k) } := by
  have ht := hwf t List.mem_cons_self
  simp only [multimergeFold]
  congr 1
  have h1 := foldl_left t.keys ht.1 ts [t]
  rw [keyedForm_singleton t ht] at h1
  exact h1

/-! ### right -/

theorem foldl_right_keys (ts : List (KTable K V)) (t : KTable K V) (hwf : ∀ u ∈ ts, u.WF) :
    (ts.foldl (mergeTwo .right) t).keys = ((t :: ts).getLast (List.cons_ne_nil _ _)).keys := by
  induction ts generalizing t with
  | nil => simp
  | cons u us ih =>
    rw [List.foldl_cons, ih (mergeTwo .right t u) (fun v hv => hwf v (List.mem_cons_of_mem _ hv))]
    cases us with
    | nil =>
      simp only [List.getLast_singleton, List.getLast_cons_cons]
      rw [mergeTwo_keys]
      exact dedup_eq_self_of_nodup _ (hwf u List.mem_cons_self).1
    | cons v vs => simp only [List.getLast_cons_cons]

/-- right: the keys of the LAST table -/
theorem mergeFold_right_keys (t : KTable K V) (ts : List (KTable K V)) (hwf : ∀ u ∈ t :: ts, u.WF) :
    ((multimergeFold .right (t :: ts)).map KTable.keys) = some ((t :: ts).getLast (List.cons_ne_nil _ _)).keys := by
  simp only [multimergeFold, Option.map_some]
  congr 1
  exact foldl_right_keys ts t (fun u hu => hwf u (List.mem_cons_of_mem _ hu))

end Prs

