/- Proofs/Merge.lean — multimerge is the outer / inner join of uniquely keyed tables. -/
import Prs.Model.Merge
import Prs.Proofs.Util
namespace Prs
variable {K V : Type} [DecidableEq K]

theorem mem_joinKeys_outer (ts : List (KTable K V)) (k : K) :
    k ∈ joinKeys true ts ↔ ∃ t ∈ ts, k ∈ t.keys := by
  simp [joinKeys, List.mem_flatMap]

theorem mem_joinKeys_inner (ts : List (KTable K V)) (k : K) :
    k ∈ joinKeys false ts ↔ ts ≠ [] ∧ ∀ t ∈ ts, k ∈ t.keys := by
  cases ts with
  | nil => simp [joinKeys]
  | cons t rest =>
    simp only [joinKeys, Bool.false_eq_true, if_false, List.mem_filter, mem_dedup, List.all_eq_true,
      List.contains_iff_mem, ne_eq, reduceCtorEq, not_false_eq_true, true_and, List.mem_cons,
      forall_eq_or_imp]

theorem joinKeys_nodup (outer : Bool) (ts : List (KTable K V)) : (joinKeys outer ts).Nodup := by
  unfold joinKeys
  split
  · exact nodup_dedup _
  · cases ts with
    | nil => exact List.nodup_nil
    | cons t rest => exact (nodup_dedup _).sublist List.filter_sublist

theorem mergeTables_keys (outer : Bool) (ts : List (KTable K V)) :
    (mergeTables outer ts).keys = joinKeys outer ts := by
  simp [mergeTables, KTable.keys, List.map_map, Function.comp_def]

theorem cellsFor_length (t : KTable K V) (k : K) (h : ∀ r ∈ t.rows, r.2.length = t.cols.length) :
    (cellsFor t k).length = t.cols.length := by
  unfold cellsFor
  split
  · next r hr => exact h r (List.mem_of_find?_eq_some hr)
  · simp

theorem flatMap_cells_length (ts : List (KTable K V)) (k : K)
    (h : ∀ t ∈ ts, ∀ r ∈ t.rows, r.2.length = t.cols.length) :
    (ts.flatMap fun t => cellsFor t k).length = (ts.flatMap (·.cols)).length := by
  induction ts with
  | nil => rfl
  | cons t rest ih =>
    simp only [List.flatMap_cons, List.length_append]
    rw [cellsFor_length t k (h t (List.mem_cons_self)), ih (fun u hu => h u (List.mem_cons_of_mem _ hu))]

theorem mergeTables_wf (outer : Bool) (ts : List (KTable K V))
    (h : ∀ t ∈ ts, ∀ r ∈ t.rows, r.2.length = t.cols.length) : (mergeTables outer ts).WF := by
  refine ⟨by rw [mergeTables_keys]; exact joinKeys_nodup outer ts, ?_⟩
  intro r hr
  simp only [mergeTables, List.mem_map] at hr
  rcases hr with ⟨k, _, rfl⟩
  exact flatMap_cells_length ts k h

theorem find_row_of_mem_nodup {rows : List (K × List (Option V))} (hn : (rows.map (·.1)).Nodup)
    {r : K × List (Option V)} (hr : r ∈ rows) : rows.find? (fun x => x.1 == r.1) = some r := by
  induction rows with
  | nil => cases hr
  | cons x xs ih =>
    simp only [List.map_cons, List.nodup_cons] at hn
    rcases List.mem_cons.1 hr with rfl | hmem
    · simp
    · have hne : x.1 ≠ r.1 := fun he => hn.1 (he ▸ List.mem_map_of_mem hmem)
      rw [List.find?_cons_of_neg (by simpa using hne)]
      exact ih hn.2 hmem

theorem find_row_none {rows : List (K × List (Option V))} {k : K} (h : k ∉ rows.map (·.1)) :
    rows.find? (fun x => x.1 == k) = none := by
  rw [List.find?_eq_none]
  intro x hx he
  have hxk : x.1 = k := by simpa using he
  exact h (hxk ▸ List.mem_map_of_mem (f := (·.1)) hx)

/-- the merged row of key k -/
theorem mergeTables_find (outer : Bool) (ts : List (KTable K V)) (k : K)
    (hk : k ∈ joinKeys outer ts) :
    (mergeTables outer ts).rows.find? (fun r => r.1 == k) = some (k, ts.flatMap fun t => cellsFor t k) := by
  have hn : ((mergeTables outer ts).rows.map (·.1)).Nodup := by
    have := mergeTables_keys outer ts
    unfold KTable.keys at this
    rw [this]; exact joinKeys_nodup outer ts
  have hmem : (k, ts.flatMap fun t => cellsFor t k) ∈ (mergeTables outer ts).rows := by
    simp only [mergeTables, List.mem_map]
    exact ⟨k, hk, rfl⟩
  exact find_row_of_mem_nodup hn hmem

/-- cell (k, offset + j) of the join is table t's cell (k, j): its value when t has key k, missing otherwise -/
theorem mergeTables_cell (outer : Bool) (pre post : List (KTable K V)) (t : KTable K V) (k : K) (j : Nat)
    (hwf : ∀ u ∈ pre ++ t :: post, ∀ r ∈ u.rows, r.2.length = u.cols.length)
    (hk : k ∈ joinKeys outer (pre ++ t :: post)) (hj : j < t.cols.length) :
    (mergeTables outer (pre ++ t :: post)).cell? k ((pre.flatMap (·.cols)).length + j)
      = some ((t.cell? k j).getD none) := by
  unfold KTable.cell?
  rw [mergeTables_find outer _ k hk]
  simp only [List.flatMap_append, List.flatMap_cons]
  have hpre : (pre.flatMap fun u => cellsFor u k).length = (pre.flatMap (·.cols)).length :=
    flatMap_cells_length pre k (fun u hu => hwf u (List.mem_append_left _ hu))
  have hlen : (cellsFor t k).length = t.cols.length :=
    cellsFor_length t k (hwf t (List.mem_append_right _ List.mem_cons_self))
  rw [← hpre, List.getElem?_append_right (Nat.le_add_right _ _), Nat.add_sub_cancel_left,
    List.getElem?_append_left (by omega)]
  unfold cellsFor
  split
  · next r hr =>
    have : j < r.2.length := by
      have := hwf t (List.mem_append_right _ List.mem_cons_self) r (List.mem_of_find?_eq_some hr); omega
    simp [List.getElem?_eq_getElem this]
  · simp [hj]

end Prs

namespace Prs
variable {K V : Type} [DecidableEq K]

@[simp] theorem addSuffix_rows (t : KTable K V) (s : List Char) : (t.addSuffix s).rows = t.rows := rfl
@[simp] theorem addSuffix_keys (t : KTable K V) (s : List Char) : (t.addSuffix s).keys = t.keys := rfl
@[simp] theorem addSuffix_cols (t : KTable K V) (s : List Char) :
    (t.addSuffix s).cols = t.cols.map fun c => c ++ '_' :: s := rfl

theorem suffixed_none (ts : List (KTable K V)) : suffixed none ts = ts := rfl
theorem suffixed_empty (ts : List (KTable K V)) : suffixed (some []) ts = ts := rfl

theorem suffixed_some (s : List Char) (ss : List (List Char)) (ts : List (KTable K V)) :
    suffixed (some (s :: ss)) ts = (ts.zip (s :: ss)).map fun p => p.1.addSuffix p.2 := rfl

/-- with one suffix per table, suffixing changes the column names only -/
theorem suffixed_rows (sfx : Option (List (List Char))) (ts : List (KTable K V))
    (h : ∀ ss, sfx = some ss → ss ≠ [] → ts.length ≤ ss.length) :
    (suffixed sfx ts).map (·.rows) = ts.map (·.rows) := by
  match sfx with
  | none => rfl
  | some [] => rfl
  | some (s :: ss) =>
    have hl := h (s :: ss) rfl (List.cons_ne_nil _ _)
    rw [suffixed_some, List.map_map]
    have : ((fun t : KTable K V => t.rows) ∘ fun p : KTable K V × List Char => p.1.addSuffix p.2)
        = (fun t : KTable K V => t.rows) ∘ Prod.fst := by funext p; rfl
    rw [this, ← List.map_map, List.map_fst_zip hl]

theorem suffixed_length (sfx : Option (List (List Char))) (ts : List (KTable K V))
    (h : ∀ ss, sfx = some ss → ss ≠ [] → ts.length ≤ ss.length) :
    (suffixed sfx ts).length = ts.length := by
  have := congrArg List.length (suffixed_rows sfx ts h)
  simpa using this

theorem joinKeys_congr (outer : Bool) (ts us : List (KTable K V))
    (h : ts.map (·.rows) = us.map (·.rows)) : joinKeys outer ts = joinKeys outer us := by
  have hk : ts.map KTable.keys = us.map KTable.keys := by
    have := congrArg (List.map (List.map (fun r : K × List (Option V) => r.1))) h
    simp only [List.map_map, Function.comp_def] at this
    exact this
  unfold joinKeys
  split
  · rw [List.flatMap_def, List.flatMap_def, hk]
  · cases ts with
    | nil => cases us with
      | nil => rfl
      | cons u us => simp at hk
    | cons t ts => cases us with
      | nil => simp at hk
      | cons u us =>
        simp only [List.map_cons, List.cons.injEq] at hk
        have h1 : t.keys = u.keys := hk.1
        have h2 : ∀ k, (ts.all fun u => u.keys.contains k) = (us.all fun u => u.keys.contains k) := by
          intro k
          have := congrArg (fun l : List (List K) => l.all fun ks => ks.contains k) hk.2
          simpa [List.all_map, Function.comp_def] using this
        simp only [h1, h2]

end Prs
