/- Proofs/Symdel.lean — symmetric-delete search is exact whenever scoring pairs share a key. -/
import Prs.Proofs.Lev
import Prs.Proofs.Util
import Prs.Spec.Neighbours
namespace Prs

section dv
variable {α : Type} [DecidableEq α]

theorem mem_delVariants (k : Nat) (s c : List α) :
    c ∈ delVariants k s ↔ c.Sublist s ∧ s.length ≤ c.length + k := by
  induction s generalizing k c with
  | nil => simp [delVariants]
  | cons x s ih =>
    cases k with
    | zero =>
      simp [delVariants]
      constructor
      · rintro rfl; simp
      · rintro ⟨h1, h2⟩; exact (h1.eq_of_length_le (by simpa using h2))
    | succ k =>
      simp only [delVariants, List.mem_append, List.mem_map, ih]
      constructor
      · rintro (⟨c', ⟨h1, h2⟩, rfl⟩ | ⟨h1, h2⟩)
        · exact ⟨h1.cons_cons x, by simp; omega⟩
        · exact ⟨h1.cons x, by simp; omega⟩
      · rintro ⟨h1, h2⟩
        cases h1 with
        | cons _ h => right; exact ⟨h, by simp at h2; omega⟩
        | cons_cons _ h => left; exact ⟨_, ⟨h, by simp at h2; omega⟩, rfl⟩

/-- the symmetric-delete lemma: two strings within k edits share a deletion variant -/
theorem symdel_complete (k : Nat) (a b : List α) (h : lev a b ≤ k) :
    ∃ c, c ∈ delVariants k a ∧ c ∈ delVariants k b := by
  obtain ⟨m, hm, hE⟩ := (lev_le_iff a b k).1 h
  obtain ⟨c, h1, h2, h3, h4⟩ := Ed_common hE
  exact ⟨c, (mem_delVariants k a c).2 ⟨h1, by omega⟩, (mem_delVariants k b c).2 ⟨h2, by omega⟩⟩
end dv

section engine
variable {S V D : Type} [DecidableEq V] [DecidableEq D]

theorem mem_buildIndex (vs : S → List V) (xs : List S) (kv : V × List Nat) :
    kv ∈ buildIndex vs xs ↔
      (∃ s ∈ xs, kv.1 ∈ vs s) ∧ kv.2 = positionsWhere (fun s => decide (kv.1 ∈ vs s)) xs := by
  simp only [buildIndex, allKeys, List.mem_map, mem_dedup, List.mem_flatMap]
  constructor
  · rintro ⟨key, hk, rfl⟩; exact ⟨hk, rfl⟩
  · rintro ⟨hk, h2⟩; exact ⟨kv.1, hk, by rw [← h2]⟩

/-- soundness + completeness of the self mode, for any key generator `vs` and symmetric `score`
    such that scoring pairs always share a key -/
theorem symdelSelf_exact (vs : S → List V) (score : S → S → Option D) (xs : List S)
    (hsym : ∀ a b, score a b = score b a)
    (hkey : ∀ a b d, score a b = some d → ∃ c, c ∈ vs a ∧ c ∈ vs b)
    (t : Trip D) : t ∈ symdelSelf vs score xs ↔ SelfPairs score xs t := by
  obtain ⟨i, j, d⟩ := t
  simp only [symdelSelf, mem_dedup, List.mem_flatMap, SelfPairs]
  constructor
  · rintro ⟨kv, hkv, ⟨x, y⟩, hxy, ht⟩
    obtain ⟨_, hpos⟩ := (mem_buildIndex vs xs kv).1 hkv
    rw [hpos, mem_pairsOf_lt (positionsWhere_pairwise _ _)] at hxy
    obtain ⟨hx, hy, hlt⟩ := hxy
    obtain ⟨a, ha, _⟩ := (mem_positionsWhere _ _ _).1 hx
    obtain ⟨b, hb, _⟩ := (mem_positionsWhere _ _ _).1 hy
    simp only [ha, hb] at ht
    cases hs : score a b with
    | none => simp [hs] at ht
    | some d' =>
      simp only [hs, List.mem_cons, Prod.mk.injEq, List.not_mem_nil, or_false] at ht
      rcases ht with ⟨rfl, rfl, rfl⟩ | ⟨rfl, rfl, rfl⟩
      · exact ⟨a, b, by simp; omega, ha, hb, hs⟩
      · exact ⟨b, a, by simp; omega, hb, ha, by rw [hsym]; exact hs⟩
  · rintro ⟨a, b, hne, ha, hb, hs⟩
    -- orient so that the smaller position comes first
    rcases Nat.lt_or_gt_of_ne hne with hlt | hgt
    · obtain ⟨c, hca, hcb⟩ := hkey a b d hs
      refine ⟨(c, positionsWhere (fun s => decide (c ∈ vs s)) xs), ?_, (i, j), ?_, ?_⟩
      · exact (mem_buildIndex vs xs _).2 ⟨⟨a, List.mem_of_getElem? ha, hca⟩, rfl⟩
      · rw [mem_pairsOf_lt (positionsWhere_pairwise _ _)]
        exact ⟨(mem_positionsWhere _ _ _).2 ⟨a, ha, by simpa using hca⟩,
               (mem_positionsWhere _ _ _).2 ⟨b, hb, by simpa using hcb⟩, hlt⟩
      · simp [ha, hb, hs]
    · have hs' : score b a = some d := by rw [hsym]; exact hs
      obtain ⟨c, hcb, hca⟩ := hkey b a d hs'
      refine ⟨(c, positionsWhere (fun s => decide (c ∈ vs s)) xs), ?_, (j, i), ?_, ?_⟩
      · exact (mem_buildIndex vs xs _).2 ⟨⟨a, List.mem_of_getElem? ha, hca⟩, rfl⟩
      · rw [mem_pairsOf_lt (positionsWhere_pairwise _ _)]
        exact ⟨(mem_positionsWhere _ _ _).2 ⟨b, hb, by simpa using hcb⟩,
               (mem_positionsWhere _ _ _).2 ⟨a, ha, by simpa using hca⟩, hgt⟩
      · simp [ha, hb, hs']

theorem symdelSelf_nodup (vs : S → List V) (score : S → S → Option D) (xs : List S) :
    (symdelSelf vs score xs).Nodup := nodup_dedup _

/-- the two-collection lookup is exact under the same key condition -/
theorem symdelLookup_exact (vs : S → List V) (score : S → S → Option D) (ref qs : List S)
    (hkey : ∀ a b d, score a b = some d → ∃ c, c ∈ vs a ∧ c ∈ vs b)
    (t : Trip D) : t ∈ symdelLookup vs score ref qs ↔ CrossPairs score ref qs t := by
  obtain ⟨i, j, d⟩ := t
  simp only [symdelLookup, List.mem_flatMap, List.mem_filterMap, mem_dedup, CrossPairs,
    List.mem_zipIdx_iff_getElem?]
  constructor
  · rintro ⟨⟨q, i'⟩, hq, j', _, ht⟩
    cases hr : ref[j']? with
    | none => simp [hr] at ht
    | some r =>
      simp only [hr, Option.map_eq_some_iff, Prod.mk.injEq] at ht
      obtain ⟨d', hs, rfl, rfl, rfl⟩ := ht
      exact ⟨q, r, hq, hr, hs⟩
  · rintro ⟨q, r, hq, hr, hs⟩
    obtain ⟨c, hcq, hcr⟩ := hkey q r d hs
    refine ⟨(q, i), hq, j, ⟨c, hcq, (mem_positionsWhere _ _ _).2 ⟨r, hr, by simpa using hcr⟩⟩, ?_⟩
    simp [hr, hs]

/-- every (query, reference) position pair is reported at most once -/
theorem symdelLookup_nodup (vs : S → List V) (score : S → S → Option D) (ref qs : List S) :
    (symdelLookup vs score ref qs).Nodup := by
  unfold symdelLookup
  -- distinct query positions give distinct first components; within a query, js is duplicate free
  have key : ∀ (l : List (S × Nat)), (l.map (·.2)).Nodup →
      (l.flatMap fun qi =>
        (dedup ((vs qi.1).flatMap fun c => positionsWhere (fun s => decide (c ∈ vs s)) ref)).filterMap
          fun j => match ref[j]? with
            | some r => (score qi.1 r).map fun d => (qi.2, j, d)
            | none => none).Nodup := by
    intro l
    induction l with
    | nil => intro _; simp
    | cons qi l ih =>
      intro hnd
      simp only [List.map_cons, List.nodup_cons] at hnd
      simp only [List.flatMap_cons]
      rw [List.nodup_append]
      refine ⟨?_, ih hnd.2, ?_⟩
      · -- one query: filterMap over a Nodup list with injective-on-j images
        refine nodup_filterMap ?_ (nodup_dedup _)
        intro j1 j2 t h1 h2
        cases hr1 : ref[j1]? with
        | none => simp [hr1] at h1
        | some r1 =>
          cases hr2 : ref[j2]? with
          | none => simp [hr2] at h2
          | some r2 =>
            simp only [hr1, hr2, Option.map_eq_some_iff] at h1 h2
            obtain ⟨d1, _, rfl⟩ := h1
            obtain ⟨d2, _, h⟩ := h2
            simp only [Prod.mk.injEq] at h
            exact h.2.1.symm
      · intro t1 h1 t2 h2 heq
        subst heq
        simp only [List.mem_filterMap] at h1
        obtain ⟨j, _, hj⟩ := h1
        simp only [List.mem_flatMap, List.mem_filterMap] at h2
        obtain ⟨qi', hq', j', _, hj'⟩ := h2
        have e1 : t1.1 = qi.2 := by
          cases hr : ref[j]? with
          | none => simp [hr] at hj
          | some r => simp only [hr, Option.map_eq_some_iff] at hj; obtain ⟨_, _, rfl⟩ := hj; rfl
        have e2 : t1.1 = qi'.2 := by
          cases hr : ref[j']? with
          | none => simp [hr] at hj'
          | some r => simp only [hr, Option.map_eq_some_iff] at hj'; obtain ⟨_, _, rfl⟩ := hj'; rfl
        apply hnd.1
        rw [← e1, e2]
        exact List.mem_map_of_mem hq'
  apply key
  rw [List.zipIdx_map_snd] <;> exact List.nodup_range' (step := 1)
end engine

end Prs
