/-
Proofs/Prob8.lean — ordered triples of pairwise distinct elements; `sumFall3` and `crossCount` bridges.
-/
import Prs.Proofs.Prob7

open Finset BigOperators
namespace Prs

section T3
variable {α : Type} [DecidableEq α]

/-- ordered triples of pairwise distinct elements of `S` -/
def T3 (S : Finset α) : Finset (α × α × α) :=
  (S ×ˢ S ×ˢ S).filter (fun t => t.1 ≠ t.2.1 ∧ t.1 ≠ t.2.2 ∧ t.2.1 ≠ t.2.2)

theorem mem_T3 (S : Finset α) (t : α × α × α) :
    t ∈ T3 S ↔ (t.1 ∈ S ∧ t.2.1 ∈ S ∧ t.2.2 ∈ S) ∧ t.1 ≠ t.2.1 ∧ t.1 ≠ t.2.2 ∧ t.2.1 ≠ t.2.2 := by
  simp [T3, mem_filter, mem_product]

theorem card_T3 (S : Finset α) : (T3 S).card = S.card * (S.card - 1) * (S.card - 2) := by
  unfold T3
  rw [Finset.card_filter, Finset.sum_product]
  have hk : ∀ i ∈ S, ∀ j ∈ S,
      (∑ k ∈ S, if (i ≠ j ∧ i ≠ k ∧ j ≠ k) then 1 else 0) = if i ≠ j then S.card - 2 else 0 := by
    intro i hi j hj
    by_cases hij : i = j
    · simp [hij]
    · rw [if_pos hij, ← Finset.card_filter]
      have : S.filter (fun k => i ≠ j ∧ i ≠ k ∧ j ≠ k) = S \ {i, j} := by
        ext k; simp [hij, eq_comm]
      rw [this, Finset.card_sdiff_of_subset (by intro a; simp; rintro (rfl | rfl) <;> assumption),
        Finset.card_pair hij]
  have hj : ∀ i ∈ S, (∑ j ∈ S, ∑ k ∈ S, if (i ≠ j ∧ i ≠ k ∧ j ≠ k) then 1 else 0)
      = (S.card - 1) * (S.card - 2) := by
    intro i hi
    rw [Finset.sum_congr rfl (hk i hi), ← Finset.sum_filter, Finset.filter_ne, sum_const,
      Finset.card_erase_of_mem hi, smul_eq_mul]
  simp only [Finset.sum_product]
  rw [Finset.sum_congr rfl hj, sum_const, smul_eq_mul, mul_assoc]

end T3

section general
variable {β : Type} [DecidableEq β]

/-- ordered triples of pairwise distinct positions holding equal values -/
def eqTriples {n : ℕ} (x : Fin n → β) : Finset (Fin n × Fin n × Fin n) :=
  (T3 (univ : Finset (Fin n))).filter (fun t => x t.1 = x t.2.1 ∧ x t.1 = x t.2.2)

theorem eqTriples_fiber {n : ℕ} (x : Fin n → β) (v : β) :
    (eqTriples x).filter (fun t => x t.1 = v) = T3 (fib x v) := by
  ext ⟨i, j, k⟩
  simp only [eqTriples, fib, mem_filter, mem_T3, mem_univ, true_and]
  constructor
  · rintro ⟨⟨hne, h1, h2⟩, hv⟩; exact ⟨⟨hv, h1 ▸ hv, h2 ▸ hv⟩, hne⟩
  · rintro ⟨⟨hi, hj, hk⟩, hne⟩; exact ⟨⟨hne, hi.trans hj.symm, hi.trans hk.symm⟩, hi⟩

theorem sumFall3_ofFn {n : ℕ} (x : Fin n → β) :
    sumFall3 (counts (List.ofFn x)) = (eqTriples x).card := by
  rw [sumFall3_counts_eq, toFinset_ofFn,
    Finset.card_eq_sum_card_fiberwise (f := fun t => x t.1) (s := eqTriples x) (t := univ.image x)
      (fun b _ => Finset.mem_image_of_mem _ (Finset.mem_univ _))]
  refine Finset.sum_congr rfl fun v _ => ?_
  rw [eqTriples_fiber, card_T3, count_ofFn]

/-- cross pairs `(i, j)` with `x i = y j` -/
def eqCross {n m : ℕ} (x : Fin n → β) (y : Fin m → β) : Finset (Fin n × Fin m) :=
  (univ : Finset (Fin n × Fin m)).filter (fun b => x b.1 = y b.2)

theorem eqCross_fiber {n m : ℕ} (x : Fin n → β) (y : Fin m → β) (v : β) :
    (eqCross x y).filter (fun b => x b.1 = v) = fib x v ×ˢ fib y v := by
  ext ⟨i, j⟩
  simp only [eqCross, fib, mem_filter, mem_product, mem_univ, true_and]
  constructor
  · rintro ⟨h, hv⟩; exact ⟨hv, h ▸ hv⟩
  · rintro ⟨hi, hj⟩; exact ⟨hi.trans hj.symm, hi⟩

theorem crossCount_ofFn {n m : ℕ} (x : Fin n → β) (y : Fin m → β) :
    crossCount (List.ofFn x) (List.ofFn y) = (eqCross x y).card := by
  rw [crossCount_eq, toFinset_ofFn,
    Finset.card_eq_sum_card_fiberwise (f := fun b => x b.1) (s := eqCross x y) (t := univ.image x)
      (fun b _ => Finset.mem_image_of_mem _ (Finset.mem_univ _))]
  refine Finset.sum_congr rfl fun v _ => ?_
  rw [eqCross_fiber, Finset.card_product, count_ofFn, count_ofFn]

/-- BRIDGE (general lists): `Σ c(c-1)` over the multiplicities = number of ordered pairs `(i, j)` of
distinct positions with `xs[i] = xs[j]` -/
theorem sumFall2_counts (xs : List β) :
    sumFall2 (counts xs)
      = ((univ : Finset (Fin xs.length × Fin xs.length)).filter
          (fun b => b.1 ≠ b.2 ∧ xs[b.1] = xs[b.2])).card := by
  have h := sumFall2_ofFn xs.get
  rw [List.ofFn_get] at h
  rw [h]; congr 1
  ext ⟨i, j⟩
  simp [eqPairs, D]

/-- BRIDGE (general lists): `Σ c(c-1)(c-2)` over the multiplicities = number of ordered triples of
pairwise distinct positions holding equal values -/
theorem sumFall3_counts (xs : List β) :
    sumFall3 (counts xs)
      = ((univ : Finset (Fin xs.length × Fin xs.length × Fin xs.length)).filter
          (fun t => (t.1 ≠ t.2.1 ∧ t.1 ≠ t.2.2 ∧ t.2.1 ≠ t.2.2) ∧
            xs[t.1] = xs[t.2.1] ∧ xs[t.1] = xs[t.2.2])).card := by
  have h := sumFall3_ofFn xs.get
  rw [List.ofFn_get] at h
  rw [h]; congr 1
  ext ⟨i, j, k⟩
  simp [eqTriples, mem_T3]

/-- BRIDGE (general lists): `crossCount` = number of cross pairs `(i, j)` with `as[i] = bs[j]` -/
theorem crossCount_counts (as bs : List β) :
    crossCount as bs
      = ((univ : Finset (Fin as.length × Fin bs.length)).filter
          (fun b => as[b.1] = bs[b.2])).card := by
  have h := crossCount_ofFn as.get bs.get
  rw [List.ofFn_get, List.ofFn_get] at h
  rw [h]; congr 1

end general

end Prs
