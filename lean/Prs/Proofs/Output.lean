/- Proofs/Output.lean — helper lemmas for the output formats, the argument validation, the
TCRdist filter and the trimming slice (Model/Output.lean). -/
import Prs.Model.Output
import Prs.Proofs.Coo
import Prs.Proofs.Engines
namespace Prs

/-! ### position pairs of a triplet list -/

/-- a duplicate-free triplet list in which the value is a function of the position pair has
duplicate-free position pairs -/
theorem pairs_nodup_of_functional {D : Type} (ts : List (Trip D)) (hnd : ts.Nodup)
    (hf : ∀ t ∈ ts, ∀ t' ∈ ts, t.1 = t'.1 → t.2.1 = t'.2.1 → t.2.2 = t'.2.2) :
    (ts.map fun t => (t.1, t.2.1)).Nodup := by
  induction ts with
  | nil => simp
  | cons t ts ih =>
    rw [List.nodup_cons] at hnd
    rw [List.map_cons, List.nodup_cons]
    refine ⟨?_, ih hnd.2 fun u hu u' hu' =>
      hf u (List.mem_cons_of_mem _ hu) u' (List.mem_cons_of_mem _ hu')⟩
    intro hm
    obtain ⟨u, hu, he⟩ := List.mem_map.1 hm
    simp only [Prod.mk.injEq] at he
    have h3 := hf u (List.mem_cons_of_mem _ hu) t List.mem_cons_self he.1 he.2
    have : u = t := by
      obtain ⟨u1, u2, u3⟩ := u
      obtain ⟨t1, t2, t3⟩ := t
      simp only at he h3
      rw [he.1, he.2, h3]
    exact hnd.1 (this ▸ hu)

/-- in a self search the reported value is determined by the two positions -/
theorem selfPairs_functional {S D : Type} (score : S → S → Option D) (xs : List S) (t t' : Trip D)
    (h : SelfPairs score xs t) (h' : SelfPairs score xs t') (h1 : t.1 = t'.1)
    (h2 : t.2.1 = t'.2.1) : t.2.2 = t'.2.2 := by
  obtain ⟨a, b, _, ha, hb, hs⟩ := h
  obtain ⟨a', b', _, ha', hb', hs'⟩ := h'
  rw [h1, ha'] at ha
  rw [h2, hb'] at hb
  cases ha; cases hb
  rw [hs] at hs'
  exact Option.some.inj hs'

/-- in a two-collection search the reported value is determined by the two positions -/
theorem crossPairs_functional {S D : Type} (score : S → S → Option D) (ref qs : List S)
    (t t' : Trip D) (h : CrossPairs score ref qs t) (h' : CrossPairs score ref qs t')
    (h1 : t.1 = t'.1) (h2 : t.2.1 = t'.2.1) : t.2.2 = t'.2.2 := by
  obtain ⟨a, b, ha, hb, hs⟩ := h
  obtain ⟨a', b', ha', hb', hs'⟩ := h'
  rw [h1, ha'] at ha
  rw [h2, hb'] at hb
  cases ha; cases hb
  rw [hs] at hs'
  exact Option.some.inj hs'

section engines
variable {α : Type} [DecidableEq α]

theorem symdelDefault_pairs_nodup (k : Nat) (xs : List (List α)) :
    ((symdelDefault k xs).map fun t => (t.1, t.2.1)).Nodup :=
  pairs_nodup_of_functional _ (symdelSelf_nodup _ _ _) fun t ht t' ht' =>
    selfPairs_functional (levScore k) xs t t' ((symdelDefault_iff k xs t).1 ht)
      ((symdelDefault_iff k xs t').1 ht')

theorem symdelTwoDefault_pairs_nodup (k : Nat) (ref qs : List (List α)) :
    ((symdelTwoDefault k ref qs).map fun t => (t.1, t.2.1)).Nodup :=
  pairs_nodup_of_functional _ (symdelLookup_nodup _ _ _ _) fun t ht t' ht' =>
    crossPairs_functional (levScore k) ref qs t t' ((symdelTwoDefault_iff k ref qs t).1 ht)
      ((symdelTwoDefault_iff k ref qs t').1 ht')
end engines

/-! ### reading the matrix back -/

theorem mem_decodeDense (M : List (List Int)) (q r : Nat) (d : Int) :
    (q, r, d) ∈ decodeDense M ↔ (M[r]?.bind (·[q]?)) = some d ∧ d ≠ 0 := by
  simp only [decodeDense, List.mem_flatMap, List.mem_filterMap, List.mem_zipIdx_iff_getElem?]
  constructor
  · rintro ⟨⟨row, r'⟩, hr, ⟨v, q'⟩, hq, h⟩
    simp only at hr hq h
    split at h
    · cases h
    · rename_i hv
      simp only [Option.some.injEq, Prod.mk.injEq] at h
      obtain ⟨rfl, rfl, rfl⟩ := h
      exact ⟨by simp [hr, hq], hv⟩
  · rintro ⟨h, hd⟩
    cases hr : M[r]? with
    | none => simp [hr] at h
    | some row =>
      simp only [hr, Option.bind_some] at h
      exact ⟨(row, r), hr, (d, q), h, by simp [hd]⟩

theorem cooDense_entry_bounds (trip : List (Trip Int)) (nRef nQry q r : Nat) (d : Int)
    (h : ((cooDense trip nRef nQry)[r]?.bind (·[q]?)) = some d) : q < nQry ∧ r < nRef := by
  obtain ⟨hlen, hrow⟩ := cooDense_shape trip nRef nQry
  cases hr : (cooDense trip nRef nQry)[r]? with
  | none => simp [hr] at h
  | some row =>
    simp only [hr, Option.bind_some] at h
    have h1 := (List.getElem?_eq_some_iff.1 hr).1
    have h2 := (List.getElem?_eq_some_iff.1 h).1
    rw [hrow row (List.mem_of_getElem? hr)] at h2
    exact ⟨h2, hlen ▸ h1⟩

theorem decodeDense_cooDense (trip : List (Trip Int)) (nRef nQry : Nat)
    (hnd : (trip.map fun t => (t.1, t.2.1)).Nodup)
    (hin : ∀ t ∈ trip, t.1 < nQry ∧ t.2.1 < nRef) (q r : Nat) (d : Int) :
    (q, r, d) ∈ decodeDense (cooDense trip nRef nQry) ↔ (q, r, d) ∈ trip ∧ d ≠ 0 := by
  rw [mem_decodeDense]
  constructor
  · rintro ⟨h, hd⟩
    obtain ⟨hq, hr⟩ := cooDense_entry_bounds trip nRef nQry q r d h
    refine ⟨?_, hd⟩
    by_cases hex : ∃ d', (q, r, d') ∈ trip
    · obtain ⟨d', hd'⟩ := hex
      rw [cooDense_entry trip nRef nQry hnd q r d' hq hr hd'] at h
      cases h; exact hd'
    · rw [cooDense_zero trip nRef nQry q r hq hr (fun d' hd' => hex ⟨d', hd'⟩)] at h
      cases h; exact absurd rfl hd
  · rintro ⟨h, hd⟩
    obtain ⟨hq, hr⟩ := hin _ h
    exact ⟨cooDense_entry trip nRef nQry hnd q r d hq hr h, hd⟩

/-! ### validation -/

theorem checkCommonInput_iff (a : ArgDesc) : checkCommonInput a = true ↔
    0 < a.nSeqs ∧ a.allStr = true ∧ a.maxEditsIsInt = true ∧ 0 < a.maxEdits ∧
    ((a.maxReturnsIsInt = true ∧ 0 < a.maxReturns) ∨ a.maxReturnsIsNone = true) ∧
    a.nCpuIsInt = true ∧ 0 < a.nCpu ∧ a.customOk = true ∧ a.mcdIsNumber = true ∧
    a.mcdNonneg = true ∧ a.outputKnown = true ∧ (a.seqs2IsNone = true ∨ a.seqs2AllStr = true) := by
  simp only [checkCommonInput, Bool.and_eq_true, Bool.or_eq_true, decide_eq_true_eq, and_assoc]

theorem checkCommonInput_false_of (a : ArgDesc) (h : ¬ (
    0 < a.nSeqs ∧ a.allStr = true ∧ a.maxEditsIsInt = true ∧ 0 < a.maxEdits ∧
    ((a.maxReturnsIsInt = true ∧ 0 < a.maxReturns) ∨ a.maxReturnsIsNone = true) ∧
    a.nCpuIsInt = true ∧ 0 < a.nCpu ∧ a.customOk = true ∧ a.mcdIsNumber = true ∧
    a.mcdNonneg = true ∧ a.outputKnown = true ∧ (a.seqs2IsNone = true ∨ a.seqs2AllStr = true))) :
    checkCommonInput a = false := by
  rw [← Bool.not_eq_true, checkCommonInput_iff]; exact h

/-! ### TCRdist filter -/

theorem mem_nnTcrdist (k : Nat) (editSeqs : List (List Char)) (vd cd : Nat → Nat → Rat)
    (maxT : Rat) (i j : Nat) (t : Rat) :
    (i, j, t) ∈ nnTcrdist k editSeqs vd cd maxT ↔
      (∃ d, (i, j, d) ∈ symdelDefault k editSeqs) ∧ t = vd i j + cd i j ∧ t ≤ maxT := by
  simp only [nnTcrdist, List.mem_filterMap]
  constructor
  · rintro ⟨⟨i', j', d⟩, hm, h⟩
    simp only at h
    split at h
    · rename_i hv
      simp only [Option.some.injEq, Prod.mk.injEq] at h
      obtain ⟨rfl, rfl, rfl⟩ := h
      exact ⟨⟨d, hm⟩, rfl, hv⟩
    · cases h
  · rintro ⟨⟨d, hm⟩, rfl, hv⟩
    exact ⟨(i, j, d), hm, by simp [hv]⟩

theorem nnTcrdist_nodup (k : Nat) (editSeqs : List (List Char)) (vd cd : Nat → Nat → Rat)
    (maxT : Rat) : (nnTcrdist k editSeqs vd cd maxT).Nodup := by
  have hp := symdelDefault_pairs_nodup k editSeqs
  have : nnTcrdist k editSeqs vd cd maxT =
      ((symdelDefault k editSeqs).map fun t => (t.1, t.2.1)).filterMap fun p =>
        if vd p.1 p.2 + cd p.1 p.2 ≤ maxT then some (p.1, p.2, vd p.1 p.2 + cd p.1 p.2)
        else none := by
    rw [List.filterMap_map]; rfl
  rw [this]
  refine List.Nodup.filterMap ?_ hp
  rintro ⟨p1, p2⟩ ⟨p1', p2'⟩ b hb hb'
  simp only [Option.mem_def] at hb hb'
  split at hb
  · split at hb'
    · cases hb; cases hb'; rfl
    · cases hb'
  · cases hb

/-! ### trimming slice -/

theorem trimSlice_length (ntrim ctrim : Nat) (s : List Char) :
    (trimSlice ntrim ctrim s).length = s.length - ntrim - ctrim := by
  simp only [trimSlice, List.length_drop, List.length_take]; omega

theorem trimSlice_decomp (ntrim ctrim : Nat) (s : List Char) (h : ntrim + ctrim ≤ s.length) :
    s = s.take ntrim ++ trimSlice ntrim ctrim s ++ s.drop (s.length - ctrim) := by
  have h1 : s.take ntrim = (s.take (s.length - ctrim)).take ntrim := by
    rw [List.take_take, Nat.min_eq_left (by omega)]
  unfold trimSlice
  rw [h1, List.take_append_drop, List.take_append_drop]

end Prs
