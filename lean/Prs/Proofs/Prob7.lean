/-
Proofs/Prob7.lean — counting bridge: `counts`/`sumFall2`/`sumFall3`/`crossCount` of the executable model
(`Model/Stats.lean`) expressed through fibre cardinalities and pair/triple counting.
-/
import Prs.Proofs.Prob6
import Prs.Proofs.Util
import Prs.Model.Stats
import Mathlib.Data.List.OfFn
import Mathlib.Data.List.FinRange
import Mathlib.Data.Fintype.Basic
import Mathlib.Algebra.BigOperators.Group.Finset.Basic

open Finset BigOperators
namespace Prs

section general
variable {β : Type} [DecidableEq β]

theorem toFinset_dedup (xs : List β) : (dedup xs).toFinset = xs.toFinset := by
  ext a; simp

/-- sum over the model's `dedup` as a finset sum -/
theorem sum_map_dedup (xs : List β) (f : β → ℕ) :
    ((dedup xs).map f).sum = ∑ v ∈ xs.toFinset, f v := by
  rw [← toFinset_dedup, List.sum_toFinset f (nodup_dedup xs)]

theorem counts_sum (xs : List β) : (counts xs).sum = xs.length := by
  unfold counts
  rw [sum_map_dedup, List.sum_toFinset_count_eq_length]

theorem sumFall2_counts_eq (xs : List β) :
    sumFall2 (counts xs) = ∑ v ∈ xs.toFinset, xs.count v * (xs.count v - 1) := by
  unfold sumFall2 counts
  rw [List.map_map, sum_map_dedup]; rfl

theorem sumFall3_counts_eq (xs : List β) :
    sumFall3 (counts xs) = ∑ v ∈ xs.toFinset, xs.count v * (xs.count v - 1) * (xs.count v - 2) := by
  unfold sumFall3 counts
  rw [List.map_map, sum_map_dedup]; rfl

theorem crossCount_eq (as bs : List β) :
    crossCount as bs = ∑ v ∈ as.toFinset, as.count v * bs.count v := by
  unfold crossCount
  rw [sum_map_dedup]

/-- fibre of `v` under `x` -/
def fib {n : ℕ} (x : Fin n → β) (v : β) : Finset (Fin n) := univ.filter (fun i => x i = v)

theorem count_ofFn {n : ℕ} (x : Fin n → β) (v : β) :
    (List.ofFn x).count v = (fib x v).card := by
  rw [List.ofFn_eq_map, List.count, List.countP_map, fib, Finset.card_def, Finset.filter_val]
  rw [← Multiset.countP_eq_card_filter]
  show _ = Multiset.countP _ (List.finRange n : Multiset (Fin n))
  rw [Multiset.coe_countP]
  congr 1

theorem toFinset_ofFn {n : ℕ} (x : Fin n → β) : (List.ofFn x).toFinset = univ.image x := by
  ext a; simp [List.mem_ofFn]

/-- ordered pairs of distinct positions holding equal values -/
def eqPairs {n : ℕ} (x : Fin n → β) : Finset (Fin n × Fin n) :=
  (D n).filter (fun b => x b.1 = x b.2)

theorem eqPairs_fiber {n : ℕ} (x : Fin n → β) (v : β) :
    (eqPairs x).filter (fun b => x b.1 = v) = (fib x v).offDiag := by
  ext ⟨i, j⟩
  simp only [eqPairs, D, fib, mem_filter, mem_offDiag, mem_univ, true_and]
  constructor
  · rintro ⟨⟨hne, he⟩, hv⟩; exact ⟨hv, he ▸ hv, hne⟩
  · rintro ⟨hi, hj, hne⟩; exact ⟨⟨hne, hi.trans hj.symm⟩, hi⟩

theorem sumFall2_ofFn {n : ℕ} (x : Fin n → β) :
    sumFall2 (counts (List.ofFn x)) = (eqPairs x).card := by
  rw [sumFall2_counts_eq, toFinset_ofFn,
    Finset.card_eq_sum_card_fiberwise (f := fun b => x b.1) (s := eqPairs x) (t := univ.image x)
      (fun b _ => Finset.mem_image_of_mem _ (Finset.mem_univ _))]
  refine Finset.sum_congr rfl fun v _ => ?_
  rw [eqPairs_fiber, Finset.offDiag_card, count_ofFn, Nat.mul_sub_one]

end general

end Prs
