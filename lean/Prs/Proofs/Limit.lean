/-
Proofs/Limit.lean — C11 helper: `max_returns` keeps the best-scoring candidates.

`takeBest le m all` = `sorted(all, key = distance)[0:m]` (stable merge sort).  `IsLimit` is the
order-free contract: the right number of results, all of them candidates (as a sub-multiset), and no
omitted candidate strictly closer than a reported one.
-/
import Prs.Model.Output
import Mathlib.Data.List.Perm.Subperm
import Mathlib.Algebra.Order.Field.Rat
import Mathlib.Tactic.Linarith

namespace Prs

/-- the contract: `r` has `min(m, |all|)` elements, all of them candidates (as a sub-multiset),
and no omitted candidate is strictly closer than a reported one -/
def IsLimit {D : Type} [DecidableEq D] (lt : D → D → Prop) (m : ℕ) (all r : List (ℕ × ℕ × D)) :
    Prop :=
  r.length = min m all.length ∧ (∀ t, r.count t ≤ all.count t) ∧
    ∀ x ∈ r, ∀ o, all.count o > r.count o → ¬ lt o.2.2 x.2.2

/-- general form: any transitive total Boolean order `le`, any `lt` incompatible with it -/
theorem takeBest_isLimit_gen {D : Type} [DecidableEq D] (le : D → D → Bool) (lt : D → D → Prop)
    (trans : ∀ a b c, le a b = true → le b c = true → le a c = true)
    (total : ∀ a b, (le a b || le b a) = true)
    (hlt : ∀ a b, le a b = true → ¬ lt b a)
    (m : ℕ) (all : List (ℕ × ℕ × D)) : IsLimit lt m all (takeBest le (some m) all) := by
  set cmp : (ℕ × ℕ × D) → (ℕ × ℕ × D) → Bool := fun a b => le a.2.2 b.2.2 with hcmp
  have hperm : (all.mergeSort cmp).Perm all := List.mergeSort_perm all cmp
  have hsorted : (all.mergeSort cmp).Pairwise (fun a b => cmp a b = true) :=
    List.pairwise_mergeSort (le := cmp) (fun a b c => trans a.2.2 b.2.2 c.2.2)
      (fun a b => total a.2.2 b.2.2) all
  show IsLimit lt m all ((all.mergeSort cmp).take m)
  refine ⟨?_, ?_, ?_⟩
  · rw [List.length_take, List.length_mergeSort]
  · intro t
    rw [← hperm.count_eq t]
    exact (List.take_sublist m _).count_le t
  · intro x hx o ho
    rw [← hperm.count_eq o] at ho
    have hsplit : (all.mergeSort cmp).count o
        = ((all.mergeSort cmp).take m).count o + ((all.mergeSort cmp).drop m).count o := by
      rw [← List.count_append, List.take_append_drop]
    have hod : 0 < ((all.mergeSort cmp).drop m).count o := by omega
    have hmem : o ∈ (all.mergeSort cmp).drop m := List.count_pos_iff.1 hod
    rw [← List.take_append_drop m (all.mergeSort cmp)] at hsorted
    have := (List.pairwise_append.1 hsorted).2.2 x hx o hmem
    exact hlt _ _ this

theorem takeBest_isLimit (m : ℕ) (all : List (ℕ × ℕ × ℚ)) :
    IsLimit (· < ·) m all (takeBest (fun a b => decide (a ≤ b)) (some m) all) := by
  apply takeBest_isLimit_gen
  · intro a b c h1 h2
    simp only [decide_eq_true_eq] at h1 h2 ⊢
    exact le_trans h1 h2
  · intro a b
    simp only [Bool.or_eq_true, decide_eq_true_eq]
    exact le_total a b
  · intro a b h
    simp only [decide_eq_true_eq] at h
    exact not_lt.2 h

/-- no limit: all candidates, sorted -/
theorem takeBest_none_perm {D : Type} (le : D → D → Bool) (all : List (ℕ × ℕ × D)) :
    (takeBest le none all).Perm all := List.mergeSort_perm _ _

/-- when the limit does not bite, the contract forces the full candidate multiset -/
theorem isLimit_all_gen {D : Type} [DecidableEq D] (lt : D → D → Prop) (m : ℕ)
    (all r : List (ℕ × ℕ × D)) (h : IsLimit lt m all r) (hm : all.length ≤ m) : r.Perm all := by
  obtain ⟨hlen, hcount, _⟩ := h
  have hsub : r.Subperm all := List.subperm_ext_iff.2 (fun x _ => hcount x)
  exact hsub.perm_of_length_le (by rw [hlen]; omega)

theorem isLimit_all (m : ℕ) (all r : List (ℕ × ℕ × ℚ)) (h : IsLimit (· < ·) m all r)
    (hm : all.length ≤ m) : r.Perm all := isLimit_all_gen _ m all r h hm

/-- the reported distances are sorted -/
theorem takeBest_sorted (m : Option ℕ) (all : List (ℕ × ℕ × ℚ)) :
    (takeBest (fun a b => decide (a ≤ b)) m all).Pairwise (fun a b => a.2.2 ≤ b.2.2) := by
  have hsorted : (all.mergeSort (fun a b => decide (a.2.2 ≤ b.2.2))).Pairwise
      (fun a b => a.2.2 ≤ b.2.2) := by
    have := List.pairwise_mergeSort (le := fun (a b : ℕ × ℕ × ℚ) => decide (a.2.2 ≤ b.2.2))
      (fun a b c h1 h2 => by
        simp only [decide_eq_true_eq] at h1 h2 ⊢; exact le_trans h1 h2)
      (fun a b => by
        simp only [Bool.or_eq_true, decide_eq_true_eq]; exact le_total _ _) all
    exact this.imp (fun h => by simpa using h)
  cases m with
  | none => exact hsorted
  | some m => exact hsorted.sublist (List.take_sublist m _)

example : IsLimit (· < ·) 2 [(0, 1, 3), (0, 2, 1), (0, 3, 2)]
    (takeBest (fun (a b : ℚ) => decide (a ≤ b)) (some 2) [(0, 1, 3), (0, 2, 1), (0, 3, 2)]) :=
  takeBest_isLimit _ _

end Prs

