/-
Proofs/FormulasStd.lean — `stdpc_n` as GENERATED from pyrepseq/stats.py (Generated/FormulasStd, written by
tools/gen_formulas.py on every run: `varpc_n` inlined, under the real power 1/2) is the real square root of the
hand-written variance model `varpcN` on count vectors.
-/
import Prs.Generated.FormulasStd
import Prs.Proofs.FormulasPc
import Mathlib.Data.Rat.Cast.CharZero
import Mathlib.Analysis.SpecialFunctions.Pow.Real

namespace Prs

/-- a count vector as NumPy sees it, over the reals -/
noncomputable def castCountsR (n : List ℕ) : List ℝ := n.map fun c : ℕ => (c : ℝ)

theorem castR_fall2 (c : ℕ) : ((c * (c - 1) : ℕ) : ℝ) = (c : ℝ) * ((c : ℝ) - 1) := by
  have h := congrArg (fun q : ℚ => (q : ℝ)) (cast_fall2 c)
  push_cast at h ⊢
  exact_mod_cast h

theorem castR_fall3 (c : ℕ) : ((c * (c - 1) * (c - 2) : ℕ) : ℝ) = (c : ℝ) * ((c : ℝ) - 1) * ((c : ℝ) - 2) := by
  have h := congrArg (fun q : ℚ => (q : ℝ)) (cast_fall3 c)
  push_cast at h ⊢
  exact_mod_cast h

theorem castCountsR_sum (n : List ℕ) : (castCountsR n).sum = ((n.sum : ℕ) : ℝ) := by
  induction n with
  | nil => simp [castCountsR]
  | cons c n ih => simp [castCountsR] at ih ⊢

theorem castCountsR_fall2 (n : List ℕ) :
    ((castCountsR n).map fun x => x * (x - 1)).sum = ((sumFall2 n : ℕ) : ℝ) := by
  induction n with
  | nil => simp [castCountsR, sumFall2]
  | cons c n ih =>
    simp only [castCountsR, sumFall2, List.map_cons, List.sum_cons, List.map_map] at ih ⊢
    rw [Nat.cast_add, castR_fall2, ← ih]

theorem castCountsR_fall3 (n : List ℕ) :
    ((castCountsR n).map fun x => x * (x - 1) * (x - 2)).sum = ((sumFall3 n : ℕ) : ℝ) := by
  induction n with
  | nil => simp [castCountsR, sumFall3]
  | cons c n ih =>
    simp only [castCountsR, sumFall3, List.map_cons, List.sum_cons, List.map_map] at ih ⊢
    rw [Nat.cast_add, castR_fall3, ← ih]

/-- the variance model, seen as a real number, term by term -/
theorem varpcN_cast (n : List ℕ) :
    ((varpcN n : ℚ) : ℝ) =
      (let N : ℝ := ((n.sum : ℕ) : ℝ)
       let p2 := ((sumFall2 n : ℕ) : ℝ) / (N * (N - 1))
       let p3 := ((sumFall3 n : ℕ) : ℝ) / (N * (N - 1) * (N - 2))
       let beta := 2 * (2 * N - 3) / ((N - 2) * (N - 3))
       4 * (N - 2) / (N * (N - 1)) * (1 + beta) * p3 - beta * p2 ^ 2 + 2 / (N * (N - 1)) * (1 + beta) * p2) := by
  simp only [varpcN, pcN, p3hat]
  generalize n.sum = N
  generalize sumFall2 n = a
  generalize sumFall3 n = b
  push_cast
  rfl

/-- `stdpc_n(n)` of the source is the square root of the variance estimate `varpc_n(n)` for the same counts
(`Real.sqrt` of a negative number is 0 while NumPy gives nan: the estimate can be negative for small samples;
C06_var_unbiased is about its expectation) -/
theorem gen_stdpc_n_eq (n : List ℕ) : Generated.stdpc_n (castCountsR n) = Real.sqrt ((varpcN n : ℚ) : ℝ) := by
  have e1 := castCountsR_sum n
  have e2 := castCountsR_fall2 n
  have e3 := castCountsR_fall3 n
  rw [varpcN_cast]
  simp only [Generated.stdpc_n, ← Real.sqrt_eq_rpow]
  congr 1
  ring_nf at e2 e3 ⊢
  rw [e2, e3, e1]

/-- `stdpc(array)` of the source (`np.unique(return_counts=True)`, then `stdpc_n`) is the square root of the variance estimate
of the counts of the sample -/
theorem gen_stdpc_eq {β : Type} [DecidableEq β] (xs : List β) :
    Generated.stdpc xs = Real.sqrt ((varpcN (counts xs) : ℚ) : ℝ) := by
  have e1 := castCountsR_sum (counts xs)
  have e2 := castCountsR_fall2 (counts xs)
  have e3 := castCountsR_fall3 (counts xs)
  rw [varpcN_cast]
  simp only [Generated.stdpc, castCountsR, ← Real.sqrt_eq_rpow] at e1 e2 e3 ⊢
  congr 1
  ring_nf at e2 e3 ⊢
  rw [e2, e3, e1]

end Prs
