import Prs.Proofs.Prob4
import Mathlib.Tactic.FieldSimp
import Mathlib.Algebra.Order.Field.Rat

open Finset BigOperators
namespace Prs
variable {N K : ℕ}

/-- number of ordered coinciding pairs of distinct positions, `= Σ_k n_k (n_k - 1)` -/
def C (x : Fin N → Fin K) : ℚ := ∑ b ∈ D N, (if x b.1 = x b.2 then 1 else 0)

theorem first_moment (p : Fin K → ℚ) (hp : ∑ v, p v = 1) :
    ∑ x : Fin N → Fin K, w p x * C x = (N * (N - 1) : ℚ) * Pm p 2 := by
  unfold C
  simp only [Finset.mul_sum]
  rw [Finset.sum_comm]
  have : ∀ b ∈ D N, ∑ x : Fin N → Fin K, w p x * (if x b.1 = x b.2 then 1 else 0) = Pm p 2 := by
    intro b hb
    have hne : b.1 ≠ b.2 := by simpa [D] using hb
    exact pair_coincidence p hp b.1 b.2 hne
  rw [Finset.sum_congr rfl this]
  simp only [sum_const, nsmul_eq_mul, D, offDiag_card, card_univ, Fintype.card_fin]
  rcases N with _ | n
  · simp
  · push_cast [Nat.cast_sub (Nat.le_mul_self (n+1))]; ring

/-- inner sum over the second pair, for a fixed first pair `(i,j)` -/
theorem inner_sum (p : Fin K → ℚ) (i j : Fin N) (hij : i ≠ j) :
    ∑ b ∈ D N, (if Disjoint ({i, j} : Finset (Fin N)) {b.1, b.2}
        then Pm p 2 * Pm p 2 else Pm p (({i, j} : Finset (Fin N)) ∪ {b.1, b.2}).card)
      = ((N:ℚ) - 2) * (N - 3) * (Pm p 2 * Pm p 2) + 2 * Pm p 2 + 4 * (N - 2) * Pm p 3 := by
  have hN : 2 ≤ N := by
    have := Fintype.card_le_of_injective (fun b : Bool => if b then i else j)
      (by intro a b; cases a <;> cases b <;> simp [hij, hij.symm])
    simpa using this
  rw [← Finset.sum_filter_add_sum_filter_not (D N)
        (fun b => Disjoint ({i, j} : Finset (Fin N)) {b.1, b.2})]
  have h1 : ∑ b ∈ (D N).filter (fun b => Disjoint ({i, j} : Finset (Fin N)) {b.1, b.2}),
      (if Disjoint ({i, j} : Finset (Fin N)) {b.1, b.2}
        then Pm p 2 * Pm p 2 else Pm p (({i, j} : Finset (Fin N)) ∪ {b.1, b.2}).card)
      = ((N:ℚ) - 2) * (N - 3) * (Pm p 2 * Pm p 2) := by
    rw [Finset.sum_congr rfl (fun b hb => if_pos (Finset.mem_filter.mp hb).2)]
    rw [sum_const, card_disj i j hij, nsmul_eq_mul]
    obtain ⟨m, rfl⟩ : ∃ m, N = m + 2 := ⟨N - 2, by omega⟩
    simp only [Nat.add_sub_cancel]
    rcases m with _ | m
    · simp
    · push_cast [Nat.cast_sub (Nat.le_mul_self (m+1))]; ring
  have h2 : ∑ b ∈ (D N).filter (fun b => ¬ Disjoint ({i, j} : Finset (Fin N)) {b.1, b.2}),
      (if Disjoint ({i, j} : Finset (Fin N)) {b.1, b.2}
        then Pm p 2 * Pm p 2 else Pm p (({i, j} : Finset (Fin N)) ∪ {b.1, b.2}).card)
      = 2 * Pm p 2 + 4 * ((N:ℚ) - 2) * Pm p 3 := by
    set F := (D N).filter (fun b => ¬ Disjoint ({i, j} : Finset (Fin N)) {b.1, b.2}) with hF
    set T : Finset (Fin N × Fin N) := {(i, j), (j, i)} with hT
    have hTF : T ⊆ F := by
      intro b hb
      simp only [hT, mem_insert, mem_singleton] at hb
      rcases hb with rfl | rfl <;>
        simp [hF, D, hij, hij.symm, Finset.disjoint_left]
    have hTcard : T.card = 2 := Finset.card_pair (by simp [hij])
    have hFcard : (F.card : ℚ) = 4 * N - 6 := by
      have hsum := Finset.card_filter_add_card_filter_not (s := D N)
        (fun b => Disjoint ({i, j} : Finset (Fin N)) {b.1, b.2})
      rw [card_disj i j hij] at hsum
      have hD : (D N).card = N * N - N := by simp [D, offDiag_card]
      rw [hD] at hsum
      obtain ⟨m, rfl⟩ : ∃ m, N = m + 2 := ⟨N - 2, by omega⟩
      simp only [Nat.add_sub_cancel] at hsum
      have e1 : (m + 2) * (m + 2) - (m + 2) = m * m + 3 * m + 2 := by
        have : (m + 2) * (m + 2) = m * m + 3 * m + 2 + (m + 2) := by ring
        omega
      have e2 : m * m - m + F.card = m * m + 3 * m + 2 := by rw [← e1]; exact hsum
      have e3 : m ≤ m * m := Nat.le_mul_self m
      have : F.card = 4 * m + 2 := by omega
      rw [this]; push_cast; ring
    have hval : ∀ b ∈ F, Pm p (({i, j} : Finset (Fin N)) ∪ {b.1, b.2}).card
        = Pm p 3 + (if b ∈ T then Pm p 2 - Pm p 3 else 0) := by
      intro b hb
      obtain ⟨hbD, hbd⟩ := Finset.mem_filter.mp hb
      have hne : b.1 ≠ b.2 := by simpa [D] using hbD
      rw [card_union_overlap i j b.1 b.2 hij hne hbd]
      by_cases h : b ∈ T
      · have : (b.1, b.2) = (i, j) ∨ (b.1, b.2) = (j, i) := by
          simpa [hT] using h
        rw [if_pos this, if_pos h]; ring
      · have : ¬ ((b.1, b.2) = (i, j) ∨ (b.1, b.2) = (j, i)) := by
          simpa [hT] using h
        rw [if_neg this, if_neg h]; ring
    have hgoal : ∑ b ∈ F, (if Disjoint ({i, j} : Finset (Fin N)) {b.1, b.2}
        then Pm p 2 * Pm p 2 else Pm p (({i, j} : Finset (Fin N)) ∪ {b.1, b.2}).card)
        = ∑ b ∈ F, (Pm p 3 + (if b ∈ T then Pm p 2 - Pm p 3 else 0)) :=
      Finset.sum_congr rfl (fun b hb => by
        rw [if_neg (Finset.mem_filter.mp hb).2]; exact hval b hb)
    rw [hgoal]
    rw [Finset.sum_add_distrib, sum_const, nsmul_eq_mul, hFcard, Finset.sum_ite_mem,
      Finset.inter_eq_right.mpr hTF, sum_const, hTcard]
    simp only [nsmul_eq_mul]; push_cast; ring
  rw [h1, h2]; ring
end Prs
