/- Proofs/Bfs.lean — `bfsBall` (model of `_generate_neighbors`) computes exactly the ball of the
neighbour graph with least path lengths; Levenshtein and Hamming instances (core Lean only). -/
import Prs.Proofs.OneEdit
namespace Prs

/-- path of exactly n steps in the neighbour graph -/
inductive Reach {S : Type} (nb : S → List S) : Nat → S → S → Prop
  | refl (q : S) : Reach nb 0 q q
  | step {n : Nat} {q y z : S} : Reach nb n q y → z ∈ nb y → Reach nb (n+1) q z

section reach
variable {S : Type} {nb : S → List S}

theorem Reach.zero_iff {q y : S} : Reach nb 0 q y ↔ q = y := by
  constructor
  · intro h; cases h; rfl
  · rintro rfl; exact Reach.refl _

theorem Reach.succ_iff {n : Nat} {q z : S} :
    Reach nb (n+1) q z ↔ ∃ y, Reach nb n q y ∧ z ∈ nb y := by
  constructor
  · intro h; cases h with | step h1 h2 => exact ⟨_, h1, h2⟩
  · rintro ⟨y, h1, h2⟩; exact Reach.step h1 h2

theorem Reach.trans {m n : Nat} {a b c : S} (h1 : Reach nb m a b) (h2 : Reach nb n b c) :
    Reach nb (m+n) a c := by
  induction h2 with
  | refl => exact h1
  | step _ hz ih => exact Reach.step (ih h1) hz

theorem Reach.one {a b : S} (h : b ∈ nb a) : Reach nb 1 a b := Reach.step (Reach.refl a) h

/-- every reachable vertex has a least path length -/
theorem Reach.exists_least {n : Nat} {q y : S} (h : Reach nb n q y) :
    ∃ d, d ≤ n ∧ Reach nb d q y ∧ ∀ m, m < d → ¬ Reach nb m q y := by
  induction n using Nat.strongRecOn with
  | _ n ih =>
    by_cases hex : ∃ m, m < n ∧ Reach nb m q y
    · obtain ⟨m, hm, hr⟩ := hex
      obtain ⟨d, hd, h1, h2⟩ := ih m hm hr
      exact ⟨d, by omega, h1, h2⟩
    · exact ⟨n, Nat.le_refl _, h, fun m hm hr => hex ⟨m, hm, hr⟩⟩
end reach

/-! ### generic BFS -/
section bfs
variable {S : Type} [DecidableEq S]

theorem insertIfAbsent_eq (acc : List (S × Nat)) (t : S) (e : Nat) :
    insertIfAbsent acc t e = if t ∈ acc.map (·.1) then acc else acc ++ [(t, e)] := by
  unfold insertIfAbsent
  have : (acc.any (fun p => p.1 == t) = true) ↔ t ∈ acc.map (·.1) := by
    simp [List.any_eq_true]
  by_cases h : t ∈ acc.map (·.1)
  · rw [if_pos h, if_pos (this.2 h)]
  · rw [if_neg h, if_neg (fun h' => h (this.1 h'))]

/-- one run of `insertIfAbsent` over a list of candidate keys -/
theorem foldl_insert (e : Nat) (ts : List S) (acc : List (S × Nat))
    (hnd : (acc.map (·.1)).Nodup) :
    ((ts.foldl (fun acc t => insertIfAbsent acc t e) acc).map (·.1)).Nodup ∧
    ∀ y d, (y, d) ∈ ts.foldl (fun acc t => insertIfAbsent acc t e) acc ↔
      (y, d) ∈ acc ∨ (d = e ∧ y ∈ ts ∧ y ∉ acc.map (·.1)) := by
  induction ts generalizing acc with
  | nil => simp [hnd]
  | cons t ts ih =>
    simp only [List.foldl_cons]
    by_cases ht : t ∈ acc.map (·.1)
    · rw [insertIfAbsent_eq, if_pos ht]
      obtain ⟨h1, h2⟩ := ih acc hnd
      refine ⟨h1, fun y d => ?_⟩
      rw [h2]
      constructor
      · rintro (h | ⟨hd, hy, hn⟩)
        · exact Or.inl h
        · exact Or.inr ⟨hd, List.mem_cons_of_mem _ hy, hn⟩
      · rintro (h | ⟨hd, hy, hn⟩)
        · exact Or.inl h
        · rcases List.mem_cons.1 hy with rfl | hy
          · exact absurd ht hn
          · exact Or.inr ⟨hd, hy, hn⟩
    · rw [insertIfAbsent_eq, if_neg ht]
      have hnd' : ((acc ++ [(t, e)]).map (·.1)).Nodup := by
        rw [List.map_append, List.nodup_append]
        refine ⟨hnd, by simp, ?_⟩
        intro a ha b hb hab
        simp at hb
        subst hb; subst hab
        exact ht ha
      obtain ⟨h1, h2⟩ := ih _ hnd'
      refine ⟨h1, fun y d => ?_⟩
      rw [h2]
      simp only [List.mem_append, Prod.mk.injEq, List.map_append,
        List.map_cons, List.map_nil, List.mem_cons, not_or, List.not_mem_nil, or_false]
      constructor
      · rintro ((h | ⟨rfl, rfl⟩) | ⟨hd, hy, hn, hne⟩)
        · exact Or.inl h
        · exact Or.inr ⟨rfl, Or.inl rfl, ht⟩
        · exact Or.inr ⟨hd, Or.inr hy, hn⟩
      · rintro (h | ⟨hd, hy | hy, hn⟩)
        · exact Or.inl (Or.inl h)
        · exact Or.inl (Or.inr ⟨hy, hd⟩)
        · by_cases hyt : y = t
          · exact Or.inl (Or.inr ⟨hyt, hd⟩)
          · exact Or.inr ⟨hd, hy, hn, hyt⟩

theorem bfsLevel_eq (nb : S → List S) (e : Nat) (snap acc : List (S × Nat)) :
    bfsLevel nb e snap acc =
      (snap.flatMap (fun p => nb p.1)).foldl (fun acc t => insertIfAbsent acc t e) acc := by
  unfold bfsLevel
  induction snap generalizing acc with
  | nil => rfl
  | cons p snap ih => simp only [List.foldl_cons, List.flatMap_cons, List.foldl_append, ih]

/-- the entries are exactly the vertices at least path length `≤ e` -/
def BfsInv (nb : S → List S) (q : S) (e : Nat) (ans : List (S × Nat)) : Prop :=
  (ans.map (·.1)).Nodup ∧
  ∀ y d, (y, d) ∈ ans ↔ d ≤ e ∧ Reach nb d q y ∧ ∀ m, m < d → ¬ Reach nb m q y

omit [DecidableEq S] in
theorem BfsInv.mem_keys {nb : S → List S} {q : S} {e : Nat} {ans : List (S × Nat)}
    (h : BfsInv nb q e ans) (y : S) :
    y ∈ ans.map (·.1) ↔ ∃ m, m ≤ e ∧ Reach nb m q y := by
  simp only [List.mem_map]
  constructor
  · rintro ⟨⟨y', d⟩, hm, rfl⟩
    obtain ⟨h1, h2, _⟩ := (h.2 y' d).1 hm
    exact ⟨d, h1, h2⟩
  · rintro ⟨m, hm, hr⟩
    obtain ⟨d, hd, h1, h2⟩ := hr.exists_least
    exact ⟨(y, d), (h.2 y d).2 ⟨by omega, h1, h2⟩, rfl⟩

omit [DecidableEq S] in
theorem BfsInv.init (nb : S → List S) (q : S) : BfsInv nb q 0 [(q, 0)] := by
  refine ⟨by simp, fun y d => ?_⟩
  simp only [List.mem_singleton, Prod.mk.injEq]
  constructor
  · rintro ⟨rfl, rfl⟩
    exact ⟨Nat.le_refl _, Reach.refl _, fun m hm => by omega⟩
  · rintro ⟨hd, hr, _⟩
    have : d = 0 := by omega
    subst this
    exact ⟨(Reach.zero_iff.1 hr).symm, rfl⟩

theorem BfsInv.level {nb : S → List S} {q : S} {e : Nat} {ans : List (S × Nat)}
    (h : BfsInv nb q e ans) : BfsInv nb q (e+1) (bfsLevel nb (e+1) ans ans) := by
  rw [bfsLevel_eq]
  obtain ⟨h1, h2⟩ := foldl_insert (e+1) (ans.flatMap (fun p => nb p.1)) ans h.1
  refine ⟨h1, fun y d => ?_⟩
  rw [h2, h.mem_keys, h.2]
  constructor
  · rintro (⟨hd, hr, hl⟩ | ⟨rfl, hy, hn⟩)
    · exact ⟨by omega, hr, hl⟩
    · simp only [List.mem_flatMap] at hy
      obtain ⟨⟨x, d'⟩, hx, hy⟩ := hy
      obtain ⟨hd', hr', _⟩ := (h.2 x d').1 hx
      have hry : Reach nb (d'+1) q y := Reach.step hr' hy
      have hlt : ∀ m, m < e+1 → ¬ Reach nb m q y :=
        fun m hm hr => hn ⟨m, by omega, hr⟩
      have : d' = e := by
        by_cases hde : d' = e
        · exact hde
        · exact absurd hry (hlt _ (by omega))
      subst this
      exact ⟨Nat.le_refl _, hry, hlt⟩
  · rintro ⟨hd, hr, hl⟩
    by_cases hde : d ≤ e
    · exact Or.inl ⟨hde, hr, hl⟩
    · have : d = e + 1 := by omega
      subst this
      refine Or.inr ⟨rfl, ?_, ?_⟩
      · obtain ⟨x, hx, hy⟩ := Reach.succ_iff.1 hr
        obtain ⟨d', hd', h1', h2'⟩ := hx.exists_least
        simp only [List.mem_flatMap]
        exact ⟨(x, d'), (h.2 x d').2 ⟨hd', h1', h2'⟩, hy⟩
      · rintro ⟨m, hm, hrm⟩
        exact hl m (by omega) hrm

theorem BfsInv.from {nb : S → List S} {q : S} (n : Nat) {e : Nat} {ans : List (S × Nat)}
    (h : BfsInv nb q e ans) : BfsInv nb q (e+n) (bfsFrom nb n (e+1) ans) := by
  induction n generalizing e ans with
  | zero => exact h
  | succ n ih =>
    have := ih h.level
    rw [show e + (n+1) = e + 1 + n by omega]
    exact this

theorem bfsBall_inv (nb : S → List S) (q : S) (k : Nat) : BfsInv nb q k (bfsBall nb q k) := by
  have := BfsInv.from k (BfsInv.init nb q)
  rw [Nat.zero_add] at this
  exact this

theorem bfsBall_keys_nodup (nb : S → List S) (q : S) (k : Nat) :
    ((bfsBall nb q k).map (·.1)).Nodup := (bfsBall_inv nb q k).1

theorem mem_bfsBall (nb : S → List S) (q : S) (k : Nat) (y : S) (e : Nat) :
    (y, e) ∈ bfsBall nb q k ↔ e ≤ k ∧ Reach nb e q y ∧ ∀ m, m < e → ¬ Reach nb m q y :=
  (bfsBall_inv nb q k).2 y e

theorem mem_bfsBall_keys (nb : S → List S) (q : S) (k : Nat) (y : S) :
    y ∈ (bfsBall nb q k).map (·.1) ↔ ∃ m, m ≤ k ∧ Reach nb m q y :=
  (bfsBall_inv nb q k).mem_keys y
end bfs

/-! ### Levenshtein instance -/
section levinst
variable {α : Type} [DecidableEq α]

theorem reach_lev_cons (A : List α) (c : α) {n : Nat} {s t : List α}
    (h : Reach (levNeighbors A) n s t) : Reach (levNeighbors A) n (c :: s) (c :: t) := by
  induction h with
  | refl => exact Reach.refl _
  | step _ hz ih =>
    exact Reach.step ih ((mem_levNeighbors A _ _).2 (Step.cons c ((mem_levNeighbors A _ _).1 hz)))

theorem reach_lev_Ed (A : List α) {n : Nat} {s t : List α}
    (h : Reach (levNeighbors A) n s t) : ∃ m, m ≤ n ∧ Ed m s t := by
  induction h with
  | refl => exact ⟨0, Nat.le_refl _, Ed_refl _⟩
  | step _ hz ih =>
    obtain ⟨m, hm, hE⟩ := ih
    obtain ⟨p, hp, hE'⟩ := Ed_trans (step_Ed A ((mem_levNeighbors A _ _).1 hz)) hE
    exact ⟨p, by omega, hE'⟩

theorem reach_lev_le (A : List α) {n : Nat} {s t : List α}
    (h : Reach (levNeighbors A) n s t) : lev s t ≤ n :=
  (lev_le_iff s t n).2 (reach_lev_Ed A h)

theorem Ed_reach_lev (A : List α) {n : Nat} {a b : List α} (h : Ed n a b) :
    (∀ c ∈ b, c ∈ A) → ∃ m, m ≤ n ∧ Reach (levNeighbors A) m a b := by
  induction h with
  | nil => intro _; exact ⟨0, Nat.le_refl _, Reach.refl _⟩
  | keep c _ ih =>
    intro hA
    obtain ⟨m, hm, hr⟩ := ih (fun x hx => hA x (List.mem_cons_of_mem _ hx))
    exact ⟨m, hm, reach_lev_cons A c hr⟩
  | @sub n a b x y _ ih =>
    intro hA
    obtain ⟨m, hm, hr⟩ := ih (fun z hz => hA z (List.mem_cons_of_mem _ hz))
    have hr' := reach_lev_cons A x hr
    by_cases hxy : x = y
    · subst hxy; exact ⟨m, by omega, hr'⟩
    · refine ⟨m+1, by omega, Reach.step hr' ((mem_levNeighbors A _ _).2 ?_)⟩
      exact Step.sub x y b (hA y (by simp)) (fun h => hxy h.symm)
  | @del n a b x _ ih =>
    intro hA
    obtain ⟨m, hm, hr⟩ := ih hA
    have h1 : Reach (levNeighbors A) 1 (x :: a) a :=
      Reach.one ((mem_levNeighbors A _ _).2 (Step.del x a))
    exact ⟨1 + m, by omega, h1.trans hr⟩
  | @ins n a b y _ ih =>
    intro hA
    obtain ⟨m, hm, hr⟩ := ih (fun z hz => hA z (List.mem_cons_of_mem _ hz))
    exact ⟨m+1, by omega,
      Reach.step hr ((mem_levNeighbors A _ _).2 (Step.ins y b (hA y (by simp))))⟩

theorem lev_reach (A : List α) (q y : List α) (hy : ∀ c ∈ y, c ∈ A) :
    ∃ m, m ≤ lev q y ∧ Reach (levNeighbors A) m q y :=
  Ed_reach_lev A (lev_Ed q y) hy

theorem bfsBall_lev_keys (A : List α) (q y : List α) (k : Nat) (hy : ∀ c ∈ y, c ∈ A) :
    y ∈ (bfsBall (levNeighbors A) q k).map (·.1) ↔ lev q y ≤ k := by
  rw [mem_bfsBall_keys]
  constructor
  · rintro ⟨m, hm, hr⟩
    exact Nat.le_trans (reach_lev_le A hr) hm
  · intro h
    obtain ⟨m, hm, hr⟩ := lev_reach A q y hy
    exact ⟨m, by omega, hr⟩

theorem bfsBall_lev_value (A : List α) (q y : List α) (k e : Nat) (hy : ∀ c ∈ y, c ∈ A)
    (h : (y, e) ∈ bfsBall (levNeighbors A) q k) : e = lev q y := by
  obtain ⟨_, hr, hl⟩ := (mem_bfsBall _ q k y e).1 h
  have h1 := reach_lev_le A hr
  obtain ⟨m, hm, hrm⟩ := lev_reach A q y hy
  have h2 : ¬ m < e := fun hlt => hl m hlt hrm
  omega

/-- full characterisation of the Levenshtein ball -/
theorem mem_bfsBall_lev (A : List α) (q y : List α) (k e : Nat) (hy : ∀ c ∈ y, c ∈ A) :
    (y, e) ∈ bfsBall (levNeighbors A) q k ↔ e = lev q y ∧ lev q y ≤ k := by
  constructor
  · intro h
    have he := bfsBall_lev_value A q y k e hy h
    exact ⟨he, he ▸ ((mem_bfsBall _ q k y e).1 h).1⟩
  · rintro ⟨rfl, hk⟩
    obtain ⟨⟨y', e'⟩, hm, rfl⟩ := List.mem_map.1 ((bfsBall_lev_keys A q _ k hy).2 hk)
    have := bfsBall_lev_value A q y' k e' hy hm
    subst this; exact hm
end levinst

/-! ### Hamming instance -/
section haminst
variable {α : Type} [DecidableEq α]

theorem mem_subsAux_cons (A : List α) (c : α) (s t : List α) :
    t ∈ subsAux A (c :: s) ↔
      (∃ d, d ∈ A ∧ d ≠ c ∧ t = d :: s) ∨ (∃ u, u ∈ subsAux A s ∧ t = c :: u) := by
  simp only [subsAux, List.mem_append, List.mem_map, List.mem_filter]
  constructor
  · rintro (⟨d, ⟨hd, hne⟩, rfl⟩ | ⟨u, hu, rfl⟩)
    · exact Or.inl ⟨d, hd, by simpa using hne, rfl⟩
    · exact Or.inr ⟨u, hu, rfl⟩
  · rintro (⟨d, hd, hne, rfl⟩ | ⟨u, hu, rfl⟩)
    · exact Or.inl ⟨d, ⟨hd, by simpa using hne⟩, rfl⟩
    · exact Or.inr ⟨u, hu, rfl⟩

theorem subsAux_mism (A : List α) (s t : List α) (h : t ∈ subsAux A s) :
    s.length = t.length ∧ ∀ q, mismatches q t ≤ mismatches q s + 1 := by
  induction s generalizing t with
  | nil => simp [subsAux] at h
  | cons c s ih =>
    rcases (mem_subsAux_cons A c s t).1 h with ⟨d, _, _, rfl⟩ | ⟨u, hu, rfl⟩
    · refine ⟨by simp, fun q => ?_⟩
      cases q with
      | nil => simp [mismatches]
      | cons x q => simp only [mismatches]; split <;> split <;> omega
    · obtain ⟨h1, h2⟩ := ih u hu
      refine ⟨by simp [h1], fun q => ?_⟩
      cases q with
      | nil => simp [mismatches]
      | cons x q => simp only [mismatches]; have := h2 q; omega

theorem reach_ham (A : List α) {n : Nat} {s t : List α}
    (h : Reach (hamNeighbors A) n s t) : s.length = t.length ∧ mismatches s t ≤ n := by
  induction h with
  | refl q =>
    refine ⟨rfl, ?_⟩
    induction q with
    | nil => simp [mismatches]
    | cons c q ih => simpa [mismatches] using ih
  | step _ hz ih =>
    obtain ⟨h1, h2⟩ := subsAux_mism A _ _ hz
    exact ⟨ih.1.trans h1, Nat.le_trans (h2 _) (by omega)⟩

theorem reach_ham_cons (A : List α) (c : α) {n : Nat} {s t : List α}
    (h : Reach (hamNeighbors A) n s t) : Reach (hamNeighbors A) n (c :: s) (c :: t) := by
  induction h with
  | refl => exact Reach.refl _
  | step _ hz ih =>
    exact Reach.step ih ((mem_subsAux_cons A c _ _).2 (Or.inr ⟨_, hz, rfl⟩))

theorem ham_reach (A : List α) (q y : List α) (hlen : q.length = y.length)
    (hy : ∀ c ∈ y, c ∈ A) : Reach (hamNeighbors A) (mismatches q y) q y := by
  induction q generalizing y with
  | nil =>
    cases y with
    | nil => exact Reach.refl _
    | cons c y => simp at hlen
  | cons x q ih =>
    cases y with
    | nil => simp at hlen
    | cons c y =>
      have hr := reach_ham_cons A x
        (ih y (by simpa using hlen) (fun z hz => hy z (List.mem_cons_of_mem _ hz)))
      by_cases hxc : x = c
      · subst hxc
        simpa [mismatches] using hr
      · have hs : (c :: y) ∈ hamNeighbors A (x :: y) :=
          (mem_subsAux_cons A x y _).2 (Or.inl ⟨c, hy c (by simp), fun h => hxc h.symm, rfl⟩)
        have := Reach.step hr hs
        simpa [mismatches, hxc, Nat.add_comm] using this

theorem bfsBall_ham_keys (A : List α) (q y : List α) (k : Nat) (hy : ∀ c ∈ y, c ∈ A) :
    y ∈ (bfsBall (hamNeighbors A) q k).map (·.1) ↔ ∃ d, ham q y = some d ∧ d ≤ k := by
  rw [mem_bfsBall_keys]
  constructor
  · rintro ⟨m, hm, hr⟩
    obtain ⟨h1, h2⟩ := reach_ham A hr
    exact ⟨mismatches q y, by simp [ham, h1], by omega⟩
  · rintro ⟨d, hd, hk⟩
    unfold ham at hd
    split at hd
    · next hlen =>
      injection hd with hd
      subst hd
      exact ⟨_, hk, ham_reach A q y hlen hy⟩
    · cases hd

theorem bfsBall_ham_value (A : List α) (q y : List α) (k e : Nat) (hy : ∀ c ∈ y, c ∈ A)
    (h : (y, e) ∈ bfsBall (hamNeighbors A) q k) : ham q y = some e := by
  obtain ⟨_, hr, hl⟩ := (mem_bfsBall _ q k y e).1 h
  obtain ⟨h1, h2⟩ := reach_ham A hr
  have h3 : ¬ mismatches q y < e := fun hlt => hl _ hlt (ham_reach A q y h1 hy)
  have : mismatches q y = e := by omega
  simp [ham, h1, this]
end haminst

end Prs

