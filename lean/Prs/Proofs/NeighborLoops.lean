/-
Proofs/NeighborLoops.lean — the loop functions GENERATED from pyrepseq/distance.py (Generated/NeighborLoops,
written by tools/gen_loops.py on every run) are the hand-written models of Model/Search and Model/Neighbors
that the C12 theorems are about.
-/
import Prs.Generated.NeighborLoops
import Prs.Model.Neighbors

namespace Prs
variable {α : Type} [DecidableEq α] [Inhabited α]

/-! ### Python built-ins at natural positions -/
namespace Py

theorem range_zero_nat (n : Nat) : Py.range (0 : Int) (n : Int) = (List.range n).map fun k : Nat => (k : Int) := by
  simp [Py.range]

theorem range_zero_nat_succ (n : Nat) :
    Py.range (0 : Int) ((n : Int) + 1) = (List.range (n + 1)).map fun k : Nat => (k : Int) := by
  simp [Py.range]

omit [DecidableEq α] in
theorem get_nat (x : List α) (i : Nat) : Py.get x (i : Int) = x.getD i default := by
  have h : ¬ ((i : Int) < 0) := by omega
  simp [Py.get, Py.norm, h]

omit [DecidableEq α] in
theorem get_nat_pred (x : List α) (i : Nat) : Py.get x (((i + 1 : Nat) : Int) - 1) = x.getD i default := by
  have : (((i + 1 : Nat) : Int) - 1) = (i : Int) := by omega
  rw [this, get_nat]

omit [DecidableEq α] [Inhabited α] in
theorem sliceTo_nat (x : List α) (i : Nat) : Py.sliceTo x (i : Int) = x.take i := by
  have h : ¬ ((i : Int) < 0) := by omega
  simp [Py.sliceTo, Py.norm, h]

omit [DecidableEq α] [Inhabited α] in
theorem sliceFrom_nat (x : List α) (i : Nat) : Py.sliceFrom x (i : Int) = x.drop i := by
  have h : ¬ ((i : Int) < 0) := by omega
  simp [Py.sliceFrom, Py.norm, h]

omit [DecidableEq α] [Inhabited α] in
theorem sliceFrom_nat_succ (x : List α) (i : Nat) : Py.sliceFrom x ((i : Int) + 1) = x.drop (i + 1) := by
  have : ((i : Int) + 1) = ((i + 1 : Nat) : Int) := by omega
  rw [this, sliceFrom_nat]

end Py

/-! ### list helpers -/

theorem flatMap_congr' {β γ : Type} {l : List β} {f g : β → List γ} (h : ∀ a ∈ l, f a = g a) :
    l.flatMap f = l.flatMap g := by
  induction l with
  | nil => rfl
  | cons a l ih =>
    simp only [List.flatMap_cons]
    rw [h a (by simp), ih (fun b hb => h b (by simp [hb]))]

omit [DecidableEq α] [Inhabited α] in
theorem flatMap_ite_eq_filter_map {β : Type} (A : List α) (p : α → Bool) (f : α → β) :
    (A.flatMap fun a => if p a then [] else [f a]) = (A.filter fun a => !p a).map f := by
  induction A with
  | nil => rfl
  | cons a A ih =>
    simp only [List.flatMap_cons, ih, List.filter_cons]
    cases p a <;> simp

theorem map_ite_nil {β γ : Type} (f : β → γ) (b : Prop) [Decidable b] (v : β) :
    List.map f (if b then [] else [v]) = if b then [] else [f v] := by
  split <;> rfl

/-! ### the three loops of `levenshtein_neighbors` on natural positions -/

/-- skip condition of the deletion loop -/
def delC (prev : Option α) (x : List α) : Nat → Bool
  | 0 => decide (prev = x[0]?)
  | j+1 => decide (x[j+1]? = x[j]?)

omit [Inhabited α] in
theorem dels_loop (prev : Option α) (x : List α) :
    ((List.range x.length).flatMap fun i =>
      if delC prev x i then [] else [x.take i ++ x.drop (i + 1)]) = delsAux prev x := by
  induction x generalizing prev with
  | nil => simp [delsAux]
  | cons c s ih =>
    rw [delsAux, ← ih (some c), List.length_cons, List.range_succ_eq_map, List.flatMap_cons,
      List.flatMap_map, List.map_flatMap]
    congr 1
    · simp [delC]
    · apply flatMap_congr'
      intro j _
      cases j with
      | zero => simp [delC, eq_comm, map_ite_nil]
      | succ k => simp [delC, map_ite_nil]

theorem subs_loop (A x : List α) :
    ((List.range x.length).flatMap fun i =>
      A.flatMap fun aa => if decide (aa = x.getD i default) then [] else
        [x.take i ++ [aa] ++ x.drop (i + 1)]) = subsAux A x := by
  induction x with
  | nil => simp [subsAux]
  | cons c s ih =>
    rw [subsAux, ← ih, List.length_cons, List.range_succ_eq_map, List.flatMap_cons,
      List.flatMap_map, List.map_flatMap]
    congr 1
    · rw [flatMap_ite_eq_filter_map]
      simp
    · apply flatMap_congr'
      intro j _
      rw [List.map_flatMap]
      apply flatMap_congr'
      intro aa _
      simp only [Nat.succ_eq_add_one, List.getD_cons_succ]
      split <;> simp

/-- skip condition of the insertion loop -/
def insC (prev : Option α) (x : List α) : Nat → α → Bool
  | 0, a => decide (prev = some a)
  | j+1, a => decide (x[j]? = some a)

omit [Inhabited α] in
theorem ins_loop (A : List α) (prev : Option α) (x : List α) :
    ((List.range (x.length + 1)).flatMap fun i =>
      A.flatMap fun aa => if insC prev x i aa then [] else
        [x.take i ++ [aa] ++ x.drop i]) = insAux A prev x := by
  induction x generalizing prev with
  | nil =>
    simp only [List.length_nil, Nat.zero_add, List.range_one, List.flatMap_cons, List.flatMap_nil,
      List.append_nil, insAux]
    rw [flatMap_ite_eq_filter_map]
    simp [insC]
  | cons c s ih =>
    rw [insAux, ← ih (some c), List.length_cons, List.range_succ_eq_map, List.flatMap_cons,
      List.flatMap_map, List.map_flatMap]
    congr 1
    · rw [flatMap_ite_eq_filter_map]
      simp [insC]
    · apply flatMap_congr'
      intro j _
      rw [List.map_flatMap]
      apply flatMap_congr'
      intro aa _
      have hc : insC prev (c :: s) j.succ aa = insC (some c) s j aa := by
        cases j with
        | zero => simp [insC]
        | succ k => simp [insC]
      rw [hc]
      split <;> simp

/-! ### the generated functions -/

theorem gen_dels (x : List α) :
    ((Py.range (0 : Int) (x.length : Int)).flatMap fun i =>
      if ((decide (i > (0 : Int))) && (decide ((Py.get x i) = (Py.get x (i - (1 : Int)))))) then [] else
      [((Py.sliceTo x i) ++ (Py.sliceFrom x (i + (1 : Int))))]) = delsAux none x := by
  rw [← dels_loop, Py.range_zero_nat, List.flatMap_map]
  apply flatMap_congr'
  intro i hi
  have hi : i < x.length := by simpa using hi
  rw [Py.sliceTo_nat, Py.sliceFrom_nat_succ]
  cases i with
  | zero =>
    have : x ≠ [] := by intro h; simp [h] at hi
    simp [delC, this]
  | succ j =>
    rw [Py.get_nat_pred, Py.get_nat]
    have hj : j < x.length := by omega
    simp [delC, List.getD_eq_getElem?_getD, hi, hj]

theorem gen_subs (A x : List α) :
    ((Py.range (0 : Int) (x.length : Int)).flatMap fun i =>
      (A.flatMap fun aa =>
        if (decide (aa = (Py.get x i))) then [] else
        [(((Py.sliceTo x i) ++ [aa]) ++ (Py.sliceFrom x (i + (1 : Int))))])) = subsAux A x := by
  rw [← subs_loop, Py.range_zero_nat, List.flatMap_map]
  apply flatMap_congr'
  intro i _
  rw [Py.sliceTo_nat, Py.sliceFrom_nat_succ, Py.get_nat]

theorem gen_ins (A x : List α) :
    ((Py.range (0 : Int) ((x.length : Int) + (1 : Int))).flatMap fun i =>
      (A.flatMap fun aa =>
        if ((decide (i > (0 : Int))) && (decide (aa = (Py.get x (i - (1 : Int)))))) then [] else
        [(((Py.sliceTo x i) ++ [aa]) ++ (Py.sliceFrom x i))])) = insAux A none x := by
  rw [← ins_loop, Py.range_zero_nat_succ, List.flatMap_map]
  apply flatMap_congr'
  intro i hi
  have hi : i < x.length + 1 := by simpa using hi
  rw [Py.sliceTo_nat, Py.sliceFrom_nat]
  apply flatMap_congr'
  intro aa _
  cases i with
  | zero => simp [insC]
  | succ j =>
    rw [Py.get_nat_pred]
    have hj : j < x.length := by omega
    simp [insC, List.getD_eq_getElem?_getD, hj, eq_comm]

theorem gen_levenshtein_neighbors_eq (A x : List α) :
    Generated.levenshtein_neighbors x A = levNeighbors A x := by
  unfold Generated.levenshtein_neighbors levNeighbors
  rw [gen_dels, gen_subs, gen_ins, List.append_assoc]

theorem gen_hamming_neighbors_eq (A x : List α) :
    Generated.hamming_neighbors x A none = hamNeighbors A x := by
  unfold Generated.hamming_neighbors hamNeighbors
  simp only [Option.getD_none]
  exact gen_subs A x

theorem gen_hamming_neighbors_at_eq (A x : List α) (pos : List Nat) (h : ∀ p ∈ pos, p < x.length) :
    Generated.hamming_neighbors x A (some (pos.map fun p : Nat => (p : Int))) = hamNeighborsAt A pos x := by
  unfold Generated.hamming_neighbors hamNeighborsAt
  simp only [Option.getD_some]
  rw [List.flatMap_map]
  apply flatMap_congr'
  intro p hp
  have hp := h p hp
  rw [Py.sliceTo_nat, Py.sliceFrom_nat_succ, Py.get_nat, flatMap_ite_eq_filter_map]
  simp [subsAt, hp, List.set_eq_take_append_cons_drop, List.getD_eq_getElem?_getD]

set_option linter.unusedSectionVars false in
theorem gen_isdist1_eq (nb : List α → List (List α)) (x : List α) (ref : List (List α)) :
    Generated.isdist1 x ref nb = Prs.isdist1 nb x ref := by
  unfold Generated.isdist1 Prs.isdist1
  induction nb x with
  | nil => rfl
  | cons y l ih =>
    simp only [List.flatMap_cons, List.any_cons, ← ih]
    by_cases hy : y ∈ ref <;> simp [hy]

end Prs
