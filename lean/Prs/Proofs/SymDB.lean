/- Proofs/SymDB.lean — a SymdelDB object answers every lookup like a fresh one-shot search. -/
import Prs.Proofs.Symdel
namespace Prs
variable {S V D : Type} [DecidableEq V] [DecidableEq D]

theorem find_keyed (L : List V) (g : V → List Nat) (c : V) :
    (L.map fun key => (key, g key)).find? (fun kv => kv.1 == c) =
      if c ∈ L then some (c, g c) else none := by
  induction L with
  | nil => simp
  | cons a L ih =>
    simp only [List.map_cons, List.find?_cons, List.mem_cons]
    by_cases h : a = c
    · subst h; simp
    · have h' : ¬ c = a := fun e => h e.symm
      have hb : (a == c) = false := by simpa using h
      simp [hb, h', ih]

theorem positionsWhere_eq_nil {γ : Type} (p : γ → Bool) (xs : List γ) (h : ∀ s ∈ xs, p s = false) :
    positionsWhere p xs = [] := by
  apply List.eq_nil_iff_forall_not_mem.2
  intro i hi
  obtain ⟨a, ha, hp⟩ := (mem_positionsWhere p xs i).1 hi
  rw [h a (List.mem_of_getElem? ha)] at hp
  cases hp

theorem SymDB.get_build (vs : S → List V) (xs : List S) (c : V) :
    (SymDB.build vs xs).get c = positionsWhere (fun s => decide (c ∈ vs s)) xs := by
  simp only [SymDB.get, SymDB.build, buildIndex, find_keyed]
  split
  · rename_i kv h
    split at h
    · simp only [Option.some.injEq] at h; subst h; rfl
    · cases h
  · rename_i h
    split at h
    · cases h
    · rename_i hc
      symm
      apply positionsWhere_eq_nil
      intro s hs
      simp only [allKeys, mem_dedup, List.mem_flatMap, not_exists, not_and] at hc
      simpa using hc s hs

/-- one lookup on the built object = the one-shot search, and the object is returned unchanged -/
theorem SymDB.lookup_build (vs : S → List V) (score : S → S → Option D) (xs qs : List S) :
    SymDB.lookup vs score (SymDB.build vs xs) qs = (SymDB.build vs xs, symdelLookup vs score xs qs) := by
  simp only [SymDB.lookup, symdelLookup, SymDB.get_build]
  rfl

/-- any history of lookups: every answer equals the fresh one-shot answer, state unchanged -/
theorem SymDB.run_build (vs : S → List V) (score : S → S → Option D) (xs : List S)
    (qss : List (List S)) :
    SymDB.run vs score (SymDB.build vs xs) qss =
      (SymDB.build vs xs, qss.map fun qs => symdelLookup vs score xs qs) := by
  induction qss with
  | nil => rfl
  | cons qs rest ih => simp only [SymDB.run, SymDB.lookup_build, ih, List.map_cons]

end Prs

namespace Prs
section lookdb
variable {S D : Type} [DecidableEq S] [DecidableEq D]

theorem find_keyed' {K : Type} [DecidableEq K] (L : List K) (g : K → List Nat) (c : K) :
    (L.map fun key => (key, g key)).find? (fun kv => kv.1 == c) =
      if c ∈ L then some (c, g c) else none := by
  induction L with
  | nil => simp
  | cons a L ih =>
    simp only [List.map_cons, List.find?_cons, List.mem_cons]
    by_cases h : a = c
    · subst h; simp
    · have h' : ¬ c = a := fun e => h e.symm
      have hb : (a == c) = false := by simpa using h
      simp [hb, h', ih]

theorem LookDB.get_build (xs : List S) (s : S) : (LookDB.build xs).get s = positionsOf xs s := by
  simp only [LookDB.get, LookDB.build, find_keyed']
  split
  · rename_i kv h
    split at h
    · simp only [Option.some.injEq] at h; subst h; rfl
    · cases h
  · rename_i h
    split at h
    · cases h
    · rename_i hc
      symm
      unfold positionsOf
      apply positionsWhere_eq_nil
      intro t ht
      simp only [mem_dedup] at hc
      simp only [beq_eq_false_iff_ne, ne_eq]
      rintro rfl
      exact hc ht

theorem LookDB.lookup_build (nb : S → List S) (cd : S → S → D) (keep : D → Bool) (pdist : Bool)
    (xs qs : List S) (k : Nat) :
    LookDB.lookup nb cd keep pdist (LookDB.build xs) qs k =
      (LookDB.build xs, lookupDB nb cd keep pdist xs qs k) := by
  simp only [LookDB.lookup, lookupDB, LookDB.get_build]

/-- any history of lookups against one LookupDB object: every answer is the one-shot answer and the
stored dictionary never changes -/
theorem LookDB.run_build (nb : S → List S) (cd : S → S → D) (keep : D → Bool) (pdist : Bool)
    (k : Nat) (xs : List S) (qss : List (List S)) :
    LookDB.run nb cd keep pdist k (LookDB.build xs) qss =
      (LookDB.build xs, qss.map fun qs => lookupDB nb cd keep pdist xs qs k) := by
  induction qss with
  | nil => rfl
  | cons qs rest ih => simp only [LookDB.run, LookDB.lookup_build, ih, List.map_cons]
end lookdb
end Prs
