/-
Proofs/FormulasPc.lean — `pc_n` and `varpc_n` as GENERATED from pyrepseq/stats.py (Generated/FormulasPc,
written by tools/gen_formulas.py on every run) are the hand-written models `pcN`, `varpcN` of Model/Stats
on count vectors (natural numbers seen as rationals).
-/
import Prs.Generated.FormulasPc
import Prs.Model.Stats
import Mathlib.Data.Rat.Defs
import Mathlib.Algebra.Order.Field.Rat
import Mathlib.Data.Nat.Cast.Basic
import Mathlib.Tactic.Ring
import Mathlib.Tactic.Push

namespace Prs

/-- a count vector as NumPy sees it -/
def castCounts (n : List ℕ) : List ℚ := n.map fun c : ℕ => (c : ℚ)

theorem cast_fall2 (c : ℕ) : ((c * (c - 1) : ℕ) : ℚ) = (c : ℚ) * ((c : ℚ) - 1) := by
  cases c with
  | zero => simp
  | succ k =>
    have h : k + 1 - 1 = k := by omega
    rw [h]; push_cast; ring

theorem cast_fall3 (c : ℕ) : ((c * (c - 1) * (c - 2) : ℕ) : ℚ) = (c : ℚ) * ((c : ℚ) - 1) * ((c : ℚ) - 2) := by
  match c with
  | 0 => simp
  | 1 => simp
  | k + 2 =>
    have h : k + 2 - 1 = k + 1 := by omega
    have h2 : k + 2 - 2 = k := by omega
    rw [h, h2]; push_cast; ring

theorem castCounts_sum (n : List ℕ) : (castCounts n).sum = ((n.sum : ℕ) : ℚ) := by
  induction n with
  | nil => simp [castCounts]
  | cons c n ih => simp [castCounts] at ih ⊢; rw [ih]

theorem castCounts_fall2 (n : List ℕ) :
    ((castCounts n).map fun x => x * (x - 1)).sum = ((sumFall2 n : ℕ) : ℚ) := by
  induction n with
  | nil => simp [castCounts, sumFall2]
  | cons c n ih =>
    simp only [castCounts, sumFall2, List.map_cons, List.sum_cons, List.map_map] at ih ⊢
    rw [Nat.cast_add, cast_fall2, ← ih]

theorem castCounts_fall3 (n : List ℕ) :
    ((castCounts n).map fun x => x * (x - 1) * (x - 2)).sum = ((sumFall3 n : ℕ) : ℚ) := by
  induction n with
  | nil => simp [castCounts, sumFall3]
  | cons c n ih =>
    simp only [castCounts, sumFall3, List.map_cons, List.sum_cons, List.map_map] at ih ⊢
    rw [Nat.cast_add, cast_fall3, ← ih]

/-! The two proofs survive algebraically equal re-spellings of the Python source (`N*N - N` for `N*(N-1)`, `n*n - n`
inside the sum, re-associated products): both sides and the bridge lemmas are brought to `ring_nf` normal form
(also under the `fun x =>` of the element-wise expressions) before they are compared. -/

theorem gen_pc_n_eq (n : List ℕ) : Generated.pc_n (castCounts n) = pcN n := by
  have e1 := castCounts_sum n
  have e2 := castCounts_fall2 n
  simp only [Generated.pc_n, pcN]
  ring_nf at e2 ⊢
  rw [e2, e1]

theorem gen_varpc_n_eq (n : List ℕ) : Generated.varpc_n (castCounts n) = varpcN n := by
  have e1 := castCounts_sum n
  have e2 := castCounts_fall2 n
  have e3 := castCounts_fall3 n
  simp only [Generated.varpc_n, varpcN, pcN, p3hat]
  ring_nf at e2 e3 ⊢
  rw [e2, e3, e1]

end Prs
