/- Proofs/NeighborUtils.lean — the set utilities built on the one-edit generators
(pyrepseq/distance.py): duplicate freedom of the generators, next-nearest neighbours,
neighbour pairs, neighbour numbers, isdist / nndist_hamming (core Lean only). -/
import Prs.Model.Neighbors
import Prs.Proofs.Util
import Prs.Proofs.Bfs
namespace Prs

/-! ### the generators yield every neighbour exactly once -/
section gen
variable {α : Type} [DecidableEq α]

theorem subsAux_nodup (A : List α) (hA : A.Nodup) (x : List α) : (subsAux A x).Nodup := by
  induction x with
  | nil => simp [subsAux]
  | cons c s ih =>
    simp only [subsAux]
    rw [List.nodup_append]
    refine ⟨(hA.filter _).map (· :: s) (fun a b hab h => hab (List.cons.inj h).1),
            ih.map (c :: ·) (fun a b hab h => hab (List.cons.inj h).2), ?_⟩
    intro t1 h1 t2 h2 heq
    simp only [List.mem_map, List.mem_filter] at h1 h2
    obtain ⟨a, ⟨_, ha⟩, rfl⟩ := h1
    obtain ⟨t, _, rfl⟩ := h2
    injection heq with e1 _
    subst e1
    simp at ha

theorem subsAux_length (A : List α) (x y : List α) (h : y ∈ subsAux A x) : y.length = x.length :=
  (subsAux_mism A x y h).1.symm

/-- levenshtein_neighbors yields every neighbour exactly once (duplicate suppression rules are right) -/
theorem levNeighbors_nodup (A : List α) (hA : A.Nodup) (x : List α) : (levNeighbors A x).Nodup := by
  unfold levNeighbors
  rw [List.nodup_append]
  refine ⟨?_, insAux_nodup A hA none x, ?_⟩
  · rw [List.nodup_append]
    refine ⟨delsAux_nodup none x, subsAux_nodup A hA x, ?_⟩
    intro t1 h1 t2 h2 heq
    subst heq
    have := delsAux_length _ _ _ h1
    have := subsAux_length _ _ _ h2
    omega
  · intro t1 h1 t2 h2 heq
    subst heq
    have h3 := insAux_length _ _ _ _ h2
    rcases List.mem_append.1 h1 with h1 | h1
    · have := delsAux_length _ _ _ h1; omega
    · have := subsAux_length _ _ _ h1; omega

theorem levNeighbors_not_self (A : List α) (x : List α) : x ∉ levNeighbors A x :=
  fun h => step_ne A ((mem_levNeighbors A x x).1 h) rfl

/-! ### Hamming distance helpers -/

theorem ham_nil_nil : ham ([] : List α) [] = some 0 := by simp [ham, mismatches]

theorem ham_cons_cons (c d : α) (s u : List α) :
    ham (c :: s) (d :: u) = (ham s u).map fun k => (if c = d then 0 else 1) + k := by
  unfold ham
  by_cases h : s.length = u.length
  · simp [h, mismatches]
  · simp [h]

theorem ham_eq_some_iff (x y : List α) (n : Nat) :
    ham x y = some n ↔ x.length = y.length ∧ mismatches x y = n := by
  unfold ham
  by_cases h : x.length = y.length <;> simp [h]

theorem mismatches_self (s : List α) : mismatches s s = 0 := by
  induction s with
  | nil => simp [mismatches]
  | cons c s ih => simpa [mismatches] using ih

theorem mismatches_eq_zero : ∀ (x y : List α), x.length = y.length → mismatches x y = 0 → x = y
  | [], [], _, _ => rfl
  | [], _ :: _, h, _ => by simp at h
  | _ :: _, [], h, _ => by simp at h
  | c :: s, d :: u, h, h0 => by
    simp only [mismatches] at h0
    by_cases hcd : c = d
    · subst hcd
      rw [mismatches_eq_zero s u (by simpa using h) (by simpa using h0)]
    · simp [hcd] at h0

theorem ham_eq_zero_iff (x y : List α) : ham x y = some 0 ↔ x = y := by
  rw [ham_eq_some_iff]
  constructor
  · rintro ⟨h1, h2⟩; exact mismatches_eq_zero x y h1 h2
  · rintro rfl; exact ⟨rfl, mismatches_self x⟩

/-- hamming_neighbors: exactly the strings over A differing from x by one substitution -/
theorem mem_hamNeighbors (A : List α) (x y : List α) (hy : ∀ c ∈ y, c ∈ A) :
    y ∈ hamNeighbors A x ↔ ham x y = some 1 := by
  rw [ham_eq_some_iff]
  constructor
  · intro h
    obtain ⟨h1, h2⟩ := subsAux_mism A x y h
    refine ⟨h1, ?_⟩
    have h3 := h2 x
    rw [mismatches_self] at h3
    have h4 : mismatches x y ≠ 0 := fun h0 =>
      step_ne A (subsAux_step A x y h) (mismatches_eq_zero x y h1 h0)
    omega
  · rintro ⟨h1, h2⟩
    have hr := ham_reach A x y h1 hy
    rw [h2] at hr
    obtain ⟨z, hz, hyz⟩ := Reach.succ_iff.1 hr
    rw [Reach.zero_iff.1 hz]
    exact hyz

theorem hamNeighbors_nodup (A : List α) (hA : A.Nodup) (x : List α) : (hamNeighbors A x).Nodup :=
  subsAux_nodup A hA x

/-- with permitted positions: one substitution at one of the listed positions -/
theorem mem_hamNeighborsAt (A : List α) (pos : List Nat) (x y : List α) :
    y ∈ hamNeighborsAt A pos x ↔
      ∃ i ∈ pos, ∃ c a, x[i]? = some c ∧ a ∈ A ∧ a ≠ c ∧ y = x.set i a := by
  simp only [hamNeighborsAt, List.mem_flatMap]
  constructor
  · rintro ⟨i, hi, h⟩
    unfold subsAt at h
    cases hx : x[i]? with
    | none => rw [hx] at h; simp at h
    | some c =>
      rw [hx] at h
      simp only [List.mem_map, List.mem_filter] at h
      obtain ⟨a, ⟨ha, hne⟩, rfl⟩ := h
      exact ⟨i, hi, c, a, hx, ha, by simpa using hne, rfl⟩
  · rintro ⟨i, hi, c, a, hx, ha, hne, rfl⟩
    refine ⟨i, hi, ?_⟩
    unfold subsAt
    rw [hx]
    simp only [List.mem_map, List.mem_filter]
    exact ⟨a, ⟨ha, by simpa using hne⟩, rfl⟩

theorem mem_subsAt (A : List α) (x y : List α) (i : Nat) :
    y ∈ subsAt A x i ↔ ∃ c a, x[i]? = some c ∧ a ∈ A ∧ a ≠ c ∧ y = x.set i a := by
  have := mem_hamNeighborsAt A [i] x y
  simpa [hamNeighborsAt] using this

theorem subsAt_nodup (A : List α) (hA : A.Nodup) (x : List α) (i : Nat) : (subsAt A x i).Nodup := by
  unfold subsAt
  cases hx : x[i]? with
  | none => simp
  | some c =>
    have hi : i < x.length := (List.getElem?_eq_some_iff.1 hx).1
    refine (hA.filter _).map _ ?_
    intro a b hab h
    apply hab
    have := congrArg (fun l => l[i]?) h
    simpa [List.getElem?_set_self hi] using this

theorem hamNeighborsAt_nodup (A : List α) (pos : List Nat) (x : List α) (hA : A.Nodup)
    (hp : pos.Nodup) : (hamNeighborsAt A pos x).Nodup := by
  unfold hamNeighborsAt
  apply nodup_flatMap (fun i _ => subsAt_nodup A hA x i)
  refine hp.imp ?_
  intro i j hij y hyi hyj
  obtain ⟨c, a, hc, _, hne, rfl⟩ := (mem_subsAt A x _ i).1 hyi
  obtain ⟨c', a', _, _, _, he⟩ := (mem_subsAt A x _ j).1 hyj
  have hi : i < x.length := (List.getElem?_eq_some_iff.1 hc).1
  have := congrArg (fun l => l[i]?) he
  simp only [List.getElem?_set_self hi, List.getElem?_set_ne (Ne.symm hij), hc] at this
  injection this with this
  exact hne this
end gen

/-! ### next-nearest neighbours -/
section nn
variable {S : Type} [DecidableEq S]

theorem mem_nnLevel (nb : S → List S) (x y : S) (k : Nat) :
    y ∈ nnLevel nb x k ↔ Reach nb (k+1) x y := by
  induction k generalizing y with
  | zero =>
    simp only [nnLevel]
    constructor
    · exact Reach.one
    · intro h
      obtain ⟨z, hz, hy⟩ := Reach.succ_iff.1 h
      rw [Reach.zero_iff.1 hz]; exact hy
  | succ k ih =>
    simp only [nnLevel, mem_dedup, List.mem_flatMap]
    rw [Reach.succ_iff]
    constructor
    · rintro ⟨z, hz, hy⟩; exact ⟨z, (ih z).1 hz, hy⟩
    · rintro ⟨z, hz, hy⟩; exact ⟨z, (ih z).2 hz, hy⟩

/-- next_nearest_neighbors = everything reachable in 1..d steps, except x -/
theorem mem_nextNearest (nb : S → List S) (x y : S) (d : Nat) :
    y ∈ nextNearest nb x d ↔ y ≠ x ∧ ∃ n, 1 ≤ n ∧ n ≤ max d 1 ∧ Reach nb n x y := by
  simp only [nextNearest, List.mem_filter, mem_dedup, List.mem_flatMap, List.mem_range,
    mem_nnLevel, ne_eq, decide_eq_true_eq]
  constructor
  · rintro ⟨⟨k, hk, hr⟩, hne⟩
    exact ⟨hne, k+1, by omega, by omega, hr⟩
  · rintro ⟨hne, n, h1, h2, hr⟩
    refine ⟨⟨n-1, by omega, ?_⟩, hne⟩
    rw [show n - 1 + 1 = n by omega]; exact hr

theorem nextNearest_nodup (nb : S → List S) (x : S) (d : Nat) : (nextNearest nb x d).Nodup :=
  (nodup_dedup _).filter _

theorem mem_nextNearest_lev {α : Type} [DecidableEq α] (A : List α) (x y : List α) (d : Nat)
    (hd : 1 ≤ d) (hy : ∀ c ∈ y, c ∈ A) :
    y ∈ nextNearest (levNeighbors A) x d ↔ y ≠ x ∧ lev x y ≤ d := by
  rw [mem_nextNearest]
  have hmax : max d 1 = d := by omega
  rw [hmax]
  constructor
  · rintro ⟨hne, n, _, h2, hr⟩
    exact ⟨hne, Nat.le_trans (reach_lev_le A hr) h2⟩
  · rintro ⟨hne, hl⟩
    obtain ⟨m, hm, hr⟩ := lev_reach A x y hy
    refine ⟨hne, m, ?_, by omega, hr⟩
    cases m with
    | zero => exact absurd (Reach.zero_iff.1 hr).symm hne
    | succ m => omega
end nn

/-! ### neighbour pairs -/
section pairs
variable {S : Type} [DecidableEq S]

/-- (the duplicate-freedom of `order` is not needed for this characterisation) -/
theorem mem_findNeighborPairs' (nb : S → List S) (order : List S) (a b : S) :
    (a, b) ∈ findNeighborPairs nb order ↔
      b ∈ nb a ∧ ∃ l1 l2, order = l1 ++ a :: l2 ∧ b ∈ a :: l2 := by
  induction order with
  | nil => simp [findNeighborPairs]
  | cons x rest ih =>
    simp only [findNeighborPairs, List.mem_append, List.mem_map, List.mem_filter, mem_dedup,
      Prod.mk.injEq, decide_eq_true_eq, ih]
    constructor
    · rintro (⟨y, ⟨hy, hm⟩, rfl, rfl⟩ | ⟨hb, l1, l2, rfl, hm⟩)
      · exact ⟨hy, [], rest, rfl, hm⟩
      · exact ⟨hb, x :: l1, l2, rfl, hm⟩
    · rintro ⟨hb, l1, l2, he, hm⟩
      cases l1 with
      | nil =>
        simp only [List.nil_append, List.cons.injEq] at he
        obtain ⟨rfl, rfl⟩ := he
        exact Or.inl ⟨b, ⟨hb, hm⟩, rfl, rfl⟩
      | cons z l1 =>
        simp only [List.cons_append, List.cons.injEq] at he
        obtain ⟨rfl, rfl⟩ := he
        exact Or.inr ⟨hb, l1, l2, rfl, hm⟩

/-- find_neighbor_pairs: every unordered distance-1 pair of distinct members once (one orientation) -/
theorem mem_findNeighborPairs (nb : S → List S) (order : List S) (hnd : order.Nodup) (a b : S) :
    (a, b) ∈ findNeighborPairs nb order ↔
      b ∈ nb a ∧ ∃ l1 l2, order = l1 ++ a :: l2 ∧ b ∈ a :: l2 :=
  have _ := hnd
  mem_findNeighborPairs' nb order a b

theorem findNeighborPairs_fst_mem (nb : S → List S) (order : List S) (p : S × S)
    (h : p ∈ findNeighborPairs nb order) : p.1 ∈ order ∧ p.2 ∈ order := by
  obtain ⟨a, b⟩ := p
  obtain ⟨_, l1, l2, rfl, hm⟩ := (mem_findNeighborPairs' nb order a b).1 h
  refine ⟨by simp, ?_⟩
  exact List.mem_append_right _ hm

theorem findNeighborPairs_nodup (nb : S → List S) (order : List S) (hnd : order.Nodup) :
    (findNeighborPairs nb order).Nodup := by
  induction order with
  | nil => simp [findNeighborPairs]
  | cons x rest ih =>
    rw [List.nodup_cons] at hnd
    simp only [findNeighborPairs]
    rw [List.nodup_append]
    refine ⟨((nodup_dedup _).filter _).map _ (fun a b hab h => hab (Prod.mk.inj h).2),
            ih hnd.2, ?_⟩
    intro p1 h1 p2 h2 heq
    subst heq
    simp only [List.mem_map] at h1
    obtain ⟨y, _, rfl⟩ := h1
    exact hnd.1 (findNeighborPairs_fst_mem nb rest _ h2).1

omit [DecidableEq S] in
/-- in a duplicate-free list `a` cannot be both before and after `b` -/
theorem before_antisymm {order l1 l2 l1' l2' : List S} {a b : S} (hnd : order.Nodup)
    (h1 : order = l1 ++ a :: l2) (hb : b ∈ l2) (h2 : order = l1' ++ b :: l2') (ha : a ∈ l2') :
    False := by
  subst h1
  rcases List.append_eq_append_iff.1 h2 with ⟨a', rfl, he⟩ | ⟨c', rfl, he⟩
  · cases a' with
    | nil =>
      simp only [List.nil_append, List.cons.injEq] at he
      obtain ⟨rfl, rfl⟩ := he
      have := (List.nodup_append.1 hnd).2.1
      exact (List.nodup_cons.1 this).1 ha
    | cons z a' =>
      simp only [List.cons_append, List.cons.injEq] at he
      obtain ⟨rfl, rfl⟩ := he
      have := (List.nodup_append.1 hnd).2.1
      exact (List.nodup_cons.1 this).1 (by simp [ha])
  · cases c' with
    | nil =>
      simp only [List.nil_append, List.cons.injEq] at he
      obtain ⟨rfl, rfl⟩ := he
      have := (List.nodup_append.1 hnd).2.1
      exact (List.nodup_cons.1 this).1 ha
    | cons z c' =>
      simp only [List.cons_append, List.cons.injEq] at he
      obtain ⟨rfl, rfl⟩ := he
      rw [List.append_assoc] at hnd
      have := (List.nodup_append.1 hnd).2.1
      exact (List.nodup_cons.1 this).1 (by simp [hb])

omit [DecidableEq S] in
theorem before_or_after {order : List S} {a b : S} (ha : a ∈ order) (hb : b ∈ order)
    (hne : a ≠ b) :
    (∃ l1 l2, order = l1 ++ a :: l2 ∧ b ∈ l2) ∨ (∃ l1 l2, order = l1 ++ b :: l2 ∧ a ∈ l2) := by
  obtain ⟨s, t, rfl⟩ := List.append_of_mem ha
  rcases List.mem_append.1 hb with hb | hb
  · obtain ⟨s1, s2, rfl⟩ := List.append_of_mem hb
    exact Or.inr ⟨s1, s2 ++ a :: t, by simp, by simp⟩
  · rcases List.mem_cons.1 hb with rfl | hb
    · exact absurd rfl hne
    · exact Or.inl ⟨s, t, rfl, hb⟩

/-- generic form: a symmetric neighbour relation without self loops -/
theorem findNeighborPairs_once (nb : S → List S) (order : List S) (hnd : order.Nodup)
    (a b : S) (ha : a ∈ order) (hb : b ∈ order) (hne : a ≠ b) (hab : b ∈ nb a) (hba : a ∈ nb b) :
    ((a, b) ∈ findNeighborPairs nb order ∧ (b, a) ∉ findNeighborPairs nb order) ∨
    ((b, a) ∈ findNeighborPairs nb order ∧ (a, b) ∉ findNeighborPairs nb order) := by
  rcases before_or_after ha hb hne with ⟨l1, l2, he, hm⟩ | ⟨l1, l2, he, hm⟩
  · left
    refine ⟨(mem_findNeighborPairs' nb order a b).2 ⟨hab, l1, l2, he, List.mem_cons_of_mem _ hm⟩, ?_⟩
    intro h
    obtain ⟨_, l1', l2', he', hm'⟩ := (mem_findNeighborPairs' nb order b a).1 h
    rcases List.mem_cons.1 hm' with rfl | hm'
    · exact hne rfl
    · exact before_antisymm hnd he hm he' hm'
  · right
    refine ⟨(mem_findNeighborPairs' nb order b a).2 ⟨hba, l1, l2, he, List.mem_cons_of_mem _ hm⟩, ?_⟩
    intro h
    obtain ⟨_, l1', l2', he', hm'⟩ := (mem_findNeighborPairs' nb order a b).1 h
    rcases List.mem_cons.1 hm' with rfl | hm'
    · exact hne rfl
    · exact before_antisymm hnd he hm he' hm'

variable {α : Type} [DecidableEq α]

theorem findNeighborPairs_lev_once (A : List α) (order : List (List α)) (hnd : order.Nodup)
    (hA : ∀ s ∈ order, ∀ c ∈ s, c ∈ A)
    (a b : List α) (ha : a ∈ order) (hb : b ∈ order) (h1 : lev a b = 1) :
    ((a, b) ∈ findNeighborPairs (levNeighbors A) order ∧
        (b, a) ∉ findNeighborPairs (levNeighbors A) order) ∨
    ((b, a) ∈ findNeighborPairs (levNeighbors A) order ∧
        (a, b) ∉ findNeighborPairs (levNeighbors A) order) := by
  apply findNeighborPairs_once _ order hnd a b ha hb
  · rintro rfl; rw [lev_self] at h1; omega
  · exact (levNeighbors_exact A a b (hA b hb)).2 h1
  · exact (levNeighbors_exact A b a (hA a ha)).2 (by rw [lev_comm]; exact h1)

theorem findNeighborPairs_lev_sound (A : List α) (order : List (List α))
    (hA : ∀ s ∈ order, ∀ c ∈ s, c ∈ A) (a b : List α)
    (h : (a, b) ∈ findNeighborPairs (levNeighbors A) order) :
    a ∈ order ∧ b ∈ order ∧ lev a b = 1 := by
  obtain ⟨h1, h2⟩ := findNeighborPairs_fst_mem _ order _ h
  refine ⟨h1, h2, ?_⟩
  have := ((mem_findNeighborPairs' _ order a b).1 h).1
  exact (levNeighbors_exact A a b (hA b h2)).1 this

theorem mem_findNeighborPairsIndex (nb : S → List S) (xs : List S) (hnd : xs.Nodup) (i j : Nat) :
    (i, j) ∈ findNeighborPairsIndex nb xs ↔
      ∃ a b, xs[i]? = some a ∧ xs[j]? = some b ∧ b ∈ nb a := by
  simp only [findNeighborPairsIndex, List.mem_flatMap, List.mem_map, List.mem_filter, mem_dedup,
    decide_eq_true_eq, Prod.mk.injEq]
  constructor
  · rintro ⟨⟨a, i'⟩, hz, y, ⟨hy, hm⟩, rfl, rfl⟩
    rw [List.mem_zipIdx_iff_getElem?] at hz
    refine ⟨a, y, hz, ?_, hy⟩
    have hlt : xs.idxOf y < xs.length := List.idxOf_lt_length_of_mem hm
    rw [List.getElem?_eq_getElem hlt, List.getElem_idxOf hlt]
  · rintro ⟨a, b, ha, hb, hab⟩
    obtain ⟨hj, hjb⟩ := List.getElem?_eq_some_iff.1 hb
    refine ⟨(a, i), List.mem_zipIdx_iff_getElem?.2 ha, b, ⟨hab, List.mem_of_getElem? hb⟩, rfl, ?_⟩
    rw [← hjb]
    exact hnd.idxOf_getElem j hj

/-- calculate_neighbor_numbers, entry by entry (by definition) -/
theorem neighborNumbers_spec (nb : S → List S) (xs : List S) (reference : Option (List S))
    (i : Nat) (a : S) (ha : xs[i]? = some a) :
    (neighborNumbers nb xs reference)[i]? =
      some ((dedup (nb a)).filter (fun y => decide (y ∈ reference.getD xs))).length := by
  simp [neighborNumbers, List.getElem?_map, ha]

theorem neighborNumbers_lev (A : List α) (xs ref : List (List α))
    (hA : ∀ s ∈ ref, ∀ c ∈ s, c ∈ A) (hnd : ref.Nodup) (i : Nat) (a : List α)
    (ha : xs[i]? = some a) :
    (neighborNumbers (levNeighbors A) xs (some ref))[i]? =
      some (ref.filter (fun r => lev a r = 1)).length := by
  rw [neighborNumbers_spec _ xs (some ref) i a ha]
  simp only [Option.getD_some]
  congr 1
  apply List.Perm.length_eq
  rw [List.perm_ext_iff_of_nodup ((nodup_dedup _).filter _) (hnd.filter _)]
  intro y
  simp only [List.mem_filter, mem_dedup, decide_eq_true_eq]
  constructor
  · rintro ⟨h1, h2⟩; exact ⟨h2, (levNeighbors_exact A a y (hA y h2)).1 h1⟩
  · rintro ⟨h1, h2⟩; exact ⟨(levNeighbors_exact A a y (hA y h1)).2 h2, h1⟩

theorem isdist1_iff (nb : S → List S) (x : S) (ref : List S) :
    isdist1 nb x ref = true ↔ ∃ y ∈ ref, y ∈ nb x := by
  simp only [isdist1, List.any_eq_true, decide_eq_true_eq]
  constructor
  · rintro ⟨y, h1, h2⟩; exact ⟨y, h2, h1⟩
  · rintro ⟨y, h1, h2⟩; exact ⟨y, h2, h1⟩

theorem isdist1_lev (A : List α) (x : List α) (ref : List (List α))
    (hA : ∀ s ∈ ref, ∀ c ∈ s, c ∈ A) :
    isdist1 (levNeighbors A) x ref = true ↔ ∃ r ∈ ref, lev x r = 1 := by
  rw [isdist1_iff]
  constructor
  · rintro ⟨y, h1, h2⟩; exact ⟨y, h1, (levNeighbors_exact A x y (hA y h1)).1 h2⟩
  · rintro ⟨y, h1, h2⟩; exact ⟨y, h1, (levNeighbors_exact A x y (hA y h1)).2 h2⟩
end pairs

/-! ### exact Hamming distance n; nndist_hamming -/
section hamn
variable {α : Type} [DecidableEq α]

theorem mem_subsExact (A : List α) (n : Nat) (x y : List α) (hy : ∀ c ∈ y, c ∈ A) :
    y ∈ subsExact A n x ↔ ham x y = some n := by
  induction x generalizing n y with
  | nil =>
    cases n with
    | zero =>
      simp only [subsExact, List.mem_singleton]; rw [ham_eq_zero_iff]; exact eq_comm
    | succ n =>
      simp only [subsExact, List.not_mem_nil, false_iff]
      rw [ham_eq_some_iff]
      rintro ⟨h1, h2⟩
      cases y with
      | nil => simp [mismatches] at h2
      | cons => simp at h1
  | cons c s ih =>
    cases n with
    | zero =>
      simp only [subsExact, List.mem_singleton]; rw [ham_eq_zero_iff]; exact eq_comm
    | succ n =>
      cases y with
      | nil => simp [subsExact, ham]
      | cons d u =>
        have hu : ∀ z ∈ u, z ∈ A := fun z hz => hy z (List.mem_cons_of_mem _ hz)
        have hd : d ∈ A := hy d (by simp)
        simp only [subsExact, List.mem_append, List.mem_flatMap, List.mem_map, List.mem_filter,
          List.cons.injEq]
        rw [ham_eq_some_iff]
        simp only [mismatches, List.length_cons]
        have ih1 := ih n u hu
        have ih2 := ih (n+1) u hu
        rw [ham_eq_some_iff] at ih1 ih2
        by_cases hcd : c = d
        · subst hcd
          simp only [if_true]
          constructor
          · rintro (⟨a, ⟨_, hne⟩, u', _, rfl, rfl⟩ | ⟨u', hu', _, rfl⟩)
            · simp at hne
            · obtain ⟨h1, h2⟩ := ih2.1 hu'
              exact ⟨by omega, by omega⟩
          · rintro ⟨h1, h2⟩
            exact Or.inr ⟨u, ih2.2 ⟨by omega, by omega⟩, trivial, rfl⟩
        · simp only [if_neg hcd]
          constructor
          · rintro (⟨a, ⟨_, hne⟩, u', hu', rfl, rfl⟩ | ⟨u', hu', h, rfl⟩)
            · obtain ⟨h1, h2⟩ := ih1.1 hu'
              exact ⟨by omega, by omega⟩
            · exact absurd h hcd
          · rintro ⟨h1, h2⟩
            refine Or.inl ⟨d, ⟨hd, ?_⟩, u, ih1.2 ⟨by omega, by omega⟩, rfl, rfl⟩
            simpa using fun h : d = c => hcd h.symm

theorem isdistHam_iff (A : List α) (n : Nat) (x : List α) (ref : List (List α))
    (hA : ∀ s ∈ ref, ∀ c ∈ s, c ∈ A) :
    isdistHam A n x ref = true ↔ ∃ r ∈ ref, ham x r = some n := by
  simp only [isdistHam, List.any_eq_true, decide_eq_true_eq]
  constructor
  · rintro ⟨y, h1, h2⟩; exact ⟨y, h2, (mem_subsExact A n x y (hA y h2)).1 h1⟩
  · rintro ⟨y, h1, h2⟩; exact ⟨y, (mem_subsExact A n x y (hA y h1)).2 h2, h1⟩

theorem isdist1_ham (A : List α) (x : List α) (ref : List (List α))
    (hA : ∀ s ∈ ref, ∀ c ∈ s, c ∈ A) :
    isdist1 (hamNeighbors A) x ref = true ↔ ∃ r ∈ ref, ham x r = some 1 := by
  rw [isdist1_iff]
  constructor
  · rintro ⟨y, h1, h2⟩; exact ⟨y, h1, (mem_hamNeighbors A x y (hA y h1)).1 h2⟩
  · rintro ⟨y, h1, h2⟩; exact ⟨y, h1, (mem_hamNeighbors A x y (hA y h1)).2 h2⟩

/-- nndist_hamming = min(true nearest Hamming distance, maxdist), NotImplementedError above 4 -/
theorem nndistHamming_spec (A : List α) (seq : List α) (ref : List (List α)) (m : Nat)
    (hm1 : 1 ≤ m) (hm4 : m ≤ 4) (hA : ∀ s ∈ ref, ∀ c ∈ s, c ∈ A) :
    ∃ d, nndistHamming A seq ref m = some d ∧ d ≤ m ∧
      (d < m → ∃ r ∈ ref, ham seq r = some d) ∧
      (∀ r ∈ ref, ∀ e, ham seq r = some e → d ≤ e) := by
  have key : ∀ d, (∀ k, k < d → ¬ ∃ r ∈ ref, ham seq r = some k) →
      ∀ r ∈ ref, ∀ e, ham seq r = some e → d ≤ e := by
    intro d hd r hr e he
    rcases Nat.lt_or_ge e d with hlt | hge
    · exact absurd ⟨r, hr, he⟩ (hd e hlt)
    · exact hge
  have h0 : seq ∈ ref ↔ ∃ r ∈ ref, ham seq r = some 0 := by
    constructor
    · intro h; exact ⟨seq, h, (ham_eq_zero_iff _ _).2 rfl⟩
    · rintro ⟨r, hr, h⟩; rw [(ham_eq_zero_iff _ _).1 h]; exact hr
  have h1 := isdist1_ham A seq ref hA
  have h2 := isdistHam_iff A 2 seq ref hA
  have h3 := isdistHam_iff A 3 seq ref hA
  unfold nndistHamming
  rw [if_neg (by omega)]
  by_cases c0 : seq ∈ ref
  · rw [if_pos c0]
    exact ⟨0, rfl, by omega, fun _ => h0.1 c0, fun _ _ e _ => Nat.zero_le e⟩
  rw [if_neg c0]
  have n0 := mt h0.2 c0
  by_cases c1 : (m == 1 || isdist1 (hamNeighbors A) seq ref) = true
  · rw [if_pos c1]
    refine ⟨1, rfl, hm1, ?_, key 1 ?_⟩
    · intro hlt
      simp only [Bool.or_eq_true, beq_iff_eq] at c1
      rcases c1 with c1 | c1
      · omega
      · exact h1.1 c1
    · intro k hk
      have : k = 0 := by omega
      subst this; exact n0
  rw [if_neg c1]
  simp only [Bool.or_eq_true, beq_iff_eq, not_or] at c1
  have n1 := mt h1.2 c1.2
  by_cases c2 : (m == 2 || isdistHam A 2 seq ref) = true
  · rw [if_pos c2]
    refine ⟨2, rfl, by omega, ?_, key 2 ?_⟩
    · intro hlt
      simp only [Bool.or_eq_true, beq_iff_eq] at c2
      rcases c2 with c2 | c2
      · omega
      · exact h2.1 c2
    · intro k hk
      rcases (by omega : k = 0 ∨ k = 1) with rfl | rfl
      · exact n0
      · exact n1
  rw [if_neg c2]
  simp only [Bool.or_eq_true, beq_iff_eq, not_or] at c2
  have n2 := mt h2.2 c2.2
  by_cases c3 : (m == 3 || isdistHam A 3 seq ref) = true
  · rw [if_pos c3]
    refine ⟨3, rfl, by omega, ?_, key 3 ?_⟩
    · intro hlt
      simp only [Bool.or_eq_true, beq_iff_eq] at c3
      rcases c3 with c3 | c3
      · omega
      · exact h3.1 c3
    · intro k hk
      rcases (by omega : k = 0 ∨ k = 1 ∨ k = 2) with rfl | rfl | rfl
      · exact n0
      · exact n1
      · exact n2
  rw [if_neg c3]
  simp only [Bool.or_eq_true, beq_iff_eq, not_or] at c3
  have n3 := mt h3.2 c3.2
  refine ⟨4, rfl, by omega, fun hlt => by omega, key 4 ?_⟩
  intro k hk
  rcases (by omega : k = 0 ∨ k = 1 ∨ k = 2 ∨ k = 3) with rfl | rfl | rfl | rfl
  · exact n0
  · exact n1
  · exact n2
  · exact n3

theorem nndistHamming_not_implemented (A : List α) (seq : List α) (ref : List (List α)) (m : Nat)
    (h : 4 < m) : nndistHamming A seq ref m = none := by
  unfold nndistHamming
  rw [if_pos h]
end hamn

end Prs

