/- Proofs/Engines.lean — every engine instance of Model/Engines.lean computes the specification
`SelfPairs` / `CrossPairs` of its mode. -/
import Prs.Model.Engines
import Prs.Proofs.Symdel
import Prs.Proofs.LookupDB
import Prs.Proofs.KdTree
import Prs.Proofs.NeighborUtils
namespace Prs
variable {α : Type} [DecidableEq α]

/-! ### score facts -/
theorem levScore_symm (k : Nat) (a b : List α) : levScore k a b = levScore k b a := by
  simp only [levScore, lev_comm a b]

theorem levScore_lev {k : Nat} {a b : List α} {d : Nat} (h : levScore k a b = some d) :
    lev a b ≤ k ∧ d = lev a b := by
  unfold levScore at h
  split at h
  · exact ⟨by assumption, (Option.some.inj h).symm⟩
  · cases h

theorem levScore_iff (k : Nat) (a b : List α) (d : Nat) :
    levScore k a b = some d ↔ lev a b ≤ k ∧ d = lev a b := by
  constructor
  · exact levScore_lev
  · rintro ⟨h, rfl⟩; simp [levScore, h]

theorem hamScore_symm (k : Nat) (a b : List α) : hamScore k a b = hamScore k b a := by
  simp only [hamScore, ham_comm a b]

theorem hamScore_iff (k : Nat) (a b : List α) (d : Nat) :
    hamScore k a b = some d ↔ a.length = b.length ∧ mismatches a b = d ∧ d ≤ k := by
  unfold hamScore ham
  by_cases hl : a.length = b.length
  · simp only [hl, if_true]
    by_cases hk : mismatches a b ≤ k
    · simp only [hk, if_true, Option.some.injEq, true_and]
      constructor
      · rintro rfl; exact ⟨rfl, hk⟩
      · rintro ⟨rfl, _⟩; rfl
    · simp only [hk, if_false, true_and]
      constructor
      · intro h; cases h
      · rintro ⟨rfl, h⟩; exact absurd h hk
  · simp [hl]

theorem hamScore_lev {k : Nat} {a b : List α} {d : Nat} (h : hamScore k a b = some d) :
    lev a b ≤ k ∧ a.length = b.length := by
  obtain ⟨hl, hm, hk⟩ := (hamScore_iff k a b d).1 h
  exact ⟨Nat.le_trans (lev_le_mismatches a b hl) (hm ▸ hk), hl⟩

section custom
variable {D : Type}
theorem customScore_iff (k : Nat) (cd : List α → List α → D) (inR : D → Bool) (a b : List α) (d : D) :
    customScore k cd inR a b = some d ↔ lev a b ≤ k ∧ inR (cd a b) = true ∧ d = cd a b := by
  unfold customScore
  split
  · rename_i h
    simp only [Option.some.injEq]
    exact ⟨fun e => ⟨h.1, h.2, e.symm⟩, fun e => e.2.2.symm⟩
  · rename_i h
    constructor
    · intro e; cases e
    · rintro ⟨h1, h2, _⟩; exact absurd ⟨h1, h2⟩ h

theorem customScore_symm (k : Nat) (cd : List α → List α → D) (inR : D → Bool)
    (hcd : ∀ a b, cd a b = cd b a) (a b : List α) :
    customScore k cd inR a b = customScore k cd inR b a := by
  simp only [customScore, lev_comm a b, hcd a b]
end custom

/-! ### symdel instances -/
theorem symdelDefault_iff (k : Nat) (xs : List (List α)) (t : Trip Nat) :
    t ∈ symdelDefault k xs ↔ SelfPairs (levScore k) xs t :=
  symdelSelf_exact _ _ _ (levScore_symm k)
    (fun a b _ h => symdel_complete k a b (levScore_lev h).1) t

theorem symdelTwoDefault_iff (k : Nat) (ref qs : List (List α)) (t : Trip Nat) :
    t ∈ symdelTwoDefault k ref qs ↔ CrossPairs (levScore k) ref qs t :=
  symdelLookup_exact _ _ _ _ (fun a b _ h => symdel_complete k a b (levScore_lev h).1) t

theorem symdelHamming_iff (k : Nat) (xs : List (List α)) (t : Trip Nat) :
    t ∈ symdelHamming k xs ↔ SelfPairs (hamScore k) xs t :=
  symdelSelf_exact _ _ _ (hamScore_symm k)
    (fun a b _ h => symdel_complete k a b (hamScore_lev h).1) t

theorem symdelTwoHamming_iff (k : Nat) (ref qs : List (List α)) (t : Trip Nat) :
    t ∈ symdelTwoHamming k ref qs ↔ CrossPairs (hamScore k) ref qs t :=
  symdelLookup_exact _ _ _ _ (fun a b _ h => symdel_complete k a b (hamScore_lev h).1) t

section custom2
variable {D : Type} [DecidableEq D]
theorem symdelCustom_iff (k : Nat) (cd : List α → List α → D) (inR : D → Bool)
    (hcd : ∀ a b, cd a b = cd b a) (xs : List (List α)) (t : Trip D) :
    t ∈ symdelCustom k cd inR xs ↔ SelfPairs (customScore k cd inR) xs t :=
  symdelSelf_exact _ _ _ (customScore_symm k cd inR hcd)
    (fun a b d h => symdel_complete k a b ((customScore_iff k cd inR a b d).1 h).1) t

theorem symdelTwoCustom_iff (k : Nat) (cd : List α → List α → D) (inR : D → Bool)
    (ref qs : List (List α)) (t : Trip D) :
    t ∈ symdelTwoCustom k cd inR ref qs ↔ CrossPairs (customScore k cd inR) ref qs t :=
  symdelLookup_exact _ _ _ _
    (fun a b d h => symdel_complete k a b ((customScore_iff k cd inR a b d).1 h).1) t

theorem hashCustom_iff (A : List α) (cd : List α → List α → D) (inR : D → Bool)
    (xs : List (List α)) (k : Nat) (hA : ∀ s ∈ xs, ∀ c ∈ s, c ∈ A) (t : Trip D) :
    t ∈ hashCustom A cd inR xs k ↔ SelfPairs (customScore k cd inR) xs t := by
  obtain ⟨i, j, d⟩ := t
  unfold hashCustom
  rw [mem_lookupDB]
  simp only [SelfPairs, customScore_iff]
  constructor
  · rintro ⟨a, b, ha, hb, hball, hp, hk, rfl⟩
    exact ⟨a, b, by simpa using hp, ha, hb,
      (bfsBall_lev_keys A a b k (hA b (List.mem_of_getElem? hb))).1 hball, hk, rfl⟩
  · rintro ⟨a, b, hne, ha, hb, hl, hk, rfl⟩
    exact ⟨a, b, ha, hb, (bfsBall_lev_keys A a b k (hA b (List.mem_of_getElem? hb))).2 hl,
      by simpa using hne, hk, rfl⟩
end custom2

/-! ### hash_based instances -/
theorem hashDefault_iff (A : List α) (xs : List (List α)) (k : Nat)
    (hA : ∀ s ∈ xs, ∀ c ∈ s, c ∈ A) (t : Trip Nat) :
    t ∈ hashDefault A xs k ↔ SelfPairs (levScore k) xs t := by
  obtain ⟨i, j, d⟩ := t
  unfold hashDefault lookupDefault
  rw [mem_lookupDB]
  simp only [SelfPairs, levScore_iff]
  constructor
  · rintro ⟨a, b, ha, hb, hball, hp, _, rfl⟩
    exact ⟨a, b, by simpa using hp, ha, hb,
      (bfsBall_lev_keys A a b k (hA b (List.mem_of_getElem? hb))).1 hball, rfl⟩
  · rintro ⟨a, b, hne, ha, hb, hl, rfl⟩
    exact ⟨a, b, ha, hb, (bfsBall_lev_keys A a b k (hA b (List.mem_of_getElem? hb))).2 hl,
      by simpa using hne, trivial, rfl⟩

theorem hashHamming_iff (A : List α) (xs : List (List α)) (k : Nat)
    (hA : ∀ s ∈ xs, ∀ c ∈ s, c ∈ A) (i j : Nat) (od : Option Nat) :
    (i, j, od) ∈ hashHamming A xs k ↔ ∃ d, od = some d ∧ SelfPairs (hamScore k) xs (i, j, d) := by
  unfold hashHamming
  rw [mem_lookupDB]
  simp only [SelfPairs, hamScore_iff]
  constructor
  · rintro ⟨a, b, ha, hb, hball, hp, _, rfl⟩
    obtain ⟨d, hd, hk⟩ := (bfsBall_ham_keys A a b k (hA b (List.mem_of_getElem? hb))).1 hball
    obtain ⟨hl, hm⟩ := (ham_eq_some_iff a b d).1 hd
    exact ⟨d, hd, a, b, by simpa using hp, ha, hb, hl, hm, hk⟩
  · rintro ⟨d, rfl, a, b, hne, ha, hb, hl, hm, hk⟩
    have hd : ham a b = some d := (ham_eq_some_iff a b d).2 ⟨hl, hm⟩
    exact ⟨a, b, ha, hb, (bfsBall_ham_keys A a b k (hA b (List.mem_of_getElem? hb))).2 ⟨d, hd, hk⟩,
      by simpa using hne, trivial, hd.symm⟩

end Prs

namespace Prs
variable {α : Type} [DecidableEq α]

/-! ### the specifications spelled out -/
theorem selfPairs_lev (k : Nat) (xs : List (List α)) (i j d : Nat) :
    SelfPairs (levScore k) xs (i, j, d) ↔
      ∃ a b, i ≠ j ∧ xs[i]? = some a ∧ xs[j]? = some b ∧ lev a b ≤ k ∧ d = lev a b := by
  simp only [SelfPairs, levScore_iff]

theorem selfPairs_ham (k : Nat) (xs : List (List α)) (i j d : Nat) :
    SelfPairs (hamScore k) xs (i, j, d) ↔
      ∃ a b, i ≠ j ∧ xs[i]? = some a ∧ xs[j]? = some b ∧ a.length = b.length ∧
        mismatches a b = d ∧ d ≤ k := by
  simp only [SelfPairs, hamScore_iff]

theorem crossPairs_ham (k : Nat) (ref qs : List (List α)) (q r d : Nat) :
    CrossPairs (hamScore k) ref qs (q, r, d) ↔
      ∃ a b, qs[q]? = some a ∧ ref[r]? = some b ∧ a.length = b.length ∧
        mismatches a b = d ∧ d ≤ k := by
  simp only [CrossPairs, hamScore_iff]

theorem selfPairs_custom {D : Type} (k : Nat) (cd : List α → List α → D) (inR : D → Bool)
    (xs : List (List α)) (i j : Nat) (d : D) :
    SelfPairs (customScore k cd inR) xs (i, j, d) ↔
      ∃ a b, i ≠ j ∧ xs[i]? = some a ∧ xs[j]? = some b ∧ lev a b ≤ k ∧ inR (cd a b) = true ∧
        d = cd a b := by
  simp only [SelfPairs, customScore_iff]

theorem crossPairs_custom {D : Type} (k : Nat) (cd : List α → List α → D) (inR : D → Bool)
    (ref qs : List (List α)) (q r : Nat) (d : D) :
    CrossPairs (customScore k cd inR) ref qs (q, r, d) ↔
      ∃ a b, qs[q]? = some a ∧ ref[r]? = some b ∧ lev a b ≤ k ∧ inR (cd a b) = true ∧
        d = cd a b := by
  simp only [CrossPairs, customScore_iff]
end Prs
