/-
Proofs/Stats.lean — helper lemmas for Properties/C02 (pc = exact fraction of coinciding pairs,
row serialisation): finset-sum forms of `pc1`/`pc2`, permutation / relabelling invariance,
bounds, and injectivity of `joinWith` on separator-free cells.
-/
import Prs.Proofs.Prob8
import Prs.Model.Stats2
import Mathlib.Algebra.BigOperators.Ring.Finset
import Mathlib.Algebra.Order.BigOperators.Group.Finset
import Mathlib.Algebra.Order.Field.Rat
import Mathlib.Algebra.Order.Field.Basic
import Mathlib.Data.List.Perm.Basic
import Mathlib.Data.Finset.Image
import Mathlib.Tactic.Ring
import Mathlib.Tactic.FieldSimp
import Mathlib.Tactic.Linarith
import Mathlib.Tactic.Positivity

open Finset BigOperators
namespace Prs

section pc
variable {β : Type} [DecidableEq β]

theorem pc1_eq (xs : List β) :
    pc1 xs = ((∑ v ∈ xs.toFinset, xs.count v * (xs.count v - 1) : ℕ) : ℚ)
      / ((xs.length : ℚ) * ((xs.length : ℚ) - 1)) := by
  unfold pc1 pcN
  simp only [counts_sum, sumFall2_counts_eq]

theorem pc2_eq (as bs : List β) :
    pc2 as bs = ((∑ v ∈ as.toFinset, as.count v * bs.count v : ℕ) : ℚ)
      / ((as.length : ℚ) * (bs.length : ℚ)) := by
  unfold pc2
  rw [crossCount_eq]

theorem pc1_perm (xs ys : List β) (h : xs.Perm ys) : pc1 xs = pc1 ys := by
  rw [pc1_eq, pc1_eq, List.toFinset_eq_of_perm _ _ h, h.length_eq]
  congr 2
  refine Finset.sum_congr rfl fun v _ => ?_
  rw [h.count_eq]

theorem pc2_perm (as as' bs bs' : List β) (h1 : as.Perm as') (h2 : bs.Perm bs') :
    pc2 as bs = pc2 as' bs' := by
  rw [pc2_eq, pc2_eq, List.toFinset_eq_of_perm _ _ h1, h1.length_eq, h2.length_eq]
  congr 2
  refine Finset.sum_congr rfl fun v _ => ?_
  rw [h1.count_eq, h2.count_eq]

variable {γ : Type} [DecidableEq γ]

theorem toFinset_map' (f : β → γ) (xs : List β) : (xs.map f).toFinset = xs.toFinset.image f := by
  ext a; simp

theorem count_map_of_injOn (f : β → γ) (xs : List β) (v : β)
    (h : ∀ a ∈ xs, f a = f v → a = v) : (xs.map f).count (f v) = xs.count v := by
  induction xs with
  | nil => rfl
  | cons x xs ih =>
    have ih' := ih (fun a ha => h a (List.mem_cons_of_mem _ ha))
    rw [List.map_cons, List.count_cons, List.count_cons, ih']
    congr 1
    by_cases hx : x = v
    · subst hx; simp
    · have : f x ≠ f v := fun e => hx (h x (List.mem_cons_self) e)
      simp [hx, this]

/-- relabelling by a map that is injective ON the elements of the list leaves pc unchanged -/
theorem pc1_map_injOn (f : β → γ) (xs : List β)
    (hf : ∀ a ∈ xs, ∀ b ∈ xs, f a = f b → a = b) : pc1 (xs.map f) = pc1 xs := by
  rw [pc1_eq, pc1_eq, List.length_map, toFinset_map',
    Finset.sum_image (fun a ha b hb e => hf a (List.mem_toFinset.1 ha) b (List.mem_toFinset.1 hb) e)]
  congr 2
  refine Finset.sum_congr rfl fun v hv => ?_
  rw [count_map_of_injOn f xs v (fun a ha e => hf a ha v (List.mem_toFinset.1 hv) e)]

theorem pc2_map_inj (f : β → γ) (hf : Function.Injective f) (as bs : List β) :
    pc2 (as.map f) (bs.map f) = pc2 as bs := by
  rw [pc2_eq, pc2_eq, List.length_map, List.length_map, toFinset_map',
    Finset.sum_image (fun a _ b _ e => hf e)]
  congr 2
  refine Finset.sum_congr rfl fun v _ => ?_
  rw [List.count_map_of_injective _ f hf, List.count_map_of_injective _ f hf]

theorem pc2_map_injOn (f : β → γ) (as bs : List β)
    (hf : ∀ a ∈ as ++ bs, ∀ b ∈ as ++ bs, f a = f b → a = b) :
    pc2 (as.map f) (bs.map f) = pc2 as bs := by
  rw [pc2_eq, pc2_eq, List.length_map, List.length_map, toFinset_map',
    Finset.sum_image (fun a ha b hb e => hf a (List.mem_append_left _ (List.mem_toFinset.1 ha))
      b (List.mem_append_left _ (List.mem_toFinset.1 hb)) e)]
  congr 2
  refine Finset.sum_congr rfl fun v hv => ?_
  have hv' : v ∈ as ++ bs := List.mem_append_left _ (List.mem_toFinset.1 hv)
  rw [count_map_of_injOn f as v (fun a ha e => hf a (List.mem_append_left _ ha) v hv' e),
    count_map_of_injOn f bs v (fun a ha e => hf a (List.mem_append_right _ ha) v hv' e)]

/-- `Σ c(c−1) ≤ N(N−1)` -/
theorem sumFall2_counts_le (xs : List β) :
    sumFall2 (counts xs) ≤ xs.length * (xs.length - 1) := by
  rw [sumFall2_counts_eq]
  calc ∑ v ∈ xs.toFinset, xs.count v * (xs.count v - 1)
      ≤ ∑ v ∈ xs.toFinset, xs.count v * (xs.length - 1) :=
        Finset.sum_le_sum fun v _ =>
          Nat.mul_le_mul_left _ (Nat.sub_le_sub_right List.count_le_length 1)
    _ = xs.length * (xs.length - 1) := by
        rw [← Finset.sum_mul, List.sum_toFinset_count_eq_length]

theorem crossCount_le (as bs : List β) : crossCount as bs ≤ as.length * bs.length := by
  rw [crossCount_counts]
  refine (Finset.card_filter_le _ _).trans ?_
  simp

end pc

/-! ### `joinWith` is injective on rows of equal width with separator-free cells -/

theorem append_sep_inj (sep : Char) (a b s t : List Char) (ha : sep ∉ a) (hb : sep ∉ b)
    (h : a ++ sep :: s = b ++ sep :: t) : a = b ∧ s = t := by
  induction a generalizing b with
  | nil =>
    cases b with
    | nil => simpa using h
    | cons y b =>
      simp only [List.nil_append, List.cons_append, List.cons.injEq] at h
      exact absurd (h.1 ▸ List.mem_cons_self) hb
  | cons x a ih =>
    cases b with
    | nil =>
      simp only [List.nil_append, List.cons_append, List.cons.injEq] at h
      exact absurd (h.1 ▸ List.mem_cons_self) ha
    | cons y b =>
      simp only [List.cons_append, List.cons.injEq] at h
      obtain ⟨rfl, h⟩ := h
      obtain ⟨rfl, rfl⟩ := ih b (fun m => ha (List.mem_cons_of_mem _ m))
        (fun m => hb (List.mem_cons_of_mem _ m)) h
      exact ⟨rfl, rfl⟩

theorem joinWith_inj (sep : Char) (l l' : List (List Char)) (hw : l.length = l'.length)
    (h : ∀ c ∈ l, sep ∉ c) (h' : ∀ c ∈ l', sep ∉ c)
    (e : joinWith sep l = joinWith sep l') : l = l' := by
  induction l generalizing l' with
  | nil =>
    cases l' with
    | nil => rfl
    | cons _ _ => simp at hw
  | cons c l ih =>
    cases l' with
    | nil => simp at hw
    | cons c' l' =>
      simp only [List.length_cons, Nat.add_right_cancel_iff] at hw
      cases l with
      | nil =>
        cases l' with
        | nil => simpa [joinWith] using e
        | cons _ _ => simp at hw
      | cons d l =>
        cases l' with
        | nil => simp at hw
        | cons d' l' =>
          simp only [joinWith] at e
          obtain ⟨rfl, e'⟩ := append_sep_inj sep c c' _ _ (h c List.mem_cons_self)
            (h' c' List.mem_cons_self) e
          rw [ih (d' :: l') hw (fun x hx => h x (List.mem_cons_of_mem _ hx))
            (fun x hx => h' x (List.mem_cons_of_mem _ hx)) e']

end Prs
