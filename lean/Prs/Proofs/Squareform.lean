/-
Proofs/Squareform.lean — `squareform` round trip: a symmetric constant-diagonal matrix is rebuilt
from its condensed vector (core Lean only).
-/
import Prs.Proofs.Condensed
namespace Prs

/-! ### squareform round trip -/
section square
variable {D : Type}

/-- `squareform(v)`: rebuild the symmetric zero-diagonal m × m matrix from the condensed vector -/
def squareOf (m : Nat) (v : List D) (zero : D) : List (List D) :=
  (List.range m).map fun i => (List.range m).map fun j =>
    if i = j then zero
    else if i < j then v.getD (condensedIndex m i j) zero
    else v.getD (condensedIndex m j i) zero

theorem squareOf_isSquare (m : Nat) (v : List D) (zero : D) : IsSquare m (squareOf m v zero) := by
  constructor
  · simp [squareOf]
  · intro r hr
    simp only [squareOf, List.mem_map] at hr
    obtain ⟨_, _, rfl⟩ := hr
    simp

theorem squareOf_entry (m : Nat) (v : List D) (zero : D) (i j : Nat) (hi : i < m) (hj : j < m) :
    ((squareOf m v zero)[i]?.bind (·[j]?)) =
      some (if i = j then zero
            else if i < j then v.getD (condensedIndex m i j) zero
            else v.getD (condensedIndex m j i) zero) := by
  simp [squareOf, hi, hj]

/-- two square matrices with the same entries are equal -/
theorem square_ext (m : Nat) (M N : List (List D)) (hM : IsSquare m M) (hN : IsSquare m N)
    (h : ∀ i j, i < m → j < m → (M[i]?.bind (·[j]?)) = (N[i]?.bind (·[j]?))) : M = N := by
  obtain ⟨hMl, hMr⟩ := hM
  obtain ⟨hNl, hNr⟩ := hN
  apply List.ext_getElem (by omega)
  intro i hi1 hi2
  have hi : i < m := by omega
  have hr1 : (M[i]).length = m := hMr _ (List.getElem_mem hi1)
  have hr2 : (N[i]).length = m := hNr _ (List.getElem_mem hi2)
  apply List.ext_getElem (by omega)
  intro j hj1 hj2
  have hj : j < m := by omega
  have := h i j hi hj
  rw [List.getElem?_eq_getElem hi1, List.getElem?_eq_getElem hi2] at this
  simpa [hj1, hj2] using this

theorem squareOf_condensed (m : Nat) (M : List (List D)) (zero : D) (h : IsSquare m M)
    (hsym : ∀ i j, i < m → j < m → (M[i]?.bind (·[j]?)) = (M[j]?.bind (·[i]?)))
    (hdiag : ∀ i, i < m → (M[i]?.bind (·[i]?)) = some zero) :
    squareOf m (condensed M) zero = M := by
  apply square_ext m _ _ (squareOf_isSquare _ _ _) h
  intro i j hi hj
  rw [squareOf_entry m _ zero i j hi hj]
  by_cases hij : i = j
  · subst hij; simp [hdiag i hi]
  · rw [if_neg hij]
    by_cases hlt : i < j
    · rw [if_pos hlt]
      obtain ⟨d, hd, hc⟩ := condensed_index_some m M h i j hlt hj
      rw [hd, List.getD_eq_getElem?_getD, hc]; rfl
    · rw [if_neg hlt]
      have hlt' : j < i := by omega
      obtain ⟨d, hd, hc⟩ := condensed_index_some m M h j i hlt' hi
      rw [hsym i j hi hj, hd, List.getD_eq_getElem?_getD, hc]; rfl

end square

end Prs
