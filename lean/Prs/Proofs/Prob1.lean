import Mathlib.Algebra.BigOperators.Ring.Finset
import Mathlib.Algebra.BigOperators.Group.Finset.Piecewise
import Mathlib.Algebra.BigOperators.Fin
import Mathlib.Data.Rat.Defs
import Mathlib.Tactic.Ring
import Mathlib.Tactic.FieldSimp
import Mathlib.Tactic.Linarith

open Finset BigOperators

namespace Prs
variable {N K : ℕ}

def w (p : Fin K → ℚ) (x : Fin N → Fin K) : ℚ := ∏ i, p (x i)

theorem sum_w_prod (p : Fin K → ℚ) (g : Fin N → Fin K → ℚ) :
    ∑ x : Fin N → Fin K, w p x * ∏ i, g i (x i) = ∏ i : Fin N, ∑ v, p v * g i v := by
  rw [Finset.prod_univ_sum]
  simp only [Fintype.piFinset_univ, w, Finset.prod_mul_distrib]

/-- indicator that coordinate `i` of the sample equals `k`, as a per-coordinate function -/
def at1 (i : Fin N) (k : Fin K) : Fin N → Fin K → ℚ :=
  fun l v => if l = i then (if v = k then 1 else 0) else 1

theorem prod_at1 (i : Fin N) (k : Fin K) (x : Fin N → Fin K) :
    ∏ l, at1 i k l (x l) = if x i = k then 1 else 0 := by
  unfold at1
  rw [Finset.prod_ite_eq' (s := univ) (a := i) (b := fun l => if x l = k then (1:ℚ) else 0)]
  simp

theorem sum_at1 (p : Fin K → ℚ) (hp : ∑ v, p v = 1) (i l : Fin N) (k : Fin K) :
    ∑ v, p v * at1 i k l v = if l = i then p k else 1 := by
  unfold at1
  split
  · simp
  · simpa using hp

theorem pair_coincidence (p : Fin K → ℚ) (hp : ∑ v, p v = 1) (i j : Fin N) (hij : i ≠ j) :
    ∑ x : Fin N → Fin K, w p x * (if x i = x j then 1 else 0) = ∑ k, p k ^ 2 := by
  have h1 : ∀ x : Fin N → Fin K, (if x i = x j then (1:ℚ) else 0)
      = ∑ k, ∏ l, (at1 i k l (x l) * at1 j k l (x l)) := by
    intro x
    simp only [Finset.prod_mul_distrib, prod_at1]
    rw [Finset.sum_eq_single (x i)]
    · simp [eq_comm]
    · intro b _ hb; simp [Ne.symm hb]
    · simp
  simp only [h1, Finset.mul_sum]
  rw [Finset.sum_comm]
  refine Finset.sum_congr rfl fun k _ => ?_
  rw [sum_w_prod p (fun l v => at1 i k l v * at1 j k l v)]
  have : ∀ l : Fin N, ∑ v, p v * (at1 i k l v * at1 j k l v)
      = (if l = i then p k else 1) * (if l = j then p k else 1) := by
    intro l
    by_cases hli : l = i
    · subst hli
      have : l ≠ j := hij
      simp [at1, this]
    · by_cases hlj : l = j
      · subst hlj; simp [at1, hli]
      · simp [at1, hli, hlj, hp]
  simp only [this, Finset.prod_mul_distrib, Finset.prod_ite_eq', Finset.mem_univ, if_true]
  ring
end Prs
