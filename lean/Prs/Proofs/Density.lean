/- Proofs/Density.lean — density_scatter (discrete): each distinct point once, with its multiplicity, densest last. -/
import Prs.Model.Extra
import Prs.Proofs.Util
namespace Prs

theorem uniquePoints_fst_perm (pts : List (Rat × Rat)) :
    ((uniquePoints pts).map (·.1)).Perm (dedup pts) := by
  unfold uniquePoints
  rw [List.map_map]
  have : ((fun x : (Rat × Rat) × Nat => x.1) ∘ fun p => (p, pts.count p)) = id := by funext p; rfl
  rw [this, List.map_id]
  exact List.mergeSort_perm _ _

theorem density_perm (sort : Bool) (pts : List (Rat × Rat)) :
    (densityScatterDiscrete sort pts).Perm (uniquePoints pts) := by
  unfold densityScatterDiscrete
  split
  · exact List.mergeSort_perm _ _
  · exact List.Perm.refl _

theorem density_fst_perm (sort : Bool) (pts : List (Rat × Rat)) :
    ((densityScatterDiscrete sort pts).map (·.1)).Perm (dedup pts) :=
  ((density_perm sort pts).map _).trans (uniquePoints_fst_perm pts)

theorem density_mem {sort : Bool} {pts : List (Rat × Rat)} {e : (Rat × Rat) × Nat}
    (h : e ∈ densityScatterDiscrete sort pts) : e.1 ∈ pts ∧ e.2 = pts.count e.1 := by
  have h' := (density_perm sort pts).mem_iff.1 h
  unfold uniquePoints at h'
  rcases List.mem_map.1 h' with ⟨p, hp, rfl⟩
  have hp' : p ∈ dedup pts := (List.mergeSort_perm _ _).mem_iff.1 hp
  exact ⟨(mem_dedup p pts).1 hp', rfl⟩

theorem density_sorted (pts : List (Rat × Rat)) :
    (densityScatterDiscrete true pts).Pairwise (fun a b => a.2 ≤ b.2) := by
  unfold densityScatterDiscrete
  simp only [if_true]
  have := List.pairwise_mergeSort (le := fun (a b : (Rat × Rat) × Nat) => decide (a.2 ≤ b.2))
    (fun a b c hab hbc => by simp only [decide_eq_true_eq] at *; omega)
    (fun a b => by simp only [Bool.or_eq_true, decide_eq_true_eq]; omega) (uniquePoints pts)
  exact this.imp (fun h => by simpa using h)

end Prs
