import Prs.Proofs.Prob3
import Mathlib.Data.Finset.Prod
import Mathlib.Tactic.Linarith
import Mathlib.Tactic.Ring
import Mathlib.Tactic.Push

open Finset BigOperators
namespace Prs
variable {N K : ℕ}

abbrev D (N : ℕ) : Finset (Fin N × Fin N) := (univ : Finset (Fin N)).offDiag

theorem card_pair {i j : Fin N} (h : i ≠ j) : ({i, j} : Finset (Fin N)).card = 2 :=
  Finset.card_pair h

/-- pairs disjoint from {i,j} are the off-diagonal pairs of the complement -/
theorem disj_filter (i j : Fin N) :
    (D N).filter (fun b => Disjoint ({i, j} : Finset (Fin N)) {b.1, b.2})
      = ((univ : Finset (Fin N)) \ {i, j}).offDiag := by
  ext ⟨k, l⟩
  simp only [D, mem_filter, mem_offDiag, mem_univ, true_and, mem_sdiff, mem_insert,
    mem_singleton, disjoint_insert_right, disjoint_singleton_right, not_or]
  tauto

theorem card_disj (i j : Fin N) (h : i ≠ j) :
    ((D N).filter (fun b => Disjoint ({i, j} : Finset (Fin N)) {b.1, b.2})).card
      = (N - 2) * (N - 2) - (N - 2) := by
  rw [disj_filter, Finset.offDiag_card]
  have : ((univ : Finset (Fin N)) \ {i, j}).card = N - 2 := by
    rw [Finset.card_sdiff_of_subset (Finset.subset_univ _), card_pair h]; simp
  rw [this]

/-- for an overlapping off-diagonal pair the union has 2 or 3 elements -/
theorem card_union_overlap (i j k l : Fin N) (hij : i ≠ j) (hkl : k ≠ l)
    (hd : ¬ Disjoint ({i, j} : Finset (Fin N)) {k, l}) :
    (({i, j} : Finset (Fin N)) ∪ {k, l}).card
      = if (k, l) = (i, j) ∨ (k, l) = (j, i) then 2 else 3 := by
  simp only [disjoint_insert_right, disjoint_singleton_right, mem_insert, mem_singleton,
    not_and_or, not_not, not_or] at hd
  simp only [Prod.mk.injEq]
  by_cases h1 : k = i <;> by_cases h2 : l = j <;> by_cases h3 : k = j <;> by_cases h4 : l = i <;>
    simp_all
  · exact Finset.card_pair (fun h => h2 h.symm)
  · rw [Finset.card_insert_of_notMem (by simp; exact ⟨hij, fun h => h4 h.symm⟩),
      Finset.card_pair (fun h => h2 h.symm)]
  · exact Finset.card_pair (fun h => hij h.symm)
end Prs
