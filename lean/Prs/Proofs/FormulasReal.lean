/-
Proofs/FormulasReal.lean — `powerlaw_sample` and the two closed forms of `powerlaw_mle_alpha` as GENERATED from
pyrepseq/stats.py (Generated/FormulasReal, written by tools/gen_formulas.py on every run) are the real-number
expressions the C17 power-law theorems are about.
-/
import Prs.Generated.FormulasReal
import Prs.Proofs.Powerlaw
import Mathlib.Analysis.Complex.Exponential

namespace Prs

/-- every value of the generated `powerlaw_sample` is the floor expression of `powerlaw_ge_xmin` at one of the draws -/
theorem gen_powerlaw_sample_mem (r : List ℝ) (xmin α v : ℝ) :
    v ∈ Generated.powerlaw_sample r xmin α ↔
      ∃ x ∈ r, v = ((⌊(xmin - 1/2) * (1 - x) ^ (-1 / (α - 1)) + 1/2⌋ : ℤ) : ℝ) := by
  unfold Generated.powerlaw_sample
  rw [List.mem_map]
  constructor
  · rintro ⟨x, hx, rfl⟩
    exact ⟨x, hx, by ring_nf⟩
  · rintro ⟨x, hx, rfl⟩
    exact ⟨x, hx, by ring_nf⟩

theorem gen_powerlaw_sample_length (r : List ℝ) (xmin α : ℝ) :
    (Generated.powerlaw_sample r xmin α).length = r.length := by
  unfold Generated.powerlaw_sample
  rw [List.length_map]

/-- what `c[c >= cmin]` keeps -/
noncomputable def kept (c : List ℝ) (cmin : ℝ) : List ℝ := c.filter fun x => decide (x ≥ cmin)

theorem gen_mle_simple_eq (c : List ℝ) (cmin : ℝ) :
    Generated.powerlaw_mle_alpha_simple c cmin
      = 1 + ((kept c cmin).length : ℝ) / ((kept c cmin).map fun x => Real.log (x / cmin)).sum := by
  unfold Generated.powerlaw_mle_alpha_simple kept
  first | rfl | (ring_nf; simp only [mul_comm])

theorem gen_mle_cc_eq (c : List ℝ) (cmin : ℝ) :
    Generated.powerlaw_mle_alpha_continuitycorrection c cmin
      = 1 + ((kept c cmin).length : ℝ) / ((kept c cmin).map fun x => Real.log (x / (cmin - 1/2))).sum := by
  unfold Generated.powerlaw_mle_alpha_continuitycorrection kept
  first | rfl | (ring_nf; simp only [mul_comm])

/-! ### the objective of `method="exact"`: the discrete power-law log-likelihood (SciPy's Hurwitz zeta is a parameter) -/

/-- `_discrete_loglikelihood(x, alpha, xmin)`: −n·ln ζ(α, xmin) − α·Σ ln x over the counts ≥ xmin -/
noncomputable def discreteLogLik (zeta : ℝ → ℝ → ℝ) (x : List ℝ) (α xmin : ℝ) : ℝ :=
  -((kept x xmin).length : ℝ) * Real.log (zeta α xmin) - α * ((kept x xmin).map Real.log).sum

theorem gen_loglik_eq (zeta : ℝ → ℝ → ℝ) (x : List ℝ) (α xmin : ℝ) :
    Generated.discrete_loglikelihood zeta x α xmin = discreteLogLik zeta x α xmin := by
  unfold Generated.discrete_loglikelihood discreteLogLik kept
  first | rfl | (ring_nf; simp only [mul_comm])

/-- a sum of logarithms of the probability mass function v ↦ v^(−α) / Z -/
theorem sum_log_pmf (l : List ℝ) (α Z : ℝ) (hZ : 0 < Z) (hl : ∀ v ∈ l, 0 < v) :
    (l.map fun v => Real.log (v ^ (-α) / Z)).sum = -(l.length : ℝ) * Real.log Z - α * (l.map Real.log).sum := by
  induction l with
  | nil => simp
  | cons v l ih =>
    have hv : 0 < v := hl v List.mem_cons_self
    have hp : 0 < v ^ (-α) := Real.rpow_pos_of_pos hv _
    rw [List.map_cons, List.sum_cons, ih (fun w hw => hl w (List.mem_cons_of_mem _ hw)),
      Real.log_div hp.ne' hZ.ne', Real.log_rpow hv, List.map_cons, List.sum_cons, List.length_cons]
    push_cast
    ring

/-- so `discreteLogLik` IS the log-likelihood of the kept counts under p(v) = v^(−α) / ζ(α, xmin), whenever the normaliser
is positive and the kept counts are (as counts ≥ xmin > 0 are) -/
theorem discreteLogLik_eq_sum_log_pmf (zeta : ℝ → ℝ → ℝ) (x : List ℝ) (α xmin : ℝ) (hx : 0 < xmin)
    (hZ : 0 < zeta α xmin) :
    discreteLogLik zeta x α xmin = ((kept x xmin).map fun v => Real.log (v ^ (-α) / zeta α xmin)).sum := by
  rw [sum_log_pmf _ α _ hZ]
  · rfl
  · intro v hv
    have : v ≥ xmin := by simpa [kept] using (List.mem_filter.mp hv).2
    linarith

/-- the likelihood itself: the product of the probability masses is the exponential of `discreteLogLik` -/
theorem likelihood_eq_exp_logLik (zeta : ℝ → ℝ → ℝ) (x : List ℝ) (α xmin : ℝ) (hx : 0 < xmin) (hZ : 0 < zeta α xmin) :
    ((kept x xmin).map fun v => v ^ (-α) / zeta α xmin).prod = Real.exp (discreteLogLik zeta x α xmin) := by
  rw [discreteLogLik_eq_sum_log_pmf zeta x α xmin hx hZ, Real.exp_list_sum, List.map_map]
  congr 1
  apply List.map_congr_left
  intro v hv
  have hvx : v ≥ xmin := by simpa [kept] using (List.mem_filter.mp hv).2
  have hv0 : 0 < v := by linarith
  simp only [Function.comp]
  rw [Real.exp_log (div_pos (Real.rpow_pos_of_pos hv0 _) hZ)]

end Prs
