/-
Proofs/FormulasReal.lean — `powerlaw_sample` and the two closed forms of `powerlaw_mle_alpha` as GENERATED from
pyrepseq/stats.py (Generated/FormulasReal, written by tools/gen_formulas.py on every run) are the real-number
expressions the C17 power-law theorems are about.
-/
import Prs.Generated.FormulasReal
import Prs.Proofs.Powerlaw

namespace Prs

/-- every value of the generated `powerlaw_sample` is the floor expression of `powerlaw_ge_xmin` at one of the draws -/
theorem gen_powerlaw_sample_mem (r : List ℝ) (xmin α v : ℝ) :
    v ∈ Generated.powerlaw_sample r xmin α ↔
      ∃ x ∈ r, v = ((⌊(xmin - 1/2) * (1 - x) ^ (-1 / (α - 1)) + 1/2⌋ : ℤ) : ℝ) := by
  unfold Generated.powerlaw_sample
  rw [List.mem_map]
  constructor
  · rintro ⟨x, hx, rfl⟩
    exact ⟨x, hx, by ring_nf⟩
  · rintro ⟨x, hx, rfl⟩
    exact ⟨x, hx, by ring_nf⟩

theorem gen_powerlaw_sample_length (r : List ℝ) (xmin α : ℝ) :
    (Generated.powerlaw_sample r xmin α).length = r.length := by
  unfold Generated.powerlaw_sample
  rw [List.length_map]

/-- what `c[c >= cmin]` keeps -/
noncomputable def kept (c : List ℝ) (cmin : ℝ) : List ℝ := c.filter fun x => decide (x ≥ cmin)

theorem gen_mle_simple_eq (c : List ℝ) (cmin : ℝ) :
    Generated.powerlaw_mle_alpha_simple c cmin
      = 1 + ((kept c cmin).length : ℝ) / ((kept c cmin).map fun x => Real.log (x / cmin)).sum := by
  unfold Generated.powerlaw_mle_alpha_simple kept
  first | rfl | (ring_nf; simp only [mul_comm])

theorem gen_mle_cc_eq (c : List ℝ) (cmin : ℝ) :
    Generated.powerlaw_mle_alpha_continuitycorrection c cmin
      = 1 + ((kept c cmin).length : ℝ) / ((kept c cmin).map fun x => Real.log (x / (cmin - 1/2))).sum := by
  unfold Generated.powerlaw_mle_alpha_continuitycorrection kept
  first | rfl | (ring_nf; simp only [mul_comm])

end Prs
