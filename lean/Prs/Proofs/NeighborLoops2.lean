/-
Proofs/NeighborLoops2.lean — `_isdist2_hamming`, `_isdist3_hamming`, `nndist_hamming` as GENERATED from
pyrepseq/distance.py are the hand-written models (`isdistHam`, `nndistHamming`) of Model/Neighbors.
-/
import Prs.Proofs.NeighborLoops

namespace Prs
variable {α : Type} [DecidableEq α] [Inhabited α]

namespace NL2

/-! ### Boolean plumbing: `!(isEmpty (flatMap …))` -/

theorem nonempty_flatMap {β : Type} (l : List β) (f : β → List Unit) :
    (!(l.flatMap f).isEmpty) = l.any (fun a => !(f a).isEmpty) := by
  induction l with
  | nil => rfl
  | cons a l ih =>
      rw [List.flatMap_cons, List.any_cons, ← ih]
      cases f a <;> simp

theorem nonempty_ite_nil (c : Prop) [Decidable c] (l : List Unit) :
    (!(if c then [] else l).isEmpty) = (!decide c && !l.isEmpty) := by
  by_cases h : c <;> simp [h]

theorem nonempty_ite_unit (c : Prop) [Decidable c] :
    (!(if c then [()] else ([] : List Unit)).isEmpty) = decide c := by
  by_cases h : c <;> simp [h]

/-! ### Int → Nat conversion of the Python built-ins -/

omit [DecidableEq α] in
theorem get_nat (x : List α) (i : Nat) : Py.get x (i : Int) = x.getD i default := by
  have h : ¬ ((i : Int) < 0) := by omega
  simp [Py.get, Py.norm, h]

omit [DecidableEq α] [Inhabited α] in
theorem sliceTo_nat (x : List α) (i : Nat) : Py.sliceTo x (i : Int) = x.take i := by
  have h : ¬ ((i : Int) < 0) := by omega
  simp [Py.sliceTo, Py.norm, h]

omit [DecidableEq α] [Inhabited α] in
theorem sliceFrom_nat (x : List α) (i : Nat) : Py.sliceFrom x ((i : Int) + 1) = x.drop (i + 1) := by
  have h : ¬ ((i : Int) + 1 < 0) := by omega
  have h2 : ((i : Int) + 1).toNat = i + 1 := by omega
  simp [Py.sliceFrom, Py.norm, h, h2]

theorem exists_range (a n : Nat) (P : Int → Prop) :
    (∃ i, i ∈ Py.range (a : Int) (n : Int) ∧ P i) ↔ ∃ k : Nat, a ≤ k ∧ k < n ∧ P (k : Int) := by
  constructor
  · rintro ⟨i, hi, hp⟩
    simp only [Py.range, List.mem_map, List.mem_range] at hi
    obtain ⟨k, hk, rfl⟩ := hi
    refine ⟨a + k, by omega, by omega, ?_⟩
    simpa using hp
  · rintro ⟨k, h1, h2, hp⟩
    refine ⟨(k : Int), ?_, hp⟩
    simp only [Py.range, List.mem_map, List.mem_range]
    exact ⟨k - a, by omega, by omega⟩

theorem exists_range0 (n : Nat) (P : Int → Prop) :
    (∃ i, i ∈ Py.range (0 : Int) (n : Int) ∧ P i) ↔ ∃ k : Nat, 0 ≤ k ∧ k < n ∧ P (k : Int) :=
  exists_range 0 n P

theorem exists_range_succ (a n : Nat) (P : Int → Prop) :
    (∃ i, i ∈ Py.range ((a : Int) + 1) (n : Int) ∧ P i) ↔ ∃ k : Nat, a + 1 ≤ k ∧ k < n ∧ P (k : Int) :=
  exists_range (a + 1) n P

/-! ### peeling off the first substituted position of `subsExact` -/

theorem peel (A : List α) (n : Nat) (s : List α) :
    ∀ (pre : List α) (p : List α → Prop),
    (∃ t, t ∈ subsExact A (n+1) s ∧ p (pre ++ t)) ↔
      ∃ j, pre.length ≤ j ∧ j < (pre ++ s).length ∧ ∃ b, b ∈ A ∧ b ≠ (pre ++ s).getD j default ∧
        ∃ t, t ∈ subsExact A n ((pre ++ s).drop (j+1)) ∧ p (((pre ++ s).take j ++ [b]) ++ t) := by
  induction s with
  | nil =>
      intro pre p
      simp [subsExact]
      intro j h1 h2
      omega
  | cons c s ih =>
      intro pre p
      have e1 : ∀ t, pre ++ c :: t = (pre ++ [c]) ++ t := by intro t; simp
      have e2 : pre ++ c :: s = (pre ++ [c]) ++ s := by simp
      constructor
      · rintro ⟨t, ht, hp⟩
        simp only [subsExact, List.mem_append, List.mem_flatMap, List.mem_map, List.mem_filter] at ht
        rcases ht with ⟨a, ⟨haA, hac⟩, t', ht', rfl⟩ | ⟨t', ht', rfl⟩
        · refine ⟨pre.length, Nat.le_refl _, by simp, a, haA, ?_, t', ?_, ?_⟩
          · simpa using hac
          · simpa using ht'
          · simpa using hp
        · rw [e1] at hp
          obtain ⟨j, h1, h2, b, hb, hne, t, ht, hp⟩ := (ih (pre ++ [c]) p).1 ⟨t', ht', hp⟩
          rw [← e2] at h2 hne ht hp
          refine ⟨j, ?_, h2, b, hb, hne, t, ht, hp⟩
          simp at h1; omega
      · rintro ⟨j, h1, h2, b, hb, hne, t, ht, hp⟩
        by_cases hj : j = pre.length
        · subst hj
          refine ⟨b :: t, ?_, ?_⟩
          · simp only [subsExact, List.mem_append, List.mem_flatMap, List.mem_map, List.mem_filter]
            left
            refine ⟨b, ⟨hb, ?_⟩, t, ?_, rfl⟩
            · simpa using hne
            · simpa using ht
          · simpa using hp
        · rw [e2] at h2 hne ht hp
          obtain ⟨t', ht', hp'⟩ := (ih (pre ++ [c]) p).2
            ⟨j, by simp; omega, h2, b, hb, hne, t, ht, hp⟩
          refine ⟨c :: t', ?_, ?_⟩
          · simp only [subsExact, List.mem_append, List.mem_flatMap, List.mem_map, List.mem_filter]
            right
            exact ⟨t', ht', rfl⟩
          · rw [e1]; exact hp'

/-- the nested Python loops on natural positions: `n` further positions ≥ `lo` of the current string `w` are
    substituted (the letter compared with is read in the ORIGINAL string `x`) -/
def loopP (A x : List α) (ref : List (List α)) : Nat → Nat → List α → Prop
  | 0, _, w => w ∈ ref
  | n+1, lo, w => ∃ j : Nat, lo ≤ j ∧ j < x.length ∧ ∃ b, b ∈ A ∧ ¬ b = x.getD j default ∧
      loopP A x ref n (j+1) ((w.take j ++ [b]) ++ w.drop (j+1))

theorem loopP_iff (A x : List α) (ref : List (List α)) (n : Nat) :
    ∀ (lo : Nat) (w : List α), lo ≤ x.length → w.length = x.length →
      (∀ k, lo ≤ k → w.getD k default = x.getD k default) →
      (loopP A x ref n lo w ↔ ∃ t, t ∈ subsExact A n (w.drop lo) ∧ w.take lo ++ t ∈ ref) := by
  induction n with
  | zero =>
      intro lo w _ _ _
      simp [loopP, subsExact]
  | succ n ih =>
      intro lo w hlo hlen hag
      have hw : w.take lo ++ w.drop lo = w := List.take_append_drop lo w
      have hpl : (w.take lo).length = lo := by simp; omega
      rw [peel A n (w.drop lo) (w.take lo) (fun y => y ∈ ref), hw, hpl, hlen]
      simp only [loopP]
      refine exists_congr fun j => and_congr_right fun h1 => and_congr_right fun h2 => ?_
      rw [hag j h1]
      refine exists_congr fun b => and_congr_right fun hb => and_congr_right fun hne => ?_
      have hl : ((w.take j ++ [b]) ++ w.drop (j+1)).length = x.length := by
        simp; omega
      have htk : ((w.take j ++ [b]) ++ w.drop (j+1)).take (j+1) = w.take j ++ [b] := by
        rw [List.take_append_of_le_length (by simp; omega)]
        apply List.take_of_length_le; simp; omega
      have hdr : ((w.take j ++ [b]) ++ w.drop (j+1)).drop (j+1) = w.drop (j+1) := by
        have : (w.take j ++ [b]).length = j + 1 := by simp; omega
        rw [← this, List.drop_left]
      rw [ih (j+1) _ (by omega) hl, htk, hdr]
      intro k hk
      have hlk : (w.take j ++ [b]).length ≤ k := by simp; omega
      rw [List.getD_eq_getElem?_getD, List.getElem?_append_right hlk]
      have : (w.take j ++ [b]).length = j + 1 := by simp; omega
      rw [this, List.getElem?_drop, ← hag k (by omega), List.getD_eq_getElem?_getD]
      congr 2; omega

theorem isdistHam_iff (A x : List α) (ref : List (List α)) (n : Nat) :
    isdistHam A n x ref = true ↔ loopP A x ref n 0 x := by
  rw [loopP_iff A x ref n 0 x (Nat.zero_le _) rfl (fun _ _ => rfl)]
  simp [isdistHam]

end NL2

open NL2 in
theorem gen_isdist2_eq (A x : List α) (ref : List (List α)) :
    Generated.isdist2_hamming x ref A = isdistHam A 2 x ref := by
  rw [Bool.eq_iff_iff, isdistHam_iff]
  unfold Generated.isdist2_hamming
  simp only [nonempty_flatMap, nonempty_ite_nil, nonempty_ite_unit, List.any_eq_true, Bool.and_eq_true,
    Bool.not_eq_true', decide_eq_false_iff_not, decide_eq_true_eq, exists_range0, exists_range_succ,
    get_nat, sliceTo_nat, sliceFrom_nat, loopP]

open NL2 in
theorem gen_isdist3_eq (A x : List α) (ref : List (List α)) :
    Generated.isdist3_hamming x ref A = isdistHam A 3 x ref := by
  rw [Bool.eq_iff_iff, isdistHam_iff]
  unfold Generated.isdist3_hamming
  simp only [nonempty_flatMap, nonempty_ite_nil, nonempty_ite_unit, List.any_eq_true, Bool.and_eq_true,
    Bool.not_eq_true', decide_eq_false_iff_not, decide_eq_true_eq, exists_range0, exists_range_succ,
    get_nat, sliceTo_nat, sliceFrom_nat, loopP]

theorem gen_nndist_hamming_eq (A seq : List α) (ref : List (List α)) (m : Nat) :
    Generated.nndist_hamming seq ref (m : Int) A = nndistHamming A seq ref m := by
  have hfun : (fun y => Generated.hamming_neighbors y A none) = hamNeighbors A := by
    funext y; exact gen_hamming_neighbors_eq A y
  have h4 : ((m : Int) > 4) ↔ m > 4 := by omega
  have h1 : ((m : Int) = 1) ↔ m = 1 := by omega
  have h2 : ((m : Int) = 2) ↔ m = 2 := by omega
  have h3 : ((m : Int) = 3) ↔ m = 3 := by omega
  unfold Generated.nndist_hamming nndistHamming
  rw [hfun, gen_isdist1_eq, gen_isdist2_eq, gen_isdist3_eq]
  simp only [h4, h1, h2, h3, decide_eq_true_eq, beq_iff_eq, Bool.or_eq_true]

end Prs
