/-
Proofs/Hist.lean — k edits move any binned letter-count vector by squared Euclidean distance ≤ 2k²
(the kd-tree radius √2·k is sufficient for every compression). `g` is an arbitrary binning.
-/
import Prs.Proofs.Lev
import Mathlib.Algebra.Order.BigOperators.Ring.Finset
import Mathlib.Algebra.BigOperators.Group.Finset.Piecewise
import Mathlib.Tactic.Ring
import Mathlib.Tactic.Linarith
import Mathlib.Tactic.Positivity

open Finset BigOperators
namespace Prs
variable {α : Type} {m : ℕ}

/-- number of letters of `a` falling in bin `t` under binning `g` (any compression) -/
def cnt (g : α → Fin m) (t : Fin m) : List α → ℤ
  | [] => 0
  | x :: a => cnt g t a + (if g x = t then 1 else 0)

def posZ (g : α → Fin m) (a b : List α) : ℤ := ∑ t, max (cnt g t a - cnt g t b) 0
def sqdistZ (g : α → Fin m) (a b : List α) : ℤ := ∑ t, (cnt g t a - cnt g t b) ^ 2

theorem sum_bin_ind (g : α → Fin m) (x : α) : ∑ t : Fin m, (if g x = t then (1:ℤ) else 0) = 1 := by
  simp

theorem posZ_le {n : ℕ} {a b : List α} (g : α → Fin m) (h : Ed n a b) :
    posZ g a b ≤ n ∧ posZ g b a ≤ n := by
  induction h with
  | nil => simp [posZ, cnt]
  | keep c _ ih =>
    have : ∀ (a b : List α), posZ g (c :: a) (c :: b) = posZ g a b := by
      intro a b; unfold posZ; refine Finset.sum_congr rfl fun t _ => ?_; simp only [cnt]; congr 1; ring
    rw [this, this]; exact ih
  | @sub n a b x y _ ih =>
    have key : ∀ (a b : List α) (x y : α), posZ g (x :: a) (y :: b) ≤ posZ g a b + 1 := by
      intro a b x y
      calc posZ g (x :: a) (y :: b)
          ≤ ∑ t, (max (cnt g t a - cnt g t b) 0 + (if g x = t then 1 else 0)) := by
            unfold posZ; refine Finset.sum_le_sum fun t _ => ?_
            simp only [cnt]; split <;> split <;> omega
        _ = posZ g a b + 1 := by rw [Finset.sum_add_distrib, sum_bin_ind]; rfl
    constructor
    · have := key a b x y; push_cast; linarith [ih.1]
    · have := key b a y x; push_cast; linarith [ih.2]
  | @del n a b x _ ih =>
    have key1 : posZ g (x :: a) b ≤ posZ g a b + 1 := by
      calc posZ g (x :: a) b
          ≤ ∑ t, (max (cnt g t a - cnt g t b) 0 + (if g x = t then 1 else 0)) := by
            unfold posZ; refine Finset.sum_le_sum fun t _ => ?_
            simp only [cnt]; split <;> omega
        _ = posZ g a b + 1 := by rw [Finset.sum_add_distrib, sum_bin_ind]; rfl
    have key2 : posZ g b (x :: a) ≤ posZ g b a := by
      unfold posZ; refine Finset.sum_le_sum fun t _ => ?_
      simp only [cnt]; split <;> omega
    constructor
    · push_cast; linarith [ih.1]
    · push_cast; linarith [ih.2]
  | @ins n a b y _ ih =>
    have key2 : posZ g (y :: b) a ≤ posZ g b a + 1 := by
      calc posZ g (y :: b) a
          ≤ ∑ t, (max (cnt g t b - cnt g t a) 0 + (if g y = t then 1 else 0)) := by
            unfold posZ; refine Finset.sum_le_sum fun t _ => ?_
            simp only [cnt]; split <;> omega
        _ = posZ g b a + 1 := by rw [Finset.sum_add_distrib, sum_bin_ind]; rfl
    have key3 : posZ g a (y :: b) ≤ posZ g a b := by
      unfold posZ; refine Finset.sum_le_sum fun t _ => ?_
      simp only [cnt]; split <;> omega
    constructor
    · push_cast; linarith [ih.1]
    · push_cast; linarith [ih.2]

theorem sqdistZ_le_posZ (g : α → Fin m) (a b : List α) :
    sqdistZ g a b ≤ (posZ g a b) ^ 2 + (posZ g b a) ^ 2 := by
  have h1 := Finset.sum_sq_le_sq_sum_of_nonneg (s := (univ : Finset (Fin m)))
    (f := fun t => max (cnt g t a - cnt g t b) 0) (fun t _ => le_max_right _ _)
  have h2 := Finset.sum_sq_le_sq_sum_of_nonneg (s := (univ : Finset (Fin m)))
    (f := fun t => max (cnt g t b - cnt g t a) 0) (fun t _ => le_max_right _ _)
  have h3 : sqdistZ g a b = ∑ t, ((max (cnt g t a - cnt g t b) 0) ^ 2 + (max (cnt g t b - cnt g t a) 0) ^ 2) := by
    unfold sqdistZ; refine Finset.sum_congr rfl fun t _ => ?_
    rcases le_total (cnt g t a) (cnt g t b) with h | h
    · rw [max_eq_right (by linarith), max_eq_left (by linarith)]; ring
    · rw [max_eq_left (by linarith), max_eq_right (by linarith)]; ring
  rw [h3, Finset.sum_add_distrib]
  unfold posZ; linarith

/-- k edits move the (binned) composition vector by at most √2·k : squared distance ≤ 2k² -/
theorem sqdist_hist_le [DecidableEq α] (g : α → Fin m) (a b : List α) (k : ℕ) (h : lev a b ≤ k) :
    sqdistZ g a b ≤ 2 * (k:ℤ) ^ 2 := by
  obtain ⟨n, hn, hE⟩ := (lev_le_iff a b k).1 h
  obtain ⟨h1, h2⟩ := posZ_le g hE
  have hp1 : 0 ≤ posZ g a b := Finset.sum_nonneg fun t _ => le_max_right _ _
  have hp2 : 0 ≤ posZ g b a := Finset.sum_nonneg fun t _ => le_max_right _ _
  have hk : (n:ℤ) ≤ k := by exact_mod_cast hn
  have := sqdistZ_le_posZ g a b
  nlinarith [sq_nonneg (posZ g a b), sq_nonneg (posZ g b a)]
end Prs
