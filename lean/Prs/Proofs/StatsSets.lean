/-
Proofs/StatsSets.lean — helper lemmas for Properties/C16 (overlap measures as finset cardinalities)
and Properties/C17 (`unpackCounts`, `recount`).
-/
import Prs.Proofs.Prob7
import Prs.Model.Stats2
import Mathlib.Data.Finset.Basic
import Mathlib.Data.Finset.Card
import Mathlib.Data.Finset.Lattice.Lemmas
import Mathlib.Data.List.Perm.Subperm
import Mathlib.Data.List.Count
import Mathlib.Data.List.GetD
import Mathlib.Algebra.BigOperators.Group.Finset.Basic

open Finset BigOperators
namespace Prs

section overlap
variable {β : Type} [DecidableEq β]

theorem dedup_length (a : List β) : (dedup a).length = a.toFinset.card := by
  rw [← toFinset_dedup, List.toFinset_card_of_nodup (nodup_dedup a)]

theorem interCard_eq (a b : List β) : interCard a b = (a.toFinset ∩ b.toFinset).card := by
  unfold interCard
  rw [← List.toFinset_card_of_nodup ((nodup_dedup a).filter _)]
  congr 1
  ext x
  simp

theorem unionCard_eq (a b : List β) : unionCard a b = (a.toFinset ∪ b.toFinset).card := by
  unfold unionCard
  rw [dedup_length, List.toFinset_append]

theorem overlapCoefficient_eq (a b : List β) :
    overlapCoefficient a b =
      if a.toFinset.card = 0 ∨ b.toFinset.card = 0 then none
      else some (((a.toFinset ∩ b.toFinset).card : ℚ)
        / ((min a.toFinset.card b.toFinset.card : ℕ) : ℚ)) := by
  unfold overlapCoefficient
  simp only [dedup_length, interCard_eq]

end overlap

/-! ### `unpackCounts` -/

theorem unpack_length_aux (counts : List ℕ) (k : ℕ) :
    ((counts.zipIdx k).flatMap fun ci => List.replicate ci.1 ci.2).length = counts.sum := by
  induction counts generalizing k with
  | nil => rfl
  | cons c cs ih =>
    simp only [List.zipIdx_cons, List.flatMap_cons, List.length_append, List.length_replicate,
      List.sum_cons, ih]

theorem unpack_count_aux (counts : List ℕ) (k i : ℕ) :
    ((counts.zipIdx k).flatMap fun ci => List.replicate ci.1 ci.2).count i
      = if k ≤ i then counts.getD (i - k) 0 else 0 := by
  induction counts generalizing k with
  | nil => simp
  | cons c cs ih =>
    simp only [List.zipIdx_cons, List.flatMap_cons, List.count_append, List.count_replicate, ih]
    by_cases h : k = i
    · subst h; simp
    · by_cases h2 : k ≤ i
      · have h3 : k + 1 ≤ i := by omega
        have h4 : i - k = (i - (k + 1)) + 1 := by omega
        have h5 : ¬ (k == i) = true := by simpa using h
        rw [if_neg h5, if_pos h3, if_pos h2, h4]
        simp
      · have h3 : ¬ k + 1 ≤ i := by omega
        have h5 : ¬ (k == i) = true := by simpa using h
        rw [if_neg h5, if_neg h3, if_neg h2]

theorem unpack_length (counts : List ℕ) : (unpackCounts counts).length = counts.sum :=
  unpack_length_aux counts 0

theorem unpack_count (counts : List ℕ) (i : ℕ) :
    (unpackCounts counts).count i = counts.getD i 0 := by
  unfold unpackCounts
  rw [unpack_count_aux]; simp

/-! ### `recount` -/

theorem mem_zip_map_self {α γ : Type} (f : α → γ) (l : List α) (p : α × γ)
    (h : p ∈ l.zip (l.map f)) : p.1 ∈ l ∧ p.2 = f p.1 := by
  induction l with
  | nil => simp at h
  | cons a l ih =>
    simp only [List.map_cons, List.zip_cons_cons, List.mem_cons] at h
    rcases h with rfl | h
    · exact ⟨List.mem_cons_self, rfl⟩
    · exact ⟨List.mem_cons_of_mem _ (ih h).1, (ih h).2⟩

theorem le_foldl_max (l : List ℕ) (a : ℕ) : a ≤ l.foldl max a ∧ ∀ x ∈ l, x ≤ l.foldl max a := by
  induction l generalizing a with
  | nil => simp
  | cons y l ih =>
    obtain ⟨h1, h2⟩ := ih (max a y)
    simp only [List.foldl_cons, List.mem_cons]
    refine ⟨le_trans (le_max_left a y) h1, ?_⟩
    rintro x (rfl | hx)
    · exact le_trans (le_max_right a x) h1
    · exact h2 x hx

theorem mem_recount_keys (sample : List ℕ) (i : ℕ) : i ∈ (recount sample).1 ↔ i ∈ sample := by
  simp only [recount, List.mem_filter, List.mem_range, decide_eq_true_eq]
  constructor
  · exact fun h => h.2
  · intro h
    exact ⟨Nat.lt_succ_of_le ((le_foldl_max sample 0).2 i h), h⟩

theorem recount_keys_pairwise (sample : List ℕ) : (recount sample).1.Pairwise (· < ·) :=
  List.Pairwise.filter _ List.pairwise_lt_range

theorem recount_snd (sample : List ℕ) :
    (recount sample).2 = (recount sample).1.map fun i => sample.count i := rfl

theorem recount_sum (sample : List ℕ) : (recount sample).2.sum = sample.length := by
  have hnd : (recount sample).1.Nodup :=
    (recount_keys_pairwise sample).imp (fun h => Nat.ne_of_lt h)
  rw [recount_snd, ← List.sum_toFinset _ hnd]
  have : (recount sample).1.toFinset = sample.toFinset := by
    ext i; simp [mem_recount_keys]
  rw [this, List.sum_toFinset_count_eq_length]

end Prs
