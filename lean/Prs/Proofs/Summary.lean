/-
Proofs/Summary.lean — helper lemmas for C19 (regex / consensus / rank-frequency / colours / split map).
-/
import Prs.Model.Summary
namespace Prs

/-! ### the matcher -/

/-- the per-item condition of a choice -/
def choiceOk (it : RegexItem) (o : Option Char) : Prop :=
  match o with
  | some c => c ∈ it.chars
  | none => it.optional = true

theorem fullMatch_iff_choice (items : List RegexItem) (w : List Char) :
    fullMatch items w = true ↔ ∃ choice : List (Option Char), choice.length = items.length ∧
      (∀ p ∈ items.zip choice, choiceOk p.1 p.2) ∧ w = choice.filterMap id := by
  induction items generalizing w with
  | nil =>
    constructor
    · intro h
      refine ⟨[], rfl, by simp, ?_⟩
      simpa [fullMatch] using h
    · rintro ⟨choice, hl, _, hw⟩
      have : choice = [] := List.eq_nil_of_length_eq_zero hl
      subst this
      simp [fullMatch, hw]
  | cons it rest ih =>
    constructor
    · intro h
      simp only [fullMatch, Bool.or_eq_true, Bool.and_eq_true] at h
      rcases h with h | ⟨hopt, h⟩
      · cases w with
        | nil => simp at h
        | cons c w' =>
          simp only [Bool.and_eq_true] at h
          obtain ⟨choice, hl, hc, hw⟩ := (ih w').1 h.2
          refine ⟨some c :: choice, by simp [hl], ?_, by simp [hw]⟩
          intro p hp
          simp only [List.zip_cons_cons, List.mem_cons] at hp
          rcases hp with rfl | hp
          · simpa [choiceOk] using h.1
          · exact hc p hp
      · obtain ⟨choice, hl, hc, hw⟩ := (ih w).1 h
        refine ⟨none :: choice, by simp [hl], ?_, by simp [hw]⟩
        intro p hp
        simp only [List.zip_cons_cons, List.mem_cons] at hp
        rcases hp with rfl | hp
        · simpa [choiceOk] using hopt
        · exact hc p hp
    · rintro ⟨choice, hl, hc, hw⟩
      cases choice with
      | nil => simp at hl
      | cons o choice =>
        have hrest : ∀ p ∈ rest.zip choice, choiceOk p.1 p.2 := fun p hp =>
          hc p (by simp [hp])
        have h0 : choiceOk it o := hc (it, o) (by simp)
        have hl' : choice.length = rest.length := by simpa using hl
        simp only [fullMatch, Bool.or_eq_true, Bool.and_eq_true]
        cases o with
        | none =>
          right
          exact ⟨h0, (ih w).2 ⟨choice, hl', hrest, by simpa using hw⟩⟩
        | some c =>
          left
          have hw' : w = c :: choice.filterMap id := by simpa using hw
          subst hw'
          simp only [Bool.and_eq_true]
          exact ⟨by simpa [choiceOk] using h0, (ih _).2 ⟨choice, hl', hrest, rfl⟩⟩

/-- index form -/
theorem fullMatch_iff_index (items : List RegexItem) (w : List Char) :
    fullMatch items w = true ↔ ∃ choice : List (Option Char), choice.length = items.length ∧
      (∀ (i : Nat) it o, items[i]? = some it → choice[i]? = some o → choiceOk it o) ∧
      w = choice.filterMap id := by
  rw [fullMatch_iff_choice]
  constructor
  · rintro ⟨choice, hl, hc, hw⟩
    refine ⟨choice, hl, ?_, hw⟩
    intro i it o hi ho
    have : (it, o) ∈ items.zip choice :=
      List.mem_iff_getElem?.2 ⟨i, List.getElem?_zip_eq_some.2 ⟨hi, ho⟩⟩
    exact hc _ this
  · rintro ⟨choice, hl, hc, hw⟩
    refine ⟨choice, hl, ?_, hw⟩
    intro p hp
    obtain ⟨i, hi⟩ := List.mem_iff_getElem?.1 hp
    obtain ⟨h1, h2⟩ := List.getElem?_zip_eq_some.1 hi
    exact hc i p.1 p.2 h1 h2

/-! ### columns of an alignment -/

theorem foldl_max_const (L : Nat) (ls : List Nat) (h : ∀ x ∈ ls, x = L) (a : Nat) :
    ls.foldl max a = if ls = [] then a else max a L := by
  induction ls generalizing a with
  | nil => rfl
  | cons x xs ih =>
    have hx : x = L := h x (by simp)
    subst hx
    rw [List.foldl_cons, ih (fun y hy => h y (by simp [hy]))]
    by_cases hxs : xs = []
    · simp [hxs]
    · simp only [hxs, if_false, List.cons_ne_nil]
      omega

theorem seqLength_eq (seqs : List (List Char)) (L : Nat) (hL : ∀ s ∈ seqs, s.length = L)
    (hne : seqs ≠ []) : seqLength seqs = L := by
  unfold seqLength
  rw [foldl_max_const L (seqs.map List.length) (by
    intro x hx
    obtain ⟨s, hs, rfl⟩ := List.mem_map.1 hx
    exact hL s hs)]
  simp [hne]

theorem mem_columnResidues (seqs : List (List Char)) (i : Nat) (c : Char) :
    c ∈ columnResidues seqs i ↔ c ≠ gapChar ∧ ∃ s ∈ seqs, s[i]? = some c := by
  simp only [columnResidues, List.mem_filter, List.mem_filterMap, decide_eq_true_eq]
  exact ⟨fun ⟨h1, h2⟩ => ⟨h2, h1⟩, fun ⟨h1, h2⟩ => ⟨h2, h1⟩⟩

theorem length_filterMap_of_isSome {α β : Type} (f : α → Option β) (l : List α)
    (h : ∀ a ∈ l, (f a).isSome = true) : (l.filterMap f).length = l.length := by
  induction l with
  | nil => rfl
  | cons a l ih =>
    have ha := h a (by simp)
    obtain ⟨b, hb⟩ := Option.isSome_iff_exists.1 ha
    rw [List.filterMap_cons_some hb]
    simp [ih (fun x hx => h x (by simp [hx]))]

/-- a position is optional exactly when some sequence has a gap there -/
theorem columnResidues_length_ne (seqs : List (List Char)) (L i : Nat)
    (hL : ∀ s ∈ seqs, s.length = L) (hi : i < L) :
    (columnResidues seqs i).length ≠ seqs.length ↔ ∃ s ∈ seqs, s[i]? = some gapChar := by
  have hlen : (seqs.filterMap fun s => s[i]?).length = seqs.length :=
    length_filterMap_of_isSome _ _ (fun s hs => by
      have : i < s.length := by rw [hL s hs]; exact hi
      simp [this])
  unfold columnResidues
  rw [← hlen, Ne, List.length_filter_eq_length_iff]
  simp only [decide_eq_true_eq, List.mem_filterMap]
  constructor
  · intro h
    apply Classical.byContradiction
    intro hno
    apply h
    rintro a ⟨s, hs, hsa⟩ rfl
    exact hno ⟨s, hs, hsa⟩
  · rintro ⟨s, hs, hsg⟩ h
    exact h gapChar ⟨s, hs, hsg⟩ rfl

theorem seqsToRegex_getElem? (order : List Char) (seqs : List (List Char)) (i : Nat)
    (it : RegexItem) :
    (seqsToRegex order seqs)[i]? = some it ↔ i < seqLength seqs ∧
      it = { chars := order.filter fun c => decide (c ∈ columnResidues seqs i),
             optional := decide ((columnResidues seqs i).length ≠ seqs.length) } := by
  unfold seqsToRegex
  rw [List.getElem?_map]
  by_cases hi : i < seqLength seqs
  · rw [List.getElem?_range hi]
    simp only [Option.map_some, Option.some.injEq, hi, true_and]
    exact eq_comm
  · rw [List.getElem?_eq_none (by simpa using hi)]
    simp [hi]

theorem seqsToRegex_length (order : List Char) (seqs : List (List Char)) :
    (seqsToRegex order seqs).length = seqLength seqs := by
  simp [seqsToRegex]

/-! ### the language of the generated expression -/

theorem regex_language (order : List Char) (seqs : List (List Char)) (L : Nat)
    (hL : ∀ s ∈ seqs, s.length = L) (hne : seqs ≠ []) (w : List Char) :
    fullMatch (seqsToRegex order seqs) w = true ↔
      ∃ choice : List (Option Char), choice.length = L ∧
        (∀ i, i < L → match choice[i]? with
          | some (some c) => c ∈ order ∧ c ∈ columnResidues seqs i
          | some none => ∃ s ∈ seqs, s[i]? = some gapChar
          | none => False) ∧
        w = choice.filterMap id := by
  have hSL := seqLength_eq seqs L hL hne
  rw [fullMatch_iff_index, seqsToRegex_length, hSL]
  constructor
  · rintro ⟨choice, hl, hc, hw⟩
    refine ⟨choice, hl, ?_, hw⟩
    intro i hi
    have hio : choice[i]? = some choice[i] := List.getElem?_eq_getElem (by omega)
    have := hc i _ _ ((seqsToRegex_getElem? order seqs i _).2 ⟨by omega, rfl⟩) hio
    rw [hio]
    cases ho : choice[i] with
    | none =>
      rw [ho] at this
      simp only [choiceOk, decide_eq_true_eq] at this
      exact (columnResidues_length_ne seqs L i hL hi).1 this
    | some c =>
      rw [ho] at this
      simpa [choiceOk, List.mem_filter] using this
  · rintro ⟨choice, hl, hc, hw⟩
    refine ⟨choice, hl, ?_, hw⟩
    intro i it o hit ho
    obtain ⟨hi, rfl⟩ := (seqsToRegex_getElem? order seqs i it).1 hit
    rw [hSL] at hi
    have := hc i hi
    rw [ho] at this
    cases o with
    | none =>
      simp only [choiceOk, decide_eq_true_eq]
      exact (columnResidues_length_ne seqs L i hL hi).2 this
    | some c => simpa [choiceOk, List.mem_filter] using this

theorem filterMap_gap (s : List Char) :
    (s.map fun c => if c = gapChar then none else some c).filterMap id = s.filter (· ≠ gapChar) := by
  induction s with
  | nil => rfl
  | cons c s ih =>
    by_cases h : c = gapChar
    · simp [h, ih]
    · simp [h, ih]

theorem regex_matches_inputs (order : List Char) (seqs : List (List Char)) (L : Nat)
    (hL : ∀ s ∈ seqs, s.length = L)
    (hord : ∀ s ∈ seqs, ∀ c ∈ s, c ≠ gapChar → c ∈ order) (s : List Char) (hs : s ∈ seqs) :
    fullMatch (seqsToRegex order seqs) (s.filter (· ≠ gapChar)) = true := by
  have hne : seqs ≠ [] := List.ne_nil_of_mem hs
  rw [regex_language order seqs L hL hne]
  refine ⟨s.map fun c => if c = gapChar then none else some c, by simp [hL s hs], ?_,
    (filterMap_gap s).symm⟩
  intro i hi
  have his : i < s.length := by rw [hL s hs]; exact hi
  rw [List.getElem?_map, List.getElem?_eq_getElem his, Option.map_some]
  by_cases hg : s[i] = gapChar
  · simp only [hg, if_true]
    exact ⟨s, hs, by rw [List.getElem?_eq_getElem his, hg]⟩
  · simp only [hg, if_false]
    exact ⟨hord s hs _ (List.getElem_mem his) hg,
      (mem_columnResidues seqs i _).2 ⟨hg, s, hs, List.getElem?_eq_getElem his⟩⟩

theorem eq_map_some_of_no_none (choice : List (Option Char))
    (h : ∀ o ∈ choice, o ≠ none) : choice = (choice.filterMap id).map some := by
  induction choice with
  | nil => rfl
  | cons o l ih =>
    cases o with
    | none => exact absurd rfl (h none (by simp))
    | some c =>
      simp only [List.filterMap_cons, id, List.map_cons]
      rw [← ih (fun o ho => h o (by simp [ho]))]

theorem regex_language_nogap (order : List Char) (seqs : List (List Char)) (L : Nat)
    (hL : ∀ s ∈ seqs, s.length = L) (hne : seqs ≠ []) (hng : ∀ s ∈ seqs, gapChar ∉ s)
    (hord : ∀ s ∈ seqs, ∀ c ∈ s, c ≠ gapChar → c ∈ order) (w : List Char) :
    fullMatch (seqsToRegex order seqs) w = true ↔
      w.length = L ∧ ∀ i, i < L → ∃ c, w[i]? = some c ∧ ∃ s ∈ seqs, s[i]? = some c := by
  rw [regex_language order seqs L hL hne]
  constructor
  · rintro ⟨choice, hl, hc, hw⟩
    have hnn : ∀ o ∈ choice, o ≠ none := by
      intro o ho hnone
      subst hnone
      obtain ⟨i, hi⟩ := List.mem_iff_getElem?.1 ho
      have hil : i < L := by
        rw [← hl]
        exact (List.getElem?_eq_some_iff.1 hi).1
      have := hc i hil
      rw [hi] at this
      obtain ⟨s, hs, hsg⟩ := this
      exact hng s hs (List.mem_of_getElem? hsg)
    have hch := eq_map_some_of_no_none choice hnn
    rw [← hw] at hch
    subst hch
    have hwl : w.length = L := by simpa using hl
    refine ⟨hwl, ?_⟩
    intro i hi
    have := hc i hi
    have hiw : i < w.length := by omega
    rw [List.getElem?_map, List.getElem?_eq_getElem hiw, Option.map_some] at this
    exact ⟨w[i], List.getElem?_eq_getElem hiw, ((mem_columnResidues seqs i _).1 this.2).2⟩
  · rintro ⟨hl, hc⟩
    refine ⟨w.map some, by simpa using hl, ?_, by simp [List.filterMap_map]⟩
    intro i hi
    obtain ⟨c, hwc, s, hs, hsc⟩ := hc i hi
    rw [List.getElem?_map, hwc, Option.map_some]
    have hcs : c ∈ s := List.mem_of_getElem? hsc
    have hcg : c ≠ gapChar := fun h => hng s hs (h ▸ hcs)
    exact ⟨hord s hs c hcs hcg, (mem_columnResidues seqs i c).2 ⟨hcg, s, hs, hsc⟩⟩

/-! ### counts, argmax, consensus -/

theorem countAt_eq (seqs : List (List Char)) (i : Nat) (c : Char) (hc : c ≠ gapChar) :
    countAt seqs i c = (seqs.filter fun s => s[i]? = some c).length := by
  unfold countAt columnResidues
  rw [List.count_filter (by simpa using hc)]
  induction seqs with
  | nil => rfl
  | cons s seqs ih =>
    cases hs : s[i]? with
    | none => simp [hs, ih]
    | some d =>
      rw [List.filterMap_cons_some (f := fun s : List Char => s[i]?) hs, List.count_cons, ih,
        List.filter_cons]
      by_cases hd : d = c
      · simp [hs, hd]
      · simp [hs, hd]

theorem argmax_foldl (cnt : Char → Nat) (order : List Char) (best : Option Char) (c : Char)
    (h : order.foldl (fun best c =>
      match best with
      | none => some c
      | some b => if cnt b < cnt c then some c else some b) best = some c) :
    (c ∈ order ∨ best = some c) ∧ (∀ d ∈ order, cnt d ≤ cnt c) ∧ (∀ b, best = some b → cnt b ≤ cnt c) := by
  induction order generalizing best with
  | nil =>
    simp only [List.foldl_nil] at h
    subst h
    refine ⟨.inr rfl, by simp, ?_⟩
    intro b hb; cases hb; exact Nat.le_refl _
  | cons x xs ih =>
    rw [List.foldl_cons] at h
    obtain ⟨h1, h2, h3⟩ := ih _ h
    cases best with
    | none =>
      have hx := h3 x rfl
      refine ⟨?_, ?_, by simp⟩
      · rcases h1 with h1 | h1
        · exact .inl (by simp [h1])
        · simp only [Option.some.injEq] at h1; exact .inl (by simp [h1])
      · intro d hd
        rcases List.mem_cons.1 hd with rfl | hd
        · exact hx
        · exact h2 d hd
    | some b =>
      by_cases hlt : cnt b < cnt x
      · simp only [hlt, if_true] at h1 h3
        have hx := h3 x rfl
        refine ⟨?_, ?_, ?_⟩
        · rcases h1 with h1 | h1
          · exact .inl (by simp [h1])
          · simp only [Option.some.injEq] at h1; exact .inl (by simp [h1])
        · intro d hd
          rcases List.mem_cons.1 hd with rfl | hd
          · exact hx
          · exact h2 d hd
        · intro b' hb'; cases hb'; omega
      · simp only [hlt, if_false] at h1 h3
        have hb := h3 b rfl
        refine ⟨?_, ?_, ?_⟩
        · rcases h1 with h1 | h1
          · exact .inl (by simp [h1])
          · exact .inr h1
        · intro d hd
          rcases List.mem_cons.1 hd with rfl | hd
          · omega
          · exact h2 d hd
        · intro b' hb'; cases hb'; exact hb

theorem argmax_most_frequent (order : List Char) (seqs : List (List Char)) (i : Nat) (c : Char)
    (h : argmaxResidue order seqs i = some c) :
    c ∈ order ∧ ∀ d ∈ order, countAt seqs i d ≤ countAt seqs i c := by
  obtain ⟨h1, h2, _⟩ := argmax_foldl (countAt seqs i) order none c h
  exact ⟨h1.resolve_right (by simp), h2⟩

theorem argmax_foldl_isSome (cnt : Char → Nat) (order : List Char) (best : Option Char)
    (h : order ≠ [] ∨ best.isSome = true) :
    (order.foldl (fun best c =>
      match best with
      | none => some c
      | some b => if cnt b < cnt c then some c else some b) best).isSome = true := by
  induction order generalizing best with
  | nil => simpa using h
  | cons x xs ih =>
    rw [List.foldl_cons]
    apply ih
    right
    cases best with
    | none => rfl
    | some b => by_cases hlt : cnt b < cnt x <;> simp [hlt]

theorem argmax_isSome (order : List Char) (seqs : List (List Char)) (i : Nat) (h : order ≠ []) :
    (argmaxResidue order seqs i).isSome = true :=
  argmax_foldl_isSome _ order none (.inl h)

theorem columnResidues_length_nogap (seqs : List (List Char)) (L i : Nat)
    (hL : ∀ s ∈ seqs, s.length = L) (hng : ∀ s ∈ seqs, gapChar ∉ s) (hi : i < L) :
    (columnResidues seqs i).length = seqs.length := by
  apply Classical.byContradiction
  intro h
  obtain ⟨s, hs, hsg⟩ := (columnResidues_length_ne seqs L i hL hi).1 h
  exact hng s hs (List.mem_of_getElem? hsg)

theorem consensus_length_nogap (order : List Char) (seqs : List (List Char)) (L : Nat)
    (hL : ∀ s ∈ seqs, s.length = L) (hne : seqs ≠ []) (hng : ∀ s ∈ seqs, gapChar ∉ s)
    (hordne : order ≠ []) : (seqsToConsensus order seqs).length = L := by
  unfold seqsToConsensus
  rw [seqLength_eq seqs L hL hne, length_filterMap_of_isSome, List.length_range]
  intro i hi
  have hi : i < L := List.mem_range.1 hi
  simp only [columnResidues_length_nogap seqs L i hL hng hi, Nat.sub_self]
  rw [if_neg (by omega)]
  exact argmax_isSome order seqs i hordne

/-! ### rank-frequency data -/

theorem rank_snd (normalize : Bool) (data : List (Option Rat)) :
    (rankFrequency normalize data).map (·.2) = List.range (data.filterMap id).length := by
  unfold rankFrequency
  simp only [List.zipIdx_map_snd, List.length_mergeSort, List.range_eq_range']
  cases normalize <;> simp

theorem rank_fst (normalize : Bool) (data : List (Option Rat)) :
    (rankFrequency normalize data).map (·.1) =
      (if normalize then (data.filterMap id).map (· / (data.filterMap id).foldl (· + ·) 0)
        else data.filterMap id).mergeSort (fun a b => decide (b ≤ a)) := by
  unfold rankFrequency
  simp only [List.zipIdx_map_fst]

theorem rank_sorted (normalize : Bool) (data : List (Option Rat)) :
    ((rankFrequency normalize data).map (·.1)).Pairwise (· ≥ ·) := by
  rw [rank_fst]
  have := List.pairwise_mergeSort (le := fun a b : Rat => decide (b ≤ a))
    (fun a b c hab hbc => by
      simp only [decide_eq_true_eq] at *
      exact Rat.le_trans hbc hab)
    (fun a b => by
      simp only [Bool.or_eq_true, decide_eq_true_eq]
      exact Rat.le_total)
    (if normalize then (data.filterMap id).map (· / (data.filterMap id).foldl (· + ·) 0)
        else data.filterMap id)
  exact this.imp (fun h => by simpa using h)

theorem foldl_add_perm {l₁ l₂ : List Rat} (h : l₁.Perm l₂) (b : Rat) :
    l₁.foldl (· + ·) b = l₂.foldl (· + ·) b := by
  induction h generalizing b with
  | nil => rfl
  | cons x _ ih => exact ih _
  | swap x y l =>
    simp only [List.foldl_cons]
    rw [Rat.add_assoc, Rat.add_comm y x, ← Rat.add_assoc]
  | trans _ _ ih1 ih2 => rw [ih1, ih2]

theorem foldl_add_div (vals : List Rat) (tot a : Rat) :
    (vals.map (· / tot)).foldl (· + ·) (a / tot) = (vals.foldl (· + ·) a) / tot := by
  induction vals generalizing a with
  | nil => rfl
  | cons x xs ih =>
    simp only [List.map_cons, List.foldl_cons]
    rw [← ih (a + x)]
    congr 1
    rw [Rat.div_def, Rat.div_def, Rat.div_def, Rat.add_mul]

theorem rank_normalized (data : List (Option Rat))
    (hpos : 0 < (data.filterMap id).foldl (· + ·) 0) :
    ((rankFrequency true data).map (·.1)).foldl (· + ·) 0 = 1 := by
  rw [rank_fst, foldl_add_perm (List.mergeSort_perm _ _)]
  simp only [if_true]
  generalize htot : (data.filterMap id).foldl (· + ·) 0 = tot at hpos
  have h0 : (0 : Rat) = 0 / tot := by rw [Rat.div_def, Rat.zero_mul]
  rw [h0, foldl_add_div, htot, Rat.div_def, Rat.mul_inv_cancel]
  intro h
  rw [h] at hpos
  exact absurd hpos (by decide)

theorem rank_values (data : List (Option Rat)) :
    ((rankFrequency false data).map (·.1)).Perm (data.filterMap id) := by
  rw [rank_fst]
  exact List.mergeSort_perm _ _

/-! ### colours -/
section colors
variable {L C : Type} [DecidableEq L]

theorem labelsToColors_spec (labels : List L) (minCount : Option Nat) (shuffled : List L)
    (palette : List C) :
    ∃ keep : List L, (∀ l ∈ keep, ∀ m, minCount = some m → m ≤ labels.count l) ∧
      ∀ i : Nat, (labelsToColors labels minCount shuffled palette)[i]? =
        labels[i]?.map fun l => ((keep.zip palette).find? fun p => p.1 == l).map (·.2) := by
  unfold labelsToColors
  refine ⟨_, ?_, fun i => List.getElem?_map ..⟩
  intro l hl m hm
  subst hm
  simpa using (List.mem_filter.1 hl).2

theorem colors_rare_black (labels : List L) (m : Nat) (shuffled : List L) (palette : List C)
    (i : Nat) (l : L) (hi : labels[i]? = some l) (hr : labels.count l < m) :
    (labelsToColors labels (some m) shuffled palette)[i]? = some none := by
  obtain ⟨keep, hk, hspec⟩ := labelsToColors_spec labels (some m) shuffled palette
  rw [hspec, hi, Option.map_some]
  congr 1
  rw [Option.map_eq_none_iff, List.find?_eq_none]
  intro p hp
  have h1 := hk _ (List.of_mem_zip (a := p.1) (b := p.2) hp).1 m rfl
  intro hpl
  have : p.1 = l := by simpa using hpl
  rw [this] at h1
  omega

theorem zip_snd_inj {α β : Type} (xs : List α) (ys : List β) (hy : ys.Nodup) (a b : α) (c : β)
    (h1 : (a, c) ∈ xs.zip ys) (h2 : (b, c) ∈ xs.zip ys) : a = b := by
  obtain ⟨i, hi⟩ := List.mem_iff_getElem?.1 h1
  obtain ⟨j, hj⟩ := List.mem_iff_getElem?.1 h2
  obtain ⟨hia, hic⟩ := List.getElem?_zip_eq_some.1 hi
  obtain ⟨hjb, hjc⟩ := List.getElem?_zip_eq_some.1 hj
  have hil : i < ys.length := (List.getElem?_eq_some_iff.1 hic).1
  have : i = j := (List.getElem?_inj hil hy).1 (by rw [hic, hjc])
  subst this
  simp only at hia hjb
  rw [hia] at hjb
  exact Option.some.inj hjb

theorem colors_distinct (labels : List L) (minCount : Option Nat) (shuffled : List L)
    (palette : List C) (hp : palette.Nodup) (i j : Nat) (l l' : L) (c c' : C)
    (hi : labels[i]? = some l) (hj : labels[j]? = some l') (hne : l ≠ l')
    (hci : (labelsToColors labels minCount shuffled palette)[i]? = some (some c))
    (hcj : (labelsToColors labels minCount shuffled palette)[j]? = some (some c')) : c ≠ c' := by
  obtain ⟨keep, _, hspec⟩ := labelsToColors_spec labels minCount shuffled palette
  rw [hspec, hi, Option.map_some, Option.some.injEq, Option.map_eq_some_iff] at hci
  rw [hspec, hj, Option.map_some, Option.some.injEq, Option.map_eq_some_iff] at hcj
  obtain ⟨p, hp1, hp2⟩ := hci
  obtain ⟨q, hq1, hq2⟩ := hcj
  have hpl : p.1 = l := by simpa using List.find?_some hp1
  have hql : q.1 = l' := by simpa using List.find?_some hq1
  have hpm := List.mem_of_find?_eq_some hp1
  have hqm := List.mem_of_find?_eq_some hq1
  intro hcc
  apply hne
  rw [← hpl, ← hql]
  have e1 : p = (p.1, c) := by rw [← hp2]
  have e2 : q = (q.1, c) := by rw [hcc, ← hq2]
  rw [e1] at hpm
  rw [e2] at hqm
  exact zip_snd_inj _ _ hp _ _ c hpm hqm

end colors

/-! ### split heat map -/
theorem splitMatrix_entry (lower upper : List (List Int)) (ind : List Nat) (r c ir ic : Nat)
    (hr : ind[r]? = some ir) (hc : ind[c]? = some ic) :
    ((splitMatrix lower upper ind)[r]?.bind (·[c]?)) =
      some (if c < r then ((lower[ir]?.bind (·[ic]?)).getD 0)
        else if r < c then ((upper[ir]?.bind (·[ic]?)).getD 0)
        else ((lower[ir]?.bind (·[ic]?)).getD 0) + ((upper[ir]?.bind (·[ic]?)).getD 0)) := by
  simp only [splitMatrix, List.getElem?_map, List.getElem?_zipIdx, hr, hc, Option.map_some,
    Option.bind_some, Nat.zero_add]

theorem splitMatrix_shape (lower upper : List (List Int)) (ind : List Nat) :
    (splitMatrix lower upper ind).length = ind.length ∧
      ∀ row ∈ splitMatrix lower upper ind, row.length = ind.length := by
  refine ⟨by simp [splitMatrix], ?_⟩
  intro row hrow
  simp only [splitMatrix, List.mem_map] at hrow
  obtain ⟨_, _, rfl⟩ := hrow
  simp

end Prs
