import Prs.Proofs.Prob1
import Mathlib.Data.Finset.Card
import Mathlib.Data.Fintype.Card
import Mathlib.Data.Fintype.Prod

open Finset BigOperators
namespace Prs
variable {N K : ℕ}

/-- indicator that every coordinate in `S` equals `u` -/
def allEq (S : Finset (Fin N)) (u : Fin K) (x : Fin N → Fin K) : ℚ :=
  ∏ l ∈ S, (if x l = u then 1 else 0)

def gS (S : Finset (Fin N)) (u : Fin K) : Fin N → Fin K → ℚ :=
  fun l v => if l ∈ S then (if v = u then 1 else 0) else 1

theorem allEq_eq (S : Finset (Fin N)) (u : Fin K) (x : Fin N → Fin K) :
    allEq S u x = ∏ l, gS S u l (x l) := by
  unfold allEq gS
  rw [← Finset.prod_filter_mul_prod_filter_not univ (fun l => l ∈ S)]
  have h1 : ∏ l ∈ univ.filter (fun l => l ∈ S), (if l ∈ S then (if x l = u then (1:ℚ) else 0) else 1)
      = ∏ l ∈ S, (if x l = u then 1 else 0) := by
    have : univ.filter (fun l => l ∈ S) = S := by ext; simp
    rw [this]
    exact Finset.prod_congr rfl (fun l hl => by simp [hl])
  have h2 : ∏ l ∈ univ.filter (fun l => ¬ l ∈ S), (if l ∈ S then (if x l = u then (1:ℚ) else 0) else 1) = 1 := by
    apply Finset.prod_eq_one
    intro l hl
    simp at hl
    simp [hl]
  rw [h1, h2, mul_one]

theorem sum_gS (p : Fin K → ℚ) (hp : ∑ v, p v = 1) (S : Finset (Fin N)) (u : Fin K) (l : Fin N) :
    ∑ v, p v * gS S u l v = if l ∈ S then p u else 1 := by
  unfold gS
  split
  · simp
  · simpa using hp

/-- L1 : E[all coordinates in S equal u] = p_u ^ |S| -/
theorem E_allEq (p : Fin K → ℚ) (hp : ∑ v, p v = 1) (S : Finset (Fin N)) (u : Fin K) :
    ∑ x : Fin N → Fin K, w p x * allEq S u x = p u ^ S.card := by
  simp only [allEq_eq]
  rw [sum_w_prod]
  simp only [sum_gS p hp]
  rw [Finset.prod_ite_mem univ S (fun _ => p u)]
  simp

/-- L2 : two disjoint blocks -/
theorem E_allEq2 (p : Fin K → ℚ) (hp : ∑ v, p v = 1) (S T : Finset (Fin N)) (hST : Disjoint S T)
    (u v : Fin K) :
    ∑ x : Fin N → Fin K, w p x * (allEq S u x * allEq T v x) = p u ^ S.card * p v ^ T.card := by
  simp only [allEq_eq, ← Finset.prod_mul_distrib]
  rw [sum_w_prod p (fun l z => gS S u l z * gS T v l z)]
  have : ∀ l : Fin N, ∑ z, p z * (gS S u l z * gS T v l z)
      = (if l ∈ S then p u else 1) * (if l ∈ T then p v else 1) := by
    intro l
    by_cases hS : l ∈ S
    · have hT : l ∉ T := Finset.disjoint_left.mp hST hS
      simp [gS, hS, hT]
    · by_cases hT : l ∈ T
      · simp [gS, hS, hT]
      · simp [gS, hS, hT, hp]
  simp only [this, Finset.prod_mul_distrib]
  rw [Finset.prod_ite_mem univ S (fun _ => p u), Finset.prod_ite_mem univ T (fun _ => p v)]
  simp
end Prs
