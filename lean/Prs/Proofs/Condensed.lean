/-
Proofs/Condensed.lean — SciPy condensed (strict upper triangle, row-major) layout (core Lean only).
-/
import Prs.Model.Metric
namespace Prs
variable {S D : Type}

/-- `M` is an m × m matrix -/
def IsSquare (m : Nat) (M : List (List D)) : Prop := M.length = m ∧ ∀ r ∈ M, r.length = m

/-- `condensed` with a row offset: rows of `M` are rows k, k+1, … of the full matrix -/
def condK (k : Nat) (M : List (List D)) : List D :=
  (M.zipIdx k).flatMap fun ri => ri.1.drop (ri.2 + 1)

theorem condensed_eq_condK (M : List (List D)) : condensed M = condK 0 M := rfl

@[simp] theorem condK_nil (k : Nat) : condK k ([] : List (List D)) = [] := rfl

@[simp] theorem condK_cons (k : Nat) (r : List D) (M : List (List D)) :
    condK k (r :: M) = r.drop (k + 1) ++ condK (k + 1) M := by
  simp [condK, List.zipIdx_cons]

/-! ### length -/

theorem condK_length (m : Nat) : ∀ (M : List (List D)) (k : Nat),
    (∀ r ∈ M, r.length = m) → k + M.length = m →
    2 * (condK k M).length + M.length = M.length * M.length
  | [], _, _, _ => by simp
  | r :: M, k, hr, hk => by
    have ih := condK_length m M (k + 1) (fun r' h' => hr r' (List.mem_cons_of_mem _ h'))
      (by simp only [List.length_cons] at hk; omega)
    have hrl : r.length = m := hr r List.mem_cons_self
    simp only [condK_cons, List.length_append, List.length_drop, List.length_cons, hrl] at hk ⊢
    have e : (M.length + 1) * (M.length + 1) = M.length * M.length + 2 * M.length + 1 := by
      rw [Nat.succ_mul, Nat.mul_succ]; omega
    rw [e]; omega

theorem condensed_length (m : Nat) (M : List (List D)) (h : IsSquare m M) :
    (condensed M).length = m * (m - 1) / 2 := by
  obtain ⟨hl, hr⟩ := h
  have := condK_length m M 0 hr (by omega)
  rw [condensed_eq_condK, Nat.mul_sub_one]
  rw [hl] at this
  omega

/-! ### indexing -/

/-- number of condensed entries contributed by rows k, …, k+i-1 -/
def triRows (m : Nat) : Nat → Nat → Nat
  | _, 0 => 0
  | k, i + 1 => (m - (k + 1)) + triRows m (k + 1) i

theorem triRows_closed (m : Nat) : ∀ (i k : Nat), k + i ≤ m →
    2 * triRows m k i + 2 * (k * i) + i * (i + 1) = 2 * (i * m)
  | 0, k, _ => by simp [triRows]
  | i + 1, k, h => by
    have ih := triRows_closed m i (k + 1) (by omega)
    simp only [triRows]
    have e1 : (k + 1) * i = k * i + i := Nat.succ_mul k i
    have e2 : k * (i + 1) = k * i + k := Nat.mul_succ k i
    have e3 : (i + 1) * (i + 1 + 1) = i * (i + 1) + 2 * i + 2 := by
      rw [Nat.succ_mul, Nat.mul_succ i (i + 1)]; omega
    have e4 : (i + 1) * m = i * m + m := Nat.succ_mul i m
    rw [e1] at ih
    rw [e2, e3, e4]
    omega

theorem condK_index (m j : Nat) : ∀ (i k : Nat) (M : List (List D)),
    (∀ r ∈ M, r.length = m) → k + M.length = m → k + i < j → j < m →
    (condK k M)[triRows m k i + (j - (k + i) - 1)]? = (M[i]?.bind (·[j]?))
  | 0, k, [], _, hk, hij, hj => by simp at hk; omega
  | 0, k, r :: M, hr, hk, hij, hj => by
    have hrl : r.length = m := hr r List.mem_cons_self
    simp only [condK_cons, triRows, Nat.zero_add, Nat.add_zero]
    rw [List.getElem?_append_left (by rw [List.length_drop, hrl]; omega), List.getElem?_drop]
    have : k + 1 + (j - k - 1) = j := by omega
    simp [this]
  | i + 1, k, [], _, hk, hij, hj => by simp at hk; omega
  | i + 1, k, r :: M, hr, hk, hij, hj => by
    have hrl : r.length = m := hr r List.mem_cons_self
    have ih := condK_index m j i (k + 1) M (fun r' h' => hr r' (List.mem_cons_of_mem _ h'))
      (by simp only [List.length_cons] at hk; omega) (by omega) hj
    simp only [condK_cons, triRows]
    rw [List.getElem?_append_right (by rw [List.length_drop, hrl]; omega)]
    rw [List.length_drop, hrl]
    have : m - (k + 1) + triRows m (k + 1) i + (j - (k + (i + 1)) - 1) - (m - (k + 1))
        = triRows m (k + 1) i + (j - (k + 1 + i) - 1) := by omega
    rw [this, ih]
    simp

theorem condensedIndex_eq (m i j : Nat) (hij : i < j) (hj : j < m) :
    condensedIndex m i j = triRows m 0 i + (j - (0 + i) - 1) := by
  have h := triRows_closed m i 0 (by omega)
  have e1 : (i + 2) * (i + 1) = i * (i + 1) + 2 * i + 2 := by
    rw [Nat.add_mul]; omega
  have e2 : m * i = i * m := Nat.mul_comm m i
  unfold condensedIndex
  rw [e1, e2]
  simp only [Nat.zero_mul, Nat.mul_zero, Nat.add_zero, Nat.zero_add] at h ⊢
  omega

/-- entries of a square matrix exist -/
theorem square_entry_isSome (m : Nat) (M : List (List D)) (h : IsSquare m M) (i j : Nat)
    (hi : i < m) (hj : j < m) : ∃ d, (M[i]?.bind (·[j]?)) = some d := by
  obtain ⟨hl, hr⟩ := h
  have hi' : i < M.length := by omega
  have hrl : (M[i]).length = m := hr _ (List.getElem_mem hi')
  refine ⟨(M[i])[j]'(by omega), ?_⟩
  rw [List.getElem?_eq_getElem hi']
  simp [hrl, hj]

theorem condensed_index (m : Nat) (M : List (List D)) (h : IsSquare m M) (i j : Nat)
    (hij : i < j) (hj : j < m) :
    (condensed M)[condensedIndex m i j]? = (M[i]?.bind (·[j]?)) := by
  obtain ⟨hl, hr⟩ := h
  rw [condensed_eq_condK, condensedIndex_eq m i j hij hj]
  exact condK_index m j i 0 M hr (by omega) (by omega) hj

/-- `condensed_index` together with the fact that the entry exists -/
theorem condensed_index_some (m : Nat) (M : List (List D)) (h : IsSquare m M) (i j : Nat)
    (hij : i < j) (hj : j < m) :
    ∃ d, (M[i]?.bind (·[j]?)) = some d ∧ (condensed M)[condensedIndex m i j]? = some d := by
  obtain ⟨d, hd⟩ := square_entry_isSome m M h i j (by omega) hj
  exact ⟨d, hd, by rw [condensed_index m M h i j hij hj, hd]⟩

/-! ### distance matrices -/

theorem cdistMat_square (f : S → S → D) (xs : List S) : IsSquare xs.length (cdistMat f xs xs) := by
  constructor
  · simp [cdistMat]
  · intro r hr
    simp only [cdistMat, List.mem_map] at hr
    obtain ⟨a, _, rfl⟩ := hr
    simp

theorem cdistMat_entry (f : S → S → D) (as bs : List S) (i j : Nat) (a b : S)
    (ha : as[i]? = some a) (hb : bs[j]? = some b) :
    ((cdistMat f as bs)[i]?.bind (·[j]?)) = some (f a b) := by
  simp [cdistMat, List.getElem?_map, ha, hb]

theorem condK_cdist (f : S → S → D) (xs : List S) : ∀ (ys : List S) (k : Nat),
    xs.drop k = ys → condK k (ys.map fun a => xs.map fun b => f a b) = pdistLoop f ys
  | [], _, _ => by simp [pdistLoop]
  | y :: ys, k, h => by
    have h' : xs.drop (k + 1) = ys := by
      have := congrArg (List.drop 1) h
      simpa [List.drop_drop, Nat.add_comm] using this
    have ih := condK_cdist f xs ys (k + 1) h'
    simp only [List.map_cons, condK_cons, pdistLoop, ih]
    rw [← List.map_drop, h']

theorem pdistLoop_eq_pdistVec (f : S → S → D) (xs : List S) : pdistLoop f xs = pdistVec f xs := by
  rw [pdistVec, condensed_eq_condK, cdistMat]
  exact (condK_cdist f xs xs 0 (by simp)).symm

/-- for i < j the distance FROM xs[i] TO xs[j] sits at index m*i + j - (i+2)(i+1)/2 -/
theorem pdistVec_index (f : S → S → D) (xs : List S) (i j : Nat) (a b : S) (hij : i < j)
    (ha : xs[i]? = some a) (hb : xs[j]? = some b) :
    (pdistVec f xs)[condensedIndex xs.length i j]? = some (f a b) := by
  have hj : j < xs.length := by
    rcases Nat.lt_or_ge j xs.length with h | h
    · exact h
    · rw [List.getElem?_eq_none h] at hb; cases hb
  rw [pdistVec, condensed_index xs.length _ (cdistMat_square f xs) i j hij hj]
  exact cdistMat_entry f xs xs i j a b ha hb

theorem pdistVec_length (f : S → S → D) (xs : List S) :
    (pdistVec f xs).length = xs.length * (xs.length - 1) / 2 :=
  condensed_length _ _ (cdistMat_square f xs)

end Prs

