import Prs.Proofs.Prob5
open Finset BigOperators
namespace Prs
variable {N K : ℕ}

theorem second_moment (p : Fin K → ℚ) (hp : ∑ v, p v = 1) :
    ∑ x : Fin N → Fin K, w p x * (C x) ^ 2
      = (N * (N - 1) : ℚ) *
        (((N:ℚ) - 2) * (N - 3) * (Pm p 2 * Pm p 2) + 2 * Pm p 2 + 4 * (N - 2) * Pm p 3) := by
  have hx : ∀ x : Fin N → Fin K, w p x * (C x) ^ 2
      = ∑ a ∈ D N, ∑ b ∈ D N, w p x *
          ((if x a.1 = x a.2 then 1 else 0) * (if x b.1 = x b.2 then 1 else 0)) := by
    intro x
    rw [pow_two, C, Finset.sum_mul_sum, Finset.mul_sum]
    exact Finset.sum_congr rfl fun a _ => by rw [Finset.mul_sum]
  simp only [hx]
  rw [Finset.sum_comm]
  have ha : ∀ a ∈ D N, ∑ x : Fin N → Fin K, ∑ b ∈ D N, w p x *
        ((if x a.1 = x a.2 then 1 else 0) * (if x b.1 = x b.2 then 1 else 0))
      = ((N:ℚ) - 2) * (N - 3) * (Pm p 2 * Pm p 2) + 2 * Pm p 2 + 4 * (N - 2) * Pm p 3 := by
    intro a haD
    have hne : a.1 ≠ a.2 := by simpa [D] using haD
    rw [Finset.sum_comm]
    rw [← inner_sum p a.1 a.2 hne]
    refine Finset.sum_congr rfl fun b hbD => ?_
    have hneb : b.1 ≠ b.2 := by simpa [D] using hbD
    rw [E_pair_pair p hp, card_pair hne, card_pair hneb]
  rw [Finset.sum_congr rfl ha, sum_const, nsmul_eq_mul]
  congr 1
  simp only [D, offDiag_card, card_univ, Fintype.card_fin]
  rcases N with _ | n
  · simp
  · push_cast [Nat.cast_sub (Nat.le_mul_self (n+1))]; ring

/-- the algebra behind `varpc_n`: with unbiased estimates of Σp², Σp³ and the second moment above,
the estimator's expectation is the variance of `pc` -/
theorem var_algebra (n P2 P3 : ℚ) (h0 : n ≠ 0) (h1 : n - 1 ≠ 0) (h2 : n - 2 ≠ 0) (h3 : n - 3 ≠ 0) :
    let β := 2 * (2 * n - 3) / ((n - 2) * (n - 3))
    let Ep2sq := ((n - 2) * (n - 3) * (P2 * P2) + 2 * P2 + 4 * (n - 2) * P3) / (n * (n - 1))
    4 * (n - 2) / (n * (n - 1)) * (1 + β) * P3 - β * Ep2sq + 2 / (n * (n - 1)) * (1 + β) * P2
      = Ep2sq - P2 ^ 2 := by
  intro β Ep2sq
  simp only [β, Ep2sq]
  field_simp
  ring
end Prs
