def hello := "world"
