/-
Properties/C07.lean — Hamming mode: every engine reports exactly the equal-length pairs within k
mismatches, each once, with original positions.
-/
import Prs.Proofs.Engines
namespace Prs
variable {α : Type} [DecidableEq α]

/-- symdel / nearest_neighbor with custom_distance='hamming' -/
theorem C07_symdel_exact (k : Nat) (xs : List (List α)) (i j d : Nat) :
    (i, j, d) ∈ symdelHamming k xs ↔
      ∃ a b, i ≠ j ∧ xs[i]? = some a ∧ xs[j]? = some b ∧ a.length = b.length ∧
        mismatches a b = d ∧ d ≤ k := by
  rw [symdelHamming_iff, selfPairs_ham]

theorem C07_symdel_nodup (k : Nat) (xs : List (List α)) : (symdelHamming k xs).Nodup :=
  symdelSelf_nodup _ _ _

/-- two-collection form -/
theorem C07_symdel_two_exact (k : Nat) (ref qs : List (List α)) (q r d : Nat) :
    (q, r, d) ∈ symdelTwoHamming k ref qs ↔
      ∃ a b, qs[q]? = some a ∧ ref[r]? = some b ∧ a.length = b.length ∧
        mismatches a b = d ∧ d ≤ k := by
  rw [symdelTwoHamming_iff, crossPairs_ham]

theorem C07_symdel_two_nodup (k : Nat) (ref qs : List (List α)) : (symdelTwoHamming k ref qs).Nodup :=
  symdelLookup_nodup _ _ _ _

/-- hash_based: substitution-only ball; the reported value is a finite number of mismatches -/
theorem C07_hash_exact (A : List α) (xs : List (List α)) (k : Nat)
    (hA : ∀ s ∈ xs, ∀ c ∈ s, c ∈ A) (i j : Nat) (od : Option Nat) :
    (i, j, od) ∈ hashHamming A xs k ↔
      ∃ d, od = some d ∧ ∃ a b, i ≠ j ∧ xs[i]? = some a ∧ xs[j]? = some b ∧ a.length = b.length ∧
        mismatches a b = d ∧ d ≤ k := by
  rw [hashHamming_iff A xs k hA]
  simp only [selfPairs_ham]

theorem C07_hash_nodup (A : List α) (xs : List (List α)) (k : Nat) : (hashHamming A xs k).Nodup :=
  lookupDB_nodup _ _ _ _ _ _ _

/-- kdtree: buckets by length, searched separately, positions mapped back to the ORIGINAL input
positions whatever the interleaving of lengths -/
theorem C07_kdtree_exact (A : List α) (c k : Nat) (hc : 1 ≤ c) (xs : List (List α))
    (hA : ∀ s ∈ xs, ∀ ch ∈ s, ch ∈ A) :
    ∃ ts, kdHamming A c k xs = some ts ∧ ts.Nodup ∧ ∀ i j d, (i, j, d) ∈ ts ↔
      ∃ a b, i ≠ j ∧ xs[i]? = some a ∧ xs[j]? = some b ∧ a.length = b.length ∧
        mismatches a b = d ∧ d ≤ k := by
  obtain ⟨ts, h1, h2, h3⟩ := kdtreeHamming_hamScore_exact A c k hc xs hA
  exact ⟨ts, h1, h2, fun i j d => by rw [h3, selfPairs_ham]⟩

/-- sequences of different length are never neighbours, in any engine -/
theorem C07_unequal_length_never (k : Nat) (xs : List (List α)) (i j d : Nat) (a b : List α)
    (ha : xs[i]? = some a) (hb : xs[j]? = some b) (hl : a.length ≠ b.length) :
    (i, j, d) ∉ symdelHamming k xs := by
  intro h
  obtain ⟨a', b', _, ha', hb', hl', _⟩ := (C07_symdel_exact k xs i j d).1 h
  rw [ha] at ha'; rw [hb] at hb'
  cases ha'; cases hb'
  exact hl hl'

/-! non-vacuity: mixed lengths interleaved; one indel apart is NOT a Hamming neighbour -/
example : (0, 2, 1) ∈ symdelHamming 1 [['C', 'A'], ['C'], ['C', 'D']] :=
  (C07_symdel_exact 1 _ 0 2 1).2 ⟨['C', 'A'], ['C', 'D'], by decide, rfl, rfl, rfl, by decide, by decide⟩
example : (0, 1, 1) ∉ symdelHamming 1 [['C', 'A'], ['C'], ['C', 'D']] :=
  C07_unequal_length_never 1 _ 0 1 1 ['C', 'A'] ['C'] rfl rfl (by decide)

end Prs
