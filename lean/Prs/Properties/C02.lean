/-
Properties/C02.lean — `pc` (pyrepseq/stats.py) is the exact fraction of coinciding pairs.

* one sample: pc · N(N−1) = number of ordered pairs of distinct positions holding equal elements;
* two samples: pc · N·M = number of cross pairs (i, j) with as[i] = bs[j];
* invariant under permutation of the sample(s) and under injective relabelling; in [0, 1];
  1 on a constant sample, 0 on a duplicate-free one;
* tables: rows are serialised with a separator; for rows of equal width whose cell texts do not
  contain the separator two rows serialise equally iff they agree column-wise, so `pc` of the table
  is `pc` of the tuples of cell texts, and `pc_joint` ('_') agrees with `pc` on a table ('.').

Only property theorems and non-vacuity examples live here; helpers are in Proofs/Stats.lean
(and the counting bridges of Proofs/Prob7.lean, Prob8.lean).
-/
import Prs.Proofs.FormulasPc
import Prs.Proofs.FormulasPc2
import Prs.Proofs.Stats

open Finset BigOperators
namespace Prs

section
variable {β : Type} [DecidableEq β]

/-- pc1 · N(N−1) = number of ordered pairs of distinct positions holding equal elements
(N ≥ 2; for N ≤ 1 the source gives nan and the model 0/0 = 0, the identity then reads 0 = 0) -/
theorem C02_pc_pairs (xs : List β) (h : 2 ≤ xs.length) :
    pc1 xs * ((xs.length : ℚ) * ((xs.length : ℚ) - 1)) =
      (((Finset.univ : Finset (Fin xs.length × Fin xs.length)).filter
        (fun b => b.1 ≠ b.2 ∧ xs[b.1] = xs[b.2])).card : ℚ) := by
  have h2 : (2:ℚ) ≤ xs.length := by exact_mod_cast h
  have h0 : (xs.length:ℚ) ≠ 0 := ne_of_gt (by linarith)
  have h1 : (xs.length:ℚ) - 1 ≠ 0 := ne_of_gt (by linarith)
  rw [← sumFall2_counts xs]
  unfold pc1 pcN
  simp only [counts_sum]
  field_simp

/-- pc2 · N·M = number of cross pairs (i, j) with as[i] = bs[j] -/
theorem C02_pc_cross (as bs : List β) (ha : 1 ≤ as.length) (hb : 1 ≤ bs.length) :
    pc2 as bs * ((as.length : ℚ) * (bs.length : ℚ)) =
      (((Finset.univ : Finset (Fin as.length × Fin bs.length)).filter
        (fun b => as[b.1] = bs[b.2])).card : ℚ) := by
  have h0 : (as.length:ℚ) ≠ 0 := by exact_mod_cast (by omega : as.length ≠ 0)
  have h1 : (bs.length:ℚ) ≠ 0 := by exact_mod_cast (by omega : bs.length ≠ 0)
  rw [← crossCount_counts as bs]
  unfold pc2
  field_simp

theorem C02_perm (xs ys : List β) (h : xs.Perm ys) : pc1 xs = pc1 ys := pc1_perm xs ys h

theorem C02_perm_cross (as as' bs bs' : List β) (h1 : as.Perm as') (h2 : bs.Perm bs') :
    pc2 as bs = pc2 as' bs' := pc2_perm as as' bs bs' h1 h2

theorem C02_relabel {γ : Type} [DecidableEq γ] (f : β → γ) (hf : Function.Injective f)
    (xs : List β) : pc1 (xs.map f) = pc1 xs :=
  pc1_map_injOn f xs (fun _ _ _ _ e => hf e)

/-- it is enough that the relabelling is injective on the values that occur -/
theorem C02_relabel_on {γ : Type} [DecidableEq γ] (f : β → γ) (xs : List β)
    (hf : ∀ a ∈ xs, ∀ b ∈ xs, f a = f b → a = b) : pc1 (xs.map f) = pc1 xs :=
  pc1_map_injOn f xs hf

theorem C02_relabel_cross {γ : Type} [DecidableEq γ] (f : β → γ) (hf : Function.Injective f)
    (as bs : List β) : pc2 (as.map f) (bs.map f) = pc2 as bs := pc2_map_inj f hf as bs

theorem C02_range (xs : List β) (h : 2 ≤ xs.length) : 0 ≤ pc1 xs ∧ pc1 xs ≤ 1 := by
  have h2 : (2:ℚ) ≤ xs.length := by exact_mod_cast h
  have hd : (0:ℚ) < (xs.length : ℚ) * ((xs.length : ℚ) - 1) :=
    mul_pos (by linarith) (by linarith)
  have hle : (sumFall2 (counts xs) : ℚ) ≤ (xs.length : ℚ) * ((xs.length : ℚ) - 1) := by
    have := sumFall2_counts_le xs
    have h' : ((xs.length * (xs.length - 1) : ℕ) : ℚ) = (xs.length : ℚ) * ((xs.length : ℚ) - 1) := by
      rw [Nat.cast_mul, Nat.cast_sub (by omega)]; simp
    rw [← h']; exact_mod_cast this
  unfold pc1 pcN
  simp only [counts_sum]
  exact ⟨div_nonneg (Nat.cast_nonneg _) hd.le, (div_le_one hd).2 hle⟩

theorem C02_range_cross (as bs : List β) (ha : 1 ≤ as.length) (hb : 1 ≤ bs.length) :
    0 ≤ pc2 as bs ∧ pc2 as bs ≤ 1 := by
  have h0 : (0:ℚ) < as.length := by exact_mod_cast ha
  have h1 : (0:ℚ) < bs.length := by exact_mod_cast hb
  have hd : (0:ℚ) < (as.length : ℚ) * (bs.length : ℚ) := mul_pos h0 h1
  have hle : (crossCount as bs : ℚ) ≤ (as.length : ℚ) * (bs.length : ℚ) := by
    exact_mod_cast crossCount_le as bs
  unfold pc2
  exact ⟨div_nonneg (Nat.cast_nonneg _) hd.le, (div_le_one hd).2 hle⟩

theorem C02_all_equal (x : β) (n : ℕ) (h : 2 ≤ n) : pc1 (List.replicate n x) = 1 := by
  have h2 : (2:ℚ) ≤ n := by exact_mod_cast h
  have h0 : (n:ℚ) ≠ 0 := ne_of_gt (by linarith)
  have h1 : (n:ℚ) - 1 ≠ 0 := ne_of_gt (by linarith)
  rw [pc1_eq, List.toFinset_replicate_of_ne_zero (by omega), Finset.sum_singleton,
    List.count_replicate_self, List.length_replicate, Nat.cast_mul, Nat.cast_sub (by omega)]
  simp only [Nat.cast_one]
  exact div_self (mul_ne_zero h0 h1)

theorem C02_all_distinct (xs : List β) (h : xs.Nodup) : pc1 xs = 0 := by
  rw [pc1_eq]
  have : ∑ v ∈ xs.toFinset, xs.count v * (xs.count v - 1) = 0 := by
    refine Finset.sum_eq_zero fun v hv => ?_
    simp [List.count_eq_one_of_mem h (List.mem_toFinset.1 hv)]
  rw [this]; simp

theorem C02_pcn_pc (xs : List β) : pcN (counts xs) = pc1 xs := rfl

end

/-! ### tables -/

/-- rows: two rows of equal width whose cell texts do not contain the separator serialise to the
same string iff they agree in every column -/
theorem C02_rows (sep : Char) (r r' : List Cell) (hw : r.length = r'.length)
    (h : ∀ c ∈ r, sep ∉ cellText c) (h' : ∀ c ∈ r', sep ∉ cellText c) :
    encodeRow sep r = encodeRow sep r' ↔ r.map cellText = r'.map cellText := by
  constructor
  · intro e
    refine joinWith_inj sep _ _ (by simpa using hw) ?_ ?_ e
    · intro c hc
      obtain ⟨a, ha, rfl⟩ := List.mem_map.1 hc
      exact h a ha
    · intro c hc
      obtain ⟨a, ha, rfl⟩ := List.mem_map.1 hc
      exact h' a ha
  · intro e
    unfold encodeRow
    rw [e]

/-- hence pc of a table = pc of the rows compared column-wise (tuple of cell texts) -/
theorem C02_table (sep : Char) (rows : List (List Cell)) (w : Nat)
    (hw : ∀ r ∈ rows, r.length = w) (h : ∀ r ∈ rows, ∀ c ∈ r, sep ∉ cellText c) :
    pc1 (rows.map (encodeRow sep)) = pc1 (rows.map (fun r => r.map cellText)) := by
  have e : rows.map (encodeRow sep)
      = (rows.map (fun r => r.map cellText)).map (joinWith sep) := by
    rw [List.map_map]; rfl
  rw [e]
  apply pc1_map_injOn
  intro a ha b hb eab
  obtain ⟨r, hr, rfl⟩ := List.mem_map.1 ha
  obtain ⟨r', hr', rfl⟩ := List.mem_map.1 hb
  exact (C02_rows sep r r' ((hw r hr).trans (hw r' hr').symm) (h r hr) (h r' hr')).1 eab

/-- two-table version -/
theorem C02_table_cross (sep : Char) (rows rows2 : List (List Cell)) (w : Nat)
    (hw : ∀ r ∈ rows, r.length = w) (hw2 : ∀ r ∈ rows2, r.length = w)
    (h : ∀ r ∈ rows, ∀ c ∈ r, sep ∉ cellText c) (h2 : ∀ r ∈ rows2, ∀ c ∈ r, sep ∉ cellText c) :
    pc2 (rows.map (encodeRow sep)) (rows2.map (encodeRow sep))
      = pc2 (rows.map (fun r => r.map cellText)) (rows2.map (fun r => r.map cellText)) := by
  have e : ∀ rs : List (List Cell), rs.map (encodeRow sep)
      = (rs.map (fun r => r.map cellText)).map (joinWith sep) := by
    intro rs; rw [List.map_map]; rfl
  rw [e rows, e rows2]
  apply pc2_map_injOn
  have key : ∀ a ∈ rows.map (fun r => r.map cellText) ++ rows2.map (fun r => r.map cellText),
      ∃ r : List Cell, r.map cellText = a ∧ r.length = w ∧ ∀ c ∈ r, sep ∉ cellText c := by
    intro a ha
    rcases List.mem_append.1 ha with ha | ha
    · obtain ⟨r, hr, rfl⟩ := List.mem_map.1 ha
      exact ⟨r, rfl, hw r hr, h r hr⟩
    · obtain ⟨r, hr, rfl⟩ := List.mem_map.1 ha
      exact ⟨r, rfl, hw2 r hr, h2 r hr⟩
  intro a ha b hb eab
  obtain ⟨r, rfl, hrw, hr⟩ := key a ha
  obtain ⟨r', rfl, hrw', hr'⟩ := key b hb
  exact (C02_rows sep r r' (hrw.trans hrw'.symm) hr hr').1 eab

theorem C02_joint_eq_table (rows : List (List Cell)) (w : Nat) (hw : ∀ r ∈ rows, r.length = w)
    (h1 : ∀ r ∈ rows, ∀ c ∈ r, '.' ∉ cellText c) (h2 : ∀ r ∈ rows, ∀ c ∈ r, '_' ∉ cellText c) :
    pcJoint '_' rows = pcTable rows := by
  unfold pcJoint pcTable
  rw [C02_table '_' rows w hw h2, C02_table '.' rows w hw h1]

/-! ### non-vacuity -/

example : pc1 [1, 2, 1, 1] * ((([1, 2, 1, 1] : List ℕ).length : ℚ) * ((([1, 2, 1, 1] : List ℕ).length : ℚ) - 1))
    = (((Finset.univ : Finset (Fin ([1, 2, 1, 1] : List ℕ).length × Fin ([1, 2, 1, 1] : List ℕ).length)).filter
        (fun b => b.1 ≠ b.2 ∧ ([1, 2, 1, 1] : List ℕ)[b.1] = ([1, 2, 1, 1] : List ℕ)[b.2])).card : ℚ) :=
  C02_pc_pairs _ (by decide)

example : 0 ≤ pc1 [1, 2, 1, 1] ∧ pc1 [1, 2, 1, 1] ≤ 1 := C02_range _ (by decide)
example : 0 ≤ pc2 [1, 2, 1] [1, 3] ∧ pc2 [1, 2, 1] [1, 3] ≤ 1 :=
  C02_range_cross _ _ (by decide) (by decide)
example : pc1 [1, 2, 1] = pc1 [1, 1, 2] := C02_perm _ _ (by decide)
example : pc1 ([1, 2, 1].map (· + 5)) = pc1 [1, 2, 1] :=
  C02_relabel _ (fun a b h => by simpa using h) _
example : pc1 (List.replicate 3 'a') = 1 := C02_all_equal _ _ (by decide)
example : pc1 [1, 2, 3] = 0 := C02_all_distinct _ (by decide)

/-- separator-free rows, one with a missing cell and one with an empty cell: equal serialisations -/
example : encodeRow '.' [some ['a'], none] = encodeRow '.' [some ['a'], some []]
    ↔ [some ['a'], none].map cellText = [some ['a'], some []].map cellText :=
  C02_rows '.' _ _ rfl (by decide) (by decide)

/-- what breaks when a cell contains the separator: different rows, same serialisation -/
example : encodeRow '.' [some ['a', '.', 'b'], some ['c']] = encodeRow '.' [some ['a'], some ['b', '.', 'c']]
    ∧ [some ['a', '.', 'b'], some ['c']].map cellText ≠ [some ['a'], some ['b', '.', 'c']].map cellText := by
  decide

/-- what breaks when the widths differ: `[""]` and `[]` both serialise to the empty string -/
example : encodeRow '.' [none] = encodeRow '.' [] ∧ [none].map cellText ≠ ([] : List Cell).map cellText := by
  decide

example : pcJoint '_' [[some ['a'], none], [some ['a'], some []], [some ['b'], some ['c']]]
    = pcTable [[some ['a'], none], [some ['a'], some []], [some ['b'], some ['c']]] :=
  C02_joint_eq_table _ 2 (by decide) (by decide) (by decide)

/-! ### the source of `pc_n`, as translated from pyrepseq/stats.py on this run, is the model -/

/-- `pc_n` of pyrepseq/stats.py (Generated/FormulasPc, re-translated from the source on every run) computes the
    modelled `pcN` on every count vector -/
theorem C02_source_pc_n (n : List ℕ) : Generated.pc_n (castCounts n) = pcN n := gen_pc_n_eq n

example : Generated.pc_n (castCounts [2, 1, 3]) = 4 / 15 := by
  rw [C02_source_pc_n]; decide +kernel

/-- `pc` itself for ONE flat collection (no second sample, not a table), as re-translated from pyrepseq/stats.py on this run
(Generated/FormulasPc `pc_one_sample`: the conversions are the identity, `N = array.shape[0]`, `np.unique(return_counts=True)` is
`counts`, then the pair-count quotient written out in the body — `pc` does not call `pc_n`) is the model `pc1` -/
theorem C02_source_pc_one_sample {β : Type} [DecidableEq β] (xs : List β) : Generated.pc_one_sample xs = pc1 xs :=
  gen_pc_one_sample_eq xs

/-- hence what the source computes is the fraction of ordered pairs of distinct positions that hold equal elements
(`C02_pc_pairs` transported to the translated definition), and it does not depend on the order of the sample -/
theorem C02_source_pc_pairs {β : Type} [DecidableEq β] (xs : List β) (h : 2 ≤ xs.length) :
    Generated.pc_one_sample xs * ((xs.length : ℚ) * ((xs.length : ℚ) - 1)) =
      (((Finset.univ : Finset (Fin xs.length × Fin xs.length)).filter
        (fun b => b.1 ≠ b.2 ∧ xs[b.1] = xs[b.2])).card : ℚ) := by
  rw [C02_source_pc_one_sample]; exact C02_pc_pairs xs h

theorem C02_source_pc_perm {β : Type} [DecidableEq β] (xs ys : List β) (h : xs.Perm ys) :
    Generated.pc_one_sample xs = Generated.pc_one_sample ys := by
  rw [C02_source_pc_one_sample, C02_source_pc_one_sample]; exact C02_perm xs ys h

/-- `pc` of TWO flat collections, as re-translated from the source on this run (`np.unique(return_counts=True)` of each,
`np.intersect1d(..., return_indices=True)` selecting the counts of the shared values, divided by `len(array) * len(array2)`), is
the model `pc2` -/
theorem C02_source_pc_two_samples {β : Type} [DecidableEq β] (as bs : List β) : Generated.pc_two_samples as bs = pc2 as bs :=
  gen_pc_two_samples_eq as bs

/-- hence it is the fraction of cross pairs (one position from each sample) that hold equal elements (`C02_pc_cross` transported),
independent of the order of either sample -/
theorem C02_source_pc_cross_pairs {β : Type} [DecidableEq β] (as bs : List β) (ha : 1 ≤ as.length) (hb : 1 ≤ bs.length) :
    Generated.pc_two_samples as bs * ((as.length : ℚ) * (bs.length : ℚ)) =
      (((Finset.univ : Finset (Fin as.length × Fin bs.length)).filter
        (fun b => as[b.1] = bs[b.2])).card : ℚ) := by
  rw [C02_source_pc_two_samples]; exact C02_pc_cross as bs ha hb

theorem C02_source_pc_cross_perm {β : Type} [DecidableEq β] (as as' bs bs' : List β) (h1 : as.Perm as') (h2 : bs.Perm bs') :
    Generated.pc_two_samples as bs = Generated.pc_two_samples as' bs' := by
  rw [C02_source_pc_two_samples, C02_source_pc_two_samples]; exact C02_perm_cross as as' bs bs' h1 h2

example : Generated.pc_two_samples ["a", "b", "a"] ["a", "c", "b", "a"] = 5 / 12 := by
  rw [C02_source_pc_two_samples]; decide +kernel

example : Generated.pc_one_sample ["a", "b", "a", "c", "a", "b"] = 4 / 15 := by
  rw [C02_source_pc_one_sample]; decide +kernel

end Prs

