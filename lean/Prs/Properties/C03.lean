/-
Properties/C03.lean — two-collection search and database lookups are exact.
(The LookupDB theorems are in the second half of this file.)
-/
import Prs.Proofs.SymDB
import Prs.Proofs.NeighborLoops
import Prs.Proofs.LookupDB
import Prs.Model.Engines
namespace Prs
variable {α : Type} [DecidableEq α]

/-- EXACTNESS: (q, r, d) is reported iff q is a query position, r a reference position and
d = lev(query[q], reference[r]) ≤ k — identical sequences (d = 0) and numerically equal positions
included, for all collections of any sizes over any alphabet and every k. -/
theorem C03_symdel_exact (k : Nat) (ref qs : List (List α)) (q r d : Nat) :
    (q, r, d) ∈ symdelTwoDefault k ref qs ↔
      ∃ a b, qs[q]? = some a ∧ ref[r]? = some b ∧ lev a b ≤ k ∧ d = lev a b := by
  unfold symdelTwoDefault
  rw [symdelLookup_exact]
  · simp only [CrossPairs, levScore]
    constructor
    · rintro ⟨a, b, ha, hb, hs⟩
      split at hs
      · simp only [Option.some.injEq] at hs; exact ⟨a, b, ha, hb, by assumption, hs.symm⟩
      · cases hs
    · rintro ⟨a, b, ha, hb, hk, rfl⟩
      exact ⟨a, b, ha, hb, by simp [hk]⟩
  · intro a b d hs
    simp only [levScore] at hs
    split at hs
    · exact symdel_complete k a b (by assumption)
    · cases hs

/-- every pair is reported once -/
theorem C03_symdel_nodup (k : Nat) (ref qs : List (List α)) : (symdelTwoDefault k ref qs).Nodup :=
  symdelLookup_nodup _ _ _ _

/-- pairs whose two positions are numerically equal are reported like any other -/
theorem C03_equal_positions (k : Nat) (ref qs : List (List α)) (i : Nat) (a b : List α)
    (ha : qs[i]? = some a) (hb : ref[i]? = some b) (h : lev a b ≤ k) :
    (i, i, lev a b) ∈ symdelTwoDefault k ref qs :=
  (C03_symdel_exact k ref qs i i _).2 ⟨a, b, ha, hb, h, rfl⟩

/-- identical sequences are reported at distance 0 -/
theorem C03_identical_at_zero (k : Nat) (ref qs : List (List α)) (q r : Nat) (a : List α)
    (ha : qs[q]? = some a) (hb : ref[r]? = some a) : (q, r, 0) ∈ symdelTwoDefault k ref qs :=
  (C03_symdel_exact k ref qs q r 0).2 ⟨a, a, ha, hb, by simp [lev_self], by simp [lev_self]⟩

/-- HISTORIES: a database object built once and queried any number of times gives, for every
lookup of every history, the answer of a fresh one-shot search; its stored state never changes. -/
theorem C03_history (k : Nat) (ref : List (List α)) (qss : List (List (List α))) :
    SymDB.run (delVariants k) (levScore k) (SymDB.build (delVariants k) ref) qss =
      (SymDB.build (delVariants k) ref, qss.map fun qs => symdelTwoDefault k ref qs) :=
  SymDB.run_build _ _ _ _

/-- the executable brute-force oracle is the specification -/
theorem C03_oracle_is_spec (k : Nat) (ref qs : List (List α)) (q r d : Nat) :
    (q, r, d) ∈ bruteCross (levScore k) ref qs ↔
      ∃ a b, qs[q]? = some a ∧ ref[r]? = some b ∧ lev a b ≤ k ∧ d = lev a b := by
  simp only [bruteCross, List.mem_flatMap, List.mem_filterMap, List.mem_zipIdx_iff_getElem?, levScore]
  constructor
  · rintro ⟨⟨a, i'⟩, ha, ⟨b, j'⟩, hb, h⟩
    simp only at ha hb h
    split at h
    · simp only [Option.map_some, Option.some.injEq, Prod.mk.injEq] at h
      obtain ⟨rfl, rfl, rfl⟩ := h
      exact ⟨a, b, ha, hb, by assumption, rfl⟩
    · cases h
  · rintro ⟨a, b, ha, hb, hk, rfl⟩
    exact ⟨(a, q), ha, (b, r), hb, by simp [hk]⟩

/-! ### LookupDB (hash based): the query's edit ball is enumerated and probed -/

/-- EXACTNESS of LookupDB.lookup for references over the alphabet (queries arbitrary): without
pdist_mode every (q, r) within distance k is reported — numerically equal positions included. -/
theorem C03_lookupdb_exact (A : List α) (ref qs : List (List α)) (k : Nat)
    (hA : ∀ r ∈ ref, ∀ c ∈ r, c ∈ A) (q r d : Nat) :
    (q, r, d) ∈ lookupDefault A false ref qs k ↔
      ∃ a b, qs[q]? = some a ∧ ref[r]? = some b ∧ lev a b ≤ k ∧ d = lev a b := by
  unfold lookupDefault
  rw [mem_lookupDB]
  constructor
  · rintro ⟨a, b, ha, hb, hball, _, _, rfl⟩
    exact ⟨a, b, ha, hb, (bfsBall_lev_keys A a b k (hA b (List.mem_of_getElem? hb))).1 hball, rfl⟩
  · rintro ⟨a, b, ha, hb, hk, rfl⟩
    exact ⟨a, b, ha, hb, (bfsBall_lev_keys A a b k (hA b (List.mem_of_getElem? hb))).2 hk,
      by simp, rfl, rfl⟩

/-- in pdist_mode exactly the pairs with numerically equal positions are dropped -/
theorem C03_lookupdb_pdist (A : List α) (ref qs : List (List α)) (k : Nat)
    (hA : ∀ r ∈ ref, ∀ c ∈ r, c ∈ A) (q r d : Nat) :
    (q, r, d) ∈ lookupDefault A true ref qs k ↔
      q ≠ r ∧ ∃ a b, qs[q]? = some a ∧ ref[r]? = some b ∧ lev a b ≤ k ∧ d = lev a b := by
  unfold lookupDefault
  rw [mem_lookupDB]
  constructor
  · rintro ⟨a, b, ha, hb, hball, hp, _, rfl⟩
    exact ⟨by simpa using hp, a, b, ha, hb,
      (bfsBall_lev_keys A a b k (hA b (List.mem_of_getElem? hb))).1 hball, rfl⟩
  · rintro ⟨hne, a, b, ha, hb, hk, rfl⟩
    exact ⟨a, b, ha, hb, (bfsBall_lev_keys A a b k (hA b (List.mem_of_getElem? hb))).2 hk,
      by simpa using hne, rfl, rfl⟩

theorem C03_lookupdb_nodup (A : List α) (pdist : Bool) (ref qs : List (List α)) (k : Nat) :
    (lookupDefault A pdist ref qs k).Nodup := lookupDB_nodup _ _ _ _ _ _ _

/-- the breadth-first edit ball (`_generate_neighbors`) holds, for strings over the alphabet,
exactly the strings within distance k, each once, labelled with its exact distance -/
theorem C03_edit_ball (A : List α) (q y : List α) (k e : Nat) (hy : ∀ c ∈ y, c ∈ A) :
    (y, e) ∈ bfsBall (levNeighbors A) q k ↔ e = lev q y ∧ lev q y ≤ k :=
  mem_bfsBall_lev A q y k e hy

theorem C03_edit_ball_nodup (A : List α) (q : List α) (k : Nat) :
    ((bfsBall (levNeighbors A) q k).map (·.1)).Nodup := bfsBall_keys_nodup _ _ _

/-- HISTORIES for LookupDB: a dictionary object built once and queried any number of times (any
max_edits shared by the history, with or without pdist_mode) answers every lookup like a fresh
one-shot search and never changes its stored dictionary -/
theorem C03_lookupdb_history (A : List α) (pdist : Bool) (k : Nat) (ref : List (List α))
    (qss : List (List (List α))) :
    LookDB.run (levNeighbors A) (fun a b => lev a b) (fun _ => true) pdist k (LookDB.build ref) qss =
      (LookDB.build ref, qss.map fun qs => lookupDefault A pdist ref qs k) :=
  LookDB.run_build _ _ _ _ _ _ _

/-! non-vacuity -/
example : (0, 0, 0) ∈ symdelTwoDefault 1 [['C', 'A']] [['C', 'A'], ['D']] :=
  C03_identical_at_zero 1 _ _ 0 0 ['C', 'A'] rfl rfl
example : (1, 0, 1) ∈ symdelTwoDefault 1 [['C', 'A']] [['D'], ['C']] :=
  (C03_symdel_exact 1 _ _ 1 0 1).2 ⟨['C'], ['C', 'A'], rfl, rfl, by simp [lev], by simp [lev]⟩

example : (0, 0, 0) ∈ lookupDefault ['A', 'C'] false [['C', 'A']] [['C', 'A']] 1 :=
  (C03_lookupdb_exact ['A', 'C'] _ _ 1 (by decide) 0 0 0).2
    ⟨['C', 'A'], ['C', 'A'], rfl, rfl, by simp [lev_self], by simp [lev_self]⟩

/-! ### the neighbour generator LookupDB expands with, as translated from pyrepseq/distance.py on this run -/

/-- `levenshtein_neighbors` of the current source (Generated/NeighborLoops, re-translated on every run) is the generator
    `lookupDefault` is built on, so `C03_lookupdb_exact`, `C03_edit_ball` … speak about the loops the source contains -/
theorem C03_source_neighbors [Inhabited α] (A : List α) :
    (fun x => Generated.levenshtein_neighbors x A) = levNeighbors A :=
  funext fun x => gen_levenshtein_neighbors_eq A x

theorem C03_source_lookupdb_exact [Inhabited α] (A : List α) (ref qs : List (List α)) (k : Nat)
    (hA : ∀ r ∈ ref, ∀ c ∈ r, c ∈ A) (q r d : Nat) :
    (q, r, d) ∈ lookupDB (fun x => Generated.levenshtein_neighbors x A) (fun a b => lev a b) (fun _ => true) false ref qs k ↔
      ∃ a b, qs[q]? = some a ∧ ref[r]? = some b ∧ lev a b ≤ k ∧ d = lev a b := by
  rw [C03_source_neighbors]
  exact C03_lookupdb_exact A ref qs k hA q r d

end Prs
