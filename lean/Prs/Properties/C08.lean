/-
Properties/C08.lean — the string metrics are true weighted edit distances, laid out as SciPy does.
`wlev wi wd ws a b` (weights insertion / deletion / substitution, direction a → b, rapidfuzz
convention) is the minimum total weight of an edit script; `cdistMat` is `calc_cdist_matrix`,
`pdistVec` is `calc_pdist_vector` (= squareform(checks=False) of the square matrix) and `pdistLoop`
is the explicit double loop of `distance.pdist`.
Only property theorems and non-vacuity examples live here; helper lemmas are in Proofs/.
-/
import Prs.Proofs.WLev
import Prs.Proofs.LevDP
import Prs.Proofs.Condensed
import Prs.Proofs.Squareform
namespace Prs
variable {α : Type} [DecidableEq α] {S D : Type}

/-- `wlev a b` is the minimum total weight of an edit script turning a into b -/
theorem C08_wlev_min (wi wd ws : Nat) (a b : List α) (n : Nat) :
    wlev wi wd ws a b ≤ n ↔ ∃ m, m ≤ n ∧ EdW wi wd ws m a b :=
  wlev_le_iff a b n

/-- the minimum is attained: some script has exactly that weight -/
theorem C08_wlev_attained (wi wd ws : Nat) (a b : List α) :
    EdW wi wd ws (wlev wi wd ws a b) a b :=
  wlev_EdW wi wd ws a b

/-- unit weights give the plain Levenshtein distance -/
theorem C08_unit (a b : List α) : wlev 1 1 1 a b = lev a b := wlev_unit_eq_lev a b

/-- the driver's row dynamic programme is the recursive specification, for strings of any length
(natural-number arithmetic: the model cannot wrap around) -/
theorem C08_dp (wi wd ws : Nat) (a b : List α) : wlevDP wi wd ws a b = wlev wi wd ws a b :=
  wlevDP_eq_wlev wi wd ws a b

/-- `calc_cdist_matrix`: entry [i][j] is the distance FROM as[i] TO bs[j] -/
theorem C08_cdist_entry (f : S → S → D) (as bs : List S) (i j : Nat) (a b : S)
    (ha : as[i]? = some a) (hb : bs[j]? = some b) :
    ((cdistMat f as bs)[i]?.bind (·[j]?)) = some (f a b) :=
  cdistMat_entry f as bs i j a b ha hb

/-- `calc_pdist_vector`: for i < j the distance FROM xs[i] TO xs[j] sits at SciPy's condensed
index m·i + j − (i+2)(i+1)/2 -/
theorem C08_condensed_index (f : S → S → D) (xs : List S) (i j : Nat) (a b : S) (hij : i < j)
    (ha : xs[i]? = some a) (hb : xs[j]? = some b) :
    (pdistVec f xs)[condensedIndex xs.length i j]? = some (f a b) :=
  pdistVec_index f xs i j a b hij ha hb

/-- the condensed vector has m(m−1)/2 entries -/
theorem C08_condensed_length (f : S → S → D) (xs : List S) :
    (pdistVec f xs).length = xs.length * (xs.length - 1) / 2 :=
  pdistVec_length f xs

/-- the explicit double loop of `distance.pdist` obeys the same layout -/
theorem C08_pdist_loop (f : S → S → D) (xs : List S) : pdistLoop f xs = pdistVec f xs :=
  pdistLoop_eq_pdistVec f xs

/-- with asymmetric weights it is the UPPER triangle that is stored: the entry for i < j is the
distance from xs[i] to xs[j] (insertions add letters of xs[j]), not the reverse -/
theorem C08_asymmetric (wi wd ws : Nat) (xs : List (List α)) (i j : Nat) (a b : List α)
    (hij : i < j) (ha : xs[i]? = some a) (hb : xs[j]? = some b) :
    (pdistVec (wlev wi wd ws) xs)[condensedIndex xs.length i j]? = some (wlev wi wd ws a b) :=
  C08_condensed_index (wlev wi wd ws) xs i j a b hij ha hb

/-- reversing the direction swaps the insertion and deletion weights -/
theorem C08_swap (wi wd ws : Nat) (a b : List α) : wlev wi wd ws a b = wlev wd wi ws b a :=
  wlev_swap a b

/-- squareform round trip: a symmetric matrix with constant diagonal `zero` is rebuilt exactly from
its condensed vector -/
theorem C08_squareform_roundtrip (m : Nat) (M : List (List D)) (zero : D) (h : IsSquare m M)
    (hsym : ∀ i j, i < m → j < m → (M[i]?.bind (·[j]?)) = (M[j]?.bind (·[i]?)))
    (hdiag : ∀ i, i < m → (M[i]?.bind (·[i]?)) = some zero) :
    squareOf m (condensed M) zero = M :=
  squareOf_condensed m M zero h hsym hdiag

/-! non-vacuity: asymmetric weights (insertion 1, deletion 5) — the stored entry is the cheap
direction "A" → "AB" (one insertion), and the other direction really is different; a 3-point
condensed vector; a round trip -/
example : (pdistVec (wlev 1 5 1) [['A'], ['A', 'B']])[condensedIndex 2 0 1]? = some 1 := by
  have := C08_asymmetric 1 5 1 [['A'], ['A', 'B']] 0 1 ['A'] ['A', 'B'] (by decide) rfl rfl
  simpa [wlev] using this
example : wlev 1 5 1 ['A', 'B'] ['A'] = 5 := by simp [wlev]
example : wlev 1 5 1 ['A'] ['A', 'B'] = wlev 5 1 1 ['A', 'B'] ['A'] := C08_swap 1 5 1 _ _
example : pdistVec (fun a b : Nat => (a, b)) [10, 20, 30] = [(10, 20), (10, 30), (20, 30)] := by
  decide
example : condensedIndex 3 0 1 = 0 ∧ condensedIndex 3 0 2 = 1 ∧ condensedIndex 3 1 2 = 2 := by
  decide
example : squareOf 3 (condensed [[0, 1, 2], [1, 0, 3], [2, 3, 0]]) 0 =
    [[0, 1, 2], [1, 0, 3], [2, 3, 0]] := by decide
example : EdW 1 5 1 1 ['A'] ['A', 'B'] := by
  have := C08_wlev_attained 1 5 1 ['A'] ['A', 'B']
  simpa [wlev] using this

end Prs

