/-
Properties/C06.lean — coincidence statistics (pyrepseq/stats.py: pc, pc_n, varpc_n) are unbiased.

Probability model: `N` i.i.d. draws `x : Fin N → Fin K` from a distribution `p : Fin K → ℚ`
(`∑ v, p v = 1`; nothing else is needed), sample weight `w p x = ∏ i, p (x i)`, expectation
`E[f] = ∑ x, w p x * f x`.  The sample as seen by the executable model is the list `List.ofFn x`.

Only property theorems and non-vacuity examples live here; helper lemmas are in Proofs/Prob*.lean
(counting bridges `sumFall2_counts`, `sumFall3_counts`, `crossCount_counts`, `counts_sum` in
Proofs/Prob7.lean, Proofs/Prob8.lean; moments in Proofs/Prob5.lean, Prob6.lean, Prob9.lean).
-/
import Prs.Proofs.FormulasPc
import Prs.Proofs.FormulasPc2
import Prs.Proofs.FormulasStd
import Prs.Proofs.Prob9
import Mathlib.Data.Fin.VecNotation
import Mathlib.Algebra.BigOperators.Field
import Mathlib.Tactic.LinearCombination

open Finset BigOperators
namespace Prs
variable {N M K : ℕ}

/-! ### bridge: the model's `counts`-based statistics are pair / triple / cross-pair counts -/

/-- `Σ c` over the multiplicities is the sample size -/
theorem C06_counts_sum {β : Type} [DecidableEq β] (xs : List β) : (counts xs).sum = xs.length :=
  counts_sum xs

/-- `Σ c(c−1)` = number of ordered pairs of distinct positions holding equal values -/
theorem C06_sumFall2_counts {β : Type} [DecidableEq β] (xs : List β) :
    sumFall2 (counts xs)
      = ((univ : Finset (Fin xs.length × Fin xs.length)).filter
          (fun b => b.1 ≠ b.2 ∧ xs[b.1] = xs[b.2])).card := sumFall2_counts xs

/-- `Σ c(c−1)(c−2)` = number of ordered triples of pairwise distinct positions holding equal values -/
theorem C06_sumFall3_counts {β : Type} [DecidableEq β] (xs : List β) :
    sumFall3 (counts xs)
      = ((univ : Finset (Fin xs.length × Fin xs.length × Fin xs.length)).filter
          (fun t => (t.1 ≠ t.2.1 ∧ t.1 ≠ t.2.2 ∧ t.2.1 ≠ t.2.2) ∧
            xs[t.1] = xs[t.2.1] ∧ xs[t.1] = xs[t.2.2])).card := sumFall3_counts xs

/-- `crossCount` = number of cross pairs `(i, j)` with `as[i] = bs[j]` -/
theorem C06_crossCount_counts {β : Type} [DecidableEq β] (as bs : List β) :
    crossCount as bs
      = ((univ : Finset (Fin as.length × Fin bs.length)).filter
          (fun b => as[b.1] = bs[b.2])).card := crossCount_counts as bs

/-- on a sample: `Σ c(c−1) = C x = Σ_{i≠j} 1{x i = x j}` -/
theorem C06_sumFall2_sample (x : Fin N → Fin K) :
    (sumFall2 (counts (List.ofFn x)) : ℚ)
      = ∑ b ∈ (univ : Finset (Fin N)).offDiag, (if x b.1 = x b.2 then 1 else 0) :=
  sumFall2_sample x

/-- on a sample: `Σ c(c−1)(c−2) = C3 x = Σ_{i,j,k distinct} 1{x i = x j = x k}` -/
theorem C06_sumFall3_sample (x : Fin N → Fin K) :
    (sumFall3 (counts (List.ofFn x)) : ℚ)
      = ∑ t ∈ T3 (univ : Finset (Fin N)), (if x t.1 = x t.2.1 ∧ x t.1 = x t.2.2 then 1 else 0) :=
  sumFall3_sample x

/-! ### unbiasedness -/

/-- E[pc(sample)] = Σ p_k²  (needs N ≥ 2: for N ≤ 1 the model returns 0/0 = 0) -/
theorem C06_pc_unbiased (p : Fin K → ℚ) (hp : ∑ v, p v = 1) (hN : 2 ≤ N) :
    ∑ x : Fin N → Fin K, w p x * pc1 (List.ofFn x) = ∑ k, p k ^ 2 := by
  have h2 : (2:ℚ) ≤ N := by exact_mod_cast hN
  have h0 : (N:ℚ) ≠ 0 := ne_of_gt (by linarith)
  have h1 : (N:ℚ) - 1 ≠ 0 := ne_of_gt (by linarith)
  simp only [pc1_sample, ← mul_div_assoc, ← Finset.sum_div, first_moment p hp, Pm]
  field_simp

/-- E[pc(sample₁, sample₂)] = Σ p_k q_k  (needs both samples non-empty) -/
theorem C06_pc2_unbiased (p q : Fin K → ℚ) (hp : ∑ v, p v = 1) (hq : ∑ v, q v = 1)
    (hN : 1 ≤ N) (hM : 1 ≤ M) :
    ∑ x : Fin N → Fin K, ∑ y : Fin M → Fin K,
        w p x * w q y * pc2 (List.ofFn x) (List.ofFn y) = ∑ k, p k * q k := by
  have h0 : (N:ℚ) ≠ 0 := by exact_mod_cast (by omega : N ≠ 0)
  have h1 : (M:ℚ) ≠ 0 := by exact_mod_cast (by omega : M ≠ 0)
  simp only [pc2_sample, ← mul_div_assoc, ← Finset.sum_div, cross_moment p q hp hq]
  field_simp

/-- E[p3hat] = Σ p_k³  (needs N ≥ 3) -/
theorem C06_p3_unbiased (p : Fin K → ℚ) (hp : ∑ v, p v = 1) (hN : 3 ≤ N) :
    ∑ x : Fin N → Fin K, w p x * p3hat (counts (List.ofFn x)) = ∑ k, p k ^ 3 := by
  have h3 : (3:ℚ) ≤ N := by exact_mod_cast hN
  have h0 : (N:ℚ) ≠ 0 := ne_of_gt (by linarith)
  have h1 : (N:ℚ) - 1 ≠ 0 := ne_of_gt (by linarith)
  have h2 : (N:ℚ) - 2 ≠ 0 := ne_of_gt (by linarith)
  simp only [p3hat_sample, ← mul_div_assoc, ← Finset.sum_div, third_moment p hp, Pm]
  field_simp

/-- second moment of `pc` (holds for every N: both sides vanish for N ≤ 1) -/
theorem C06_second_moment (p : Fin K → ℚ) (hp : ∑ v, p v = 1) :
    ((N:ℚ) * (N - 1)) ^ 2 * ∑ x : Fin N → Fin K, w p x * (pc1 (List.ofFn x)) ^ 2
      = (N * (N - 1) : ℚ) *
        (((N:ℚ) - 2) * (N - 3) * (Pm p 2 * Pm p 2) + 2 * Pm p 2 + 4 * (N - 2) * Pm p 3) := by
  by_cases hd : (N:ℚ) * (N - 1) = 0
  · rw [hd]; simp
  · simp only [pc1_sample, div_pow, ← mul_div_assoc, ← Finset.sum_div, second_moment p hp]
    field_simp

/-- E[pc²] in closed form, N ≥ 2 -/
theorem C06_pc_sq (p : Fin K → ℚ) (hp : ∑ v, p v = 1) (hN : 2 ≤ N) :
    ∑ x : Fin N → Fin K, w p x * (pc1 (List.ofFn x)) ^ 2
      = (((N:ℚ) - 2) * (N - 3) * (Pm p 2 * Pm p 2) + 2 * Pm p 2 + 4 * (N - 2) * Pm p 3)
          / (N * (N - 1)) := by
  have h2 : (2:ℚ) ≤ N := by exact_mod_cast hN
  have h0 : (N:ℚ) ≠ 0 := ne_of_gt (by linarith)
  have h1 : (N:ℚ) - 1 ≠ 0 := ne_of_gt (by linarith)
  have h := C06_second_moment (N := N) p hp
  rw [eq_div_iff (mul_ne_zero h0 h1)]
  have hd : ((N:ℚ) * (N - 1)) ≠ 0 := mul_ne_zero h0 h1
  apply mul_left_cancel₀ hd
  rw [← h]; ring

/-- E[varpc_n] = Var(pc) = E[pc²] − (E[pc])²  (needs N ≥ 4: the source divides by (N−2)(N−3)) -/
theorem C06_var_unbiased (p : Fin K → ℚ) (hp : ∑ v, p v = 1) (hN : 4 ≤ N) :
    ∑ x : Fin N → Fin K, w p x * varpcN (counts (List.ofFn x)) =
      ∑ x : Fin N → Fin K, w p x * (pc1 (List.ofFn x)) ^ 2 - (∑ k, p k ^ 2) ^ 2 := by
  have h4 : (4:ℚ) ≤ N := by exact_mod_cast hN
  have h0 : (N:ℚ) ≠ 0 := ne_of_gt (by linarith)
  have h1 : (N:ℚ) - 1 ≠ 0 := ne_of_gt (by linarith)
  have h2 : (N:ℚ) - 2 ≠ 0 := ne_of_gt (by linarith)
  have h3 : (N:ℚ) - 3 ≠ 0 := ne_of_gt (by linarith)
  have lin : ∀ (a b c : ℚ) (f g h : (Fin N → Fin K) → ℚ),
      ∑ x : Fin N → Fin K, w p x * (a * f x - b * g x + c * h x)
        = a * ∑ x, w p x * f x - b * ∑ x, w p x * g x + c * ∑ x, w p x * h x := by
    intro a b c f g h
    simp only [Finset.mul_sum, ← Finset.sum_sub_distrib, ← Finset.sum_add_distrib]
    exact Finset.sum_congr rfl fun x _ => by ring
  simp only [varpcN_sample]
  rw [lin, C06_p3_unbiased p hp (by omega), C06_pc_unbiased p hp (by omega),
    C06_pc_sq p hp (by omega)]
  have h := var_algebra (N:ℚ) (Pm p 2) (Pm p 3) h0 h1 h2 h3
  simp only [Pm] at h ⊢
  linear_combination h

/-! ### non-vacuity: the hypotheses are satisfiable (fair coin, K = 2) -/

private theorem coin : ∑ v, (![1/2, 1/2] : Fin 2 → ℚ) v = 1 := by
  norm_num [Fin.sum_univ_two]

example : ∑ x : Fin 2 → Fin 2, w ![1/2, 1/2] x * pc1 (List.ofFn x)
    = ∑ k, (![1/2, 1/2] : Fin 2 → ℚ) k ^ 2 := C06_pc_unbiased _ coin (le_refl 2)

example : ∑ x : Fin 1 → Fin 2, ∑ y : Fin 1 → Fin 2,
    w ![1/2, 1/2] x * w ![1/2, 1/2] y * pc2 (List.ofFn x) (List.ofFn y)
    = ∑ k, (![1/2, 1/2] : Fin 2 → ℚ) k * (![1/2, 1/2] : Fin 2 → ℚ) k :=
  C06_pc2_unbiased _ _ coin coin (le_refl 1) (le_refl 1)

example : ∑ x : Fin 3 → Fin 2, w ![1/2, 1/2] x * p3hat (counts (List.ofFn x))
    = ∑ k, (![1/2, 1/2] : Fin 2 → ℚ) k ^ 3 := C06_p3_unbiased _ coin (le_refl 3)

example : (((2:ℕ):ℚ) * ((2:ℕ) - 1)) ^ 2 *
      ∑ x : Fin 2 → Fin 2, w ![1/2, 1/2] x * (pc1 (List.ofFn x)) ^ 2
    = (((2:ℕ):ℚ) * ((2:ℕ) - 1)) * ((((2:ℕ):ℚ) - 2) * ((2:ℕ) - 3)
        * (Pm ![1/2, 1/2] 2 * Pm ![1/2, 1/2] 2) + 2 * Pm ![1/2, 1/2] 2
        + 4 * ((2:ℕ) - 2) * Pm ![1/2, 1/2] 3) := C06_second_moment _ coin

example : ∑ x : Fin 2 → Fin 2, w ![1/2, 1/2] x * (pc1 (List.ofFn x)) ^ 2
    = ((((2:ℕ):ℚ) - 2) * ((2:ℕ) - 3) * (Pm ![1/2, 1/2] 2 * Pm ![1/2, 1/2] 2)
        + 2 * Pm ![1/2, 1/2] 2 + 4 * ((2:ℕ) - 2) * Pm ![1/2, 1/2] 3)
          / (((2:ℕ):ℚ) * ((2:ℕ) - 1)) := C06_pc_sq _ coin (le_refl 2)

example : sumFall2 (counts [1, 2, 1, 1]) = 6 ∧ sumFall3 (counts [1, 2, 1, 1]) = 6
    ∧ (counts [1, 2, 1, 1]).sum = 4 ∧ crossCount [1, 2, 1] [1, 3] = 2 := by decide

example : ∑ x : Fin 4 → Fin 2, w ![1/2, 1/2] x * varpcN (counts (List.ofFn x))
    = ∑ x : Fin 4 → Fin 2, w ![1/2, 1/2] x * (pc1 (List.ofFn x)) ^ 2
      - (∑ k, (![1/2, 1/2] : Fin 2 → ℚ) k ^ 2) ^ 2 := C06_var_unbiased _ coin (le_refl 4)

/-! ### the sources of `pc_n` / `varpc_n`, as translated from pyrepseq/stats.py on this run, are the models -/

/-- the estimator the unbiasedness theorems are about is the one the source computes -/
theorem C06_source_pc_n (n : List ℕ) : Generated.pc_n (castCounts n) = pcN n := gen_pc_n_eq n

/-- `varpc_n` of pyrepseq/stats.py (Generated/FormulasPc), every coefficient included, is the modelled `varpcN` -/
theorem C06_source_varpc_n (n : List ℕ) : Generated.varpc_n (castCounts n) = varpcN n := gen_varpc_n_eq n

/-- hence the variance estimator of the source is unbiased (`C06_var_unbiased` transported to the generated definition) -/
theorem C06_source_var_unbiased (p : Fin K → ℚ) (hp : ∑ k, p k = 1) (hN : 4 ≤ N) :
    ∑ x : Fin N → Fin K, w p x * Generated.varpc_n (castCounts (counts (List.ofFn x)))
      = ∑ x : Fin N → Fin K, w p x * (pc1 (List.ofFn x)) ^ 2 - (∑ k, p k ^ 2) ^ 2 := by
  simp only [C06_source_varpc_n]
  exact C06_var_unbiased p hp hN

/-- the unbiasedness of `pc` stated for the body of `pc` itself as re-translated from the source on this run (one flat sample:
Generated/FormulasPc `pc_one_sample`): its expectation under multinomial sampling is exactly Σ p_k² -/
theorem C06_source_pc_unbiased (p : Fin K → ℚ) (hp : ∑ v, p v = 1) (hN : 2 ≤ N) :
    ∑ x : Fin N → Fin K, w p x * Generated.pc_one_sample (List.ofFn x) = ∑ k, p k ^ 2 := by
  simp only [gen_pc_one_sample_eq]
  exact C06_pc_unbiased p hp hN

/-- … and for two independent samples the expectation of the translated two-sample branch is exactly Σ p_k q_k -/
theorem C06_source_pc2_unbiased (p q : Fin K → ℚ) (hp : ∑ v, p v = 1) (hq : ∑ v, q v = 1)
    (hN : 1 ≤ N) (hM : 1 ≤ M) :
    ∑ x : Fin N → Fin K, ∑ y : Fin M → Fin K,
        w p x * w q y * Generated.pc_two_samples (List.ofFn x) (List.ofFn y) = ∑ k, p k * q k := by
  simp only [gen_pc_two_samples_eq]
  exact C06_pc2_unbiased p q hp hq hN hM

/-- `stdpc_n` of pyrepseq/stats.py (Generated/FormulasStd: `varpc_n` inlined, under the real power 1/2) returns the square root of
the variance estimate for the same counts -/
theorem C06_source_stdpc_n (n : List ℕ) :
    Generated.stdpc_n (castCountsR n) = Real.sqrt ((varpcN n : ℚ) : ℝ) := gen_stdpc_n_eq n

/-- so its square is the variance estimate wherever that is not negative (for very small samples the estimate can be negative:
NumPy then returns nan, `Real.sqrt` 0) -/
theorem C06_source_std_sq (n : List ℕ) (h : 0 ≤ varpcN n) :
    Generated.stdpc_n (castCountsR n) ^ 2 = ((varpcN n : ℚ) : ℝ) ∧ 0 ≤ Generated.stdpc_n (castCountsR n) := by
  rw [C06_source_stdpc_n]
  exact ⟨Real.sq_sqrt (by exact_mod_cast h), Real.sqrt_nonneg _⟩

/-- `stdpc(array)` of the source counts the distinct elements and returns the same square root -/
theorem C06_source_stdpc {β : Type} [DecidableEq β] (xs : List β) :
    Generated.stdpc xs = Real.sqrt ((varpcN (counts xs) : ℚ) : ℝ) ∧
    Generated.stdpc xs = Generated.stdpc_n (castCountsR (counts xs)) := by
  rw [C06_source_stdpc_n]; exact ⟨gen_stdpc_eq xs, gen_stdpc_eq xs⟩

/-- non-vacuity: counts (3, 2, 1) have a non-negative variance estimate -/
example : 0 ≤ varpcN [3, 2, 1] := by decide +kernel

end Prs

