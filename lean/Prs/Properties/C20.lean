/-
Properties/C20.lean — calls are pure: arguments stay untouched and results ignore call history.

`Generated.footprints` is re-extracted from /repo/pyrepseq/**/*.py on every run (tools/gen_footprints.py):
for each public function the mutable package state it may read / write (module globals rebound via
`global`, mutable default-argument objects) and whether it may mutate an argument object in place.
The theorems say: IF the semantics of the functions respect these footprints (`Op.Respects` — this is
what the static extraction approximates and what the dynamic history runs of the harness tie to the
interpreter), THEN the decidable side condition checked on the table implies history independence.
-/
import Prs.Proofs.Purity
import Prs.Generated.Footprints
namespace Prs

/-- the side condition holds of the table extracted from the current source -/
theorem C20_footprints_ok : footprintsOk Generated.footprints = true := Generated.footprints_ok

/-- spelled out: no public function mutates an object it is given, and no function writes a cell of
package state (a module global, a default-argument object) whose incoming value any function uses -/
theorem C20_footprints_spelled :
    ∀ op ∈ Generated.footprints, op.mutatesArgs = false ∧
      ∀ c ∈ op.writes, ∀ op' ∈ Generated.footprints, c ∉ op'.readsIn :=
  (footprintsOk_iff Generated.footprints).1 Generated.footprints_ok

/-- default arguments and every other cell that any function depends on keep their initial value
through ANY history of calls (including calls that raised: a raised call is a call whose result is the
exception) -/
theorem C20_state_preserved {A V R : Type} (h : List (Op A V R × A))
    (hmem : ∀ p ∈ h, p.1.fp ∈ Generated.footprints) (hresp : ∀ p ∈ h, p.1.Respects)
    (s : CellId → V) (c : CellId) (hc : ∃ op' ∈ Generated.footprints, c ∈ op'.readsIn) :
    (runHistory h s).2 c = s c :=
  history_preserves_read_cells Generated.footprints Generated.footprints_ok h hmem hresp s c hc

/-- HISTORY INDEPENDENCE: a call returns the same value after any finite sequence of other calls as it
does when it runs first -/
theorem C20_history_independent {A V R : Type} (h : List (Op A V R × A))
    (hmem : ∀ p ∈ h, p.1.fp ∈ Generated.footprints) (hresp : ∀ p ∈ h, p.1.Respects)
    (op : Op A V R) (a : A) (hop : op.fp ∈ Generated.footprints) (hr : op.Respects) (s : CellId → V) :
    (op.run a (runHistory h s).2).1 = (op.run a s).1 :=
  history_independent Generated.footprints Generated.footprints_ok h hmem hresp op a hop hr s

/-- every result of a history equals the result of that call alone in the initial state -/
theorem C20_history_results {A V R : Type} (h : List (Op A V R × A))
    (hmem : ∀ p ∈ h, p.1.fp ∈ Generated.footprints) (hresp : ∀ p ∈ h, p.1.Respects)
    (s : CellId → V) (k : Nat) (p : Op A V R × A) (hk : h[k]? = some p) :
    (runHistory h s).1[k]? = some (p.1.run p.2 s).1 :=
  history_results Generated.footprints Generated.footprints_ok h hmem hresp s k p hk

/-- repeating a call (same arguments — for a randomised call the seed is an argument cell it
overwrites first) gives the same value -/
theorem C20_repeat {A V R : Type} (h : List (Op A V R × A))
    (hmem : ∀ p ∈ h, p.1.fp ∈ Generated.footprints) (hresp : ∀ p ∈ h, p.1.Respects)
    (s : CellId → V) (k k' : Nat) (p : Op A V R × A) (hk : h[k]? = some p) (hk' : h[k']? = some p) :
    (runHistory h s).1[k]? = (runHistory h s).1[k']? :=
  history_repeat Generated.footprints Generated.footprints_ok h hmem hresp s k k' p hk hk'

/-- the side condition is not decoration: without it a history can change a later result -/
theorem C20_condition_needed :
    ∃ (opW opR : Op Unit Nat Nat), opW.Respects ∧ opR.Respects ∧
      (opR.run () (runHistory [(opW, ())] (fun _ => 0)).2).1 ≠ (opR.run () (fun _ => 0)).1 :=
  history_dependence_without_condition

/-! non-vacuity: the table is not empty and contains the function that rewrites the module-level
parameter block before reading it -/
example : Generated.footprints.isEmpty = false := by decide +kernel
example : (Generated.footprints.any fun op =>
    op.name == "nn.kdtree" && !op.writes.isEmpty && op.readsIn.isEmpty) = true := by decide +kernel

end Prs
