/-
Properties/C10.lean — output formats ('triplets' / 'ndarray' / 'coo_matrix') carry the same
information, and `_check_common_input` rejects exactly the invalid argument classes.
Only property theorems and non-vacuity examples live here; helper lemmas are in Proofs/Output.lean
and Proofs/Coo.lean.
-/
import Prs.Proofs.Output
namespace Prs
variable {α : Type} [DecidableEq α]

/-- the default search never lists a position pair twice, so no matrix entry is accumulated twice -/
theorem C10_pairs_nodup_symdel (k : Nat) (xs : List (List α)) :
    ((symdelDefault k xs).map fun t => (t.1, t.2.1)).Nodup :=
  symdelDefault_pairs_nodup k xs

/-- same for the two-collection search (`seqs2`) -/
theorem C10_pairs_nodup_symdel_two (k : Nat) (ref qs : List (List α)) :
    ((symdelTwoDefault k ref qs).map fun t => (t.1, t.2.1)).Nodup :=
  symdelTwoDefault_pairs_nodup k ref qs

/-- the matrix has shape (len(reference) × len(query)) -/
theorem C10_shape (trip : List (Trip Int)) (nRef nQry : Nat) :
    (cooDense trip nRef nQry).length = nRef ∧ ∀ row ∈ cooDense trip nRef nQry, row.length = nQry :=
  cooDense_shape trip nRef nQry

/-- 'ndarray'/'coo_matrix' hold d at [r][q] for each triplet (q, r, d) … -/
theorem C10_dense_entry (trip : List (Trip Int)) (nRef nQry : Nat)
    (hnd : (trip.map fun t => (t.1, t.2.1)).Nodup) (q r : Nat) (d : Int) (hq : q < nQry)
    (hr : r < nRef) (h : (q, r, d) ∈ trip) :
    ((cooDense trip nRef nQry)[r]?.bind (·[q]?)) = some d :=
  cooDense_entry trip nRef nQry hnd q r d hq hr h

/-- … and 0 elsewhere -/
theorem C10_dense_zero (trip : List (Trip Int)) (nRef nQry q r : Nat) (hq : q < nQry)
    (hr : r < nRef) (h : ∀ d, (q, r, d) ∉ trip) :
    ((cooDense trip nRef nQry)[r]?.bind (·[q]?)) = some 0 :=
  cooDense_zero trip nRef nQry q r hq hr h

/-- decoding the matrix recovers exactly the triplets with non-zero value (a distance-0 duplicate is
indistinguishable from "no neighbour" in the matrix formats — inherent to the documented format) -/
theorem C10_formats_agree (trip : List (Trip Int)) (nRef nQry : Nat)
    (hnd : (trip.map fun t => (t.1, t.2.1)).Nodup)
    (hin : ∀ t ∈ trip, t.1 < nQry ∧ t.2.1 < nRef) (q r : Nat) (d : Int) :
    (q, r, d) ∈ decodeDense (cooDense trip nRef nQry) ↔ (q, r, d) ∈ trip ∧ d ≠ 0 :=
  decodeDense_cooDense trip nRef nQry hnd hin q r d

/-- a repeated position pair IS summed by the matrix conversion (why the nodup theorems matter) -/
theorem C10_accumulates_duplicates :
    ((cooDense [(0, 1, 1), (0, 1, 1)] 2 2)[1]?.bind (·[0]?)) = some 2 := by
  decide

/-- validation: every invalid class is rejected, every valid description accepted -/
theorem C10_validation_iff (a : ArgDesc) : checkCommonInput a = true ↔
    0 < a.nSeqs ∧ a.allStr = true ∧ a.maxEditsIsInt = true ∧ 0 < a.maxEdits ∧
    ((a.maxReturnsIsInt = true ∧ 0 < a.maxReturns) ∨ a.maxReturnsIsNone = true) ∧
    a.nCpuIsInt = true ∧ 0 < a.nCpu ∧ a.customOk = true ∧ a.mcdIsNumber = true ∧
    a.mcdNonneg = true ∧ a.outputKnown = true ∧ (a.seqs2IsNone = true ∨ a.seqs2AllStr = true) :=
  checkCommonInput_iff a

/-- an empty `seqs` is rejected -/
theorem C10_rejects_empty (a : ArgDesc) (h : a.nSeqs = 0) : checkCommonInput a = false :=
  checkCommonInput_false_of a fun hv => by have := hv.1; omega

/-- a non-string element of `seqs` is rejected -/
theorem C10_rejects_nonstring (a : ArgDesc) (h : a.allStr = false) : checkCommonInput a = false :=
  checkCommonInput_false_of a fun hv => by simp [h] at hv

/-- `max_edits` not an int, or < 1, is rejected -/
theorem C10_rejects_max_edits (a : ArgDesc) (h : a.maxEditsIsInt = false ∨ a.maxEdits < 1) :
    checkCommonInput a = false :=
  checkCommonInput_false_of a fun hv => by
    rcases h with h | h
    · simp [h] at hv
    · have := hv.2.2.2.1; omega

/-- `n_cpu` not an int, or < 1, is rejected -/
theorem C10_rejects_n_cpu (a : ArgDesc) (h : a.nCpuIsInt = false ∨ a.nCpu < 1) :
    checkCommonInput a = false :=
  checkCommonInput_false_of a fun hv => by
    rcases h with h | h
    · simp [h] at hv
    · have := hv.2.2.2.2.2.2.1; omega

/-- an unknown `output_type` is rejected -/
theorem C10_rejects_output_type (a : ArgDesc) (h : a.outputKnown = false) :
    checkCommonInput a = false :=
  checkCommonInput_false_of a fun hv => by simp [h] at hv

/-- `max_returns` neither None nor an int ≥ 1 is rejected -/
theorem C10_rejects_max_returns (a : ArgDesc)
    (h : a.maxReturnsIsNone = false ∧ (a.maxReturnsIsInt = false ∨ a.maxReturns < 1)) :
    checkCommonInput a = false :=
  checkCommonInput_false_of a fun hv => by
    rcases hv.2.2.2.2.1 with ⟨h1, h2⟩ | h1
    · rcases h.2 with h3 | h3
      · simp [h3] at h1
      · omega
    · simp [h.1] at h1

/-- a `seqs2` that is given and contains a non-string is rejected -/
theorem C10_rejects_seqs2 (a : ArgDesc) (h : a.seqs2IsNone = false ∧ a.seqs2AllStr = false) :
    checkCommonInput a = false :=
  checkCommonInput_false_of a fun hv => by simp [h.1, h.2] at hv

/-- an invalid custom distance (not None / 'hamming' / callable with d(x, x) = 0) is rejected -/
theorem C10_rejects_custom (a : ArgDesc) (h : a.customOk = false) : checkCommonInput a = false :=
  checkCommonInput_false_of a fun hv => by simp [h] at hv

/-- `max_custom_distance` not a number, or negative / NaN, is rejected -/
theorem C10_rejects_max_custom_distance (a : ArgDesc)
    (h : a.mcdIsNumber = false ∨ a.mcdNonneg = false) : checkCommonInput a = false :=
  checkCommonInput_false_of a fun hv => by
    rcases h with h | h <;> simp [h] at hv

/-! non-vacuity: a valid description is accepted; a concrete search result round-trips through the
matrix except for its distance-0 entries -/
example : checkCommonInput
    { nSeqs := 3, allStr := true, maxEditsIsInt := true, maxEdits := 1, maxReturnsIsNone := true,
      maxReturnsIsInt := false, maxReturns := 0, nCpuIsInt := true, nCpu := 1, customOk := true,
      mcdIsNumber := true, mcdNonneg := true, outputKnown := true, seqs2IsNone := true,
      seqs2AllStr := false } = true := by decide
example : checkCommonInput
    { nSeqs := 3, allStr := true, maxEditsIsInt := true, maxEdits := 1, maxReturnsIsNone := false,
      maxReturnsIsInt := true, maxReturns := 0, nCpuIsInt := true, nCpu := 1, customOk := true,
      mcdIsNumber := true, mcdNonneg := true, outputKnown := true, seqs2IsNone := true,
      seqs2AllStr := false } = false :=
  C10_rejects_max_returns _ ⟨rfl, Or.inr (by decide)⟩
example : (0, 1, 2) ∈ decodeDense (cooDense [(0, 1, 2), (1, 0, 2), (0, 2, 0)] 3 2) :=
  (C10_formats_agree [(0, 1, 2), (1, 0, 2), (0, 2, 0)] 3 2 (by decide) (by decide) 0 1 2).2
    ⟨by decide, by decide⟩
example : (0, 2, 0) ∉ decodeDense (cooDense [(0, 1, 2), (1, 0, 2), (0, 2, 0)] 3 2) := fun h =>
  ((C10_formats_agree [(0, 1, 2), (1, 0, 2), (0, 2, 0)] 3 2 (by decide) (by decide) 0 2 0).1 h).2 rfl
example : ((symdelDefault 1 [['A', 'B'], ['B'], ['A', 'B']]).map fun t => (t.1, t.2.1)).Nodup :=
  C10_pairs_nodup_symdel 1 _

end Prs

