/-
Properties/C18.lean — input cleaning is total and cell-local.
`A` is the amino-acid alphabet (`Generated.aminoacids` in the code); every theorem holds for any alphabet.
`isvalidaa` / `isvalidcdr3` return a Boolean for EVERY Python object (`PyObj`), never an exception;
`standardize_dataframe` (`standardizeTable`) transforms each cell of a standard column by the
standardiser of that column alone and leaves every other cell, the row order and the index untouched.
The tidytcells standardiser `f col cell` is external and arbitrary here.
-/
import Prs.Proofs.Cleaning
import Prs.Generated.Constants
import Prs.Generated.Cdr3Rule
import Prs.Proofs.Merge
import Prs.Proofs.MergeFold
namespace Prs

/-- total: for ANY object the predicates return a Boolean, never an exception -/
theorem C18_isvalidaa_total (A : List Char) (o : PyObj) : ∃ b, isvalidaa A o = .ok b :=
  isvalidaa_total A o

theorem C18_isvalidcdr3_total (A : List Char) (o : PyObj) : ∃ b, isvalidcdr3 A o = .ok b :=
  isvalidcdr3_total A o

/-- on strings: True exactly for strings over the alphabet (the empty string included) -/
theorem C18_isvalidaa_str (A : List Char) (s : List Char) :
    isvalidaa A (.str s) = .ok (s.all fun c => A.contains c) :=
  isvalidaa_str A s

/-- CDR3: non-empty, all letters in A, first letter C, last letter in {F, W, C} -/
theorem C18_isvalidcdr3_str (A : List Char) (s : List Char) :
    isvalidcdr3 A (.str s) = .ok (decide (s ≠ []) && (s.all fun c => A.contains c) &&
      decide (s.head? = some 'C') &&
      decide (s.getLast? = some 'F' ∨ s.getLast? = some 'W' ∨ s.getLast? = some 'C')) :=
  isvalidcdr3_str A s

theorem C18_empty_string (A : List Char) :
    isvalidcdr3 A (.str []) = .ok false ∧ isvalidaa A (.str []) = .ok true :=
  ⟨rfl, rfl⟩

/-- missing values and numbers are never valid -/
theorem C18_nonstring_false (A : List Char) :
    isvalidaa A .none = .ok false ∧ isvalidaa A .nan = .ok false ∧
    (∀ n, isvalidaa A (.int n) = .ok false) ∧ isvalidaa A .float = .ok false ∧
    isvalidcdr3 A .none = .ok false ∧ isvalidcdr3 A .nan = .ok false ∧
    (∀ n, isvalidcdr3 A (.int n) = .ok false) ∧ isvalidcdr3 A .float = .ok false :=
  ⟨rfl, rfl, fun _ => rfl, rfl, rfl, rfl, fun _ => rfl, rfl⟩

/-- WHY the exception list matters: catching only TypeError (the code before the repair) lets
IndexError / KeyError escape on empty containers -/
theorem C18_typeerror_only_not_total (A : List Char) :
    isvalidcdr3With [.typeError] A (.str []) = .error .indexError ∧
    isvalidcdr3With [.typeError] A (.list []) = .error .indexError ∧
    isvalidcdr3With [.typeError] A (.tuple []) = .error .indexError ∧
    isvalidcdr3With [.typeError] A (.dict []) = .error .keyError :=
  ⟨rfl, rfl, rfl, rfl⟩

/-- iterating non-empty bytes yields ints, which are never amino-acid letters -/
theorem C18_bytes_false (A : List Char) (b : List Nat) (hb : b ≠ []) :
    isvalidaa A (.bytes b) = .ok false := by
  cases b with
  | nil => exact absurd rfl hb
  | cons n b => rfl

/-- the alphabet constant: the 20 standard amino-acid letters, each once -/
theorem C18_aminoacids : Generated.aminoacids.length = 20 ∧ Generated.aminoacids.Nodup ∧
    Generated.aminoacids = "ACDEFGHIKLMNPQRSTVWY".toList :=
  Generated.aminoacids_ok

/-- standardize_dataframe is cell-local: every cell of a standard column is the standardiser of THAT
cell (missing stays missing: `Option.bind`), every other cell is unchanged; position (i, j) preserved -/
theorem C18_cell_local (mapper : List (String × String)) (standardize : Bool)
    (f : String → List Char → TCell) (t : Table) (i j : Nat) (row : List TCell) (cell : TCell)
    (col : String) (hrow : t.rows[i]? = some row) (hcell : row[j]? = some cell)
    (hcol : (renameColumns mapper t.columns)[j]? = some col) :
    ((standardizeTable mapper standardize f t).rows[i]?.bind (·[j]?)) =
      some (if standardize && standardColumns.contains col then cell.bind (f col) else cell) :=
  standardizeTable_entry mapper standardize f t i j row cell col hrow hcell hcol

/-- rows, their order, the index and the (renamed) columns are preserved -/
theorem C18_shape (mapper : List (String × String)) (standardize : Bool)
    (f : String → List Char → TCell) (t : Table) :
    (standardizeTable mapper standardize f t).rows.length = t.rows.length ∧
    (standardizeTable mapper standardize f t).index = t.index ∧
    (standardizeTable mapper standardize f t).columns = renameColumns mapper t.columns :=
  ⟨by simp [standardizeTable], rfl, rfl⟩

/-- a missing cell stays missing whatever the column and the standardiser -/
theorem C18_missing_stays_missing (mapper : List (String × String)) (standardize : Bool)
    (f : String → List Char → TCell) (t : Table) (i j : Nat) (row : List TCell) (col : String)
    (hrow : t.rows[i]? = some row) (hcell : row[j]? = some none)
    (hcol : (renameColumns mapper t.columns)[j]? = some col) :
    ((standardizeTable mapper standardize f t).rows[i]?.bind (·[j]?)) = some none := by
  rw [C18_cell_local mapper standardize f t i j row none col hrow hcell hcol]
  simp

/-- standardize=False returns the renamed input: all cells unchanged (rows as wide as the header) -/
theorem C18_no_standardize (mapper : List (String × String)) (f : String → List Char → TCell)
    (t : Table) (hw : ∀ r ∈ t.rows, r.length = t.columns.length) :
    (standardizeTable mapper false f t).rows = t.rows := by
  simp only [standardizeTable, Bool.false_and, Bool.false_eq_true, if_false]
  conv => rhs; rw [← List.map_id t.rows]
  apply List.map_congr_left
  intro r hr
  exact zip_map_fst r _ (by rw [renameColumns_length, hw r hr]; exact Nat.le_refl _)

/-- renaming: same number of columns, position-wise; a name without mapper entry is unchanged, a name
with an entry becomes the target of its FIRST entry -/
theorem C18_rename (mapper : List (String × String)) (cols : List String) :
    (renameColumns mapper cols).length = cols.length ∧
    (∀ (k : Nat) (c : String), cols[k]? = some c → (∀ p ∈ mapper, p.1 ≠ c) →
      (renameColumns mapper cols)[k]? = some c) ∧
    (∀ (k : Nat) (c : String) (p : String × String), cols[k]? = some c → mapper.find? (fun q => q.1 == c) = some p →
      (renameColumns mapper cols)[k]? = some p.2) := by
  refine ⟨renameColumns_length mapper cols, ?_, ?_⟩
  · intro k c hk hno
    have : mapper.find? (fun q => q.1 == c) = none := by
      rw [List.find?_eq_none]
      intro p hp
      simpa using hno p hp
    simp [renameColumns, List.getElem?_map, hk, this]
  · intro k c p hk hp
    simp [renameColumns, List.getElem?_map, hk, hp]

/-- extra (non-standard) columns are never touched, even with standardize=True -/
theorem C18_extra_columns_untouched (mapper : List (String × String)) (standardize : Bool)
    (f : String → List Char → TCell) (t : Table) (i j : Nat) (row : List TCell) (cell : TCell)
    (col : String) (hrow : t.rows[i]? = some row) (hcell : row[j]? = some cell)
    (hcol : (renameColumns mapper t.columns)[j]? = some col)
    (hns : standardColumns.contains col = false) :
    ((standardizeTable mapper standardize f t).rows[i]?.bind (·[j]?)) = some cell := by
  rw [C18_cell_local mapper standardize f t i j row cell col hrow hcell hcol, hns]
  simp

/-! non-vacuity -/
/-! ### multimerge -/
section merge
variable {K V : Type} [DecidableEq K]

/-- default (`how="outer"`): the result has one row for every key that occurs in any table … -/
theorem C18_multimerge_outer_keys (sfx : Option (List (List Char))) (ts : List (KTable K V))
    (h : ∀ ss, sfx = some ss → ss ≠ [] → ts.length ≤ ss.length) (k : K) :
    k ∈ (multimerge true sfx ts).keys ↔ ∃ t ∈ ts, k ∈ t.keys := by
  unfold multimerge
  rw [mergeTables_keys, joinKeys_congr true _ ts (suffixed_rows sfx ts h), mem_joinKeys_outer]

/-- … `how="inner"`: for every key that occurs in all tables -/
theorem C18_multimerge_inner_keys (sfx : Option (List (List Char))) (ts : List (KTable K V))
    (h : ∀ ss, sfx = some ss → ss ≠ [] → ts.length ≤ ss.length) (k : K) :
    k ∈ (multimerge false sfx ts).keys ↔ ts ≠ [] ∧ ∀ t ∈ ts, k ∈ t.keys := by
  unfold multimerge
  rw [mergeTables_keys, joinKeys_congr false _ ts (suffixed_rows sfx ts h), mem_joinKeys_inner]

/-- each join key has exactly one row, and every row is as wide as the header -/
theorem C18_multimerge_wf (outer : Bool) (sfx : Option (List (List Char))) (ts : List (KTable K V))
    (h : ∀ t ∈ suffixed sfx ts, ∀ r ∈ t.rows, r.2.length = t.cols.length) :
    (multimerge outer sfx ts).WF := mergeTables_wf outer _ h

/-- the header: the tables' columns side by side; with suffixes, table i's columns carry "_" + suffix i -/
theorem C18_multimerge_columns (outer : Bool) (ts : List (KTable K V)) :
    (multimerge outer none ts).cols = ts.flatMap (·.cols) ∧
    ∀ (s : List Char) (ss : List (List Char)),
      (multimerge outer (some (s :: ss)) ts).cols
        = (ts.zip (s :: ss)).flatMap fun p => p.1.cols.map fun c => c ++ '_' :: p.2 := by
  refine ⟨rfl, fun s ss => ?_⟩
  simp [multimerge, mergeTables, suffixed_some, List.flatMap_map]

/-- the cells: in the row of join key k, the block of table t (the columns after those of the tables
before it) holds t's own cells for k, or missing values when t has no row for k -/
theorem C18_multimerge_cells (outer : Bool) (sfx : Option (List (List Char))) (ts : List (KTable K V))
    (pre post : List (KTable K V)) (t : KTable K V) (hsplit : suffixed sfx ts = pre ++ t :: post)
    (hwf : ∀ u ∈ suffixed sfx ts, ∀ r ∈ u.rows, r.2.length = u.cols.length)
    (k : K) (hk : k ∈ (multimerge outer sfx ts).keys) (j : Nat) (hj : j < t.cols.length) :
    (multimerge outer sfx ts).cell? k ((pre.flatMap (·.cols)).length + j)
      = some ((t.cell? k j).getD none) := by
  unfold multimerge at hk ⊢
  rw [mergeTables_keys] at hk
  rw [hsplit] at hk hwf ⊢
  exact mergeTables_cell outer pre post t k j hwf hk hj

/-! the code computes the join as a left fold of pairwise `pd.merge` calls (`multimergeFold`): for `outer` and `inner` that fold IS the
direct description above (the pairwise joins are associative on uniquely keyed tables), so any regrouping of the fold is harmless
there — and only there: -/

/-- `reduce(merge(how="outer"))` = the outer join of all tables -/
theorem C18_multimerge_fold_outer (ts : List (KTable K V)) (hne : ts ≠ []) (hwf : ∀ t ∈ ts, t.WF) :
    multimergeFold .outer ts = some (mergeTables true ts) := mergeFold_outer ts hne hwf

/-- `reduce(merge(how="inner"))` = the inner join of all tables -/
theorem C18_multimerge_fold_inner (ts : List (KTable K V)) (hne : ts ≠ []) (hwf : ∀ t ∈ ts, t.WF) :
    multimergeFold .inner ts = some (mergeTables false ts) := mergeFold_inner ts hne hwf

/-- `how="left"`: the keys of the FIRST table, each with every table's cells for that key (missing where a table lacks it) -/
theorem C18_multimerge_fold_left (t : KTable K V) (ts : List (KTable K V)) (hwf : ∀ u ∈ t :: ts, u.WF) :
    multimergeFold .left (t :: ts) =
      some { cols := (t :: ts).flatMap (·.cols), rows := t.keys.map fun k => (k, (t :: ts).flatMap fun u => cellsFor u k) } :=
  mergeFold_left t ts hwf

/-- `how="right"`: the keys of the LAST table; every intermediate result is well formed -/
theorem C18_multimerge_fold_right_keys (t : KTable K V) (ts : List (KTable K V)) (hwf : ∀ u ∈ t :: ts, u.WF) :
    ((multimergeFold .right (t :: ts)).map KTable.keys) = some ((t :: ts).getLast (List.cons_ne_nil _ _)).keys ∧
    ∀ (how : JoinHow) (a b : KTable K V), a.WF → b.WF → (mergeTwo how a b).WF :=
  ⟨mergeFold_right_keys t ts hwf, fun how a b ha hb => mergeTwo_wf how a b ha hb⟩

end merge

/-! ### the source of the two predicates: `Generated/Cdr3Rule.lean` is rewritten from `isvalidaa` / `isvalidcdr3` of pyrepseq/io.py on
every run (which exceptions each turns into False, which positions `isvalidcdr3` looks at, which letters it accepts there) -/

/-- the exceptions the source of `isvalidcdr3` catches are the ones the model catches (in any order), for every object … -/
theorem C18_source_cdr3_caught (A : List Char) (o : PyObj) :
    isvalidcdr3With (Generated.cdr3Caught.map pyErrOfName) A o = isvalidcdr3 A o := by
  unfold isvalidcdr3
  apply isvalidcdr3With_congr
  intro e
  cases e <;> decide

/-- … hence the predicate built from the source's own `except` clause is total … -/
theorem C18_source_cdr3_total (A : List Char) (o : PyObj) :
    ∃ b, isvalidcdr3With (Generated.cdr3Caught.map pyErrOfName) A o = .ok b := by
  rw [C18_source_cdr3_caught]; exact C18_isvalidcdr3_total A o

/-- … the source tests position 0 for 'C' and position −1 for one of 'F', 'W', 'C' (in any order), as `isvalidcdr3Body` does,
and `isvalidaa` turns exactly TypeError into False -/
theorem C18_source_cdr3_letters :
    Generated.cdr3First = (0, 'C') ∧ Generated.cdr3Last.1 = -1 ∧
    (∀ c, c ∈ Generated.cdr3Last.2 ↔ (c = 'F' ∨ c = 'W' ∨ c = 'C')) ∧
    (∀ e, e ∈ Generated.aaCaught.map pyErrOfName ↔ e = PyErr.typeError) := by
  refine ⟨by decide, by decide, fun c => ?_, fun e => ?_⟩
  · simp only [Generated.cdr3Last, List.mem_cons, List.not_mem_nil, or_false]
    all_goals (constructor <;> (rintro (h | h | h) <;> simp [h]))
  · cases e <;> decide

example : isvalidcdr3 Generated.aminoacids (.str "CASSLGQAYEQYF".toList) = .ok true := by
  rw [C18_isvalidcdr3_str]; exact congrArg Except.ok (by decide)
example : isvalidcdr3 Generated.aminoacids (.str "CASSLGQAYEQYX".toList) = .ok false ∧
    isvalidcdr3 Generated.aminoacids (.str "ASSF".toList) = .ok false ∧
    isvalidaa Generated.aminoacids (.list [.char 'A', .unhashable]) = .ok false ∧
    isvalidcdr3 Generated.aminoacids (.dict []) = .ok false := by
  refine ⟨by rw [C18_isvalidcdr3_str]; exact congrArg Except.ok (by decide), by rw [C18_isvalidcdr3_str]; exact congrArg Except.ok (by decide), rfl, rfl⟩
/-- a 2×3 table: the CDR3B column is standardised cell by cell, the missing cell and the extra column
`note` are untouched, the old header `cdr3` is renamed -/
example :
    (standardizeTable [("cdr3", "CDR3B")] true (fun _ v => some (v.map Char.toUpper))
      { columns := ["cdr3", "note"], index := ["a", "b"],
        rows := [[some "casf".toList, some "x".toList], [none, some "y".toList]] }).rows =
      [[some "CASF".toList, some "x".toList], [none, some "y".toList]] := by decide

/-- two tables sharing key 2: the outer join has keys 1, 2, 3; key 3 is missing in the first table -/
example : (multimerge true (some ["a".toList, "b".toList])
      [({ cols := ["v".toList], rows := [(1, [some 10]), (2, [some 20])] } : KTable Nat Nat),
       { cols := ["v".toList], rows := [(2, [some 7]), (3, [some 8])] }]).rows =
    [(1, [some 10, none]), (2, [some 20, some 7]), (3, [none, some 8])] := by decide
example : (multimerge true (some ["a".toList, "b".toList])
      [({ cols := ["v".toList], rows := [] } : KTable Nat Nat), { cols := ["v".toList, "w".toList], rows := [] }]).cols =
    ["v_a".toList, "v_b".toList, "w_b".toList] := by decide
example : (multimerge false none
      [({ cols := ["v".toList], rows := [(1, [some 10]), (2, [some 20])] } : KTable Nat Nat),
       { cols := ["w".toList], rows := [(2, [some 7]), (3, [some 8])] }]).rows = [(2, [some 20, some 7])] := by decide

/-- left join of three tables: key 3 (only in the later tables) is absent, key 1 keeps the third table's cell although the second
table lacks it — a balanced regrouping ((a, b), (c, d)) of four tables would lose such cells -/
example : (multimergeFold .left
      [({ cols := ["a".toList], rows := [(1, [some 10]), (2, [some 20])] } : KTable Nat Nat),
       { cols := ["b".toList], rows := [(2, [some 7]), (3, [some 8])] },
       { cols := ["c".toList], rows := [(1, [some 5]), (3, [some 6])] }]).map KTable.rows =
    some [(1, [some 10, none, some 5]), (2, [some 20, some 7, none])] := by decide

end Prs
