/-
Properties/C15.lean — clusters are connected components of the neighbour graph.
`components` / `graphClusteringCC` model igraph's `connected_components(mode='weak')` and
`graph_clustering(..., 'cc')`; `Connected` is the reflexive transitive closure of the undirected
adjacency `Adj`.  The neighbour graph is the edge list of the triplets returned by the default
search (`symdelDefault`, exact by property C01).
SciPy's `linkage(method='single')` + `fcluster(criterion='distance')` is external; it is MODELLED by
the textbook agglomeration `linkRun` / `flatSingle` / `singleHeights` (Model/Linkage.lean, tied to
SciPy by the correspondence check: merge heights and flat partitions).  For that model the identity
"single linkage at t = components of the max_edits = t neighbour graph" is a theorem
(`C15_single_linkage`); `C15_single_linkage_partial` is the older form that takes the characterisation
of the flat clusters as a hypothesis (kept: it applies to ANY clustering routine satisfying it).
The average / complete linkage methods are not modelled.  The community methods
(leiden, louvain, …) are external too; `RefinesComponents` is the predicate checked on their output.
Only property theorems and non-vacuity examples live here; helper lemmas are in Proofs/.
-/
import Prs.Proofs.Cluster
import Prs.Proofs.Linkage
namespace Prs
variable {α : Type} [DecidableEq α]

/-- two vertices get the same label iff they are connected -/
theorem C15_cc_same_cluster (n : Nat) (edges : List (Nat × Nat)) (hE : EdgesIn n edges)
    (u v : Nat) (hu : u < n) (hv : v < n) :
    (components n edges)[u]? = (components n edges)[v]? ↔ Connected edges u v :=
  components_same_iff n edges hE u v hu hv

/-- `graph_clustering('cc')` reports exactly the nodes whose cluster has another member, each with
its component's label (singletons are dropped) -/
theorem C15_cc_output (n : Nat) (edges : List (Nat × Nat)) (hE : EdgesIn n edges) (v l : Nat) :
    (v, l) ∈ graphClusteringCC n edges ↔
      v < n ∧ l = compLabel n edges v ∧ ∃ w, w < n ∧ w ≠ v ∧ Connected edges v w :=
  mem_graphClusteringCC n edges hE v l

/-- every node is reported at most once -/
theorem C15_cc_output_once (n : Nat) (edges : List (Nat × Nat)) :
    ((graphClusteringCC n edges).map (·.1)).Nodup :=
  graphClusteringCC_nodup n edges

/-- reported labels agree iff the nodes are connected -/
theorem C15_cc_labels (n : Nat) (edges : List (Nat × Nat)) (hE : EdgesIn n edges)
    (u v lu lv : Nat) (hu : (u, lu) ∈ graphClusteringCC n edges)
    (hv : (v, lv) ∈ graphClusteringCC n edges) : lu = lv ↔ Connected edges u v :=
  graphClusteringCC_labels n edges hE u v lu lv hu hv

/-- a clustering that never leaves a component (the predicate checked for the community methods):
nodes of different components are never in one cluster -/
theorem C15_refines (edges : List (Nat × Nat)) (memb : List Nat)
    (h : RefinesComponents edges memb) (u v lu lv : Nat) (hu : memb[u]? = some lu)
    (hv : memb[v]? = some lv) (hne : ¬ Connected edges u v) : lu ≠ lv :=
  fun e => hne (h u v lu lv hu hv e)

/-- the connected-components clustering itself satisfies the checked predicate -/
theorem C15_cc_refines (n : Nat) (edges : List (Nat × Nat)) (hE : EdgesIn n edges) :
    RefinesComponents edges (components n edges) := by
  intro u v lu lv hu hv e
  obtain ⟨hun, rfl⟩ := (components_getElem?_eq_some n edges u lu).1 hu
  obtain ⟨hvn, rfl⟩ := (components_getElem?_eq_some n edges v lv).1 hv
  exact (compLabel_eq_iff n edges hE u v hun hvn).1 e

/-- the neighbour graph produced by the search is the t-threshold graph of the Levenshtein matrix -/
theorem C15_neighbour_graph_is_threshold_graph (xs : List (List α)) (t u v : Nat) :
    Adj (neighbourEdges (symdelDefault t xs)) u v ↔ thresholdAdj xs t u v :=
  adj_neighbourEdges_symdelDefault xs t u v

/-- its endpoints are positions of the input -/
theorem C15_neighbour_edges_in (xs : List (List α)) (t : Nat) :
    EdgesIn xs.length (neighbourEdges (symdelDefault t xs)) :=
  neighbourEdges_edgesIn xs t

/-- single linkage at threshold t, ASSUMING the standard characterisation of SciPy's flat
single-linkage clusters (same flat cluster ⇔ connected in the t-threshold graph), equals the
components of the max_edits = t neighbour graph -/
theorem C15_single_linkage_partial (xs : List (List α)) (t : Nat) (sameFlat : Nat → Nat → Prop)
    (hSciPy : ∀ u v, u < xs.length → v < xs.length →
      (sameFlat u v ↔ Relation.ReflTransGen (thresholdAdj xs t) u v))
    (u v : Nat) (hu : u < xs.length) (hv : v < xs.length) :
    sameFlat u v ↔
      (components xs.length (neighbourEdges (symdelDefault t xs)))[u]? =
        (components xs.length (neighbourEdges (symdelDefault t xs)))[v]? := by
  rw [hSciPy u v hu hv, C15_cc_same_cluster _ _ (C15_neighbour_edges_in xs t) u v hu hv,
    connected_neighbourEdges_iff]

/-- the flat single-linkage clusters at height t partition the observations -/
theorem C15_single_linkage_partition (d : Nat → Nat → Rat) (n : Nat) (t : Rat) :
    (flatSingle d n t).flatten.Perm (List.range n) ∧ ∀ c ∈ flatSingle d n t, c ≠ [] :=
  ⟨flatSingle_partition d n t, flatSingle_nonempty d n t⟩

/-- two observations share a flat single-linkage cluster at height t exactly when a chain of
observations with consecutive distances ≤ t joins them — for ANY symmetric distance (string metrics,
TCR metrics, summed chains) -/
theorem C15_single_linkage_chain (d : Nat → Nat → Rat) (hsymm : ∀ i j, d i j = d j i) (n : Nat) (t : Rat)
    (u v : Nat) (hu : u < n) (hv : v < n) :
    (flatLabel (flatSingle d n t) u = flatLabel (flatSingle d n t) v ↔
      Relation.ReflTransGen (dAdj d n t) u v) ∧ (flatLabel (flatSingle d n t) u).isSome :=
  ⟨flatLabel_same_iff d hsymm n t u v hu hv, flatLabel_isSome d n t u hu⟩

/-- with the Levenshtein distances of the sequences and threshold t, the single-linkage partition equals
the connected components of the max_edits = t neighbour graph (no hypothesis about SciPy: the
agglomeration is the model) -/
theorem C15_single_linkage (xs : List (List α)) (t : Nat) (u v : Nat) (hu : u < xs.length)
    (hv : v < xs.length) :
    flatLabel (flatSingle (levDist xs) xs.length (t : Rat)) u
        = flatLabel (flatSingle (levDist xs) xs.length t) v ↔
      (components xs.length (neighbourEdges (symdelDefault t xs)))[u]? =
        (components xs.length (neighbourEdges (symdelDefault t xs)))[v]? :=
  flatSingle_lev_components xs t u v hu hv

/-- the dendrogram: n - 1 merges, at heights that never decrease; cutting at t performs exactly the
merges whose height is ≤ t (so `fcluster(criterion='distance')` on the linkage matrix and stopping
the agglomeration at t agree) -/
theorem C15_single_linkage_heights (d : Nat → Nat → Rat) (hsymm : ∀ i j, d i j = d j i) (n : Nat) :
    (singleHeights d n).length = n - 1 ∧ (singleHeights d n).Pairwise (· ≤ ·) ∧
    ∀ t : Rat, flatSingle d n t
      = (linkRun d none ((singleHeights d n).filter (· ≤ t)).length (singletons n)).1 :=
  ⟨singleHeights_length d n, singleHeights_sorted d hsymm n, fun t => flatSingle_eq_prefix d hsymm n t⟩

/-! non-vacuity: a path 0 — 1 — 2 plus the isolated vertex 3: one cluster {0,1,2} labelled 0, the
singleton 3 is not reported; "AB" – "B" – "" chain at threshold 1 joins positions 0 and 2 although
lev "AB" "" = 2 -/
example : graphClusteringCC 4 [(0, 1), (2, 1)] = [(0, 0), (1, 0), (2, 0)] := by decide
example : EdgesIn 4 [(0, 1), (2, 1)] := by simp [EdgesIn]
example : Connected [(0, 1), (2, 1)] 0 2 :=
  (C15_cc_same_cluster 4 _ (by simp [EdgesIn]) 0 2 (by decide) (by decide)).1 (by decide)
example : ¬ Connected [(0, 1), (2, 1)] 0 3 := fun h =>
  absurd ((C15_cc_same_cluster 4 _ (by simp [EdgesIn]) 0 3 (by decide) (by decide)).2 h) (by decide)
example : Adj (neighbourEdges (symdelDefault 1 [['A', 'B'], ['B'], []])) 0 1 :=
  (C15_neighbour_graph_is_threshold_graph _ 1 0 1).2
    ⟨by decide, ['A', 'B'], ['B'], rfl, rfl, by simp [lev]⟩
example : ¬ Adj (neighbourEdges (symdelDefault 1 [['A', 'B'], ['B'], []])) 0 2 := fun h => by
  obtain ⟨_, a, b, ha, hb, hl⟩ := (C15_neighbour_graph_is_threshold_graph _ 1 0 2).1 h
  simp only [List.getElem?_cons_zero, List.getElem?_cons_succ, Option.some.injEq] at ha hb
  subst ha hb
  simp [lev] at hl

/-- three observations at positions 0, 1, 5 on a line: cut at 1 joins {0, 1} and leaves 2 alone; the
dendrogram merges at heights 1 and 4; observation 0 and 1 are chained, 0 and 2 are not -/
def dLine : Nat → Nat → Rat := fun i j =>
  (([[0, 1, 5], [1, 0, 4], [5, 4, 0]] : List (List Rat)).getD i []).getD j 0
example : flatSingle dLine 3 1 = [[2], [0, 1]] := by decide +kernel
example : singleHeights dLine 3 = [1, 4] := by decide +kernel
example : flatLabel (flatSingle dLine 3 1) 0 = flatLabel (flatSingle dLine 3 1) 1 ∧
    flatLabel (flatSingle dLine 3 1) 0 ≠ flatLabel (flatSingle dLine 3 1) 2 := by decide +kernel

end Prs
