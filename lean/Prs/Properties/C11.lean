/-
Properties/C11.lean — the kdtree result does not depend on the worker count (`n_cpu`), on how the
queries are chunked for the process pool, or on the `compression` of the histogram encoding.
Only property theorems and non-vacuity examples live here; helper lemmas are in Proofs/Pool.lean and
Proofs/KdTree.lean.
-/
import Prs.Proofs.Limit
import Prs.Proofs.Pool
import Prs.Proofs.Engines
namespace Prs
variable {α : Type} [DecidableEq α]

/-- any completion order of the pool's tasks gives the serial result (for every chunk size ≥ 1) -/
theorem C11_any_schedule {β γ : Type} (f : β → γ) (xs : List β) (c : Nat) (hc : 0 < c)
    (sched : List Nat) (hs : ∀ t, t < (chunks c xs).length → t ∈ sched) :
    poolMap f xs c sched = xs.map f :=
  poolMap_any_schedule f xs c hc sched hs

/-- two chunk sizes (two worker counts) give the same result -/
theorem C11_chunking_irrelevant {β γ : Type} (f : β → γ) (xs : List β) (c c' : Nat) (hc : 0 < c)
    (hc' : 0 < c') (s s' : List Nat) (hs : ∀ t, t < (chunks c xs).length → t ∈ s)
    (hs' : ∀ t, t < (chunks c' xs).length → t ∈ s') : poolMap f xs c s = poolMap f xs c' s' := by
  rw [poolMap_any_schedule f xs c hc s hs, poolMap_any_schedule f xs c' hc' s' hs']

/-- a chunk size of 0 (n_cpu > len(seqs) before the repair) is NOT harmless: the model loses
everything (CPython raises) — the code must clamp it to ≥ 1 -/
theorem C11_chunk_zero {β γ : Type} (f : β → γ) (xs : List β) (sched : List Nat) :
    poolMap f xs 0 sched = [] :=
  poolMap_chunk_zero f xs sched

/-- chunking only cuts the query list: the chunks concatenate back to it -/
theorem C11_chunks_flatten {β : Type} (c : Nat) (xs : List β) (hc : 0 < c) :
    (chunks c xs).flatten = xs :=
  chunks_flatten c xs hc

/-- compression never changes the answer: for all c, c' ≥ 1 the triplet sets agree (default mode) -/
theorem C11_compression (A : List α) (c c' k : Nat) (hc : 1 ≤ c) (hc' : 1 ≤ c')
    (xs : List (List α)) (hA : ∀ s ∈ xs, ∀ ch ∈ s, ch ∈ A) :
    ∃ ts ts', kdDefault A c k xs = some ts ∧ kdDefault A c' k xs = some ts' ∧
      ts.Nodup ∧ ts'.Nodup ∧ ∀ t, t ∈ ts ↔ t ∈ ts' := by
  obtain ⟨ts, h1, h2, h3⟩ := kdtreeSelf_levScore_exact A c k hc xs hA
  obtain ⟨ts', h1', h2', h3'⟩ := kdtreeSelf_levScore_exact A c' k hc' xs hA
  exact ⟨ts, ts', h1, h1', h2, h2', fun t => by rw [h3, h3']⟩

/-- … Hamming mode -/
theorem C11_compression_hamming (A : List α) (c c' k : Nat) (hc : 1 ≤ c) (hc' : 1 ≤ c')
    (xs : List (List α)) (hA : ∀ s ∈ xs, ∀ ch ∈ s, ch ∈ A) :
    ∃ ts ts', kdHamming A c k xs = some ts ∧ kdHamming A c' k xs = some ts' ∧
      ts.Nodup ∧ ts'.Nodup ∧ ∀ t, t ∈ ts ↔ t ∈ ts' := by
  obtain ⟨ts, h1, h2, h3⟩ := kdtreeHamming_hamScore_exact A c k hc xs hA
  obtain ⟨ts', h1', h2', h3'⟩ := kdtreeHamming_hamScore_exact A c' k hc' xs hA
  exact ⟨ts, ts', h1, h1', h2, h2', fun t => by rw [h3, h3']⟩

/-- … custom-distance mode -/
theorem C11_compression_custom {D : Type} (A : List α) (c c' k : Nat) (hc : 1 ≤ c)
    (hc' : 1 ≤ c') (cd : List α → List α → D) (inR : D → Bool)
    (xs : List (List α)) (hA : ∀ s ∈ xs, ∀ ch ∈ s, ch ∈ A) :
    ∃ ts ts', kdCustom A c k cd inR xs = some ts ∧ kdCustom A c' k cd inR xs = some ts' ∧
      ts.Nodup ∧ ts'.Nodup ∧ ∀ t, t ∈ ts ↔ t ∈ ts' := by
  obtain ⟨ts, h1, h2, h3⟩ := kdtreeSelf_customScore_exact A c k hc cd inR xs hA
  obtain ⟨ts', h1', h2', h3'⟩ := kdtreeSelf_customScore_exact A c' k hc' cd inR xs hA
  exact ⟨ts, ts', h1, h1', h2, h2', fun t => by rw [h3, h3']⟩

/-- and agrees with the default search for every compression -/
theorem C11_kdtree_eq_symdel (A : List α) (c k : Nat) (hc : 1 ≤ c) (xs : List (List α))
    (hA : ∀ s ∈ xs, ∀ ch ∈ s, ch ∈ A) :
    ∃ ts, kdDefault A c k xs = some ts ∧ ∀ t, t ∈ ts ↔ t ∈ symdelDefault k xs := by
  obtain ⟨ts, h1, _, h3⟩ := kdtreeSelf_levScore_exact A c k hc xs hA
  exact ⟨ts, h1, fun t => by rw [h3, symdelDefault_iff]⟩

/-- whether the search fails (KeyError on a foreign letter) does not depend on compression either -/
theorem C11_failure_independent (A : List α) (c c' k : Nat) (xs : List (List α)) :
    kdDefault A c k xs = none ↔ kdDefault A c' k xs = none := by
  unfold kdDefault
  rw [kdtreeSelf_none_iff, kdtreeSelf_none_iff]

/-! non-vacuity: 5 queries, chunk sizes 2 and 3, out-of-order and repeated completions; a 3-letter
alphabet compressed into 1, 2 and 3 bins ('A' and 'C' share a bin for c = 2) -/
example : poolMap (· + 1) [1, 2, 3, 4, 5] 2 [2, 0, 1, 0] = [2, 3, 4, 5, 6] :=
  C11_any_schedule _ _ 2 (by decide) _ (by
    have : chunks 2 [1, 2, 3, 4, 5] = [[1, 2], [3, 4], [5]] := by simp [chunks_cons_eq, chunks_nil]
    rw [this]; decide)
example : poolMap (· + 1) [1, 2, 3, 4, 5] 2 [2, 0, 1] = poolMap (· + 1) [1, 2, 3, 4, 5] 3 [1, 0] :=
  C11_chunking_irrelevant _ _ 2 3 (by decide) (by decide) _ _
    (by
      have : chunks 2 [1, 2, 3, 4, 5] = [[1, 2], [3, 4], [5]] := by simp [chunks_cons_eq, chunks_nil]
      rw [this]; decide)
    (by
      have : chunks 3 [1, 2, 3, 4, 5] = [[1, 2, 3], [4, 5]] := by simp [chunks_cons_eq, chunks_nil]
      rw [this]; decide)
example : ∃ ts ts', kdDefault ['A', 'C', 'D'] 1 1 [['A', 'D'], ['D'], ['C']] = some ts ∧
    kdDefault ['A', 'C', 'D'] 3 1 [['A', 'D'], ['D'], ['C']] = some ts' ∧ ts.Nodup ∧ ts'.Nodup ∧
    ∀ t, t ∈ ts ↔ t ∈ ts' :=
  C11_compression _ 1 3 1 (by decide) (by decide) _ (by decide)
example : ∃ ts, kdDefault ['A', 'C', 'D'] 2 1 [['A', 'D'], ['D'], ['C']] = some ts ∧
    (0, 1, 1) ∈ ts ∧ (1, 2, 1) ∈ ts := by
  obtain ⟨ts, h, h2⟩ := C11_kdtree_eq_symdel ['A', 'C', 'D'] 2 1 (by decide)
    [['A', 'D'], ['D'], ['C']] (by decide)
  refine ⟨ts, h, (h2 _).2 ?_, (h2 _).2 ?_⟩
  · exact (symdelDefault_iff 1 _ _).2 ((selfPairs_lev 1 _ 0 1 1).2
      ⟨['A', 'D'], ['D'], by decide, rfl, rfl, by simp [lev], by simp [lev]⟩)
  · exact (symdelDefault_iff 1 _ _).2 ((selfPairs_lev 1 _ 1 2 1).2
      ⟨['D'], ['C'], by decide, rfl, rfl, by simp [lev], by simp [lev]⟩)

end Prs


namespace Prs
/-- max_returns: keeping the m best-scoring candidates (stable sort + slice, as in the custom-distance
path) satisfies the contract — min(m, #candidates) reported, all of them candidates, and no omitted
candidate strictly closer than a reported one -/
theorem C11_max_returns (m : Nat) (all : List (Trip Rat)) :
    IsLimit (· < ·) m all (takeBest (fun a b => decide (a ≤ b)) (some m) all) :=
  takeBest_isLimit m all

/-- when m is at least the number of candidates nothing is lost -/
theorem C11_max_returns_all (m : Nat) (all r : List (Trip Rat)) (h : IsLimit (· < ·) m all r)
    (hm : all.length ≤ m) : r.Perm all := isLimit_all m all r h hm
end Prs
