/-
Properties/C05.lean — `pcDelta` is the exact histogram of all pairwise distances
(pyrepseq/stats.py `pcDelta`, `downsample`; numpy.histogram with explicit edges).

`pairsOf xs` lists every unordered pair of positions `i < j` exactly once as `(xs[i], xs[j])`
(`pdistVec_eq_pairs`, `pairsOf_length` in Proofs/Hist2.lean).  Only property theorems and
non-vacuity examples live here; helper lemmas are in Proofs/Hist2.lean.
-/
import Prs.Generated.PcDeltaBackground
import Prs.Generated.DefaultMetric
import Prs.Proofs.Hist2

namespace Prs
variable {S : Type}

/-- each bin counts the unordered pairs of distinct positions whose distance falls in it:
each pair once, no diagonal -/
theorem C05_counts_pairs (d : S → S → ℚ) (edges : List ℚ) (xs : List S) (b : ℕ)
    (hb : b + 1 < edges.length) :
    (pcDeltaCounts d edges xs)[b]?
      = some ((pairsOf xs).countP (fun p => inBin edges b (d p.1 p.2))) := by
  rw [pcDeltaCounts, histogram_getElem? _ _ _ hb, pdistVec_eq_pairs, List.countP_map]
  rfl

/-- two samples: each bin counts the cross pairs `(a, c)`, `a` from the first and `c` from the
second sample, whose distance falls in it -/
theorem C05_counts_cross (d : S → S → ℚ) (edges : List ℚ) (as bs : List S) (b : ℕ)
    (hb : b + 1 < edges.length) :
    (pcDeltaCrossCounts d edges as bs)[b]?
      = some ((as.flatMap fun a => bs.map fun c => (a, c)).countP
          (fun p => inBin edges b (d p.1 p.2))) := by
  rw [pcDeltaCrossCounts, histogram_getElem? _ _ _ hb, cdistMat_flatten_eq, List.countP_map]
  rfl

/-- the number of cross pairs is `|as| · |bs|` -/
theorem C05_cross_pairs_length (as bs : List S) :
    (as.flatMap fun a => bs.map fun c => (a, c)).length = as.length * bs.length := by
  induction as with
  | nil => simp
  | cons a as ih => simp only [List.flatMap_cons, List.length_append, List.length_map, ih,
      List.length_cons, Nat.succ_mul]; omega

/-- the number of unordered pairs is `m (m − 1) / 2` -/
theorem C05_pairs_length (xs : List S) : (pairsOf xs).length = xs.length * (xs.length - 1) / 2 :=
  pairsOf_length xs

/-- one count per bin -/
theorem C05_length (d : S → S → ℚ) (edges : List ℚ) (xs : List S) :
    (pcDeltaCounts d edges xs).length = edges.length - 1 := histogram_length _ _

theorem C05_length_cross (d : S → S → ℚ) (edges : List ℚ) (as bs : List S) :
    (pcDeltaCrossCounts d edges as bs).length = edges.length - 1 := histogram_length _ _

/-- bins are disjoint for strictly increasing edges: a value falls in at most one bin -/
theorem C05_bins_disjoint (edges : List ℚ) (hinc : edges.Pairwise (· < ·)) (v : ℚ) (b b' : ℕ)
    (h : inBin edges b v = true) (h' : inBin edges b' v = true) : b = b' :=
  inBin_disjoint edges hinc v b b' h h'

/-- a value inside [first edge, last edge] falls in a bin (last bin closed).
`hlen` is needed: a single edge defines no bin (see the example below). -/
theorem C05_bins_cover (edges : List ℚ) (hinc : edges.Pairwise (· < ·)) (hlen : 2 ≤ edges.length)
    (v lo hi : ℚ) (h0 : edges.head? = some lo) (h1 : edges.getLast? = some hi)
    (hlo : lo ≤ v) (hhi : v ≤ hi) : ∃ b, inBin edges b v = true :=
  inBin_cover edges hinc hlen v lo hi h0 h1 hlo hhi

/-- … in exactly one bin -/
theorem C05_bins_cover_unique (edges : List ℚ) (hinc : edges.Pairwise (· < ·))
    (hlen : 2 ≤ edges.length) (v lo hi : ℚ) (h0 : edges.head? = some lo)
    (h1 : edges.getLast? = some hi) (hlo : lo ≤ v) (hhi : v ≤ hi) :
    ∃! b, inBin edges b v = true := by
  obtain ⟨b, hb⟩ := inBin_cover edges hinc hlen v lo hi h0 h1 hlo hhi
  exact ⟨b, hb, fun b' hb' => inBin_disjoint edges hinc v b' b hb' hb⟩

/-- values outside [first edge, last edge] are dropped -/
theorem C05_bins_outside (edges : List ℚ) (hinc : edges.Pairwise (· < ·)) (v lo hi : ℚ)
    (h0 : edges.head? = some lo) (h1 : edges.getLast? = some hi) (hout : v < lo ∨ hi < v) (b : ℕ) :
    inBin edges b v = false := by
  cases hb : inBin edges b v with
  | false => rfl
  | true =>
    exfalso
    obtain ⟨l, h, hl, hh, hlv, hvh⟩ := (inBin_iff _ _ _).1 hb
    have h0' : edges[0]? = some lo := by rw [← List.head?_eq_getElem?]; exact h0
    have h1' : edges[edges.length - 1]? = some hi := by rw [← List.getLast?_eq_getElem?]; exact h1
    have hlen : b + 1 < edges.length := (List.getElem?_eq_some_iff.1 hh).1
    have e1 : lo ≤ l := pairwise_lt_getElem? hinc (Nat.zero_le _) h0' hl
    have e2 : h ≤ hi := pairwise_lt_getElem? hinc (by omega) hh h1'
    rcases hout with ho | ho
    · linarith
    · rcases hvh with hv | ⟨_, hv⟩ <;> linarith

/-- the histogram never counts more than the number of pairs (values outside the edges are dropped) -/
theorem C05_total_le (d : S → S → ℚ) (edges : List ℚ) (xs : List S)
    (hinc : edges.Pairwise (· < ·)) :
    (pcDeltaCounts d edges xs).sum ≤ xs.length * (xs.length - 1) / 2 := by
  rw [← pdistVec_length d xs]
  exact histogram_sum_le edges hinc _

theorem C05_total_le_cross (d : S → S → ℚ) (edges : List ℚ) (as bs : List S)
    (hinc : edges.Pairwise (· < ·)) :
    (pcDeltaCrossCounts d edges as bs).sum ≤ as.length * bs.length := by
  have h := histogram_sum_le edges hinc (cdistMat d as bs).flatten
  have hl : (cdistMat d as bs).flatten.length = as.length * bs.length := by
    rw [cdistMat_flatten_eq, List.length_map, C05_cross_pairs_length]
  rw [hl] at h
  exact h

/-- `normalize=True`, no pseudocount: the histogram sums to one (needs a non-empty histogram:
for an all-zero histogram NumPy returns nan, the model 0) -/
theorem C05_normalised (h : List ℕ) (hpos : 0 < h.sum) : (normalizeHist h 0).sum = 1 :=
  normalizeHist_zero_sum h hpos

theorem C05_normalised_entry (h : List ℕ) (b c : ℕ) (hb : h[b]? = some c) :
    (normalizeHist h 0)[b]? = some ((c : ℚ) / (h.sum : ℚ)) :=
  normalizeHist_zero_getElem? h b c hb

/-- pseudocount `c`: `(hist + c) / (sum(hist) + 2c)` as in the source (whatever the number of bins) -/
theorem C05_pseudocount (h : List ℕ) (c : ℚ) (hc : c ≠ 0) (b n : ℕ) (hb : h[b]? = some n) :
    (normalizeHist h c)[b]? = some (((n : ℚ) + c) / ((h.sum : ℚ) + 2 * c)) :=
  normalizeHist_pseudo_getElem? h c hc b n hb

/-- the number of pairs at distance 0 is Σ n_i (n_i − 1) / 2 when `d x y = 0 ↔ x = y` -/
theorem C05_zero_bin [DecidableEq S] (d : S → S → ℚ) (hd : ∀ x y, d x y = 0 ↔ x = y)
    (xs : List S) :
    2 * (pairsOf xs).countP (fun p => decide (d p.1 p.2 = 0)) = sumFall2 (counts xs) := by
  rw [← pairsOf_eq_count]
  congr 1
  apply List.countP_congr
  intro p _
  simp [hd]

/-- … and that is the count of the first bin when it is `[0, e1)` with `0 < e1 ≤` every positive
distance (at least two bins, so that the first bin is half-open) -/
theorem C05_zero_bin_count [DecidableEq S] (d : S → S → ℚ) (hd : ∀ x y, d x y = 0 ↔ x = y)
    (edges : List ℚ) (e1 : ℚ) (h0 : edges[0]? = some 0) (h1 : edges[1]? = some e1)
    (hlen : 2 < edges.length) (he : 0 < e1) (hgap : ∀ x y, d x y = 0 ∨ e1 ≤ d x y)
    (xs : List S) :
    ∃ c, (pcDeltaCounts d edges xs)[0]? = some c ∧ 2 * c = sumFall2 (counts xs) := by
  refine ⟨_, C05_counts_pairs d edges xs 0 (by omega), ?_⟩
  rw [← C05_zero_bin d hd xs]
  congr 1
  apply List.countP_congr
  intro p _
  rw [inBin_iff]
  simp only [decide_eq_true_eq]
  constructor
  · rintro ⟨lo, hi, hl, hh, hlo, hv⟩
    rw [h0] at hl; rw [h1] at hh; cases hl; cases hh
    rcases hgap p.1 p.2 with hz | hge
    · exact hz
    · rcases hv with hv | ⟨hv, _⟩
      · linarith
      · omega
  · intro hz
    exact ⟨0, e1, h0, h1, by rw [hz], Or.inl (by rw [hz]; exact he)⟩

/-! ### downsample -/

theorem C05_downsample_none {β : Type} [DecidableEq β] (xs ys : List β)
    (h : IsDownsample xs none ys) : ys = xs := h

theorem C05_downsample_identity {β : Type} [DecidableEq β] (xs ys : List β) (m : ℕ)
    (hm : xs.length ≤ m) (h : IsDownsample xs (some m) ys) : ys = xs := by
  simpa [IsDownsample, hm] using h

theorem C05_downsample_size {β : Type} [DecidableEq β] (xs ys : List β) (m : ℕ)
    (hm : m < xs.length) (h : IsDownsample xs (some m) ys) :
    ys.length = min xs.length m ∧ ∀ v, ys.count v ≤ xs.count v := by
  have hm' : ¬ xs.length ≤ m := by omega
  simp only [IsDownsample, hm', if_false] at h
  exact ⟨by rw [h.1]; omega, h.2⟩

/-! ### non-vacuity -/

/-- a single edge defines no bin: `C05_bins_cover` needs `2 ≤ edges.length` -/
example : ¬ ∃ b, inBin [0] b 0 = true := by
  rintro ⟨b, hb⟩
  obtain ⟨_, _, _, h, _⟩ := (inBin_iff _ _ _).1 hb
  simp at h

example : pcDeltaCounts (fun x y : ℤ => ((x - y).natAbs : ℚ)) [0, 1, 2, 3] [5, 5, 6, 8, 5] = [3, 3, 4] := by decide
example : pcDeltaCrossCounts (fun x y : ℤ => ((x - y).natAbs : ℚ)) [0, 1, 2] [5, 6] [5, 7, 6] = [2, 4] := by decide
example : normalizeHist [3, 3, 1] 0 = [3/7, 3/7, 1/7] := by norm_num [normalizeHist]
example : sumFall2 (counts ([5, 5, 6, 8, 5] : List ℤ)) = 6 := by decide
example : ([0, 1, 2, 3] : List ℚ).Pairwise (· < ·) := by decide
example : IsDownsample [1, 2, 2, 3] (some 2) [2, 3] := by
  refine ⟨rfl, fun v => ?_⟩
  simp only [List.count_cons, List.count_nil]
  split <;> split <;> split <;> omega
example : IsDownsample [1, 2] (some 2) [1, 2] := by simp [IsDownsample]

end Prs


namespace Prs
/-- `load_pcDelta_background`: the bundled table's index (regenerated from the CSV on every run) is
0..n−1, so the returned bin edges are the consecutive integers 0..n — one more than the table has
rows — and pcDelta output (one value per bin) aligns row by row with the table -/
theorem C05_background_bins :
    Generated.backgroundIndexAllNat = true ∧
    Generated.backgroundIndex = List.range Generated.backgroundIndex.length ∧
    backgroundBins Generated.backgroundIndex = List.range (Generated.backgroundIndex.length + 1) :=
  Generated.background_ok
end Prs

namespace Prs
/-- the default metric: Levenshtein on anything that is not a table (and on tables without CDR3
columns); on TCR tables the alpha, beta or summed CDR3 Levenshtein according to the columns present -/
theorem C05_default_metric (isTable a b : Bool) :
    defaultMetric isTable a b =
      (if isTable = false then MetricId.levenshtein
       else if a = true ∧ b = true then MetricId.cdr3
       else if a = true then MetricId.alphaCdr3
       else if b = true then MetricId.betaCdr3
       else MetricId.levenshtein) := by
  cases isTable <;> cases a <;> cases b <;> rfl

/-- `get_default_metric_for_input_data` as re-read from pyrepseq/distance.py on every run (Generated/DefaultMetric.lean: a decision
over "is a DataFrame" and the column names present) chooses the modelled default metric, whatever other columns the table has -/
theorem C05_source_default_metric (isTable a b : Bool) (has : String → Bool) (ha : has "CDR3A" = a) (hb : has "CDR3B" = b) :
    metricOfName (Generated.get_default_metric isTable has) = some (defaultMetric isTable a b) := by
  subst ha hb
  unfold Generated.get_default_metric defaultMetric
  cases isTable <;> cases has "CDR3A" <;> cases has "CDR3B" <;> simp [metricOfName]

end Prs
