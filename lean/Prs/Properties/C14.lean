/-
Properties/C14.lean — a distance-filtered search (custom_distance + max_custom_distance, and the
TCRdist search) keeps exactly the pairs inside BOTH radii: Levenshtein ≤ k and custom value inside
its radius. `cd` is the custom distance, `inR d` the test `d ≤ max_custom_distance`.
Only property theorems and non-vacuity examples live here; helper lemmas are in Proofs/.
-/
import Prs.Proofs.Tables
import Prs.Generated.VdistAlpha
import Prs.Generated.VdistBeta
import Prs.Proofs.Output
namespace Prs
variable {α : Type} [DecidableEq α] {D : Type} [DecidableEq D]

/-- symdel / nearest_neighbor with a (symmetric) custom distance -/
theorem C14_symdel_exact (k : Nat) (cd : List α → List α → D) (inR : D → Bool)
    (hcd : ∀ a b, cd a b = cd b a) (xs : List (List α)) (i j : Nat) (d : D) :
    (i, j, d) ∈ symdelCustom k cd inR xs ↔
      ∃ a b, i ≠ j ∧ xs[i]? = some a ∧ xs[j]? = some b ∧ lev a b ≤ k ∧ inR (cd a b) = true ∧
        d = cd a b := by
  rw [symdelCustom_iff k cd inR hcd, selfPairs_custom]

/-- two-collection form (no symmetry needed: the value is cd query reference) -/
theorem C14_symdel_two_exact (k : Nat) (cd : List α → List α → D) (inR : D → Bool)
    (ref qs : List (List α)) (q r : Nat) (d : D) :
    (q, r, d) ∈ symdelTwoCustom k cd inR ref qs ↔
      ∃ a b, qs[q]? = some a ∧ ref[r]? = some b ∧ lev a b ≤ k ∧ inR (cd a b) = true ∧
        d = cd a b := by
  rw [symdelTwoCustom_iff, crossPairs_custom]

/-- hash_based -/
theorem C14_hash_exact (A : List α) (cd : List α → List α → D) (inR : D → Bool)
    (xs : List (List α)) (k : Nat) (hA : ∀ s ∈ xs, ∀ c ∈ s, c ∈ A) (i j : Nat) (d : D) :
    (i, j, d) ∈ hashCustom A cd inR xs k ↔
      ∃ a b, i ≠ j ∧ xs[i]? = some a ∧ xs[j]? = some b ∧ lev a b ≤ k ∧ inR (cd a b) = true ∧
        d = cd a b := by
  rw [hashCustom_iff A cd inR xs k hA, selfPairs_custom]

omit [DecidableEq D] in
/-- kdtree, every compression -/
theorem C14_kdtree_exact (A : List α) (c k : Nat) (hc : 1 ≤ c) (cd : List α → List α → D)
    (inR : D → Bool) (xs : List (List α)) (hA : ∀ s ∈ xs, ∀ ch ∈ s, ch ∈ A) :
    ∃ ts, kdCustom A c k cd inR xs = some ts ∧ ts.Nodup ∧ ∀ i j d, (i, j, d) ∈ ts ↔
      ∃ a b, i ≠ j ∧ xs[i]? = some a ∧ xs[j]? = some b ∧ lev a b ≤ k ∧ inR (cd a b) = true ∧
        d = cd a b := by
  obtain ⟨ts, h1, h2, h3⟩ := kdtreeSelf_customScore_exact A c k hc cd inR xs hA
  exact ⟨ts, h1, h2, fun i j d => by rw [h3, selfPairs_custom]⟩

theorem C14_nodup_symdel (k : Nat) (cd : List α → List α → D) (inR : D → Bool)
    (xs : List (List α)) : (symdelCustom k cd inR xs).Nodup :=
  symdelSelf_nodup _ _ _

theorem C14_nodup_symdel_two (k : Nat) (cd : List α → List α → D) (inR : D → Bool)
    (ref qs : List (List α)) : (symdelTwoCustom k cd inR ref qs).Nodup :=
  symdelLookup_nodup _ _ _ _

theorem C14_nodup_hash (A : List α) (cd : List α → List α → D) (inR : D → Bool)
    (xs : List (List α)) (k : Nat) : (hashCustom A cd inR xs k).Nodup :=
  lookupDB_nodup _ _ _ _ _ _ _

/-- whether a pair is returned depends only on its two distances -/
theorem C14_depends_only_on_distances (k : Nat) (cd : List α → List α → D) (inR : D → Bool)
    (hcd : ∀ a b, cd a b = cd b a) (xs ys : List (List α)) (i j i' j' : Nat) (a b a' b' : List α)
    (ha : xs[i]? = some a) (hb : xs[j]? = some b) (ha' : ys[i']? = some a')
    (hb' : ys[j']? = some b') (hij : i ≠ j) (hij' : i' ≠ j')
    (hl : lev a b = lev a' b') (hc : cd a b = cd a' b') :
    (i, j, cd a b) ∈ symdelCustom k cd inR xs ↔ (i', j', cd a' b') ∈ symdelCustom k cd inR ys := by
  have key : ∀ (zs : List (List α)) (p q : Nat) (u v : List α), zs[p]? = some u → zs[q]? = some v →
      p ≠ q → ((p, q, cd u v) ∈ symdelCustom k cd inR zs ↔ lev u v ≤ k ∧ inR (cd u v) = true) := by
    intro zs p q u v hu hv hpq
    rw [C14_symdel_exact k cd inR hcd]
    constructor
    · rintro ⟨u', v', _, hu', hv', h1, h2, _⟩
      rw [hu] at hu'; rw [hv] at hv'
      cases hu'; cases hv'
      exact ⟨h1, h2⟩
    · rintro ⟨h1, h2⟩
      exact ⟨u, v, hpq, hu, hv, h1, h2, rfl⟩
  rw [key xs i j a b ha hb hij, key ys i' j' a' b' ha' hb' hij', hl, hc]

/-- a pair outside the custom radius is never returned, however close in edit distance -/
theorem C14_outside_radius_never (k : Nat) (cd : List α → List α → D) (inR : D → Bool)
    (hcd : ∀ a b, cd a b = cd b a) (xs : List (List α)) (i j : Nat) (d : D) (a b : List α)
    (ha : xs[i]? = some a) (hb : xs[j]? = some b) (hout : inR (cd a b) = false) :
    (i, j, d) ∉ symdelCustom k cd inR xs := by
  intro h
  obtain ⟨a', b', _, ha', hb', _, h2, _⟩ := (C14_symdel_exact k cd inR hcd xs i j d).1 h
  rw [ha] at ha'; rw [hb] at hb'
  cases ha'; cases hb'
  rw [hout] at h2; cases h2

/-- TCRdist search: exactly the ordered pairs within the edit radius whose TCRdist is within the
TCRdist radius -/
theorem C14_tcrdist_exact (k : Nat) (editSeqs : List (List Char)) (vd cd : Nat → Nat → Rat)
    (maxT : Rat) (i j : Nat) (t : Rat) :
    (i, j, t) ∈ nnTcrdist k editSeqs vd cd maxT ↔
      ∃ a b, i ≠ j ∧ editSeqs[i]? = some a ∧ editSeqs[j]? = some b ∧ lev a b ≤ k ∧
        t = vd i j + cd i j ∧ t ≤ maxT := by
  rw [mem_nnTcrdist]
  constructor
  · rintro ⟨⟨d, hd⟩, ht, hle⟩
    obtain ⟨a, b, hne, ha, hb, hl, _⟩ := (symdelDefault_iff k editSeqs (i, j, d)).1 hd |>
      (selfPairs_lev k editSeqs i j d).1
    exact ⟨a, b, hne, ha, hb, hl, ht, hle⟩
  · rintro ⟨a, b, hne, ha, hb, hl, ht, hle⟩
    exact ⟨⟨lev a b, (symdelDefault_iff k editSeqs (i, j, lev a b)).2
      ((selfPairs_lev k editSeqs i j _).2 ⟨a, b, hne, ha, hb, hl, rfl⟩)⟩, ht, hle⟩

/-- … empty when there is none -/
theorem C14_tcrdist_empty (k : Nat) (editSeqs : List (List Char)) (vd cd : Nat → Nat → Rat)
    (maxT : Rat)
    (h : ∀ i j a b, i ≠ j → editSeqs[i]? = some a → editSeqs[j]? = some b → lev a b ≤ k →
      ¬ (vd i j + cd i j ≤ maxT)) : nnTcrdist k editSeqs vd cd maxT = [] := by
  rw [List.eq_nil_iff_forall_not_mem]
  rintro ⟨i, j, t⟩ hm
  obtain ⟨a, b, hne, ha, hb, hl, ht, hle⟩ := (C14_tcrdist_exact k editSeqs vd cd maxT i j t).1 hm
  exact h i j a b hne ha hb hl (ht ▸ hle)

theorem C14_tcrdist_nodup (k : Nat) (editSeqs : List (List Char)) (vd cd : Nat → Nat → Rat)
    (maxT : Rat) : (nnTcrdist k editSeqs vd cd maxT).Nodup :=
  nnTcrdist_nodup k editSeqs vd cd maxT

/-- the trimming slice `s[ntrim:-ctrim]` removes exactly ntrim leading and ctrim trailing letters -/
theorem C14_trim (ntrim ctrim : Nat) (s : List Char) (h : ntrim + ctrim ≤ s.length) :
    (trimSlice ntrim ctrim s).length = s.length - ntrim - ctrim ∧
      s = s.take ntrim ++ trimSlice ntrim ctrim s ++ s.drop (s.length - ctrim) :=
  ⟨trimSlice_length ntrim ctrim s, trimSlice_decomp ntrim ctrim s h⟩

/-! non-vacuity: custom distance = length difference, radius 0: the substitution pair is kept, the
indel pair (edit distance 1 too) is filtered out; a TCRdist pair inside and one outside the radius -/
example : (0, 2, 0) ∈ symdelCustom 1
    (fun a b : List Char => (a.length - b.length) + (b.length - a.length))
    (fun d => decide (d ≤ 0)) [['C', 'A'], ['C'], ['C', 'D']] :=
  (C14_symdel_exact 1 _ _ (fun _ _ => Nat.add_comm _ _) _ 0 2 0).2
    ⟨['C', 'A'], ['C', 'D'], by decide, rfl, rfl, by simp [lev], by decide, by decide⟩
example : (0, 1, 1) ∉ symdelCustom 1
    (fun a b : List Char => (a.length - b.length) + (b.length - a.length))
    (fun d => decide (d ≤ 0)) [['C', 'A'], ['C'], ['C', 'D']] :=
  C14_outside_radius_never 1 _ _ (fun _ _ => Nat.add_comm _ _) _ 0 1 1 ['C', 'A'] ['C'] rfl rfl
    (by decide)
example : (0, 1, 5) ∈ nnTcrdist 1 [['C', 'A'], ['C'], ['C', 'D']] (fun _ _ => 2) (fun _ _ => 3) 5 :=
  (C14_tcrdist_exact 1 _ _ _ 5 0 1 5).2
    ⟨['C', 'A'], ['C'], by decide, rfl, rfl, by simp [lev], by grind, by grind⟩
example : nnTcrdist 1 [['C', 'A'], ['C'], ['C', 'D']] (fun _ _ => 2) (fun _ _ => 3) 4 = [] :=
  C14_tcrdist_empty 1 _ _ _ 4 (fun _ _ _ _ _ _ _ _ => by grind)
example : trimSlice 1 2 ['C', 'A', 'S', 'S', 'F'] = ['A', 'S'] := by decide

end Prs


namespace Prs
/-- the bundled V-gene distance tables (regenerated from the CSV files on every run) are square,
symmetric, with a zero diagonal, and labelled identically on rows and columns -/
theorem C14_vdist_alpha_ok :
    tableOk Generated.vdistAlphaIndex.length Generated.vdistAlpha = true ∧
      Generated.vdistAlphaAllNat = true ∧ Generated.vdistAlphaColumns = Generated.vdistAlphaIndex :=
  ⟨Generated.vdistAlpha_ok.1, Generated.vdistAlpha_ok.2, Generated.vdistAlpha_labels⟩

theorem C14_vdist_beta_ok :
    tableOk Generated.vdistBetaIndex.length Generated.vdistBeta = true ∧
      Generated.vdistBetaAllNat = true ∧ Generated.vdistBetaColumns = Generated.vdistBetaIndex :=
  ⟨Generated.vdistBeta_ok.1, Generated.vdistBeta_ok.2, Generated.vdistBeta_labels⟩
end Prs

namespace Prs
/-- spelled out for the generated tables: square, every row complete, entry [i][j] = entry [j][i] and
a zero diagonal -/
theorem C14_vdist_alpha_symmetric :
    let n := Generated.vdistAlphaIndex.length
    let M := Generated.vdistAlpha
    M.length = n ∧ (∀ r ∈ M, r.length = n) ∧
      (∀ i j, i < n → j < n → (M[i]?.bind (·[j]?)) = (M[j]?.bind (·[i]?))) ∧
      (∀ i, i < n → (M[i]?.bind (·[i]?)) = some 0) :=
  tableOk_spec _ _ Generated.vdistAlpha_ok.1

theorem C14_vdist_beta_symmetric :
    let n := Generated.vdistBetaIndex.length
    let M := Generated.vdistBeta
    M.length = n ∧ (∀ r ∈ M, r.length = n) ∧
      (∀ i j, i < n → j < n → (M[i]?.bind (·[j]?)) = (M[j]?.bind (·[i]?))) ∧
      (∀ i, i < n → (M[i]?.bind (·[i]?)) = some 0) :=
  tableOk_spec _ _ Generated.vdistBeta_ok.1
end Prs
