/-
Properties/C13.lean — grouped / conditional statistics are compositions of the group-wise statistic
(pyrepseq/stats.py `pc_conditional`, `pc_grouped_cross`, `pcDelta_grouped`, `pcDelta_grouped_cross`;
pyrepseq/entropy.py `renyi2_entropy`, `stdrenyi2_entropy`).

Only property theorems and non-vacuity examples live here; helper lemmas are in Proofs/Grouped.lean and
Proofs/FormulasEntropy.lean (the two entropy functions as re-translated from pyrepseq/entropy.py on every run).
-/
import Prs.Proofs.Grouped
import Prs.Proofs.FormulasEntropy
import Prs.Proofs.FormulasPc2
import Prs.Proofs.FormulasStd

namespace Prs

section grouped
variable {K β : Type} [DecidableEq K]

/-- `pc_conditional` with the default (uniform) weights is the plain mean of the group statistic
over the groups with ≥ 2 members -/
theorem C13_conditional_uniform (stat : List β → ℚ) (keys : List K) (tbl : List (K × β)) (v : ℚ)
    (h : pcConditional stat keys tbl none = some v) :
    let big := keys.filter fun g => decide (1 < (groupRows tbl g).length)
    v * (big.length : ℚ) = (big.map fun g => stat (groupRows tbl g)).sum := by
  intro big
  have hb : big ≠ [] := bigGroups_ne_nil_of_some stat keys tbl none v h
  have hlen : (big.length : ℚ) ≠ 0 := by
    have : big.length ≠ 0 := fun e => hb (List.length_eq_zero_iff.1 e)
    exact_mod_cast this
  rw [pcConditional_uniform_eq] at h
  have hw := pcConditional_weighted stat keys tbl _ v h (by rw [sum_sq_ones]; exact hlen)
  rw [sum_sq_ones, sum_zip_ones _ (fun g => stat (groupRows tbl g))] at hw
  exact hw

/-- a non-NaN result implies that some group has ≥ 2 members, so the mean above is a genuine mean -/
theorem C13_conditional_big_nonempty (stat : List β → ℚ) (keys : List K) (tbl : List (K × β))
    (w : Option (List ℚ)) (v : ℚ) (h : pcConditional stat keys tbl w = some v) :
    (keys.filter fun g => decide (1 < (groupRows tbl g).length)) ≠ [] :=
  bigGroups_ne_nil_of_some stat keys tbl w v h

/-- … hence `v` is the arithmetic mean -/
theorem C13_conditional_uniform_mean (stat : List β → ℚ) (keys : List K) (tbl : List (K × β))
    (v : ℚ) (h : pcConditional stat keys tbl none = some v) :
    let big := keys.filter fun g => decide (1 < (groupRows tbl g).length)
    v = (big.map fun g => stat (groupRows tbl g)).sum / (big.length : ℚ) := by
  intro big
  have hb : big ≠ [] := bigGroups_ne_nil_of_some stat keys tbl none v h
  have hlen : (big.length : ℚ) ≠ 0 := by
    have : big.length ≠ 0 := fun e => hb (List.length_eq_zero_iff.1 e)
    exact_mod_cast this
  rw [eq_div_iff hlen]
  exact C13_conditional_uniform stat keys tbl v h

/-- `pc_conditional` is the w²-weighted mean of the group statistic over the groups with ≥ 2
members (`hlen` is the Python-side precondition that one weight is supplied per remaining group;
the identity itself holds for the zip-truncated lists regardless) -/
theorem C13_conditional_weighted (stat : List β → ℚ) (keys : List K) (tbl : List (K × β))
    (w : List ℚ) (v : ℚ) (h : pcConditional stat keys tbl (some w) = some v)
    (_hlen : w.length = (keys.filter fun g => decide (1 < (groupRows tbl g).length)).length)
    (hw : (w.map fun x => x * x).sum ≠ 0) :
    v * (w.map fun x => x * x).sum
      = ((w.zip (keys.filter fun g => decide (1 < (groupRows tbl g).length))).map
          fun p => p.1 * p.1 * stat (groupRows tbl p.2)).sum :=
  pcConditional_weighted stat keys tbl w v h hw

/-- NaN exactly when fewer than two rows remain after dropping the singleton groups -/
theorem C13_conditional_nan (stat : List β → ℚ) (keys : List K) (tbl : List (K × β))
    (w : Option (List ℚ)) :
    pcConditional stat keys tbl w = none ↔
      (tbl.filter fun r => decide (r.1 ∈ keys.filter fun g =>
        decide (1 < (groupRows tbl g).length))).length < 2 :=
  pcConditional_none_iff stat keys tbl w

/-- only relative weights matter -/
theorem C13_weights_scale (stat : List β → ℚ) (keys : List K) (tbl : List (K × β)) (w : List ℚ)
    (c : ℚ) (hc : c ≠ 0) :
    pcConditional stat keys tbl (some (w.map (c * ·))) = pcConditional stat keys tbl (some w) :=
  pcConditional_scale stat keys tbl w c hc

/-- off-diagonal entry of `pc_grouped_cross` = the two-sample statistic of the two groups -/
theorem C13_cross_entry (stat2 : List β → List β → ℚ) (keys : List K) (tbl : List (K × β))
    (i j : ℕ) (g h : K) (hg : keys[i]? = some g) (hh : keys[j]? = some h) (hne : g ≠ h) :
    ((pcGroupedCross stat2 keys tbl)[i]?.bind (·[j]?))
      = some (some (stat2 (groupRows tbl g) (groupRows tbl h))) := by
  simp [pcGroupedCross, List.getElem?_map, hg, hh, hne]

/-- the diagonal is NaN -/
theorem C13_cross_diagonal (stat2 : List β → List β → ℚ) (keys : List K) (tbl : List (K × β))
    (i : ℕ) (g : K) (hg : keys[i]? = some g) :
    ((pcGroupedCross stat2 keys tbl)[i]?.bind (·[i]?)) = some none := by
  simp [pcGroupedCross, List.getElem?_map, hg]

/-- the matrix is keys × keys -/
theorem C13_cross_shape (stat2 : List β → List β → ℚ) (keys : List K) (tbl : List (K × β)) :
    (pcGroupedCross stat2 keys tbl).length = keys.length ∧
      ∀ r ∈ pcGroupedCross stat2 keys tbl, r.length = keys.length := by
  constructor
  · simp [pcGroupedCross]
  · intro r hr
    simp only [pcGroupedCross, List.mem_map] at hr
    obtain ⟨g, _, rfl⟩ := hr
    simp

/-- any symmetric two-sample statistic gives a symmetric matrix -/
theorem C13_cross_symmetric_of (stat2 : List β → List β → ℚ)
    (hs : ∀ a b, stat2 a b = stat2 b a) (keys : List K) (tbl : List (K × β)) (i j : ℕ) :
    ((pcGroupedCross stat2 keys tbl)[i]?.bind (·[j]?))
      = ((pcGroupedCross stat2 keys tbl)[j]?.bind (·[i]?)) := by
  simp only [pcGroupedCross, List.getElem?_map]
  cases hi : keys[i]? with
  | none => cases keys[j]? <;> simp [hi, List.getElem?_map]
  | some g =>
    cases hj : keys[j]? with
    | none => simp [hj, List.getElem?_map]
    | some h =>
      by_cases e : g = h
      · subst e; simp [hi, hj, List.getElem?_map]
      · have e' : ¬ h = g := fun x => e x.symm
        simp [hi, hj, List.getElem?_map, e, e', hs (groupRows tbl g) (groupRows tbl h)]

/-- with `pc` (two-sample) as the statistic the matrix is symmetric -/
theorem C13_cross_symmetric [DecidableEq β] (keys : List K) (tbl : List (K × β)) (i j : ℕ) :
    ((pcGroupedCross pc2 keys tbl)[i]?.bind (·[j]?))
      = ((pcGroupedCross pc2 keys tbl)[j]?.bind (·[i]?)) :=
  C13_cross_symmetric_of pc2 pc2_comm keys tbl i j

/-- `pcDelta_grouped`: row i is pcDelta of group i -/
theorem C13_delta_grouped (f : List β → List ℚ) (keys : List K) (tbl : List (K × β)) (i : ℕ)
    (g : K) (hg : keys[i]? = some g) :
    (pcDeltaGrouped f keys tbl)[i]? = some (f (groupRows tbl g)) := by
  simp [pcDeltaGrouped, List.getElem?_map, hg]

/-- `pcDelta_grouped_cross`: exactly one row per `combinations(keys, 2)` pair -/
theorem C13_delta_cross (f2 : List β → List β → List ℚ) (keys : List K) (tbl : List (K × β))
    (g h : K) (r : List ℚ) :
    (g, h, r) ∈ pcDeltaGroupedCross f2 keys tbl ↔
      (g, h) ∈ pairsOf keys ∧ r = f2 (groupRows tbl g) (groupRows tbl h) := by
  simp only [pcDeltaGroupedCross, List.mem_map, Prod.mk.injEq]
  constructor
  · rintro ⟨⟨a, b⟩, hab, rfl, rfl, rfl⟩
    exact ⟨hab, rfl⟩
  · rintro ⟨hab, rfl⟩
    exact ⟨(g, h), hab, rfl, rfl, rfl⟩

/-- … in `combinations` order -/
theorem C13_delta_cross_order (f2 : List β → List β → List ℚ) (keys : List K)
    (tbl : List (K × β)) :
    (pcDeltaGroupedCross f2 keys tbl).map (fun t => (t.1, t.2.1)) = pairsOf keys := by
  simp [pcDeltaGroupedCross, List.map_map, Function.comp_def]

/-- the groups partition the table -/
theorem C13_group_rows_partition (keys : List K) (hk : keys.Nodup) (tbl : List (K × β))
    (hall : ∀ r ∈ tbl, r.1 ∈ keys) :
    ((keys.map fun g => (groupRows tbl g).length).sum) = tbl.length :=
  groupRows_partition keys hk tbl hall

end grouped

/-! ### entropies over ℝ: renyi2 = −log_b(pc)  (`renyi2` is defined in Proofs/Grouped.lean) -/

theorem C13_renyi (b p : ℝ) (_hb : 0 < b) (_hb1 : b ≠ 1) (_hp : 0 < p) :
    renyi2 (some b) p = -Real.logb b p := by
  simp [renyi2, Real.logb, neg_div]

/-- more coincidences, less entropy -/
theorem C13_renyi_mono (b p q : ℝ) (hb : 1 < b) (hp : 0 < p) (hpq : p ≤ q) :
    renyi2 (some b) q ≤ renyi2 (some b) p := by
  have hlb : 0 < Real.log b := Real.log_pos hb
  have hl : Real.log p ≤ Real.log q := Real.log_le_log hp hpq
  simp only [renyi2]
  rw [div_le_div_iff_of_pos_right hlb]
  exact neg_le_neg hl

theorem C13_renyi_mono_nat (p q : ℝ) (hp : 0 < p) (hpq : p ≤ q) :
    renyi2 none q ≤ renyi2 none p := by
  simp only [renyi2]
  exact neg_le_neg (Real.log_le_log hp hpq)

theorem C13_renyi_zero (b : Option ℝ) : renyi2 b 1 = 0 := by
  cases b <;> simp [renyi2]

/-- a probability (0 < pc ≤ 1) has non-negative entropy -/
theorem C13_renyi_nonneg (b p : ℝ) (hb : 1 < b) (hp : 0 < p) (hp1 : p ≤ 1) :
    0 ≤ renyi2 (some b) p := by
  rw [← C13_renyi_zero (some b)]
  exact C13_renyi_mono b p 1 hb hp hp1

/-- `stdrenyi2_entropy` is stdpc / (pc · ln base) -/
theorem C13_stdrenyi (b sd p : ℝ) : stdRenyi2 (some b) sd p = sd / (p * Real.log b) := by
  simp [stdRenyi2, div_div]

/-- with `base=None` (natural units) it is stdpc / pc: the first-order error of `-log pc` -/
theorem C13_stdrenyi_nat (sd p : ℝ) : stdRenyi2 none sd p = sd / p := rfl

/-- error propagation is linear: the standard deviation of the entropy scales with that of pc, and in base b it is the one in
natural units divided by ln b, exactly as the entropy itself -/
theorem C13_stdrenyi_units (b sd p : ℝ) :
    stdRenyi2 (some b) sd p = stdRenyi2 none sd p / Real.log b ∧ renyi2 (some b) p = renyi2 none p / Real.log b := by
  simp [stdRenyi2, renyi2]

/-- a base that is given and not positive is rejected by both functions, whatever the statistics are -/
theorem C13_base_rejected (b : ℝ) (hb : b ≤ 0) (v : Option ℝ → ℝ) : checkedBase (some b) v = none := by
  simp [checkedBase, hb]

theorem C13_base_accepted (b : ℝ) (hb : 0 < b) (v : Option ℝ → ℝ) : checkedBase (some b) v = some (v (some b)) := by
  simp [checkedBase, not_le.mpr hb]

/-! ### the source: `renyi2_entropy` / `stdrenyi2_entropy` as re-translated from pyrepseq/entropy.py on every run
(Generated/FormulasEntropy.lean; the value of each call of `pc`, `pc_joint`, `pc_conditional`, `stdpc`, `stdpc_joint` is a
parameter, `none` is the ValueError) are `renyi2` / `stdRenyi2` of the statistic that belongs to the shape of the call -/

/-- one feature, no `by`: −log_base of `pc` -/
theorem C13_source_renyi2_single (p pj pcnd b : ℝ) :
    Generated.renyi2_entropy_single p pj pcnd b = checkedBase (some b) (fun b => renyi2 b p) ∧
    Generated.renyi2_entropy_single_nat p pj pcnd = some (renyi2 none p) :=
  ⟨gen_renyi2_single p pj pcnd b, gen_renyi2_single_nat p pj pcnd⟩

/-- a list of features, no `by`: −log_base of `pc_joint` -/
theorem C13_source_renyi2_joint (p pj pcnd b : ℝ) :
    Generated.renyi2_entropy_joint p pj pcnd b = checkedBase (some b) (fun b => renyi2 b pj) ∧
    Generated.renyi2_entropy_joint_nat p pj pcnd = some (renyi2 none pj) :=
  ⟨gen_renyi2_joint p pj pcnd b, gen_renyi2_joint_nat p pj pcnd⟩

/-- with `by`: −log_base of `pc_conditional` -/
theorem C13_source_renyi2_conditional (p pj pcnd b : ℝ) :
    Generated.renyi2_entropy_conditional p pj pcnd b = checkedBase (some b) (fun b => renyi2 b pcnd) ∧
    Generated.renyi2_entropy_conditional_nat p pj pcnd = some (renyi2 none pcnd) :=
  ⟨gen_renyi2_conditional p pj pcnd b, gen_renyi2_conditional_nat p pj pcnd⟩

/-- one feature: stdpc / (pc · ln base) -/
theorem C13_source_stdrenyi2_single (p pj sd sdj b : ℝ) (hb : 0 < b) :
    Generated.stdrenyi2_entropy_single p pj sd sdj b = some (sd / (p * Real.log b)) ∧
    Generated.stdrenyi2_entropy_single_nat p pj sd sdj = some (sd / p) := by
  rw [gen_stdrenyi2_single, gen_stdrenyi2_single_nat, C13_base_accepted b hb, C13_stdrenyi]
  exact ⟨rfl, rfl⟩

/-- a list of features: stdpc_joint / (pc_joint · ln base) -/
theorem C13_source_stdrenyi2_joint (p pj sd sdj b : ℝ) (hb : 0 < b) :
    Generated.stdrenyi2_entropy_joint p pj sd sdj b = some (sdj / (pj * Real.log b)) ∧
    Generated.stdrenyi2_entropy_joint_nat p pj sd sdj = some (sdj / pj) := by
  rw [gen_stdrenyi2_joint, gen_stdrenyi2_joint_nat, C13_base_accepted b hb, C13_stdrenyi]
  exact ⟨rfl, rfl⟩

/-- composed with the translated bodies of `pc` and `stdpc` (Generated/FormulasPc, FormulasStd): for one feature column holding the
sample `xs`, the source computes −log_b of `pc1 xs`, and the square root of the variance estimate over `pc1 xs · ln b` -/
theorem C13_source_entropies_of_sample {β : Type} [DecidableEq β] (xs : List β) (pj pcnd sdj b : ℝ) (hb : 0 < b) :
    Generated.renyi2_entropy_single ((Generated.pc_one_sample xs : ℚ) : ℝ) pj pcnd b
      = some (renyi2 (some b) ((pc1 xs : ℚ) : ℝ)) ∧
    Generated.stdrenyi2_entropy_single ((Generated.pc_one_sample xs : ℚ) : ℝ) pj (Generated.stdpc xs) sdj b
      = some (Real.sqrt ((varpcN (counts xs) : ℚ) : ℝ) / (((pc1 xs : ℚ) : ℝ) * Real.log b)) := by
  rw [gen_pc_one_sample_eq, gen_stdpc_eq, gen_renyi2_single, (C13_source_stdrenyi2_single _ pj _ sdj b hb).1, C13_base_accepted b hb]
  exact ⟨rfl, rfl⟩

/-- the validation of `base` comes first in the source of both functions, in every shape of the call -/
theorem C13_source_base_rejected (p pj pcnd sd sdj b : ℝ) (hb : b ≤ 0) :
    Generated.renyi2_entropy_single p pj pcnd b = none ∧ Generated.renyi2_entropy_joint p pj pcnd b = none ∧
    Generated.renyi2_entropy_conditional p pj pcnd b = none ∧ Generated.stdrenyi2_entropy_single p pj sd sdj b = none ∧
    Generated.stdrenyi2_entropy_joint p pj sd sdj b = none := by
  rw [gen_renyi2_single, gen_renyi2_joint, gen_renyi2_conditional, gen_stdrenyi2_single, gen_stdrenyi2_joint]
  simp [C13_base_rejected b hb]

/-! ### non-vacuity -/

example : ∃ v, pcConditional (fun l => (l.length : ℚ)) [1, 2, 3]
    [(1, 'a'), (2, 'b'), (1, 'c'), (3, 'd'), (3, 'e')] none = some v := by
  rw [pcConditional_eq]
  exact ⟨_, if_neg (by decide)⟩

example : ∃ v, pcConditional (fun l => (l.length : ℚ)) [1, 2, 3]
    [(1, 'a'), (2, 'b'), (1, 'c'), (3, 'd'), (3, 'e')] (some [1, 2]) = some v := by
  rw [pcConditional_eq]
  exact ⟨_, if_neg (by decide)⟩

example : (([1, 2] : List ℚ).map fun x => x * x).sum ≠ 0 := by norm_num

example : ([1, 2] : List ℚ).length = ([1, 2, 3].filter fun g => decide (1 < (groupRows
    [(1, 'a'), (2, 'b'), (1, 'c'), (3, 'd'), (3, 'e')] g).length)).length := by decide

example : pcConditional (fun l => (l.length : ℚ)) [1, 2] [(1, 'a'), (2, 'b')] none = none := by
  rw [pcConditional_none_iff]; decide

example : ([1, 2, 3] : List ℕ)[0]? = some 1 ∧ ([1, 2, 3] : List ℕ)[2]? = some 3 ∧ (1 : ℕ) ≠ 3 := by
  decide

example : (1, 3) ∈ pairsOf [1, 2, 3] := by decide

example : ([1, 2, 3] : List ℕ).Nodup ∧
    ∀ r ∈ [(1, 'a'), (2, 'b'), (1, 'c'), (3, 'd'), (3, 'e')], r.1 ∈ [1, 2, 3] := by decide

example : renyi2 (some 2) (1 / 2) = 1 := by
  rw [C13_renyi 2 (1 / 2) (by norm_num) (by norm_num) (by norm_num)]
  rw [one_div, Real.logb_inv, Real.logb_self_eq_one (by norm_num)]
  norm_num

example : stdRenyi2 (some (Real.exp 1)) 3 (1 / 2) = 6 := by
  rw [C13_stdrenyi, Real.log_exp]; norm_num

example : checkedBase (some (-1)) (fun b => renyi2 b (1 / 2)) = none := C13_base_rejected _ (by norm_num) _

end Prs
