/-
Properties/C19.lean — summaries encode the data faithfully.
  seqs_to_regex / seqs_to_consensus (align=False), the seqlogo count matrix, rankfrequency data,
  labels_to_colors lookup, ClusterGridSplit.plot_matrix, density_scatter (discrete).
`order` is logomaker's column order (the residue letters occurring in the alignment); the regex keeps
only residues in `order`, hence the hypothesis `hord` (every non-gap letter of the input is in `order`)
wherever the INPUT has to be matched. Sequences are assumed aligned (equal length `L`).
-/
import Prs.Proofs.Summary
import Prs.Proofs.Density
namespace Prs

/-- semantics of the matcher: a word matches iff it is obtained by choosing, for each item in order,
one of its characters or (if optional) nothing -/
theorem C19_fullMatch_iff (items : List RegexItem) (w : List Char) :
    fullMatch items w = true ↔ ∃ choice : List (Option Char), choice.length = items.length ∧
      (∀ p ∈ items.zip choice, match p.2 with
        | some c => c ∈ p.1.chars
        | none => p.1.optional = true) ∧
      w = choice.filterMap id :=
  fullMatch_iff_choice items w

/-- the expression built from equal-length sequences fully matches every input sequence with its
gaps removed -/
theorem C19_regex_matches_inputs (order : List Char) (seqs : List (List Char)) (L : Nat)
    (hL : ∀ s ∈ seqs, s.length = L)
    (hord : ∀ s ∈ seqs, ∀ c ∈ s, c ≠ gapChar → c ∈ order) (s : List Char) (hs : s ∈ seqs) :
    fullMatch (seqsToRegex order seqs) (s.filter (· ≠ gapChar)) = true :=
  regex_matches_inputs order seqs L hL hord s hs

/-- and accepts exactly the strings built from residues observed at each position (positions where
some sequence has a gap are optional) -/
theorem C19_regex_language (order : List Char) (seqs : List (List Char)) (L : Nat)
    (hL : ∀ s ∈ seqs, s.length = L) (hne : seqs ≠ []) (w : List Char) :
    fullMatch (seqsToRegex order seqs) w = true ↔
      ∃ choice : List (Option Char), choice.length = L ∧
        (∀ i, i < L → match choice[i]? with
          | some (some c) => c ∈ order ∧ c ∈ columnResidues seqs i
          | some none => ∃ s ∈ seqs, s[i]? = some gapChar
          | none => False) ∧
        w = choice.filterMap id :=
  regex_language order seqs L hL hne w

/-- `columnResidues`: the non-gap letters some input sequence shows at that position -/
theorem C19_columnResidues (seqs : List (List Char)) (i : Nat) (c : Char) :
    c ∈ columnResidues seqs i ↔ c ≠ gapChar ∧ ∃ s ∈ seqs, s[i]? = some c :=
  mem_columnResidues seqs i c

/-- without gaps: the language is exactly the product of the observed residue sets -/
theorem C19_regex_language_nogap (order : List Char) (seqs : List (List Char)) (L : Nat)
    (hL : ∀ s ∈ seqs, s.length = L) (hne : seqs ≠ []) (hng : ∀ s ∈ seqs, gapChar ∉ s)
    (hord : ∀ s ∈ seqs, ∀ c ∈ s, c ≠ gapChar → c ∈ order) (w : List Char) :
    fullMatch (seqsToRegex order seqs) w = true ↔
      w.length = L ∧ ∀ i, i < L → ∃ c, w[i]? = some c ∧ ∃ s ∈ seqs, s[i]? = some c :=
  regex_language_nogap order seqs L hL hne hng hord w

/-- the count matrix: per position and residue the number of input sequences showing it -/
theorem C19_count_matrix (seqs : List (List Char)) (i : Nat) (c : Char) (hc : c ≠ gapChar) :
    countAt seqs i c = (seqs.filter fun s => s[i]? = some c).length :=
  countAt_eq seqs i c hc

/-- consensus: at each kept position a most frequent residue -/
theorem C19_argmax_most_frequent (order : List Char) (seqs : List (List Char)) (i : Nat) (c : Char)
    (h : argmaxResidue order seqs i = some c) :
    c ∈ order ∧ ∀ d ∈ order, countAt seqs i d ≤ countAt seqs i c :=
  argmax_most_frequent order seqs i c h

theorem C19_consensus_length_nogap (order : List Char) (seqs : List (List Char)) (L : Nat)
    (hL : ∀ s ∈ seqs, s.length = L) (hne : seqs ≠ []) (hng : ∀ s ∈ seqs, gapChar ∉ s)
    (hordne : order ≠ []) : (seqsToConsensus order seqs).length = L :=
  consensus_length_nogap order seqs L hL hne hng hordne

/-- rank-frequency data: non-missing values in descending order against 0-based ranks -/
theorem C19_rank (normalize : Bool) (data : List (Option Rat)) :
    ((rankFrequency normalize data).map (·.2)) = List.range (data.filterMap id).length ∧
    ((rankFrequency normalize data).map (·.1)).Pairwise (· ≥ ·) :=
  ⟨rank_snd normalize data, rank_sorted normalize data⟩

/-- unnormalised: exactly the non-missing input values (as a multiset) -/
theorem C19_rank_values (data : List (Option Rat)) :
    ((rankFrequency false data).map (·.1)).Perm (data.filterMap id) :=
  rank_values data

/-- normalised: the frequencies sum to one -/
theorem C19_rank_normalized (data : List (Option Rat))
    (hpos : 0 < (data.filterMap id).foldl (· + ·) 0) :
    (((rankFrequency true data).map (·.1)).foldl (· + ·) 0) = 1 :=
  rank_normalized data hpos

section colors
variable {L C : Type} [DecidableEq L]

/-- colours: equal labels get equal colours -/
theorem C19_colors_equal_labels (labels : List L) (minCount : Option Nat) (shuffled : List L)
    (palette : List C) (i j : Nat) (l : L) (hi : labels[i]? = some l) (hj : labels[j]? = some l) :
    (labelsToColors labels minCount shuffled palette)[i]? =
      (labelsToColors labels minCount shuffled palette)[j]? := by
  obtain ⟨keep, _, hspec⟩ := labelsToColors_spec labels minCount shuffled palette
  rw [hspec, hspec, hi, hj]

/-- labels rarer than min_count are black (`none`) -/
theorem C19_colors_rare_black (labels : List L) (m : Nat) (shuffled : List L) (palette : List C)
    (i : Nat) (l : L) (hi : labels[i]? = some l) (hr : labels.count l < m) :
    (labelsToColors labels (some m) shuffled palette)[i]? = some none :=
  colors_rare_black labels m shuffled palette i l hi hr

/-- distinct kept labels get distinct colours when the palette has no repeated colour -/
theorem C19_colors_distinct (labels : List L) (minCount : Option Nat) (shuffled : List L)
    (palette : List C) (hp : palette.Nodup) (i j : Nat) (l l' : L) (c c' : C)
    (hi : labels[i]? = some l) (hj : labels[j]? = some l') (hne : l ≠ l')
    (hci : (labelsToColors labels minCount shuffled palette)[i]? = some (some c))
    (hcj : (labelsToColors labels minCount shuffled palette)[j]? = some (some c')) : c ≠ c' :=
  colors_distinct labels minCount shuffled palette hp i j l l' c c' hi hj hne hci hcj

end colors

/-- split heat map: below the diagonal the lower (alpha) data, above it the upper (beta) data, in
dendrogram order; the diagonal holds their sum (zero for distance matrices) -/
theorem C19_split (lower upper : List (List Int)) (ind : List Nat) (r c : Nat) (ir ic : Nat)
    (hr : ind[r]? = some ir) (hc : ind[c]? = some ic) :
    ((splitMatrix lower upper ind)[r]?.bind (·[c]?)) =
      some (if c < r then ((lower[ir]?.bind (·[ic]?)).getD 0)
        else if r < c then ((upper[ir]?.bind (·[ic]?)).getD 0)
        else ((lower[ir]?.bind (·[ic]?)).getD 0) + ((upper[ir]?.bind (·[ic]?)).getD 0)) :=
  splitMatrix_entry lower upper ind r c ir ic hr hc

theorem C19_split_shape (lower upper : List (List Int)) (ind : List Nat) :
    (splitMatrix lower upper ind).length = ind.length ∧
      ∀ row ∈ splitMatrix lower upper ind, row.length = ind.length :=
  splitMatrix_shape lower upper ind

/-- density_scatter on discrete data draws each distinct point exactly once: the drawn points are a
permutation of the duplicate-free list of the input points (so none is missing, none is drawn twice),
whether or not the points are sorted by density -/
theorem C19_density_each_point_once (sort : Bool) (pts : List (Rat × Rat)) :
    ((densityScatterDiscrete sort pts).map (·.1)).Perm (dedup pts) ∧
    ((densityScatterDiscrete sort pts).map (·.1)).Nodup ∧
    ∀ p, p ∈ (densityScatterDiscrete sort pts).map (·.1) ↔ p ∈ pts :=
  ⟨density_fst_perm sort pts, (density_fst_perm sort pts).nodup_iff.2 (nodup_dedup pts),
   fun p => ((density_fst_perm sort pts).mem_iff).trans (mem_dedup p pts)⟩

/-- and colours each by its multiplicity in the input (which is at least 1) -/
theorem C19_density_multiplicity (sort : Bool) (pts : List (Rat × Rat)) (e : (Rat × Rat) × Nat)
    (h : e ∈ densityScatterDiscrete sort pts) : e.2 = pts.count e.1 ∧ 1 ≤ e.2 := by
  have := density_mem h
  exact ⟨this.2, by rw [this.2]; exact List.count_pos_iff.2 this.1⟩

/-- with `sort` the densest points come last (drawn on top) -/
theorem C19_density_densest_last (pts : List (Rat × Rat)) :
    (densityScatterDiscrete true pts).Pairwise (fun a b => a.2 ≤ b.2) := density_sorted pts

/-! non-vacuity -/
/-- three aligned sequences AC, A-, DC give `[AD]C?`: "A", "DC" match, "C", "ACC" do not -/
example :
    seqsToRegex ['A', 'C', 'D'] [['A', 'C'], ['A', '-'], ['D', 'C']] =
      [⟨['A', 'D'], false⟩, ⟨['C'], true⟩] ∧
    fullMatch (seqsToRegex ['A', 'C', 'D'] [['A', 'C'], ['A', '-'], ['D', 'C']]) ['A'] = true ∧
    fullMatch (seqsToRegex ['A', 'C', 'D'] [['A', 'C'], ['A', '-'], ['D', 'C']]) ['D', 'C'] = true ∧
    fullMatch (seqsToRegex ['A', 'C', 'D'] [['A', 'C'], ['A', '-'], ['D', 'C']]) ['C'] = false ∧
    fullMatch (seqsToRegex ['A', 'C', 'D'] [['A', 'C'], ['A', '-'], ['D', 'C']]) ['A', 'C', 'C'] = false ∧
    seqsToConsensus ['A', 'C', 'D'] [['A', 'C'], ['A', '-'], ['D', 'C']] = ['A', 'C'] := by decide
/-- the hypotheses of `C19_regex_matches_inputs` are satisfiable with gaps present -/
example : fullMatch (seqsToRegex ['A', 'C', 'D'] [['A', 'C'], ['A', '-'], ['D', 'C']])
    (['A', '-'].filter (· ≠ gapChar)) = true :=
  C19_regex_matches_inputs ['A', 'C', 'D'] _ 2 (by decide) (by decide) _ (by decide)
/-- `hord` cannot be dropped: with a residue missing from `order` the input is NOT matched -/
example : fullMatch (seqsToRegex ['A'] [['A', 'C']]) ['A', 'C'] = false := by decide
/-- `order ≠ []` cannot be dropped from `C19_consensus_length_nogap` -/
example : seqsToConsensus [] [['A', 'C']] = [] := by decide
example : labelsToColors ["a", "b", "a", "c"] (some 2) ["c", "a", "b"] [1, 2, 3] =
    [some 1, none, some 1, none] := by decide
example : splitMatrix [[0, 1, 2], [1, 0, 3], [2, 3, 0]] [[0, 7, 8], [7, 0, 9], [8, 9, 0]] [2, 0, 1] =
    [[0, 8, 9], [2, 0, 7], [3, 1, 0]] := by decide
example : (((rankFrequency true [some 1, none, some 3]).map (·.1)).foldl (· + ·) 0) = 1 :=
  C19_rank_normalized _ (by show (0 : Rat) < 0 + 1 + 3; grind)
/-- (1, 2) occurs twice among three points: whatever position it is drawn at, its colour value is 2 -/
example : ∀ e ∈ densityScatterDiscrete true [(1, 2), (0, 5), (1, 2)], e.1 = (1, 2) → e.2 = 2 := by
  intro e h he
  rw [(C19_density_multiplicity _ _ e h).1, he]
  decide +kernel

end Prs
