/-
Properties/C17.lean — `subsample` / `downsample` contracts (pyrepseq/stats.py).

`subsample(counts, n)` unpacks the counts into `sum(counts)` labelled items (`np.repeat`), draws n
of them without replacement and re-counts (`np.unique`). Whatever n-subset is drawn, the result
satisfies `IsSubsample`; no subset larger than the total exists (the source raises); under a
uniform n-subset each item is kept with probability n/T. `downsample` is the identity when the
input is short enough (or no size is given) and otherwise returns exactly m of the input's items.

Only property theorems and non-vacuity examples live here; helpers are in Proofs/StatsSets.lean.
-/
import Prs.Proofs.Powerlaw
import Prs.Proofs.FormulasReal
import Prs.Proofs.FormulasDownsample
import Prs.Proofs.StatsSets
import Mathlib.Data.Nat.Choose.Basic

namespace Prs

theorem C17_unpack_length (counts : List ℕ) : (unpackCounts counts).length = counts.sum :=
  unpack_length counts

theorem C17_unpack_count (counts : List ℕ) (i : ℕ) :
    (unpackCounts counts).count i = counts.getD i 0 := unpack_count counts i

/-- any size-n sub-multiset of the unpacked items re-counts to a valid subsample -/
theorem C17_subsample_valid (counts : List ℕ) (sample : List ℕ)
    (h : ∀ v, sample.count v ≤ (unpackCounts counts).count v) :
    IsSubsample counts sample.length (recount sample).1 (recount sample).2 := by
  refine ⟨?_, recount_keys_pairwise sample, ?_, recount_sum sample, ?_⟩
  · rw [recount_snd, List.length_map]
  · intro c hc
    rw [recount_snd] at hc
    obtain ⟨i, hi, rfl⟩ := List.mem_map.1 hc
    exact List.count_pos_iff.2 ((mem_recount_keys sample i).1 hi)
  · rintro ⟨i', c⟩ hp
    rw [recount_snd] at hp
    obtain ⟨hk, hc⟩ := mem_zip_map_self _ _ _ hp
    simp only at hk hc
    subst hc
    have hi : i' ∈ sample := (mem_recount_keys sample i').1 hk
    have hpos : 0 < sample.count i' := List.count_pos_iff.2 hi
    have hle := h i'
    rw [unpack_count] at hle
    have hlt : i' < counts.length := by
      by_contra hge
      rw [List.getD_eq_default _ _ (by omega)] at hle
      omega
    refine ⟨counts[i'], List.getElem?_eq_getElem hlt, ?_⟩
    rw [List.getD_eq_getElem _ _ hlt] at hle
    exact hle

/-- no sub-multiset larger than the total exists (the source refuses n > sum(counts)) -/
theorem C17_subsample_refuses (counts sample : List ℕ)
    (h : ∀ v, sample.count v ≤ (unpackCounts counts).count v) : sample.length ≤ counts.sum := by
  rw [← unpack_length]
  exact (List.subperm_ext_iff.2 (fun v _ => h v)).length_le

/-- under a uniformly random n-subset of T items each item is kept with probability n/T:
`n · C(T, n) = T · C(T−1, n−1)` -/
theorem C17_inclusion_probability (T n : ℕ) (hn : 1 ≤ n) (hT : n ≤ T) :
    n * Nat.choose T n = T * Nat.choose (T - 1) (n - 1) := by
  obtain ⟨n', rfl⟩ : ∃ n', n = n' + 1 := ⟨n - 1, by omega⟩
  obtain ⟨T', rfl⟩ : ∃ T', T = T' + 1 := ⟨T - 1, by omega⟩
  have := Nat.add_one_mul_choose_eq T' n'
  simp only [Nat.add_sub_cancel]
  rw [Nat.mul_comm (n' + 1)]
  exact this.symm

section downsample
variable {β : Type} [DecidableEq β]

theorem C17_downsample_identity (xs ys : List β) (m : ℕ) (h : xs.length ≤ m)
    (hd : IsDownsample xs (some m) ys) : ys = xs := by
  simpa [IsDownsample, h] using hd

theorem C17_downsample_none (xs ys : List β) (hd : IsDownsample xs none ys) : ys = xs := hd

theorem C17_downsample_size (xs ys : List β) (m : ℕ) (h : m < xs.length)
    (hd : IsDownsample xs (some m) ys) : ys.length = m ∧ ∀ v ∈ ys, v ∈ xs := by
  have h' : ¬ xs.length ≤ m := by omega
  simp only [IsDownsample, h', if_false] at hd
  refine ⟨hd.1, fun v hv => ?_⟩
  have := hd.2 v
  have hp : 0 < ys.count v := List.count_pos_iff.2 hv
  exact List.count_pos_iff.1 (by omega)

/-- the downsample is a sub-multiset of the input (stronger than membership) -/
theorem C17_downsample_subperm (xs ys : List β) (m : Option ℕ) (hd : IsDownsample xs m ys) :
    ys.Subperm xs := by
  cases m with
  | none => rw [C17_downsample_none xs ys hd]
  | some m =>
    by_cases h : xs.length ≤ m
    · rw [C17_downsample_identity xs ys m h hd]
    · simp only [IsDownsample, h, if_false] at hd
      exact List.subperm_ext_iff.2 (fun v _ => hd.2 v)

end downsample

/-! ### non-vacuity -/

example : unpackCounts [2, 0, 3] = [0, 0, 2, 2, 2] := by decide
example : recount [2, 0, 2] = ([0, 2], [1, 2]) := by decide
example : IsSubsample [2, 0, 3] ([2, 0, 2] : List ℕ).length (recount [2, 0, 2]).1 (recount [2, 0, 2]).2 :=
  C17_subsample_valid [2, 0, 3] [2, 0, 2] (by
    intro v
    rw [C17_unpack_count]
    by_cases h0 : v = 0
    · subst h0; decide
    · by_cases h2 : v = 2
      · subst h2; decide
      · have : ([2, 0, 2] : List ℕ).count v = 0 := by
          apply List.count_eq_zero.2
          simp only [List.mem_cons, List.not_mem_nil, or_false]
          omega
        omega)
example : 2 * Nat.choose 5 2 = 5 * Nat.choose (5 - 1) (2 - 1) :=
  C17_inclusion_probability 5 2 (by decide) (by decide)
example : IsDownsample [1, 2, 3] (some 2) [3, 1] := by
  refine ⟨rfl, fun v => ?_⟩
  by_cases h1 : v = 1
  · subst h1; decide
  · by_cases h3 : v = 3
    · subst h3; decide
    · have : ([3, 1] : List ℕ).count v = 0 := by
        apply List.count_eq_zero.2
        simp only [List.mem_cons, List.not_mem_nil, or_false]
        omega
      omega
example : IsDownsample [1, 2, 3] (some 5) [1, 2, 3] := by simp [IsDownsample]
example : IsDownsample [1, 2, 3] none [1, 2, 3] := rfl

end Prs


namespace Prs
/-- powerlaw_sample: over the reals, for every integer xmin ≥ 1, exponent α > 1 and uniform draw
r ∈ [0, 1), the value ⌊(xmin − ½)(1 − r)^(−1/(α−1)) + ½⌋ is an integer ≥ xmin (float rounding is not
modelled) -/
theorem C17_powerlaw_ge_xmin (xmin : ℕ) (hx : 1 ≤ xmin) (α r : ℝ) (hα : 1 < α) (hr0 : 0 ≤ r)
    (hr1 : r < 1) :
    (xmin : ℤ) ≤ ⌊((xmin : ℝ) - 1/2) * (1 - r) ^ (-1 / (α - 1)) + 1/2⌋ :=
  powerlaw_ge_xmin xmin hx α r hα hr0 hr1

/-- the smallest draw gives exactly xmin, and larger draws never give smaller values -/
theorem C17_powerlaw_r0 (xmin : ℕ) (α : ℝ) :
    ⌊((xmin : ℝ) - 1/2) * (1 - (0:ℝ)) ^ (-1 / (α - 1)) + 1/2⌋ = xmin := powerlaw_r0 xmin α

theorem C17_powerlaw_mono (xmin : ℕ) (hx : 1 ≤ xmin) (α : ℝ) (hα : 1 < α) (r r' : ℝ) (h0 : 0 ≤ r)
    (hrr : r ≤ r') (h1 : r' < 1) :
    ⌊((xmin : ℝ) - 1/2) * (1 - r) ^ (-1 / (α - 1)) + 1/2⌋ ≤
      ⌊((xmin : ℝ) - 1/2) * (1 - r') ^ (-1 / (α - 1)) + 1/2⌋ :=
  powerlaw_mono xmin hx α hα r r' h0 hrr h1

/-- the 'simple' closed form 1 + n / Σ ln(c/cmin) is the unique stationary point of the continuous
power-law log-likelihood n·ln(α−1) − α·S (S = Σ ln(c/cmin)) on α > 1 -/
theorem C17_mle_simple_stationary (n : ℕ) (S : ℝ) (hn : 0 < n) (hS : 0 < S) (α : ℝ) (hα : 1 < α) :
    (n : ℝ) / (α - 1) - S = 0 ↔ α = 1 + (n : ℝ) / S := mle_simple_stationary n S hn hS α hα
/-! ### the sources, as translated from pyrepseq/stats.py on this run

`Generated/FormulasReal.lean` is rewritten by `tools/gen_formulas.py` from the current bodies of `powerlaw_sample` and
`powerlaw_mle_alpha` on every run (the uniform draws of `np.random.rand` are the parameter `r`). -/

/-- `powerlaw_sample` of the current source, over the reals: one value per draw, each an integer ≥ xmin
    (for integer xmin ≥ 1, α > 1, draws in [0, 1)) -/
theorem C17_source_powerlaw_sample (xmin : ℕ) (hx : 1 ≤ xmin) (α : ℝ) (hα : 1 < α) (r : List ℝ)
    (hr : ∀ x ∈ r, 0 ≤ x ∧ x < 1) :
    (Generated.powerlaw_sample r xmin α).length = r.length ∧
      ∀ v ∈ Generated.powerlaw_sample r xmin α, ∃ k : ℤ, v = k ∧ (xmin : ℤ) ≤ k := by
  refine ⟨gen_powerlaw_sample_length r xmin α, ?_⟩
  intro v hv
  obtain ⟨x, hxr, rfl⟩ := (gen_powerlaw_sample_mem r xmin α v).1 hv
  exact ⟨_, rfl, C17_powerlaw_ge_xmin xmin hx α x hα (hr x hxr).1 (hr x hxr).2⟩

/-- the 'simple' branch of `powerlaw_mle_alpha` of the current source is 1 + n / Σ ln(c/cmin) over the counts ≥ cmin … -/
theorem C17_source_mle_simple (c : List ℝ) (cmin : ℝ) :
    Generated.powerlaw_mle_alpha_simple c cmin
      = 1 + ((kept c cmin).length : ℝ) / ((kept c cmin).map fun x => Real.log (x / cmin)).sum :=
  gen_mle_simple_eq c cmin

/-- … the 'continuitycorrection' branch replaces cmin by cmin − ½ inside the logarithm … -/
theorem C17_source_mle_continuitycorrection (c : List ℝ) (cmin : ℝ) :
    Generated.powerlaw_mle_alpha_continuitycorrection c cmin
      = 1 + ((kept c cmin).length : ℝ) / ((kept c cmin).map fun x => Real.log (x / (cmin - 1/2))).sum :=
  gen_mle_cc_eq c cmin

/-- … and the 'simple' value is the unique stationary point of the continuous log-likelihood of the kept counts -/
theorem C17_source_mle_simple_stationary (c : List ℝ) (cmin : ℝ) (hn : 0 < (kept c cmin).length)
    (hS : 0 < ((kept c cmin).map fun x => Real.log (x / cmin)).sum) (α : ℝ) (hα : 1 < α) :
    ((kept c cmin).length : ℝ) / (α - 1) - ((kept c cmin).map fun x => Real.log (x / cmin)).sum = 0
      ↔ α = Generated.powerlaw_mle_alpha_simple c cmin := by
  rw [C17_source_mle_simple]
  exact C17_mle_simple_stationary _ _ hn hS α hα

/-! ### `downsample` of one flat collection, as re-translated from pyrepseq/distance.py on this run (NumPy's
`random.choice(a, m, replace=False)` is a function parameter, assumed to return m elements none more often than in a) -/

/-- the translated body meets the model relation for every collection and every `maxseqs` (a number or None) … -/
theorem C17_source_downsample {β : Type} [DecidableEq β] (choice : List β → Nat → List β) (hc : ChoiceOk choice)
    (xs : List β) (m : ℕ) :
    IsDownsample xs (some m) (Generated.downsample choice xs m) ∧
      IsDownsample xs none (Generated.downsample_none choice xs) :=
  ⟨gen_downsample_ok choice hc xs m, gen_downsample_none choice xs⟩

/-- … so its result is the input itself when that has at most `maxseqs` elements (whatever the random source does), and otherwise
exactly `maxseqs` elements forming a sub-multiset of the input -/
theorem C17_source_downsample_contract {β : Type} [DecidableEq β] (choice : List β → Nat → List β) (hc : ChoiceOk choice)
    (xs : List β) (m : ℕ) :
    (xs.length ≤ m → Generated.downsample choice xs m = xs) ∧
    (m < xs.length → (Generated.downsample choice xs m).length = m) ∧
    (Generated.downsample choice xs m).Subperm xs := by
  refine ⟨gen_downsample_short choice xs m, fun h => ?_, ?_⟩
  · exact (C17_downsample_size xs _ m h (gen_downsample_ok choice hc xs m)).1
  · exact C17_downsample_subperm xs _ (some m) (gen_downsample_ok choice hc xs m)

/-- non-vacuity: `List.take` is such a choice function -/
example : ChoiceOk (fun (l : List ℕ) m => l.take m) := by
  intro l m h
  refine ⟨by simp; omega, fun v => ?_⟩
  exact (List.take_sublist m l).count_le v

/-! ### `method="exact"`: what the optimiser is given (SciPy's `zeta` and `minimize_scalar` are external: `zeta` is a parameter here, the
optimiser's answer is checked numerically by the correspondence) -/

/-- `_discrete_loglikelihood` of the current source is −n·ln ζ(α, xmin) − α·Σ ln c over the counts ≥ xmin … -/
theorem C17_source_loglik (zeta : ℝ → ℝ → ℝ) (c : List ℝ) (α cmin : ℝ) :
    Generated.discrete_loglikelihood zeta c α cmin
      = -((kept c cmin).length : ℝ) * Real.log (zeta α cmin) - α * ((kept c cmin).map Real.log).sum :=
  gen_loglik_eq zeta c α cmin

/-- … which is the log-likelihood of those counts under the discrete power law p(v) = v^(−α) / ζ(α, cmin) (any positive normaliser) -/
theorem C17_source_loglik_is_loglikelihood (zeta : ℝ → ℝ → ℝ) (c : List ℝ) (α cmin : ℝ) (hc : 0 < cmin) (hZ : 0 < zeta α cmin) :
    Generated.discrete_loglikelihood zeta c α cmin
      = ((kept c cmin).map fun v => Real.log (v ^ (-α) / zeta α cmin)).sum := by
  rw [gen_loglik_eq]; exact discreteLogLik_eq_sum_log_pmf zeta c α cmin hc hZ

/-- hence an exponent that maximises the translated objective over the bounds maximises the likelihood (the product of the
probability masses of the kept counts) over the same bounds -/
theorem C17_source_exact_maximiser (zeta : ℝ → ℝ → ℝ) (c : List ℝ) (cmin lo hi a : ℝ) (hc : 0 < cmin)
    (hZ : ∀ α, lo ≤ α → α ≤ hi → 0 < zeta α cmin) (ha : lo ≤ a ∧ a ≤ hi)
    (hmax : ∀ α, lo ≤ α → α ≤ hi →
      Generated.discrete_loglikelihood zeta c α cmin ≤ Generated.discrete_loglikelihood zeta c a cmin) :
    ∀ α, lo ≤ α → α ≤ hi →
      ((kept c cmin).map fun v => v ^ (-α) / zeta α cmin).prod ≤ ((kept c cmin).map fun v => v ^ (-a) / zeta a cmin).prod := by
  intro α h1 h2
  rw [likelihood_eq_exp_logLik zeta c α cmin hc (hZ α h1 h2), likelihood_eq_exp_logLik zeta c a cmin hc (hZ a ha.1 ha.2)]
  have := hmax α h1 h2
  rw [gen_loglik_eq, gen_loglik_eq] at this
  exact Real.exp_le_exp.mpr this

/-- non-vacuity: a draw list meeting the hypotheses -/
example : ∀ x ∈ ([0, 1/2, 3/4] : List ℝ), 0 ≤ x ∧ x < 1 := by
  intro x hx
  simp only [List.mem_cons, List.not_mem_nil, or_false] at hx
  rcases hx with rfl | rfl | rfl <;> norm_num

end Prs
