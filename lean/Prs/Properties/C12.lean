/-
Properties/C12.lean — the one-edit generators and the set utilities built on them are exact.
`A` is the alphabet argument (any duplicate-free list of letters, 1..20 letters or more).
"Over the alphabet" is the guard `∀ c ∈ y, c ∈ A`: a distance-1 string using a letter outside A is
not generated and is not claimed.
-/
import Prs.Proofs.NeighborUtils
import Prs.Proofs.NeighborLoops3
namespace Prs
variable {α : Type} [DecidableEq α]

/-- levenshtein_neighbors(x, A) yields exactly the strings over A at Levenshtein distance 1 -/
theorem C12_lev_exact (A : List α) (x y : List α) (hy : ∀ c ∈ y, c ∈ A) :
    y ∈ levNeighbors A x ↔ lev x y = 1 := levNeighbors_exact A x y hy

/-- … characterised without any guard: one deletion, one substitution by a different letter of A,
or one insertion of a letter of A -/
theorem C12_lev_mem (A : List α) (x y : List α) : y ∈ levNeighbors A x ↔ Step A x y :=
  mem_levNeighbors A x y

/-- … each exactly once: the run-skipping rules (deletions inside a run, insertion of the preceding
letter, identity substitution) remove exactly the duplicates -/
theorem C12_lev_nodup (A : List α) (hA : A.Nodup) (x : List α) : (levNeighbors A x).Nodup :=
  levNeighbors_nodup A hA x

theorem C12_lev_not_self (A : List α) (x : List α) : x ∉ levNeighbors A x :=
  levNeighbors_not_self A x

/-- hamming_neighbors: exactly the strings over A differing from x in one position, each once -/
theorem C12_ham_exact (A : List α) (x y : List α) (hy : ∀ c ∈ y, c ∈ A) :
    y ∈ hamNeighbors A x ↔ ham x y = some 1 := mem_hamNeighbors A x y hy

theorem C12_ham_nodup (A : List α) (hA : A.Nodup) (x : List α) : (hamNeighbors A x).Nodup :=
  hamNeighbors_nodup A hA x

/-- with `variable_positions`: one substitution at one of the permitted positions, each once -/
theorem C12_ham_positions (A : List α) (pos : List Nat) (x y : List α) :
    y ∈ hamNeighborsAt A pos x ↔
      ∃ i ∈ pos, ∃ c a, x[i]? = some c ∧ a ∈ A ∧ a ≠ c ∧ y = x.set i a :=
  mem_hamNeighborsAt A pos x y

theorem C12_ham_positions_nodup (A : List α) (pos : List Nat) (x : List α) (hA : A.Nodup)
    (hp : pos.Nodup) : (hamNeighborsAt A pos x).Nodup := hamNeighborsAt_nodup A pos x hA hp

/-- next_nearest_neighbors: every string over A within maxdistance edits except x itself, once -/
theorem C12_next_nearest (A : List α) (x y : List α) (d : Nat) (hd : 1 ≤ d)
    (hy : ∀ c ∈ y, c ∈ A) :
    y ∈ nextNearest (levNeighbors A) x d ↔ y ≠ x ∧ lev x y ≤ d := mem_nextNearest_lev A x y d hd hy

theorem C12_next_nearest_nodup (A : List α) (x : List α) (d : Nat) :
    (nextNearest (levNeighbors A) x d).Nodup := nextNearest_nodup _ x d

/-- find_neighbor_pairs: each unordered distance-1 pair of distinct sequences exactly once -/
theorem C12_pairs_once (A : List α) (order : List (List α)) (hnd : order.Nodup)
    (hA : ∀ s ∈ order, ∀ c ∈ s, c ∈ A) (a b : List α) (ha : a ∈ order) (hb : b ∈ order)
    (h1 : lev a b = 1) :
    ((a, b) ∈ findNeighborPairs (levNeighbors A) order ∧
        (b, a) ∉ findNeighborPairs (levNeighbors A) order) ∨
    ((b, a) ∈ findNeighborPairs (levNeighbors A) order ∧
        (a, b) ∉ findNeighborPairs (levNeighbors A) order) :=
  findNeighborPairs_lev_once A order hnd hA a b ha hb h1

theorem C12_pairs_sound (A : List α) (order : List (List α))
    (hA : ∀ s ∈ order, ∀ c ∈ s, c ∈ A) (a b : List α)
    (h : (a, b) ∈ findNeighborPairs (levNeighbors A) order) :
    a ∈ order ∧ b ∈ order ∧ lev a b = 1 := findNeighborPairs_lev_sound A order hA a b h

theorem C12_pairs_nodup (A : List α) (order : List (List α)) (hnd : order.Nodup) :
    (findNeighborPairs (levNeighbors A) order).Nodup := findNeighborPairs_nodup _ order hnd

/-- find_neighbor_pairs_index on unique sequences: exactly the ordered position pairs at distance 1 -/
theorem C12_pairs_index (A : List α) (xs : List (List α)) (hnd : xs.Nodup)
    (hA : ∀ s ∈ xs, ∀ c ∈ s, c ∈ A) (i j : Nat) :
    (i, j) ∈ findNeighborPairsIndex (levNeighbors A) xs ↔
      ∃ a b, xs[i]? = some a ∧ xs[j]? = some b ∧ lev a b = 1 := by
  rw [mem_findNeighborPairsIndex _ xs hnd]
  constructor
  · rintro ⟨a, b, ha, hb, h⟩
    exact ⟨a, b, ha, hb, (levNeighbors_exact A a b (hA b (List.mem_of_getElem? hb))).1 h⟩
  · rintro ⟨a, b, ha, hb, h⟩
    exact ⟨a, b, ha, hb, (levNeighbors_exact A a b (hA b (List.mem_of_getElem? hb))).2 h⟩

/-- calculate_neighbor_numbers: the number of distance-1 partners in the reference set -/
theorem C12_neighbor_numbers (A : List α) (xs ref : List (List α))
    (hA : ∀ s ∈ ref, ∀ c ∈ s, c ∈ A) (hnd : ref.Nodup) (i : Nat) (a : List α)
    (ha : xs[i]? = some a) :
    (neighborNumbers (levNeighbors A) xs (some ref))[i]? =
      some (ref.filter (fun r => lev a r = 1)).length := neighborNumbers_lev A xs ref hA hnd i a ha

/-- isdist1 is true iff a distance-1 reference exists -/
theorem C12_isdist1 (A : List α) (x : List α) (ref : List (List α))
    (hA : ∀ s ∈ ref, ∀ c ∈ s, c ∈ A) :
    isdist1 (levNeighbors A) x ref = true ↔ ∃ r ∈ ref, lev x r = 1 := isdist1_lev A x ref hA

/-- the nested enumerations `_isdist2_hamming` / `_isdist3_hamming` -/
theorem C12_isdist_ham (A : List α) (n : Nat) (x : List α) (ref : List (List α))
    (hA : ∀ s ∈ ref, ∀ c ∈ s, c ∈ A) :
    isdistHam A n x ref = true ↔ ∃ r ∈ ref, ham x r = some n := isdistHam_iff A n x ref hA

/-- nndist_hamming returns min(true nearest Hamming distance, maxdist) for maxdist 1..4 -/
theorem C12_nndist (A : List α) (seq : List α) (ref : List (List α)) (m : Nat)
    (hm1 : 1 ≤ m) (hm4 : m ≤ 4) (hA : ∀ s ∈ ref, ∀ c ∈ s, c ∈ A) :
    ∃ d, nndistHamming A seq ref m = some d ∧ d ≤ m ∧
      (d < m → ∃ r ∈ ref, ham seq r = some d) ∧
      (∀ r ∈ ref, ∀ e, ham seq r = some e → d ≤ e) := nndistHamming_spec A seq ref m hm1 hm4 hA

theorem C12_nndist_not_implemented (A : List α) (seq : List α) (ref : List (List α)) (m : Nat)
    (h : 4 < m) : nndistHamming A seq ref m = none := nndistHamming_not_implemented A seq ref m h

/-! non-vacuity: a homopolymer run (the duplicate-suppression cases) -/
example : ['A', 'A'] ∈ levNeighbors ['A', 'C'] ['A', 'A', 'A'] :=
  (C12_lev_exact ['A', 'C'] _ _ (by decide)).2 (by simp [lev])
example : (levNeighbors ['A', 'C'] ['A', 'A', 'C']).length = 10 := by decide

/-! ### the sources, as translated from pyrepseq/distance.py on this run, are the models

`Generated/NeighborLoops.lean` is rewritten by `tools/gen_loops.py` from the current source on every run: the loops,
slice bounds, skip conditions and return values below are the ones the Python functions contain now. -/
section source
variable [Inhabited α]

/-- `levenshtein_neighbors(x, alphabet=A)`: the three index loops yield the modelled list, in the same order -/
theorem C12_source_levenshtein_neighbors (A x : List α) :
    Generated.levenshtein_neighbors x A = levNeighbors A x := gen_levenshtein_neighbors_eq A x

/-- `hamming_neighbors(x, alphabet=A)` (all positions) -/
theorem C12_source_hamming_neighbors (A x : List α) :
    Generated.hamming_neighbors x A none = hamNeighbors A x := gen_hamming_neighbors_eq A x

/-- `hamming_neighbors(x, alphabet=A, variable_positions=pos)` for positions inside the string -/
theorem C12_source_hamming_neighbors_at (A x : List α) (pos : List Nat) (h : ∀ p ∈ pos, p < x.length) :
    Generated.hamming_neighbors x A (some (pos.map fun p : Nat => (p : Int))) = hamNeighborsAt A pos x :=
  gen_hamming_neighbors_at_eq A x pos h

theorem C12_source_isdist1 (nb : List α → List (List α)) (x : List α) (ref : List (List α)) :
    Generated.isdist1 x ref nb = isdist1 nb x ref := gen_isdist1_eq nb x ref

/-- the doubly / triply nested loops of `_isdist2_hamming` / `_isdist3_hamming` -/
theorem C12_source_isdist2_hamming (A x : List α) (ref : List (List α)) :
    Generated.isdist2_hamming x ref A = isdistHam A 2 x ref := gen_isdist2_eq A x ref
theorem C12_source_isdist3_hamming (A x : List α) (ref : List (List α)) :
    Generated.isdist3_hamming x ref A = isdistHam A 3 x ref := gen_isdist3_eq A x ref

/-- the decision chain of `nndist_hamming` (`none` = NotImplementedError) -/
theorem C12_source_nndist_hamming (A seq : List α) (ref : List (List α)) (m : Nat) :
    Generated.nndist_hamming seq ref (m : Int) A = nndistHamming A seq ref m := gen_nndist_hamming_eq A seq ref m

/-- transported: what the source's generator yields is exactly the set of strings at Levenshtein distance 1 … -/
theorem C12_source_lev_exact (A : List α) (x y : List α) (hy : ∀ c ∈ y, c ∈ A) :
    y ∈ Generated.levenshtein_neighbors x A ↔ lev x y = 1 := by
  rw [C12_source_levenshtein_neighbors]; exact C12_lev_exact A x y hy

/-- … and what the source's `nndist_hamming` returns is min(true nearest Hamming distance, maxdist) for maxdist 1..4 -/
theorem C12_source_nndist (A : List α) (seq : List α) (ref : List (List α)) (m : Nat)
    (hm1 : 1 ≤ m) (hm4 : m ≤ 4) (hA : ∀ s ∈ ref, ∀ c ∈ s, c ∈ A) :
    ∃ d, Generated.nndist_hamming seq ref (m : Int) A = some d ∧ d ≤ m ∧
      (d < m → ∃ r ∈ ref, ham seq r = some d) ∧
      (∀ r ∈ ref, ∀ e, ham seq r = some e → d ≤ e) := by
  rw [C12_source_nndist_hamming]; exact C12_nndist A seq ref m hm1 hm4 hA

/-- `calculate_neighbor_numbers(seqs, reference, neighborhood)`: the comprehension of the source is the modelled count list
    (`reference = none` is the default `set(seqs)`) -/
theorem C12_source_calculate_neighbor_numbers (nb : List α → List (List α)) (xs : List (List α))
    (ref : Option (List (List α))) :
    Generated.calculate_neighbor_numbers xs ref nb = (neighborNumbers nb xs ref).map fun n : Nat => (n : Int) :=
  gen_neighbor_numbers_eq nb xs ref

/-- `find_neighbor_pairs_index(seqs, neighborhood)`: the appended pairs of the source are the modelled ones, in order
    (a set is iterated in the order of first occurrence) -/
theorem C12_source_find_neighbor_pairs_index (nb : List α → List (List α)) (xs : List (List α)) :
    Generated.find_neighbor_pairs_index xs nb
      = (findNeighborPairsIndex nb xs).map fun p : Nat × Nat => ((p.1 : Int), (p.2 : Int)) :=
  gen_pairs_index_eq nb xs

example : Generated.levenshtein_neighbors ['A', 'A', 'C'] ['A', 'C'] = levNeighbors ['A', 'C'] ['A', 'A', 'C'] :=
  C12_source_levenshtein_neighbors _ _
end source

end Prs
