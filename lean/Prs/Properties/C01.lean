/-
Properties/C01.lean — default neighbour search (nearest_neighbor → symdel) is exact.
Only property theorems and non-vacuity examples live here; helper lemmas are in Proofs/.
-/
import Prs.Proofs.Symdel
import Prs.Proofs.LevDP
import Prs.Model.Engines
namespace Prs
variable {α : Type} [DecidableEq α]

/-- EXACTNESS, for every alphabet, every list of strings (empty strings, duplicates, strings shorter
than k included) and every k: a triplet is reported iff it is an ordered pair of distinct positions
within Levenshtein distance k, carrying exactly that distance. -/
theorem C01_exact (k : Nat) (xs : List (List α)) (i j d : Nat) :
    (i, j, d) ∈ symdelDefault k xs ↔
      ∃ a b, i ≠ j ∧ xs[i]? = some a ∧ xs[j]? = some b ∧ lev a b ≤ k ∧ d = lev a b := by
  unfold symdelDefault
  rw [symdelSelf_exact]
  · simp only [SelfPairs, levScore]
    constructor
    · rintro ⟨a, b, hne, ha, hb, hs⟩
      refine ⟨a, b, hne, ha, hb, ?_⟩
      split at hs
      · simp only [Option.some.injEq] at hs; exact ⟨by assumption, hs.symm⟩
      · cases hs
    · rintro ⟨a, b, hne, ha, hb, hk, rfl⟩
      exact ⟨a, b, hne, ha, hb, by simp [hk]⟩
  · intro a b; simp only [levScore, lev_comm a b]
  · intro a b d hs
    simp only [levScore] at hs
    split at hs
    · exact symdel_complete k a b (by assumption)
    · cases hs

/-- no triplet is repeated -/
theorem C01_nodup (k : Nat) (xs : List (List α)) : (symdelDefault k xs).Nodup :=
  symdelSelf_nodup _ _ _

/-- a position is never its own neighbour -/
theorem C01_no_self (k : Nat) (xs : List (List α)) (i j d : Nat)
    (h : (i, j, d) ∈ symdelDefault k xs) : i ≠ j := by
  obtain ⟨_, _, hne, _⟩ := (C01_exact k xs i j d).1 h
  exact hne

/-- equal sequences at different positions are neighbours at distance 0 -/
theorem C01_duplicates_at_zero (k : Nat) (xs : List (List α)) (i j : Nat) (a : List α)
    (hne : i ≠ j) (hi : xs[i]? = some a) (hj : xs[j]? = some a) :
    (i, j, 0) ∈ symdelDefault k xs :=
  (C01_exact k xs i j 0).2 ⟨a, a, hne, hi, hj, by simp [lev_self], by simp [lev_self]⟩

/-- both orientations are reported -/
theorem C01_symmetric (k : Nat) (xs : List (List α)) (i j d : Nat)
    (h : (i, j, d) ∈ symdelDefault k xs) : (j, i, d) ∈ symdelDefault k xs := by
  obtain ⟨a, b, hne, ha, hb, hk, hd⟩ := (C01_exact k xs i j d).1 h
  exact (C01_exact k xs j i d).2 ⟨b, a, hne.symm, hb, ha, by rwa [lev_comm], by rwa [lev_comm]⟩

/-- the executable brute-force oracle used by the failing-input search is the specification -/
theorem C01_oracle_is_spec (k : Nat) (xs : List (List α)) (i j d : Nat) :
    (i, j, d) ∈ bruteSelf (levScore k) xs ↔
      ∃ a b, i ≠ j ∧ xs[i]? = some a ∧ xs[j]? = some b ∧ lev a b ≤ k ∧ d = lev a b := by
  simp only [bruteSelf, List.mem_flatMap, List.mem_filterMap, List.mem_zipIdx_iff_getElem?, levScore]
  constructor
  · rintro ⟨⟨a, i'⟩, ha, ⟨b, j'⟩, hb, h⟩
    simp only at ha hb h
    split at h
    · cases h
    · split at h
      · simp only [Option.map_some, Option.some.injEq, Prod.mk.injEq] at h
        obtain ⟨rfl, rfl, rfl⟩ := h
        exact ⟨a, b, by assumption, ha, hb, by assumption, rfl⟩
      · cases h
  · rintro ⟨a, b, hne, ha, hb, hk, rfl⟩
    exact ⟨(a, i), ha, (b, j), hb, by simp [hne, hk]⟩

/-- the driver's dynamic programme is the recursive specification (no length bound) -/
theorem C01_levDP (a b : List α) : levDP a b = lev a b := levDP_eq_lev a b

/-! non-vacuity: an indel pair, an empty string with k larger than every string, duplicates,
a transposition (distance 2) that must NOT be reported at k = 1 -/
example : (0, 1, 1) ∈ symdelDefault 1 [['A', 'B'], ['B']] :=
  (C01_exact 1 _ 0 1 1).2 ⟨['A', 'B'], ['B'], by decide, rfl, rfl, by simp [lev], by simp [lev]⟩
example : (1, 0, 2) ∈ symdelDefault 5 [[], ['A', 'B']] :=
  (C01_exact 5 _ 1 0 2).2 ⟨['A', 'B'], [], by decide, rfl, rfl, by simp [lev], by simp [lev]⟩
example : (0, 2, 0) ∈ symdelDefault 1 [['A', 'B'], [], ['A', 'B']] :=
  C01_duplicates_at_zero 1 _ 0 2 ['A', 'B'] (by decide) rfl rfl
example : (0, 1, 2) ∉ symdelDefault 1 [['A', 'B'], ['B', 'A']] := by
  intro h
  obtain ⟨a, b, _, ha, hb, hk, _⟩ := (C01_exact 1 _ 0 1 2).1 h
  simp only [List.getElem?_cons_zero, List.getElem?_cons_succ, Option.some.injEq] at ha hb
  subst ha hb
  simp [lev] at hk

end Prs
