/-
Properties/C09.lean — the TCR Levenshtein metrics are the stated weighted sum.
`tcrDist cs ds w r1 r2` models one entry of `TcrLevenshtein.calc_cdist_matrix` for the class with
chain scope `cs` (paired / alpha / beta) and CDR scope `ds` (all loops / CDR3 only): the sum over
the columns of `_get_columns_to_compare` of (chain weight × cdr weight, selected by substring tests
on the column NAME) × weighted Levenshtein distance of the two column values.
NOT covered by a theorem: the CDR1 / CDR2 strings of a V allele come from tidytcells (external);
a row here already carries them.
Only property theorems and non-vacuity examples live here; helper lemmas are in Proofs/.
-/
import Prs.Proofs.Tcr
import Prs.Generated.TcrClasses
namespace Prs

/-- the substring rule picks exactly the intended weights on each of the six column names -/
theorem C09_column_weights (w : TcrWeights) :
    columnWeight w "CDR1A" = w.alphaW * w.cdr1W ∧ columnWeight w "CDR2A" = w.alphaW * w.cdr2W ∧
    columnWeight w "CDR3A" = w.alphaW * w.cdr3W ∧ columnWeight w "CDR1B" = w.betaW * w.cdr1W ∧
    columnWeight w "CDR2B" = w.betaW * w.cdr2W ∧ columnWeight w "CDR3B" = w.betaW * w.cdr3W :=
  columnWeight_table w

/-- the compared columns of each of the six classes, in the order of `itertools.product` -/
theorem C09_columns :
    columnsToCompare .paired .all = ["CDR3A", "CDR3B", "CDR1A", "CDR1B", "CDR2A", "CDR2B"] ∧
    columnsToCompare .alpha .all = ["CDR3A", "CDR1A", "CDR2A"] ∧
    columnsToCompare .beta .all = ["CDR3B", "CDR1B", "CDR2B"] ∧
    columnsToCompare .paired .cdr3 = ["CDR3A", "CDR3B"] ∧
    columnsToCompare .alpha .cdr3 = ["CDR3A"] ∧
    columnsToCompare .beta .cdr3 = ["CDR3B"] :=
  columnsToCompare_table

/-- TcrLevenshtein: the value is the stated sum over both chains and all three loops -/
theorem C09_sum_paired_all (w : TcrWeights) (r1 r2 : TcrRow) :
    tcrDist .paired .all w r1 r2 =
      w.alphaW * w.cdr3W * wlev w.wi w.wd w.ws r1.cdr3a r2.cdr3a +
      w.betaW * w.cdr3W * wlev w.wi w.wd w.ws r1.cdr3b r2.cdr3b +
      w.alphaW * w.cdr1W * wlev w.wi w.wd w.ws r1.cdr1a r2.cdr1a +
      w.betaW * w.cdr1W * wlev w.wi w.wd w.ws r1.cdr1b r2.cdr1b +
      w.alphaW * w.cdr2W * wlev w.wi w.wd w.ws r1.cdr2a r2.cdr2a +
      w.betaW * w.cdr2W * wlev w.wi w.wd w.ws r1.cdr2b r2.cdr2b :=
  tcrDist_paired_all w r1 r2

/-- Cdr3Levenshtein -/
theorem C09_sum_paired_cdr3 (w : TcrWeights) (r1 r2 : TcrRow) :
    tcrDist .paired .cdr3 w r1 r2 =
      w.alphaW * w.cdr3W * wlev w.wi w.wd w.ws r1.cdr3a r2.cdr3a +
      w.betaW * w.cdr3W * wlev w.wi w.wd w.ws r1.cdr3b r2.cdr3b :=
  tcrDist_paired_cdr3 w r1 r2

/-- AlphaCdr3Levenshtein -/
theorem C09_sum_alpha_cdr3 (w : TcrWeights) (r1 r2 : TcrRow) :
    tcrDist .alpha .cdr3 w r1 r2 =
      w.alphaW * w.cdr3W * wlev w.wi w.wd w.ws r1.cdr3a r2.cdr3a :=
  tcrDist_alpha_cdr3 w r1 r2

/-- BetaCdr3Levenshtein -/
theorem C09_sum_beta_cdr3 (w : TcrWeights) (r1 r2 : TcrRow) :
    tcrDist .beta .cdr3 w r1 r2 =
      w.betaW * w.cdr3W * wlev w.wi w.wd w.ws r1.cdr3b r2.cdr3b :=
  tcrDist_beta_cdr3 w r1 r2

/-- AlphaCdrLevenshtein -/
theorem C09_sum_alpha_all (w : TcrWeights) (r1 r2 : TcrRow) :
    tcrDist .alpha .all w r1 r2 =
      w.alphaW * w.cdr3W * wlev w.wi w.wd w.ws r1.cdr3a r2.cdr3a +
      w.alphaW * w.cdr1W * wlev w.wi w.wd w.ws r1.cdr1a r2.cdr1a +
      w.alphaW * w.cdr2W * wlev w.wi w.wd w.ws r1.cdr2a r2.cdr2a :=
  tcrDist_alpha_all w r1 r2

/-- BetaCdrLevenshtein -/
theorem C09_sum_beta_all (w : TcrWeights) (r1 r2 : TcrRow) :
    tcrDist .beta .all w r1 r2 =
      w.betaW * w.cdr3W * wlev w.wi w.wd w.ws r1.cdr3b r2.cdr3b +
      w.betaW * w.cdr1W * wlev w.wi w.wd w.ws r1.cdr1b r2.cdr1b +
      w.betaW * w.cdr2W * wlev w.wi w.wd w.ws r1.cdr2b r2.cdr2b :=
  tcrDist_beta_all w r1 r2

/-- Cdr3Levenshtein(alpha_weight, beta_weight) = alpha_weight · AlphaCdr3 + beta_weight · BetaCdr3
(the single-chain classes have unit chain weights) -/
theorem C09_additive_cdr3 (w : TcrWeights) (r1 r2 : TcrRow) :
    tcrDist .paired .cdr3 w r1 r2 =
      w.alphaW * tcrDist .alpha .cdr3 {w with alphaW := 1, betaW := 1} r1 r2 +
      w.betaW * tcrDist .beta .cdr3 {w with alphaW := 1, betaW := 1} r1 r2 :=
  tcrDist_additive_cdr3 w r1 r2

/-- TcrLevenshtein(alpha_weight, beta_weight) = alpha_weight · AlphaCdr + beta_weight · BetaCdr -/
theorem C09_additive_all (w : TcrWeights) (r1 r2 : TcrRow) :
    tcrDist .paired .all w r1 r2 =
      w.alphaW * tcrDist .alpha .all {w with alphaW := 1, betaW := 1} r1 r2 +
      w.betaW * tcrDist .beta .all {w with alphaW := 1, betaW := 1} r1 r2 :=
  tcrDist_additive_all w r1 r2

/-- unit weights: the plain sum of Levenshtein distances -/
theorem C09_unit (r1 r2 : TcrRow) :
    tcrDist .paired .cdr3 {} r1 r2 = lev r1.cdr3a r2.cdr3a + lev r1.cdr3b r2.cdr3b :=
  tcrDist_unit r1 r2

/-- entry [i][j] of the matrix depends only on the two rows as[i], bs[j] -/
theorem C09_row_local (cs : ChainScope) (ds : CdrScope) (w : TcrWeights) (as bs : List TcrRow)
    (i j : Nat) (a b : TcrRow) (ha : as[i]? = some a) (hb : bs[j]? = some b) :
    ((tcrCdist cs ds w as bs)[i]?.bind (·[j]?)) = some (tcrDist cs ds w a b) :=
  tcrCdist_entry cs ds w as bs i j a b ha hb

/-- invariance under consistent re-indexing (reordering, subsetting, repetition): if the tables are
re-indexed by lists of in-range positions `p`, `q`, then entry [i][j] of the new matrix is entry
[p[i]][q[j]] of the old one -/
theorem C09_perm_invariant (cs : ChainScope) (ds : CdrScope) (w : TcrWeights)
    (as bs : List TcrRow) (p q : List Nat) (hp : ∀ k ∈ p, k < as.length)
    (hq : ∀ k ∈ q, k < bs.length) (i j pi qj : Nat) (hi : p[i]? = some pi)
    (hj : q[j]? = some qj) :
    ((tcrCdist cs ds w (p.filterMap (as[·]?)) (q.filterMap (bs[·]?)))[i]?.bind (·[j]?)) =
      ((tcrCdist cs ds w as bs)[pi]?.bind (·[qj]?)) :=
  tcrCdist_reindex cs ds w as bs p q hp hq i j pi qj hi hj

/-- `calc_pdist_vector` is the condensed form of the square matrix -/
theorem C09_pdist (cs : ChainScope) (ds : CdrScope) (w : TcrWeights) (xs : List TcrRow) :
    tcrPdist cs ds w xs = condensed (tcrCdist cs ds w xs xs) :=
  tcrPdist_eq cs ds w xs

/-- for i < j the distance from xs[i] to xs[j] sits at SciPy's condensed index -/
theorem C09_pdist_index (cs : ChainScope) (ds : CdrScope) (w : TcrWeights) (xs : List TcrRow)
    (i j : Nat) (a b : TcrRow) (hij : i < j) (ha : xs[i]? = some a) (hb : xs[j]? = some b) :
    (tcrPdist cs ds w xs)[condensedIndex xs.length i j]? = some (tcrDist cs ds w a b) :=
  tcrPdist_index cs ds w xs i j a b hij ha hb

/-- a non-DataFrame is rejected, and so is a DataFrame without any TCR column -/
theorem C09_reject (cols : List String) :
    isStandardFormat false cols = false ∧
    ((∀ c ∈ cols, c ∉ ["TRAV", "CDR3A", "TRAJ", "TRBV", "CDR3B", "TRBJ"]) →
      isStandardFormat true cols = false) := by
  refine ⟨rfl, fun h => ?_⟩
  rw [← Bool.not_eq_true, isStandardFormat_iff]
  rintro ⟨_, c, hc, hm⟩
  exact h c hc hm

/-- a DataFrame with at least one TCR column is accepted -/
theorem C09_accept (cols : List String) (c : String) (hc : c ∈ cols)
    (h : c ∈ ["TRAV", "CDR3A", "TRAJ", "TRBV", "CDR3B", "TRBJ"]) :
    isStandardFormat true cols = true :=
  (isStandardFormat_iff true cols).2 ⟨rfl, c, hc, h⟩

/-- with equal insertion and deletion weights every metric of the family is symmetric -/
theorem C09_symmetric (cs : ChainScope) (ds : CdrScope) (w : TcrWeights) (r1 r2 : TcrRow)
    (h : w.wi = w.wd) : tcrDist cs ds w r1 r2 = tcrDist cs ds w r2 r1 :=
  tcrDist_symm cs ds w r1 r2 h

/-- a row is at distance 0 from itself -/
theorem C09_self (cs : ChainScope) (ds : CdrScope) (w : TcrWeights) (r : TcrRow) :
    tcrDist cs ds w r r = 0 :=
  tcrDist_self cs ds w r

/-! non-vacuity: alpha weight 2, beta weight 3, CDR3 only: one substitution in each chain gives
2·1 + 3·1 = 5; a missing CDR1 ("" for the allele) costs the full length of the other; swapping the
two rows of a table moves the entry -/
example : tcrDist .paired .cdr3 { alphaW := 2, betaW := 3 }
    ⟨[], [], ['C', 'A'], [], [], ['C', 'S']⟩ ⟨[], [], ['C', 'G'], [], [], ['C', 'T']⟩ = 5 := by
  rw [C09_sum_paired_cdr3]; simp [wlev]
example : tcrDist .alpha .all {} ⟨[], [], ['C'], [], [], []⟩ ⟨['T', 'S'], [], ['C'], [], [], []⟩ = 2 := by
  rw [C09_sum_alpha_all]; simp [wlev]
example : isStandardFormat true ["foo", "CDR3B"] = true :=
  C09_accept _ "CDR3B" (by decide) (by decide)
example : isStandardFormat true ["foo", "cdr3b"] = false :=
  (C09_reject _).2 (by decide)
example (a b : TcrRow) (w : TcrWeights) :
    ((tcrCdist .paired .all w ([1, 0].filterMap ([a, b][·]?)) ([0].filterMap ([a][·]?)))[0]?.bind
      (·[0]?)) = some (tcrDist .paired .all w b a) := by
  rw [C09_perm_invariant .paired .all w [a, b] [a] [1, 0] [0] (by simp) (by simp) 0 0 1 0 rfl rfl]
  exact C09_row_local .paired .all w [a, b] [a] 1 0 b a rfl rfl

/-! ### the source: the six public metric classes, as re-read from pyrepseq/metric/tcr_metric/tcr_levenshtein.py on every run
(`Generated/TcrClasses.lean`: `_chain_scope`, `_cdr_scope`, constructor defaults; sorted by class name) -/

/-- each public class compares the chains and CDRs its name says: these are the (cs, ds) the theorems above are instantiated at -/
theorem C09_source_classes :
    Generated.tcrClasses.map (fun c => (c.1, chainOfName c.2.1, cdrOfName c.2.2.1)) =
      [("AlphaCdr3Levenshtein", some .alpha, some .cdr3), ("AlphaCdrLevenshtein", some .alpha, some .all),
       ("BetaCdr3Levenshtein", some .beta, some .cdr3), ("BetaCdrLevenshtein", some .beta, some .all),
       ("Cdr3Levenshtein", some .paired, some .cdr3), ("CdrLevenshtein", some .paired, some .all)] := by
  decide +kernel

/-- every constructor exposes exactly the weights its scopes need (in any order), each defaulting to 1 — the unit weights of `C09_unit` -/
theorem C09_source_defaults :
    (Generated.tcrClasses.all fun c =>
      sameNames (c.2.2.2.2.map (·.1)) (expectedParams (chainOfName c.2.1) (cdrOfName c.2.2.1)) &&
      c.2.2.2.2.all fun d => d.2 == 1) = true := by
  decide +kernel

end Prs
