/-
Properties/C04.lean — hash_based and kdtree return exactly the neighbour set of the default search.
`A` is the alphabet the engines are built on (the 20 amino acids in the code); the theorems hold for
every alphabet, every list of strings over it (empty strings and duplicates included), every k and —
for kdtree — every compression c ≥ 1.
NOT covered by a theorem (see DESIGN.md, C04): that SciPy's ball query with the FLOAT radius
`np.sqrt(2) * k` returns every point at integer squared distance ≤ 2k²; `ballQuery` is the integer
predicate and the float behaviour is validated by the `kd_ball` correspondence operation.
-/
import Prs.Proofs.Engines
import Prs.Model.Radius
namespace Prs
variable {α : Type} [DecidableEq α]

/-- hash_based (LookupDB in pdist mode) is exact -/
theorem C04_hash_exact (A : List α) (xs : List (List α)) (k : Nat)
    (hA : ∀ s ∈ xs, ∀ c ∈ s, c ∈ A) (i j d : Nat) :
    (i, j, d) ∈ hashDefault A xs k ↔
      ∃ a b, i ≠ j ∧ xs[i]? = some a ∧ xs[j]? = some b ∧ lev a b ≤ k ∧ d = lev a b := by
  rw [hashDefault_iff A xs k hA, selfPairs_lev]

theorem C04_hash_nodup (A : List α) (xs : List (List α)) (k : Nat) : (hashDefault A xs k).Nodup := by
  unfold hashDefault lookupDefault
  exact lookupDB_nodup _ _ _ _ _ _ _

/-- kdtree is exact for every compression -/
theorem C04_kdtree_exact (A : List α) (c k : Nat) (hc : 1 ≤ c) (xs : List (List α))
    (hA : ∀ s ∈ xs, ∀ ch ∈ s, ch ∈ A) :
    ∃ ts, kdDefault A c k xs = some ts ∧ ts.Nodup ∧ ∀ i j d, (i, j, d) ∈ ts ↔
      ∃ a b, i ≠ j ∧ xs[i]? = some a ∧ xs[j]? = some b ∧ lev a b ≤ k ∧ d = lev a b := by
  obtain ⟨ts, h1, h2, h3⟩ := kdtreeSelf_levScore_exact A c k hc xs hA
  exact ⟨ts, h1, h2, fun i j d => by rw [h3, selfPairs_lev]⟩

/-- the composition-vector pre-filter is lossless: k edits move the (binned) letter-count vector by
at most √2·k, i.e. squared distance ≤ 2k² — for every binning (compression) -/
theorem C04_prefilter_lossless (A : List α) (c k : Nat) (hc : 1 ≤ c) (a b : List α)
    (ha : ∀ ch ∈ a, ch ∈ A) (hb : ∀ ch ∈ b, ch ∈ A) (u v : List Nat)
    (hu : histEncode A c a = some u) (hv : histEncode A c b = some v) (h : lev a b ≤ k) :
    sqdist u v ≤ 2 * k * k :=
  sqdist_histEncode_le A c k hc a b ha hb u v hu hv h

/-- a letter outside the alphabet is rejected (KeyError), never silently mis-binned -/
theorem C04_kdtree_rejects (A : List α) (c k : Nat) (xs : List (List α)) :
    kdDefault A c k xs = none ↔ ∃ s ∈ xs, ∃ ch ∈ s, ch ∉ A :=
  kdtreeSelf_none_iff A c k _ xs

/-- the three engines are interchangeable: same triplet set -/
theorem C04_engines_agree (A : List α) (c k : Nat) (hc : 1 ≤ c) (xs : List (List α))
    (hA : ∀ s ∈ xs, ∀ ch ∈ s, ch ∈ A) :
    ∃ ts, kdDefault A c k xs = some ts ∧
      ∀ t, (t ∈ ts ↔ t ∈ symdelDefault k xs) ∧ (t ∈ hashDefault A xs k ↔ t ∈ symdelDefault k xs) := by
  obtain ⟨ts, h1, _, h3⟩ := kdtreeSelf_levScore_exact A c k hc xs hA
  refine ⟨ts, h1, fun t => ⟨?_, ?_⟩⟩
  · rw [h3, symdelDefault_iff]
  · rw [hashDefault_iff A xs k hA, symdelDefault_iff]

/-! ### the floating-point radius

`C04_kdtree_exact` is about the integer predicate `sqdist ≤ 2k²`.  The code asks SciPy for the ball of
radius `np.sqrt(2) * max_edits`, a double, and SciPy compares squared distances with `r·r` in double
arithmetic.  Lean's kernel evaluates the same binary64 operations, so for every max_edits up to 128
the following is a theorem about the very numbers involved (not a test of SciPy): the boundary value
2k² — reached by k substitutions of one letter by one other letter — lies inside the computed ball.
Smaller squared distances are smaller doubles (monotonicity of `Float.ofNat`, trusted IEEE-754).
The expression is re-read from pyrepseq/nn.py on every run (`Generated.radiusExpr`); a mathematically
equal rewriting such as `np.sqrt(2 * max_edits ** 2)` changes the rounding and loses the boundary at
k = 3 (second example below). -/

/-- the radius expression in the source is the one modelled by `radius` -/
theorem C04_radius_source : Generated.radiusExpr = "np.sqrt(2) * max_edits" := by decide

/-- for every max_edits from 1 to 128 the computed double radius keeps the boundary pairs:
`float(2k²) ≤ fl(r·r)` with `r = fl(fl(√2)·k)` -/
theorem C04_radius_covers : ∀ k, 1 ≤ k → k ≤ 128 → radiusCovers k = true := by
  have h : (List.range' 1 128).all radiusCovers = true := by decide +kernel
  intro k h1 h2
  exact (List.all_eq_true.1 h) k (List.mem_range'_1.2 ⟨h1, by omega⟩)

/-! non-vacuity: an indel pair straddling two compression bins -/
example : (0, 1, 1) ∈ hashDefault ['A', 'C', 'D'] [['A', 'D'], ['D']] 1 :=
  (C04_hash_exact ['A', 'C', 'D'] _ 1 (by decide) 0 1 1).2
    ⟨['A', 'D'], ['D'], by decide, rfl, rfl, by simp [lev], by simp [lev]⟩

/-- k = 3: the radius is 4.242640687119286 and r·r = 18.000000000000004 ≥ 18 -/
example : radiusCovers 3 = true := C04_radius_covers 3 (by decide) (by decide)
/-- whereas the double nearest to √18 squares to 17.999999999999996 < 18: that radius would lose the pair -/
example : inBall (Float.ofBits 0x4010F876CCDF6CD9) 18 = false := by decide +kernel

end Prs
