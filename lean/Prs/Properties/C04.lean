/-
Properties/C04.lean — hash_based and kdtree return exactly the neighbour set of the default search.
`A` is the alphabet the engines are built on (the 20 amino acids in the code); the theorems hold for
every alphabet, every list of strings over it (empty strings and duplicates included), every k and —
for kdtree — every compression c ≥ 1.
NOT covered by a theorem (see DESIGN.md, C04): that SciPy's ball query with the FLOAT radius
`np.sqrt(2) * k` returns every point at integer squared distance ≤ 2k²; `ballQuery` is the integer
predicate and the float behaviour is validated by the `kd_ball` correspondence operation.
-/
import Prs.Proofs.Engines
namespace Prs
variable {α : Type} [DecidableEq α]

/-- hash_based (LookupDB in pdist mode) is exact -/
theorem C04_hash_exact (A : List α) (xs : List (List α)) (k : Nat)
    (hA : ∀ s ∈ xs, ∀ c ∈ s, c ∈ A) (i j d : Nat) :
    (i, j, d) ∈ hashDefault A xs k ↔
      ∃ a b, i ≠ j ∧ xs[i]? = some a ∧ xs[j]? = some b ∧ lev a b ≤ k ∧ d = lev a b := by
  rw [hashDefault_iff A xs k hA, selfPairs_lev]

theorem C04_hash_nodup (A : List α) (xs : List (List α)) (k : Nat) : (hashDefault A xs k).Nodup := by
  unfold hashDefault lookupDefault
  exact lookupDB_nodup _ _ _ _ _ _ _

/-- kdtree is exact for every compression -/
theorem C04_kdtree_exact (A : List α) (c k : Nat) (hc : 1 ≤ c) (xs : List (List α))
    (hA : ∀ s ∈ xs, ∀ ch ∈ s, ch ∈ A) :
    ∃ ts, kdDefault A c k xs = some ts ∧ ts.Nodup ∧ ∀ i j d, (i, j, d) ∈ ts ↔
      ∃ a b, i ≠ j ∧ xs[i]? = some a ∧ xs[j]? = some b ∧ lev a b ≤ k ∧ d = lev a b := by
  obtain ⟨ts, h1, h2, h3⟩ := kdtreeSelf_levScore_exact A c k hc xs hA
  exact ⟨ts, h1, h2, fun i j d => by rw [h3, selfPairs_lev]⟩

/-- the composition-vector pre-filter is lossless: k edits move the (binned) letter-count vector by
at most √2·k, i.e. squared distance ≤ 2k² — for every binning (compression) -/
theorem C04_prefilter_lossless (A : List α) (c k : Nat) (hc : 1 ≤ c) (a b : List α)
    (ha : ∀ ch ∈ a, ch ∈ A) (hb : ∀ ch ∈ b, ch ∈ A) (u v : List Nat)
    (hu : histEncode A c a = some u) (hv : histEncode A c b = some v) (h : lev a b ≤ k) :
    sqdist u v ≤ 2 * k * k :=
  sqdist_histEncode_le A c k hc a b ha hb u v hu hv h

/-- a letter outside the alphabet is rejected (KeyError), never silently mis-binned -/
theorem C04_kdtree_rejects (A : List α) (c k : Nat) (xs : List (List α)) :
    kdDefault A c k xs = none ↔ ∃ s ∈ xs, ∃ ch ∈ s, ch ∉ A :=
  kdtreeSelf_none_iff A c k _ xs

/-- the three engines are interchangeable: same triplet set -/
theorem C04_engines_agree (A : List α) (c k : Nat) (hc : 1 ≤ c) (xs : List (List α))
    (hA : ∀ s ∈ xs, ∀ ch ∈ s, ch ∈ A) :
    ∃ ts, kdDefault A c k xs = some ts ∧
      ∀ t, (t ∈ ts ↔ t ∈ symdelDefault k xs) ∧ (t ∈ hashDefault A xs k ↔ t ∈ symdelDefault k xs) := by
  obtain ⟨ts, h1, _, h3⟩ := kdtreeSelf_levScore_exact A c k hc xs hA
  refine ⟨ts, h1, fun t => ⟨?_, ?_⟩⟩
  · rw [h3, symdelDefault_iff]
  · rw [hashDefault_iff A xs k hA, symdelDefault_iff]

/-! non-vacuity: an indel pair straddling two compression bins -/
example : (0, 1, 1) ∈ hashDefault ['A', 'C', 'D'] [['A', 'D'], ['D']] 1 :=
  (C04_hash_exact ['A', 'C', 'D'] _ 1 (by decide) 0 1 1).2
    ⟨['A', 'D'], ['D'], by decide, rfl, rfl, by simp [lev], by simp [lev]⟩

end Prs
