/-
Properties/C16.lean — richness estimators (chao1, var_chao1, chao2) and overlap measures
(jaccard_index, overlap, overlap_coefficient) of pyrepseq/stats.py.

* chao1 = S_obs + f1²/(2 f2), with the bias-corrected fallback S_obs + f1(f1−1)/2 when f2 is 0 or
  absent; never below the observed richness on count data;
* chao2 / var_chao: the closed forms, NaN (`none`) exactly when f2 is 0 or absent, never an error;
* overlap measures only depend on the SETS of elements: they are the finset cardinalities
  |A ∩ B|, |A ∩ B| / |A ∪ B|, |A ∩ B| / min(|A|, |B|), symmetric, invariant under duplicates/order.

Only property theorems and non-vacuity examples live here; helpers are in Proofs/StatsSets.lean.
-/
import Prs.Proofs.FormulasRichness
import Prs.Proofs.StatsSets
import Mathlib.Algebra.Order.Field.Rat
import Mathlib.Algebra.Order.Field.Basic
import Mathlib.Algebra.Order.BigOperators.Group.List
import Mathlib.Tactic.Ring
import Mathlib.Tactic.Linarith
import Mathlib.Tactic.Positivity

open Finset BigOperators
namespace Prs

/-! ### chao1 -/

theorem C16_chao1_f2_pos (f1 f2 : ℚ) (rest : List ℚ) (h : f2 ≠ 0) :
    chao1 (f1 :: f2 :: rest) = (f1 + f2 + rest.sum) + f1 ^ 2 / (2 * f2) := by
  simp [chao1, h, add_assoc]

theorem C16_chao1_f2_zero (f1 : ℚ) (rest : List ℚ) :
    chao1 (f1 :: 0 :: rest) = (f1 + 0 + rest.sum) + f1 * (f1 - 1) / 2 := by
  simp [chao1]

theorem C16_chao1_single (f1 : ℚ) : chao1 [f1] = f1 + f1 * (f1 - 1) / 2 := by
  simp [chao1]

private theorem nat_fall_nonneg (n : ℕ) : (0:ℚ) ≤ (n:ℚ) * ((n:ℚ) - 1) / 2 := by
  cases n with
  | zero => simp
  | succ m =>
    have : (0:ℚ) ≤ m := Nat.cast_nonneg m
    push_cast
    have h2 : (0:ℚ) ≤ ((m:ℚ) + 1) * ((m:ℚ) + 1 - 1) := by
      have : ((m:ℚ) + 1) * ((m:ℚ) + 1 - 1) = ((m:ℚ) + 1) * m := by ring
      rw [this]; positivity
    linarith

/-- counts are non-negative integers; `f1(f1−1)/2 ≥ 0` needs integrality (fails for f1 = 1/2) -/
theorem C16_chao1_ge_observed (f : List ℚ) (hnat : ∀ x ∈ f, ∃ n : ℕ, x = n) :
    f.sum ≤ chao1 f := by
  match f, hnat with
  | [], _ => simp [chao1]
  | [f1], hnat =>
    obtain ⟨n, rfl⟩ := hnat f1 (by simp)
    rw [C16_chao1_single]
    have := nat_fall_nonneg n
    simp only [List.sum_cons, List.sum_nil, add_zero]
    linarith
  | f1 :: f2 :: rest, hnat =>
    obtain ⟨n, rfl⟩ := hnat f1 (by simp)
    obtain ⟨m, rfl⟩ := hnat f2 (by simp)
    by_cases hm : (m:ℚ) = 0
    · rw [hm, C16_chao1_f2_zero]
      have := nat_fall_nonneg n
      simp only [List.sum_cons]
      linarith
    · rw [C16_chao1_f2_pos _ _ _ hm]
      have hm0 : (0:ℚ) ≤ m := Nat.cast_nonneg m
      have : (0:ℚ) ≤ (n:ℚ) ^ 2 / (2 * (m:ℚ)) := by positivity
      simp only [List.sum_cons]
      linarith

/-! ### chao2 -/

theorem C16_chao2 (q1 q2 : ℚ) (rest : List ℚ) (h : q2 ≠ 0) :
    chao2 (q1 :: q2 :: rest) = some ((q1 + q2 + rest.sum) + q1 ^ 2 / (2 * q2)) := by
  simp [chao2, h, add_assoc]

theorem C16_chao2_nan (q : List ℚ) : (q.length < 2 ∨ q[1]? = some 0) → chao2 q = none := by
  intro h
  match q, h with
  | [], _ => rfl
  | [_], _ => rfl
  | q1 :: q2 :: rest, h =>
    rcases h with h | h
    · simp only [List.length_cons] at h; omega
    · simp only [List.getElem?_cons_succ, List.getElem?_cons_zero, Option.some.injEq] at h
      simp [chao2, h]

/-- converse: NaN only in those two cases -/
theorem C16_chao2_nan_iff (q : List ℚ) : chao2 q = none ↔ (q.length < 2 ∨ q[1]? = some 0) := by
  refine ⟨?_, C16_chao2_nan q⟩
  match q with
  | [] => simp
  | [_] => simp
  | q1 :: q2 :: rest =>
    intro h
    by_cases h2 : q2 = 0
    · right; simp [h2]
    · simp [chao2, h2] at h

theorem C16_chao2_ge_observed (q : List ℚ) (v : ℚ) (hpos : ∀ x ∈ q, 0 ≤ x) (h : chao2 q = some v) :
    q.sum ≤ v := by
  match q, hpos, h with
  | [], _, h => simp [chao2] at h
  | [_], _, h => simp [chao2] at h
  | q1 :: q2 :: rest, hpos, h =>
    by_cases h2 : q2 = 0
    · simp [chao2, h2] at h
    · simp only [chao2, h2, if_false, Option.some.injEq] at h
      have hq2 : (0:ℚ) ≤ q2 := hpos q2 (by simp)
      have : (0:ℚ) ≤ q1 ^ 2 / (2 * q2) := by positivity
      linarith

/-! ### variance -/

theorem C16_var (f1 f2 : ℚ) (rest : List ℚ) (h : f2 ≠ 0) :
    varChao (f1 :: f2 :: rest)
      = some (f2 * ((f1 / f2) ^ 2 / 2 + (f1 / f2) ^ 3 + (f1 / f2) ^ 4 / 4)) := by
  simp [varChao, h]

theorem C16_var_nan (f : List ℚ) : (f.length < 2 ∨ f[1]? = some 0) → varChao f = none := by
  intro h
  match f, h with
  | [], _ => rfl
  | [_], _ => rfl
  | f1 :: f2 :: rest, h =>
    rcases h with h | h
    · simp only [List.length_cons] at h; omega
    · simp only [List.getElem?_cons_succ, List.getElem?_cons_zero, Option.some.injEq] at h
      simp [varChao, h]

/-- never an error: the result is NaN or a number (totality) -/
theorem C16_var_total (f : List ℚ) : varChao f = none ∨ ∃ v, varChao f = some v := by
  cases h : varChao f with
  | none => exact Or.inl rfl
  | some v => exact Or.inr ⟨v, rfl⟩

theorem C16_var_nonneg (f : List ℚ) (v : ℚ) (hpos : ∀ x ∈ f, 0 ≤ x) (h : varChao f = some v) :
    0 ≤ v := by
  match f, hpos, h with
  | [], _, h => simp [varChao] at h
  | [_], _, h => simp [varChao] at h
  | f1 :: f2 :: rest, hpos, h =>
    by_cases h2 : f2 = 0
    · simp [varChao, h2] at h
    · simp only [varChao, h2, if_false, Option.some.injEq] at h
      have hf1 : (0:ℚ) ≤ f1 := hpos f1 (by simp)
      have hf2 : (0:ℚ) ≤ f2 := hpos f2 (by simp)
      rw [← h]
      positivity

/-! ### overlap measures: set semantics -/
section overlap
variable {β : Type} [DecidableEq β]

theorem C16_interCard (a b : List β) : interCard a b = (a.toFinset ∩ b.toFinset).card :=
  interCard_eq a b

theorem C16_unionCard (a b : List β) : unionCard a b = (a.toFinset ∪ b.toFinset).card :=
  unionCard_eq a b

theorem C16_jaccard (a b : List β) :
    jaccard a b = ((a.toFinset ∩ b.toFinset).card : ℚ) / ((a.toFinset ∪ b.toFinset).card : ℚ) := by
  unfold jaccard
  rw [interCard_eq, unionCard_eq]

theorem C16_jaccard_symm (a b : List β) : jaccard a b = jaccard b a := by
  rw [C16_jaccard, C16_jaccard, Finset.inter_comm, Finset.union_comm]

theorem C16_overlap_symm (a b : List β) : overlapCount a b = overlapCount b a := by
  unfold overlapCount
  rw [interCard_eq, interCard_eq, Finset.inter_comm]

theorem C16_overlap_coefficient (a b : List β) (ha : a ≠ []) (hb : b ≠ []) :
    overlapCoefficient a b
      = some (((a.toFinset ∩ b.toFinset).card : ℚ)
          / ((min a.toFinset.card b.toFinset.card : ℕ) : ℚ)) := by
  rw [overlapCoefficient_eq, if_neg]
  simp only [Finset.card_eq_zero, List.toFinset_eq_empty_iff]
  tauto

/-- NaN exactly when one of the sets is empty -/
theorem C16_overlap_coefficient_nan (a b : List β) :
    overlapCoefficient a b = none ↔ (a = [] ∨ b = []) := by
  rw [overlapCoefficient_eq]
  simp only [Finset.card_eq_zero, List.toFinset_eq_empty_iff]
  split <;> simp_all

theorem C16_overlap_coefficient_symm (a b : List β) :
    overlapCoefficient a b = overlapCoefficient b a := by
  rw [overlapCoefficient_eq, overlapCoefficient_eq, Finset.inter_comm, Nat.min_comm]
  simp only [or_comm]

/-- the measures ignore duplicates and order: they only depend on the element sets -/
theorem C16_set_invariance (a a' b b' : List β) (ha : a.toFinset = a'.toFinset)
    (hb : b.toFinset = b'.toFinset) :
    jaccard a b = jaccard a' b' ∧ overlapCount a b = overlapCount a' b' ∧
      overlapCoefficient a b = overlapCoefficient a' b' := by
  refine ⟨?_, ?_, ?_⟩
  · rw [C16_jaccard, C16_jaccard, ha, hb]
  · unfold overlapCount; rw [interCard_eq, interCard_eq, ha, hb]
  · rw [overlapCoefficient_eq, overlapCoefficient_eq, ha, hb]

theorem C16_jaccard_range (a b : List β) : 0 ≤ jaccard a b ∧ jaccard a b ≤ 1 := by
  rw [C16_jaccard]
  refine ⟨div_nonneg (Nat.cast_nonneg _) (Nat.cast_nonneg _), ?_⟩
  apply div_le_one_of_le₀ _ (Nat.cast_nonneg _)
  exact_mod_cast Finset.card_le_card
    (Finset.inter_subset_left.trans Finset.subset_union_left)

end overlap

/-! ### non-vacuity -/

example : chao1 [3, 2, 1] = (3 + 2 + ([1] : List ℚ).sum) + 3 ^ 2 / (2 * 2) :=
  C16_chao1_f2_pos 3 2 [1] (by norm_num)
example : ([3, 0, 1] : List ℚ).sum ≤ chao1 [3, 0, 1] :=
  C16_chao1_ge_observed _ (by
    intro x hx
    simp only [List.mem_cons, List.not_mem_nil, or_false] at hx
    rcases hx with rfl | rfl | rfl
    · exact ⟨3, by norm_num⟩
    · exact ⟨0, by norm_num⟩
    · exact ⟨1, by norm_num⟩)
/-- integrality is needed: f = [1/2] has chao1 = 1/2 − 1/8 < 1/2 -/
example : ¬ (([1/2] : List ℚ).sum ≤ chao1 [1/2]) := by
  rw [C16_chao1_single]; norm_num
example : chao2 [3, 2, 1] = some ((3 + 2 + ([1] : List ℚ).sum) + 3 ^ 2 / (2 * 2)) :=
  C16_chao2 3 2 [1] (by norm_num)
example : chao2 [3, 0, 1] = none := C16_chao2_nan _ (Or.inr rfl)
example : chao2 [3] = none := C16_chao2_nan _ (Or.inl (by decide))
example : varChao [3, 2, 1] = some (2 * ((3 / 2) ^ 2 / 2 + (3 / 2) ^ 3 + (3 / 2) ^ 4 / 4)) :=
  C16_var 3 2 [1] (by norm_num)
example : varChao [3, 0] = none := C16_var_nan _ (Or.inr rfl)
example : jaccard [1, 2, 2, 3] [3, 2, 5] = jaccard [3, 2, 1] [5, 5, 2, 3]
    ∧ overlapCount [1, 2, 2, 3] [3, 2, 5] = overlapCount [3, 2, 1] [5, 5, 2, 3]
    ∧ overlapCoefficient [1, 2, 2, 3] [3, 2, 5] = overlapCoefficient [3, 2, 1] [5, 5, 2, 3] :=
  C16_set_invariance _ _ _ _ (by decide) (by decide)
example : interCard [1, 2, 2, 3] [3, 2, 5] = 2 ∧ unionCard [1, 2, 2, 3] [3, 2, 5] = 4 := by decide
example : overlapCoefficient [1, 2, 2, 3] [3, 2, 5]
    = some (((([1, 2, 2, 3] : List ℕ).toFinset ∩ ([3, 2, 5] : List ℕ).toFinset).card : ℚ)
        / ((min ([1, 2, 2, 3] : List ℕ).toFinset.card ([3, 2, 5] : List ℕ).toFinset.card : ℕ) : ℚ)) :=
  C16_overlap_coefficient _ _ (by simp) (by simp)

/-! ### the sources, as translated from pyrepseq/stats.py on this run, are the models -/

theorem C16_source_chao1 (f : List ℚ) : Generated.chao1 f = chao1 f := gen_chao1_eq f
theorem C16_source_var_chao1 (f : List ℚ) : Generated.var_chao1 f = varChao f := gen_var_chao1_eq f
theorem C16_source_chao2 (q : List ℚ) (m : ℚ) : Generated.chao2 q m = chao2 q := gen_chao2_eq q m
theorem C16_source_var_chao2 (q : List ℚ) (m : ℚ) : Generated.var_chao2 q m = varChao q := gen_var_chao2_eq q m
theorem C16_source_jaccard {β : Type} [DecidableEq β] (a b : List β) :
    Generated.jaccard_index a b = jaccard a b := gen_jaccard_eq a b
theorem C16_source_overlap {β : Type} [DecidableEq β] (a b : List β) :
    Generated.overlap a b = overlapCount a b := gen_overlap_eq a b
theorem C16_source_overlap_coefficient {β : Type} [DecidableEq β] (a b : List β) :
    Generated.overlap_coefficient a b = overlapCoefficient a b := gen_overlap_coefficient_eq a b

/-- so the source's chao1 is never below the observed richness on count data -/
theorem C16_source_chao1_ge_observed (f : List ℚ) (hnat : ∀ x ∈ f, ∃ n : ℕ, x = n) :
    f.sum ≤ Generated.chao1 f := by
  rw [C16_source_chao1]; exact C16_chao1_ge_observed f hnat

end Prs

