/- Driver/Json.lean — helpers for the JSON line protocol (core Lean only). -/
import Lean.Data.Json
open Lean
namespace Prs.Drv

abbrev R := Except String

def str (j : Json) (k : String) : R String := j.getObjValAs? String k
def nat (j : Json) (k : String) : R Nat := j.getObjValAs? Nat k
def int (j : Json) (k : String) : R Int := j.getObjValAs? Int k
def bool (j : Json) (k : String) : R Bool := j.getObjValAs? Bool k
def chars (j : Json) (k : String) : R (List Char) := do pure (← str j k).toList
def arr (j : Json) (k : String) : R (Array Json) := do
  match (← j.getObjVal? k) with
  | .arr a => pure a
  | _ => throw s!"field {k}: array expected"
def optField (j : Json) (k : String) : Option Json :=
  match j.getObjVal? k with
  | .ok .null => none
  | .ok v => some v
  | .error _ => none

def strList (j : Json) (k : String) : R (List (List Char)) := do
  (← arr j k).toList.mapM fun x => do pure (← x.getStr?).toList
def natList (j : Json) (k : String) : R (List Nat) := do
  (← arr j k).toList.mapM fun x => x.getNat?
def natOfJson (x : Json) : R Nat := x.getNat?

/-- rationals travel as "p/q", "p" or JSON integers -/
def ratOfString (s : String) : R Rat := do
  match s.splitOn "/" with
  | [p] => match p.toInt? with
    | some n => pure (n : Rat)
    | none => throw s!"bad rational {s}"
  | [p, q] => match p.toInt?, q.toNat? with
    | some n, some d => if d = 0 then throw s!"zero denominator {s}" else pure ((n : Rat) / (d : Rat))
    | _, _ => throw s!"bad rational {s}"
  | _ => throw s!"bad rational {s}"

def ratOfJson (x : Json) : R Rat :=
  match x with
  | .str s => ratOfString s
  | .num n => if n.exponent = 0 then pure (n.mantissa : Rat) else
      pure ((n.mantissa : Rat) / ((10 ^ n.exponent : Nat) : Rat))
  | _ => throw "rational expected"

def rat (j : Json) (k : String) : R Rat := do ratOfJson (← j.getObjVal? k)
def ratList (j : Json) (k : String) : R (List Rat) := do (← arr j k).toList.mapM ratOfJson

def ratToString (q : Rat) : String :=
  if q.den = 1 then toString q.num else s!"{q.num}/{q.den}"
def jRat (q : Rat) : Json := Json.str (ratToString q)
def jStr (s : List Char) : Json := Json.str (String.ofList s)
def jNat (n : Nat) : Json := Json.num (JsonNumber.fromNat n)
def jInt (n : Int) : Json := Json.num (JsonNumber.fromInt n)
def jList {β : Type} (f : β → Json) (l : List β) : Json := Json.arr (l.map f).toArray
def jTrip (t : Nat × Nat × Rat) : Json := Json.arr #[jNat t.1, jNat t.2.1, jRat t.2.2]
def jOpt {β : Type} (f : β → Json) : Option β → Json
  | some x => f x
  | none => Json.null

end Prs.Drv
