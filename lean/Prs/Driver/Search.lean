/- Driver/Search.lean — line-protocol operations over Model/Search and Spec/Neighbours. -/
import Prs.Model.Radius
import Prs.Driver.Json
import Prs.Spec.Neighbours
import Prs.Model.Neighbors
import Prs.Model.Output
import Std.Data.HashMap
open Lean
namespace Prs.Drv

abbrev Str := List Char

/-- custom distance table: distinct strings and a square matrix of rationals -/
structure CdTable where
  idx : Std.HashMap String Nat
  mat : Array (Array Rat)

def CdTable.get (t : CdTable) (a b : Str) : Option Rat := do
  let i ← t.idx[String.ofList a]?
  let j ← t.idx[String.ofList b]?
  let row ← t.mat[i]?
  row[j]?

def cdTable (j : Json) : R CdTable := do
  let strs ← strList j "strs"
  let rows ← arr j "cd"
  let mat ← rows.mapM fun r => match r with
    | .arr a => a.mapM ratOfJson
    | _ => throw "cd: matrix expected"
  let idx := (strs.zipIdx).foldl (fun m p => m.insert (String.ofList p.1) p.2) ({} : Std.HashMap String Nat)
  pure { idx, mat }

/-- radius on the custom value: `none` = infinity -/
def mcdOf (j : Json) : R (Option Rat) :=
  match optField j "mcd" with
  | none => pure none
  | some (.str "inf") => pure none
  | some v => do pure (some (← ratOfJson v))

def leOpt (d : Rat) : Option Rat → Bool
  | none => true
  | some m => d ≤ m

/-- the pair filter/value of the engines, by mode:
  "lev"    : Levenshtein ≤ k, value = Levenshtein
  "ham"    : equal length and mismatches ≤ k, value = mismatches
  "custom" : Levenshtein ≤ k and cd ≤ mcd, value = cd -/
def mkScore (j : Json) : R (Str → Str → Option Rat) := do
  let mode ← str j "mode"
  let k ← nat j "k"
  if mode == "lev" then
    pure fun a b => let d := levDP a b; if d ≤ k then some (d : Rat) else none
  else if mode == "ham" then
    pure fun a b => match ham a b with
      | some d => if d ≤ k then some (d : Rat) else none
      | none => none
  else if mode == "custom" then do
    let t ← cdTable j
    let m ← mcdOf j
    pure fun a b => match t.get a b with
      | some d => if levDP a b ≤ k && leOpt d m then some d else none
      | none => none
  else throw s!"bad mode {mode}"

/-- custom distance and radius test as used by LookupDB (no Levenshtein re-check there) -/
def mkCd (j : Json) : R ((Str → Str → Rat) × (Rat → Bool)) := do
  let mode ← str j "mode"
  if mode == "lev" then
    pure (fun a b => (levDP a b : Rat), fun _ => true)
  else if mode == "ham" then
    -- `_hamming_replacement`: inf for unequal length; inside a substitution ball lengths agree.
    -- encode inf as -1 and drop it
    pure (fun a b => match ham a b with | some d => (d : Rat) | none => -1, fun d => decide (0 ≤ d))
  else if mode == "custom" then do
    let t ← cdTable j
    let m ← mcdOf j
    pure (fun a b => (t.get a b).getD (-1), fun d => decide (0 ≤ d) && leOpt d m)
  else throw s!"bad mode {mode}"

def jTrips (ts : List (Trip Rat)) : Json := jList jTrip ts

def alphabetOf (j : Json) : R (List Char) := chars j "A"

def opSearch (op : String) (j : Json) : Option (R Json) :=
  match op with
  | "lev" => some do
      pure (Json.arr #[jNat (levDP (← chars j "a") (← chars j "b")),
                       jNat (lev (← chars j "a") (← chars j "b"))])
  | "levdp" => some do pure (jNat (levDP (← chars j "a") (← chars j "b")))
  | "wlev" => some do
      pure (jNat (wlevDP (← nat j "wi") (← nat j "wd") (← nat j "ws") (← chars j "a") (← chars j "b")))
  | "wlev_rec" => some do
      pure (jNat (wlev (← nat j "wi") (← nat j "wd") (← nat j "ws") (← chars j "a") (← chars j "b")))
  | "ham" => some do pure (jOpt jNat (ham (← chars j "a") (← chars j "b")))
  | "comb_gen" => some do
      pure (jList jStr (dedup (delVariants (← nat j "k") (← chars j "s"))))
  | "symdel_index" => some do
      let k ← nat j "k"
      let xs ← strList j "xs"
      let idx := buildIndex (fun s => dedup (delVariants k s)) xs
      pure (jList (fun kv => Json.arr #[jStr kv.1, jList jNat kv.2]) idx)
  | "symdel_self" => some do
      let k ← nat j "k"
      let xs ← strList j "xs"
      pure (jTrips (symdelSelf (delVariants k) (← mkScore j) xs))
  | "symdel_lookup" => some do
      let k ← nat j "k"
      pure (jTrips (symdelLookup (delVariants k) (← mkScore j) (← strList j "ref") (← strList j "qs")))
  | "brute_self" => some do pure (jTrips (bruteSelf (← mkScore j) (← strList j "xs")))
  | "brute_cross" => some do
      pure (jTrips (bruteCross (← mkScore j) (← strList j "ref") (← strList j "qs")))
  | "lev_neighbors" => some do
      pure (jList jStr (levNeighbors (← alphabetOf j) (← chars j "x")))
  | "ham_neighbors" => some do
      let x ← chars j "x"
      let A ← alphabetOf j
      match optField j "pos" with
      | none => pure (jList jStr (hamNeighbors A x))
      | some _ => pure (jList jStr (hamNeighborsAt A (← natList j "pos") x))
  | "bfs_ball" => some do
      let A ← alphabetOf j
      let nb := if (← bool j "ham") then hamNeighbors A else levNeighbors A
      let ball := bfsBall nb (← chars j "q") (← nat j "k")
      pure (jList (fun p => Json.arr #[jStr p.1, jNat p.2]) ball)
  | "lookupdb" => some do
      let A ← alphabetOf j
      let mode ← str j "mode"
      let nb := if mode == "ham" then hamNeighbors A else levNeighbors A
      let (cd, keep) ← mkCd j
      pure (jTrips (lookupDB nb cd keep (← bool j "pdist") (← strList j "ref") (← strList j "qs") (← nat j "k")))
  | "radius" => some do
      -- the radius computed for max_edits = k: its bits, the bits of r·r, and whether the boundary 2k² is covered
      let k ← nat j "k"
      let r := radius k
      pure (Json.mkObj [("r_bits", Json.str (toString r.toBits.toNat)), ("rr_bits", Json.str (toString (r * r).toBits.toNat)),
        ("covers", Json.bool (radiusCovers k))])
  | "in_ball" => some do
      -- SciPy's comparison for an arbitrary radius given by its bit pattern (decimal string)
      let rb ← str j "r_bits"
      match rb.toNat? with
      | some b => pure (Json.bool (inBall (Float.ofBits b.toUInt64) (← nat j "sq")))
      | none => throw "r_bits: decimal string expected"
  | "hist_encode" => some do
      pure (jOpt (jList jNat) (histEncode (← alphabetOf j) (← nat j "c") (← chars j "s")))
  | "ball_query" => some do
      let vs ← (← arr j "vs").toList.mapM fun r => match r with
        | .arr a => a.toList.mapM natOfJson
        | _ => throw "vs: matrix expected"
      pure (jList (jList jNat) (ballQuery (← nat j "k") vs))
  | "kdtree" => some do
      let A ← alphabetOf j
      let mode ← str j "mode"
      let f := if mode == "ham" then kdtreeHamming A else kdtreeSelf A
      pure (jOpt jTrips (f (← nat j "c") (← nat j "k") (← mkScore j) (← strList j "xs")))
  | "chunks" => some do
      pure (jList (jList jNat) (chunks (← nat j "c") (← natList j "xs")))
  | "pool_map" => some do
      -- f = successor, enough to see order and multiplicity
      pure (jList jNat (poolMap (· + 1) (← natList j "xs") (← nat j "c") (← natList j "sched")))
  | "coo_dense" => some do
      let ts ← (← arr j "trip").toList.mapM fun t => match t with
        | .arr #[a, b, c] => do pure ((← a.getNat?), (← b.getNat?), (← c.getInt?))
        | _ => throw "trip: [q, r, d] expected"
      pure (jList (jList jInt) (cooDense ts (← nat j "nref") (← nat j "nqry")))
  | "next_nearest" => some do
      let A ← alphabetOf j
      let nb := if (← bool j "ham") then hamNeighbors A else levNeighbors A
      pure (jList jStr (nextNearest nb (← chars j "x") (← nat j "d")))
  | "find_neighbor_pairs" => some do
      let A ← alphabetOf j
      let nb := if (← bool j "ham") then hamNeighbors A else levNeighbors A
      -- `order` = sorted(set(seqs)) (code-point order), computed here
      let xs ← strList j "xs"
      let order := ((dedup (xs.map String.ofList)).mergeSort (fun a b => decide (a ≤ b))).map String.toList
      pure (jList (fun p => Json.arr #[jStr p.1, jStr p.2]) (findNeighborPairs nb order))
  | "find_neighbor_pairs_index" => some do
      let A ← alphabetOf j
      let nb := if (← bool j "ham") then hamNeighbors A else levNeighbors A
      pure (jList (fun p => Json.arr #[jNat p.1, jNat p.2]) (findNeighborPairsIndex nb (← strList j "xs")))
  | "neighbor_numbers" => some do
      let A ← alphabetOf j
      let nb := if (← bool j "ham") then hamNeighbors A else levNeighbors A
      let ref ← match optField j "ref" with
        | none => pure none
        | some _ => do pure (some (← strList j "ref"))
      pure (jList jNat (neighborNumbers nb (← strList j "xs") ref))
  | "isdist1" => some do
      let A ← alphabetOf j
      let nb := if (← bool j "ham") then hamNeighbors A else levNeighbors A
      pure (Json.bool (isdist1 nb (← chars j "x") (← strList j "ref")))
  | "isdist_ham" => some do
      pure (Json.bool (isdistHam (← alphabetOf j) (← nat j "n") (← chars j "x") (← strList j "ref")))
  | "nndist_hamming" => some do
      pure (jOpt jNat (nndistHamming (← alphabetOf j) (← chars j "x") (← strList j "ref") (← nat j "maxdist")))
  | "check_common_input" => some do
      let a : ArgDesc := {
        nSeqs := ← nat j "nSeqs", allStr := ← bool j "allStr",
        maxEditsIsInt := ← bool j "maxEditsIsInt", maxEdits := ← int j "maxEdits",
        maxReturnsIsNone := ← bool j "maxReturnsIsNone", maxReturnsIsInt := ← bool j "maxReturnsIsInt",
        maxReturns := ← int j "maxReturns", nCpuIsInt := ← bool j "nCpuIsInt", nCpu := ← int j "nCpu",
        customOk := ← bool j "customOk", mcdIsNumber := ← bool j "mcdIsNumber", mcdNonneg := ← bool j "mcdNonneg",
        outputKnown := ← bool j "outputKnown", seqs2IsNone := ← bool j "seqs2IsNone", seqs2AllStr := ← bool j "seqs2AllStr" }
      pure (Json.bool (checkCommonInput a))
  | "decode_dense" => some do
      let m ← (← arr j "m").toList.mapM fun r => match r with
        | .arr a => a.toList.mapM fun x => x.getInt?
        | _ => throw "m: matrix expected"
      pure (jList (fun t => Json.arr #[jNat t.1, jNat t.2.1, jInt t.2.2]) (decodeDense m))
  | "take_best" => some do
      let ts ← (← arr j "trip").toList.mapM fun t => match t with
        | .arr #[a, b, c] => do pure ((← a.getNat?), (← b.getNat?), (← ratOfJson c))
        | _ => throw "trip: [q, r, d] expected"
      let m ← match optField j "m" with
        | none => pure none
        | some v => do pure (some (← v.getNat?))
      pure (jTrips (takeBest (fun a b => decide (a ≤ b)) m ts))
  | "nn_tcrdist" => some do
      let k ← nat j "k"
      let seqs ← strList j "edit_seqs"
      let mat (key : String) : R (Nat → Nat → Rat) := do
        let rows ← (← arr j key).mapM fun r => match r with
          | .arr a => a.mapM ratOfJson
          | _ => throw s!"{key}: matrix expected"
        pure fun i k => ((rows[i]?.bind (·[k]?)).getD 0)
      pure (jTrips (nnTcrdist k seqs (← mat "vd") (← mat "cd") (← rat j "max_tcrdist")))
  | "trim_slice" => some do
      pure (jStr (trimSlice (← nat j "ntrim") (← nat j "ctrim") (← chars j "s")))
  | "nn_tcrdist_spec" => some do
      -- the specification side of C14_tcrdist_exact, evaluated by brute force
      let k ← nat j "k"
      let seqs ← strList j "edit_seqs"
      let mat (key : String) : R (Nat → Nat → Rat) := do
        let rows ← (← arr j key).mapM fun r => match r with
          | .arr a => a.mapM ratOfJson
          | _ => throw s!"{key}: matrix expected"
        pure fun i k => ((rows[i]?.bind (·[k]?)).getD 0)
      let vd ← mat "vd"; let cd ← mat "cd"; let maxT ← rat j "max_tcrdist"
      let cand := bruteSelf (fun a b => let d := levDP a b; if d ≤ k then some d else none) seqs
      pure (jTrips (cand.filterMap fun t =>
        let v := vd t.1 t.2.1 + cd t.1 t.2.1
        if v ≤ maxT then some (t.1, t.2.1, v) else none))
  | _ => none

end Prs.Drv
