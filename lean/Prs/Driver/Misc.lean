/- Driver/Misc.lean — line-protocol operations over Model/Tcr, Model/Cleaning, Model/Summary, Model/Purity. -/
import Prs.Driver.Json
import Prs.Model.Tcr
import Prs.Model.Cleaning
import Prs.Model.Summary
import Prs.Model.Purity
import Prs.Model.Extra
import Prs.Model.Merge
open Lean
namespace Prs.Drv

def tcrRowOf (x : Json) : R TcrRow :=
  match x with
  | .arr #[.str a1, .str a2, .str a3, .str b1, .str b2, .str b3] =>
      pure { cdr1a := a1.toList, cdr2a := a2.toList, cdr3a := a3.toList,
             cdr1b := b1.toList, cdr2b := b2.toList, cdr3b := b3.toList }
  | _ => throw "tcr row: [cdr1a, cdr2a, cdr3a, cdr1b, cdr2b, cdr3b] expected"

def tcrRows (j : Json) (k : String) : R (List TcrRow) := do (← arr j k).toList.mapM tcrRowOf

def chainScopeOf (j : Json) : R ChainScope := do
  match (← str j "chain") with
  | "paired" => pure .paired | "alpha" => pure .alpha | "beta" => pure .beta
  | s => throw s!"bad chain scope {s}"
def cdrScopeOf (j : Json) : R CdrScope := do
  match (← str j "cdr") with
  | "all" => pure .all | "cdr3" => pure .cdr3
  | s => throw s!"bad cdr scope {s}"
def weightsOf (j : Json) : R TcrWeights := do
  let w ← natList j "w"
  match w with
  | [wi, wd, ws, aw, bw, c1, c2, c3] =>
      pure { wi := wi, wd := wd, ws := ws, alphaW := aw, betaW := bw, cdr1W := c1, cdr2W := c2, cdr3W := c3 }
  | _ => throw "w: 8 weights expected"

def pyItemOf (x : Json) : R PyItem :=
  match x with
  | .str s => match s.toList with
    | [c] => pure (.char c)
    | l => pure (.str l)
  | .num n => pure (.int n.mantissa)
  | .arr _ => pure .unhashable
  | _ => pure .otherHashable

/-- objects travel as {"t": kind, "v": payload} -/
def pyObjOf (x : Json) : R PyObj := do
  let t ← str x "t"
  let items : R (List PyItem) := do (← arr x "v").toList.mapM pyItemOf
  match t with
  | "str" => pure (.str (← str x "v").toList)
  | "bytes" => pure (.bytes (← natList x "v"))
  | "none" => pure .none
  | "nan" => pure .nan
  | "int" => pure (.int (← int x "v"))
  | "float" => pure .float
  | "list" => pure (.list (← items))
  | "tuple" => pure (.tuple (← items))
  | "dict" => pure (.dict (← items))
  | "set" => pure (.set (← items))
  | "other" => pure .other
  | s => throw s!"bad object kind {s}"

def jExceptBool : Except PyErr Bool → Json
  | .ok b => Json.mkObj [("ok", Json.bool b)]
  | .error .typeError => Json.mkObj [("error", Json.str "TypeError")]
  | .error .indexError => Json.mkObj [("error", Json.str "IndexError")]
  | .error .keyError => Json.mkObj [("error", Json.str "KeyError")]
  | .error .other => Json.mkObj [("error", Json.str "Other")]

def tcellOf (x : Json) : R TCell :=
  match x with
  | .null => pure none
  | .str s => pure (some s.toList)
  | _ => throw "cell: string or null expected"

def jItem (it : RegexItem) : Json :=
  Json.mkObj [("chars", Json.str (String.ofList it.chars)), ("optional", Json.bool it.optional)]

def itemOf (x : Json) : R RegexItem := do
  pure { chars := (← str x "chars").toList, optional := ← bool x "optional" }

def intMatrix (j : Json) (k : String) : R (List (List Int)) := do
  (← arr j k).toList.mapM fun r => match r with
    | .arr a => a.toList.mapM fun x => x.getInt?
    | _ => throw s!"{k}: matrix expected"

def opMisc (op : String) (j : Json) : Option (R Json) :=
  match op with
  | "tcr_cdist" => some do
      let m := tcrCdist (← chainScopeOf j) (← cdrScopeOf j) (← weightsOf j) (← tcrRows j "as") (← tcrRows j "bs")
      pure (jList (jList jNat) m)
  | "tcr_pdist" => some do
      pure (jList jNat (tcrPdist (← chainScopeOf j) (← cdrScopeOf j) (← weightsOf j) (← tcrRows j "xs")))
  | "columns_to_compare" => some do
      pure (jList Json.str (columnsToCompare (← chainScopeOf j) (← cdrScopeOf j)))
  | "column_weight" => some do pure (jNat (columnWeight (← weightsOf j) (← str j "col")))
  | "is_standard_format" => some do
      let cols ← (← arr j "columns").toList.mapM fun x => x.getStr?
      pure (Json.bool (isStandardFormat (← bool j "isDataFrame") cols))
  | "isvalidaa" => some do
      pure (jExceptBool (isvalidaa (← chars j "A") (← pyObjOf (← j.getObjVal? "obj"))))
  | "isvalidcdr3" => some do
      pure (jExceptBool (isvalidcdr3 (← chars j "A") (← pyObjOf (← j.getObjVal? "obj"))))
  | "standardize_table" => some do
      -- f is given as a table: for each (column, cell text) the standardised cell
      let cols ← (← arr j "columns").toList.mapM fun x => x.getStr?
      let index ← (← arr j "index").toList.mapM fun x => x.getStr?
      let rows ← (← arr j "rows").toList.mapM fun r => match r with
        | .arr a => a.toList.mapM tcellOf
        | _ => throw "rows: matrix expected"
      let mapper ← (← arr j "mapper").toList.mapM fun p => match p with
        | .arr #[.str a, .str b] => pure (a, b)
        | _ => throw "mapper: [old, new] expected"
      let ftab ← (← arr j "f").toList.mapM fun p => match p with
        | .arr #[.str c, .str v, r] => do pure ((c, v.toList), (← tcellOf r))
        | _ => throw "f: [column, cell, result] expected"
      let f : String → List Char → TCell := fun c v =>
        match ftab.find? (fun e => e.1.1 == c && e.1.2 == v) with
        | some e => e.2
        | none => some ("<<missing-f>>".toList)
      let t := standardizeTable mapper (← bool j "standardize") f { columns := cols, index := index, rows := rows }
      pure (Json.mkObj [("columns", jList Json.str t.columns), ("index", jList Json.str t.index),
        ("rows", jList (jList (jOpt jStr)) t.rows)])
  | "seqs_to_regex" => some do
      pure (jList jItem (seqsToRegex (← chars j "order") (← strList j "seqs")))
  | "full_match" => some do
      let items ← (← arr j "items").toList.mapM itemOf
      pure (Json.bool (fullMatch items (← chars j "w")))
  | "seqs_to_consensus" => some do
      pure (jStr (seqsToConsensus (← chars j "order") (← strList j "seqs")))
  | "count_matrix" => some do
      let seqs ← strList j "seqs"
      let order ← chars j "order"
      pure (jList (fun i => jList (fun c => jNat (countAt seqs i c)) order) (List.range (seqLength seqs)))
  | "rank_frequency" => some do
      let data ← (← arr j "data").toList.mapM fun x => match x with
        | .null => pure none
        | v => do pure (some (← ratOfJson v))
      pure (jList (fun p => Json.arr #[jRat p.1, jNat p.2]) (rankFrequency (← bool j "normalize") data))
  | "labels_to_colors" => some do
      let labels ← (← arr j "labels").toList.mapM fun x => x.getStr?
      let shuffled ← (← arr j "shuffled").toList.mapM fun x => x.getStr?
      let palette ← natList j "palette"
      let mc ← match optField j "min_count" with
        | none => pure none
        | some v => do pure (some (← v.getNat?))
      pure (jList (jOpt jNat) (labelsToColors labels mc shuffled palette))
  | "density_scatter" => some do
      let xs ← ratList j "x"
      let ys ← ratList j "y"
      pure (jList (fun p => Json.arr #[jRat p.1.1, jRat p.1.2, jNat p.2]) (densityScatterDiscrete (← bool j "sort") (xs.zip ys)))
  | "multimerge" => some do
      let cellOf : Json → R (Option (List Char)) := fun x => match x with
        | .null => pure none
        | .str v => pure (some v.toList)
        | _ => throw "cell: string or null expected"
      let tables ← (← arr j "tables").toList.mapM fun t => do
        let cols ← strList t "cols"
        let rows ← (← arr t "rows").toList.mapM fun r => match r with
          | .arr #[.str k, .arr cells] => do pure (k.toList, ← cells.toList.mapM cellOf)
          | _ => throw "row: [key, [cells]] expected"
        pure ({ cols := cols, rows := rows } : KTable (List Char) (List Char))
      let sfx ← match optField j "suffixes" with
        | none => pure none
        | some _ => do pure (some (← strList j "suffixes"))
      let enc := fun (out : KTable (List Char) (List Char)) => Json.mkObj [("cols", jList jStr out.cols),
        ("rows", jList (fun r => Json.arr #[jStr r.1, jList (jOpt jStr) r.2]) out.rows)]
      match optField j "how" with
      | some (.str h) => do
          -- the code's own shape: a fold of pairwise joins, for every `how`
          let how ← match h with
            | "outer" => pure JoinHow.outer | "inner" => pure JoinHow.inner
            | "left" => pure JoinHow.left | "right" => pure JoinHow.right
            | _ => throw "how: outer | inner | left | right"
          match multimergeHow how sfx tables with
          | some out => pure (enc out)
          | none => throw "multimerge of an empty list"
      | _ => pure (enc (multimerge (← bool j "outer") sfx tables))
  | "split_matrix" => some do
      pure (jList (jList jInt) (splitMatrix (← intMatrix j "lower") (← intMatrix j "upper") (← natList j "ind")))
  | _ => none

end Prs.Drv
