/- Driver/Stats.lean — line-protocol operations over Model/Stats, Model/Stats2, Model/Metric, Model/Graph. -/
import Prs.Driver.Json
import Prs.Model.Stats2
import Prs.Model.Graph
import Prs.Model.Tables
import Prs.Model.Linkage
open Lean
namespace Prs.Drv

/-- cells: JSON string or null -/
def cellOfJson (x : Json) : R Cell :=
  match x with
  | .null => pure none
  | .str s => pure (some s.toList)
  | _ => throw "cell: string or null expected"

def rowsOf (j : Json) (k : String) : R (List (List Cell)) := do
  (← arr j k).toList.mapM fun r => match r with
    | .arr a => a.toList.mapM cellOfJson
    | _ => throw "rows: array of arrays expected"

def optStrList (j : Json) (k : String) : R (List (Option (List Char))) := do
  (← arr j k).toList.mapM cellOfJson

def sepOf (j : Json) : R Char := do
  match (← str j "sep").toList with
  | [c] => pure c
  | _ => throw "sep: one character expected"

def jRatOpt : Option Rat → Json := jOpt jRat

/-- exact distance table for metrics given by the harness: strs × strs matrix -/
def tableDist (j : Json) : R (List Char → List Char → Rat) := do
  let strs ← strList j "strs"
  let rows ← arr j "dm"
  let mat ← rows.mapM fun r => match r with
    | .arr a => a.mapM ratOfJson
    | _ => throw "dm: matrix expected"
  let idx := (strs.zipIdx).foldl (fun (m : Std.HashMap String Nat) p => m.insert (String.ofList p.1) p.2) {}
  pure fun a b =>
    match idx[String.ofList a]?, idx[String.ofList b]? with
    | some i, some k => ((mat[i]?.bind (·[k]?)).getD (-1))
    | _, _ => -1

/-- metric by name: "lev", "wlev" (wi wd ws), or "table" -/
def metricOf (j : Json) : R (List Char → List Char → Rat) := do
  let m ← str j "metric"
  if m == "lev" then pure fun a b => (levDP a b : Rat)
  else if m == "wlev" then do
    let wi ← nat j "wi"; let wd ← nat j "wd"; let ws ← nat j "ws"
    pure fun a b => (wlevDP wi wd ws a b : Rat)
  else if m == "table" then tableDist j
  else throw s!"bad metric {m}"

def keysSorted (ks : List String) : List String := (dedup ks).mergeSort (fun a b => decide (a ≤ b))

def opStats (op : String) (j : Json) : Option (R Json) :=
  match op with
  | "counts" => some do pure (jList jNat (counts (← strList j "xs")))
  | "pc_n" => some do
      let n ← natList j "n"
      pure (if n.sum < 2 then Json.null else jRat (pcN n))
  | "pc1" => some do
      let xs ← strList j "xs"
      pure (if xs.length < 2 then Json.null else jRat (pc1 xs))
  | "pc2" => some do
      let as ← strList j "as"; let bs ← strList j "bs"
      pure (if as.length < 1 || bs.length < 1 then Json.null else jRat (pc2 as bs))
  | "p3hat" => some do
      let n ← natList j "n"
      pure (if n.sum < 3 then Json.null else jRat (p3hat n))
  | "varpc_n" => some do
      let n ← natList j "n"
      pure (if n.sum < 4 then Json.null else jRat (varpcN n))
  | "pc_table" => some do
      let rows ← rowsOf j "rows"
      match optField j "rows2" with
      | none => pure (if rows.length < 2 then Json.null else jRat (pcTable rows))
      | some _ => do
        let rows2 ← rowsOf j "rows2"
        pure (if rows.length < 1 || rows2.length < 1 then Json.null else jRat (pcTable2 rows rows2))
  | "pc_joint" => some do
      let rows ← rowsOf j "rows"
      let sep ← sepOf j
      match optField j "rows2" with
      | none => pure (if rows.length < 2 then Json.null else jRat (pcJoint sep rows))
      | some _ => do
        let rows2 ← rowsOf j "rows2"
        pure (if rows.length < 1 || rows2.length < 1 then Json.null else jRat (pcJoint2 sep rows rows2))
  | "encode_row" => some do
      let row ← (← arr j "row").toList.mapM cellOfJson
      pure (jStr (encodeRow (← sepOf j) row))
  | "chao1" => some do
      let f ← ratList j "f"
      if f.isEmpty then throw "IndexError" else pure (jRat (chao1 f))
  | "var_chao" => some do
      let f ← ratList j "f"
      if f.isEmpty then throw "IndexError" else pure (jRatOpt (varChao f))
  | "chao2" => some do
      let f ← ratList j "f"
      if f.isEmpty then throw "IndexError" else pure (jRatOpt (chao2 f))
  | "jaccard" => some do
      let a := dropNA (← optStrList j "a"); let b := dropNA (← optStrList j "b")
      if unionCard a b = 0 then throw "ZeroDivisionError" else pure (jRat (jaccard a b))
  | "overlap" => some do
      pure (jNat (overlapCount (dropNA (← optStrList j "a")) (dropNA (← optStrList j "b"))))
  | "overlap_coefficient" => some do
      pure (jRatOpt (overlapCoefficient (dropNA (← optStrList j "a")) (dropNA (← optStrList j "b"))))
  | "histogram" => some do
      pure (jList jNat (histogram (← ratList j "edges") (← ratList j "vals")))
  | "pcdelta" => some do
      -- normalize=False counts; one or two collections; metric by name
      let d ← metricOf j
      let edges ← ratList j "edges"
      let xs ← strList j "xs"
      match optField j "xs2" with
      | none => pure (jList jNat (pcDeltaCounts d edges xs))
      | some _ => pure (jList jNat (pcDeltaCrossCounts d edges xs (← strList j "xs2")))
  | "pcdelta_norm" => some do
      let d ← metricOf j
      let edges ← ratList j "edges"
      let xs ← strList j "xs"
      let c ← rat j "pseudocount"
      let h := match optField j "xs2" with
        | none => pure (pcDeltaCounts d edges xs)
        | some _ => do pure (pcDeltaCrossCounts d edges xs (← strList j "xs2"))
      let h ← h
      if h.sum = 0 && c = 0 then pure Json.null else pure (jList jRat (normalizeHist h c))
  | "normalize_hist" => some do
      let h ← natList j "h"
      let c ← rat j "pseudocount"
      if h.sum = 0 && c = 0 then pure Json.null else pure (jList jRat (normalizeHist h c))
  | "pdist_vec" => some do
      pure (jList jRat (pdistVec (← metricOf j) (← strList j "xs")))
  | "pdist_loop" => some do
      pure (jList jRat (pdistLoop (← metricOf j) (← strList j "xs")))
  | "cdist_mat" => some do
      pure (jList (jList jRat) (cdistMat (← metricOf j) (← strList j "as") (← strList j "bs")))
  | "condensed" => some do
      let m ← (← arr j "m").toList.mapM fun r => match r with
        | .arr a => a.toList.mapM ratOfJson
        | _ => throw "m: matrix expected"
      pure (jList jRat (condensed m))
  | "condensed_index" => some do
      pure (jNat (condensedIndex (← nat j "m") (← nat j "i") (← nat j "j")))
  | "pc_conditional" => some do
      -- rows: [[key, value]] as strings; weights optional list of rationals; stat = pc1 of the values
      let tbl ← (← arr j "tbl").toList.mapM fun r => match r with
        | .arr #[.str k, .str v] => pure (k, v.toList)
        | _ => throw "tbl: [key, value] expected"
      let keys := keysSorted (tbl.map (·.1))
      let w ← match optField j "weights" with
        | none => pure none
        | some _ => do pure (some (← ratList j "weights"))
      pure (jRatOpt (pcConditional (fun g => pc1 g) keys tbl w))
  | "pc_grouped_cross" => some do
      let tbl ← (← arr j "tbl").toList.mapM fun r => match r with
        | .arr #[.str k, .str v] => pure (k, v.toList)
        | _ => throw "tbl: [key, value] expected"
      let keys := keysSorted (tbl.map (·.1))
      pure (Json.mkObj [("keys", jList Json.str keys),
        ("m", jList (jList (jOpt jRat)) (pcGroupedCross (fun a b => pc2 a b) keys tbl))])
  | "group_rows" => some do
      let tbl ← (← arr j "tbl").toList.mapM fun r => match r with
        | .arr #[.str k, .str v] => pure (k, v.toList)
        | _ => throw "tbl: [key, value] expected"
      let keys := keysSorted (tbl.map (·.1))
      pure (jList (fun g => Json.arr #[Json.str g, jList jStr (groupRows tbl g)]) keys)
  | "components" => some do
      let n ← nat j "n"
      let edges ← (← arr j "edges").toList.mapM fun e => match e with
        | .arr #[a, b] => do pure ((← a.getNat?), (← b.getNat?))
        | _ => throw "edges: [u, v] expected"
      pure (jList jNat (components n edges))
  | "single_linkage" => some do
      -- dm: square matrix of distances; with "t": the flat clusters at height t, without: the merge heights
      let dm ← (← arr j "dm").toList.mapM fun row => match row with
        | .arr a => a.toList.mapM ratOfJson
        | _ => throw "dm: rows expected"
      let n := dm.length
      let d : Nat → Nat → Rat := fun a b => (dm.getD a []).getD b 0
      match optField j "t" with
      | some tv => do
          let t ← ratOfJson tv
          pure (jList (jList jNat) (flatSingle d n t))
      | none => pure (jList jRat (singleHeights d n))
  | "graph_clustering_cc" => some do
      let n ← nat j "n"
      let edges ← (← arr j "edges").toList.mapM fun e => match e with
        | .arr #[a, b] => do pure ((← a.getNat?), (← b.getNat?))
        | _ => throw "edges: [u, v] expected"
      pure (jList (fun p => Json.arr #[jNat p.1, jNat p.2]) (graphClusteringCC n edges))
  | "recount" => some do
      let r := recount (← natList j "sample")
      pure (Json.arr #[jList jNat r.1, jList jNat r.2])
  | "unpack_counts" => some do pure (jList jNat (unpackCounts (← natList j "counts")))
  | "default_metric" => some do
      let m := defaultMetric (← bool j "isTable") (← bool j "hasA") (← bool j "hasB")
      pure (Json.str (match m with
        | .levenshtein => "Levenshtein" | .alphaCdr3 => "AlphaCdr3Levenshtein"
        | .betaCdr3 => "BetaCdr3Levenshtein" | .cdr3 => "Cdr3Levenshtein"))
  | "background_bins" => some do pure (jList jNat (backgroundBins (← natList j "index")))
  | _ => none

end Prs.Drv
