/- Model/Tables.lean — decidable checks on bundled data tables (core Lean only). -/
namespace Prs

/-- symmetric with zero diagonal, by peeling the first row and the first column (`fuel` = size) -/
def symmZero : Nat → List (List Nat) → Bool
  | 0, M => M.all List.isEmpty
  | fuel+1, M =>
    match M with
    | [] => true
    | [] :: _ => false
    | (a :: r') :: rest =>
        a == 0 && (rest.map fun row => row.headD 1) == r' && rest.all (fun row => !row.isEmpty) &&
          symmZero fuel (rest.map List.tail)

/-- square of size n, symmetric, zero diagonal -/
def tableOk (n : Nat) (M : List (List Nat)) : Bool :=
  M.length == n && M.all (fun r => r.length == n) && symmZero n M

/-- `load_pcDelta_background`: bins = index values followed by last + 1 -/
def backgroundBins (index : List Nat) : List Nat :=
  match index.getLast? with
  | some l => index ++ [l + 1]
  | none => index

/-- value looked up by labels (`_lookup(df, row_labels, col_labels)` for one pair) -/
def tableLookup (index : List String) (M : List (List Nat)) (r c : String) : Option Nat :=
  let i := index.idxOf r
  let j := index.idxOf c
  if i < index.length ∧ j < index.length then (M[i]?.bind (·[j]?)) else none

end Prs
