/-
Model/Summary.lean — sequence summaries and plot data (pyrepseq/util.py, plotting.py), core Lean only.

  logomaker.alignment_to_matrix (counts, gaps '-' ignored) → countAt / residuesAt
  seqs_to_regex(align=False)                               → seqsToRegex : List RegexItem ; matching → fullMatch
  seqs_to_consensus(align=False)                           → seqsToConsensus
  rankfrequency data                                       → rankFrequency
  labels_to_colors_* lookup                                → labelsToColors
  ClusterGridSplit.plot_matrix                             → splitMatrix
-/
import Prs.Model.Search
namespace Prs

def gapChar : Char := '-'

/-- residues of column `i` over all sequences (gaps dropped), in sequence order -/
def columnResidues (seqs : List (List Char)) (i : Nat) : List Char :=
  (seqs.filterMap fun s => s[i]?).filter (· ≠ gapChar)

/-- number of sequences showing residue `c` at position `i` (the count matrix of seqlogos) -/
def countAt (seqs : List (List Char)) (i : Nat) (c : Char) : Nat := (columnResidues seqs i).count c

/-- one position of the generated regular expression: the observed residues (sorted as logomaker's
columns are, passed in as `order`) and whether the position is optional (some sequence has a gap) -/
structure RegexItem where
  chars : List Char
  optional : Bool
  deriving DecidableEq, Repr

def seqLength (seqs : List (List Char)) : Nat := (seqs.map List.length).foldl max 0

/-- `seqs_to_regex(seqs, align=False)`; `order` = logomaker's column order (sorted residue letters) -/
def seqsToRegex (order : List Char) (seqs : List (List Char)) : List RegexItem :=
  (List.range (seqLength seqs)).map fun i =>
    let res := columnResidues seqs i
    { chars := order.filter fun c => decide (c ∈ res), optional := decide (res.length ≠ seqs.length) }

/-- full match of a word against the item list: each item consumes one of its characters, or nothing
when optional (a character class / single character followed by `?`) -/
def fullMatch : List RegexItem → List Char → Bool
  | [], w => w.isEmpty
  | it :: rest, w =>
      (match w with
       | c :: w' => it.chars.contains c && fullMatch rest w'
       | [] => false) || (it.optional && fullMatch rest w)

/-- most frequent residue of a column, first in `order` among ties (pandas idxmax) -/
def argmaxResidue (order : List Char) (seqs : List (List Char)) (i : Nat) : Option Char :=
  order.foldl (fun best c =>
    match best with
    | none => some c
    | some b => if countAt seqs i b < countAt seqs i c then some c else some b) none

/-- `seqs_to_consensus(seqs, align=False)`: positions where more than half are gaps are skipped -/
def seqsToConsensus (order : List Char) (seqs : List (List Char)) : List Char :=
  (List.range (seqLength seqs)).filterMap fun i =>
    let ngaps := seqs.length - (columnResidues seqs i).length
    if ngaps > seqs.length / 2 then none else argmaxResidue order seqs i

/-- `rankfrequency` data: non-missing values, optionally normalised, descending, against rank 0.. -/
def rankFrequency (normalize : Bool) (data : List (Option Rat)) : List (Rat × Nat) :=
  let vals := data.filterMap id
  let tot := vals.foldl (· + ·) 0
  let vals := if normalize then vals.map (· / tot) else vals
  (vals.mergeSort (fun a b => decide (b ≤ a))).zipIdx

/-- label → colour lookup: `labels` sorted distinct (np.unique) filtered by `min_count`, paired with the
palette in a (shuffled) order `perm` of those labels; labels not in the table are black (`none`) -/
def labelsToColors {L C : Type} [DecidableEq L] (labels : List L) (minCount : Option Nat)
    (shuffled : List L) (palette : List C) : List (Option C) :=
  let keep := shuffled.filter fun l => match minCount with
    | none => true
    | some m => decide (m ≤ labels.count l)
  let lut := keep.zip palette
  labels.map fun l => (lut.find? fun p => p.1 == l).map (·.2)

/-- `ClusterGridSplit.plot_matrix`: tril(lower[ind, ind]) + triu(upper[ind, ind]) — below the diagonal
the lower data, above it the upper data, ON the diagonal their sum -/
def splitMatrix (lower upper : List (List Int)) (ind : List Nat) : List (List Int) :=
  ind.zipIdx.map fun ri => ind.zipIdx.map fun cj =>
    let l := ((lower[ri.1]?.bind (·[cj.1]?)).getD 0)
    let u := ((upper[ri.1]?.bind (·[cj.1]?)).getD 0)
    if cj.2 < ri.2 then l else if ri.2 < cj.2 then u else l + u

end Prs
