/-
Model/Output.lean — argument validation, output decoding, max_returns and the TCRdist filter
(pyrepseq/nn.py), core Lean only.

  _check_common_input            → checkCommonInput over an abstract description of the arguments
  reading triplets back from the dense / COO matrix → decodeDense
  _cal_custom_dist sorted(...)[0:limit] / rapidfuzz extract(limit=) → takeBest (stable sort by value)
  nearest_neighbor_tcrdist       → nnTcrdist
-/
import Prs.Model.Engines
namespace Prs

/-- what `_check_common_input` looks at, abstracted from the Python objects -/
structure ArgDesc where
  nSeqs : Nat                -- len(seqs)
  allStr : Bool              -- every element of seqs has type str / np.str_
  maxEditsIsInt : Bool       -- type(max_edits) == int
  maxEdits : Int
  maxReturnsIsNone : Bool
  maxReturnsIsInt : Bool
  maxReturns : Int
  nCpuIsInt : Bool
  nCpu : Int
  customOk : Bool            -- custom_distance in (None, 'hamming') or callable with d(x, x) == 0
  mcdIsNumber : Bool         -- type(max_custom_distance) in (int, float)
  mcdNonneg : Bool           -- max_custom_distance >= 0   (False for NaN)
  outputKnown : Bool         -- output_type in {'coo_matrix', 'triplets', 'ndarray'}
  seqs2IsNone : Bool
  seqs2AllStr : Bool

/-- true = all assertions pass (the call proceeds); false = AssertionError -/
def checkCommonInput (a : ArgDesc) : Bool :=
  decide (0 < a.nSeqs) && a.allStr && (a.maxEditsIsInt && decide (0 < a.maxEdits)) &&
  ((a.maxReturnsIsInt && decide (0 < a.maxReturns)) || a.maxReturnsIsNone) &&
  (a.nCpuIsInt && decide (0 < a.nCpu)) && a.customOk && (a.mcdIsNumber && a.mcdNonneg) &&
  a.outputKnown && (a.seqs2IsNone || a.seqs2AllStr)

/-- read the non-zero entries of a dense matrix back as triplets (query, reference, value) -/
def decodeDense (M : List (List Int)) : List (Trip Int) :=
  M.zipIdx.flatMap fun ri => ri.1.zipIdx.filterMap fun vq =>
    if vq.1 = 0 then none else some (vq.2, ri.2, vq.1)

/-- `sorted(cands, key = value)[0:limit]` (Python's sort is stable); `none` keeps everything -/
def takeBest {D : Type} (le : D → D → Bool) (m : Option Nat) (all : List (Trip D)) : List (Trip D) :=
  match m with
  | none => all.mergeSort (fun a b => le a.2.2 b.2.2)
  | some m => (all.mergeSort (fun a b => le a.2.2 b.2.2)).take m

/-- Python slice `s[ntrim:-ctrim]` for ctrim ≥ 1 -/
def trimSlice (ntrim ctrim : Nat) (s : List Char) : List Char :=
  (s.take (s.length - ctrim)).drop ntrim

/-- `nearest_neighbor_tcrdist`: edit-distance candidates on `editSeqs` (trimmed or raw CDR3s),
TCRdist = V-gene table distance `vd i j` + CDR3 distance `cd i j` of rows i, j (already summed over
the requested chains), kept when ≤ maxT -/
def nnTcrdist (k : Nat) (editSeqs : List (List Char)) (vd cd : Nat → Nat → Rat) (maxT : Rat) :
    List (Trip Rat) :=
  (symdelDefault k editSeqs).filterMap fun t =>
    let v := vd t.1 t.2.1 + cd t.1 t.2.1
    if v ≤ maxT then some (t.1, t.2.1, v) else none

end Prs
