/-
Model/Graph.lean — executable model of `graph_clustering(..., clustering='cc')` (core Lean only).
igraph's `connected_components(mode='weak')` is external; it is modelled by reachability closure.
Vertices are 0..n-1; an edge list entry (u, v) is undirected; entries with an endpoint ≥ n never
occur (igraph raises) and are ignored by the model.
-/
import Prs.Model.Search
namespace Prs

/-- neighbours of the vertices in `front` (both edge orientations) -/
def nbrsOf (edges : List (Nat × Nat)) (front : List Nat) : List Nat :=
  edges.flatMap fun e =>
    (if front.contains e.1 then [e.2] else []) ++ (if front.contains e.2 then [e.1] else [])

/-- one closure round: add all neighbours of the current set -/
def closeOnce (edges : List (Nat × Nat)) (cur : List Nat) : List Nat := dedup (cur ++ nbrsOf edges cur)

/-- vertices reachable from `v` in at most `r` steps -/
def reachIn (edges : List (Nat × Nat)) : Nat → Nat → List Nat
  | 0, v => [v]
  | r+1, v => closeOnce edges (reachIn edges r v)

/-- reachable set of `v` in a graph with `n` vertices (n rounds suffice) -/
def reachable (n : Nat) (edges : List (Nat × Nat)) (v : Nat) : List Nat := reachIn edges n v

/-- canonical component label: the smallest reachable vertex -/
def compLabel (n : Nat) (edges : List (Nat × Nat)) (v : Nat) : Nat :=
  (reachable n edges v).foldl min v

/-- membership vector (canonical labels) -/
def components (n : Nat) (edges : List (Nat × Nat)) : List Nat :=
  (List.range n).map (compLabel n edges)

/-- `graph_clustering(neighbors, nodes, 'cc')`: rows (node position, cluster label) of the nodes
    whose cluster has more than one member, in node order -/
def graphClusteringCC (n : Nat) (edges : List (Nat × Nat)) : List (Nat × Nat) :=
  let lab := components n edges
  (lab.zipIdx.filter fun li => decide (1 < lab.count li.1)).map fun li => (li.2, li.1)

end Prs
