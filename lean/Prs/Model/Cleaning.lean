/-
Model/Cleaning.lean — input cleaning predicates and table functions of pyrepseq/io.py (core Lean only).

`PyObj` abstracts the Python objects the predicates may receive, with exactly the behaviour the code
relies on: iteration (`for c in obj`), membership of each item in the amino-acid set (needs hashability),
indexing `obj[0]`, `obj[-1]`. `Except PyErr` reproduces which exception escapes.
-/
import Prs.Model.Search
namespace Prs

inductive PyErr | typeError | indexError | keyError | other
  deriving DecidableEq, Repr

/-- items an iteration can yield -/
inductive PyItem
  | char (c : Char)          -- a one-character string
  | str (s : List Char)      -- a longer / empty string
  | int (n : Int)
  | unhashable               -- e.g. a list inside a list: `x in set` raises TypeError
  | otherHashable            -- any other hashable object (None, float, tuple, …)
  deriving DecidableEq, Repr

inductive PyObj
  | str (s : List Char)
  | bytes (b : List Nat)
  | none
  | nan                      -- float('nan')
  | int (n : Int)
  | float                    -- any other float
  | list (items : List PyItem)
  | tuple (items : List PyItem)
  | dict (keys : List PyItem)      -- iteration yields keys; indexing looks up the KEY 0 / -1
  | set (items : List PyItem)      -- iteration works, indexing raises TypeError
  | other                           -- not iterable
  deriving Repr

/-- `for c in obj`: the items, or TypeError when the object is not iterable -/
def PyObj.iter : PyObj → Except PyErr (List PyItem)
  | .str s => .ok (s.map .char)
  | .bytes b => .ok (b.map fun (n : Nat) => .int (n : Int))
  | .list xs => .ok xs
  | .tuple xs => .ok xs
  | .dict ks => .ok ks
  | .set xs => .ok xs
  | _ => .error .typeError

/-- `c in _aminoacids_set` -/
def itemInAA (A : List Char) : PyItem → Except PyErr Bool
  | .char c => .ok (A.contains c)
  | .str _ => .ok false
  | .int _ => .ok false
  | .otherHashable => .ok false
  | .unhashable => .error .typeError

/-- `all(c in _aminoacids_set for c in obj)` with short-circuit on the first False -/
def allInAA (A : List Char) : List PyItem → Except PyErr Bool
  | [] => .ok true
  | x :: xs => do
      let b ← itemInAA A x
      if b then allInAA A xs else pure false

/-- `isvalidaa`: `try: return all(...) except TypeError: return False` -/
def isvalidaa (A : List Char) (o : PyObj) : Except PyErr Bool :=
  match (do let items ← o.iter; allInAA A items) with
  | .ok b => .ok b
  | .error .typeError => .ok false
  | .error e => .error e

/-- `obj[i]` for i = 0 (first = true) or -1 -/
def PyObj.index (o : PyObj) (first : Bool) : Except PyErr PyItem :=
  let pick (xs : List PyItem) : Except PyErr PyItem :=
    match (if first then xs.head? else xs.getLast?) with
    | some x => .ok x
    | Option.none => .error .indexError
  match o with
  | .str s => pick (s.map .char)
  | .bytes b => pick (b.map fun (n : Nat) => .int (n : Int))
  | .list xs => pick xs
  | .tuple xs => pick xs
  | .dict ks => if ks.contains (.int (if first then 0 else -1)) then .ok .otherHashable else .error .keyError
  | .set _ => .error .typeError
  | _ => .error .typeError

/-- the body of `isvalidcdr3` before exception handling:
    `isvalidaa(s) and s[0] == "C" and s[-1] in ["F", "W", "C"]` (short-circuit) -/
def isvalidcdr3Body (A : List Char) (o : PyObj) : Except PyErr Bool := do
  let ok ← isvalidaa A o
  if !ok then pure false else
  let a ← o.index true
  if a ≠ .char 'C' then pure false else
  let z ← o.index false
  pure (z = .char 'F' || z = .char 'W' || z = .char 'C')

/-- `isvalidcdr3` with the set of exceptions it catches (`caught`); the repaired code catches
    TypeError, IndexError and KeyError -/
def isvalidcdr3With (caught : List PyErr) (A : List Char) (o : PyObj) : Except PyErr Bool :=
  match isvalidcdr3Body A o with
  | .ok b => .ok b
  | .error e => if caught.contains e then .ok false else .error e

def isvalidcdr3 (A : List Char) (o : PyObj) : Except PyErr Bool :=
  isvalidcdr3With [.typeError, .indexError, .keyError] A o

/-! ### standardize_dataframe: cell-local transformation of the standard columns -/
abbrev TCell := Option (List Char)          -- none = missing

/-- a table: column names and rows (index labels carried along untouched) -/
structure Table where
  columns : List String
  index : List String
  rows : List (List TCell)

def standardColumns : List String :=
  ["TRAV", "CDR3A", "TRAJ", "TRBV", "CDR3B", "TRBJ", "Epitope", "MHCA", "MHCB"]

/-- rename columns through `col_mapper` (absent names unchanged) -/
def renameColumns (mapper : List (String × String)) (cols : List String) : List String :=
  cols.map fun c => match mapper.find? (fun p => p.1 == c) with
    | some p => p.2
    | none => c

/-- `standardize_dataframe(df, col_mapper, standardize, …)`; `f col cell` is the tidytcells
standardiser of that column under the chosen options (external), applied to non-missing cells of the
nine standard columns only -/
def standardizeTable (mapper : List (String × String)) (standardize : Bool)
    (f : String → List Char → TCell) (t : Table) : Table :=
  let cols := renameColumns mapper t.columns
  { columns := cols, index := t.index,
    rows := t.rows.map fun r =>
      (r.zip cols).map fun cc =>
        if standardize && standardColumns.contains cc.2 then
          match cc.1 with
          | some v => f cc.2 v
          | none => none
        else cc.1 }

end Prs
