/-
Model/Neighbors.lean — the set utilities built on the one-edit generators (pyrepseq/distance.py),
core Lean only.

  next_nearest_neighbors      → nextNearest
  find_neighbor_pairs         → findNeighborPairs   (parametrised by the processing order = sorted(set(seqs)))
  find_neighbor_pairs_index   → findNeighborPairsIndex
  calculate_neighbor_numbers  → neighborNumbers
  isdist1                     → isdist1
  _isdist2_hamming/_isdist3   → isdistHam 2 / isdistHam 3 (via subsExact)
  nndist_hamming              → nndistHamming       (none = NotImplementedError)
-/
import Prs.Model.Search
namespace Prs
variable {S : Type} [DecidableEq S]

/-- level d+1 of the iterated neighbourhood: neighbours of the previous level (as a set) -/
def nnLevel (nb : S → List S) (x : S) : Nat → List S
  | 0 => nb x
  | d+1 => dedup ((nnLevel nb x d).flatMap nb)

/-- `next_nearest_neighbors(x, nb, maxdistance)`: union of levels 1..maxdistance without x
    (the while loop runs maxdistance-1 times; maxdistance < 1 behaves like 1) -/
def nextNearest (nb : S → List S) (x : S) (maxdistance : Nat) : List S :=
  (dedup ((List.range (max maxdistance 1)).flatMap (nnLevel nb x))).filter (· ≠ x)

/-- `find_neighbor_pairs`: `order` is `sorted(set(seqs))`; while x is processed the reference still
    holds x and everything after it -/
def findNeighborPairs (nb : S → List S) : List S → List (S × S)
  | [] => []
  | x :: rest => ((dedup (nb x)).filter (fun y => decide (y ∈ x :: rest))).map (fun y => (x, y))
                  ++ findNeighborPairs nb rest

/-- `find_neighbor_pairs_index(seqs)`: (position of x, FIRST position of the neighbour y) -/
def findNeighborPairsIndex (nb : S → List S) (xs : List S) : List (Nat × Nat) :=
  xs.zipIdx.flatMap fun xi =>
    ((dedup (nb xi.1)).filter (fun y => decide (y ∈ xs))).map fun y => (xi.2, xs.idxOf y)

/-- `calculate_neighbor_numbers(seqs, reference)`; `reference = none` means `set(seqs)` -/
def neighborNumbers (nb : S → List S) (xs : List S) (reference : Option (List S)) : List Nat :=
  let ref := reference.getD xs
  xs.map fun x => ((dedup (nb x)).filter (fun y => decide (y ∈ ref))).length

/-- `isdist1(x, reference, nb)` -/
def isdist1 (nb : S → List S) (x : S) (ref : List S) : Bool := (nb x).any fun y => decide (y ∈ ref)

section ham
variable {α : Type} [DecidableEq α]

/-- all strings obtained from s by substituting EXACTLY n positions (in increasing order) by a
    different letter of A — the nested loops of `_isdist2_hamming` / `_isdist3_hamming` -/
def subsExact (A : List α) : Nat → List α → List (List α)
  | 0, s => [s]
  | _+1, [] => []
  | n+1, c :: s =>
      ((A.filter (· ≠ c)).flatMap fun a => (subsExact A n s).map (a :: ·))
        ++ (subsExact A (n+1) s).map (c :: ·)

def isdistHam (A : List α) (n : Nat) (x : List α) (ref : List (List α)) : Bool :=
  (subsExact A n x).any fun y => decide (y ∈ ref)

/-- `nndist_hamming(seq, reference, maxdist)`; `none` = NotImplementedError (maxdist > 4) -/
def nndistHamming (A : List α) (seq : List α) (ref : List (List α)) (maxdist : Nat) : Option Nat :=
  if maxdist > 4 then none
  else if seq ∈ ref then some 0
  else if maxdist == 1 || isdist1 (hamNeighbors A) seq ref then some 1
  else if maxdist == 2 || isdistHam A 2 seq ref then some 2
  else if maxdist == 3 || isdistHam A 3 seq ref then some 3
  else some 4
end ham

end Prs
