/-
Model/Merge.lean — io.multimerge on uniquely keyed tables (core Lean only).

  multimerge(dfs, on, suffixes=None, how="outer"):
      with suffixes: every table (zip(dfs, suffixes): the shorter list decides) gets "_" + suffix
      appended to its column names; then the tables are joined on the key — the index or the column
      `on` — by folding pandas.merge over the list.
  The model works on the keyed view (key, cells) of each table — whether the key lives in the index
  or in a named column is the harness's canonicalisation — and describes the join directly: one row
  per join key (union of the key sets for "outer", intersection for "inner"), holding the tables'
  cells side by side, missing where a table has no such key.  Row order is not modelled (pandas sorts
  the keys of an outer join); results are compared as key → row maps.
-/
import Prs.Model.Search
namespace Prs

/-- a table: named value columns, one row of cells per key -/
structure KTable (K V : Type) where
  cols : List (List Char)
  rows : List (K × List (Option V))

section merge
variable {K V : Type} [DecidableEq K]

def KTable.keys (t : KTable K V) : List K := t.rows.map (·.1)

/-- `df.add_suffix("_" + s)` -/
def KTable.addSuffix (t : KTable K V) (s : List Char) : KTable K V :=
  { t with cols := t.cols.map fun c => c ++ '_' :: s }

/-- the tables actually joined: suffixed pairwise when suffixes are given (and non-empty) -/
def suffixed (suffixes : Option (List (List Char))) (tables : List (KTable K V)) : List (KTable K V) :=
  match suffixes with
  | none => tables
  | some [] => tables
  | some ss => (tables.zip ss).map fun p => p.1.addSuffix p.2

/-- keys of the join: union (outer) or intersection (inner) of the tables' key sets -/
def joinKeys (outer : Bool) (tables : List (KTable K V)) : List K :=
  if outer then dedup (tables.flatMap KTable.keys)
  else match tables with
    | [] => []
    | t :: rest => (dedup t.keys).filter fun k => rest.all fun u => u.keys.contains k

/-- the cells a table contributes for key k: its row, or one missing cell per column -/
def cellsFor (t : KTable K V) (k : K) : List (Option V) :=
  match t.rows.find? (fun r => r.1 == k) with
  | some r => r.2
  | none => List.replicate t.cols.length none

/-- the join of the (already suffixed) tables -/
def mergeTables (outer : Bool) (ts : List (KTable K V)) : KTable K V :=
  { cols := ts.flatMap (·.cols)
    rows := (joinKeys outer ts).map fun k => (k, ts.flatMap fun t => cellsFor t k) }

/-- `multimerge(dfs, on=key, suffixes, how=outer|inner)` -/
def multimerge (outer : Bool) (suffixes : Option (List (List Char))) (tables : List (KTable K V)) :
    KTable K V := mergeTables outer (suffixed suffixes tables)

/-- well-formed: keys unique, every row as wide as the header -/
def KTable.WF (t : KTable K V) : Prop := t.keys.Nodup ∧ ∀ r ∈ t.rows, r.2.length = t.cols.length

/-- the value of table `t` at (key, column index) — `none` when the key is absent, `some cell` otherwise -/
def KTable.cell? (t : KTable K V) (k : K) (j : Nat) : Option (Option V) :=
  match t.rows.find? (fun r => r.1 == k) with
  | some r => r.2[j]?
  | none => none
end merge

end Prs

namespace Prs
/-! ### the code's own shape: a left fold of pandas.merge over the list, for every `how`

`multimerge` is `reduce(lambda l, r: pd.merge(l, r, ..., how=how), dfs)`.  `mergeTwo` is one such step on uniquely keyed tables
and `multimergeFold` the fold.  For `outer` and `inner` the fold equals the direct description `mergeTables` (Proofs/MergeFold);
for `left` it keeps the keys of the first table with every table's cells beside them; for `right` the keys of the last table. -/

inductive JoinHow where
  | outer | inner | left | right
  deriving DecidableEq, Repr

section fold
variable {K V : Type} [DecidableEq K]

/-- one `pd.merge(a, b, on=key, how=how)` on uniquely keyed tables -/
def mergeTwo (how : JoinHow) (a b : KTable K V) : KTable K V :=
  let keys := match how with
    | .outer => dedup (a.keys ++ b.keys)
    | .inner => (dedup a.keys).filter fun k => b.keys.contains k
    | .left => dedup a.keys
    | .right => dedup b.keys
  { cols := a.cols ++ b.cols, rows := keys.map fun k => (k, cellsFor a k ++ cellsFor b k) }

/-- `reduce(merge, tables)` (`none` for an empty list: Python's reduce raises) -/
def multimergeFold (how : JoinHow) : List (KTable K V) → Option (KTable K V)
  | [] => none
  | t :: ts => some (ts.foldl (mergeTwo how) t)

/-- `multimerge(dfs, on, suffixes, how=how)` as the code computes it -/
def multimergeHow (how : JoinHow) (suffixes : Option (List (List Char))) (tables : List (KTable K V)) :
    Option (KTable K V) := multimergeFold how (suffixed suffixes tables)

end fold
end Prs
