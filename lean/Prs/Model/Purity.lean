/-
Model/Purity.lean — abstract model of call purity (C20), core Lean only.

`Cell`s are the package's mutable module-level state: module globals that some function rebinds
(`nn._cal_params`) and the mutable objects bound to default arguments (`cbar_kws={...}` …).
Each public function is an operation with a FOOTPRINT extracted from the source by
tools/gen_footprints.py (Generated/Footprints.lean):
  reads            cells whose value may influence the result
  writes           cells the call may modify
  writesBeforeRead cells the call overwrites before it reads them (rewritten on every call)
  mutatesArgs      the call may mutate an object passed by the caller
-/
namespace Prs

abbrev CellId := Nat

structure Footprint where
  name : String
  reads : List CellId
  writes : List CellId
  writesBeforeRead : List CellId
  mutatesArgs : Bool
  deriving Repr, DecidableEq

/-- cells whose incoming value the operation depends on -/
def Footprint.readsIn (fp : Footprint) : List CellId :=
  fp.reads.filter fun c => !fp.writesBeforeRead.contains c

/-- the side condition checked on the generated table: no caller-argument mutation, and no operation
writes a cell whose incoming value some operation (itself included) depends on -/
def footprintsOk (table : List Footprint) : Bool :=
  table.all fun op => !op.mutatesArgs &&
    op.writes.all fun c => table.all fun op' => !op'.readsIn.contains c

/-- an operation: footprint + semantics over argument `A`, cell values `V`, result `R` -/
structure Op (A V R : Type) where
  fp : Footprint
  run : A → (CellId → V) → R × (CellId → V)

/-- the semantics respects the footprint -/
def Op.Respects {A V R : Type} (op : Op A V R) : Prop :=
  (∀ a s c, c ∉ op.fp.writes → (op.run a s).2 c = s c) ∧
  (∀ a s s', (∀ c ∈ op.fp.readsIn, s c = s' c) → (op.run a s).1 = (op.run a s').1)

/-- run a history of calls, threading the state; collect the results -/
def runHistory {A V R : Type} : List (Op A V R × A) → (CellId → V) → List R × (CellId → V)
  | [], s => ([], s)
  | (op, a) :: rest, s =>
      let r := op.run a s
      let rr := runHistory rest r.2
      (r.1 :: rr.1, rr.2)

end Prs
