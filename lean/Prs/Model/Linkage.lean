/-
Model/Linkage.lean — single-linkage agglomerative clustering and its flat clusters (core Lean only).

  scipy.cluster.hierarchy.linkage(y, method='single') followed by fcluster(Z, t, criterion='distance'),
  as used by distance.hierarchical_clustering and plotting.similarity_clustermap, on the pairwise
  distances d(i, j) of n observations.

  The model is the textbook agglomeration: start from singletons; repeatedly merge the two clusters
  at the smallest single-linkage distance (= smallest point distance between them; first such pair in
  row-major order), recording the merge height; `flatSingle t` stops as soon as that smallest
  distance exceeds t — for single linkage the merge heights are non-decreasing, so this is the cut
  of the dendrogram at height t (fcluster's 'distance' criterion).
-/
import Prs.Model.Search
namespace Prs

/-- single-linkage distance between two clusters: the smallest point distance (`none` if one is empty) -/
def clusterDist (d : Nat → Nat → Rat) (A B : List Nat) : Option Rat :=
  (A.flatMap fun a => B.map fun b => d a b).foldl
    (fun acc x => match acc with | none => some x | some m => if x < m then some x else some m) none

/-- all pairs of clusters (i < j, by position) with their single-linkage distance -/
def clusterPairs (d : Nat → Nat → Rat) (cs : List (List Nat)) : List (Nat × Nat × Rat) :=
  (List.range cs.length).flatMap fun i => (List.range cs.length).filterMap fun j =>
    if i < j then (clusterDist d (cs.getD i []) (cs.getD j [])).map fun h => (i, j, h) else none

/-- the first pair at minimal distance -/
def closestPair (ps : List (Nat × Nat × Rat)) : Option (Nat × Nat × Rat) :=
  ps.foldl (fun acc x => match acc with | none => some x | some m => if x.2.2 < m.2.2 then some x else some m) none

/-- replace clusters i and j (i < j) by their union, appended at the end (SciPy gives the new cluster the next id) -/
def mergeClusters (cs : List (List Nat)) (i j : Nat) : List (List Nat) :=
  ((cs.eraseIdx j).eraseIdx i) ++ [cs.getD i [] ++ cs.getD j []]

/-- one agglomeration step under the cut height t (`none` = no limit): `none` when finished -/
def linkStep (d : Nat → Nat → Rat) (t : Option Rat) (cs : List (List Nat)) : Option (List (List Nat) × Rat) :=
  match closestPair (clusterPairs d cs) with
  | none => none
  | some (i, j, h) =>
    match t with
    | some tt => if h ≤ tt then some (mergeClusters cs i j, h) else none
    | none => some (mergeClusters cs i j, h)

/-- run at most `fuel` steps; returns the final clusters and the merge heights in order -/
def linkRun (d : Nat → Nat → Rat) (t : Option Rat) : Nat → List (List Nat) → List (List Nat) × List Rat
  | 0, cs => (cs, [])
  | fuel + 1, cs =>
    match linkStep d t cs with
    | none => (cs, [])
    | some (cs', h) => let r := linkRun d t fuel cs'; (r.1, h :: r.2)

/-- singletons 0..n-1 -/
def singletons (n : Nat) : List (List Nat) := (List.range n).map fun i => [i]

/-- flat single-linkage clusters at height t (n - 1 merges at most) -/
def flatSingle (d : Nat → Nat → Rat) (n : Nat) (t : Rat) : List (List Nat) :=
  (linkRun d (some t) n (singletons n)).1

/-- the merge heights of the full dendrogram (column 2 of SciPy's linkage matrix) -/
def singleHeights (d : Nat → Nat → Rat) (n : Nat) : List Rat :=
  (linkRun d none n (singletons n)).2

/-- `fcluster`-style labelling: the position of the cluster containing v -/
def flatLabel (cs : List (List Nat)) (v : Nat) : Option Nat := cs.findIdx? fun c => c.contains v

end Prs
