/-
Model/Metric.lean — matrix / condensed-vector layout of pyrepseq metrics (core Lean only).

  Metric.calc_cdist_matrix      → cdistMat
  scipy squareform(checks=False) on a square matrix → condensed (row-major strict upper triangle)
  WeightedLevenshtein.calc_pdist_vector → pdistVec = condensed ∘ cdistMat
  distance.pdist (explicit double loop)  → pdistLoop
  distance.cdist (explicit double loop)  → cdistMat
-/
import Prs.Model.Lev
namespace Prs
variable {S D : Type}

/-- entry [i][j] = f as[i] bs[j] -/
def cdistMat (f : S → S → D) (as bs : List S) : List (List D) :=
  as.map fun a => bs.map fun b => f a b

/-- row-major strict upper triangle of a (square) matrix -/
def condensed (M : List (List D)) : List D :=
  M.zipIdx.flatMap fun ri => ri.1.drop (ri.2 + 1)

/-- `calc_pdist_vector(xs)` -/
def pdistVec (f : S → S → D) (xs : List S) : List D := condensed (cdistMat f xs xs)

/-- `distance.pdist(xs, metric=f)`: for i in range(m-1): for j in range(i+1, m): f(xs[i], xs[j]) -/
def pdistLoop (f : S → S → D) : List S → List D
  | [] => []
  | x :: xs => xs.map (f x) ++ pdistLoop f xs

/-- position of the pair (i, j), i < j < m, in the condensed vector -/
def condensedIndex (m i j : Nat) : Nat := m * i + j - ((i + 2) * (i + 1)) / 2

end Prs
