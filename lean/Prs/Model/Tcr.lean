/-
Model/Tcr.lean — TcrLevenshtein metric family (pyrepseq/metric/tcr_metric/tcr_levenshtein.py), core Lean.

A row after `_expand_v_gene_cdrs`: the CDR3s come from the table, CDR1/CDR2 are those of the row's V
allele (supplied by tidytcells — external; "" when the allele has no such loop).
  _get_columns_to_compare        → columnsToCompare (the literal column names, same order)
  _calc_cdist_matrix_for_column  → columnWeight (substring tests "A"/"B" and "1"/"2"/"3" on the name)
  calc_cdist_matrix              → tcrCdist ; calc_pdist_vector → tcrPdist
  TcrMetric validation           → isStandardFormat
-/
import Prs.Model.Metric
import Prs.Proofs.LevDP
namespace Prs

structure TcrRow where
  cdr1a : List Char
  cdr2a : List Char
  cdr3a : List Char
  cdr1b : List Char
  cdr2b : List Char
  cdr3b : List Char

inductive ChainScope | paired | alpha | beta deriving DecidableEq, Repr
inductive CdrScope | all | cdr3 deriving DecidableEq, Repr

structure TcrWeights where
  wi : Nat := 1
  wd : Nat := 1
  ws : Nat := 1
  alphaW : Nat := 1
  betaW : Nat := 1
  cdr1W : Nat := 1
  cdr2W : Nat := 1
  cdr3W : Nat := 1

/-- `itertools.product(cdr_prefixes, chain_suffixes)`: prefixes CDR3 (, CDR1, CDR2), suffixes A / B -/
def columnsToCompare (cs : ChainScope) (ds : CdrScope) : List String :=
  let prefixes := match ds with
    | .cdr3 => ["CDR3"]
    | .all => ["CDR3", "CDR1", "CDR2"]
  let suffixes := (if cs = .paired ∨ cs = .alpha then ["A"] else []) ++
                  (if cs = .paired ∨ cs = .beta then ["B"] else [])
  prefixes.flatMap fun p => suffixes.map fun s => p ++ s

/-- the weight multiplied onto a column's distance matrix, selected by substring tests on its name -/
def columnWeight (w : TcrWeights) (col : String) : Nat :=
  (if col.toList.contains 'A' then w.alphaW else if col.toList.contains 'B' then w.betaW else 1) *
  (if col.toList.contains '1' then w.cdr1W else if col.toList.contains '2' then w.cdr2W
   else if col.toList.contains '3' then w.cdr3W else 1)

/-- `df[column]` on an expanded row -/
def colValue (r : TcrRow) (col : String) : List Char :=
  if col = "CDR1A" then r.cdr1a else if col = "CDR2A" then r.cdr2a else if col = "CDR3A" then r.cdr3a
  else if col = "CDR1B" then r.cdr1b else if col = "CDR2B" then r.cdr2b else if col = "CDR3B" then r.cdr3b
  else []

/-- distance between two rows: sum over the compared columns of weight × weighted Levenshtein -/
def tcrDist (cs : ChainScope) (ds : CdrScope) (w : TcrWeights) (r1 r2 : TcrRow) : Nat :=
  ((columnsToCompare cs ds).map fun col =>
    columnWeight w col * wlev w.wi w.wd w.ws (colValue r1 col) (colValue r2 col)).sum

def tcrCdist (cs : ChainScope) (ds : CdrScope) (w : TcrWeights) (as bs : List TcrRow) : List (List Nat) :=
  cdistMat (tcrDist cs ds w) as bs

def tcrPdist (cs : ChainScope) (ds : CdrScope) (w : TcrWeights) (xs : List TcrRow) : List Nat :=
  pdistVec (tcrDist cs ds w) xs

/-- `is_in_standard_format`: a DataFrame with at least one TCR column -/
def isStandardFormat (isDataFrame : Bool) (columns : List String) : Bool :=
  isDataFrame && columns.any fun c => ["TRAV", "CDR3A", "TRAJ", "TRBV", "CDR3B", "TRBJ"].contains c

end Prs
