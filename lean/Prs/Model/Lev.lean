/-
Model/Lev.lean — string distances (core Lean only, no Mathlib).

`lev`   : textbook 3-way recursion; the *specification* standing in for rapidfuzz
          `Levenshtein.distance` (trusted base: rapidfuzz is external, validated differentially).
`wlev`  : weighted variant, weights (insertion, deletion, substitution) in rapidfuzz's
          convention: turning `a` into `b`, a deletion removes a letter of `a`,
          an insertion adds a letter of `b`.
`ham`   : mismatches for equal lengths, `none` (Python: `np.inf`) otherwise
          (`nn._hamming_replacement`).
`levDP` / `wlevDP` : row-by-row dynamic programme used by the driver (proved equal in Proofs/LevDP).
-/
namespace Prs
variable {α : Type} [DecidableEq α]

def lev : List α → List α → Nat
  | [], ys => ys.length
  | xs, [] => xs.length
  | x :: xs, y :: ys =>
      min (min (lev xs (y :: ys) + 1) (lev (x :: xs) ys + 1))
          (lev xs ys + (if x = y then 0 else 1))
termination_by xs ys => xs.length + ys.length

/-- weighted Levenshtein `a → b`; `wi` insertion, `wd` deletion, `ws` substitution -/
def wlev (wi wd ws : Nat) : List α → List α → Nat
  | [], ys => wi * ys.length
  | xs, [] => wd * xs.length
  | x :: xs, y :: ys =>
      min (min (wlev wi wd ws xs (y :: ys) + wd) (wlev wi wd ws (x :: xs) ys + wi))
          (wlev wi wd ws xs ys + (if x = y then 0 else ws))
termination_by xs ys => xs.length + ys.length

/-- number of mismatching positions of two lists, position by position (shorter length) -/
def mismatches : List α → List α → Nat
  | x :: xs, y :: ys => (if x = y then 0 else 1) + mismatches xs ys
  | _, _ => 0

/-- `_hamming_replacement`: `none` encodes `np.inf` -/
def ham (a b : List α) : Option Nat :=
  if a.length = b.length then some (mismatches a b) else none

/-! ### dynamic programme (suffix rows, right to left) -/

/-- one DP row step. `prev[j] = wlev xs (ys.drop j)`; result`[j] = wlev (x::xs) (ys.drop j)` -/
def wnextRow (wi wd ws : Nat) (x : α) : List α → List Nat → List Nat
  | [], p :: _ => [p + wd]
  | y :: ys, p0 :: p1 :: ps =>
      match wnextRow wi wd ws x ys (p1 :: ps) with
      | r0 :: rs =>
          (min (min (p0 + wd) (r0 + wi)) (p1 + (if x = y then 0 else ws))) :: r0 :: rs
      | [] => []
  | _, _ => []

/-- `wlev [] (ys.drop j)` for all j -/
def wbaseRow (wi : Nat) : List α → List Nat
  | [] => [0]
  | y :: ys => (wi * (ys.length + 1)) :: wbaseRow wi ys

def wrowDP (wi wd ws : Nat) : List α → List α → List Nat
  | [], ys => wbaseRow wi ys
  | x :: xs, ys => wnextRow wi wd ws x ys (wrowDP wi wd ws xs ys)

def wlevDP (wi wd ws : Nat) (xs ys : List α) : Nat := (wrowDP wi wd ws xs ys).headD 0

def levDP (xs ys : List α) : Nat := wlevDP 1 1 1 xs ys

end Prs
