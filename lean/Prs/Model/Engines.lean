/-
Model/Engines.lean — the public search functions of pyrepseq/nn.py as instances of the generic
engines of Model/Search.lean, one per mode (default / 'hamming' / custom callable).

  nearest_neighbor(xs, k) = symdel(xs, k)                 → symdelDefault
  symdel(ref, k, seqs2 = qs) = SymdelDB(ref, k).lookup(qs) → symdelTwoDefault
  hash_based(xs, k)                                       → hashDefault   (LookupDB, pdist_mode)
  kdtree(xs, k, compression = c)                          → kdDefault
  … custom_distance='hamming'                             → symdelHamming / symdelTwoHamming / hashHamming / kdHamming
  … custom_distance=cd, max_custom_distance               → symdelCustom / symdelTwoCustom / hashCustom / kdCustom
`A` is the fixed amino-acid alphabet of the code (`aminoacids`), a parameter here.
-/
import Prs.Model.Search
import Prs.Spec.Scores
namespace Prs
variable {α : Type} [DecidableEq α]

/-! default mode -/
def symdelDefault (k : Nat) (xs : List (List α)) : List (Trip Nat) :=
  symdelSelf (delVariants k) (levScore k) xs
def symdelTwoDefault (k : Nat) (ref qs : List (List α)) : List (Trip Nat) :=
  symdelLookup (delVariants k) (levScore k) ref qs
/-- `LookupDB(ref).lookup(qs, k, pdist_mode)`: custom distance defaults to Levenshtein recomputed
on the hit, infinite radius -/
def lookupDefault (A : List α) (pdist : Bool) (ref qs : List (List α)) (k : Nat) : List (Trip Nat) :=
  lookupDB (levNeighbors A) (fun a b => lev a b) (fun _ => true) pdist ref qs k
def hashDefault (A : List α) (xs : List (List α)) (k : Nat) : List (Trip Nat) :=
  lookupDefault A true xs xs k
def kdDefault (A : List α) (c k : Nat) (xs : List (List α)) : Option (List (Trip Nat)) :=
  kdtreeSelf A c k (levScore k) xs

/-! Hamming mode -/
def symdelHamming (k : Nat) (xs : List (List α)) : List (Trip Nat) :=
  symdelSelf (delVariants k) (hamScore k) xs
def symdelTwoHamming (k : Nat) (ref qs : List (List α)) : List (Trip Nat) :=
  symdelLookup (delVariants k) (hamScore k) ref qs
/-- hash_based in Hamming mode: substitution ball, value = `_hamming_replacement(seq, hit)`
(`none` = np.inf, which passes `<= inf`) -/
def hashHamming (A : List α) (xs : List (List α)) (k : Nat) : List (Trip (Option Nat)) :=
  lookupDB (hamNeighbors A) (fun a b => ham a b) (fun _ => true) true xs xs k
def kdHamming (A : List α) (c k : Nat) (xs : List (List α)) : Option (List (Trip Nat)) :=
  kdtreeHamming A c k (hamScore k) xs

/-! custom distance `cd` with radius test `inR` (`fun d => d ≤ max_custom_distance`) -/
section custom
variable {D : Type} [DecidableEq D]
def symdelCustom (k : Nat) (cd : List α → List α → D) (inR : D → Bool) (xs : List (List α)) :
    List (Trip D) := symdelSelf (delVariants k) (customScore k cd inR) xs
def symdelTwoCustom (k : Nat) (cd : List α → List α → D) (inR : D → Bool) (ref qs : List (List α)) :
    List (Trip D) := symdelLookup (delVariants k) (customScore k cd inR) ref qs
def hashCustom (A : List α) (cd : List α → List α → D) (inR : D → Bool) (xs : List (List α))
    (k : Nat) : List (Trip D) := lookupDB (levNeighbors A) cd inR true xs xs k
def kdCustom (A : List α) (c k : Nat) (cd : List α → List α → D) (inR : D → Bool)
    (xs : List (List α)) : Option (List (Trip D)) := kdtreeSelf A c k (customScore k cd inR) xs
end custom

end Prs
