/-
Model/Radius.lean — the one floating-point decision inside the search engines (core Lean only).

  nn._kdtree_leven:   params = {"r": np.sqrt(2) * max_edits, ...};  tree.query_ball_point(matrix, **params)
  SciPy's cKDTree (p = 2) keeps a candidate when its squared Euclidean distance d² — an exact small
  integer for letter-count vectors — satisfies  d² ≤ r·r  in IEEE-754 double arithmetic.

  Lean's `Float` is the same binary64 arithmetic and its + − × ÷ / ofNat reduce in the kernel, so
  the radius actually computed by the code and the comparison SciPy performs can be modelled
  bit-exactly.  Non-negative doubles are ordered like their bit patterns, which is how `inBall`
  compares them.  `sqrt2Bits` is regenerated from the source expression by the translator
  (Generated/Radius.lean) and compared with NumPy's value on every run.
-/
import Prs.Generated.Radius
namespace Prs

/-- `np.sqrt(2)` as a double -/
def sqrt2 : Float := Float.ofBits Generated.sqrt2Bits

/-- the radius the code passes to the ball query: `np.sqrt(2) * max_edits` (one rounding) -/
def radius (k : Nat) : Float := sqrt2 * Float.ofNat k

/-- SciPy's test for a candidate at integer squared distance `sq`: `sq ≤ r·r` in doubles -/
def inBall (r : Float) (sq : Nat) : Bool := (Float.ofNat sq).toBits ≤ (r * r).toBits

/-- a pair at the largest squared distance k edits can produce (k substitutions of one letter by one
other letter: 2k²) is still inside the ball of the computed radius -/
def radiusCovers (k : Nat) : Bool := inBall (radius k) (2 * k * k)

end Prs
