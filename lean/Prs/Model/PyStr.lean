/-
Model/PyStr.lean — the few Python built-ins the translated loop functions (Generated/NeighborLoops.lean,
written by tools/gen_loops.py) are expressed in: indexing and slicing of a string with Python's treatment of
negative and out-of-range positions, and `range`.  Core Lean only.

A string is a `List α` (α = characters); positions are `Int` because Python code computes `i - 1` on them.
`x[i]` outside the string raises IndexError in Python; here it reads `default` (no translated function
reaches such a position on the inputs its theorem is stated for; the correspondence check runs the real code).
-/
namespace Prs.Py
variable {α : Type}

/-- Python's normalisation of an index against a length: a negative index counts from the end -/
def norm (len : Nat) (i : Int) : Int := if i < 0 then i + (len : Int) else i

/-- `x[i]` -/
def get [Inhabited α] (x : List α) (i : Int) : α :=
  let j := norm x.length i
  if j < 0 then default else x.getD j.toNat default

/-- `x[:i]` (clamped like Python: an end before the start gives the empty string) -/
def sliceTo (x : List α) (i : Int) : List α := x.take (norm x.length i).toNat

/-- `x[i:]` -/
def sliceFrom (x : List α) (i : Int) : List α := x.drop (norm x.length i).toNat

/-- `range(a, b)` -/
def range (a b : Int) : List Int := (List.range (b - a).toNat).map fun k : Nat => a + (k : Int)

/-- `enumerate(l)` -/
def enumerate {β : Type} (l : List β) : List (Int × β) := l.zipIdx.map fun p => ((p.2 : Int), p.1)

/-- `l.index(y)` (ValueError when absent is modelled as `len(l)`; the translated code only looks up members) -/
def index {β : Type} [DecidableEq β] (l : List β) (y : β) : Int := (l.idxOf y : Int)

end Prs.Py
