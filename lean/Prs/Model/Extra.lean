/-
Model/Extra.lean — further modelled behaviour (core Lean only).

  density_scatter(discrete=True): np.unique(points, axis=0, return_counts=True) then argsort by count
      → uniquePoints / densityScatterDiscrete
  io.multimerge on tables with unique keys (outer / inner join of all tables on the key)
      → joinKeys / multimerge
-/
import Prs.Model.Search
namespace Prs

/-! ### density_scatter, discrete mode -/

/-- lexicographic order on points (the row order of `np.unique(axis=0)`) -/
def pointLe (a b : Rat × Rat) : Bool := decide (a.1 < b.1) || (decide (a.1 = b.1) && decide (a.2 ≤ b.2))

/-- distinct points in lexicographic order, each with its multiplicity -/
def uniquePoints (pts : List (Rat × Rat)) : List ((Rat × Rat) × Nat) :=
  ((dedup pts).mergeSort pointLe).map fun p => (p, pts.count p)

/-- what is handed to `ax.scatter`: with `sort` the points are ordered by multiplicity (stable), so
the densest are drawn last -/
def densityScatterDiscrete (sort : Bool) (pts : List (Rat × Rat)) : List ((Rat × Rat) × Nat) :=
  if sort then (uniquePoints pts).mergeSort (fun a b => decide (a.2 ≤ b.2)) else uniquePoints pts

/-! ### multimerge on uniquely keyed tables -/
section merge
variable {K : Type} [DecidableEq K]

/-- a table: one row of cells per key (keys unique), `width` cells per row -/
structure KeyedTable (K : Type) where
  width : Nat
  rows : List (K × List (Option (List Char)))

/-- keys of the join: union (outer) or intersection (inner) of the tables' key sets -/
def joinKeys (outer : Bool) (tables : List (KeyedTable K)) : List K :=
  if outer then dedup (tables.flatMap fun t => t.rows.map (·.1))
  else match tables with
    | [] => []
    | t :: rest => (dedup (t.rows.map (·.1))).filter fun k => rest.all fun u => (u.rows.map (·.1)).contains k

/-- the cells a table contributes for key k: its row, or `width` missing cells -/
def cellsFor (t : KeyedTable K) (k : K) : List (Option (List Char)) :=
  match t.rows.find? (fun r => r.1 == k) with
  | some r => r.2
  | none => List.replicate t.width none

/-- `multimerge(dfs, on=key, how=outer|inner)`: one row per join key, the tables' cells side by side -/
def multimerge (outer : Bool) (tables : List (KeyedTable K)) : List (K × List (Option (List Char))) :=
  (joinKeys outer tables).map fun k => (k, tables.flatMap fun t => cellsFor t k)
end merge

end Prs
