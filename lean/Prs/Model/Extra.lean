/-
Model/Extra.lean — density_scatter(discrete=True) (core Lean only).

  points, counts = np.unique(zip(x, y), axis=0, return_counts=True); with `sort` the points are
  reordered by count so that the densest are drawn last
      → uniquePoints / densityScatterDiscrete
-/
import Prs.Model.Search
namespace Prs

/-- lexicographic order on points (the row order of `np.unique(axis=0)`) -/
def pointLe (a b : Rat × Rat) : Bool := decide (a.1 < b.1) || (decide (a.1 = b.1) && decide (a.2 ≤ b.2))

/-- distinct points in lexicographic order, each with its multiplicity -/
def uniquePoints (pts : List (Rat × Rat)) : List ((Rat × Rat) × Nat) :=
  ((dedup pts).mergeSort pointLe).map fun p => (p, pts.count p)

/-- what is handed to `ax.scatter`: with `sort` the points are ordered by multiplicity, so the densest
are drawn last (NumPy's argsort is not stable; the model picks the stable order, the theorems and the
harness use only that the result is a permutation sorted by multiplicity) -/
def densityScatterDiscrete (sort : Bool) (pts : List (Rat × Rat)) : List ((Rat × Rat) × Nat) :=
  if sort then (uniquePoints pts).mergeSort (fun a b => decide (a.2 ≤ b.2)) else uniquePoints pts

end Prs
