/-
Model/Search.lean — executable model of pyrepseq/nn.py search engines and of the one-edit
generators of pyrepseq/distance.py (core Lean only).

Python → model
  _comb_gen                  → delVariants            (as a set)
  SymdelDB.__init__          → buildIndex             (dict key → increasing positions)
  symdel (self mode)         → symdelSelf
  SymdelDB.lookup            → symdelLookup
  levenshtein_neighbors      → levNeighbors           (same yield order)
  hamming_neighbors          → hamNeighbors
  _generate_neighbors        → bfsBall                (same dict insertion order)
  LookupDB.__init__/lookup   → positionsOf / lookupDB
  _histogram_encode          → histEncode
  KDTree.query_ball_point    → ballQuery              (integer squared distance ≤ 2k², trusted)
  _cal_levenshtein/_custom   → kdCandidates / kdtreeSelf
  _to_len_bucket + kdtree    → kdtreeHamming
  Pool.map(chunksize)        → chunks / poolMap
  _make_output               → cooDense
Every engine is parametrised by `score : S → S → Option D`: `some d` = the pair is kept
and reported with value d; `none` = filtered out.
-/
import Prs.Model.Lev
namespace Prs

/-! ### small list utilities with first-occurrence order (Python dict / set insertion order) -/
section util
variable {β : Type} [DecidableEq β]

/-- remove later duplicates, keep first occurrences in order -/
def dedup : List β → List β
  | [] => []
  | x :: xs => x :: (dedup xs).filter (· ≠ x)

/-- `itertools.combinations(l, 2)` -/
def pairsOf {γ : Type} : List γ → List (γ × γ)
  | [] => []
  | x :: xs => xs.map (fun y => (x, y)) ++ pairsOf xs

/-- positions (increasing) of the elements satisfying `p` -/
def positionsWhere {γ : Type} (p : γ → Bool) (xs : List γ) : List Nat :=
  (xs.zipIdx.filter (fun q => p q.1)).map (·.2)

/-- `LookupDB.seq_dict[s]` (empty when absent) -/
def positionsOf (xs : List β) (s : β) : List Nat := positionsWhere (· == s) xs
end util

abbrev Trip (D : Type) := Nat × Nat × D

/-! ### symmetric deletion (symdel) -/
section symdel
variable {α : Type} [DecidableEq α]

/-- `_comb_gen(seq, k)` as a set: every subsequence missing at most k letters -/
def delVariants : Nat → List α → List (List α)
  | _, [] => [[]]
  | 0, x :: s => [x :: s]
  | k+1, x :: s => (delVariants (k+1) s).map (x :: ·) ++ delVariants k s

variable {S V D : Type} [DecidableEq V] [DecidableEq D]

/-- keys of `variant_dict` in insertion order -/
def allKeys (vs : S → List V) (xs : List S) : List V := dedup (xs.flatMap vs)

/-- `SymdelDB.variant_dict` : key ↦ increasing list of positions whose variant set has the key -/
def buildIndex (vs : S → List V) (xs : List S) : List (V × List Nat) :=
  (allKeys vs xs).map fun key => (key, positionsWhere (fun s => decide (key ∈ vs s)) xs)

/-- `symdel(seqs)` without `seqs2`: all position pairs sharing a key, scored, both orientations, as a set -/
def symdelSelf (vs : S → List V) (score : S → S → Option D) (xs : List S) : List (Trip D) :=
  dedup ((buildIndex vs xs).flatMap fun kv =>
    (pairsOf kv.2).flatMap fun ij =>
      match xs[ij.1]?, xs[ij.2]? with
      | some a, some b =>
          match score a b with
          | some d => [(ij.1, ij.2, d), (ij.2, ij.1, d)]
          | none => []
      | _, _ => [])

/-- `SymdelDB(ref).lookup(qs)`: triplets (query position, reference position, value) -/
def symdelLookup (vs : S → List V) (score : S → S → Option D) (ref qs : List S) : List (Trip D) :=
  qs.zipIdx.flatMap fun qi =>
    let js := dedup ((vs qi.1).flatMap fun c => positionsWhere (fun s => decide (c ∈ vs s)) ref)
    js.filterMap fun j =>
      match ref[j]? with
      | some r => (score qi.1 r).map fun d => (qi.2, j, d)
      | none => none
end symdel

/-! ### one-edit generators (pyrepseq/distance.py) -/
section nbr
variable {α : Type} [DecidableEq α]

/-- deletions, skipping a position whose letter equals the previous one (`x[i] == x[i-1]`) -/
def delsAux : Option α → List α → List (List α)
  | _, [] => []
  | prev, c :: s => (if prev = some c then [] else [s]) ++ (delsAux (some c) s).map (c :: ·)

/-- substitutions by a different letter of the alphabet -/
def subsAux (A : List α) : List α → List (List α)
  | [] => []
  | c :: s => ((A.filter (· ≠ c)).map (· :: s)) ++ (subsAux A s).map (c :: ·)

/-- insertions, skipping the letter equal to the preceding one -/
def insAux (A : List α) : Option α → List α → List (List α)
  | prev, [] => (A.filter (fun a => prev ≠ some a)).map (fun a => [a])
  | prev, c :: s =>
      ((A.filter (fun a => prev ≠ some a)).map (· :: c :: s)) ++ (insAux A (some c) s).map (c :: ·)

/-- `levenshtein_neighbors(x, alphabet=A)` in yield order -/
def levNeighbors (A : List α) (x : List α) : List (List α) :=
  delsAux none x ++ subsAux A x ++ insAux A none x

/-- substitutions at position `i` -/
def subsAt (A : List α) (x : List α) (i : Nat) : List (List α) :=
  match x[i]? with
  | some c => (A.filter (· ≠ c)).map fun a => x.set i a
  | none => []

/-- `hamming_neighbors(x, alphabet=A, variable_positions=pos)` in yield order
    (positions outside the string raise IndexError in Python; the harness never sends them) -/
def hamNeighborsAt (A : List α) (pos : List Nat) (x : List α) : List (List α) :=
  pos.flatMap (subsAt A x)

/-- `hamming_neighbors(x, alphabet=A)` -/
def hamNeighbors (A : List α) (x : List α) : List (List α) := subsAux A x
end nbr

/-! ### hash based (LookupDB) -/
section lookup
variable {S D : Type} [DecidableEq S] [DecidableEq D]

/-- insert `(t, e)` unless the key is present (`if new_seq not in ans: ans[new_seq] = e`) -/
def insertIfAbsent (acc : List (S × Nat)) (t : S) (e : Nat) : List (S × Nat) :=
  if acc.any (fun p => p.1 == t) then acc else acc ++ [(t, e)]

/-- one level of `_generate_neighbors`: iterate over a snapshot of the keys, adding to `acc` -/
def bfsLevel (nb : S → List S) (e : Nat) (snapshot acc : List (S × Nat)) : List (S × Nat) :=
  snapshot.foldl (fun acc p => (nb p.1).foldl (fun acc t => insertIfAbsent acc t e) acc) acc

/-- `_generate_neighbors(q, k, ·)` as an insertion-ordered association list -/
def bfsFrom (nb : S → List S) : Nat → Nat → List (S × Nat) → List (S × Nat)
  | 0, _, ans => ans
  | n+1, e, ans => bfsFrom nb n (e+1) (bfsLevel nb e ans ans)

def bfsBall (nb : S → List S) (q : S) (k : Nat) : List (S × Nat) := bfsFrom nb k 1 [(q, 0)]

/-- `LookupDB(ref).lookup(qs, k, pdist_mode)`; `cd`/`keep` = custom distance and its radius test -/
def lookupDB (nb : S → List S) (cd : S → S → D) (keep : D → Bool) (pdist : Bool)
    (ref qs : List S) (k : Nat) : List (Trip D) :=
  qs.zipIdx.flatMap fun qi =>
    (bfsBall nb qi.1 k).flatMap fun pe =>
      (positionsOf ref pe.1).filterMap fun j =>
        if pdist && qi.2 == j then none
        else
          let d := cd qi.1 pe.1
          if keep d then some (qi.2, j, d) else none
end lookup

/-! ### kd-tree engine -/
section kd
variable {α : Type} [DecidableEq α]

/-- 0-based index of a letter in the alphabet (`position_map` before compression) -/
def letterIndex (A : List α) (c : α) : Option Nat :=
  let i := A.idxOf c
  if i < A.length then some i else none

/-- `_histogram_encode(s, c)`; `none` models the `KeyError` on a letter outside the alphabet -/
def histEncode (A : List α) (c : Nat) (s : List α) : Option (List Nat) :=
  if s.all (fun ch => (letterIndex A ch).isSome) then
    some ((List.range ((A.length + c - 1) / c)).map fun t =>
      s.countP fun ch => (letterIndex A ch).map (· / c) == some t)
  else none

/-- squared Euclidean distance of two count vectors (same length) -/
def sqdist : List Nat → List Nat → Nat
  | u :: us, v :: vs => (if u ≤ v then (v - u) * (v - u) else (u - v) * (u - v)) + sqdist us vs
  | _, _ => 0

/-- `tree.query_ball_point(matrix, r = sqrt 2 * k)`: for each row the positions (increasing)
    within squared distance 2k² — the float radius itself is not modelled -/
def ballQuery (k : Nat) (vs : List (List Nat)) : List (List Nat) :=
  vs.map fun v => positionsWhere (fun u => decide (sqdist v u ≤ 2 * k * k)) vs

variable {D : Type}

/-- candidates of query `i` after the self filter, scored; `limit = none` keeps all -/
def kdRow (score : List α → List α → Option D) (xs : List (List α)) (i : Nat) (cand : List Nat) :
    List (Trip D) :=
  match xs[i]? with
  | none => []
  | some q =>
    (cand.filter (· ≠ i)).filterMap fun j =>
      match xs[j]? with
      | some r => (score q r).map fun d => (i, j, d)
      | none => none

/-- `kdtree(xs, k, compression=c)` without `max_returns`, single process. `none` = KeyError -/
def kdtreeSelf (A : List α) (c k : Nat) (score : List α → List α → Option D) (xs : List (List α)) :
    Option (List (Trip D)) :=
  match xs.mapM (histEncode A c) with
  | none => none
  | some hs => some ((ballQuery k hs).zipIdx.flatMap fun ci => kdRow score xs ci.2 ci.1)

/-- `_to_len_bucket`: buckets keyed by length in order of first appearance, members in input order,
    each member carried with its ORIGINAL position -/
def lenBuckets (xs : List (List α)) : List (List (List α × Nat)) :=
  (dedup (xs.map List.length)).map fun l => xs.zipIdx.filter fun p => p.1.length == l

/-- `kdtree(custom_distance='hamming')`: each length bucket searched separately, bucket-local
    positions mapped back to original positions -/
def kdtreeHamming (A : List α) (c k : Nat) (score : List α → List α → Option D)
    (xs : List (List α)) : Option (List (Trip D)) :=
  ((lenBuckets xs).mapM fun b =>
    (kdtreeSelf A c k score (b.map (·.1))).map fun ts =>
      ts.map fun t => (((b.map (·.2))[t.1]?).getD 0, ((b.map (·.2))[t.2.1]?).getD 0, t.2.2)).map
    List.flatten
end kd

/-! ### process pool (multiprocessing.Pool.map with chunksize) -/
section pool
variable {β γ : Type}

/-- split into consecutive chunks of size `c` (last one shorter); `c = 0` is an error in CPython -/
def chunks (c : Nat) (xs : List β) : List (List β) :=
  if h : c = 0 ∨ xs = [] then [] else
    xs.take c :: chunks c (xs.drop c)
termination_by xs.length
decreasing_by
  have h1 : c ≠ 0 := fun e => h (Or.inl e)
  have h2 : xs ≠ [] := fun e => h (Or.inr e)
  have : 0 < xs.length := List.length_pos_iff.mpr h2
  simp only [List.length_drop]; omega

/-- abstract pool: tasks are chunks, completed in the order `sched` (task ids, any order, any
    repetition-free list covering all tasks); each completion fills slot `t`; the result is the
    concatenation of the slots in task order. Unfilled slots contribute nothing. -/
def poolRun (f : β → γ) (tasks : List (List β)) (sched : List Nat) : List (Option (List γ)) :=
  sched.foldl (fun slots t =>
      match tasks[t]? with
      | some ch => slots.set t (some (ch.map f))
      | none => slots)
    (tasks.map fun _ => none)

def poolMap (f : β → γ) (xs : List β) (c : Nat) (sched : List Nat) : List γ :=
  ((poolRun f (chunks c xs) sched).map fun s => s.getD []).flatten
end pool

/-! ### output formats (`_make_output`) -/
section output
/-- dense matrix of shape (nRef × nQry): entry [r][q] is the SUM of the values of all triplets
    (q, r, ·) — scipy's COO→dense conversion adds duplicates -/
def cooDense (trip : List (Trip Int)) (nRef nQry : Nat) : List (List Int) :=
  (List.range nRef).map fun r => (List.range nQry).map fun q =>
    ((trip.filter fun t => t.1 == q && t.2.1 == r).map (·.2.2)).foldl (· + ·) 0
end output

end Prs

/-! ### database objects queried repeatedly (SymdelDB / LookupDB histories) -/
namespace Prs
section db
variable {S V D : Type} [DecidableEq V] [DecidableEq D]

/-- `SymdelDB` object: the stored sequences and the stored inverted index -/
structure SymDB (S V : Type) where
  seqs : List S
  index : List (V × List Nat)

def SymDB.build (vs : S → List V) (xs : List S) : SymDB S V := ⟨xs, buildIndex vs xs⟩

/-- `variant_dict[key]` or nothing -/
def SymDB.get (db : SymDB S V) (key : V) : List Nat :=
  match db.index.find? (fun kv => kv.1 == key) with
  | some kv => kv.2
  | none => []

/-- `SymdelDB.lookup(qs)` reading the STORED index; returns the (unchanged) object and the answer -/
def SymDB.lookup (vs : S → List V) (score : S → S → Option D) (db : SymDB S V) (qs : List S) :
    SymDB S V × List (Trip D) :=
  (db, qs.zipIdx.flatMap fun qi =>
    let js := dedup ((vs qi.1).flatMap fun c => db.get c)
    js.filterMap fun j =>
      match db.seqs[j]? with
      | some r => (score qi.1 r).map fun d => (qi.2, j, d)
      | none => none)

/-- a history of lookups against one object: thread the state, collect the answers -/
def SymDB.run (vs : S → List V) (score : S → S → Option D) :
    SymDB S V → List (List S) → SymDB S V × List (List (Trip D))
  | db, [] => (db, [])
  | db, qs :: rest =>
      let r := SymDB.lookup vs score db qs
      let rr := SymDB.run vs score r.1 rest
      (rr.1, r.2 :: rr.2)
end db
end Prs

/-! ### LookupDB object queried repeatedly -/
namespace Prs
section lookdb
variable {S D : Type} [DecidableEq S] [DecidableEq D]

/-- `LookupDB` object: the stored sequences and the stored dictionary sequence ↦ positions -/
structure LookDB (S : Type) where
  seqs : List S
  dict : List (S × List Nat)

def LookDB.build (xs : List S) : LookDB S := ⟨xs, (dedup xs).map fun s => (s, positionsOf xs s)⟩

/-- `seq_dict[s]` or nothing -/
def LookDB.get (db : LookDB S) (s : S) : List Nat :=
  match db.dict.find? (fun kv => kv.1 == s) with
  | some kv => kv.2
  | none => []

/-- `LookupDB.lookup` reading the STORED dictionary; returns the (unchanged) object and the answer -/
def LookDB.lookup (nb : S → List S) (cd : S → S → D) (keep : D → Bool) (pdist : Bool)
    (db : LookDB S) (qs : List S) (k : Nat) : LookDB S × List (Trip D) :=
  (db, qs.zipIdx.flatMap fun qi =>
    (bfsBall nb qi.1 k).flatMap fun pe =>
      (db.get pe.1).filterMap fun j =>
        if pdist && qi.2 == j then none
        else
          let d := cd qi.1 pe.1
          if keep d then some (qi.2, j, d) else none)

def LookDB.run (nb : S → List S) (cd : S → S → D) (keep : D → Bool) (pdist : Bool) (k : Nat) :
    LookDB S → List (List S) → LookDB S × List (List (Trip D))
  | db, [] => (db, [])
  | db, qs :: rest =>
      let r := LookDB.lookup nb cd keep pdist db qs k
      let rr := LookDB.run nb cd keep pdist k r.1 rest
      (rr.1, r.2 :: rr.2)
end lookdb
end Prs
