/-
Model/Stats.lean — executable model of pyrepseq/stats.py coincidence statistics (core Lean only,
exact rational arithmetic; Python's float division is modelled over ℚ).

  pc_n      → pcN          pc (one sample) → pc1        pc (two samples) → pc2
  varpc_n   → varpcN       (stdpc_n = its real square root: Proofs/FormulasStd, C06_source_stdpc_n)
  np.unique(return_counts) → counts (order of first occurrence; pc is order independent)
-/
import Prs.Model.Search
namespace Prs

section counts
variable {β : Type} [DecidableEq β]

/-- multiplicities of the distinct values, in order of first occurrence -/
def counts (xs : List β) : List Nat := (dedup xs).map fun v => xs.count v

/-- Σ_v c_v · c'_v over the values of `as` (`np.intersect1d` of the unique values with counts) -/
def crossCount (as bs : List β) : Nat := ((dedup as).map fun v => as.count v * bs.count v).sum
end counts

/-- Σ n_i (n_i − 1) -/
def sumFall2 (n : List Nat) : Nat := (n.map fun c => c * (c - 1)).sum
/-- Σ n_i (n_i − 1)(n_i − 2) -/
def sumFall3 (n : List Nat) : Nat := (n.map fun c => c * (c - 1) * (c - 2)).sum

/-- `pc_n(n)` = Σ n_i(n_i−1) / (N(N−1)); meaningful for N ≥ 2 (NumPy gives nan/inf otherwise) -/
def pcN (n : List Nat) : Rat :=
  let N := n.sum
  (sumFall2 n : Rat) / ((N : Rat) * ((N : Rat) - 1))

def pc1 {β : Type} [DecidableEq β] (xs : List β) : Rat := pcN (counts xs)

def pc2 {β : Type} [DecidableEq β] (as bs : List β) : Rat :=
  (crossCount as bs : Rat) / ((as.length : Rat) * (bs.length : Rat))

/-- unbiased estimate of Σ p³ used inside `varpc_n` -/
def p3hat (n : List Nat) : Rat :=
  let N := n.sum
  (sumFall3 n : Rat) / ((N : Rat) * ((N : Rat) - 1) * ((N : Rat) - 2))

/-- `varpc_n(n)`, term by term as in the source -/
def varpcN (n : List Nat) : Rat :=
  let N : Rat := (n.sum : Rat)
  let p2 := pcN n
  let p3 := p3hat n
  let beta := 2 * (2 * N - 3) / ((N - 2) * (N - 3))
  4 * (N - 2) / (N * (N - 1)) * (1 + beta) * p3 - beta * p2 ^ 2 + 2 / (N * (N - 1)) * (1 + beta) * p2

end Prs
