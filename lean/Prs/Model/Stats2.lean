/-
Model/Stats2.lean — tables, histograms, grouped statistics, richness/overlap estimators and
resampling predicates (pyrepseq/stats.py, distance.py, entropy.py). Core Lean only, exact rationals.

  pc on a DataFrame: fillna("") then ".".join(str(v) for v in row)          → encodeRow '.' / pcTable
  pc_joint: gap_token.join(x.astype(str))                                    → encodeRow '_' / pcJoint
  numpy.histogram(values, bins=edges)                                        → histogram
  pcDelta (bins = 0 → pc; normalize; pseudocount)                            → pcDelta*
  pc_conditional / pc_grouped_cross / pcDelta_grouped(_cross)               → pcConditional / pcGroupedCross / …
  chao1, var_chao1, chao2, var_chao2, jaccard_index, overlap, overlap_coefficient
  subsample / downsample                                                     → IsSubsample / IsDownsample (relations)
-/
import Prs.Model.Stats
import Prs.Model.Metric
namespace Prs

/-! ### table rows -/
abbrev Cell := Option (List Char)        -- none = missing (NaN / None)

/-- cell text after `fillna("")` / `str(val)` -/
def cellText (c : Cell) : List Char := c.getD []

/-- `sep.join(cells)` -/
def joinWith (sep : Char) : List (List Char) → List Char
  | [] => []
  | [c] => c
  | c :: rest => c ++ sep :: joinWith sep rest

def encodeRow (sep : Char) (row : List Cell) : List Char := joinWith sep (row.map cellText)

/-- `pc(table)` / `pc(table, table2)`: rows serialised with '.' -/
def pcTable (rows : List (List Cell)) : Rat := pc1 (rows.map (encodeRow '.'))
def pcTable2 (rows rows2 : List (List Cell)) : Rat :=
  pc2 (rows.map (encodeRow '.')) (rows2.map (encodeRow '.'))
/-- `pc_joint(df, on)`: the selected columns joined with the gap token -/
def pcJoint (gap : Char) (rows : List (List Cell)) : Rat := pc1 (rows.map (encodeRow gap))
def pcJoint2 (gap : Char) (rows rows2 : List (List Cell)) : Rat :=
  pc2 (rows.map (encodeRow gap)) (rows2.map (encodeRow gap))

/-! ### numpy.histogram with explicit increasing edges -/
/-- value `v` falls in bin `b` of `edges` (half-open bins, the last one closed) -/
def inBin (edges : List Rat) (b : Nat) (v : Rat) : Bool :=
  match edges[b]?, edges[b+1]? with
  | some lo, some hi => decide (lo ≤ v) && (decide (v < hi) || (decide (b + 2 = edges.length) && decide (v = hi)))
  | _, _ => false

def histogram (edges : List Rat) (vals : List Rat) : List Nat :=
  (List.range (edges.length - 1)).map fun b => vals.countP (inBin edges b)

/-- `hist / sum(hist)` or `(hist + c) / (sum(hist) + 2c)` -/
def normalizeHist (h : List Nat) (pseudo : Rat) : List Rat :=
  let total : Rat := (h.sum : Rat)
  if pseudo = 0 then h.map fun (c : Nat) => (c : Rat) / total
  else h.map fun (c : Nat) => ((c : Rat) + pseudo) / (total + 2 * pseudo)

variable {S : Type}

/-- `pcDelta(xs, bins=edges, normalize=False)` -/
def pcDeltaCounts (d : S → S → Rat) (edges : List Rat) (xs : List S) : List Nat :=
  histogram edges (pdistVec d xs)
/-- `pcDelta(as, bs, bins=edges, normalize=False)` -/
def pcDeltaCrossCounts (d : S → S → Rat) (edges : List Rat) (as bs : List S) : List Nat :=
  histogram edges (cdistMat d as bs).flatten
def pcDeltaNorm (d : S → S → Rat) (edges : List Rat) (pseudo : Rat) (xs : List S) : List Rat :=
  normalizeHist (pcDeltaCounts d edges xs) pseudo
def pcDeltaCrossNorm (d : S → S → Rat) (edges : List Rat) (pseudo : Rat) (as bs : List S) : List Rat :=
  normalizeHist (pcDeltaCrossCounts d edges as bs) pseudo

/-- `downsample`: identity when short enough, otherwise ANY sub-multiset of exactly m elements -/
def IsDownsample {β : Type} [DecidableEq β] (xs : List β) (m : Option Nat) (ys : List β) : Prop :=
  match m with
  | none => ys = xs
  | some m => if xs.length ≤ m then ys = xs else ys.length = m ∧ ∀ v, ys.count v ≤ xs.count v

/-! ### grouped statistics -/
section grouped
variable {K β : Type} [DecidableEq K] [DecidableEq β]

/-- members of group `g`, in table order -/
def groupRows (tbl : List (K × β)) (g : K) : List β := (tbl.filter fun r => r.1 == g).map (·.2)

/-- `pc_conditional(df, by, on, group_weights)`: `keys` = the sorted distinct group keys (pandas
groupby order); singleton groups are filtered first; weights align with the remaining groups;
`none` = NaN (fewer than two rows remain). `stat` is pc (or pc_joint) of a group. -/
def pcConditional (stat : List β → Rat) (keys : List K) (tbl : List (K × β))
    (weights : Option (List Rat)) : Option Rat :=
  let big := keys.filter fun g => decide (1 < (groupRows tbl g).length)
  let kept := tbl.filter fun r => decide (r.1 ∈ big)
  if kept.length < 2 then none else
  let w := weights.getD (big.map fun _ => 1)
  let w2 := w.map fun x => x * x
  let tot := w2.sum
  some (((w2.zip big).map fun p => p.1 / tot * stat (groupRows tbl p.2)).sum)

/-- `pc_grouped_cross`: matrix over `keys` × `keys`; `none` on the diagonal -/
def pcGroupedCross (stat2 : List β → List β → Rat) (keys : List K) (tbl : List (K × β)) :
    List (List (Option Rat)) :=
  keys.map fun g => keys.map fun h =>
    if g = h then none else some (stat2 (groupRows tbl g) (groupRows tbl h))

/-- `pcDelta_grouped`: one row of pcDelta per group -/
def pcDeltaGrouped (f : List β → List Rat) (keys : List K) (tbl : List (K × β)) : List (List Rat) :=
  keys.map fun g => f (groupRows tbl g)

/-- `pcDelta_grouped_cross(condensed=True)`: one row per unordered pair of groups in `combinations` order -/
def pcDeltaGroupedCross (f2 : List β → List β → List Rat) (keys : List K) (tbl : List (K × β)) :
    List (K × K × List Rat) :=
  (pairsOf keys).map fun gh => (gh.1, gh.2, f2 (groupRows tbl gh.1) (groupRows tbl gh.2))
end grouped

/-! ### richness estimators (`none` = NaN) -/
/-- `chao1(counts)`: S_obs + f1²/(2 f2), or S_obs + f1(f1−1)/2 when f2 = 0 or absent -/
def chao1 (f : List Rat) : Rat :=
  let f1 := f.headD 0
  let sobs := f.sum
  match f.tail with
  | [] => sobs + f1 * (f1 - 1) / 2
  | f2 :: _ => if f2 = 0 then sobs + f1 * (f1 - 1) / 2 else sobs + f1 ^ 2 / (2 * f2)

/-- the classical Chao variance f2 (r²/2 + r³ + r⁴/4), r = f1/f2; NaN when f2 is 0 or absent -/
def varChao (f : List Rat) : Option Rat :=
  match f with
  | f1 :: f2 :: _ => if f2 = 0 then none else
      let r := f1 / f2
      some (f2 * (r ^ 2 / 2 + r ^ 3 + r ^ 4 / 4))
  | _ => none

/-- `chao2(counts, m)`: S_obs + q1²/(2 q2); NaN when q2 = 0 or absent -/
def chao2 (q : List Rat) : Option Rat :=
  match q with
  | q1 :: q2 :: _ => if q2 = 0 then none else some (q.sum + q1 ^ 2 / (2 * q2))
  | _ => none

/-! ### overlap measures on element sets (after removal of missing values) -/
section overlap
variable {β : Type} [DecidableEq β]
def dropNA (xs : List (Option β)) : List β := xs.filterMap id
def interCard (a b : List β) : Nat := ((dedup a).filter fun x => decide (x ∈ b)).length
def unionCard (a b : List β) : Nat := (dedup (a ++ b)).length
def jaccard (a b : List β) : Rat := (interCard a b : Rat) / (unionCard a b : Rat)
def overlapCount (a b : List β) : Nat := interCard a b
/-- `none` = NaN when either set is empty -/
def overlapCoefficient (a b : List β) : Option Rat :=
  if (dedup a).length = 0 ∨ (dedup b).length = 0 then none
  else some ((interCard a b : Rat) / (min (dedup a).length (dedup b).length : Nat))
end overlap

/-! ### subsample -/
/-- `np.repeat`: category index i repeated counts[i] times -/
def unpackCounts (counts : List Nat) : List Nat :=
  counts.zipIdx.flatMap fun ci => List.replicate ci.1 ci.2

/-- the contract of `subsample(counts, n) = (idx, cnt)` -/
def IsSubsample (counts : List Nat) (n : Nat) (idx cnt : List Nat) : Prop :=
  idx.length = cnt.length ∧ idx.Pairwise (· < ·) ∧ (∀ c ∈ cnt, 0 < c) ∧ cnt.sum = n ∧
  ∀ p ∈ idx.zip cnt, ∃ c0, counts[p.1]? = some c0 ∧ p.2 ≤ c0

/-- `np.unique(sample, return_counts=True)` of a list of category indices -/
def recount (sample : List Nat) : List Nat × List Nat :=
  let keys := (List.range (sample.foldl max 0 + 1)).filter fun i => decide (i ∈ sample)
  (keys, keys.map fun i => sample.count i)

end Prs

namespace Prs
/-- `get_default_metric_for_input_data`: the default metric chosen from the input kind -/
inductive MetricId | levenshtein | alphaCdr3 | betaCdr3 | cdr3
  deriving DecidableEq, Repr

def defaultMetric (isTable hasCdr3A hasCdr3B : Bool) : MetricId :=
  if isTable then
    if hasCdr3A && hasCdr3B then .cdr3
    else if hasCdr3A then .alphaCdr3
    else if hasCdr3B then .betaCdr3
    else .levenshtein
  else .levenshtein

/-- the class names used in the source, as the model's metric identifiers -/
def metricOfName : String → Option MetricId
  | "Levenshtein" => some .levenshtein
  | "AlphaCdr3Levenshtein" => some .alphaCdr3
  | "BetaCdr3Levenshtein" => some .betaCdr3
  | "Cdr3Levenshtein" => some .cdr3
  | _ => none

end Prs
