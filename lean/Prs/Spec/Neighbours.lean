/-
Spec/Neighbours.lean — independent specification of neighbour search results (core Lean only).
`score a b = some d` means "the pair (a, b) is a neighbour pair with reported value d".
-/
import Prs.Model.Search
namespace Prs
variable {S D : Type}

/-- specification of a self search: ordered pairs of distinct positions that score -/
def SelfPairs (score : S → S → Option D) (xs : List S) (t : Trip D) : Prop :=
  ∃ a b, t.1 ≠ t.2.1 ∧ xs[t.1]? = some a ∧ xs[t.2.1]? = some b ∧ score a b = some t.2.2

/-- specification of a two-collection search: (query position, reference position, value) -/
def CrossPairs (score : S → S → Option D) (ref qs : List S) (t : Trip D) : Prop :=
  ∃ q r, qs[t.1]? = some q ∧ ref[t.2.1]? = some r ∧ score q r = some t.2.2

/-- executable brute force for `SelfPairs` -/
def bruteSelf (score : S → S → Option D) (xs : List S) : List (Trip D) :=
  xs.zipIdx.flatMap fun ai => xs.zipIdx.filterMap fun bj =>
    if ai.2 = bj.2 then none else (score ai.1 bj.1).map fun d => (ai.2, bj.2, d)

/-- executable brute force for `CrossPairs` -/
def bruteCross (score : S → S → Option D) (ref qs : List S) : List (Trip D) :=
  qs.zipIdx.flatMap fun qi => ref.zipIdx.filterMap fun rj =>
    (score qi.1 rj.1).map fun d => (qi.2, rj.2, d)

end Prs
