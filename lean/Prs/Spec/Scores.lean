/- Spec/Scores.lean — the pair filters ("is (a, b) a neighbour pair, with which value") of each mode. -/
import Prs.Proofs.LevDP
namespace Prs
variable {α : Type} [DecidableEq α]

/-- default mode: Levenshtein distance ≤ k, value = that distance -/
def levScore (k : Nat) (a b : List α) : Option Nat :=
  if lev a b ≤ k then some (lev a b) else none

/-- Hamming mode: equal lengths and at most k mismatching positions, value = mismatches -/
def hamScore (k : Nat) (a b : List α) : Option Nat :=
  match ham a b with
  | some d => if d ≤ k then some d else none
  | none => none

/-- custom-distance mode: Levenshtein ≤ k AND custom value inside its radius, value = custom -/
def customScore {D : Type} (k : Nat) (cd : List α → List α → D) (inRadius : D → Bool)
    (a b : List α) : Option D :=
  if lev a b ≤ k ∧ inRadius (cd a b) = true then some (cd a b) else none

end Prs
