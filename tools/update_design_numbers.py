#!/usr/bin/env python3
"""Refresh the 'theorems / evaluations' figures in DESIGN.md section 6 from the evidence files (seed 0, quick tier)."""
import json
import os
import re

VERIF = os.path.dirname(os.path.dirname(os.path.abspath(__file__)))
p = os.path.join(VERIF, "DESIGN.md")
s = open(p).read()
for i in range(1, 21):
    pid = f"C{i:02d}"
    ev = os.path.join(VERIF, "evidence", pid + ".json")
    if not os.path.exists(ev):
        continue
    e = json.load(open(ev))
    ob, evs = e["coverage"]["obligations"], e["coverage"].get("evaluations") or e.get("evaluations")
    if evs is None:
        continue
    # heading of the form **C01 ... (...; 7 / 619).** or (...; 7 / 529, ≈ 55 s).**
    s, n = re.subn(rf"(\*\*{pid} [^\n]*?[;(] ?)\d+ / \d+", rf"\g<1>{ob} / {evs}", s, count=1)
open(p, "w").write(s)
