#!/usr/bin/env python3
"""Systematic mutation scan (complements the hand-written seeded changes).

Standard mutation operators are applied to the functions of pyrepseq that the properties are anchored in
(and to the helpers those functions call); a mutant counts only if it still imports and the 71 baseline
tests still pass.  Each surviving mutant is then run against the quick checks of the properties anchored
in the mutated function.

  tools/mutscan.py gen [N]        write <work>/mutants.json (at most N mutants, deterministic sample)
  tools/mutscan.py filter [J]     run the baseline tests on every mutant in J scratch worktrees of /repo (under /tmp)
  tools/mutscan.py run [K]        for up to K not-yet-run surviving mutants: apply to /repo, ./check <props>, revert
  tools/mutscan.py report         write /verif/seeded/MUTSCAN.md and print the summary

Work directory: /root/scratch/mutscan (not needed by any registered command).
"""
import ast
import json
import os
import random
import re
import shutil
import subprocess
import sys
from concurrent.futures import ThreadPoolExecutor

VERIF = os.path.dirname(os.path.dirname(os.path.abspath(__file__)))
REPO = "/repo"
WORK = os.environ.get("MUTSCAN_WORK", "/root/scratch/mutscan")
BASE = "f885753"      # the pinned snapshot the anchors' line numbers refer to
PYTEST = ["/venv/bin/python", "-m", "pytest", "-q", "-p", "no:cacheprovider", "--timeout=300", "--continue-on-collection-errors", "-rA"]
FILES = ["pyrepseq/nn.py", "pyrepseq/distance.py", "pyrepseq/stats.py", "pyrepseq/entropy.py", "pyrepseq/clustering.py", "pyrepseq/io.py",
         "pyrepseq/util.py", "pyrepseq/plotting.py", "pyrepseq/metric/levenshtein.py", "pyrepseq/metric/tcr_metric/tcr_levenshtein.py",
         "pyrepseq/metric/tcr_metric/tcr_metric.py"]


def head_src(path):
    """the file as committed at /repo's HEAD (the working tree may be patched by a seeded run at this moment)"""
    rc, out = sh(["git", "-C", REPO, "show", f"HEAD:{path}"])
    if rc:
        raise RuntimeError(out)
    return out


def sh(cmd, cwd=None, timeout=1800, env=None):
    try:
        p = subprocess.run(cmd, cwd=cwd, capture_output=True, text=True, timeout=timeout, env=env)
        return p.returncode, p.stdout + p.stderr
    except subprocess.TimeoutExpired:
        return 124, "timeout"


# ---------------------------------------------------------------- anchors -> functions -> properties
def functions(src):
    out = []
    tree = ast.parse(src)

    def visit(node, prefix):
        for ch in ast.iter_child_nodes(node):
            if isinstance(ch, (ast.FunctionDef, ast.AsyncFunctionDef)):
                out.append((prefix + ch.name, ch.lineno, ch.end_lineno, ch))
                visit(ch, prefix + ch.name + ".")
            elif isinstance(ch, ast.ClassDef):
                visit(ch, prefix + ch.name + ".")
    visit(tree, "")
    return out


def anchor_map():
    """function (file, qualified name) -> set of property ids, from the anchors' line ranges in the pinned snapshot"""
    amap = {}
    for line in open(os.path.join(VERIF, "properties.jsonl")):
        p = json.loads(line)
        for m in p["anchors"]["mechanism"]:
            for part in m["where"].split(";"):
                part = part.strip()
                mm = re.match(r"(pyrepseq/\S+\.py):(.*)$", part)
                if not mm:
                    continue
                path, ranges = mm.group(1), mm.group(2)
                rc, src = sh(["git", "-C", REPO, "show", f"{BASE}:{path}"])
                if rc:
                    continue
                fns = functions(src)
                for r in ranges.split(","):
                    r = r.strip()
                    if not r:
                        continue
                    lo, hi = (int(x) for x in r.split("-")) if "-" in r else (int(r), int(r))
                    for name, a, b, _n in fns:
                        if a <= hi and lo <= b:
                            amap.setdefault((path, name), set()).add(p["id"])
    return amap


def called_names(fn_node):
    out = set()
    for n in ast.walk(fn_node):
        if isinstance(n, ast.Call):
            f = n.func
            if isinstance(f, ast.Name):
                out.add(f.id)
            elif isinstance(f, ast.Attribute):
                out.add(f.attr)
    return out


# ---------------------------------------------------------------- mutation operators (source-span edits)
CMP = {"<": "<=", "<=": "<", ">": ">=", ">=": ">", "==": "!=", "!=": "==", " in ": " not in ", " not in ": " in ", " is not ": " is ", " is ": " is not "}
BIN = {"+": "-", "-": "+", "*": "/", "//": "/", "/": "*", "%": "//", "**": "*"}


def span(lines, node):
    if node.lineno != node.end_lineno:
        return None
    return node.lineno - 1, node.col_offset, node.end_col_offset


def between(lines, a, b):
    """text between the end of node a and the start of node b on one line"""
    if a.end_lineno != b.lineno or a.lineno != a.end_lineno:
        return None
    return a.end_lineno - 1, a.end_col_offset, b.col_offset


def docstring_nodes(tree):
    ids = set()
    for n in ast.walk(tree):
        if isinstance(n, (ast.FunctionDef, ast.ClassDef, ast.Module, ast.AsyncFunctionDef)) and n.body:
            b0 = n.body[0]
            if isinstance(b0, ast.Expr) and isinstance(b0.value, ast.Constant) and isinstance(b0.value.value, str):
                ids.add(id(b0.value))
                ids.add(id(b0))
    return ids


def mutants_of(path, src, fn_name, fn_node):
    lines = src.split("\n")
    docs = docstring_nodes(fn_node)
    out = []

    def edit(kind, ln, c0, c1, new, note):
        old = lines[ln][c0:c1]
        if new == old:
            return
        newline = lines[ln][:c0] + new + lines[ln][c1:]
        out.append({"file": path, "func": fn_name, "line": ln + 1, "op": kind, "before": lines[ln].strip(), "after": newline.strip(),
                    "edit": [ln, c0, c1, new], "note": note})

    for n in ast.walk(fn_node):
        if isinstance(n, ast.Compare) and len(n.ops) == 1:
            sp = between(lines, n.left, n.comparators[0])
            if sp:
                ln, c0, c1 = sp
                txt = lines[ln][c0:c1]
                for k, v in CMP.items():
                    key = k.strip()
                    t = txt.strip()
                    if t == key:
                        pad_l = txt[: len(txt) - len(txt.lstrip())]
                        pad_r = txt[len(txt.rstrip()):]
                        edit("compare", ln, c0, c1, pad_l + v.strip() + pad_r, f"{key} -> {v.strip()}")
                        break
        elif isinstance(n, ast.BinOp):
            sp = between(lines, n.left, n.right)
            if sp:
                ln, c0, c1 = sp
                txt = lines[ln][c0:c1]
                t = txt.strip()
                if t in BIN and not (isinstance(n.left, ast.Constant) and isinstance(n.left.value, str)):
                    edit("arith", ln, c0, c1, txt.replace(t, BIN[t]), f"{t} -> {BIN[t]}")
        elif isinstance(n, ast.BoolOp) and len(n.values) >= 2:
            sp = between(lines, n.values[0], n.values[1])
            if sp:
                ln, c0, c1 = sp
                txt = lines[ln][c0:c1]
                t = txt.strip()
                if t in ("and", "or"):
                    edit("bool", ln, c0, c1, txt.replace(t, "or" if t == "and" else "and"), f"{t} swapped")
        elif isinstance(n, ast.UnaryOp) and isinstance(n.op, ast.Not):
            sp = span(lines, n)
            sp2 = span(lines, n.operand)
            if sp and sp2:
                ln, c0, c1 = sp
                edit("not", ln, c0, c1, lines[ln][sp2[1]:sp2[2]], "not removed")
        elif isinstance(n, ast.Constant) and id(n) not in docs:
            sp = span(lines, n)
            if not sp:
                continue
            ln, c0, c1 = sp
            v = n.value
            if isinstance(v, bool):
                edit("const", ln, c0, c1, str(not v), f"{v} -> {not v}")
            elif isinstance(v, int):
                edit("const", ln, c0, c1, str(v + 1), f"{v} -> {v + 1}")
                if v != 0:
                    edit("const", ln, c0, c1, str(v - 1), f"{v} -> {v - 1}")
            elif isinstance(v, float):
                edit("const", ln, c0, c1, repr(v * 2 if v else 1.0), f"{v} -> {v * 2 if v else 1.0}")
            elif v is None:
                pass
        elif isinstance(n, (ast.If, ast.While)):
            sp = span(lines, n.test)
            if sp:
                ln, c0, c1 = sp
                edit("negate-test", ln, c0, c1, "not (" + lines[ln][c0:c1] + ")", "condition negated")
        elif isinstance(n, ast.IfExp):
            sp = span(lines, n.test)
            if sp:
                ln, c0, c1 = sp
                edit("negate-test", ln, c0, c1, "not (" + lines[ln][c0:c1] + ")", "conditional expression negated")
        elif isinstance(n, ast.Call) and n.keywords and n.lineno == n.end_lineno:
            for i, kw in enumerate(n.keywords):
                if kw.arg is None:
                    continue
                sp = span(lines, n)
                if not sp:
                    continue
                ln, c0, c1 = sp
                clone = ast.parse(lines[ln][c0:c1], mode="eval").body
                if not isinstance(clone, ast.Call) or len(clone.keywords) != len(n.keywords):
                    continue
                del clone.keywords[i]
                edit("drop-kwarg", ln, c0, c1, ast.unparse(clone), f"keyword argument {kw.arg}= dropped")
        if isinstance(n, (ast.Assign, ast.AugAssign, ast.Expr)) and id(n) not in docs and n is not fn_node:
            if isinstance(n, ast.Expr) and not isinstance(n.value, ast.Call):
                continue
            ind = len(lines[n.lineno - 1]) - len(lines[n.lineno - 1].lstrip())
            out.append({"file": path, "func": fn_name, "line": n.lineno, "op": "delete-stmt", "before": lines[n.lineno - 1].strip(),
                        "after": "pass", "edit_lines": [n.lineno - 1, n.end_lineno - 1, " " * ind + "pass"], "note": "statement deleted"})
    return out


def apply_mutant(src, m):
    lines = src.split("\n")
    if "edit" in m:
        ln, c0, c1, new = m["edit"]
        lines[ln] = lines[ln][:c0] + new + lines[ln][c1:]
    else:
        a, b, new = m["edit_lines"]
        lines[a:b + 1] = [new]
    return "\n".join(lines)


def gen(nmax):
    os.makedirs(WORK, exist_ok=True)
    amap = anchor_map()
    rng = random.Random(int(os.environ.get("MUTSCAN_SEED", "20260927")))
    # mutants of an earlier sample are not drawn again
    seen = set()
    for prev in os.environ.get("MUTSCAN_EXCLUDE", "").split(":"):
        if prev and os.path.exists(prev):
            for m_ in json.load(open(prev)):
                seen.add((m_["file"], m_["line"], m_["op"], m_["after"]))
    allm = []
    for path in FILES:
        src = head_src(path)
        fns = functions(src)
        by_name = {name: node for name, _a, _b, node in fns}
        # helpers inherit the properties of the anchored functions that call them (one level, name-based)
        props = {name: set(amap.get((path, name), set())) for name in by_name}
        for name, node in by_name.items():
            if props[name]:
                for callee in called_names(node):
                    for other in by_name:
                        if other.split(".")[-1] == callee and other != name:
                            props[other] |= props[name]
        for name, node in by_name.items():
            if not props[name] or "." in name and name.split(".")[0] in by_name:
                continue      # unanchored, or a nested function (mutated as part of its parent)
            ms = mutants_of(path, src, name, node)
            for m in ms:
                m["props"] = sorted(props[name])
                try:
                    ast.parse(apply_mutant(src, m))
                except SyntaxError:
                    continue
                if (m["file"], m["line"], m["op"], m["after"]) in seen:
                    continue
                allm.append(m)
    # deterministic sample, spread over functions and operators
    rng.shuffle(allm)
    per_fn, chosen = {}, []
    for m in allm:
        k = (m["file"], m["func"])
        if per_fn.get(k, 0) >= 12:
            continue
        per_fn[k] = per_fn.get(k, 0) + 1
        chosen.append(m)
    chosen = chosen[:nmax]
    for i, m in enumerate(chosen):
        m["id"] = f"M{i:04d}"
    json.dump(chosen, open(os.path.join(WORK, "mutants.json"), "w"), indent=1)
    print(f"{len(allm)} candidate mutants, {len(chosen)} chosen over {len(per_fn)} functions")
    ops = {}
    for m in chosen:
        ops[m["op"]] = ops.get(m["op"], 0) + 1
    print(ops)


def test_outcomes(cwd):
    rc, out = sh(PYTEST, cwd=cwd, env=dict(os.environ, MPLBACKEND="Agg", PYTHONWARNINGS="ignore"), timeout=900)
    passed = sorted(set(re.findall(r"^PASSED (\S+)", out, flags=re.M)))
    failed = sorted(set(re.findall(r"^(?:FAILED|ERROR) (\S+)", out, flags=re.M)))
    return passed, failed, rc


def filter_(jobs):
    muts = json.load(open(os.path.join(WORK, "mutants.json")))
    pool = []
    for i in range(jobs):
        wt = f"/tmp/mutscan_wt{i}"
        sh(["git", "-C", REPO, "worktree", "remove", "--force", wt])
        shutil.rmtree(wt, ignore_errors=True)
        rc, out = sh(["git", "-C", REPO, "worktree", "add", "-q", "--detach", wt, "HEAD"])
        if rc:
            print(out)
            return 2
        pool.append(wt)
    base_p, base_f, _ = test_outcomes(pool[0])
    print("baseline:", len(base_p), "passed", len(base_f), "failed/error")
    res_path = os.path.join(WORK, "filter.json")
    res = json.load(open(res_path)) if os.path.exists(res_path) else {}
    import queue
    q = queue.Queue()
    for wt in pool:
        q.put(wt)

    def one(m):
        if m["id"] in res:
            return
        wt = q.get()
        try:
            src = head_src(m["file"])
            open(os.path.join(wt, m["file"]), "w").write(apply_mutant(src, m))
            rc, out = sh(["/venv/bin/python", "-c", "import pyrepseq"], cwd=wt, env=dict(os.environ, MPLBACKEND="Agg"), timeout=120)
            if rc:
                res[m["id"]] = {"survives_tests": False, "why": "import fails"}
            else:
                p, f, _ = test_outcomes(wt)
                res[m["id"]] = {"survives_tests": p == base_p and f == base_f, "why": "" if p == base_p else f"{len(set(base_p) - set(p))} tests no longer pass"}
        finally:
            sh(["git", "checkout", "--", "."], cwd=wt)
            q.put(wt)

    try:
        with ThreadPoolExecutor(max_workers=jobs) as ex:
            for i, _ in enumerate(ex.map(one, muts)):
                if i % 25 == 0:
                    json.dump(res, open(res_path, "w"), indent=1)
    finally:
        json.dump(res, open(res_path, "w"), indent=1)
        for wt in pool:
            sh(["git", "-C", REPO, "worktree", "remove", "--force", wt])
            shutil.rmtree(wt, ignore_errors=True)
        sh(["git", "-C", REPO, "worktree", "prune"])
    print(sum(1 for r in res.values() if r["survives_tests"]), "of", len(res), "mutants pass the baseline tests")


def run(kmax):
    muts = json.load(open(os.path.join(WORK, "mutants.json")))
    flt = json.load(open(os.path.join(WORK, "filter.json")))
    res_path = os.path.join(WORK, "run.json")
    res = json.load(open(res_path)) if os.path.exists(res_path) else {}
    rc, out = sh(["git", "-C", REPO, "status", "--porcelain", "--untracked-files=no"])
    if out.strip():
        print("refusing: /repo has uncommitted changes")
        return 2
    done = 0
    for m in muts:
        if m["id"] in res or not flt.get(m["id"], {}).get("survives_tests"):
            continue
        if done >= kmax:
            break
        path = os.path.join(REPO, m["file"])
        src = open(path).read()
        r = {}
        try:
            open(path, "w").write(apply_mutant(src, m))
            for p in m["props"]:
                rc, out = sh([os.path.join(VERIF, "check"), p], cwd=VERIF, timeout=1800, env=dict(os.environ, VERIF_EVIDENCE_DIR="/root/scratch/evidence_patched"))
                lines = [l for l in out.splitlines() if l.startswith(("VIOLATION", "OK ", "MODEL-ERROR", "INFRA-ERROR"))]
                r[p] = {"exit": rc, "caught": rc == 1, "with_failing_input": any(l.startswith("VIOLATION") and "no-failing-input-found" not in l for l in lines),
                        "first": lines[0][:200] if lines else out[-200:]}
                if rc == 1 and r[p]["with_failing_input"]:
                    break          # one check with a concrete failing input is enough
        finally:
            sh(["git", "-C", REPO, "checkout", "--", "."])
        res[m["id"]] = r
        done += 1
        print(m["id"], m["file"].split("/")[-1], m["func"], m["op"], "|", m["before"][:50], "=>", m["after"][:50], "|",
              {p: ("FI" if v["with_failing_input"] else ("V" if v["caught"] else f"exit{v['exit']}")) for p, v in r.items()}, flush=True)
        json.dump(res, open(res_path, "w"), indent=1)
    sh(["python3", os.path.join(VERIF, "tools", "gen_lean_tables.py")])
    sh(["python3", os.path.join(VERIF, "tools", "gen_footprints.py")])
    sh(["python3", os.path.join(VERIF, "tools", "gen_formulas.py")])
    sh(["python3", os.path.join(VERIF, "tools", "gen_loops.py")])
    return 0


def prun(jobs):
    """like run, but J workers, each with its own copy of /verif and its own scratch worktree of /repo
    (VERIF_REPO + PYTHONPATH point the copy's checks at that worktree); /repo itself is not touched"""
    import threading
    muts = json.load(open(os.path.join(WORK, "mutants.json")))
    flt = json.load(open(os.path.join(WORK, "filter.json")))
    res_path = os.path.join(WORK, "run.json")
    res = json.load(open(res_path)) if os.path.exists(res_path) else {}
    todo = [m for m in muts if m["id"] not in res and flt.get(m["id"], {}).get("survives_tests")]
    lock = threading.Lock()
    par = "/root/scratch/par"
    os.makedirs(par, exist_ok=True)

    def worker(i):
        vc, wt = os.path.join(par, f"v{i}"), os.path.join(par, f"r{i}")
        sh(["git", "-C", REPO, "worktree", "remove", "--force", wt])
        shutil.rmtree(wt, ignore_errors=True)
        shutil.rmtree(vc, ignore_errors=True)
        sh(["rsync", "-a", "--exclude", ".git", "--exclude", "replays", VERIF + "/", vc + "/"])
        rc, out = sh(["git", "-C", REPO, "worktree", "add", "-q", "--detach", wt, "HEAD"])
        if rc:
            print(out)
            return
        env = dict(os.environ, VERIF_REPO=wt, PYTHONPATH=wt, VERIF_EVIDENCE_DIR=os.path.join(vc, "evidence_patched"))
        while True:
            with lock:
                if not todo:
                    break
                m = todo.pop(0)
            src = head_src(m["file"])
            r = {}
            try:
                open(os.path.join(wt, m["file"]), "w").write(apply_mutant(src, m))
                for p in m["props"]:
                    rc, out = sh([os.path.join(vc, "check"), p], cwd=vc, timeout=1800, env=env)
                    lines = [l for l in out.splitlines() if l.startswith(("VIOLATION", "OK ", "MODEL-ERROR", "INFRA-ERROR"))]
                    r[p] = {"exit": rc, "caught": rc == 1, "with_failing_input": any(l.startswith("VIOLATION") and "no-failing-input-found" not in l for l in lines),
                            "first": lines[0][:200] if lines else out[-200:]}
                    if rc == 1 and r[p]["with_failing_input"]:
                        break
            finally:
                sh(["git", "checkout", "--", "."], cwd=wt)
            with lock:
                res[m["id"]] = r
                json.dump(res, open(res_path, "w"), indent=1)
                print(m["id"], m["file"].split("/")[-1], m["func"], m["op"], "|", m["before"][:50], "=>", m["after"][:50], "|",
                      {p: ("FI" if v["with_failing_input"] else ("V" if v["caught"] else f"exit{v['exit']}")) for p, v in r.items()}, flush=True)
        sh(["git", "-C", REPO, "worktree", "remove", "--force", wt])
        shutil.rmtree(wt, ignore_errors=True)
        shutil.rmtree(vc, ignore_errors=True)

    ths = [threading.Thread(target=worker, args=(i,)) for i in range(jobs)]
    for t in ths:
        t.start()
    for t in ths:
        t.join()
    sh(["git", "-C", REPO, "worktree", "prune"])
    return 0


def report():
    muts = json.load(open(os.path.join(WORK, "mutants.json")))
    flt = json.load(open(os.path.join(WORK, "filter.json")))
    res = json.load(open(os.path.join(WORK, "run.json")))
    tri_path = os.path.join(VERIF, "seeded", os.environ.get("MUTSCAN_TRIAGE", "mutscan_triage.json"))
    tri = json.load(open(tri_path)) if os.path.exists(tri_path) else {}
    surv = [m for m in muts if flt.get(m["id"], {}).get("survives_tests")]
    ran = [m for m in surv if m["id"] in res]
    caught_fi = [m for m in ran if any(v["with_failing_input"] for v in res[m["id"]].values())]
    caught_nofi = [m for m in ran if m not in caught_fi and any(v["caught"] for v in res[m["id"]].values())]
    missed = [m for m in ran if m not in caught_fi and m not in caught_nofi]
    for m in caught_nofi:
        tri.setdefault(m["id"], "reported without a failing input")
    out = ["# Systematic mutation scan" + (" (sample " + os.environ["MUTSCAN_SAMPLE"] + ")" if os.environ.get("MUTSCAN_SAMPLE") else ""), "",
           os.environ.get("MUTSCAN_RAN_AT", "(run at /repo c8819c2, before the pc_joint fix e180fef: line numbers refer to that commit)"), "",
           "`tools/mutscan.py`: standard operators (comparison / arithmetic / Boolean swaps, constants ±1, negated conditions, dropped keyword",
           "arguments, deleted statements) applied to the functions the properties are anchored in and the helpers they call; a mutant counts only",
           "if `import pyrepseq` works and the baseline test outcomes are unchanged; each survivor is run against the quick checks of the",
           "properties anchored in the mutated function (patch applied to /repo, `./check`, reverted).", "",
           f"* mutants generated (deterministic sample): {len(muts)}",
           f"* still passing the baseline tests: {len(surv)} ({len(muts) - len(surv)} killed by the existing tests or by import)",
           f"* run against the checks: {len(ran)}",
           f"* caught with a concrete failing input: {len(caught_fi)}",
           f"* caught without a failing input (broken proof obligation / correspondence only): {len(caught_nofi)}",
           f"* not caught: {len(missed)} — triaged below", ""]
    by_op = {}
    for m in ran:
        k = m["op"]
        a = by_op.setdefault(k, [0, 0])
        a[1] += 1
        a[0] += 1 if (m in caught_fi or m in caught_nofi) else 0
    out += ["| operator | caught / run |", "|---|---|"] + [f"| {k} | {a[0]} / {a[1]} |" for k, a in sorted(by_op.items())] + [""]
    cats = {}
    for m in missed:
        c = tri.get(m["id"], "untriaged").split(":")[0]
        cats[c] = cats.get(c, 0) + 1
    out += ["Triage of the mutants that were not caught (and of those reported without a failing input): "
            + "; ".join(f"{v} x {k}" for k, v in sorted(cats.items(), key=lambda kv: -kv[1])) + ".",
            "First pass (before the gaps this scan exposed were closed): see DESIGN.md section 8.", ""]
    out += ["## Not caught", "", "| id | where | change | checks run | triage |", "|---|---|---|---|---|"]
    for m in missed:
        out.append(f"| {m['id']} | {m['file'].replace('pyrepseq/', '')}:{m['line']} `{m['func']}` | `{m['before'][:70]}` → `{m['after'][:70]}` ({m['note']}) | "
                   f"{', '.join(res[m['id']].keys())} | {tri.get(m['id'], 'untriaged')} |")
    open(os.path.join(VERIF, "seeded", os.environ.get("MUTSCAN_REPORT", "MUTSCAN.md")), "w").write("\n".join(out) + "\n")
    print("\n".join(out[6:13]))


if __name__ == "__main__":
    cmd = sys.argv[1]
    if cmd == "gen":
        gen(int(sys.argv[2]) if len(sys.argv) > 2 else 400)
    elif cmd == "filter":
        sys.exit(filter_(int(sys.argv[2]) if len(sys.argv) > 2 else 8))
    elif cmd == "run":
        sys.exit(run(int(sys.argv[2]) if len(sys.argv) > 2 else 10 ** 6))
    elif cmd == "prun":
        sys.exit(prun(int(sys.argv[2]) if len(sys.argv) > 2 else 6))
    elif cmd == "report":
        report()
