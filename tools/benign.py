#!/usr/bin/env python3
"""False-alarm test: behaviour-preserving refactorings of /repo must leave every check quiet.

  tools/benign.py add <dir> <id>     copy <dir>/patch.diff, notes.md (and check.py) to /verif/seeded/benign/<id>/
  tools/benign.py prun J [ids]       J workers, each with its own copy of /verif and its own scratch worktree of /repo: apply the
                                     patch there, run ALL 20 quick checks of the copy against it (VERIF_REPO), revert; /repo itself
                                     is not touched; results go to seeded/benign/<id>/result.json
  tools/benign.py report             write seeded/BENIGN.md
"""
import glob
import json
import os
import shutil
import subprocess
import sys
import threading

VERIF = os.path.dirname(os.path.dirname(os.path.abspath(__file__)))
REPO = "/repo"
BEN = os.path.join(VERIF, "seeded", "benign")
PROPS = [f"C{i:02d}" for i in range(1, 21)]


def sh(cmd, cwd=None, timeout=3600, env=None):
    try:
        p = subprocess.run(cmd, cwd=cwd, capture_output=True, text=True, timeout=timeout, env=env)
        return p.returncode, p.stdout + p.stderr
    except subprocess.TimeoutExpired:
        return 124, "timeout"


def add(src, bid):
    dst = os.path.join(BEN, bid)
    os.makedirs(dst, exist_ok=True)
    for f in ("patch.diff", "notes.md", "check.py"):
        if os.path.exists(os.path.join(src, f)):
            shutil.copy(os.path.join(src, f), os.path.join(dst, f))
    rc, out = sh(["git", "-C", REPO, "apply", "--check", os.path.join(dst, "patch.diff")])
    print(bid, "patch applies to /repo HEAD" if rc == 0 else "PATCH DOES NOT APPLY: " + out[-200:])
    return rc


def prun(jobs, ids):
    ids = ids or sorted(os.path.basename(d) for d in glob.glob(os.path.join(BEN, "*")) if os.path.isdir(d))
    props = os.environ.get("BENIGN_PROPS", "").split() or PROPS      # BENIGN_PROPS="C02 C06": only these checks (results are merged)
    todo = [(b, p) for b in ids for p in props]
    # slow checks first
    todo.sort(key=lambda bp: {"C20": 0, "C04": 1, "C01": 2, "C19": 3}.get(bp[1], 9))
    lock = threading.Lock()
    par = "/root/scratch/par_benign"
    os.makedirs(par, exist_ok=True)
    results = {b: {} for b in ids}
    if props != PROPS:
        for b in ids:
            rp = os.path.join(BEN, b, "result.json")
            if os.path.exists(rp):
                results[b] = json.load(open(rp))

    def worker(i):
        vc, wt = os.path.join(par, f"v{i}"), os.path.join(par, f"r{i}")
        sh(["git", "-C", REPO, "worktree", "remove", "--force", wt])
        shutil.rmtree(wt, ignore_errors=True)
        shutil.rmtree(vc, ignore_errors=True)
        sh(["rsync", "-a", "--exclude", ".git", "--exclude", "replays", VERIF + "/", vc + "/"])
        rc, out = sh(["git", "-C", REPO, "worktree", "add", "-q", "--detach", wt, "HEAD"])
        if rc:
            print(out)
            return
        env = dict(os.environ, VERIF_REPO=wt, PYTHONPATH=wt, VERIF_EVIDENCE_DIR=os.path.join(vc, "evidence_patched"))
        while True:
            with lock:
                if not todo:
                    break
                bid, p = todo.pop(0)
            rc, out = sh(["git", "apply", os.path.join(BEN, bid, "patch.diff")], cwd=wt)
            if rc:
                with lock:
                    results[bid][p] = {"exit": None, "lines": ["patch does not apply: " + out[-200:]]}
                continue
            try:
                rc, out = sh([os.path.join(vc, "check"), p], cwd=vc, env=env)
                lines = [l for l in out.splitlines() if l.startswith(("VIOLATION", "OK ", "MODEL-ERROR", "INFRA-ERROR", "KNOWN-FINDING"))]
                res = {"exit": rc, "lines": lines[:6]}
                if rc != 0:
                    # keep what the check said was broken
                    rp = [l.split("replay=")[1].split()[0] for l in lines if "replay=" in l]
                    for r_ in rp[:2]:
                        try:
                            res.setdefault("replays", []).append(json.load(open(os.path.join(vc, r_))).get("what", "")[:600])
                        except Exception:  # noqa
                            pass
            finally:
                sh(["git", "checkout", "--", "."], cwd=wt)
                sh(["git", "clean", "-fdq", "pyrepseq"], cwd=wt)
            with lock:
                results[bid][p] = res
                print(bid, p, "exit", res["exit"], res["lines"][:1], flush=True)
                json.dump(results[bid], open(os.path.join(BEN, bid, "result.json"), "w"), indent=1)
        sh(["git", "-C", REPO, "worktree", "remove", "--force", wt])
        shutil.rmtree(vc, ignore_errors=True)

    th = [threading.Thread(target=worker, args=(i,)) for i in range(jobs)]
    for t in th:
        t.start()
    for t in th:
        t.join()
    sh(["git", "-C", REPO, "worktree", "prune"])
    quiet = [b for b in ids if results[b] and all(r["exit"] == 0 for r in results[b].values())]
    print(f"{len(ids)} refactorings x {len(props)} checks; all quiet on {len(quiet)}; alarms: "
          + str({b: [p for p, r in results[b].items() if r['exit'] != 0] for b in ids if b not in quiet}))
    return 0


def report():
    rows = []
    for d in sorted(glob.glob(os.path.join(BEN, "*"))):
        rp = os.path.join(d, "result.json")
        if not os.path.exists(rp):
            continue
        r = json.load(open(rp))
        title = open(os.path.join(d, "notes.md")).read().strip().splitlines()[0].lstrip("# ").strip() if os.path.exists(os.path.join(d, "notes.md")) else ""
        alarms = {p: v for p, v in r.items() if v["exit"] != 0}
        meta = json.load(open(os.path.join(d, "meta.json"))) if os.path.exists(os.path.join(d, "meta.json")) else {}
        rows.append((os.path.basename(d), title[:110].replace("|", "/"), len(r), "none" if not alarms else "; ".join(
            f"{p}: " + ("no-failing-input-found" if any("no-failing-input-found" in l for l in v["lines"]) else "exit %s" % v["exit"]) for p, v in sorted(alarms.items())),
            meta.get("verdict", "").replace("|", "/")))
    out = ["# Behaviour-preserving refactorings: do the checks stay quiet?", "",
           "Each refactoring was written by a fresh sub-agent that saw only a list of functions and a scratch worktree of /repo (nothing from /verif)",
           "and was told to change NO behaviour (same results bit for bit, same exceptions, same side effects; baseline tests unchanged).",
           "Every one of the 20 quick checks was then run against the patched tree (`tools/benign.py prun`). An alarm here is either a false",
           "alarm of the machinery, or a broken proof obligation of a body translator that the brief asks to be reported as",
           "`no-failing-input-found`, or a refactoring that was not behaviour-preserving after all; the last column says which.", "",
           "| id | refactoring | checks run | alarms | verdict |", "|---|---|---|---|---|"]
    for r in rows:
        out.append("| " + " | ".join(str(x) for x in r) + " |")
    n_quiet = sum(1 for r in rows if r[3] == "none")
    out += ["", f"{len(rows)} refactorings; every check quiet on {n_quiet}."]
    open(os.path.join(VERIF, "seeded", "BENIGN.md"), "w").write("\n".join(out) + "\n")
    print("\n".join(out[-3:]))
    return 0


if __name__ == "__main__":
    cmd = sys.argv[1]
    if cmd == "add":
        sys.exit(add(sys.argv[2], sys.argv[3]))
    if cmd == "prun":
        sys.exit(prun(int(sys.argv[2]), sys.argv[3:]))
    if cmd == "report":
        sys.exit(report())
