#!/usr/bin/env python3
"""Translator: the loop / generator functions of pyrepseq/distance.py  ->  Lean definitions (list comprehensions).

levenshtein_neighbors, hamming_neighbors, isdist1, _isdist2_hamming, _isdist3_hamming and nndist_hamming are parsed
with `ast` from /repo's CURRENT source and re-emitted as Lean 4 definitions in lean/Prs/Generated/NeighborLoops.lean,
written in terms of the Python built-ins of Model/PyStr.lean (`Py.get`, `Py.sliceTo`, `Py.sliceFrom`, `Py.range`:
Python's negative-index and clamping rules).  Properties/C12 proves that each generated definition IS the
hand-written model the C12 theorems are about (`C12_source_*`), so a changed slice bound, loop range, skip condition
or return value in the Python source changes the generated definition and breaks that proof on the next run.

Subset handled (anything else raises Untranslatable -> broken obligation of the C12 check):
  generator functions   a body of `for v in range(..) | <alphabet> | <positions> | <fn>(x):`, `if c: continue`,
                        `if c: <stmts>`, `v = e`, `yield e`                     -> nested `List.flatMap`, in yield order
  search functions      the same with `if c: return True` inside the loops and a final `return False`
                                                                                -> "the comprehension is non-empty"
  decision functions    `if c: return <int> | raise NotImplementedError`, `return <int>`   -> `Option Nat` (`none` = raises)
  `if p is None: p = e` for a parameter with default None
  expressions           names, int constants, x[i], x[:i], x[i:], +, -, len, range, ==, !=, <, <=, >, >=, in, and, or, not,
                        calls of the translated functions (defaults filled in, the module global `aminoacids` made a parameter)
"""
import ast
import os
import subprocess

VERIF = os.path.dirname(os.path.dirname(os.path.abspath(__file__)))
REPO = os.environ.get("VERIF_REPO", "/repo")
OUT = os.path.join(VERIF, "lean", "Prs", "Generated")
SRC = "pyrepseq/distance.py"
GLOBAL = "aminoacids"


class Untranslatable(Exception):
    pass


# function -> (parameter types, mode)
FUNCS = {
    "levenshtein_neighbors": ({"x": "str", "alphabet": "chars"}, "gen"),
    "hamming_neighbors": ({"x": "str", "alphabet": "chars", "variable_positions": "optints"}, "gen"),
    "isdist1": ({"x": "str", "reference": "strs", "neighborhood": "fn"}, "bool"),
    "_isdist2_hamming": ({"x": "str", "reference": "strs"}, "bool"),
    "_isdist3_hamming": ({"x": "str", "reference": "strs"}, "bool"),
    "nndist_hamming": ({"seq": "str", "reference": "strs", "maxdist": "int"}, "optnat"),
    "calculate_neighbor_numbers": ({"seqs": "strs", "reference": "optstrs", "neighborhood": "fn"}, "value"),
    "find_neighbor_pairs_index": ({"seqs": "strs", "neighborhood": "fn"}, "acc"),
}
LEAN_TYPE = {"str": "List α", "chars": "List α", "optints": "Option (List Int)", "ints": "List Int", "strs": "List (List α)",
             "optstrs": "Option (List (List α))", "pairs": "List (Int × Int)",
             "fn": "List α → List (List α)", "int": "Int", "chr": "α"}


def lean_name(n):
    return n.lstrip("_") if n.startswith("_") else n


class Module:
    def __init__(self, src):
        tree = ast.parse(src)
        self.defs = {n.name: n for n in tree.body if isinstance(n, ast.FunctionDef)}
        for f in FUNCS:
            if f not in self.defs:
                raise Untranslatable(f"{SRC}: function {f} not found")
        self.defaults = {}
        for f in FUNCS:
            a = self.defs[f].args
            if a.vararg or a.kwarg or a.kwonlyargs or a.posonlyargs:
                raise Untranslatable(f"{f}: variadic parameters")
            names = [p.arg for p in a.args]
            if set(names) != set(FUNCS[f][0]):
                raise Untranslatable(f"{f}: parameters {names} differ from the declared ones {list(FUNCS[f][0])}")
            d = dict(zip(names[len(names) - len(a.defaults):], a.defaults))
            self.defaults[f] = (names, d)
        # which functions need the module global as an extra parameter: the body mentions it, or mentions a translated
        # function that needs it or whose defaults (filled in at the call site) mention it        (fix point)
        def mentions_global(node):
            return any(isinstance(n, ast.Name) and n.id == GLOBAL for n in ast.walk(node))
        default_global = {f: any(mentions_global(v) for v in self.defaults[f][1].values()) for f in FUNCS}
        self.needs_global = {f: False for f in FUNCS}
        changed = True
        while changed:
            changed = False
            for f in FUNCS:
                if self.needs_global[f]:
                    continue
                for b in self.defs[f].body:
                    for n in ast.walk(b):
                        if isinstance(n, ast.Name) and (n.id == GLOBAL or (n.id in FUNCS and n.id != f and
                                                                            (self.needs_global[n.id] or default_global[n.id]))):
                            self.needs_global[f] = True
                            changed = True


class Fn:
    def __init__(self, mod, name):
        self.mod, self.name = mod, name
        self.f = mod.defs[name]
        self.ptypes, self.mode = FUNCS[name]
        self.env = dict(self.ptypes)
        if mod.needs_global[name]:
            self.env[GLOBAL] = "chars"

    # ---------------------------------------------------------------- expressions
    def fn_value(self, fname):
        """a translated function used as a value: eta-expanded over its first parameter, defaults filled in"""
        names, d = self.mod.defaults[fname]
        args = ["y"]
        for p in names[1:]:
            if p not in d:
                raise Untranslatable(f"{fname} used as a function value but parameter {p} has no default")
            args.append(self.expr(d[p])[0])
        if self.mod.needs_global[fname]:
            args.append(GLOBAL)
        return f"(fun y => {lean_name(fname)} " + " ".join(args) + ")"

    def expr(self, e, want=None):
        if isinstance(e, ast.Name):
            if e.id in self.env:
                return e.id, self.env[e.id]
            if e.id in FUNCS:
                return self.fn_value(e.id), "fn"
            raise Untranslatable(f"unknown name {e.id}")
        if isinstance(e, ast.Constant):
            if e.value is None:
                return "none", "none"
            if isinstance(e.value, bool):
                return ("true" if e.value else "false"), "bool"
            if isinstance(e.value, int):
                return (f"({e.value} : Int)" if e.value >= 0 else f"(-{-e.value} : Int)"), "int"
            raise Untranslatable(f"constant {e.value!r}")
        if isinstance(e, ast.BinOp) and not isinstance(e.op, ast.BitAnd):
            (a, ta), (b, tb) = self.expr(e.left), self.expr(e.right)
            if isinstance(e.op, ast.Add):
                if ta == "int" and tb == "int":
                    return f"({a} + {b})", "int"
                if ta == "str" and tb == "str":
                    return f"({a} ++ {b})", "str"
                if ta == "str" and tb == "chr":
                    return f"({a} ++ [{b}])", "str"
                if ta == "chr" and tb == "str":
                    return f"([{a}] ++ {b})", "str"
                if ta == "chr" and tb == "chr":
                    return f"([{a}] ++ [{b}])", "str"
            if isinstance(e.op, ast.Sub) and ta == "int" and tb == "int":
                return f"({a} - {b})", "int"
            raise Untranslatable(f"operator {type(e.op).__name__} on {ta}, {tb}")
        if isinstance(e, ast.Subscript):
            v, t = self.expr(e.value)
            if t != "str":
                raise Untranslatable("subscript of a non-string")
            s = e.slice
            if isinstance(s, ast.Slice):
                if s.step is not None:
                    raise Untranslatable("slice step")
                if s.lower is None and s.upper is not None:
                    i, ti = self.expr(s.upper)
                    if ti != "int":
                        raise Untranslatable("slice bound")
                    return f"(Py.sliceTo {v} {i})", "str"
                if s.upper is None and s.lower is not None:
                    i, ti = self.expr(s.lower)
                    if ti != "int":
                        raise Untranslatable("slice bound")
                    return f"(Py.sliceFrom {v} {i})", "str"
                if s.upper is None and s.lower is None:
                    return v, "str"
                raise Untranslatable("two-sided slice")
            i, ti = self.expr(s)
            if ti != "int":
                raise Untranslatable("index is not an integer")
            return f"(Py.get {v} {i})", "chr"
        if isinstance(e, ast.Compare):
            if len(e.ops) != 1:
                raise Untranslatable("chained comparison")
            (a, ta), (b, tb) = self.expr(e.left), self.expr(e.comparators[0])
            op = e.ops[0]
            if isinstance(op, (ast.In, ast.NotIn)):
                if (ta, tb) not in (("str", "strs"), ("chr", "chars"), ("chr", "str"), ("int", "ints")):
                    raise Untranslatable(f"membership of {ta} in {tb}")
                r = f"decide ({a} ∈ {b})"
                return (f"(!{r})" if isinstance(op, ast.NotIn) else f"({r})"), "bool"
            sym = {ast.Eq: "=", ast.NotEq: "≠", ast.Lt: "<", ast.LtE: "≤", ast.Gt: ">", ast.GtE: "≥"}.get(type(op))
            if sym is None or ta != tb or ta not in ("int", "chr", "str"):
                raise Untranslatable(f"comparison of {ta} with {tb}")
            if sym in "<≤>≥" and ta != "int":
                raise Untranslatable("order comparison of non-integers")
            return f"(decide ({a} {sym} {b}))", "bool"
        if isinstance(e, ast.BoolOp):
            vs = [self.expr(v) for v in e.values]
            if any(t != "bool" for _v, t in vs):
                raise Untranslatable("and / or of non-conditions")
            return "(" + (" && " if isinstance(e.op, ast.And) else " || ").join(v for v, _ in vs) + ")", "bool"
        if isinstance(e, ast.UnaryOp) and isinstance(e.op, ast.Not):
            v, t = self.expr(e.operand)
            if t != "bool":
                raise Untranslatable("not of a non-condition")
            return f"(!{v})", "bool"
        if isinstance(e, ast.Call):
            return self.call(e)
        if isinstance(e, ast.BinOp) and isinstance(e.op, ast.BitAnd):
            (a, ta), (b, tb) = self.expr(e.left), self.expr(e.right)
            if ta == "strs" and tb == "strs":        # set intersection: the members of the left set that lie in the right one
                return f"({a}.filter fun y => decide (y ∈ {b}))", "strs"
            raise Untranslatable("& of non-sets")
        if isinstance(e, ast.ListComp):
            if len(e.generators) != 1 or e.generators[0].ifs or e.generators[0].is_async or not isinstance(e.generators[0].target, ast.Name):
                raise Untranslatable("comprehension with conditions / several loops")
            it, t = self.expr(e.generators[0].iter)
            vt = {"ints": "int", "chars": "chr", "str": "chr", "strs": "str"}.get(t)
            if vt is None:
                raise Untranslatable(f"comprehension over {t}")
            saved = dict(self.env)
            self.env[e.generators[0].target.id] = vt
            v, tv = self.expr(e.elt)
            self.env = saved
            if tv != "int":
                raise Untranslatable("comprehension of non-integers")
            return f"({it}.map fun {e.generators[0].target.id} => {v})", "ints"
        if isinstance(e, ast.Tuple) and len(e.elts) == 2:
            (a, ta), (b, tb) = self.expr(e.elts[0]), self.expr(e.elts[1])
            if ta == "int" and tb == "int":
                return f"({a}, {b})", "pair"
            raise Untranslatable("tuple of non-integers")
        raise Untranslatable(f"expression {ast.dump(e)[:80]}")

    def call(self, e):
        fn = e.func
        if isinstance(fn, ast.Name) and fn.id == "len" and len(e.args) == 1 and not e.keywords:
            v, t = self.expr(e.args[0])
            if t not in ("str", "strs", "chars", "ints"):
                raise Untranslatable("len of this expression")
            return f"({v}.length : Int)", "int"
        if isinstance(fn, ast.Name) and fn.id == "range" and 1 <= len(e.args) <= 2 and not e.keywords:
            vs = [self.expr(a) for a in e.args]
            if any(t != "int" for _v, t in vs):
                raise Untranslatable("range bound")
            return (f"(Py.range (0 : Int) {vs[0][0]})" if len(vs) == 1 else f"(Py.range {vs[0][0]} {vs[1][0]})"), "ints"
        if isinstance(fn, ast.Name) and fn.id in ("set", "list") and len(e.args) == 1 and not e.keywords:
            v, t = self.expr(e.args[0])
            if t != "strs":
                raise Untranslatable(f"{fn.id}() of {t}")
            return (f"(dedup {v})" if fn.id == "set" else v), "strs"      # a set of strings = its distinct members, first occurrences in order
        if dotted(fn) in ("np.array", "numpy.array", "np.asarray") and len(e.args) == 1 and not e.keywords:
            return self.expr(e.args[0])
        if isinstance(fn, ast.Attribute) and fn.attr == "index" and len(e.args) == 1 and not e.keywords:
            l_, tl = self.expr(fn.value)
            v, t = self.expr(e.args[0])
            if tl == "strs" and t == "str":
                return f"(Py.index {l_} {v})", "int"
            raise Untranslatable(".index on this expression")
        if isinstance(fn, ast.Name) and self.env.get(fn.id) == "fn":
            if len(e.args) != 1 or e.keywords:
                raise Untranslatable("call of a function parameter with more than the string")
            v, t = self.expr(e.args[0])
            if t != "str":
                raise Untranslatable("function parameter applied to a non-string")
            return f"({fn.id} {v})", "strs"
        if isinstance(fn, ast.Name) and fn.id in FUNCS:
            names, d = self.mod.defaults[fn.id]
            ptypes, mode = FUNCS[fn.id]
            given = {}
            for n, a in zip(names, e.args):
                given[n] = a
            for k in e.keywords:
                if k.arg is None or k.arg not in names or k.arg in given:
                    raise Untranslatable(f"keyword argument in a call of {fn.id}")
                given[k.arg] = k.value
            args = []
            for n in names:
                node = given.get(n, d.get(n))
                if node is None:
                    raise Untranslatable(f"call of {fn.id} without {n}")
                v, t = self.expr(node)
                want = ptypes[n]
                if want == "optints":
                    v = v if t == "none" else (f"(some {v})" if t == "ints" else None)
                elif want == "chars" and t in ("chars", "str"):
                    pass
                elif want != t:
                    v = None
                if v is None:
                    raise Untranslatable(f"argument {n} of {fn.id} has type {t}, expected {want}")
                args.append(v)
            if self.mod.needs_global[fn.id]:
                args.append(GLOBAL)
            rt = {"gen": "strs", "bool": "bool", "optnat": "optnat", "value": "ints", "acc": "pairs"}[mode]
            return f"({lean_name(fn.id)} " + " ".join(args) + ")", rt
        raise Untranslatable(f"call {ast.dump(fn)[:60]}")

    # ---------------------------------------------------------------- generator / search bodies
    def gen(self, stmts, ind, search):
        """list-valued term for a statement list: the values yielded (search: one `()` per `return True` reached)"""
        pad = "  " * ind
        if not stmts:
            return pad + "[]"
        s, rest = stmts[0], stmts[1:]
        if isinstance(s, ast.Expr) and isinstance(s.value, ast.Constant) and isinstance(s.value.value, str):
            return self.gen(rest, ind, search)
        if isinstance(s, ast.Expr) and isinstance(s.value, ast.Yield) and not search:
            v, t = self.expr(s.value.value)
            if t == "chr":
                v, t = f"[{v}]", "str"
            if t != "str":
                raise Untranslatable("yield of a non-string")
            if not rest:
                return f"{pad}[{v}]"
            return f"{pad}[{v}] ++ (\n" + self.gen(rest, ind + 1, search) + ")"
        if isinstance(s, ast.Return) and search:
            if not (isinstance(s.value, ast.Constant) and s.value.value is True):
                raise Untranslatable("a return inside the loops of a search function must be `return True`")
            return f"{pad}[()]"          # (what follows a reached `return True` cannot change "some return True is reached")
        if isinstance(s, ast.Expr) and isinstance(s.value, ast.Call) and isinstance(s.value.func, ast.Attribute) and s.value.func.attr == "append" \
                and dotted(s.value.func.value) == getattr(self, "acc", None) and len(s.value.args) == 1 and not search:
            v, t = self.expr(s.value.args[0])
            if t != "pair":
                raise Untranslatable("append of something other than a pair of integers")
            if not rest:
                return f"{pad}[{v}]"
            return f"{pad}[{v}] ++ (\n" + self.gen(rest, ind + 1, search) + ")"
        if isinstance(s, ast.For) and isinstance(s.target, ast.Tuple) and len(s.target.elts) == 2 and all(isinstance(x, ast.Name) for x in s.target.elts) \
                and isinstance(s.iter, ast.Call) and dotted(s.iter.func) == "enumerate" and len(s.iter.args) == 1 and not s.iter.keywords and not s.orelse:
            it, t = self.expr(s.iter.args[0])
            if t != "strs":
                raise Untranslatable("enumerate over this expression")
            i_, x_ = s.target.elts[0].id, s.target.elts[1].id
            saved = dict(self.env)
            self.env[i_], self.env[x_] = "int", "str"
            body = self.gen(list(s.body), ind + 1, search)
            self.env = saved
            loop = f"{pad}((Py.enumerate {it}).flatMap fun ({i_}, {x_}) =>\n{body})"
            if not rest:
                return loop
            return loop + " ++ (\n" + self.gen(rest, ind + 1, search) + ")"
        if isinstance(s, ast.Assign):
            if len(s.targets) != 1 or not isinstance(s.targets[0], ast.Name):
                raise Untranslatable("assignment target")
            v, t = self.expr(s.value)
            if t not in ("str", "int", "chr", "strs"):
                raise Untranslatable(f"local variable of type {t}")
            name = s.targets[0].id
            saved = dict(self.env)
            self.env[name] = t
            r = f"{pad}let {name} := {v}\n" + self.gen(rest, ind, search)
            self.env = saved
            return r
        if isinstance(s, ast.For):
            if s.orelse or not isinstance(s.target, ast.Name):
                raise Untranslatable("for ... else / tuple target")
            it, t = self.expr(s.iter)
            vt = {"ints": "int", "chars": "chr", "str": "chr", "strs": "str"}.get(t)
            if vt is None:
                raise Untranslatable(f"iteration over {t}")
            saved = dict(self.env)
            self.env[s.target.id] = vt
            body = self.gen(list(s.body), ind + 1, search)
            self.env = saved
            loop = f"{pad}({it}.flatMap fun {s.target.id} =>\n{body})"
            if not rest:
                return loop
            return loop + " ++ (\n" + self.gen(rest, ind + 1, search) + ")"
        if isinstance(s, ast.If):
            if s.orelse:
                raise Untranslatable("if with else")
            c, t = self.expr(s.test)
            if t != "bool":
                raise Untranslatable("condition is not a boolean")
            if len(s.body) == 1 and isinstance(s.body[0], ast.Continue):
                return f"{pad}if {c} then [] else\n" + self.gen(rest, ind, search)
            if any(isinstance(n, (ast.Continue, ast.Break)) for b in s.body for n in ast.walk(b)):
                raise Untranslatable("continue / break inside a compound if")
            body = self.gen(list(s.body), ind + 1, search)
            if search and any(isinstance(n, ast.Return) for b in s.body for n in ast.walk(b)) and not rest:
                return f"{pad}(if {c} then\n{body}\n{pad}else [])"
            return f"{pad}(if {c} then\n{body}\n{pad}else []) ++ (\n" + self.gen(rest, ind + 1, search) + ")"
        raise Untranslatable(f"statement {type(s).__name__}")

    # ---------------------------------------------------------------- decision functions
    def decide_block(self, stmts, ind):
        pad = "  " * ind
        if not stmts:
            raise Untranslatable("a path without return")
        s, rest = stmts[0], stmts[1:]
        if isinstance(s, ast.Expr) and isinstance(s.value, ast.Constant) and isinstance(s.value.value, str):
            return self.decide_block(rest, ind)
        if isinstance(s, ast.Return):
            if isinstance(s.value, ast.Constant) and isinstance(s.value.value, int) and not isinstance(s.value.value, bool) and s.value.value >= 0:
                return f"{pad}some {s.value.value}"
            raise Untranslatable("return of something other than a natural-number constant")
        if isinstance(s, ast.Raise):
            if dotted(s.exc if not isinstance(s.exc, ast.Call) else s.exc.func) == "NotImplementedError":
                return f"{pad}none"
            raise Untranslatable("raise of another exception")
        if isinstance(s, ast.If):
            if s.orelse:
                raise Untranslatable("if with else")
            c, t = self.expr(s.test)
            if t != "bool":
                raise Untranslatable("condition is not a boolean")
            return f"{pad}if {c} then\n" + self.decide_block(list(s.body), ind + 1) + f"\n{pad}else\n" + self.decide_block(rest, ind)
        raise Untranslatable(f"statement {type(s).__name__}")

    # ---------------------------------------------------------------- whole function
    def lean(self):
        names, d = self.mod.defaults[self.name]
        params = " ".join(f"({p} : {LEAN_TYPE[self.ptypes[p]]})" for p in names)
        if self.mod.needs_global[self.name]:
            params += f" ({GLOBAL} : List α)"
        stmts = [s for s in self.f.body if not (isinstance(s, ast.Expr) and isinstance(s.value, ast.Constant))]
        pre = ""
        # `if p is None: p = e`
        while stmts and isinstance(stmts[0], ast.If) and isinstance(stmts[0].test, ast.Compare) and isinstance(stmts[0].test.ops[0], ast.Is) \
                and isinstance(stmts[0].test.left, ast.Name) and isinstance(stmts[0].test.comparators[0], ast.Constant) \
                and stmts[0].test.comparators[0].value is None:
            s = stmts[0]
            p = s.test.left.id
            if self.env.get(p) not in ("optints", "optstrs") or s.orelse or len(s.body) != 1 or not isinstance(s.body[0], ast.Assign) \
                    or len(s.body[0].targets) != 1 or dotted(s.body[0].targets[0]) != p:
                raise Untranslatable("`if p is None:` in a form other than `p = <default>`")
            v, t = self.expr(s.body[0].value)
            if t != {"optints": "ints", "optstrs": "strs"}[self.env[p]]:
                raise Untranslatable("the value replacing None has another type")
            pre += f"  let {p} := {p}.getD {v}\n"
            self.env[p] = t
            stmts = stmts[1:]
        if self.mode == "gen":
            if any(isinstance(n, ast.Return) for n in ast.walk(self.f)):
                raise Untranslatable("return inside a generator")
            ret, body = "List (List α)", self.gen(stmts, 1, False)
        elif self.mode == "bool":
            last = stmts[-1] if stmts else None
            if not (isinstance(last, ast.Return) and isinstance(last.value, ast.Constant) and last.value.value is False):
                raise Untranslatable("a search function must end with `return False`")
            ret, body = "Bool", "  !(List.isEmpty (α := Unit) (\n" + self.gen(stmts[:-1], 2, True) + "))"
        elif self.mode == "value":
            if len(stmts) != 1 or not isinstance(stmts[0], ast.Return) or stmts[0].value is None:
                raise Untranslatable("a value function must be a single return (after the None defaults)")
            v, t = self.expr(stmts[0].value)
            if t != "ints":
                raise Untranslatable("the returned value is not a list of integers")
            ret, body = "List Int", "  " + v
        elif self.mode == "acc":
            # `acc = []` ... `acc.append(e)` inside the loops ... `return acc`: the list of the appended values, in order
            last = stmts[-1] if stmts else None
            if not (isinstance(last, ast.Return) and isinstance(last.value, ast.Name)):
                raise Untranslatable("an accumulating function must end with `return <list>`")
            self.acc = last.value.id
            inits = [k for k, s_ in enumerate(stmts) if isinstance(s_, ast.Assign) and dotted(s_.targets[0]) == self.acc]
            if len(inits) != 1 or not (isinstance(stmts[inits[0]].value, ast.List) and not stmts[inits[0]].value.elts):
                raise Untranslatable("the accumulator must be initialised once, with []")
            if any(isinstance(n, ast.Name) and n.id == self.acc and not isinstance(getattr(n, "ctx", None), ast.Load) for s_ in stmts[inits[0] + 1:] for n in ast.walk(s_)):
                raise Untranslatable("the accumulator is rebound")
            body_stmts = stmts[:inits[0]] + stmts[inits[0] + 1:-1]
            ret, body = "List (Int × Int)", self.gen(body_stmts, 1, False)
        else:
            ret, body = "Option Nat", self.decide_block(stmts, 1)
        return f"def {lean_name(self.name)} {params} : {ret} :=\n{pre}{body}"


def dotted(node):
    if isinstance(node, ast.Name):
        return node.id
    if isinstance(node, ast.Attribute):
        b = dotted(node.value)
        return None if b is None else b + "." + node.attr
    return None


def source():
    if os.environ.get("GEN_FROM_HEAD"):
        return subprocess.run(["git", "-C", REPO, "show", "HEAD:" + SRC], capture_output=True, text=True, check=True).stdout
    return open(os.path.join(REPO, SRC)).read()


def write_if_changed(path, text):
    old = open(path).read() if os.path.exists(path) else None
    if old != text:
        with open(path, "w") as fh:
            fh.write(text)
        return os.path.basename(path)
    return None


def main():
    mod = Module(source())
    out = [f"/- GENERATED by tools/gen_loops.py from {SRC} — do not edit.", "",
           "   Each definition is the Python function of the same name, loop by loop: a generator is the list of the values it",
           "   yields (in order), a search function says whether one of its `return True` is reached, `none` = NotImplementedError;",
           "   the module global `aminoacids` is an explicit parameter. -/",
           "import Prs.Model.PyStr", "import Prs.Model.Search", "namespace Prs.Generated", "variable {α : Type} [DecidableEq α] [Inhabited α]", ""]
    for name in FUNCS:
        try:
            out += [f"/-- `{name}` of {SRC} -/", Fn(mod, name).lean(), ""]
        except Untranslatable as e:
            raise Untranslatable(f"{SRC}:{name}: {e}") from None
    out += ["end Prs.Generated", ""]
    return write_if_changed(os.path.join(OUT, "NeighborLoops.lean"), "\n".join(out))


if __name__ == "__main__":
    try:
        print("changed:", main())
    except Untranslatable as e:          # as a set-up step: the Generated file stays as committed, the checks say SOURCE-TIE-UNAVAILABLE
        print("unavailable:", e)
