"""Per-property claim texts for MANIFEST.json."""
STD_NOTE = ("Trusted: Lean kernel + axioms {propext, Classical.choice, Quot.sound} (audited per theorem on every run); "
            "the hand-written model is tied to /repo by the correspondence harness (differential, bounded by generators); "
            "third-party libraries (rapidfuzz, SciPy, pandas, NumPy, igraph, tidytcells) are replaced by mathematical "
            "specifications validated on every run, not verified. ")
CLAIMS = {
    "C01": {"text": "Theorem C01_exact (all alphabets, all string lists, all k): the model of symdel's symmetric-delete search reports exactly the ordered pairs of distinct positions within Levenshtein distance k with the exact distance, without repeats (C01_nodup, C01_no_self, C01_duplicates_at_zero, C01_symmetric); the brute-force oracle is proved equal to the specification; the model (delVariants, inverted index, self mode) is run against nn._comb_gen, SymdelDB.variant_dict, symdel and nearest_neighbor on exhaustive small-alphabet inputs and random repertoires.",
            "note": STD_NOTE + "rapidfuzz Levenshtein is modelled by the recursive spec lev (levDP = lev proved)."},
}
NOT_YET = {}
