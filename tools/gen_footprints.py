#!/usr/bin/env python3
"""Translator for C20: extract per-function purity footprints from /repo/pyrepseq/**/*.py with `ast`
and write lean/Prs/Generated/Footprints.lean.

Cells (mutable package state):
  * module-level names that some function rebinds through a `global` statement;
  * the object bound to every MUTABLE default argument (dict/list/set literal, or any call such as
    dict(...), np.arange(...)) of every function / method.
Per function (own body + package-internal callees, transitively, by simple name resolution):
  reads   cells whose value it may use;   writes  cells it may modify (rebinding a global, in-place
  mutation of a default object);   writesBeforeRead  globals it assigns before any read;
  mutatesArgs  it may mutate, in place, an object received as a parameter (a parameter that was not
  first rebound to a fresh object such as `df = df.copy()`).
This is a static APPROXIMATION of Python's semantics (no aliasing analysis); the dynamic history
check of harness/props/c20.py is what ties it to the interpreter.
"""
import ast
import os
import sys

VERIF = os.path.dirname(os.path.dirname(os.path.abspath(__file__)))
REPO = os.environ.get("VERIF_REPO", "/repo")
OUT = os.path.join(VERIF, "lean", "Prs", "Generated", "Footprints.lean")

MUTATORS = {"update", "append", "extend", "pop", "popitem", "clear", "setdefault", "insert", "remove", "sort", "reverse",
            "add", "discard", "fill", "put", "itemset", "resize", "setflags", "drop_duplicates_inplace"}


def is_mutable_default(node):
    if isinstance(node, (ast.Dict, ast.List, ast.Set, ast.ListComp, ast.DictComp, ast.SetComp)):
        return True
    if isinstance(node, ast.Call):
        f = node.func
        if isinstance(f, ast.Name) and f.id in ("float", "int", "str", "bool", "tuple", "frozenset", "range", "complex", "bytes"):
            return False     # immutable values
        return True          # dict(...), list(...), np.arange(...): a fresh mutable object shared across calls
    return False


class FuncInfo:
    def __init__(self, qual, node, module):
        self.qual, self.node, self.module = qual, node, module
        self.params = [a.arg for a in node.args.posonlyargs + node.args.args + node.args.kwonlyargs]
        # *args / **kwargs are fresh containers created by the call itself: mutating them touches nothing of the caller's
        self.fresh = set()
        if node.args.vararg:
            self.fresh.add(node.args.vararg.arg)
        if node.args.kwarg:
            self.fresh.add(node.args.kwarg.arg)
        self.default_cells = {}       # param -> cell name
        pos = node.args.posonlyargs + node.args.args
        for a, d in zip(pos[len(pos) - len(node.args.defaults):], node.args.defaults):
            if is_mutable_default(d):
                self.default_cells[a.arg] = f"{qual}.<default {a.arg}>"
        for a, d in zip(node.args.kwonlyargs, node.args.kw_defaults):
            if d is not None and is_mutable_default(d):
                self.default_cells[a.arg] = f"{qual}.<default {a.arg}>"
        self.globals_declared = set()
        self.reads, self.writes, self.wbr = set(), set(), set()
        self.escapes = set()          # names referenced but never followed by a call in this body (e.g. `return _cal_levenshtein`)
        self.call_lines = []          # line numbers of the call expressions of this body
        self.mutates_args = False
        self.calls = []               # (name, lineno)
        self.first_store, self.first_load = {}, {}


def analyse_module(path, modname):
    tree = ast.parse(open(path).read())
    funcs = {}
    module_names = set()
    for node in tree.body:
        if isinstance(node, (ast.Assign, ast.AnnAssign)):
            targets = node.targets if isinstance(node, ast.Assign) else [node.target]
            for t in targets:
                if isinstance(t, ast.Name):
                    module_names.add(t.id)
    # names rebound through a `global` statement anywhere in the module are module-level cells too
    for sub in ast.walk(tree):
        if isinstance(sub, ast.Global):
            module_names.update(sub.names)

    def visit_func(node, qual):
        fi = FuncInfo(qual, node, modname)
        funcs[qual] = fi
        rebound = set()               # params rebound to a fresh object so far (line order)
        events = []
        for sub in ast.walk(node):
            if sub is node:
                continue
            if isinstance(sub, ast.Global):
                fi.globals_declared.update(sub.names)
        for sub in ast.walk(node):
            if isinstance(sub, (ast.FunctionDef, ast.AsyncFunctionDef, ast.Lambda)) and sub is not node:
                continue
            events.append(sub)
        events = [e for e in events if hasattr(e, "lineno")]
        events.sort(key=lambda e: (e.lineno, getattr(e, "col_offset", 0)))
        param_set = set(fi.params)
        fresh = fi.fresh
        for e in events:
            # rebinding of a parameter: p = <something>
            if isinstance(e, ast.Assign):
                for t in e.targets:
                    if isinstance(t, ast.Name) and t.id in param_set:
                        # `p = p` style aliasing is not a fresh object; anything else counts as fresh
                        if not (isinstance(e.value, ast.Name) and e.value.id in param_set):
                            rebound.add(t.id)
                    if isinstance(t, ast.Name) and t.id in fi.globals_declared:
                        cell = f"{modname}.{t.id}"
                        fi.writes.add(cell)
                        fi.first_store.setdefault(cell, e.lineno)
                    if isinstance(t, (ast.Subscript, ast.Attribute)):
                        base = t.value
                        while isinstance(base, (ast.Subscript, ast.Attribute)):
                            base = base.value
                        if isinstance(base, ast.Name) and base.id in param_set and base.id not in rebound:
                            if base.id == "self":
                                continue
                            fi.mutates_args = True
                            if base.id in fi.default_cells:
                                fi.writes.add(fi.default_cells[base.id])
            if isinstance(e, ast.AugAssign) and isinstance(e.target, ast.Name):
                # x += y on a parameter: for lists/arrays this mutates in place, for numbers it rebinds
                pass
            if isinstance(e, ast.Delete):
                for t in e.targets:
                    if isinstance(t, ast.Subscript) and isinstance(t.value, ast.Name) and t.value.id in param_set and t.value.id not in rebound:
                        fi.mutates_args = True
                        if t.value.id in fi.default_cells:
                            fi.writes.add(fi.default_cells[t.value.id])
            if isinstance(e, ast.Call):
                f = e.func
                if isinstance(f, ast.Attribute) and f.attr in MUTATORS and isinstance(f.value, ast.Name):
                    nm = f.value.id
                    if nm in param_set and nm not in rebound and nm != "self":
                        fi.mutates_args = True
                        if nm in fi.default_cells:
                            fi.writes.add(fi.default_cells[nm])
                if isinstance(f, ast.Name):
                    fi.calls.append((f.id, e.lineno))
                elif isinstance(f, ast.Attribute):
                    fi.calls.append((f.attr, e.lineno))
            if isinstance(e, ast.Name) and isinstance(e.ctx, ast.Load):
                # a reference to a function (e.g. `cal = _cal_levenshtein`, later `map(cal, ...)`) counts as a potential call,
                # which can only happen at a later call expression: ordered at the first Call node on a later line
                later = [c.lineno for c in events if isinstance(c, ast.Call) and c.lineno > e.lineno]
                if later:
                    fi.calls.append((e.id, min(later)))
                else:
                    # nothing in this body can invoke it any more: the reference ESCAPES (returned / stored); whoever calls this function
                    # may invoke it afterwards (see close())
                    fi.escapes.add(e.id)
                if e.id in fi.default_cells and e.id not in rebound:
                    fi.reads.add(fi.default_cells[e.id])
                if e.id in fi.globals_declared or (e.id in module_names and e.id not in param_set):
                    cell = f"{modname}.{e.id}"
                    fi.reads.add(cell)
                    fi.first_load.setdefault(cell, e.lineno)
        fi.call_lines = sorted(c.lineno for c in events if isinstance(c, ast.Call))
        return fi

    for node in tree.body:
        if isinstance(node, (ast.FunctionDef, ast.AsyncFunctionDef)):
            visit_func(node, f"{modname}.{node.name}")
        elif isinstance(node, ast.ClassDef):
            for sub in node.body:
                if isinstance(sub, (ast.FunctionDef, ast.AsyncFunctionDef)):
                    visit_func(sub, f"{modname}.{node.name}.{sub.name}")
    return funcs


def collect():
    funcs = {}
    root = os.path.join(REPO, "pyrepseq")
    for dirpath, _d, files in sorted(os.walk(root)):
        for f in sorted(files):
            if f.endswith(".py"):
                p = os.path.join(dirpath, f)
                rel = os.path.relpath(p, root)[:-3].replace(os.sep, ".")
                mod = rel[:-9] if rel.endswith(".__init__") else rel
                funcs.update(analyse_module(p, mod or "pyrepseq"))
    return funcs


def close(funcs):
    """propagate footprints through package-internal calls (by bare name)"""
    by_name = {}
    for q, fi in funcs.items():
        by_name.setdefault(q.split(".")[-1], []).append(fi)
    # global cells = those some function writes through `global`
    global_cells = set(c for fi in funcs.values() for c in fi.writes if "<default" not in c)
    for fi in funcs.values():
        fi.reads = set(c for c in fi.reads if "<default" in c or c in global_cells)
        fi.first_load = {c: l for c, l in fi.first_load.items() if c in global_cells}
    # a function reference that escapes from a callee (it is returned, not invoked there) can be invoked by the caller at its next
    # call expression after the call - or escapes from the caller in turn
    changed = True
    while changed:
        changed = False
        for fi in funcs.values():
            for (name, line) in list(fi.calls):
                for callee in by_name.get(name, []):
                    if callee is fi:
                        continue
                    for e_ in callee.escapes:
                        if e_ not in by_name:
                            continue
                        later = [l for l in fi.call_lines if l > line]
                        if later:
                            if (e_, later[0]) not in fi.calls:
                                fi.calls.append((e_, later[0]))
                                changed = True
                        elif e_ not in fi.escapes:
                            fi.escapes.add(e_)
                            changed = True
    changed = True
    while changed:
        changed = False
        for fi in funcs.values():
            for (name, _line) in fi.calls + [(e_, 0) for e_ in fi.escapes]:
                for callee in by_name.get(name, []):
                    if callee is fi:
                        continue
                    for attr in ("reads", "writes"):
                        new = set(c for c in getattr(callee, attr) if "<default" not in c or True) - getattr(fi, attr)
                        # a callee's DEFAULT cell is only involved when the caller does not pass that argument; over-approximate
                        if new:
                            getattr(fi, attr).update(new)
                            changed = True
                    if callee.mutates_args and not fi.mutates_args:
                        # the callee mutates ITS parameter; whether that is the caller's own argument is unknown statically:
                        # recorded separately (does not propagate mutatesArgs, to avoid blanket false positives)
                        pass
    # what a function reads WHILE IT RUNS (its own loads and those of what it calls; not what an escaping reference would read later)
    rwc = {id(fi): set(fi.first_load) for fi in funcs.values()}
    changed = True
    while changed:
        changed = False
        for fi in funcs.values():
            for (name, _line) in fi.calls:
                for callee in by_name.get(name, []):
                    if callee is not fi and not rwc[id(callee)] <= rwc[id(fi)]:
                        rwc[id(fi)] |= rwc[id(callee)]
                        changed = True
    # writes-before-read for global cells
    for fi in funcs.values():
        for c in list(fi.writes):
            if "<default" in c:
                continue
            store = fi.first_store.get(c)
            if store is not None:
                load = fi.first_load.get(c, 10 ** 9)
                reader_calls = [l for (n, l) in fi.calls for cal in by_name.get(n, []) if c in rwc[id(cal)] and cal is not fi]
                if store <= load and all(store <= l for l in reader_calls):
                    fi.wbr.add(c)
    changed = True
    while changed:
        changed = False
        for fi in funcs.values():
            for c in fi.writes - fi.wbr:
                if "<default" in c or c in fi.first_store:
                    continue
                # inherited write: WBR if every callee that touches c has it WBR and fi itself never loads it directly
                touching = [cal for (n, _l) in fi.calls for cal in by_name.get(n, []) if cal is not fi and (c in cal.writes or c in rwc[id(cal)])]
                if touching and all(c in cal.wbr for cal in touching) and c not in fi.first_load:
                    fi.wbr.add(c)
                    changed = True
    return funcs


def public(qual):
    parts = qual.split(".")
    return not any(p.startswith("_") and not p.startswith("__init__") for p in parts[1:] if p != "__init__") and "tests" not in qual


def main():
    funcs = close(collect())
    cells = sorted(set(c for fi in funcs.values() for c in (fi.reads | fi.writes | fi.wbr)) |
                   set(c for fi in funcs.values() for c in fi.default_cells.values()))
    cid = {c: i for i, c in enumerate(cells)}
    rows = []
    for q in sorted(funcs):
        fi = funcs[q]
        if not public(q):
            continue
        rows.append((q, sorted(cid[c] for c in fi.reads), sorted(cid[c] for c in fi.writes), sorted(cid[c] for c in fi.wbr), fi.mutates_args))
    out = ["/- GENERATED by tools/gen_footprints.py from /repo/pyrepseq/**/*.py — do not edit. -/",
           "import Prs.Model.Purity", "namespace Prs.Generated", "",
           "/-- mutable package state: rebindable module globals and mutable default-argument objects -/",
           "def cellNames : List String := [" + ", ".join('"' + c.replace('"', "'") + '"' for c in cells) + "]", ""]
    for i, (q, r, w, wbr, m) in enumerate(rows):
        out.append(f"def fp{i} : Footprint := {{ name := \"{q}\", reads := {r}, writes := {w}, writesBeforeRead := {wbr}, mutatesArgs := {'true' if m else 'false'} }}")
    out.append("def footprints : List Footprint := [" + ", ".join(f"fp{i}" for i in range(len(rows))) + "]")
    out += ["",
            "/-- the side condition of the purity theorems, checked on the footprints extracted from the CURRENT source:",
            "    no public function mutates an argument object, and no function writes a cell whose incoming value any function depends on -/",
            "theorem footprints_ok : footprintsOk footprints = true := by decide +kernel",
            "", "end Prs.Generated", ""]
    text = "\n".join(out)
    old = open(OUT).read() if os.path.exists(OUT) else None
    if old != text:
        os.makedirs(os.path.dirname(OUT), exist_ok=True)
        open(OUT, "w").write(text)
    return {"cells": cells, "rows": rows, "changed": old != text}


if __name__ == "__main__":
    info = main()
    print("cells:", len(info["cells"]), "functions:", len(info["rows"]), "changed:", info["changed"])
    for q, r, w, wbr, m in info["rows"]:
        if w or m:
            print(" ", q, "reads", [info["cells"][i] for i in r], "writes", [info["cells"][i] for i in w], "wbr", [info["cells"][i] for i in wbr], "mutatesArgs", m)
