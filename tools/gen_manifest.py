#!/usr/bin/env python3
"""Regenerate MANIFEST.json from the table below (keeps it valid at all times)."""
import json, os, sys
VERIF = os.path.dirname(os.path.dirname(os.path.abspath(__file__)))
sys.path.insert(0, VERIF)
from tools.claims import CLAIMS, NOT_YET  # noqa

props = [json.loads(l) for l in open(os.path.join(VERIF, "properties.jsonl"))]
ids = [p["id"] for p in props]
checks, na = [], []
for pid in ids:
    if pid in CLAIMS:
        c = CLAIMS[pid]
        checks.append({
            "property_id": pid,
            "quick_cmd": f"./check {pid} --tier quick",
            "thorough_cmd": f"./check {pid} --tier thorough",
            "evidence_file": f"evidence/{pid}.json",
            "replay_cmd_template": f"./check {pid} --replay {{path}}",
            "engine": "lean4-proof+correspondence",
            "level_claimed": {"category": "proof", "text": c["text"], "design_ref": c.get("design_ref", "DESIGN.md section 6")},
            "level_note": c["note"],
            "technique": c.get("technique", "Lean 4 theorems about a hand-written executable model + differential correspondence check of model vs implementation"),
        })
    else:
        na.append({"property_id": pid, "reason": NOT_YET.get(pid, "check not built yet in this round; no claim is made")})
man = {
    "version": 1,
    "setup_cmd": "python3 tools/gen_lean_tables.py && python3 tools/gen_footprints.py >/dev/null && python3 tools/gen_formulas.py >/dev/null && python3 tools/gen_loops.py >/dev/null && cd lean && ./gen_root.sh && lake build Prs driver",
    "hooks": {"guard": "ANDIM_PYREPSEQ_VERIF", "enable": "no hooks are compiled into /repo; checks import pyrepseq from /repo's working tree through the editable install",
              "baseline_off_cmd": "cd /repo && /venv/bin/python -m pytest -ra -q -p no:cacheprovider --timeout=900 --continue-on-collection-errors",
              "source_commits": [], "add_only": True},
    "engines": [{"name": "lean4-proof+correspondence", "path": "lean/ harness/ check",
                 "serves_properties": sorted(CLAIMS), "kind_free_text": "Lean 4 model + theorems (kernel-checked, axioms audited) tied to /repo by a differential correspondence harness over a JSON line protocol"}],
    "checks": checks,
    "notes": "exit 0 held / 1 VIOLATION / 2 infrastructure. Known findings in known_findings.json. See DESIGN.md.",
    "not_applicable": na,
}
json.dump(man, open(os.path.join(VERIF, "MANIFEST.json"), "w"), indent=1)
print("claims:", sorted(CLAIMS), "not claimed:", [x["property_id"] for x in na])
