#!/usr/bin/env python3
"""Translator: straight-line arithmetic / set functions of pyrepseq/stats.py  ->  Lean definitions over ℚ.

The functions listed in GROUPS are parsed with `ast` from /repo's CURRENT source and re-emitted as Lean 4
definitions (lean/Prs/Generated/Formulas*.lean).  Properties/C02, C06 and C16 prove that each generated
definition IS the hand-written model the property theorems are about (`Cxx_source_*`), so a change of a
coefficient, an operator, a branch condition or an index in the Python source changes the generated definition
and breaks that proof on the next run.

Subset handled (anything else raises Untranslatable -> broken obligation of the checks that use the group):
  statements   `x = <expr>`, `if <cond>: return <expr>` (no else), `return <expr>`, doc strings
  identity     `x = np.asarray(x) | np.array(x) | ensure_numpy(x) | pd.Series(list(x)) | x.dropna()`, and
               `if type(x) ==/!= pd.Series: <identity assignments>`      (pandas / NumPy conversions: MODELLED as the
               identity on a list of non-missing values; the correspondence check covers them)
  expressions  names, int / float constants (floats exactly, as fractions), + - * /, ** <int constant>,
               np.sum(v) | v.sum() | sum(v), element-wise arithmetic on ONE count vector, v[<int constant>]
               (an absent index reads 0: the real code raises IndexError there), len(.), min(.,.), np.nan,
               set(.), .intersection(.), .union(.), comparisons, and / or / not
"""
import ast
import os
import subprocess
import sys
from fractions import Fraction

VERIF = os.path.dirname(os.path.dirname(os.path.abspath(__file__)))
REPO = os.environ.get("VERIF_REPO", "/repo")
OUT = os.path.join(VERIF, "lean", "Prs", "Generated")


class Untranslatable(Exception):
    pass


# group -> (module path, output file, [(function, {param: type}), ...])
GROUPS = {
    # `pc` of ONE flat collection (not a DataFrame, not a 2-tuple; `array2=None`): np.unique(return_counts) is `counts` of Model/Stats
    "pc": ("pyrepseq/stats.py", "FormulasPc.lean", [("pc_n", {"n": "vec"}), ("varpc_n", {"n": "vec"}),
                                                     ("pc", {"array": "coll"}, {"real": False, "static": {"array2": None},
                                                                                "suffix": "_one_sample"}),
                                                     # ... and of TWO flat collections: np.intersect1d(return_indices) over the two np.unique
                                                     # results selects the counts of the shared values
                                                     ("pc", {"array": "coll", "array2": "coll"}, {"real": False, "suffix": "_two_samples"})]),
    # `downsample` of one flat collection: NumPy's `random.choice(a, m, replace=False)` is a function parameter; one definition with
    # `maxseqs` a number and one with `maxseqs=None`
    "downsample": ("pyrepseq/distance.py", "FormulasDownsample.lean", [
        ("downsample", {"seqs": "coll", "maxseqs": "nat"}, {"real": False, "opaque_fn": {"np.random.choice": ("choice", "List β → Nat → List β", "coll")}}),
        ("downsample", {"seqs": "coll"}, {"real": False, "static": {"maxseqs": None}, "suffix": "_none",
                                         "opaque_fn": {"np.random.choice": ("choice", "List β → Nat → List β", "coll")}})]),
    "richness": ("pyrepseq/stats.py", "FormulasRichness.lean", [
        ("chao1", {"counts": "vec"}), ("var_chao1", {"counts": "vec"}),
        ("chao2", {"counts": "vec", "m": "rat"}), ("var_chao2", {"counts": "vec", "m": "rat"}),
        ("jaccard_index", {"A": "coll", "B": "coll"}), ("overlap", {"A": "coll", "B": "coll"}),
        ("overlap_coefficient", {"A": "coll", "B": "coll"})]),
}

# functions over the reals (logarithms, real powers): (function, types, options)
#   static    : parameters fixed to a constant; conditions on them are decided at translation time (one definition per value)
#   external  : local names bound to an external source (NumPy's RNG) -> become parameters
REAL_GROUP = ("pyrepseq/stats.py", "FormulasReal.lean", [
    ("powerlaw_sample", {"size": "rat", "xmin": "rat", "alpha": "rat"}, {"external": {"r": "vec"}, "drop": ["size"]}),
    ("powerlaw_mle_alpha", {"c": "vec", "cmin": "rat"}, {"static": {"method": "simple"}, "suffix": "_simple", "drop_kwargs": True}),
    ("powerlaw_mle_alpha", {"c": "vec", "cmin": "rat"}, {"static": {"method": "continuitycorrection"}, "suffix": "_continuitycorrection",
                                                      "drop_kwargs": True}),
    # the objective of the 'exact' method; SciPy's Hurwitz zeta is a function parameter
    ("_discrete_loglikelihood", {"x": "vec", "alpha": "rat", "xmin": "rat"}, {"opaque_fn": {"scipy.special.zeta": "zeta"},
                                                                              "name": "discrete_loglikelihood"}),
])

# pyrepseq/entropy.py: the entropies as functions of the coincidence statistics they call (`opaque`: the value of a call of that
# function is a parameter of the generated definition, in this order); `raise_as_none`: a reachable `raise` is the result `none`;
# one definition per static shape of `features` / `by` and per `base` given or None
_ENT_OPAQUE = ["pc", "pc_joint", "pc_conditional"]
_STD_OPAQUE = ["pc", "pc_joint", "stdpc", "stdpc_joint"]


def _ent(name, static, suffix, opaque, with_base):
    st = dict(static)
    if not with_base:
        st["base"] = None
    return (name, {"base": "rat"} if with_base else {}, {"static": st, "suffix": suffix + ("" if with_base else "_nat"), "drop_kwargs": True,
                                                           "opaque": opaque, "raise_as_none": True, "drop": ["df"]})


ENTROPY_GROUP = ("pyrepseq/entropy.py", "FormulasEntropy.lean", [
    _ent("renyi2_entropy", st, sfx, _ENT_OPAQUE, wb)
    for st, sfx in (({"features": "f", "by": None}, "_single"), ({"features": ["f", "g"], "by": None}, "_joint"),
                    ({"features": "f", "by": "k"}, "_conditional"))
    for wb in (True, False)] + [
    _ent("stdrenyi2_entropy", st, sfx, _STD_OPAQUE, wb)
    for st, sfx in (({"features": "f"}, "_single"), ({"features": ["f", "g"]}, "_joint"))
    for wb in (True, False)])

# the standard deviation estimator: `varpc_n` inlined, under the real square root
STD_GROUP = ("pyrepseq/stats.py", "FormulasStd.lean", [("stdpc_n", {"n": "vec"}, {}), ("stdpc", {"array": "coll"}, {})])

IDENTITY_CALLS = {"np.asarray", "np.array", "ensure_numpy", "list", "pd.Series", "convert_tuple_to_dataframe_if_necessary"}


def dotted(node):
    if isinstance(node, ast.Name):
        return node.id
    if isinstance(node, ast.Attribute):
        b = dotted(node.value)
        return None if b is None else b + "." + node.attr
    return None


def rat_lit(v):
    if isinstance(v, bool):
        raise Untranslatable("boolean constant in arithmetic")
    f = Fraction(v)
    if f.denominator == 1:
        return f"({f.numerator} : Rat)" if f >= 0 else f"(-{-f.numerator} : Rat)"
    return f"(({f.numerator} : Rat) / {f.denominator})"


class Fn:
    def __init__(self, fdef, ptypes, opts=None):
        self.f = fdef
        self.env = dict(ptypes)          # name -> type
        self.ptypes = ptypes
        self.opts = opts or {}
        self.real = opts is not None and opts.get("real", True)     # over ℝ (noncomputable) instead of ℚ
        self.local_defs = {}             # functions defined inside the function
        self.K = "ℝ" if self.real else "Rat"
        self.static = dict(self.opts.get("static", {}))
        self.externals = []              # (name, type) of locals turned into parameters
        self.has_nan = any(isinstance(n, ast.Return) and n.value is not None and dotted(n.value) in ("np.nan", "numpy.nan", "math.nan")
                           for n in ast.walk(fdef)) or bool(self.opts.get("raise_as_none"))
        self.ret = None
        self.vecs = {}                   # local names bound to element-wise expressions (substituted where used)
        self.module_defs = self.opts.get("module_defs") or {}
        self.depth = self.opts.get("depth", 0)
        self.tmp = 0
        self.opaque_seen = {}
        self.unique_of = {}              # counts name -> (values name, collection term) from `values, counts = np.unique(a, return_counts=True)`
        self.shared = {}                 # index name -> (collection term, shared-values term) from np.intersect1d(..., return_indices=True)

    # ---- expressions: return (lean, type); vec values are ("vec", base, body) with body a term in the bound variable x
    def is_identity(self, node, var=None):
        """conversion calls that are modelled as the identity on a list of (non-missing) values"""
        if isinstance(node, ast.Call):
            name = dotted(node.func)
            if name in IDENTITY_CALLS and len(node.args) == 1 and not node.keywords:
                return self.is_identity(node.args[0], var)
            if isinstance(node.func, ast.Attribute) and node.func.attr == "dropna" and not node.args and not node.keywords:
                return self.is_identity(node.func.value, var)
            if isinstance(node.func, ast.Name) and node.func.id in self.local_defs and len(node.args) == 1 and not node.keywords \
                    and self.identity_on_flat(self.local_defs[node.func.id]):
                return self.is_identity(node.args[0], var)
            return None
        if isinstance(node, ast.Name) and (self.env.get(node.id) in ("vec", "coll") or node.id in self.vecs):
            return node.id
        return None

    def identity_on_flat(self, fdef):
        """a local helper `def f(a): if not isinstance(a, DataFrame): return <conversion>(a) ...`: the identity on a collection that is not a
        DataFrame (the only kind the translated definition is about)"""
        body = [b for b in fdef.body if not (isinstance(b, ast.Expr) and isinstance(b.value, ast.Constant))]
        if len(fdef.args.args) != 1 or not body or not isinstance(body[0], ast.If):
            return False
        prm, t = fdef.args.args[0].arg, body[0].test
        if not (isinstance(t, ast.UnaryOp) and isinstance(t.op, ast.Not) and isinstance(t.operand, ast.Call) and dotted(t.operand.func) == "isinstance"
                and len(t.operand.args) == 2 and dotted(t.operand.args[0]) == prm and dotted(t.operand.args[1]) in ("DataFrame", "pd.DataFrame")):
            return False
        rb = body[0].body
        if len(rb) != 1 or not isinstance(rb[0], ast.Return) or rb[0].value is None:
            return False
        v = rb[0].value
        while isinstance(v, ast.Call) and dotted(v.func) in IDENTITY_CALLS and len(v.args) == 1 and not v.keywords:
            v = v.args[0]
        return isinstance(v, ast.Name) and v.id == prm

    def expr(self, e):
        if isinstance(e, ast.Name):
            if e.id in self.vecs:
                return self.vecs[e.id], "vec"
            if e.id not in self.env:
                raise Untranslatable(f"unknown name {e.id}")
            t = self.env[e.id]
            if t == "vec":
                return ("vec", e.id, "x"), "vec"
            return e.id, t
        if isinstance(e, ast.Constant):
            if isinstance(e.value, (int, float)) and not isinstance(e.value, bool):
                return (rat_lit(e.value), "const", e.value), "const"
            raise Untranslatable(f"constant {e.value!r}")
        if isinstance(e, ast.UnaryOp) and isinstance(e.op, ast.USub):
            v, t = self.expr(e.operand)
            return f"(-{self.as_rat(v, t)})", "rat"
        if isinstance(e, ast.UnaryOp) and isinstance(e.op, ast.Not):
            v, t = self.expr(e.operand)
            if t in ("set", "coll"):
                return f"(({v}).length = 0)", "prop"          # truth value of a collection: non-empty
            if t != "prop":
                raise Untranslatable("not of a non-condition")
            return f"(¬ {v})", "prop"
        if isinstance(e, ast.BinOp):
            return self.binop(e)
        if isinstance(e, ast.Subscript) and isinstance(e.value, ast.Attribute) and e.value.attr == "shape" and isinstance(e.slice, ast.Constant) \
                and e.slice.value == 0:
            v, t = self.expr(e.value.value)
            if t in ("set", "coll"):
                return f"({v}).length", "nat"              # `a.shape[0]` of a one-dimensional collection
            if t == "vec" and v[2] == "x":
                return f"{v[1]}.length", "nat"
            raise Untranslatable("shape of this expression")
        if isinstance(e, ast.Subscript) and isinstance(e.value, ast.Name) and isinstance(e.slice, ast.Name) and e.value.id in self.unique_of \
                and e.slice.id in self.shared:
            coll, shared = self.shared[e.slice.id]
            if self.unique_of[e.value.id][1] != coll:
                raise Untranslatable("counts of one collection indexed with the positions of another")
            return ("vec", shared, f"((({coll}).count x : Nat) : Rat)"), "vec"      # the multiplicities of the shared values
        if isinstance(e, ast.Subscript):
            v, t = self.expr(e.value)
            if t == "vec" and v[2] == "x" and isinstance(e.slice, ast.Constant) and isinstance(e.slice.value, int) and e.slice.value >= 0:
                return f"({v[1]}.getD {e.slice.value} 0)", "rat"
            if t == "vec" and v[2] == "x" and isinstance(e.slice, ast.Compare):
                m, tm = self.expr(e.slice)              # boolean mask `c[c >= cmin]`: element-wise condition on the same vector
                if tm == "vecprop" and m[1] == v[1]:
                    return ("vec", f"({v[1]}.filter fun x => decide {m[2]})", "x"), "vec"
            raise Untranslatable("subscript other than <count vector>[<non-negative int constant>] or a mask on the same vector")
        if isinstance(e, ast.Call):
            return self.call(e)
        if isinstance(e, ast.Compare):
            if len(e.ops) != 1:
                raise Untranslatable("chained comparison")
            if isinstance(e.ops[0], (ast.Is, ast.IsNot)) and isinstance(e.comparators[0], ast.Constant) and e.comparators[0].value is None \
                    and isinstance(e.left, ast.Name) and self.env.get(e.left.id) in ("rat", "nat", "coll", "set", "vec"):
                return ("False" if isinstance(e.ops[0], ast.Is) else "True"), "prop"      # a number is not None
            a, ta = self.expr(e.left)
            b, tb = self.expr(e.comparators[0])
            op = {ast.Eq: "=", ast.NotEq: "≠", ast.Lt: "<", ast.LtE: "≤", ast.Gt: ">", ast.GtE: "≥"}.get(type(e.ops[0]))
            if op is None:
                raise Untranslatable("comparison operator")
            if ta == "vec" and tb in ("rat", "const", "nat"):
                return ("vecprop", a[1], f"({a[2]} {op} {self.as_rat(b, tb)})"), "vecprop"
            if "nat" in (ta, tb) and all(t in ("nat", "const") for t in (ta, tb)):
                return f"({self.as_nat(a, ta)} {op} {self.as_nat(b, tb)})", "prop"
            return f"({self.as_rat(a, ta)} {op} {self.as_rat(b, tb)})", "prop"
        if isinstance(e, ast.BoolOp):
            vs = [self.expr(v) for v in e.values]
            if any(t != "prop" for _v, t in vs):
                raise Untranslatable("and/or of non-conditions")
            return "(" + (" ∨ " if isinstance(e.op, ast.Or) else " ∧ ").join(v for v, _t in vs) + ")", "prop"
        if dotted(e) in ("np.nan", "numpy.nan", "math.nan"):
            return "none", "nan"
        raise Untranslatable(f"expression {ast.dump(e)[:80]}")

    def as_nat(self, v, t):
        if t == "nat":
            return v
        if t == "const" and isinstance(v[2], int) and v[2] >= 0:
            return str(v[2])
        raise Untranslatable("a natural number is needed")

    def as_rat(self, v, t):
        if t == "rat":
            return v
        if t == "const":
            return v[0]
        if t == "nat":
            return f"(({v} : Nat) : Rat)"
        raise Untranslatable(f"a number is needed, got {t}")

    def binop(self, e):
        a, ta = self.expr(e.left)
        b, tb = self.expr(e.right)
        if isinstance(e.op, ast.Pow):
            if self.real and not (tb == "const" and isinstance(b[2], int) and b[2] >= 0):
                eb = self.as_rat(b, tb)                 # real power (Real.rpow)
                if ta == "vec":
                    return ("vec", a[1], f"({a[2]} ^ {eb})"), "vec"
                return f"({self.as_rat(a, ta)} ^ {eb})", "rat"
            if tb != "const" or not isinstance(b[2], int) or b[2] < 0:
                raise Untranslatable("power with a non-constant / non-natural exponent")
            if ta == "vec":
                return ("vec", a[1], f"({a[2]} ^ {b[2]})"), "vec"
            return f"({self.as_rat(a, ta)} ^ {b[2]})", "rat"
        if isinstance(e.op, (ast.BitAnd, ast.BitOr)) and ta == "set" and tb == "set":
            return (f"({a}.filter fun y => decide (y ∈ {b}))" if isinstance(e.op, ast.BitAnd) else f"(dedup ({a} ++ {b}))"), "set"
        op = {ast.Add: "+", ast.Sub: "-", ast.Mult: "*", ast.Div: "/"}.get(type(e.op))
        if op is None:
            raise Untranslatable("arithmetic operator")
        if ta == "nat" and tb == "nat" and op in "+*":
            return f"({a} {op} {b})", "nat"
        if "vec" in (ta, tb):
            if ta == "vec" and tb == "vec":
                if a[1] != b[1]:
                    raise Untranslatable("element-wise arithmetic on two different vectors")
                return ("vec", a[1], f"({a[2]} {op} {b[2]})"), "vec"
            if ta == "vec":
                return ("vec", a[1], f"({a[2]} {op} {self.as_rat(b, tb)})"), "vec"
            return ("vec", b[1], f"({self.as_rat(a, ta)} {op} {b[2]})"), "vec"
        return f"({self.as_rat(a, ta)} {op} {self.as_rat(b, tb)})", "rat"

    def vec_term(self, v):
        return v[1] if v[2] == "x" else f"({v[1]}.map fun x => {v[2]})"

    def call(self, e):
        name = dotted(e.func)
        if name in self.opts.get("opaque_fn", {}) and (not e.keywords or not isinstance(self.opts["opaque_fn"][name], str)):
            # an external function (SciPy's zeta, NumPy's random.choice without replacement): a function parameter of the generated
            # definition, applied to the translated positional arguments
            spec = self.opts["opaque_fn"][name]
            fname, rtype = (spec, "rat") if isinstance(spec, str) else (spec[0], spec[2])
            if e.keywords and [(k.arg, getattr(k.value, "value", None)) for k in e.keywords] != [("replace", False)]:
                raise Untranslatable(f"keyword arguments of {name}")

            def arg(a_):
                v_, t_ = self.expr(a_)
                return v_ if t_ in ("coll", "set", "nat") else self.as_rat(v_, t_)
            return "(" + " ".join([fname] + [arg(a_) for a_ in e.args]) + ")", rtype
        if name in self.opts.get("opaque", ()):
            # the value of this call is a parameter of the generated definition (one per callee; two calls of one callee must be the same call)
            text = ast.unparse(e)
            if self.opaque_seen.setdefault(name, text) != text:
                raise Untranslatable(f"two different calls of {name}")
            return name + "_val", "rat"
        if e.keywords:
            raise Untranslatable("keyword arguments")
        args = e.args
        # sums
        if name in ("np.sum", "numpy.sum", "sum") and len(args) == 1:
            v, t = self.expr(args[0])
            if t != "vec":
                raise Untranslatable("sum of a non-vector")
            return f"({self.vec_term(v)}).sum", "rat"
        if isinstance(e.func, ast.Attribute) and e.func.attr == "sum" and not args:
            v, t = self.expr(e.func.value)
            if t == "vec":
                return f"({self.vec_term(v)}).sum", "rat"
        if self.real and name in ("np.log", "numpy.log", "np.floor", "numpy.floor", "np.sqrt", "numpy.sqrt", "math.sqrt") and len(args) == 1:
            v, t = self.expr(args[0])
            wrap = (lambda b: f"(Real.log {b})") if name.endswith("log") else (lambda b: f"(Real.sqrt {b})") if name.endswith("sqrt") \
                else (lambda b: f"((⌊{b}⌋ : ℤ) : Rat)")
            if t == "vec":
                return ("vec", v[1], wrap(v[2])), "vec"
            return wrap(self.as_rat(v, t)), "rat"
        if name == "len" and len(args) == 1:
            v, t = self.expr(args[0])
            if t == "vec" and v[2] == "x":
                return f"{v[1]}.length", "nat"
            if t in ("set", "coll"):
                return f"({v}).length", "nat"
            raise Untranslatable("len of this expression")
        if name == "min" and len(args) == 2:
            (a, ta), (b, tb) = self.expr(args[0]), self.expr(args[1])
            if ta == "nat" and tb == "nat":
                return f"(min {a} {b})", "nat"
            return f"(min {self.as_rat(a, ta)} {self.as_rat(b, tb)})", "rat"
        if name == "set" and len(args) == 1:
            v, t = self.expr(args[0])
            if t in ("coll", "set"):
                return f"(dedup {v})", "set"
            raise Untranslatable("set() of this expression")
        if isinstance(e.func, ast.Attribute) and e.func.attr in ("intersection", "union") and len(args) == 1:
            a, ta = self.expr(e.func.value)
            b, tb = self.expr(args[0])
            if ta != "set" or tb != "set":
                raise Untranslatable("set operation on non-sets")
            if e.func.attr == "intersection":
                return f"({a}.filter fun y => decide (y ∈ {b}))", "set"
            return f"(dedup ({a} ++ {b}))", "set"
        if isinstance(e.func, ast.Name) and e.func.id in self.module_defs and self.depth < 3:
            return self.inline_helper(self.module_defs[e.func.id], args)
        raise Untranslatable(f"call {name or ast.dump(e.func)[:40]}")

    @staticmethod
    def straight_line(fdef):
        body = [b for b in fdef.body if not (isinstance(b, ast.Expr) and isinstance(b.value, ast.Constant))]
        return bool(body) and isinstance(body[-1], ast.Return) and sum(isinstance(n, ast.Return) for n in ast.walk(fdef)) == 1 and len(body) > 1

    def inline_statements(self, fdef, args, target):
        """`t = helper(a, b)` / `t1, t2 = helper(a, b)` for a helper that is statements + ONE final return: the helper's statements with
        its names made unique, then the targets bound to the returned value(s)"""
        import copy
        a = fdef.args
        body = [b for b in fdef.body if not (isinstance(b, ast.Expr) and isinstance(b.value, ast.Constant))]
        if a.vararg or a.kwarg or a.kwonlyargs or a.posonlyargs or len(args) != len(a.args) or not body or not isinstance(body[-1], ast.Return) \
                or sum(isinstance(n, ast.Return) for n in ast.walk(fdef)) != 1:
            return None
        self.tmp += 1
        sfx = f"_h{self.tmp}"
        local = {p.arg for p in a.args} | {n.id for b in body for n in ast.walk(b) if isinstance(n, ast.Name) and isinstance(n.ctx, ast.Store)}

        class Ren(ast.NodeTransformer):
            def visit_Name(self, node):
                return ast.copy_location(ast.Name(id=node.id + sfx, ctx=node.ctx), node) if node.id in local else node
        stmts = [ast.Assign(targets=[ast.Name(id=p.arg + sfx, ctx=ast.Store())], value=arg) for p, arg in zip(a.args, args)]
        stmts += [Ren().visit(copy.deepcopy(b)) for b in body[:-1]]
        rv = Ren().visit(copy.deepcopy(body[-1].value))
        stmts.append(ast.Assign(targets=[target], value=rv))
        for st_ in stmts:
            ast.fix_missing_locations(st_)
        return stmts

    def inline_helper(self, fdef, args):
        """a call of a module-level helper: its body, translated in place with the parameters bound to the arguments"""
        a = fdef.args
        if a.vararg or a.kwarg or a.kwonlyargs or a.posonlyargs or len(args) > len(a.args):
            raise Untranslatable(f"call of {fdef.name}: parameter form")
        nodes = list(args) + list(a.defaults)[len(a.defaults) - (len(a.args) - len(args)):] if len(args) < len(a.args) else list(args)
        if len(nodes) != len(a.args):
            raise Untranslatable(f"call of {fdef.name}: missing arguments")
        ptypes, lets, vecs = {}, [], {}
        for prm, node in zip(a.args, nodes):
            v, t = self.expr(node)
            if t == "vec":
                ptypes[prm.arg] = "vec"
                if v[2] != "x" or not v[1].isidentifier() or v[1] != prm.arg:
                    vecs[prm.arg] = v
            elif t in ("set", "coll"):
                self.tmp += 1
                ptypes[prm.arg] = t
                lets.append(f"let {prm.arg} := {v}")
            elif t in ("rat", "const", "nat"):
                ptypes[prm.arg] = "rat" if t != "nat" else "nat"
                lets.append(f"let {prm.arg} := {self.as_rat(v, t) if t != 'nat' else v}")
            else:
                raise Untranslatable(f"call of {fdef.name}: argument of type {t}")
        sub = Fn(fdef, ptypes, dict(self.opts, module_defs=self.module_defs, depth=self.depth + 1) if self.real else None)
        if not self.real:
            sub.opts = {"module_defs": self.module_defs, "depth": self.depth + 1}
            sub.module_defs, sub.depth = self.module_defs, self.depth + 1
        sub.static, sub.externals = {}, []
        sub.vecs = dict(vecs)
        for k_, v_ in vecs.items():
            sub.env.pop(k_, None)
        if sub.has_nan:
            raise Untranslatable(f"call of {fdef.name}: a helper that can return nan")
        body = sub.block(list(fdef.body), 0)
        if sub.externals:
            raise Untranslatable(f"call of {fdef.name}: random draws inside a helper")
        term = "(" + "\n".join(lets + [body.strip()]) + ")"
        rt = {"Rat": "rat", "Nat": "nat", "Prop": "prop", "List Rat": None, None: "rat"}[sub.ret]
        if rt is None:
            raise Untranslatable(f"call of {fdef.name}: vector-valued helper")
        return term, rt

    # ---- statements
    def ret_term(self, e):
        v, t = self.expr(e)
        if t == "nan":
            return "none"
        if t == "vec" and not self.has_nan:
            self.note_ret("List Rat")
            return self.vec_term(v)
        if t == "nat" and not self.has_nan:
            self.note_ret("Nat")
            return v
        if t in ("coll", "set") and not self.has_nan:
            self.note_ret("List β")
            return v
        if t == "prop" and not self.has_nan:
            self.note_ret("Prop")
            return v
        self.note_ret("Rat")
        r = self.as_rat(v, t)
        return f"some {r}" if self.has_nan else r

    def note_ret(self, t):
        if self.ret not in (None, t):
            raise Untranslatable("return values of different types")
        self.ret = t

    def block(self, stmts, ind):
        pad = "  " * ind
        if not stmts:
            raise Untranslatable("a path without return")
        s, rest = stmts[0], stmts[1:]
        if isinstance(s, ast.Expr) and isinstance(s.value, ast.Constant) and isinstance(s.value.value, str):
            return self.block(rest, ind)
        if isinstance(s, ast.Return):
            if s.value is None:
                raise Untranslatable("bare return")
            return pad + self.ret_term(s.value)
        if isinstance(s, ast.Assign) and len(s.targets) == 1 and isinstance(s.targets[0], ast.Tuple) and isinstance(s.value, ast.Tuple) \
                and len(s.targets[0].elts) == len(s.value.elts) and all(isinstance(x, ast.Name) for x in s.targets[0].elts):
            # `a, b = e1, e2`: both right-hand sides are evaluated before either name is bound
            tmps = []
            for x in s.value.elts:
                self.tmp += 1
                tmps.append(ast.Name(id=f"tmp{self.tmp}_", ctx=ast.Load()))
            first = [ast.Assign(targets=[ast.Name(id=t_.id, ctx=ast.Store())], value=v_) for t_, v_ in zip(tmps, s.value.elts)]
            second = [ast.Assign(targets=[ast.Name(id=x.id, ctx=ast.Store())], value=t_) for x, t_ in zip(s.targets[0].elts, tmps)]
            return self.block(first + second + rest, ind)
        if isinstance(s, ast.Assign) and len(s.targets) == 1 and isinstance(s.value, ast.Call) and isinstance(s.value.func, ast.Name) \
                and s.value.func.id in self.module_defs and self.depth < 3 and not s.value.keywords \
                and (isinstance(s.targets[0], ast.Tuple) or self.straight_line(self.module_defs[s.value.func.id])):
            inl = self.inline_statements(self.module_defs[s.value.func.id], s.value.args, s.targets[0])
            if inl is not None:
                self.depth += 1
                try:
                    return self.block(inl + rest, ind)
                finally:
                    self.depth -= 1
        if isinstance(s, ast.FunctionDef) or (isinstance(s, ast.Assign) and isinstance(s.value, ast.Lambda)):
            # a local function: translated only if the live path calls it (then the call fails to translate, unless it is the identity
            # on the collections the definition is about, see identity_on_flat)
            if isinstance(s, ast.FunctionDef):
                self.local_defs[s.name] = s
            return self.block(rest, ind)
        if isinstance(s, ast.Assign) and len(s.targets) == 1 and isinstance(s.targets[0], ast.Name) and s.targets[0].id in self.static \
                and isinstance(s.value, ast.Call) and dotted(s.value.func) == "convert_tuple_to_dataframe_if_necessary" and len(s.value.args) == 1 \
                and dotted(s.value.args[0]) == s.targets[0].id and not isinstance(self.static[s.targets[0].id], tuple):
            return self.block(rest, ind)                   # a fixed non-tuple argument (None) stays what it is
        if isinstance(s, ast.Assign) and len(s.targets) == 1 and isinstance(s.targets[0], ast.Tuple) and len(s.targets[0].elts) == 2 \
                and all(isinstance(x, ast.Name) for x in s.targets[0].elts) and isinstance(s.value, ast.Call) \
                and dotted(s.value.func) in ("np.unique", "numpy.unique") and len(s.value.args) == 1 \
                and [(k.arg, getattr(k.value, "value", None)) for k in s.value.keywords] == [("return_counts", True)]:
            # `values, counts = np.unique(a, return_counts=True)`: the distinct values and their multiplicities (Model/Stats `counts`;
            # the statistic summed over them does not depend on their order)
            v, t = self.expr(s.value.args[0])
            if t != "coll":
                raise Untranslatable("np.unique of this expression")
            vals, cnts = (x.id for x in s.targets[0].elts)
            self.env[vals] = "set"
            self.vecs[cnts] = ("vec", f"((Prs.counts {v}).map fun c : Nat => (c : Rat))", "x")
            self.env.pop(cnts, None)
            self.unique_of[cnts] = (vals, v)
            return f"{pad}let {vals} := (dedup {v})\n" + self.block(rest, ind)
        if isinstance(s, ast.Assign) and len(s.targets) == 1 and isinstance(s.targets[0], ast.Tuple) and len(s.targets[0].elts) == 3 \
                and all(isinstance(x, ast.Name) for x in s.targets[0].elts) and isinstance(s.value, ast.Call) \
                and dotted(s.value.func) in ("np.intersect1d", "numpy.intersect1d") and len(s.value.args) == 2 \
                and all(isinstance(a_, ast.Name) for a_ in s.value.args) \
                and ("return_indices", True) in [(k.arg, getattr(k.value, "value", None)) for k in s.value.keywords] \
                and all(k.arg in ("return_indices", "assume_unique") for k in s.value.keywords):
            # `shared, i1, i2 = np.intersect1d(v1, v2, return_indices=True)` over the distinct values of two collections: the shared values
            # and their positions in v1 / v2 (so that counts1[i1], counts2[i2] are their multiplicities in either collection)
            by_vals = {vals: coll for _c, (vals, coll) in self.unique_of.items()}
            n1, n2 = (a_.id for a_ in s.value.args)
            if n1 not in by_vals or n2 not in by_vals:
                raise Untranslatable("np.intersect1d of something else than two np.unique results")
            shared = f"((dedup {by_vals[n1]}).filter fun y => decide (y ∈ (dedup {by_vals[n2]})))"
            sv, i1, i2 = (x.id for x in s.targets[0].elts)
            self.shared[i1], self.shared[i2] = (by_vals[n1], shared), (by_vals[n2], shared)
            self.env[sv] = "set"
            return f"{pad}let {sv} := {shared}\n" + self.block(rest, ind)
        if isinstance(s, ast.Assign):
            if len(s.targets) != 1 or not isinstance(s.targets[0], ast.Name):
                raise Untranslatable("assignment target")
            name = s.targets[0].id
            src = self.is_identity(s.value)
            if src is not None and (not isinstance(s.value, ast.Name) or src != name):
                if src != name:                       # the converted collection under another name
                    if src in self.vecs:
                        self.vecs[name] = self.vecs[src]
                        self.env.pop(name, None)
                        return self.block(rest, ind)
                    self.vecs.pop(name, None)
                    self.env[name] = self.env[src]
                    return f"{pad}let {name} := {src}\n" + self.block(rest, ind)
                return self.block(rest, ind)          # modelled as the identity
            ext = self.opts.get("external", {})
            if ext and isinstance(s.value, ast.Call) and dotted(s.value.func) in ("np.random.rand", "numpy.random.rand"):
                et = list(ext.values())[0]
                self.env[name] = et                    # uniform draws: an explicit parameter of the generated definition (whatever its name)
                self.externals.append((name, et))
                return self.block(rest, ind)
            if isinstance(s.value, ast.Name) and s.value.id.startswith("tmp") and s.value.id in self.env and self.env[s.value.id] in ("set", "coll"):
                self.env[name] = self.env[s.value.id]
                return f"{pad}let {name} := {s.value.id}\n" + self.block(rest, ind)
            v, t = self.expr(s.value)
            if t == "vec":
                if v[2] != "x":
                    self.vecs[name] = v                # a named element-wise expression: substituted where it is used
                    self.env.pop(name, None)
                    return self.block(rest, ind)
                self.vecs.pop(name, None)
                self.env[name] = "vec"
                return f"{pad}let {name} := {v[1]}\n" + self.block(rest, ind)
            if t in ("set", "coll"):
                self.env[name] = t
                return f"{pad}let {name} := {v}\n" + self.block(rest, ind)
            if t == "const":
                v, t = v[0], "rat"
            if t == "prop":
                raise Untranslatable("condition-valued local variable")
            self.env[name] = t
            return f"{pad}let {name} := {v}\n" + self.block(rest, ind)
        if isinstance(s, ast.If):
            if self.is_type_guard(s):
                return self.block(rest, ind)          # `if type(A) != pd.Series: A = pd.Series(list(A))`: identity
            st = self.static_value(s.test)
            if st is not None:
                return self.block(list(s.body) + rest, ind) if st else self.block(list(s.orelse) + rest, ind)
            c, t = self.expr(s.test)
            if t in ("set", "coll"):
                c, t = f"(({c}).length ≠ 0)", "prop"
            if t != "prop":
                raise Untranslatable("condition is not a comparison")
            # each branch is followed by what follows the `if` (a branch that returns simply never reaches it)
            saved = (dict(self.env), dict(self.vecs))
            body = self.block(list(s.body) + rest, ind + 1)
            self.env, self.vecs = dict(saved[0]), dict(saved[1])
            other = self.block(list(s.orelse) + rest, ind)
            self.env, self.vecs = saved
            return f"{pad}if {c} then\n{body}\n{pad}else\n" + other
        if isinstance(s, ast.Pass):
            return self.block(rest, ind)
        if isinstance(s, ast.AugAssign) and isinstance(s.target, ast.Name):
            asg = ast.Assign(targets=[ast.Name(id=s.target.id, ctx=ast.Store())],
                             value=ast.BinOp(left=ast.Name(id=s.target.id, ctx=ast.Load()), op=s.op, right=s.value))
            ast.fix_missing_locations(asg)
            return self.block([asg] + rest, ind)
        if isinstance(s, ast.Raise):
            if self.opts.get("raise_as_none"):
                return pad + "none"
            raise Untranslatable("a reachable raise")
        raise Untranslatable(f"statement {type(s).__name__}")

    def static_value(self, t):
        """truth value of a condition that only involves parameters fixed at translation time (None: not static)"""
        if isinstance(t, ast.BoolOp):
            stop = isinstance(t.op, ast.Or)                 # the value that short-circuits
            unknown = False
            for v_ in t.values:
                try:
                    r_ = self.static_value(v_)
                except Untranslatable:
                    if not unknown:
                        raise
                    r_ = None                               # only reached in Python if the unknown operand before it lets it
                if r_ is stop:
                    return stop
                unknown = unknown or r_ is None
            return None if unknown else (not stop)
        if isinstance(t, ast.Call) and dotted(t.func) == "isinstance" and len(t.args) == 2 and isinstance(t.args[0], ast.Name) \
                and self.env.get(t.args[0].id) in ("coll", "vec", "set") and dotted(t.args[1]) in ("DataFrame", "pd.DataFrame", "pandas.DataFrame"):
            return False                                      # a flat collection is not a table
        if isinstance(t, ast.Compare) and len(t.ops) == 1 and isinstance(t.ops[0], (ast.Is, ast.IsNot)) and isinstance(t.left, ast.Name) \
                and isinstance(t.comparators[0], ast.Constant) and t.comparators[0].value is None \
                and (self.env.get(t.left.id) in ("coll", "vec", "rat", "nat", "set") or t.left.id in self.vecs) and t.left.id not in self.static:
            return isinstance(t.ops[0], ast.IsNot)          # a collection / a number is not None
        names = {n.id for n in ast.walk(t) if isinstance(n, ast.Name)} - {"type", "list", "tuple", "str", "isinstance", "len"}
        if not names or not names <= set(self.static):
            return None
        try:
            return bool(eval(compile(ast.Expression(t), "<static>", "eval"), {"__builtins__": {}, "type": type, "list": list, "tuple": tuple, "str": str,
                                                                              "isinstance": isinstance, "len": len}, dict(self.static)))
        except Exception as e:  # noqa
            raise Untranslatable(f"static condition cannot be evaluated: {e!r}")

    def is_type_guard(self, s):
        t = s.test
        if not (isinstance(t, ast.Compare) and isinstance(t.left, ast.Call) and dotted(t.left.func) == "type" and len(t.ops) == 1
                and isinstance(t.ops[0], (ast.Eq, ast.NotEq)) and dotted(t.comparators[0]) in ("pd.Series", "pandas.Series")):
            return False
        if s.orelse:
            return False
        for b in s.body:
            if not (isinstance(b, ast.Assign) and len(b.targets) == 1 and isinstance(b.targets[0], ast.Name)
                    and self.is_identity(b.value) == b.targets[0].id and not isinstance(b.value, ast.Name)):
                return False
        return True

    def lean(self):
        body = self.block(list(self.f.body), 1)
        ret = {"Rat": "Rat", "Nat": "Nat", None: "Rat", "List Rat": "List Rat", "Prop": "Prop", "List β": "List β"}[self.ret]
        if self.has_nan:
            ret = "Option Rat"
        params = []
        generic = any(t == "coll" for t in self.ptypes.values())
        ty = lambda t: 'List Rat' if t == 'vec' else ('List β' if t == 'coll' else ('Nat' if t == 'nat' else 'Rat'))  # noqa: E731
        for n_, t_ in self.externals:
            params.append(f"({n_} : {ty(t_)})")
        for n_ in self.opts.get("opaque", ()):
            params.append(f"({n_}_val : Rat)")
        for n_ in self.opts.get("opaque_fn", {}).values():
            params.insert(0, f"({n_} : Rat → Rat → Rat)" if isinstance(n_, str) else f"({n_[0]} : {n_[1]})")
        for a in self.f.args.args:
            if a.arg in self.static or a.arg in self.opts.get("drop", []):
                continue
            t = self.ptypes.get(a.arg)
            if t is None:
                raise Untranslatable(f"parameter {a.arg} has no declared type")
            params.append(f"({a.arg} : {ty(t)})")
        if self.f.args.vararg or self.f.args.kwonlyargs or (self.f.args.kwarg and not self.opts.get("drop_kwargs")):
            raise Untranslatable("variadic parameters")
        head = f"def {self.opts.get('name', self.f.name)}{self.opts.get('suffix', '')} " + ("{β : Type} [DecidableEq β] " if generic else "") + " ".join(params) + f" : {ret} :=\n"
        out = head + body
        if self.real:
            import re
            out = re.sub(r"\bRat\b", "ℝ", out)
        return out


def source_of(path):
    if os.environ.get("GEN_FROM_HEAD"):
        return subprocess.run(["git", "-C", REPO, "show", "HEAD:" + path], capture_output=True, text=True, check=True).stdout
    return open(os.path.join(REPO, path)).read()


def write_if_changed(path, text):
    old = open(path).read() if os.path.exists(path) else None
    if old != text:
        with open(path, "w") as fh:
            fh.write(text)
        return os.path.basename(path)
    return None


def gen_group(group):
    path, outname, fns = GROUPS[group]
    tree = ast.parse(source_of(path))
    defs = {n.name: n for n in tree.body if isinstance(n, ast.FunctionDef)}
    out = [f"/- GENERATED by tools/gen_formulas.py from {path} — do not edit.", "",
           "   Each definition is the Python function of the same name, statement by statement, over exact rationals:",
           "   NumPy / pandas conversions are the identity, `np.nan` is `none`, an absent index reads 0. -/",
           "import Prs.Model.Stats", "namespace Prs.Generated", ""]
    for name, ptypes, *o in fns:
        if name not in defs:
            raise Untranslatable(f"{path}: function {name} not found")
        try:
            fn_ = Fn(defs[name], ptypes, *o)
            fn_.module_defs = {k: v for k, v in defs.items() if k != name}
            out += [f"/-- `{name}` of {path}" + (f" with {o[0]['static']}" if o and o[0].get("static") else "") + " -/", fn_.lean(), ""]
        except Untranslatable as e:
            raise Untranslatable(f"{path}:{name}: {e}") from None
    out += ["end Prs.Generated", ""]
    return write_if_changed(os.path.join(OUT, outname), "\n".join(out))


def gen_real(group=None):
    path, outname, fns = group or REAL_GROUP
    tree = ast.parse(source_of(path))
    defs = {n.name: n for n in tree.body if isinstance(n, ast.FunctionDef)}
    out = [f"/- GENERATED by tools/gen_formulas.py from {path} — do not edit.", ""]
    if group is None or group is STD_GROUP:
        out += ["   Functions over the reals (logarithm, real power, floor), statement by statement; NumPy conversions are the identity,",
                "   the uniform draws of `np.random.rand` are the explicit parameter `r`, `c[c >= cmin]` is `List.filter`; one definition per",
                "   value of a `method` string (conditions on it are decided at translation time). -/"]
    else:
        out += ["   The entropies as functions of the coincidence statistics they call, statement by statement over the reals: the value of a",
                "   call of `pc`, `pc_joint`, ... is the parameter `<callee>_val`; a reachable `raise` is the result `none`; one definition per",
                "   static shape of `features` / `by` (conditions on them are decided at translation time) and per `base` given (a real",
                "   number) or None (suffix `_nat`). -/"]
    out += [
           "import Mathlib.Analysis.SpecialFunctions.Pow.Real", "import Mathlib.Analysis.SpecialFunctions.Log.Basic", "import Prs.Model.Stats",
           "namespace Prs.Generated", "noncomputable section", "open Classical", ""]
    if group is ENTROPY_GROUP:
        out.insert(-1, "set_option linter.unusedVariables false")
    for name, ptypes, opts in fns:
        if name not in defs:
            raise Untranslatable(f"{path}: function {name} not found")
        try:
            out += [f"/-- `{name}` of {path}" + (f" with {opts['static']}" if opts.get("static") else "") + " -/",
                    Fn(defs[name], ptypes, dict(opts, module_defs={k: v for k, v in defs.items() if k != name})).lean(), ""]
        except Untranslatable as e:
            raise Untranslatable(f"{path}:{name}: {e}") from None
    out += ["end", "end Prs.Generated", ""]
    return write_if_changed(os.path.join(OUT, outname), "\n".join(out))


def gen_entropy():
    return gen_real(ENTROPY_GROUP)


def gen_downsample():
    return gen_group("downsample")


def gen_std():
    return gen_real(STD_GROUP)


def main():
    """every group; a group whose source is outside the subset is reported and skipped (its Generated file stays as committed)"""
    out = []
    for fn_ in [lambda g=g: gen_group(g) for g in GROUPS] + [gen_real, gen_entropy, gen_std]:        # GROUPS includes "downsample"
        try:
            out.append(fn_())
        except Untranslatable as e:
            out.append(f"unavailable: {e}")
    return out


if __name__ == "__main__":
    print("changed:", main())
