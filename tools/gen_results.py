#!/usr/bin/env python3
"""Regenerate seeded/RESULTS.md from the meta.json files of the seeded changes."""
import glob
import json
import os

VERIF = os.path.dirname(os.path.dirname(os.path.abspath(__file__)))


def round_of(sid):
    for r in (10, 9, 8, 7, 6, 5, 4, 3, 2):
        if f"_r{r}m" in sid:
            return r
    return 1


def main():
    rows, stats = [], {r: [0, 0] for r in (1, 2, 3, 4, 5, 6, 7, 8, 9, 10)}
    for d in sorted(glob.glob(os.path.join(VERIF, "seeded", "C*"))):
        if not os.path.isdir(d):
            continue
        m = json.load(open(os.path.join(d, "meta.json")))
        sid = m["seed_id"]
        notes = os.path.join(d, "notes.md")
        title = ""
        if os.path.exists(notes):
            lines = [l.strip() for l in open(notes).read().splitlines() if l.strip()]
            title = lines[0].strip("# ").strip() if lines else ""
        frr = m.get("first_round_result", "")
        missed_first = ("not caught" in frr) or ("missed by" in frr) or (m.get("first_pass", {}).get("with_failing_input") is False)
        r = round_of(sid)
        stats[r][1] += 1
        stats[r][0] += 0 if missed_first else 1
        now = []
        for p, c in m["checks"].items():
            now.append(f"{p}: {'failing input' if c['with_failing_input'] else ('no-failing-input-found' if c['caught'] else 'NOT caught')}")
        rows.append((sid, m["breaks_property"], title[:120].replace("|", "/"), "; ".join(now), "no → yes" if missed_first else "yes",
                     (m.get("strengthening") or "").replace("|", "/")))
    out = ["# Seeded changes: which check catches which change", "",
           "Each change was written by a fresh sub-agent that saw only the property text (rounds 2 to 10: plus one-line titles of the earlier",
           "changes, to avoid repeats) and a scratch worktree of /repo — nothing from /verif — then re-verified by `tools/seeded.py confirm` in a",
           "scratch worktree (demo passes on HEAD, patch applies, demo fails with the patch, the 71 baseline tests pass with and without it) and",
           "run against the checks by `tools/seeded.py run` (patch applied to /repo, `./check`, `git checkout -- .`).", "",
           f"{sum(v[1] for v in stats.values())} changes, 2 per property and round (`Cxx_m1/2` = round 1, `Cxx_r2m1/2` = round 2, `Cxx_r3m1/2` = round 3, `Cxx_r4m1/2` = round 4, `Cxx_r5m1/2` = round 5, `Cxx_r6m1/2` = round 6, `Cxx_r7m1/2` = round 7, `Cxx_r8m1/2` = round 8, `Cxx_r9m1/2` = round 9, `Cxx_r10m1/2` = round 10; later rounds",
           "aim at less central code paths, size thresholds, caches, container kinds, histories).",
           "Caught by the own-property quick check *as it stood when the change was first run*: "
           + ", ".join(f"round {r}: {v[0]}/{v[1]}" for r, v in stats.items()) + ".",
           "Every miss was a blind spot of a generator (the harness never sent the triggering input class), never of a theorem; the column",
           "`strengthening` says what was added. After it, every change is caught by its own property's quick check with a concrete failing input.", "",
           "| seed | property | change (title from the author's notes) | result of `./check` now | caught at first / now | strengthening that closed the miss |",
           "|---|---|---|---|---|---|"]
    for r in rows:
        out.append("| " + " | ".join(r) + " |")
    reg = os.path.join(VERIF, "seeded", "regressions.json")
    if os.path.exists(reg):
        out += ["", "## Regressions of the whole set with the final checks (`tools/seeded.py prun`, every change in its own scratch worktree)", ""]
        for r in json.load(open(reg)):
            out.append(f"* `VERIF_SEED={r['seed']}`: {r['run']} changes run, {r['caught_with_failing_input']} caught with a concrete failing input, "
                       f"{r['no_failing_input_found']} reported without one, {r['missed']} missed ({r['when']}, /verif at {r['verif_commit']})."
                       + (" " + r["note"][0].upper() + r["note"][1:] + "." if r.get("note") else ""))
    open(os.path.join(VERIF, "seeded", "RESULTS.md"), "w").write("\n".join(out) + "\n")
    print(stats)


if __name__ == "__main__":
    main()
