#!/usr/bin/env python3
"""Seeded-change tooling.

  tools/seeded.py confirm <src_dir> <seed_id> <property>
      <src_dir> holds patch.diff + demo.py (+ notes.md) from a sub-agent. In a fresh scratch worktree of /repo:
      demo passes on HEAD, patch applies, demo fails with it, the baseline test result is unchanged.
      On success copies patch.diff/demo.py/notes.md to /verif/seeded/<seed_id>/ and writes meta.json.
  tools/seeded.py run <seed_id> [property ...]
      applies seeded/<seed_id>/patch.diff to /repo, runs ./check for the given properties (default: the one in
      meta.json), reverts /repo (git checkout -- .), records the outcome in seeded/<seed_id>/meta.json.
  tools/seeded.py prun <jobs> [seed_id ...]
      the own-property check of many (default: all) seeded changes in parallel, each worker in its own copy of /verif with its own
      scratch worktree of /repo (under /root/scratch); /repo itself is not touched.
The scratch worktree lives under /tmp and is removed afterwards.
"""
import json
import os
import re
import shutil
import subprocess
import sys
import tempfile

VERIF = os.path.dirname(os.path.dirname(os.path.abspath(__file__)))
REPO = "/repo"
PYTEST = ["/venv/bin/python", "-m", "pytest", "-q", "-p", "no:cacheprovider", "--timeout=900", "--continue-on-collection-errors"]


def sh(cmd, cwd=None, timeout=1800, env=None):
    p = subprocess.run(cmd, cwd=cwd, capture_output=True, text=True, timeout=timeout, env=env)
    return p.returncode, p.stdout + p.stderr


def test_summary(cwd):
    rc, out = sh(PYTEST, cwd=cwd, env=dict(os.environ, MPLBACKEND="Agg"))
    passed = sorted(set(re.findall(r"^(tests/\S+) PASSED", out, flags=re.M)))
    m = re.search(r"(\d+) failed, (\d+) passed", out)
    return (int(m.group(2)) if m else -1, int(m.group(1)) if m else -1, out[-400:])


def confirm(src, seed_id, prop):
    wt = tempfile.mkdtemp(prefix="seedwt_", dir="/tmp")
    os.rmdir(wt)
    rc, out = sh(["git", "-C", REPO, "worktree", "add", "-q", "--detach", wt, "HEAD"])
    if rc:
        print(out)
        return 2
    res = {"property": prop, "seed_id": seed_id}
    try:
        env = dict(os.environ, MPLBACKEND="Agg", PYTHONWARNINGS="ignore")
        shutil.copytree(src, os.path.join(wt, "mutation_x"), ignore=shutil.ignore_patterns("__pycache__"))
        rc0, o0 = sh(["/venv/bin/python", "mutation_x/demo.py"], cwd=wt, env=env)
        base = test_summary(wt)
        rca, oa = sh(["git", "apply", "mutation_x/patch.diff"], cwd=wt)
        rcf, of = sh(["git", "diff", "--stat"], cwd=wt)
        rc1, o1 = sh(["/venv/bin/python", "mutation_x/demo.py"], cwd=wt, env=env)
        mut = test_summary(wt)
        res.update({"demo_on_head_exit": rc0, "patch_applies": rca == 0, "files_changed": of.strip().splitlines()[:-1],
                    "demo_with_patch_exit": rc1, "demo_with_patch_output": o1[-600:],
                    "tests_head": {"passed": base[0], "failed": base[1]}, "tests_patched": {"passed": mut[0], "failed": mut[1]}})
        ok = rc0 == 0 and rca == 0 and rc1 != 0 and base[0] == mut[0] and base[1] == mut[1] and base[0] >= 71
        res["confirmed"] = ok
        if ok:
            dst = os.path.join(VERIF, "seeded", seed_id)
            os.makedirs(dst, exist_ok=True)
            for f in ("patch.diff", "demo.py", "notes.md"):
                if os.path.exists(os.path.join(src, f)):
                    shutil.copy(os.path.join(src, f), os.path.join(dst, f))
            meta = {"seed_id": seed_id, "breaks_property": prop,
                    "needs_to_manifest": open(os.path.join(src, "notes.md")).read()[:1500] if os.path.exists(os.path.join(src, "notes.md")) else "",
                    "confirmation": {"ran": "tools/seeded.py confirm (scratch worktree of /repo HEAD): demo on HEAD, git apply, demo with patch, "
                                            "baseline pytest with and without the patch", **res},
                    "checks": {}}
            json.dump(meta, open(os.path.join(dst, "meta.json"), "w"), indent=1)
        print(json.dumps(res, indent=1))
        return 0 if ok else 1
    finally:
        sh(["git", "-C", REPO, "worktree", "remove", "--force", wt])
        shutil.rmtree(wt, ignore_errors=True)


def run(seed_id, props):
    dst = os.path.join(VERIF, "seeded", seed_id)
    meta = json.load(open(os.path.join(dst, "meta.json")))
    props = props or [meta["breaks_property"]]
    rc, out = sh(["git", "-C", REPO, "status", "--porcelain", "--untracked-files=no"])
    if out.strip():
        print("refusing: /repo has uncommitted changes:\n" + out)
        return 2
    rc, out = sh(["git", "-C", REPO, "apply", os.path.join(dst, "patch.diff")])
    if rc:
        print("patch does not apply:", out)
        return 2
    try:
        for p in props:
            rc, out = sh([os.path.join(VERIF, "check"), p], cwd=VERIF, timeout=3600, env=dict(os.environ, VERIF_EVIDENCE_DIR="/root/scratch/evidence_patched"))
            lines = [l for l in out.splitlines() if l.startswith(("VIOLATION", "OK ", "MODEL-ERROR", "INFRA-ERROR", "KNOWN-FINDING"))]
            meta["checks"][p] = {"exit": rc, "lines": lines[:12], "caught": rc == 1 and any(l.startswith("VIOLATION") for l in lines),
                                 "with_failing_input": any(l.startswith("VIOLATION") and "no-failing-input-found" not in l for l in lines)}
            print(seed_id, p, "exit", rc, lines[:4])
    finally:
        sh(["git", "-C", REPO, "checkout", "--", "."])
        # the translators rewrote Generated/*.lean from the patched tree: regenerate them from the restored one
        sh(["python3", os.path.join(VERIF, "tools", "gen_lean_tables.py")])
        sh(["python3", os.path.join(VERIF, "tools", "gen_footprints.py")])
        sh(["python3", os.path.join(VERIF, "tools", "gen_formulas.py")])
        sh(["python3", os.path.join(VERIF, "tools", "gen_loops.py")])
    json.dump(meta, open(os.path.join(dst, "meta.json"), "w"), indent=1)
    return 0


def prun(jobs, ids):
    """run the own-property check of many seeded changes in parallel: each worker has its own copy of /verif and its own
    scratch worktree of /repo (VERIF_REPO / PYTHONPATH point the copy's checks at it); /repo itself is not touched"""
    import glob
    import threading
    ids = ids or sorted(os.path.basename(d) for d in glob.glob(os.path.join(VERIF, "seeded", "C*")) if os.path.isdir(d))
    todo = list(ids)
    lock = threading.Lock()
    par = "/root/scratch/par_seeded"
    os.makedirs(par, exist_ok=True)
    results = {}

    def worker(i):
        vc, wt = os.path.join(par, f"v{i}"), os.path.join(par, f"r{i}")
        sh(["git", "-C", REPO, "worktree", "remove", "--force", wt])
        shutil.rmtree(wt, ignore_errors=True)
        shutil.rmtree(vc, ignore_errors=True)
        sh(["rsync", "-a", "--exclude", ".git", "--exclude", "replays", VERIF + "/", vc + "/"])
        rc, out = sh(["git", "-C", REPO, "worktree", "add", "-q", "--detach", wt, "HEAD"])
        if rc:
            print(out)
            return
        env = dict(os.environ, VERIF_REPO=wt, PYTHONPATH=wt, VERIF_EVIDENCE_DIR=os.path.join(vc, "evidence_patched"))
        while True:
            with lock:
                if not todo:
                    break
                sid = todo.pop(0)
            dst = os.path.join(VERIF, "seeded", sid)
            meta = json.load(open(os.path.join(dst, "meta.json")))
            p = meta["breaks_property"]
            rc, out = sh(["git", "apply", os.path.join(dst, "patch.diff")], cwd=wt)
            if rc:
                print(sid, "patch does not apply", out[-200:])
                continue
            try:
                rc, out = sh([os.path.join(vc, "check"), p], cwd=vc, timeout=3600, env=env)
                lines = [l for l in out.splitlines() if l.startswith(("VIOLATION", "OK ", "MODEL-ERROR", "INFRA-ERROR", "KNOWN-FINDING"))]
                res = {"exit": rc, "lines": lines[:12], "caught": rc == 1 and any(l.startswith("VIOLATION") for l in lines),
                       "with_failing_input": any(l.startswith("VIOLATION") and "no-failing-input-found" not in l for l in lines)}
            finally:
                sh(["git", "checkout", "--", "."], cwd=wt)
            with lock:
                meta = json.load(open(os.path.join(dst, "meta.json")))
                meta["checks"][p] = res
                json.dump(meta, open(os.path.join(dst, "meta.json"), "w"), indent=1)
                results[sid] = res
                print(sid, p, "exit", res["exit"], lines[:2], flush=True)
        sh(["git", "-C", REPO, "worktree", "remove", "--force", wt])
        shutil.rmtree(wt, ignore_errors=True)
        shutil.rmtree(vc, ignore_errors=True)

    ths = [threading.Thread(target=worker, args=(i,)) for i in range(jobs)]
    for t in ths:
        t.start()
    for t in ths:
        t.join()
    sh(["git", "-C", REPO, "worktree", "prune"])
    bad = [k for k, v in results.items() if not v["with_failing_input"]]
    print(f"{len(results)} seeded changes run, {len(results) - len(bad)} caught with a failing input; not: {bad}")
    return 0 if not bad else 1


if __name__ == "__main__":
    if sys.argv[1] == "confirm":
        sys.exit(confirm(sys.argv[2], sys.argv[3], sys.argv[4]))
    elif sys.argv[1] == "run":
        sys.exit(run(sys.argv[2], sys.argv[3:]))
    elif sys.argv[1] == "prun":
        sys.exit(prun(int(sys.argv[2]), sys.argv[3:]))
