"""harness/search.py — shared comparison machinery for the neighbour-search properties
(C01, C03, C04, C07, C10, C11, C14)."""
import math
from fractions import Fraction

from harness import core
from harness.gen import AA


def nn():
    import pyrepseq.nn as m
    return m


# ------------------------------------------------------------------ custom distances
def cd_table(strs, fn):
    """distinct strings and exact table of a Python distance callable"""
    strs = sorted(set(strs))
    mat = [[core.fstr(fn(a, b)) for b in strs] for a in strs]
    return strs, mat


def score_fields(mode, k, strs=None, fn=None, mcd=None):
    d = {"mode": mode, "k": k}
    if mode == "custom":
        s, m = cd_table(strs, fn)
        d.update({"strs": s, "cd": m,
                  "mcd": "inf" if mcd is None or mcd == float("inf") else core.fstr(mcd)})
    return d


def py_kwargs(mode, fn=None, mcd=None):
    kw = {}
    if mode == "ham":
        kw["custom_distance"] = "hamming"
    elif mode == "custom":
        kw["custom_distance"] = fn
        if mcd is not None:
            kw["max_custom_distance"] = mcd
    return kw


# ------------------------------------------------------------------ a batch of cases
class Batch:
    """Cases are (label, real_thunk, model_op or None, spec_op or None, meta).
    real_thunk() returns a triplet list; model/spec ops are driver ops returning triplets.
    After run(): each disagreement is triaged against the specification."""

    def __init__(self, chk, corr_name):
        self.chk = chk
        self.corr = corr_name
        self.cases = []
        self.factories = {}

    def add(self, label, thunk, model_op, spec_op, meta, canon=core.canon_trips,
            expect_error=None, factory=None):
        """factory(xs) -> (thunk, spec_op): lets a failing self-mode case be shrunk to a minimal input"""
        self.cases.append((label, thunk, model_op, spec_op, meta, canon, expect_error))
        self.factories[len(self.cases) - 1] = factory

    def run(self, on_violation=None):
        chk = self.chk
        reals = []
        for (label, thunk, _m, _s, _meta, canon, _e) in self.cases:
            st, val = core.call_real(thunk)
            if st == "ok":
                try:
                    val = canon(val)
                except Exception as e:  # noqa
                    st, val = "error", "Canon:" + type(e).__name__
            reals.append((st, val))
        ops, where = [], []
        for idx, (_l, _t, m, s, _meta, _c, _e) in enumerate(self.cases):
            if m is not None:
                where.append((idx, "model"))
                ops.append(m)
            if s is not None:
                where.append((idx, "spec"))
                ops.append(s)
        answers = core.run_driver_parallel(ops)
        model, spec = {}, {}
        for (idx, kind), ans in zip(where, answers):
            (model if kind == "model" else spec)[idx] = ans
        n_dis = 0
        for idx, (label, thunk, m, s, meta, canon, expect_error) in enumerate(self.cases):
            real = reals[idx]
            mo = model.get(idx)
            sp = spec.get(idx)
            mo_c = ("ok", core.canon_model_trips(mo[1])) if mo and mo[0] == "ok" and mo[1] is not None else mo
            sp_c = ("ok", core.canon_model_trips(sp[1])) if sp and sp[0] == "ok" and sp[1] is not None else sp
            if mo and mo[0] == "ok" and mo[1] is None:
                mo_c = ("error", "KeyError")
            ntriv = real[0] == "ok" and len(real[1]) > 0
            chk.case(sample={"label": label, **{k: v for k, v in meta.items() if k != "xs" or len(str(v)) < 300},
                             "real": str(real)[:200]} if idx < 3 else None,
                     nontrivial_key=(label, str(meta)[:400]) if ntriv else None)
            chk.count("cases:" + label.split("|")[0])
            if expect_error is not None:
                # the property demands rejection
                if real[0] != "error" or real[1] not in expect_error:
                    chk.violation(f"{chk.pid}|{label}|not-rejected", f"{label}: expected {expect_error}, got {str(real)[:120]}",
                                  {"label": label, "meta": meta, "real": str(real)[:2000]})
                continue
            ref = sp_c if sp_c is not None else mo_c
            if ref is None:
                continue
            bad_vs_spec = sp_c is not None and real != sp_c
            bad_vs_model = mo_c is not None and real != mo_c
            if not bad_vs_spec and not bad_vs_model:
                continue
            n_dis += 1
            if sp_c is not None:
                if bad_vs_spec:
                    # genuine failing input: the implementation's output violates the specification
                    rep = {"label": label, "meta": meta, "real": str(real)[:4000],
                           "spec": str(sp_c)[:4000], "model": str(mo_c)[:4000]}
                    if any(v["sig"] == sig_of(chk.pid, label, real, sp_c) for v in chk.violations):
                        continue          # this signature already has its (shrunk) replay: do not shrink every further instance
                    if on_violation:
                        rep = on_violation(idx, self.cases[idx], rep) or rep
                    elif self.factories.get(idx) and isinstance(meta.get("xs"), list):
                        try:
                            rep["minimal_input"] = shrink_self(self.factories[idx], meta["xs"], canon)
                        except Exception as e:  # noqa
                            rep["shrink_error"] = repr(e)
                    chk.violation(sig_of(chk.pid, label, real, sp_c), f"{label}: implementation differs from specification "
                                  f"(real={str(real)[:150]} spec={str(sp_c)[:150]})", rep)
                else:
                    chk.model_error(f"{label}: model {str(mo_c)[:200]} differs from spec/real {str(real)[:200]} meta={str(meta)[:300]}")
            else:
                # only a model to compare with (model = spec is proved, so this is a real failure)
                rep = {"label": label, "meta": meta, "real": str(real)[:4000], "model": str(mo_c)[:4000]}
                chk.violation(sig_of(chk.pid, label, real, mo_c), f"{label}: implementation differs from proved model "
                              f"(real={str(real)[:150]} model={str(mo_c)[:150]})", rep)
        return n_dis


def sig_of(pid, label, real, ref):
    """normalised signature of a failure class: engine label + error kind / direction"""
    base = label.split("|")[0]
    if real[0] == "error":
        return f"{pid}|{base}|raises-{real[1]}"
    if ref[0] == "error":
        return f"{pid}|{base}|should-raise-{ref[1]}"
    rs, fs = set(map(tuple, real[1])), set(map(tuple, ref[1]))
    kinds = []
    if fs - rs:
        kinds.append("missing")
    if rs - fs:
        kinds.append("spurious")
    if not kinds and sorted(real[1]) != sorted(ref[1]):
        kinds.append("repeated")
    return f"{pid}|{base}|{'+'.join(kinds) or 'differs'}"


def shrink_self(factory, xs, canon):
    """delta-debug a failing self-mode input: fewer strings, then shorter strings"""
    def fails(cand):
        thunk, sop = factory(cand)
        st, val = core.call_real(thunk)
        sp = core.run_driver([sop])[0]
        if st != "ok" or sp[0] != "ok" or sp[1] is None:
            return st != "ok"
        return canon(val) != core.canon_model_trips(sp[1])
    xs = core.shrink_list(list(xs), fails, max_steps=150)
    xs = core.shrink_strings(xs, fails, max_steps=150)
    return xs


# ------------------------------------------------------------------ directed search helpers
def exhaustive_pools(tier):
    from harness.gen import all_strings
    if tier == "thorough":
        return [("AB", all_strings("AB", 6)), ("ACD", all_strings("ACD", 4))]
    return [("AB", all_strings("AB", 4)), ("ACD", all_strings("ACD", 3))]
