"""harness/gen.py — input generators shared by the string-search properties."""
import itertools

AA = "ACDEFGHIKLMNPQRSTVWY"


def all_strings(alphabet, maxlen, minlen=0):
    """E(Σ, L): every string of length minlen..maxlen over the alphabet"""
    out = []
    for l in range(minlen, maxlen + 1):
        out.extend("".join(t) for t in itertools.product(alphabet, repeat=l))
    return out


def mutate(rng, s, alphabet, n_edits, homopolymer_bias=0.3):
    s = list(s)
    for _ in range(n_edits):
        kind = rng.choice("sid")
        if kind == "s" and s:
            i = rng.randrange(len(s))
            s[i] = rng.choice(alphabet)
        elif kind == "i":
            i = rng.randrange(len(s) + 1)
            if s and rng.random() < homopolymer_bias:
                j = min(max(i - 1, 0), len(s) - 1)
                s.insert(i, s[j])            # insertion inside / next to a run
            else:
                s.insert(i, rng.choice(alphabet))
        elif kind == "d" and s:
            i = rng.randrange(len(s))
            del s[i]
    return "".join(s)


def repertoire(rng, n, alphabet=AA, minlen=8, maxlen=18, max_mut=3, p_dup=0.1, p_short=0.05,
               allow_empty=True):
    """R: CDR3-like repertoire: clonal families grown from random roots by random edits,
    with duplicates, short strings, optionally the empty string, and singletons."""
    seqs = []
    while len(seqs) < n:
        L = rng.randint(minlen, maxlen)
        root = "C" + "".join(rng.choice(alphabet) for _ in range(max(L - 2, 0))) + "F"
        if rng.random() < 0.15:        # homopolymer-rich root
            c = rng.choice(alphabet)
            root = "C" + c * rng.randint(2, 6) + root[1:]
        fam = rng.choice([1, 1, 2, 3, 5, 8])
        seqs.append(root)
        for _ in range(fam - 1):
            parent = rng.choice(seqs[-fam:]) if rng.random() < 0.5 else root
            seqs.append(mutate(rng, parent, alphabet, rng.randint(0, max_mut)))
        r = rng.random()
        if r < p_dup and seqs:
            seqs.append(rng.choice(seqs))
        elif r < p_dup + p_short:
            seqs.append("".join(rng.choice(alphabet) for _ in range(rng.randint(0 if allow_empty else 1, 2))))
    rng.shuffle(seqs)
    return seqs[:n]


def sub_collection(rng, pool, n):
    """random multiset of size n from pool (with repetitions possible)"""
    return [rng.choice(pool) for _ in range(n)]


def partitions(n, maxpart=None):
    """all integer partitions of n as non-increasing tuples"""
    if maxpart is None or maxpart > n:
        maxpart = n
    if n == 0:
        yield ()
        return
    for k in range(min(n, maxpart), 0, -1):
        for rest in partitions(n - k, k):
            yield (k,) + rest


def planted(rng, n, L=12, n_pairs=12, alphabet=AA, tail=400):
    """n random L-mers (far apart with overwhelming probability) with `n_pairs` planted neighbour pairs whose positions lie
    in the last `tail` positions (so position products exceed 2^31 for n > 46341). Returns (xs, [(i, j, d)]) with i < j and d = 1."""
    xs = ["".join(rng.choice(alphabet) for _ in range(L)) for _ in range(n)]
    pairs = []
    used = set()
    while len(pairs) < n_pairs:
        i = rng.randrange(n - tail, n - 1)
        j = rng.randrange(i + 1, n)
        if i in used or j in used:
            continue
        used.update((i, j))
        k = rng.randrange(L)
        c = rng.choice([a for a in alphabet if a != xs[i][k]])
        xs[j] = xs[i][:k] + c + xs[i][k + 1:]
        pairs.append((i, j, 1))
    return xs, pairs
