"""Catalogue of public pyrepseq calls with representative arguments (C20).

Each entry: name -> (make_args, call, seeded) where make_args() builds FRESH argument objects,
call(args) runs the public function and returns something canonicalisable, seeded = the call draws
from NumPy's global generator (it is run under np.random.seed(SEED)).
Used both by the history runner (in-process, in sequence) and by the fresh-interpreter worker.
"""
import math
import os
import sys

SEED = 12345


def canon(x, depth=0):
    """canonical JSON-able form; floats rounded to 10 significant digits"""
    import numpy as np
    import pandas as pd
    if depth > 8:
        return "<deep>"
    if x is None or isinstance(x, (bool, str)):
        return x
    if isinstance(x, (int, np.integer)):
        return int(x)
    if isinstance(x, (float, np.floating)):
        x = float(x)
        if math.isnan(x):
            return "nan"
        if math.isinf(x):
            return "inf" if x > 0 else "-inf"
        return float(f"{x:.10g}")
    if isinstance(x, np.ndarray):
        return [canon(v, depth + 1) for v in x.tolist()]
    if isinstance(x, pd.DataFrame):
        return {"columns": [str(c) for c in x.columns], "index": [str(i) for i in x.index],
                "values": [[canon(v, depth + 1) for v in row] for row in x.itertuples(index=False)]}
    if isinstance(x, pd.Series):
        return {"index": [str(i) for i in x.index], "values": [canon(v, depth + 1) for v in x.tolist()]}
    if isinstance(x, dict):
        return {str(k): canon(v, depth + 1) for k, v in sorted(x.items(), key=lambda kv: str(kv[0]))}
    if isinstance(x, (set, frozenset)):
        return sorted((canon(v, depth + 1) for v in x), key=str)
    if isinstance(x, (list, tuple)):
        return [canon(v, depth + 1) for v in x]
    if hasattr(x, "toarray"):
        return canon(x.toarray(), depth + 1)
    return f"<{type(x).__name__}>"


def snapshot(x, depth=0):
    """deep, comparable snapshot of an argument object (to detect in-place modification)"""
    import numpy as np
    import pandas as pd
    # (contents AND the properties a caller relies on afterwards: dtypes, writability of arrays, column / index labels)
    if isinstance(x, pd.DataFrame):
        return ("df", [str(c) for c in x.columns], [str(i) for i in x.index], [str(t) for t in x.dtypes],
                [[repr(v) for v in row] for row in x.itertuples(index=False)], repr(x.index.names), repr(x.columns.names))
    if isinstance(x, pd.Series):
        return ("series", str(x.dtype), str(x.name), [str(i) for i in x.index], [repr(v) for v in x.tolist()], repr(x.index.names))
    if isinstance(x, np.ndarray):
        return ("nd", x.shape, str(x.dtype), bool(x.flags.writeable), [repr(v) for v in x.ravel().tolist()])
    if isinstance(x, dict):
        return ("dict", sorted((repr(k), snapshot(v, depth + 1)) for k, v in x.items()))
    if isinstance(x, (list, tuple)):
        return (type(x).__name__, [snapshot(v, depth + 1) for v in x])
    if isinstance(x, (set, frozenset)):
        return ("set", sorted(repr(v) for v in x))
    if callable(x):
        return ("callable", getattr(x, "__name__", "?"))
    return ("obj", repr(x)[:200])


def catalogue():
    import numpy as np
    import pandas as pd
    import matplotlib
    matplotlib.use("Agg")
    import matplotlib.pyplot as plt
    import matplotlib as mpl
    import pyrepseq as prs
    from pyrepseq import nn, stats, distance, io, util, plotting, clustering, entropy
    from pyrepseq.metric import Levenshtein, WeightedLevenshtein
    import pyrepseq.metric.tcr_metric as tm
    from Levenshtein import distance as levd

    seqs = lambda: ["CAAA", "CDDD", "CADA", "CAAA", "CAD", "CAAK"]  # noqa
    seqs2 = lambda: ["CAAF", "CCCC", "CAD"]  # noqa
    tab = lambda: pd.DataFrame({"TRAV": ["TRAV1-1*01", "TRAV1-2*01", "TRAV1-1*01", "TRAV2*01"], "CDR3A": ["CAVR", "CAVK", "CAVR", "CAAAA"],  # noqa
                                "TRBV": ["TRBV2*01", "TRBV2*01", "TRBV3-1*01", "TRBV2*01"], "CDR3B": ["CASSLGQF", "CASSLGQF", "CASSQGQF", "CASSLF"],
                                "g": ["x", "y", "x", "x"]}, index=[7, 3, 9, 1])
    lower = lambda: pd.DataFrame({"cdr3a": ["CAVR", "CAVK", "CAAAA", "CAVR", "CQ"], "cdr3b": ["CASSL", "CASSL", "CQQQQ", "CASSQ", "CASSL"],  # noqa
                                  "m": list("xyxyx")}, index=[5, 3, 8, 1, 0])
    gtab = lambda: pd.DataFrame({"g": ["b", "a", "a", "b", "c", "a", "b"], "s": ["CA", "CA", "CB", "CA", "CQ", "CA", "CD"],  # noqa
                                 "t": list("xyxyxyx")})

    def clustermap(df, **kw):
        cg, link, clus = plotting.similarity_clustermap(df, **kw)
        out = {"linkage": link, "cluster": clus, "data2d": np.asarray(cg.data2d), "ticks": list(cg.ax_cbar.get_xticks())}
        plt.close("all")
        return out

    def with_fig(fn):
        fig, ax = plt.subplots()
        try:
            return fn(ax)
        finally:
            plt.close("all")

    C = {}

    def add(name, make, call, seeded=False):
        C[name] = (make, call, seeded)

    # search
    add("nn.nearest_neighbor", lambda: [seqs()], lambda a: sorted(nn.nearest_neighbor(a[0], max_edits=1)))
    add("nn.symdel-two", lambda: [seqs(), seqs2()], lambda a: sorted(nn.symdel(a[0], max_edits=2, seqs2=a[1])))
    add("nn.symdel-ndarray", lambda: [np.array(seqs())], lambda a: nn.symdel(a[0], max_edits=1, output_type="ndarray"))
    add("nn.symdel-series", lambda: [pd.Series(seqs(), index=range(4, 10))], lambda a: sorted(nn.symdel(a[0], max_edits=1)))
    add("nn.hash_based", lambda: [seqs()], lambda a: sorted(nn.hash_based(a[0], max_edits=1)))
    add("nn.hash_based-hamming-coo", lambda: [seqs()], lambda a: nn.hash_based(a[0], max_edits=1, custom_distance="hamming", output_type="coo_matrix"))
    add("nn.kdtree", lambda: [seqs()], lambda a: sorted(nn.kdtree(a[0], max_edits=2)))
    add("nn.kdtree-parallel", lambda: [seqs()], lambda a: sorted(nn.kdtree(a[0], max_edits=1, n_cpu=2, compression=3)))
    # several PARALLEL searches with different sequences / radii / modes in one process (each must be answered from its own arguments)
    add("nn.kdtree-parallel-other", lambda: [seqs2() + seqs()], lambda a: sorted(nn.kdtree(a[0], max_edits=2, n_cpu=2)))
    add("nn.kdtree-parallel-hamming", lambda: [seqs() + [s_[:-1] for s_ in seqs2()]],
        lambda a: sorted(nn.kdtree(a[0], max_edits=1, n_cpu=3, custom_distance="hamming")))
    add("nn.kdtree-hamming", lambda: [seqs()], lambda a: sorted(nn.kdtree(a[0], max_edits=1, custom_distance="hamming", max_returns=1)))
    add("nn.kdtree-custom", lambda: [seqs()], lambda a: sorted(nn.kdtree(a[0], max_edits=2, custom_distance=levd, max_custom_distance=1)))
    add("nn.symdel-custom", lambda: [seqs()], lambda a: sorted(nn.symdel(a[0], max_edits=2, custom_distance=levd, max_custom_distance=1)))
    add("nn.SymdelDB.lookup", lambda: [seqs(), seqs2()], lambda a: sorted(nn.SymdelDB(a[0], 1).lookup(a[1])))
    add("nn.LookupDB.lookup", lambda: [seqs(), seqs2()], lambda a: sorted(nn.LookupDB(a[0]).lookup(a[1], max_edits=1)))
    # the same strings in the other role (query <-> reference) and the same collection at another radius
    # (a reference sharing almost no deletion variant with the queries: nothing cached per query string may be narrowed to it)
    add("nn.symdel-two-swapped", lambda: [["CDDK", "CCCC"], seqs()], lambda a: sorted(nn.symdel(a[0], max_edits=1, seqs2=a[1])))
    add("nn.SymdelDB.lookup-swapped", lambda: [["CDDK", "CCCC", "CAAF"], seqs()], lambda a: sorted(nn.SymdelDB(a[0], 2).lookup(a[1])))
    add("nn.LookupDB.lookup-swapped", lambda: [seqs2(), seqs()], lambda a: sorted(nn.LookupDB(a[0]).lookup(a[1], max_edits=2)))
    add("nn.symdel-k2", lambda: [seqs()], lambda a: sorted(nn.symdel(a[0], max_edits=2)))
    add("nn.hash_based-k2", lambda: [seqs() + seqs2()], lambda a: sorted(nn.hash_based(a[0], max_edits=2)))
    add("nn.kdtree-compression", lambda: [seqs() + seqs2()], lambda a: sorted(nn.kdtree(a[0], max_edits=1, compression=6)))
    add("nn.kdtree-compression5", lambda: [seqs2() + seqs()], lambda a: sorted(nn.kdtree(a[0], max_edits=1, compression=5)))
    add("nn.kdtree-ndarray", lambda: [np.array(seqs())], lambda a: sorted(nn.kdtree(a[0], max_edits=1)))
    add("nn.hash_based-ndarray", lambda: [np.array(seqs(), dtype=object)], lambda a: sorted(nn.hash_based(a[0], max_edits=1)))
    add("nn.SymdelDB.lookup-ndarray", lambda: [np.array(seqs()), np.array(seqs2())], lambda a: sorted(nn.SymdelDB(a[0], 1).lookup(a[1])))
    add("nn.symdel-invalid", lambda: [[]], lambda a: nn.symdel(a[0]))
    add("nn.kdtree-invalid", lambda: [["CAXA"]], lambda a: nn.kdtree(a[0]))
    add("nn.nearest_neighbor_tcrdist", lambda: [tab()], lambda a: nn.nearest_neighbor_tcrdist(a[0], chain="beta", max_edits=2, max_tcrdist=60))
    add("nn.nearest_neighbor_tcrdist-kwargs", lambda: [tab(), {"ntrim": 2, "dist_weight": 5, "gap_penalty": 7}],
        lambda a: nn.nearest_neighbor_tcrdist(a[0], chain="alpha", max_edits=2, max_tcrdist=90, tcrdist_kwargs=a[1]))
    # stats
    add("stats.pc", lambda: [seqs()], lambda a: stats.pc(a[0]))
    add("stats.pc-two", lambda: [seqs(), seqs2()], lambda a: stats.pc(a[0], a[1]))
    add("stats.pc-table", lambda: [tab()], lambda a: stats.pc(a[0][["CDR3A", "CDR3B"]]))
    add("stats.pc_n", lambda: [[3, 2, 1]], lambda a: stats.pc_n(a[0]))
    add("stats.pc_n-ndarray", lambda: [np.array([3, 2, 1, 5])], lambda a: stats.pc_n(a[0]))
    add("stats.stdpc_n-ndarray", lambda: [np.array([3, 2, 2, 1])], lambda a: stats.stdpc_n(a[0]))
    add("stats.pc_joint", lambda: [gtab()], lambda a: stats.pc_joint(a[0], ["s", "t"]))
    add("stats.pc_conditional", lambda: [gtab()], lambda a: stats.pc_conditional(a[0], "g", "s"))
    add("stats.pc_conditional-weights", lambda: [gtab(), [1, 2]], lambda a: stats.pc_conditional(a[0], ["g"], "s", group_weights=a[1]))
    add("stats.pc_conditional-ndarray-weights", lambda: [gtab(), np.array([1.0, 2.0])], lambda a: stats.pc_conditional(a[0], "g", "s", group_weights=a[1]))
    add("stats.pc_grouped_cross", lambda: [gtab()], lambda a: stats.pc_grouped_cross(a[0], "g", "s"))
    add("stats.varpc_n", lambda: [np.array([3, 2, 2, 1])], lambda a: stats.varpc_n(a[0]))
    add("stats.stdpc", lambda: [seqs()], lambda a: stats.stdpc(a[0]))
    add("stats.chao1", lambda: [[3, 2, 1]], lambda a: [stats.chao1(a[0]), stats.var_chao1(a[0]), stats.chao2(a[0], 4), stats.var_chao2(a[0], 4)])
    add("stats.jaccard_index", lambda: [seqs(), seqs2()], lambda a: [stats.jaccard_index(a[0], a[1]), stats.overlap(a[0], a[1]), stats.overlap_coefficient(a[0], a[1])])
    add("stats.subsample", lambda: [[3, 0, 2, 5]], lambda a: stats.subsample(a[0], 4), True)
    add("stats.powerlaw_sample", lambda: [], lambda a: stats.powerlaw_sample(size=5, xmin=2, alpha=2.5), True)
    # large inputs (size thresholds may switch the code path): still a function of the NumPy seed only
    add("stats.subsample-large", lambda: [[70000, 0, 50000, 3, 12]], lambda a: stats.subsample(a[0], 2000), True)
    add("stats.powerlaw_sample-large", lambda: [], lambda a: stats.powerlaw_sample(size=20000, xmin=1, alpha=2.2), True)
    add("distance.downsample-large", lambda: [[f"s{i % 977}" for i in range(30000)]], lambda a: distance.downsample(a[0], 500), True)
    # calls that RAISE half-way (reversed bounds, an optimiser option that makes the fit fail): process-wide numeric settings must
    # be as before afterwards - the entries below whose correct value is inf / nan show it
    add("stats.powerlaw_mle_alpha-raises-bounds", lambda: [[1, 1, 2, 3, 1, 7, 2, 1, 12]], lambda a: stats.powerlaw_mle_alpha(a[0], method="exact", bounds=[4.5, 1.5]))
    add("stats.powerlaw_mle_alpha-raises-options", lambda: [[1, 1, 2, 3, 1, 7, 2, 1, 12]],
        lambda a: stats.powerlaw_mle_alpha(a[0], method="exact", options=dict(maxiter=1)))
    add("stats.powerlaw_mle_alpha-raises-kwarg", lambda: [[1, 1, 2, 3]], lambda a: stats.powerlaw_mle_alpha(a[0], method="exact", no_such_option=1))
    add("stats.pc_n-single", lambda: [[1]], lambda a: stats.pc_n(a[0]))
    add("entropy.renyi2_entropy-no-coincidence", lambda: [pd.DataFrame({"s": ["CA", "CB", "CC", "CD"]})], lambda a: entropy.renyi2_entropy(a[0], "s"))
    add("distance.pcDelta-empty-bins", lambda: [["CAAA", "CAAD"]], lambda a: distance.pcDelta(a[0], bins=[5, 6, 7]))
    add("stats.powerlaw_mle_alpha-bounds", lambda: [[1, 1, 2, 3, 1, 7, 2, 1, 12]], lambda a: stats.powerlaw_mle_alpha(a[0], method="exact", bounds=[2.5, 3.5]))
    add("stats.powerlaw_mle_alpha", lambda: [[1, 1, 2, 3, 1, 7, 2, 1, 12]], lambda a: [stats.powerlaw_mle_alpha(a[0], method=m) for m in ("simple", "continuitycorrection", "exact")])
    # distance
    add("distance.pdist", lambda: [seqs()], lambda a: distance.pdist(a[0]))
    add("distance.cdist", lambda: [seqs(), seqs2()], lambda a: distance.cdist(a[0], a[1]))
    add("distance.cdist-same-collection", lambda: [seqs()], lambda a: [distance.cdist(a[0], a[0]), distance.cdist(a[0], list(a[0]))])
    add("distance.downsample", lambda: [seqs()], lambda a: distance.downsample(a[0], 3), True)
    add("distance.downsample-ndarray", lambda: [np.array(seqs())], lambda a: distance.downsample(a[0], 3), True)
    add("distance.pcDelta-maxseqs-ndarray", lambda: [np.array(seqs())], lambda a: distance.pcDelta(a[0], maxseqs=4, normalize=False), True)
    add("distance.pcDelta", lambda: [seqs()], lambda a: distance.pcDelta(a[0]))
    add("distance.pcDelta-two", lambda: [seqs(), seqs2(), [0, 1, 2, 3]], lambda a: distance.pcDelta(a[0], a[1], bins=a[2], pseudocount=0.5))
    add("distance.pcDelta-table", lambda: [tab()], lambda a: distance.pcDelta(a[0], bins=np.arange(0, 9), normalize=False))
    add("distance.pcDelta-maxseqs", lambda: [seqs()], lambda a: distance.pcDelta(a[0], maxseqs=4, normalize=False), True)
    add("distance.pcDelta_grouped", lambda: [gtab()], lambda a: distance.pcDelta_grouped(a[0], "g", "s", bins=[0, 1, 2, 3]))
    add("distance.pcDelta_grouped_cross", lambda: [gtab()], lambda a: distance.pcDelta_grouped_cross(a[0], "g", "s", bins=0))
    add("distance.load_pcDelta_background", lambda: [], lambda a: distance.load_pcDelta_background()[1])
    add("distance.levenshtein_neighbors", lambda: ["CAAD"], lambda a: sorted(distance.levenshtein_neighbors(a[0])))
    add("distance.hamming_neighbors", lambda: ["CAAD", [1, 2]], lambda a: sorted(distance.hamming_neighbors(a[0], variable_positions=a[1])))
    add("distance.next_nearest_neighbors", lambda: ["CA"], lambda a: sorted(distance.next_nearest_neighbors(a[0], distance.hamming_neighbors, maxdistance=2)))
    add("distance.find_neighbor_pairs", lambda: [seqs()], lambda a: sorted(distance.find_neighbor_pairs(a[0])))
    add("distance.calculate_neighbor_numbers", lambda: [seqs()], lambda a: distance.calculate_neighbor_numbers(a[0]))
    add("distance.isdist1", lambda: ["CAAA", set(seqs2())], lambda a: [distance.isdist1(a[0], a[1]), distance.nndist_hamming(a[0], a[1])])
    add("distance.hierarchical_clustering", lambda: [seqs()], lambda a: distance.hierarchical_clustering(a[0]))
    add("distance.hierarchical_clustering-metric1", lambda: [seqs()], lambda a: distance.hierarchical_clustering(a[0], metric=WeightedLevenshtein()))
    add("distance.hierarchical_clustering-metric2", lambda: [seqs()], lambda a: distance.hierarchical_clustering(a[0], metric=WeightedLevenshtein(substitution_weight=3)))
    add("distance.hierarchical_clustering-large", lambda: [[("CA" + "".join("ACDE"[(i >> (2 * j)) & 3] for j in range(5))) for i in range(1001)]],
        lambda a: distance.hierarchical_clustering(a[0])[1][:50])
    add("distance.hierarchical_clustering-partial-kws", lambda: [seqs(), dict(method="single")], lambda a: distance.hierarchical_clustering(a[0], linkage_kws=a[1]))
    add("distance.hierarchical_clustering-kws", lambda: [seqs(), dict(method="single"), dict(t=1, criterion="distance")],
        lambda a: distance.hierarchical_clustering(a[0], linkage_kws=a[1], cluster_kws=a[2]))
    # metrics
    add("metric.Levenshtein", lambda: [seqs(), seqs2()], lambda a: [Levenshtein().calc_cdist_matrix(a[0], a[1]), Levenshtein().calc_pdist_vector(a[0])])
    add("metric.WeightedLevenshtein", lambda: [seqs()], lambda a: WeightedLevenshtein(2, 1, 3).calc_pdist_vector(a[0]))
    add("metric.CdrLevenshtein", lambda: [tab()], lambda a: tm.CdrLevenshtein(cdr3_weight=2).calc_cdist_matrix(a[0], a[0]))
    # objects that LIVE across calls (built once per process, before any other call): a metric with non-default weights, a string
    # metric, a deletion-variant database. What other calls construct or do in between must not change what these objects compute.
    keep = {"cdr": tm.CdrLevenshtein(alpha_weight=3, cdr1_weight=2, insertion_weight=2), "a3": tm.AlphaCdr3Levenshtein(substitution_weight=4),
            "wl": WeightedLevenshtein(1, 3, 2), "db": nn.SymdelDB(seqs(), 2), "ldb": nn.LookupDB(seqs())}
    add("metric.persistent-CdrLevenshtein", lambda: [tab()], lambda a: [keep["cdr"].calc_cdist_matrix(a[0], a[0]), keep["cdr"].calc_pdist_vector(a[0])])
    add("metric.persistent-AlphaCdr3", lambda: [tab()], lambda a: keep["a3"].calc_pdist_vector(a[0]))
    add("metric.persistent-WeightedLevenshtein", lambda: [seqs(), seqs2()], lambda a: keep["wl"].calc_cdist_matrix(a[0], a[1]))
    add("metric.other-weights", lambda: [tab()], lambda a: tm.CdrLevenshtein(beta_weight=5, cdr2_weight=3).calc_cdist_matrix(a[0], a[0]))
    add("nn.persistentDB.lookup-plain", lambda: [seqs2()], lambda a: sorted(keep["db"].lookup(a[0])))
    add("nn.persistentDB.lookup-custom0", lambda: [seqs2()], lambda a: sorted(keep["db"].lookup(a[0], custom_distance=levd, max_custom_distance=0)))
    add("nn.persistentDB.lookup-custom", lambda: [seqs2()], lambda a: sorted(keep["db"].lookup(a[0], custom_distance=lambda x, y: levd(x, y) / 2)))
    add("nn.persistentDB.lookup-hamming", lambda: [seqs2()], lambda a: sorted(keep["db"].lookup(a[0], custom_distance="hamming")))
    add("nn.persistentDB.lookup-raises", lambda: [seqs2()], lambda a: sorted(keep["db"].lookup(a[0], custom_distance=lambda x, y: 1 / 0)))
    add("nn.persistentLookupDB.lookup-k2", lambda: [seqs2()], lambda a: sorted(keep["ldb"].lookup(a[0], max_edits=2)))
    add("nn.persistentLookupDB.lookup-k1", lambda: [seqs2()], lambda a: sorted(keep["ldb"].lookup(a[0], max_edits=1, custom_distance="hamming")))
    add("metric.BetaCdr3Levenshtein-invalid", lambda: [seqs()], lambda a: tm.BetaCdr3Levenshtein().calc_pdist_vector(a[0]))
    # clustering
    add("clustering.graph_clustering", lambda: [[(0, 2, 1), (2, 0, 1), (0, 3, 0), (3, 0, 0)], seqs()], lambda a: clustering.graph_clustering(a[0], a[1]))
    add("clustering.graph_clustering-multilevel", lambda: [[(0, 2, 1), (2, 0, 1), (4, 5, 1), (5, 4, 1)], seqs()],
        lambda a: clustering.graph_clustering(a[0], a[1], "multilevel"))
    # io
    add("io.standardize_dataframe", lambda: [tab()], lambda a: io.standardize_dataframe(a[0], suppress_warnings=True))
    add("io.standardize_dataframe-mapper", lambda: [tab().rename(columns={"TRBV": "v"}), {"v": "TRBV"}],
        lambda a: io.standardize_dataframe(a[0], col_mapper=a[1], standardize=False))
    add("io.standardize_dataframe-mapper-collision", lambda: [tab().assign(v_b_gene=["TRBV2*01"] * 4), {"v_b_gene": "TRBV", "g": "group"}],
        lambda a: io.standardize_dataframe(a[0], col_mapper=a[1], suppress_warnings=True))
    add("io.standardize_dataframe-mapper-reuse", lambda: [tab().rename(columns={"TRBV": "v_b_gene"}), {"v_b_gene": "TRBV", "g": "group"}],
        lambda a: io.standardize_dataframe(a[0], col_mapper=a[1], suppress_warnings=True))
    # key in the index, with and without suffixes (no copy is forced by set_index here: the tables handed over are the caller's own)
    add("io.multimerge-index-suffixes", lambda: [[pd.DataFrame({"x": [1, 2]}, index=["a", "b"]), pd.DataFrame({"x": [3, 4]}, index=["b", "c"])], ["l", "r"]],
        lambda a: io.multimerge(a[0], "index", suffixes=a[1]))
    add("io.multimerge-index-names", lambda: [[pd.DataFrame({"a": [1.0, 2.0, 3.0]}, index=pd.RangeIndex(3, name="clonotype")),
                                               pd.DataFrame({"b": [4.0, 5.0, 6.0]}, index=pd.RangeIndex(3)),
                                               pd.DataFrame({"c": [7.0, 8.0, 9.0]}, index=pd.RangeIndex(3, name="other"))]],
        lambda a: io.multimerge(a[0], "index"))
    add("io.multimerge-index", lambda: [[pd.DataFrame({"x": [1, 2]}, index=["a", "b"]), pd.DataFrame({"y": [3, 4]}, index=["b", "c"])]],
        lambda a: io.multimerge(a[0], "index", how="left"))
    add("io.multimerge-inner", lambda: [[pd.DataFrame({"k": ["a", "b"], "x": [1, 2]}), pd.DataFrame({"k": ["b", "c"], "y": [3, 4]})]],
        lambda a: io.multimerge(a[0], "k", how="inner"))
    add("io.multimerge-default", lambda: [[pd.DataFrame({"k": ["a", "b"], "x": [1, 2]}), pd.DataFrame({"k": ["b", "c"], "y": [3, 4]})]],
        lambda a: io.multimerge(a[0], "k"))
    add("io.isvalidcdr3", lambda: [["CASSF", "", None, 5, "CAXF"]], lambda a: [[io.isvalidaa(x), io.isvalidcdr3(x)] for x in a[0]])
    add("io.multimerge", lambda: [[pd.DataFrame({"k": ["a", "b"], "x": [1, 2]}), pd.DataFrame({"k": ["b", "c"], "y": [3, 4]})], ["l", "r"]],
        lambda a: io.multimerge(a[0], "k", suffixes=a[1]))
    # entropy
    add("entropy.renyi2_entropy", lambda: [gtab()], lambda a: [entropy.renyi2_entropy(a[0], "s"), entropy.renyi2_entropy(a[0], ["s", "t"], base=None),
                                                                entropy.renyi2_entropy(a[0], "s", by="g"), entropy.stdrenyi2_entropy(a[0], "s")])
    # util
    add("util.seqs_to_regex", lambda: [["AC-", "ADC", "A-C"]], lambda a: [util.seqs_to_regex(a[0], align=False), util.seqs_to_consensus(a[0], align=False)])
    add("util.ensure_numpy", lambda: [pd.Series(seqs())], lambda a: util.ensure_numpy(a[0]))
    # plotting
    add("plotting.rankfrequency", lambda: [[3, 1, float("nan"), 2, 2]], lambda a: with_fig(lambda ax: plotting.rankfrequency(a[0], ax=ax)[0].get_xydata()))
    add("plotting.labels_to_colors_hls", lambda: [list("abacab")], lambda a: plotting.labels_to_colors_hls(a[0], min_count=2), True)
    add("plotting.labels_to_colors_hls-kws", lambda: [list("abacab"), dict(l=0.3, s=0.5)], lambda a: plotting.labels_to_colors_hls(a[0], palette_kws=a[1]), True)
    add("plotting.labels_to_colors_tableau", lambda: [list("abacab")], lambda a: plotting.labels_to_colors_tableau(a[0]), True)
    add("plotting.seqlogos", lambda: [["ACD", "ADD", "CCD"]], lambda a: with_fig(lambda ax: plotting.seqlogos(a[0], ax=ax)[1]))
    # a plotting call that leaves its figure OPEN (as interactive use does), and a logo drawn without an axes argument afterwards:
    # it gets its own new figure, whatever is open
    add("plotting.rankfrequency-figure-left-open", lambda: [[3, 1, 2, 2, 5]],
        lambda a: (plt.subplots(), plotting.rankfrequency(a[0])[0].get_xydata())[1])

    def seqlogos_no_ax(seqs_):
        ax_, cm_ = plotting.seqlogos(seqs_)
        out_ = [cm_, [float(v) for v in ax_.figure.get_size_inches()], len(ax_.patches), len(ax_.lines), len(ax_.figure.axes),
                str(ax_.get_xscale()), str(ax_.get_yscale())]
        plt.close(ax_.figure)
        return out_
    add("plotting.seqlogos-no-ax", lambda: [["ACD", "ADD", "CCD"]], lambda a: seqlogos_no_ax(a[0]))
    add("plotting.density_scatter", lambda: [[1, 1, 2, 3, 1], [1, 1, 2, 3, 1]],
        lambda a: with_fig(lambda ax: [plotting.density_scatter(a[0], a[1], ax=ax, discrete=True).collections[0].get_offsets(), None][0]))
    add("plotting.similarity_clustermap", lambda: [lower()], lambda a: clustermap(a[0]), True)
    add("plotting.similarity_clustermap-norm", lambda: [lower()], lambda a: clustermap(a[0], norm=mpl.colors.Normalize(0, 6)), True)
    add("plotting.similarity_clustermap-cbar_kws", lambda: [lower(), dict(label="d", orientation="horizontal")],
        lambda a: clustermap(a[0], cbar_kws=a[1], meta_columns=["m"]), True)
    add("plotting.similarity_clustermap-single", lambda: [lower(), dict(method="single")],
        lambda a: clustermap(a[0], alpha_column=None, linkage_kws=a[1]), True)
    add("plotting.label_axes", lambda: [], lambda a: with_fig(lambda ax: (plotting.label_axes([ax]), [t.get_text() for t in ax.texts])[1]))
    return C


def run_call(C, name):
    """returns (canonical result or ['error', enum], argument snapshots before, after)"""
    import numpy as np
    make, call, seeded = C[name]
    args = make()
    before = [snapshot(a) for a in args]
    if seeded:
        np.random.seed(SEED)
    try:
        res = ["ok", canon(call(args))]
    except Exception as e:  # noqa
        res = ["error", type(e).__name__]
    after = [snapshot(a) for a in args]
    return res, before, after


def defaults_snapshot():
    """__defaults__ / __kwdefaults__ of every public function and method of the package + rebindable module globals"""
    import inspect
    import pyrepseq
    from pyrepseq import nn, stats, distance, io, util, plotting, clustering, entropy
    import pyrepseq.metric.levenshtein as ml
    import pyrepseq.metric.tcr_metric.tcr_levenshtein as tl
    import pyrepseq.metric.tcr_metric.tcr_metric as tmm
    out = {}
    for mod in (nn, stats, distance, io, util, plotting, clustering, entropy, ml, tl, tmm):
        for nm, obj in vars(mod).items():
            if getattr(obj, "__module__", None) != mod.__name__:
                continue
            fns = []
            if inspect.isfunction(obj):
                fns.append((nm, obj))
            elif inspect.isclass(obj):
                fns += [(f"{nm}.{k}", v) for k, v in vars(obj).items() if inspect.isfunction(v)]
            for q, f in fns:
                out[f"{mod.__name__}.{q}"] = (snapshot(list(f.__defaults__ or ())), snapshot(dict(f.__kwdefaults__ or {})))
    # process-wide settings a library call must leave as it found them
    import numpy as _np
    import pandas as _pd
    out["<numpy.geterr>"] = snapshot(dict(_np.geterr()))
    out["<numpy.printoptions>"] = snapshot({k: repr(v) for k, v in _np.get_printoptions().items()})
    out["<pandas.mode.copy_on_write / chained_assignment>"] = snapshot({k: repr(_pd.get_option(k)) for k in ("mode.chained_assignment",)})
    out["<recursionlimit>"] = sys.getrecursionlimit()
    # every registered pandas option and every matplotlib rcParam (a style or option set for one call must not outlive it)
    try:
        opts = {}
        from pandas._config import config as _cfg
        for k in sorted(_cfg._registered_options):
            try:
                opts[k] = repr(_pd.get_option(k))
            except Exception:  # noqa
                pass
        out["<pandas.options>"] = snapshot(opts)
    except Exception as e_:  # noqa
        out["<pandas.options>"] = f"unavailable: {e_!r}"
    try:
        import matplotlib as _mpl
        import warnings as _w
        with _w.catch_warnings():
            _w.simplefilter("ignore")
            out["<matplotlib.rcParams>"] = snapshot({k: repr(v) for k, v in _mpl.rcParams.items() if k not in ("backend", "backend_fallback")})
    except Exception as e_:  # noqa
        out["<matplotlib.rcParams>"] = f"unavailable: {e_!r}"
    return out


if __name__ == "__main__":
    # fresh-interpreter worker: python c20_calls.py <name> ... ; prints one JSON line per call
    import json
    here = os.path.dirname(os.path.abspath(__file__))
    sys.path.insert(0, os.path.join(here, "standins"))
    import warnings
    warnings.simplefilter("ignore")
    C = catalogue()
    for name in sys.argv[1:]:
        res, _b, _a = run_call(C, name)
        print(json.dumps({"name": name, "result": res}), flush=True)
