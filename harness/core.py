"""harness/core.py — shared machinery: build, audit, driver pipe, triage, evidence.

Run with /venv/bin/python (pyrepseq is imported from /repo through the editable install).
"""
import fcntl
import hashlib
import json
import os
import random
import re
import subprocess
import sys
import time
import traceback
from fractions import Fraction

VERIF = os.path.dirname(os.path.dirname(os.path.abspath(__file__)))
LEAN = os.path.join(VERIF, "lean")
DRIVER = os.path.join(LEAN, ".lake", "build", "bin", "driver")
REPO = os.environ.get("VERIF_REPO", "/repo")
ALLOWED_AXIOMS = {"propext", "Classical.choice", "Quot.sound"}
BANNED = re.compile(r"\bsorry\b|\badmit\b|^axiom |native_decide|bv_decide|implemented_by|\bunsafe |maxHeartbeats 0")

EXIT_OK, EXIT_VIOLATION, EXIT_INFRA = 0, 1, 2


class InfraError(Exception):
    pass


def log(*a):
    print(*a, file=sys.stderr, flush=True)


# ---------------------------------------------------------------- repo tie
def assert_repo():
    """pyrepseq must be the working tree under /repo (editable install)."""
    import pyrepseq
    path = os.path.realpath(pyrepseq.__file__)
    if not path.startswith(os.path.realpath(REPO) + os.sep):
        raise InfraError(f"pyrepseq imported from {path}, not from {REPO}")
    return path


def repo_fingerprint():
    h = hashlib.sha256()
    for root, _dirs, files in sorted(os.walk(os.path.join(REPO, "pyrepseq"))):
        if "__pycache__" in root:
            continue
        for f in sorted(files):
            if f.endswith((".py", ".csv")):
                p = os.path.join(root, f)
                h.update(p.encode())
                with open(p, "rb") as fh:
                    h.update(fh.read())
    return h.hexdigest()[:16]


# ---------------------------------------------------------------- lean build + audit
def lake_build(targets=("Prs", "driver"), timeout=3000):
    """Serialised `lake build`. Returns (ok, output)."""
    lock = open(os.path.join(LEAN, ".build.lock"), "w")
    fcntl.flock(lock, fcntl.LOCK_EX)
    try:
        p = subprocess.run(["lake", "build", *targets], cwd=LEAN, capture_output=True,
                           text=True, timeout=timeout)
        return p.returncode == 0, p.stdout + p.stderr
    finally:
        fcntl.flock(lock, fcntl.LOCK_UN)
        lock.close()


def property_theorems(pid):
    """Names of the property theorems of `pid` (file Prs/Properties/<pid>.lean)."""
    path = os.path.join(LEAN, "Prs", "Properties", f"{pid}.lean")
    if not os.path.exists(path):
        return []
    src = open(path).read()
    return re.findall(rf"^theorem ({pid}_\w+)", src, flags=re.M)


def strip_comments(src):
    src = re.sub(r"/-.*?-/", "", src, flags=re.S)
    return re.sub(r"--.*", "", src)


def grep_banned():
    hits = []
    for root, _d, files in os.walk(os.path.join(LEAN, "Prs")):
        for f in files:
            if f.endswith(".lean"):
                p = os.path.join(root, f)
                for n, line in enumerate(strip_comments(open(p).read()).splitlines(), 1):
                    if BANNED.search(line):
                        hits.append(f"{os.path.relpath(p, LEAN)}:{n}: {line.strip()}")
    return hits


def audit(pid):
    """#print axioms for every property theorem of pid. Returns dict name -> sorted axiom list,
    and the checker command."""
    thms = property_theorems(pid)
    os.makedirs(os.path.join(LEAN, ".audit"), exist_ok=True)
    path = os.path.join(LEAN, ".audit", f"Audit_{pid}.lean")
    with open(path, "w") as fh:
        fh.write(f"import Prs.Properties.{pid}\n")
        for t in thms:
            fh.write(f"#print axioms Prs.{t}\n")
    cmd = f"cd lean && lake build Prs && lake env lean .audit/Audit_{pid}.lean"
    p = subprocess.run(["lake", "env", "lean", path], cwd=LEAN, capture_output=True, text=True,
                       timeout=1200)
    out = p.stdout + p.stderr
    res = {}
    # "'Prs.C01_x' depends on axioms: [propext, Quot.sound]" / "does not depend on any axioms"
    for m in re.finditer(r"'Prs\.(\w+)' depends on axioms: \[([^\]]*)\]", out, flags=re.S):
        res[m.group(1)] = sorted(a.strip() for a in m.group(2).replace("\n", " ").split(",") if a.strip())
    for m in re.finditer(r"'Prs\.(\w+)' does not depend on any axioms", out):
        res[m.group(1)] = []
    return thms, res, cmd, (p.returncode, out)


# ---------------------------------------------------------------- driver
def run_driver(ops, timeout=3000):
    """Pipe JSON ops to the compiled Lean driver; returns list of ('ok', value) / ('error', msg)."""
    if not ops:
        return []
    data = "\n".join(json.dumps(o, ensure_ascii=False) for o in ops) + "\n"
    p = subprocess.run([DRIVER], input=data, capture_output=True, text=True, timeout=timeout)
    if p.returncode != 0:
        raise InfraError(f"driver exit {p.returncode}: {p.stderr[-2000:]}")
    lines = p.stdout.splitlines()
    if len(lines) != len(ops):
        raise InfraError(f"driver answered {len(lines)} lines for {len(ops)} ops: {p.stderr[-500:]}")
    out = []
    for l in lines:
        j = json.loads(l)
        out.append(("ok", j["ok"]) if "ok" in j else ("error", j.get("error")))
    return out


def run_driver_parallel(ops, nproc=None, timeout=3000):
    """Split ops over several driver processes (order preserved)."""
    nproc = nproc or min(16, max(1, len(ops) // 200))
    if nproc <= 1:
        return run_driver(ops, timeout)
    from concurrent.futures import ThreadPoolExecutor
    size = (len(ops) + nproc - 1) // nproc
    parts = [ops[i:i + size] for i in range(0, len(ops), size)]
    with ThreadPoolExecutor(len(parts)) as ex:
        res = list(ex.map(lambda p: run_driver(p, timeout), parts))
    return [x for r in res for x in r]


# ---------------------------------------------------------------- canonical values
def frac(x):
    """exact Fraction of an int / numpy int / float with integer value / Fraction / 'p/q' string"""
    import numpy as np
    if isinstance(x, Fraction):
        return x
    if isinstance(x, str):
        return Fraction(x)
    if isinstance(x, (bool, np.bool_)):
        return Fraction(int(x))
    if isinstance(x, (int, np.integer)):
        return Fraction(int(x))
    if isinstance(x, (float, np.floating)):
        return Fraction(float(x))
    raise TypeError(f"cannot convert {type(x)} to Fraction")


def fstr(x):
    try:
        if isinstance(x, float) and x == float("inf"):
            return "-1"          # the driver encodes np.inf (Hamming of unequal lengths) as -1
    except Exception:  # noqa
        pass
    f = frac(x)
    return str(f.numerator) if f.denominator == 1 else f"{f.numerator}/{f.denominator}"


def canon_trips(trips):
    """sorted list WITH multiplicity of (i, j, 'p/q')"""
    return sorted((int(t[0]), int(t[1]), fstr(t[2])) for t in trips)


def canon_model_trips(val):
    return sorted((int(t[0]), int(t[1]), fstr(t[2])) for t in val)


ERR_ENUM = {AssertionError: "AssertionError", ValueError: "ValueError", TypeError: "TypeError",
            KeyError: "KeyError", IndexError: "IndexError", NameError: "NameError",
            NotImplementedError: "NotImplementedError", ZeroDivisionError: "ZeroDivisionError"}


def err_name(e):
    for k, v in ERR_ENUM.items():
        if type(e) is k:
            return v
    for k, v in ERR_ENUM.items():
        if isinstance(e, k):
            return v
    return "Other:" + type(e).__name__


def call_real(fn, *a, **kw):
    """('ok', value) or ('error', enum)"""
    try:
        return ("ok", fn(*a, **kw))
    except Exception as e:  # noqa
        return ("error", err_name(e))


# ---------------------------------------------------------------- check context
class Check:
    """Collects obligations, comparisons, violations; writes evidence; decides exit code."""

    def __init__(self, pid, tier, seed, trusted_base=None, assumptions=None):
        self.pid, self.tier, self.seed = pid, tier, seed
        self.t0 = time.time()
        self.rng = random.Random(f"{pid}-{seed}")
        self.evaluations = 0
        self.nontrivial = set()
        self.samples = []
        self.hist = {}
        self.violations = []       # dicts with sig, what, replay
        self.known_hits = []
        self.model_errors = []
        self.notes = []
        self.rule = ""
        self.trusted_base = list(trusted_base or [])
        self.assumptions = list(assumptions or [])
        self.obligations = 0
        self.discharged = 0
        self.checker_cmd = ""
        self.broken_obligations = []   # names of theorems / correspondences that no longer check
        self.exhaustive = False
        self.known = load_known_findings(pid)
        os.makedirs(os.path.join(VERIF, "replays"), exist_ok=True)
        os.makedirs(os.path.join(VERIF, "evidence"), exist_ok=True)

    # -- bookkeeping
    def count(self, key, n=1):
        self.hist[key] = self.hist.get(key, 0) + n

    def case(self, sample=None, nontrivial_key=None):
        self.evaluations += 1
        if nontrivial_key is not None:
            self.nontrivial.add(nontrivial_key if isinstance(nontrivial_key, (str, int, tuple))
                                else json.dumps(nontrivial_key, sort_keys=True, default=str))
        if sample is not None and len(self.samples) < 6:
            self.samples.append(sample)

    # -- lean side
    def build_and_audit(self):
        # translator step: the Generated/*.lean files this property depends on are regenerated from /repo's current files
        try:
            import importlib.util

            def load(name):
                spec = importlib.util.spec_from_file_location(name, os.path.join(VERIF, "tools", name + ".py"))
                mod = importlib.util.module_from_spec(spec)
                spec.loader.exec_module(mod)
                return mod
            changed = []
            self.source_tie_unavailable = []

            def body_translator(fn):
                """the two translators of function BODIES work on a subset of Python: a function written outside that subset cannot be
                re-translated (that is not a broken proof - the definition to prove something about does not exist); the tie of those
                functions is then the hand-written model + correspondence alone, and the run says so"""
                try:
                    return fn()
                except Exception as e_:  # noqa
                    if type(e_).__name__ == "Untranslatable":
                        self.source_tie_unavailable.append(str(e_))
                        return None
                    raise
            if self.pid in ("C14", "C05", "C18", "C04"):
                t = load("gen_lean_tables")
                if self.pid == "C04":
                    changed += [t.gen_radius()]
                elif self.pid == "C14":
                    changed += [t.gen_vdist("alpha"), t.gen_vdist("beta")]
                elif self.pid == "C05":
                    changed += [t.gen_background()]
                    # the decision of get_default_metric_for_input_data (C05_source_default_metric)
                    changed += [body_translator(t.gen_default_metric)]
                else:
                    changed += [t.gen_constants()]
                    # which exceptions isvalidaa / isvalidcdr3 catch, which positions and letters isvalidcdr3 tests (C18_source_cdr3_*)
                    changed += [body_translator(t.gen_cdr3_rule)]
            if self.pid == "C09":
                # scopes and constructor defaults of the six TCR Levenshtein metric classes (C09_source_classes, _defaults)
                changed += [body_translator(load("gen_lean_tables").gen_tcr_classes)]
            if self.pid == "C20":
                changed += [load("gen_footprints").main()["changed"]]
            if self.pid in ("C12", "C03"):
                # loop functions of pyrepseq/distance.py re-translated into Lean list comprehensions (C12_source_*, C03_source_*)
                changed += [body_translator(load("gen_loops").main)]
            if self.pid == "C17":
                # powerlaw_sample and the closed forms of powerlaw_mle_alpha re-translated over the reals (C17_source_*)
                changed += [body_translator(load("gen_formulas").gen_real)]
                # downsample of one flat collection, NumPy's random.choice as a function parameter (C17_source_downsample*)
                changed += [body_translator(load("gen_formulas").gen_downsample)]
            if self.pid == "C13":
                # renyi2_entropy / stdrenyi2_entropy of pyrepseq/entropy.py re-translated over the reals, the statistics they call as
                # parameters (C13_source_*)
                changed += [body_translator(load("gen_formulas").gen_entropy)]
                # C13_source_entropies_of_sample composes them with the translated bodies of pc and stdpc
                changed += [body_translator(lambda: load("gen_formulas").gen_group("pc"))]
                changed += [body_translator(load("gen_formulas").gen_std)]
            if self.pid in ("C02", "C06", "C16"):
                # formulas of pyrepseq/stats.py re-translated into Lean definitions (Cxx_source_* prove they are the models)
                changed += [body_translator(lambda: load("gen_formulas").gen_group("pc" if self.pid != "C16" else "richness"))]
                if self.pid == "C06":
                    # stdpc_n re-translated over the reals, varpc_n inlined (C06_source_stdpc_n, C06_source_std_sq)
                    changed += [body_translator(load("gen_formulas").gen_std)]
            if any(changed):
                self.notes.append(f"Generated/*.lean rewritten from /repo: {changed}")
        except Exception as e:  # noqa
            self.broken_obligations.append(f"translator failed: {e!r}")
        ok, out = lake_build(targets=(f"Prs.Properties.{self.pid}", "driver"))
        if not ok:
            self.broken_obligations.append("lean-build")
            self.notes.append("lake build failed: " + out[-3000:])
            log(out[-3000:])
        banned = grep_banned()
        if banned:
            self.broken_obligations.append("banned-token: " + "; ".join(banned[:5]))
        thms, axioms, cmd, (rc, raw) = audit(self.pid)
        self.checker_cmd = cmd
        if getattr(self, "source_tie_unavailable", None):
            # the Generated file of this group is stale: its `_source_` theorems say nothing about the current source and are not counted
            stale = [t for t in thms if "_source_" in t]
            thms = [t for t in thms if "_source_" not in t]
            self.notes.append(f"SOURCE TIE UNAVAILABLE ({'; '.join(self.source_tie_unavailable)[:400]}): {len(stale)} theorems about the translated "
                              f"definitions are not counted ({', '.join(stale)[:600]}); decided by the hand-written model and the correspondence")
        self.obligations = len(thms)
        good = 0
        for t in thms:
            ax = axioms.get(t)
            if ax is None:
                self.broken_obligations.append(f"theorem {t}: not checked ({raw[-300:]})")
            elif not set(ax) <= ALLOWED_AXIOMS:
                self.broken_obligations.append(f"theorem {t}: axioms {ax}")
            else:
                good += 1
        self.discharged = good
        self.axioms = axioms
        if self.tier == "thorough" and ok:
            # independent re-check of the compiled property module by leanchecker
            try:
                pc = subprocess.run(["lake", "env", "leanchecker", f"Prs.Properties.{self.pid}"], cwd=LEAN, capture_output=True,
                                    text=True, timeout=3000)
                self.notes.append(f"leanchecker Prs.Properties.{self.pid}: exit {pc.returncode}")
                if pc.returncode != 0:
                    self.broken_obligations.append(f"leanchecker rejects Prs.Properties.{self.pid}: {(pc.stdout + pc.stderr)[-400:]}")
            except Exception as e:  # noqa
                self.notes.append(f"leanchecker not run: {e!r}")
        if self.obligations == 0:
            self.broken_obligations.append("no property theorem found")
        return ok and not self.broken_obligations

    # -- violations
    def violation(self, sig, what, replay_obj, no_input=False):
        """Record a property violation (genuine failing input unless no_input)."""
        for k in self.known:
            if k.get("status") == "known" and k.get("signature") == sig:
                if sig not in [h["sig"] for h in self.known_hits]:
                    self.known_hits.append({"sig": sig, "what": k.get("what", what)})
                return
        if any(v["sig"] == sig for v in self.violations):
            return
        name = re.sub(r"[^A-Za-z0-9_.-]+", "_", sig)[:80]
        path = os.path.join(VERIF, "replays", f"{self.pid}_{name}.json")
        replay_obj = dict(replay_obj)
        replay_obj.update({"property": self.pid, "signature": sig, "what": what, "seed": self.seed,
                           "tier": self.tier, "no_failing_input_found": bool(no_input)})
        with open(path, "w") as fh:
            json.dump(replay_obj, fh, indent=1, default=str, ensure_ascii=False)
        self.violations.append({"sig": sig, "what": what, "replay": path, "no_input": no_input})

    def skip_large(self, what, probe=None, budget_s=6.0):
        """the very large inputs are there to expose what small ones cannot; once a failing input (or a broken correspondence) is in
        hand they only cost time - a broken search can return almost every pair of 50 000 sequences. `probe` runs the same search on
        a few thousand sequences first: if that alone exceeds the budget (normally a fraction of a second), the large run would
        take hours; it is skipped with a note (speed is not part of any property)"""
        if [v for v in self.violations if not v["no_input"]] or self.broken_obligations:
            self.notes.append(f"{what} skipped: a failing input / broken correspondence had already been found")
            return True
        if probe is not None:
            t0 = time.time()
            try:
                probe()
            except Exception:  # noqa  (the large run itself will report it)
                return False
            dt = time.time() - t0
            if dt > budget_s:
                self.notes.append(f"{what} skipped: the same search on a few thousand sequences took {dt:.1f} s (budget {budget_s} s)")
                print(f"NOTE property={self.pid} {what} skipped: the search is too slow for it ({dt:.1f} s on a few thousand sequences)")
                return True
        return False

    def model_error(self, what):
        self.model_errors.append(what)

    # -- finish
    def finish(self):
        wall = time.time() - self.t0
        # broken obligations with no failing input: still a violation, named in the replay
        if self.broken_obligations and not [v for v in self.violations if not v["no_input"]]:
            self.violation("broken-obligation", "proof obligation / correspondence no longer checks: "
                           + " | ".join(self.broken_obligations)[:1500],
                           {"broken": self.broken_obligations, "notes": self.notes[-3:]}, no_input=True)
        cov = {
            "obligations": self.obligations,
            "discharged": self.discharged,
            "checker_cmd": self.checker_cmd or "cd lean && lake build Prs",
            "trusted_base": self.trusted_base,
            "evaluations": self.evaluations,
            "distinct_nontrivial": len(self.nontrivial),
            "rule": self.rule,
            "samples": self.samples or ["(no case generated)"],
            "input_distribution": self.hist,
            "exhaustive": self.exhaustive,
            "theorem_axioms": getattr(self, "axioms", {}),
            "broken_obligations": self.broken_obligations,
            "source_tie_unavailable": getattr(self, "source_tie_unavailable", []),
            "known_findings_hit": self.known_hits,
            "repo_fingerprint": repo_fingerprint(),
            "notes": self.notes[-10:],
        }
        ev = {"property_id": self.pid, "tier": self.tier, "seed": self.seed, "level": "proof",
              "coverage": cov, "assumptions": self.assumptions, "wall_s": round(wall, 2),
              "violations": len(self.violations)}
        # (runs against a deliberately patched /repo - tools/seeded.py, tools/mutscan.py - keep their evidence out of /verif/evidence)
        evdir = os.environ.get("VERIF_EVIDENCE_DIR") or os.path.join(VERIF, "evidence")
        os.makedirs(evdir, exist_ok=True)
        with open(os.path.join(evdir, f"{self.pid}.json"), "w") as fh:
            json.dump(ev, fh, indent=1, default=str, ensure_ascii=False)
        for h in self.known_hits:
            print(f"KNOWN-FINDING: property={self.pid} {h['what']}")
        if self.model_errors and not self.violations:
            for m in self.model_errors[:5]:
                print(f"MODEL-ERROR property={self.pid} {m}")
            return EXIT_INFRA
        for v in self.violations:
            rel = os.path.relpath(v["replay"], VERIF)
            tail = " no-failing-input-found" if v["no_input"] else ""
            print(f"VIOLATION property={self.pid} replay={rel}{tail}")
        if self.violations:
            return EXIT_VIOLATION
        for m_ in getattr(self, "source_tie_unavailable", []):
            print(f"SOURCE-TIE-UNAVAILABLE property={self.pid} {m_[:300]} (not re-translatable: decided by the hand-written model + correspondence)")
        print(f"OK property={self.pid} tier={self.tier} seed={self.seed} obligations={self.obligations} "
              f"discharged={self.discharged} evaluations={self.evaluations} "
              f"nontrivial={len(self.nontrivial)} wall={wall:.1f}s")
        return EXIT_OK


def load_known_findings(pid):
    path = os.path.join(VERIF, "known_findings.json")
    if not os.path.exists(path):
        return []
    data = json.load(open(path))
    return [k for k in data.get("findings", []) if k.get("property") == pid]


# ---------------------------------------------------------------- shrinking
def shrink_list(xs, fails, max_steps=400):
    """delta-debug a list: remove elements while `fails(xs)` stays true."""
    xs = list(xs)
    steps = 0
    n = 2
    while len(xs) >= 2 and steps < max_steps:
        size = max(1, len(xs) // n)
        removed = False
        for i in range(0, len(xs), size):
            cand = xs[:i] + xs[i + size:]
            steps += 1
            if cand and fails(cand):
                xs = cand
                n = max(n - 1, 2)
                removed = True
                break
        if not removed:
            if size == 1:
                break
            n = min(len(xs), n * 2)
    return xs


def shrink_strings(xs, fails, max_steps=300):
    """shorten strings character by character while still failing"""
    xs = list(xs)
    steps = 0
    changed = True
    while changed and steps < max_steps:
        changed = False
        for i, s in enumerate(xs):
            for p in range(len(s)):
                cand = xs[:i] + [s[:p] + s[p + 1:]] + xs[i + 1:]
                steps += 1
                if fails(cand):
                    xs = cand
                    changed = True
                    break
            if changed:
                break
    return xs
