"""./check entry point."""
import argparse
import importlib
import os
import sys
import traceback

from harness import core


def main():
    ap = argparse.ArgumentParser()
    ap.add_argument("pid")
    ap.add_argument("--tier", default=os.environ.get("VERIF_TIER", "quick"), choices=["quick", "thorough"])
    ap.add_argument("--replay", default=None)
    args = ap.parse_args()
    seed = int(os.environ.get("VERIF_SEED", "0"))
    pid = args.pid.upper()
    try:
        if pid in ("C14", "C20"):
            # vendored stand-in for the optional dependency pwseqdist (absent from the sandbox); must be
            # importable BEFORE pyrepseq.nn is imported
            sys.path.insert(0, os.path.join(core.VERIF, "harness", "standins"))
        core.assert_repo()
        mod = importlib.import_module(f"harness.props.{pid.lower()}")
        if args.replay:
            return mod.replay(args.replay)
        chk = core.Check(pid, args.tier, seed)
        mod.run(chk)
        return chk.finish()
    except core.InfraError as e:
        print(f"INFRA-ERROR property={pid} {e}")
        return core.EXIT_INFRA
    except Exception:
        traceback.print_exc()
        print(f"INFRA-ERROR property={pid} unexpected exception in harness")
        return core.EXIT_INFRA


if __name__ == "__main__":
    sys.exit(main())
