"""./check entry point."""
import argparse
import importlib
import os
import sys
import traceback

from harness import core


def main():
    ap = argparse.ArgumentParser()
    ap.add_argument("pid")
    ap.add_argument("--tier", default=os.environ.get("VERIF_TIER", "quick"), choices=["quick", "thorough"])
    ap.add_argument("--replay", default=None)
    args = ap.parse_args()
    seed = int(os.environ.get("VERIF_SEED", "0"))
    pid = args.pid.upper()
    try:
        if pid in ("C14", "C20"):
            # vendored stand-in for the optional dependency pwseqdist (absent from the sandbox); must be
            # importable BEFORE pyrepseq.nn is imported
            sys.path.insert(0, os.path.join(core.VERIF, "harness", "standins"))
        core.assert_repo()
        mod = importlib.import_module(f"harness.props.{pid.lower()}")
        if args.replay:
            return mod.replay(args.replay)
        chk = core.Check(pid, args.tier, seed)
        try:
            mod.run(chk)
        except core.InfraError:
            raise
        except Exception as e:  # noqa
            # an exception escaped from a call the harness makes unguarded. If it was raised inside pyrepseq it is the
            # implementation failing where the property needs an answer: a violation with the traceback as replay.  Violations
            # recorded before the abort are reported either way; only a failure of the harness itself with nothing found is exit 2.
            tb = traceback.extract_tb(e.__traceback__)
            root = os.path.realpath(os.path.join(core.REPO, "pyrepseq")) + os.sep
            frames = [f for f in tb if os.path.realpath(f.filename).startswith(root)]
            text = "".join(traceback.format_exception(type(e), e, e.__traceback__))[-3000:]
            if frames:
                last = frames[-1]
                chk.violation(f"{pid}|unexpected-exception|{type(e).__name__}|{os.path.basename(last.filename)}:{last.name}",
                              f"{type(e).__name__} raised inside pyrepseq ({os.path.basename(last.filename)}:{last.lineno} in {last.name}) "
                              f"during a call the property needs an answer from: {e}", {"traceback": text})
            if not [v for v in chk.violations if not v["no_input"]]:
                raise
            chk.notes.append("harness run aborted by an exception after the recorded violations: " + text[-600:])
        return chk.finish()
    except core.InfraError as e:
        print(f"INFRA-ERROR property={pid} {e}")
        return core.EXIT_INFRA
    except Exception:
        traceback.print_exc()
        print(f"INFRA-ERROR property={pid} unexpected exception in harness")
        return core.EXIT_INFRA


if __name__ == "__main__":
    sys.exit(main())
