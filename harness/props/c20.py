"""C20 — calls are pure: arguments stay untouched and results ignore call history."""
import json
import os
import subprocess
import sys
import warnings
from concurrent.futures import ThreadPoolExecutor

from harness import core

TRUSTED = [
    "Lean 4.33.0 kernel; axioms propext, Classical.choice, Quot.sound only (audited per theorem)",
    "tools/gen_footprints.py (ast pass over /repo/pyrepseq) is a static APPROXIMATION of Python's semantics: name-based call graph, "
    "no alias analysis; the theorems assume the functions' semantics respect the extracted footprints (Op.Respects)",
    "the dynamic history runs tie the footprints to the interpreter: argument / default-argument snapshots before and after every call, "
    "and every result compared with the same call executed alone in a fresh interpreter (same NumPy seed for randomised calls)",
    "pwseqdist is the vendored stand-in (see C14)",
]


def fresh_results(names):
    """each distinct call executed ALONE in a fresh interpreter (parallel subprocesses)"""
    worker = os.path.join(core.VERIF, "harness", "c20_calls.py")
    env = dict(os.environ, MPLBACKEND="Agg", PYTHONWARNINGS="ignore")

    def one(name):
        p = subprocess.run(["/venv/bin/python", worker, name], capture_output=True, text=True, timeout=600, env=env)
        for line in p.stdout.splitlines():
            if line.startswith("{"):
                return name, json.loads(line)["result"]
        return name, ["worker-failed", (p.stderr or p.stdout)[-300:]]
    with ThreadPoolExecutor(14) as ex:
        return dict(ex.map(one, names))


def run(chk):
    warnings.simplefilter("ignore")
    from harness import c20_calls as cc
    chk.trusted_base = TRUSTED
    chk.assumptions = ["deterministic calls are compared exactly (floats to 10 significant digits)", "randomised calls run under a fixed NumPy seed"]
    chk.rule = ("random histories (length 1-12) over a catalogue of ~75 public calls from every module with representative arguments, in all "
                "orders and repetitions, including calls that raise; before/after deep snapshots of every argument object and of the "
                "__defaults__/__kwdefaults__ of every public function; each result compared with the same call alone in a fresh process; "
                "non-trivial = distinct (history prefix, call) pair")
    ok_build = chk.build_and_audit()
    rng = chk.rng
    thorough = chk.tier == "thorough"
    C = cc.catalogue()
    names = sorted(C)
    fresh = fresh_results(names)
    bad_workers = [n for n, r in fresh.items() if r[0] == "worker-failed"]
    if bad_workers:
        raise core.InfraError(f"fresh-interpreter worker failed for {bad_workers[:3]}: {fresh[bad_workers[0]]}")
    defaults0 = cc.defaults_snapshot()
    n_hist = 40 if not thorough else 600
    histories = [[n] for n in names]                       # every call once, alone, in this (already used) interpreter
    # directed pairs: each clustermap variant before every other plotting call, kdtree variants interleaved
    plot = [n for n in names if n.startswith("plotting.")]
    for a in plot:
        for b in plot:
            if a != b and "clustermap" in a:
                histories.append([a, b])
    # every ordered pair of catalogue entries of the SAME function (options given in one call must not leak into the next)
    by_fn = {}
    for n in names:
        by_fn.setdefault(n.split("-")[0], []).append(n)
    directed = [[a, b] for grp in by_fn.values() for a in grp for b in grp if a != b]
    # a plotting call that leaves its figure open, followed by each plotting call that is made WITHOUT an axes argument
    if "plotting.rankfrequency-figure-left-open" in names:
        directed += [["plotting.rankfrequency-figure-left-open", b] for b in plot if b != "plotting.rankfrequency-figure-left-open"
                     and ("no-ax" in b or "clustermap" in b)]
    histories += directed
    kd = [n for n in names if "kdtree" in n]
    histories += [[a, b, a] for a in kd for b in kd if a != b]
    for _ in range(n_hist):
        histories.append([rng.choice(names) for _ in range(rng.randint(2, 12))])
    if not thorough:
        # keep the quick tier within its time budget
        head = histories[: len(names)]
        rest = [h for h in histories[len(names):] if h not in directed]
        rng.shuffle(rest)
        histories = head + directed + rest[:70]
    for h in histories:
        for k, name in enumerate(h):
            res, before, after = cc.run_call(C, name)
            chk.case(sample={"history": h[: k + 1]} if chk.evaluations % 150 == 0 else None,
                     nontrivial_key=(tuple(h[:k]), name) if k > 0 else ("alone", name))
            chk.count("call:" + name.split(".")[0])
            if before != after:
                chk.violation(f"C20|{name}|mutates-argument", f"{name} modified an object passed by the caller",
                              {"history": h[: k + 1], "call": name, "before": str(before)[:1500], "after": str(after)[:1500]})
            d1 = cc.defaults_snapshot()
            if d1 != defaults0:
                changed = sorted(q for q in d1 if d1[q] != defaults0.get(q))
                chk.violation(f"C20|{changed[0] if changed else name}|default-argument-modified",
                              f"after calling {name} the default arguments of {changed} differ from their initial value",
                              {"history": h[: k + 1], "call": name, "changed": changed,
                               "now": str([d1[q] for q in changed])[:1500], "initial": str([defaults0[q] for q in changed])[:1500]})
                # continue with the new baseline so that one mutation is reported once per site
                defaults0 = d1
            if res != fresh[name]:
                chk.violation(f"C20|{name}|history-dependent-result",
                              f"{name} returned a different value after the history {h[:k]} than alone in a fresh interpreter",
                              {"history": h[: k + 1], "call": name, "in_history": str(res)[:1500], "fresh": str(fresh[name])[:1500]})
    # randomised calls: same seed, same value (twice in a row, other calls in between)
    for name in names:
        if C[name][2]:
            r1 = cc.run_call(C, name)[0]
            cc.run_call(C, rng.choice(names))
            r2 = cc.run_call(C, name)[0]
            chk.case(nontrivial_key=("seeded", name))
            if r1 != r2:
                chk.violation(f"C20|{name}|seed-not-respected", f"{name} gives different values for the same NumPy seed", {"call": name})


def replay(path):
    r = json.load(open(path))
    print(json.dumps(r, indent=1)[:3000])
    if "history" in r:
        from harness import c20_calls as cc
        C = cc.catalogue()
        d0 = cc.defaults_snapshot()
        last = None
        for name in r["history"]:
            last = cc.run_call(C, name)
        fresh = fresh_results([r["history"][-1]])[r["history"][-1]]
        ok = last[0] == fresh and last[1] == last[2] and cc.defaults_snapshot() == d0
        print("in history:", str(last[0])[:300])
        print("fresh     :", str(fresh)[:300])
        print("verdict:", "holds" if ok else "VIOLATES")
        return 0 if ok else 1
    return 0
