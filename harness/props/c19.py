"""C19 — summaries and plots encode the data faithfully."""
import itertools
import json
import math
import re
import warnings
from fractions import Fraction

import numpy as np
import pandas as pd

from harness import core, gen

TRUSTED = [
    "Lean 4.33.0 kernel; axioms propext, Classical.choice, Quot.sound only (audited per theorem)",
    "logomaker.alignment_to_matrix is external: modelled by per-position residue counting with '-' as the gap character",
    "matplotlib / seaborn rendering is external: figures are rendered headless (Agg) and the drawn data are read back from the "
    "artist objects (Line2D.get_xydata, scatter offsets / colour array, ClusterGrid.data2d, dendrogram order)",
    "Python's re engine is external: the generated expression is parsed back into items and also run through re.fullmatch on the "
    "whole product language and its one-edit neighbourhood",
]


def parse_regex(rx):
    """the fragment produced by seqs_to_regex: char | [class], each optionally followed by ?"""
    items, i = [], 0
    while i < len(rx):
        if rx[i] == "[":
            j = rx.index("]", i)
            chars = rx[i + 1:j]
            i = j + 1
        else:
            chars = rx[i]
            i += 1
        opt = i < len(rx) and rx[i] == "?"
        if opt:
            i += 1
        items.append({"chars": chars, "optional": opt})
    return items


def run(chk):
    import matplotlib
    matplotlib.use("Agg")
    import matplotlib.pyplot as plt
    import seaborn as sns
    import scipy.cluster.hierarchy as hc
    from scipy.spatial.distance import squareform
    from Levenshtein import distance as levd
    from pyrepseq import plotting as pl, util
    warnings.simplefilter("ignore")
    chk.trusted_base = TRUSTED
    chk.assumptions = ["equal-length sequences, every column holds at least one residue", "gap character '-' ('.' and 'X' are also ignored by logomaker and are not generated)"]
    chk.rule = ("equal-length sequence lists over small alphabets, with and without gap columns; count vectors with missing values x "
                "normalisation/scale flags; label vectors x min_count; discrete point clouds; paired / single chain tables with arbitrary "
                "index; non-trivial = distinct case")
    chk.build_and_audit()
    rng = chk.rng
    thorough = chk.tier == "thorough"

    # ---- regex / consensus / count matrix
    ops, metas = [], []
    alignments = [["AC-", "ADC", "A-C"], ["ACD", "ADD", "CCD"], ["A"], ["AC", "AC"], ["A-", "AC"], ["CAS-F", "CASSF", "CA-SF", "CQSSW"]]
    for _ in range(30 if not thorough else 300):
        L = rng.randint(1, 5)
        n = rng.randint(1, 6)
        alpha = rng.choice(["AC", "ACD", "ACDEF"])
        seqs = ["".join(rng.choice(alpha) for _ in range(L)) for _ in range(n)]
        if rng.random() < 0.5:
            rate = rng.choice([0.2, 0.6])           # 0.6: columns where gaps are the majority (dropped from the consensus)
            seqs = ["".join(c if rng.random() > rate else "-" for c in s) for s in seqs]
            for i in range(L):                     # every column keeps at least one residue
                if all(s[i] == "-" for s in seqs):
                    seqs[0] = seqs[0][:i] + rng.choice(alpha) + seqs[0][i + 1:]
        alignments.append(seqs)
    # a fully degenerate site: all 20 amino acids observed in one column (also 21 symbols, also with a gap) - the site still accepts
    # exactly the observed symbols
    from harness.gen import AA as _AA20
    # 6 - 12 ungapped sequences with three or four residues per site in uneven proportions (a site is optional only if a sequence has a gap there)
    for n_a in (6, 7, 9, 10, 12, 6, 7, 9, 10, 12, 7, 9):
        cols_ = [[rng.choice("ACDE"[:rng.choice([3, 4])]) for _ in range(n_a)] for _ in range(rng.randint(3, 5))]
        alignments.append(["".join(c_[i_] for c_ in cols_) for i_ in range(n_a)])
    # gaps written '.' (IMGT style) or mixed '-' / '.': both are gap symbols of the alignment
    alignments += [["CAS.F", "CASSF", "C.TSY"], ["AC.", "ADC", "A-C"], ["A.", "AC"]]
    alignments += [["C" + a + "F" for a in _AA20], ["C" + a + "F" for a in _AA20 + "X"] + ["C-F"], [a + "W" for a in _AA20[:19]] + ["-W"]]
    for seqs in alignments:
        dotted_gaps = any("." in s_ for s_ in seqs)
        order = "".join(sorted(set("".join(seqs)) - {"-", "."}))
        rx = core.call_real(lambda: util.seqs_to_regex(seqs, align=False))
        cons = core.call_real(lambda: util.seqs_to_consensus(seqs, align=False))
        plt.close("all")
        cm = core.call_real(lambda: pl.seqlogos(seqs)[1] if len(set(map(len, seqs))) == 1 else None)
        plt.close("all")
        if len(set(map(len, seqs))) == 1:
            if cm[0] != "ok":
                chk.violation(f"C19|seqlogos|raises-{cm[1]}", f"seqlogos raised {cm[1]} on equal-length sequences (no alignment is needed)", {"seqs": seqs})
            # with an axes object handed in: drawn there, same count matrix
            fig_l, ax_l = plt.subplots()
            cm2 = core.call_real(lambda: pl.seqlogos(seqs, ax_l))
            if cm2[0] != "ok" or cm2[1][0] is not ax_l or (cm[0] == "ok" and not cm2[1][1].equals(cm[1])):
                chk.violation("C19|seqlogos|given-axes", f"seqlogos(seqs, ax) does not draw on the given axes / returns another count matrix: {str(cm2)[:120]}", {"seqs": seqs})
            plt.close("all")
        mseqs = [s_.replace(".", "-") for s_ in seqs]        # (the model writes every gap '-')
        ops += [{"op": "seqs_to_regex", "order": order, "seqs": mseqs}, {"op": "seqs_to_consensus", "order": order, "seqs": mseqs},
                {"op": "count_matrix", "order": order, "seqs": mseqs}]
        metas.append((mseqs, order, rx, cons, cm))
    ans = core.run_driver_parallel(ops)
    match_ops, match_meta = [], []
    for k, (seqs, order, rx, cons, cm) in enumerate(metas):
        a_rx, a_cons, a_cm = ans[3 * k], ans[3 * k + 1], ans[3 * k + 2]
        meta = {"seqs": seqs}
        chk.case(sample=meta if k % 10 == 0 else None, nontrivial_key=("align", tuple(seqs)))
        chk.count("regex/consensus/counts")
        if rx[0] != "ok":
            chk.violation(f"C19|seqs_to_regex|raises-{rx[1]}", "seqs_to_regex raised", meta)
        else:
            items = parse_regex(rx[1])
            if items != a_rx[1]:
                chk.violation("C19|seqs_to_regex|differs", f"seqs_to_regex = {rx[1]!r} is not [observed residues per position, optional iff the "
                              f"column has a gap]: model {a_rx[1]}", meta)
            cre = re.compile(rx[1])
            for s in seqs:
                if not cre.fullmatch(s.replace("-", "")):
                    chk.violation("C19|seqs_to_regex|input-not-matched", f"{rx[1]!r} does not fully match the input {s!r}", meta)
            # language: product of observed residues (gap columns optional) and its one-edit neighbourhood
            L = len(seqs[0])
            choices = []
            for i in range(L):
                col = sorted(set(s[i] for s in seqs))
                choices.append([c if c != "-" else "" for c in col])
            lang = set("".join(p) for p in itertools.islice(itertools.product(*choices), 400))
            probe = set(lang)
            for w in list(lang)[:40]:
                for i in range(len(w) + 1):
                    probe.add(w[:i] + w[i + 1:])
                    for c in order[:3] + "Qx":
                        probe.add(w[:i] + c + w[i:])
                        probe.add(w[:i] + c + w[i + 1:])
            for w in sorted(probe)[:300]:
                match_ops.append({"op": "full_match", "items": a_rx[1], "w": w})
                match_meta.append((seqs, rx[1], w, bool(cre.fullmatch(w)), w in lang, len(lang) < 400))
        if cons[0] != "ok" or cons[1] != a_cons[1]:
            chk.violation("C19|seqs_to_consensus|differs", f"seqs_to_consensus = {cons} but a most frequent residue per kept position is {a_cons[1]!r}", meta)
        if cm[0] == "ok" and cm[1] is not None:
            got = [[int(cm[1].iloc[i][c]) if c in cm[1].columns else 0 for c in order] for i in range(len(cm[1]))]
            if got != a_cm[1] or list(cm[1].columns) != list(order):
                chk.violation("C19|seqlogos|count-matrix", "the count matrix returned by seqlogos is not the per-position per-residue count", {**meta, "real": got, "model": a_cm[1]})
    for (seqs, rx, w, real_m, in_lang, complete), a in zip(match_meta, core.run_driver_parallel(match_ops)):
        chk.evaluations += 1
        if a[1] != real_m:
            chk.violation("C19|seqs_to_regex|language-vs-model", f"re.fullmatch({rx!r}, {w!r}) = {real_m} but the model matcher says {a[1]}", {"seqs": seqs, "w": w})
        elif complete and real_m != in_lang:
            chk.violation("C19|seqs_to_regex|language", f"{rx!r} {'accepts' if real_m else 'rejects'} {w!r}, which is {'not ' if not in_lang else ''}"
                          "built from residues observed at each position", {"seqs": seqs, "w": w})

    # ---- rankfrequency
    ops, metas = [], []
    for it_rf in range(25 if not thorough else 250):
        data = [rng.choice([1, 2, 3, 5, 8, 13, 40, None, 0]) for _ in range(rng.randint(1, 12))]
        forced_uint = it_rf < 4          # every run: unsigned count vectors with zeros, drawn as sizes (not frequencies)
        if forced_uint:
            data = [rng.choice([0, 0, 1, 2, 3, 7, 40]) for _ in range(rng.randint(3, 9))] + [0, 5]
        if all(d is None or d == 0 for d in data):
            data[0] = 4
        nx, ny = rng.random() < 0.5 and not forced_uint, rng.random() < 0.5
        forced_nan = it_rf in (4, 5, 6, 7)       # every run: missing values together with each combination of the two normalisations
        if forced_nan:
            data = [rng.choice([1, 2, 3, 5, 8, 13]) for _ in range(rng.randint(3, 8))] + [None, 4, None]
            nx, ny = bool((it_rf - 4) & 1), bool((it_rf - 4) & 2)
        sx, sy = rng.choice([1.0, 2.0, 0.5]), rng.choice([1.0, 3.0])
        lx, ly = rng.random() < 0.5, rng.random() < 0.5
        tx, ty = rng.choice([None, "plus1", "double"]), rng.choice([None, "plus1", "double"])
        tf = {None: None, "plus1": (lambda v: v + 1), "double": (lambda v: v * 2)}
        own_ax = rng.random() < 0.7
        fig, ax = plt.subplots()
        other_fig, other_ax = (None, None)
        if own_ax:
            other_fig, other_ax = plt.subplots()       # the current axes are NOT the ones passed in
        arr = [float("nan") if d is None else d for d in data]
        if rng.random() < 0.3:
            arr = pd.Series(arr, index=rng.sample(range(50), len(arr)))
        elif all(d is not None for d in data) and (forced_uint or rng.random() < 0.6):
            # count vectors as NumPy integer arrays of any width, signed or unsigned (zeros included)
            arr = np.array(data, dtype=rng.choice([np.uint8, np.uint16, np.uint32, np.uint64] + ([] if forced_uint else [np.int8, np.int64])))
        kw = dict(normalize_x=nx, normalize_y=ny, scalex=sx, scaley=sy, log_x=lx, log_y=ly, transform_x=tf[tx], transform_y=tf[ty])
        if rng.random() < 0.3 and not forced_uint and not forced_nan:      # defaults: normalize_x, not normalize_y, both axes logarithmic
            for k_ in ("normalize_x", "normalize_y", "log_x", "log_y"):
                del kw[k_]
            nx, ny, lx, ly = True, False, True, True
        def draw():
            lines = pl.rankfrequency(arr, ax=ax, **kw) if own_ax else pl.rankfrequency(arr, **kw)
            return (lines[0].get_xydata().tolist(), lines[0].axes is ax, ax.get_xscale(), ax.get_yscale(), ax.get_xlabel(), ax.get_ylabel(),
                    len(ax.lines), 0 if other_ax is None else len(other_ax.lines))
        real = core.call_real(draw)
        plt.close("all")
        ops.append({"op": "rank_frequency", "normalize": nx, "data": [None if d is None else str(d) for d in data]})
        metas.append((data, nx, ny, sx, sy, lx, ly, tx, ty, own_ax, real))
    for (data, nx, ny, sx, sy, lx, ly, tx, ty, own_ax, real), a in zip(metas, core.run_driver_parallel(ops)):
        meta = {"data": data, "normalize_x": nx, "normalize_y": ny, "scalex": sx, "scaley": sy, "log_x": lx, "log_y": ly,
                "transform_x": tx, "transform_y": ty, "ax_passed": own_ax}
        chk.case(nontrivial_key=("rank", json.dumps(meta)))
        chk.count("rankfrequency")
        n = len(a[1])
        tfq = {None: (lambda v: v), "plus1": (lambda v: v + 1), "double": (lambda v: v * 2)}
        want = [[tfq[tx](float(Fraction(v)) * sx), tfq[ty](sy * r / (n if ny else 1))] for v, r in a[1]]
        ok = real[0] == "ok" and len(real[1][0]) == n and all(abs(p[0] - q[0]) <= 1e-12 * max(1, abs(q[0])) and abs(p[1] - q[1]) <= 1e-12 * max(1, abs(q[1]))
                                                             for p, q in zip(real[1][0], want))
        if not ok:
            chk.violation("C19|rankfrequency|differs", "rankfrequency does not draw each non-missing value (as a frequency when normalised) "
                          "in descending order against its 0-based rank (scaled, then transformed)", {**meta, "real": str(real)[:800], "model": want})
            continue
        _, on_ax, xs_, ys_, xl, yl, n_lines, n_other = real[1]
        if not on_ax or n_lines != 1 or n_other != 0:
            chk.violation("C19|rankfrequency|axes", "rankfrequency does not draw exactly one line on the axes it was given (or on the current axes)", meta)
        if (xs_ == "log") != lx or (ys_ == "log") != ly:
            chk.violation("C19|rankfrequency|scale", f"axis scales ({xs_}, {ys_}) do not follow log_x={lx}, log_y={ly}", meta)
        if xl != ("Clone frequency" if nx else "Clone size") or (not ny and yl != "Clone size rank"):
            chk.violation("C19|rankfrequency|labels", f"axis labels ({xl!r}, {yl!r}) do not describe what is drawn (normalize_x={nx}, normalize_y={ny})", meta)

    # ---- label colours
    for _ in range(30 if not thorough else 300):
        labels = [rng.choice(["a", "b", "c", "dd", "e"][:rng.randint(1, 5)]) for _ in range(rng.randint(1, 12))]
        mc = rng.choice([None, 1, 2, 3])
        if _ % 10 == 9:
            # more distinct labels than the 20 colours of the tableau palette (colours repeat; nothing that is frequent enough turns black)
            nl = rng.randint(21, 30)
            labels = [f"c{j_}" for j_ in range(nl)] * 2 + [f"c{rng.randrange(nl)}" for _i in range(5)] + ["rare"]
            rng.shuffle(labels)
            mc = rng.choice([None, 2])
        seed = rng.randrange(2 ** 31)
        for fn in ("hls", "tableau"):
            np.random.seed(seed)
            real = core.call_real(lambda: (pl.labels_to_colors_hls if fn == "hls" else pl.labels_to_colors_tableau)(labels, min_count=mc))
            lab, cnt = np.unique(labels, return_counts=True)
            if mc is not None:
                lab = lab[cnt >= mc]
            np.random.seed(seed)
            np.random.shuffle(lab)
            if fn == "hls":
                palette = [tuple(float(x) for x in c) for c in sns.hls_palette(len(lab), l=0.5, s=0.8)]
            else:
                c = list(plt.cm.tab20.colors[::2]) + list(plt.cm.tab20.colors[1::2])
                palette = [tuple(c[i % len(c)]) for i in range(len(lab))]
            distinct_palette = []
            for c in palette:
                if c not in distinct_palette:
                    distinct_palette.append(c)
            a = core.run_driver([{"op": "labels_to_colors", "labels": labels, "shuffled": [str(x) for x in lab],
                                  "palette": [distinct_palette.index(c) for c in palette], **({} if mc is None else {"min_count": mc})}])[0]
            meta = {"labels": labels, "min_count": mc, "fn": fn}
            chk.case(nontrivial_key=("colors", fn, tuple(labels), mc))
            chk.count(f"labels_to_colors_{fn}")
            if real[0] != "ok":
                chk.violation(f"C19|labels_to_colors_{fn}|raises-{real[1]}", "labels_to_colors raised", meta)
                continue
            got = [tuple(float(x) for x in c) for c in real[1]]
            want = [(0.0, 0.0, 0.0) if i is None else distinct_palette[i] for i in a[1]]
            if got != want:
                chk.violation(f"C19|labels_to_colors_{fn}|differs", "colours are not the label -> colour lookup (equal labels equal colours, rare labels black)",
                              {**meta, "real": str(got)[:600], "model": str(want)[:600]})
            if fn == "hls":
                kept = {l: c for l, c in zip(labels, got) if c != (0.0, 0.0, 0.0)}
                if len(set(kept.values())) != len(kept):
                    chk.violation("C19|labels_to_colors_hls|not-distinct", "distinct labels received the same hls colour", meta)

    # ---- density_scatter, discrete
    for _ in range(15 if not thorough else 150):
        n = rng.randint(1, 15)
        grid = rng.choice(["nonneg", "signed", "half"])
        coord = (lambda: rng.randint(0, 3)) if grid == "nonneg" else ((lambda: rng.randint(-3, 3)) if grid == "signed" else (lambda: rng.randint(-4, 6) / 2))
        x = [coord() for _ in range(n)]
        y = [coord() for _ in range(n)]
        if _ % 5 == 4:
            # float data holding both signs of zero (np.round(-0.04, 1), -1.0 * 0.0): 0.0 and -0.0 are ONE coordinate
            x = [0.0, -0.0, 0.0, 1.0, -0.0, 1.0] + [float(v) for v in x[:3]]
            y = [-0.0, 0.0, 0.0, 1.0, -0.0, -0.0] + [float(v) for v in y[:3]]
            n = len(x)
        fig, ax = plt.subplots()
        do_sort = rng.random() < 0.7
        dkw = {} if do_sort and rng.random() < 0.5 else {"sort": do_sort}
        if rng.random() < 0.3:
            dkw["cbar"] = True
        if rng.random() < 0.3:
            dkw["s"] = 7
        xin, yin = (np.array(x), pd.Series(y, index=rng.sample(range(40), n))) if rng.random() < 0.4 else (x, y)
        if rng.random() < 0.3:
            # no axes given: the current axes (the ones just created) are drawn on and returned
            real = core.call_real(lambda: pl.density_scatter(xin, yin, discrete=True, **dkw))
            if real[0] == "ok" and real[1] is not ax:
                chk.violation("C19|density_scatter|current-axes", "density_scatter without ax does not draw on / return the current axes", {"x": x, "y": y})
        else:
            real = core.call_real(lambda: pl.density_scatter(xin, yin, ax=ax, discrete=True, **dkw))
        chk.case(nontrivial_key=("scatter", tuple(x), tuple(y)))
        chk.count("density_scatter")
        if real[0] != "ok":
            chk.violation(f"C19|density_scatter|raises-{real[1]}", "density_scatter raised", {"x": x, "y": y})
        elif not ax.collections:
            chk.violation("C19|density_scatter|nothing-drawn", "discrete density_scatter returned without drawing a scatter collection on the axes", {"x": x, "y": y, "kwargs": str(dkw)})
        else:
            sc = ax.collections[0]
            pts = [tuple(float(v) for v in p) for p in sc.get_offsets().tolist()]
            cols = [int(v) for v in np.asarray(sc.get_array()).tolist()]
            from collections import Counter
            cnt = Counter((float(a), float(b)) for a, b in zip(x, y))
            a = core.run_driver([{"op": "density_scatter", "sort": do_sort, "x": [str(Fraction(v)) for v in x], "y": [str(Fraction(v)) for v in y]}])[0]
            want = [((float(Fraction(px)), float(Fraction(py))), int(c)) for px, py, c in a[1]]
            if sorted(pts) != sorted(cnt) or len(pts) != len(set(pts)) or any(cnt[p] != c for p, c in zip(pts, cols)) or (do_sort and cols != sorted(cols)):
                chk.violation("C19|density_scatter|differs", "discrete density_scatter does not draw each distinct point once, coloured by its multiplicity", {"x": x, "y": y, "kwargs": str(dkw)})
            elif sorted(zip(pts, cols)) != sorted(want):
                # (NumPy's argsort is not stable, so the order among equally dense points is not compared: C19_density_* state a permutation)
                chk.violation("C19|density_scatter|vs-model", "discrete density_scatter does not draw the modelled (point, multiplicity) pairs",
                              {"x": x, "y": y, "kwargs": str(dkw), "real": str(list(zip(pts, cols))), "model": str(want)})
            if "s" in dkw and list(np.asarray(sc.get_sizes()).tolist()) != [7.0]:
                chk.violation("C19|density_scatter|kwargs", "extra keyword arguments are not passed on to Axes.scatter", {"x": x, "y": y})
        plt.close(fig)

    # ---- similarity_clustermap: linkage/clusters as hierarchical clustering of the summed chain distances; split heat map
    n_maps = 6 if not thorough else 30
    for t in range(n_maps):
        n = rng.randint(3, 9)
        roots = ["CAVRD", "CASSLG", "CQQ"]
        al = [gen.mutate(rng, rng.choice(roots), "ACDEQ", rng.randint(0, 2)) or "C" for _ in range(n)]
        be = [gen.mutate(rng, rng.choice(roots), "ACDEQ", rng.randint(0, 2)) or "C" for _ in range(n)]
        if t == 5:
            # every run: chains whose content "shifts" across the pair (the summed chain distance is NOT the edit distance of a joined string)
            al = ["CQQQ", "C", "CQQQ", "CAVRD", "CAVR"]
            be = ["C", "QQQC", "CW", "CASS", "DCASS"]
            n = 5
        if t == 1:
            al, be, n = ["CAVRD", "CAVRE", "CASSLG", "CQQ", "CQQA"], ["CASSLG", "CASSLG", "CQQ", "CAVRD", "CAVRDEE"], 5
        metav = [rng.choice("xy") for _ in range(n)]
        ca, cb = rng.choice([("cdr3a", "cdr3b"), ("alpha_seq", "second"), ("A", "B"), (0, 1), (1, 0)]) if t >= 2 else ((0, 1), (1, 0))[t]
        df = pd.DataFrame({ca: al, cb: be, "meta": metav, "other": [rng.choice("pq") for _ in range(n)]}, index=rng.sample(range(100), n))
        single = rng.choice([None, None, "alpha", "beta"]) if isinstance(ca, str) else None      # (integer column labels: paired form only)
        if t in (2, 3):
            single = ("alpha", "beta")[t - 2]       # every run: both single-chain forms
            if isinstance(ca, int):
                df = df.rename(columns={ca: "cdr3a", cb: "cdr3b"})
                ca, cb = "cdr3a", "cdr3b"
        kws = {}
        if (ca, cb) != ("cdr3a", "cdr3b") or single:
            kws = dict(alpha_column=ca, beta_column=cb)
        if single == "alpha":
            kws["beta_column"] = None
        elif single == "beta":
            kws["alpha_column"] = None
        red_blue = lambda s_: [(1.0, 0.0, 0.0) if v == "x" else (0.0, 0.0, 1.0) for v in s_]  # noqa: E731
        meta_mode = rng.choice([None, "list", "dict", "mapper"])
        if meta_mode == "list":
            kws["meta_columns"] = ["meta"]
        elif meta_mode == "dict":
            kws["meta_columns"] = {"meta": "Shown name"}
        elif meta_mode == "mapper":
            kws["meta_columns"] = ["meta"]
            kws["meta_to_colors"] = [pl.labels_to_colors_hls, red_blue]
        method, tcut, crit = "average", 6, "distance"
        if rng.random() < 0.5 and t not in (0, 4):       # (maps 0 and 4 of every run use the documented default linkage / cluster options)
            method = rng.choice(["single", "complete", "average"])
            kws["linkage_kws"] = dict(method=method)
        if rng.random() < 0.5 and t not in (0, 4):
            tcut, crit = rng.choice([(2, "distance"), (3, "distance"), (2, "maxclust"), (4, "distance")])
            kws["cluster_kws"] = dict(t=tcut, criterion=crit)
        if t == 1:
            # every run: PARTIAL option dicts - what the caller gives replaces the documented default dict as a whole
            # (SciPy's own defaults apply to what is left out: no optimal ordering, criterion "inconsistent")
            method = "complete"
            kws["linkage_kws"] = dict(method="complete")
            kws["cluster_kws"] = dict(t=0.9)
            tcut, crit = 0.9, "inconsistent"
        real = core.call_real(lambda: pl.similarity_clustermap(df, **kws))
        meta = {"alpha": al, "beta": be, "single": single, "kwargs": {k: str(v) for k, v in kws.items()}}
        chk.case(sample=meta if t == 0 else None, nontrivial_key=("clustermap", tuple(al), tuple(be), single))
        chk.count("similarity_clustermap")
        if real[0] != "ok":
            chk.violation(f"C19|similarity_clustermap|raises-{real[1]}", "similarity_clustermap raised", meta)
            plt.close("all")
            continue
        cg, link, clus = real[1]
        da = np.array([levd(al[i], al[j]) for i in range(n) for j in range(i + 1, n)], dtype=float)
        db = np.array([levd(be[i], be[j]) for i in range(n) for j in range(i + 1, n)], dtype=float)
        dist = da if single == "alpha" else (db if single == "beta" else da + db)
        wl = hc.linkage(dist, **(kws["linkage_kws"] if "linkage_kws" in kws else dict(method="average", optimal_ordering=True)))
        wc = hc.fcluster(wl, t=tcut, criterion=crit)
        if not np.allclose(link, wl) or list(clus) != list(wc):
            chk.violation("C19|similarity_clustermap|linkage", "similarity_clustermap does not return the linkage / clusters of hierarchical "
                          "clustering of the summed chain distances (with the linkage / cluster options given)", meta)
        if getattr(cg, "dendrogram_row", None) is None or getattr(cg, "dendrogram_col", None) is None:
            chk.violation("C19|similarity_clustermap|no-dendrogram", "the cluster map was drawn without row / column dendrograms: the heat map cannot be in "
                          "dendrogram order", meta)
            plt.close("all")
            continue
        ind = [int(i) for i in cg.dendrogram_row.reordered_ind]
        if ind != [int(i) for i in hc.dendrogram(wl, no_plot=True)["leaves"]]:
            chk.violation("C19|similarity_clustermap|dendrogram-order", "the heat map is not ordered by the dendrogram of the returned linkage", meta)
        lower = squareform(dist if single else da).astype(int).tolist()
        upper = squareform(dist if single else db).astype(int).tolist()
        a = core.run_driver([{"op": "split_matrix", "lower": lower, "upper": upper, "ind": ind}])[0]
        got = np.asarray(cg.data2d).astype(int).tolist()
        meshes = [c_ for c_ in cg.ax_heatmap.collections if hasattr(c_, "get_array") and c_.get_array() is not None]
        drawn = np.asarray(meshes[0].get_array()).reshape(n, n).astype(int).tolist() if meshes and np.asarray(meshes[0].get_array()).size == n * n else None
        if drawn != a[1]:
            chk.violation("C19|similarity_clustermap|heatmap-drawn", "the heat map drawn on ax_heatmap (its QuadMesh) does not show alpha distances below and beta "
                          "distances above the diagonal in dendrogram order", {**meta, "ind": ind, "drawn": drawn, "model": a[1]})
        if got != a[1]:
            chk.violation("C19|similarity_clustermap|heatmap", "the heat map does not show alpha distances below and beta distances above the "
                          "diagonal in dendrogram order", {**meta, "ind": ind, "real": got, "model": a[1]})
        # colour bars: clusters (>= 2 members share one non-black colour, distinct between clusters; singletons black), then metadata per ROW
        raw = list(cg.row_colors)
        if raw and not hasattr(raw[0][0], "__len__"):      # a single colour bar comes back as a flat list of colours
            raw = [raw]
        rc = [[tuple(round(float(v), 9) for v in c[:3]) for c in col] for col in raw]
        from collections import Counter
        sizes = Counter(int(c) for c in clus)
        black = (0.0, 0.0, 0.0)
        by_cluster = {}
        okc = len(rc) == (1 if meta_mode is None else 2) and len(rc[0]) == n
        for c, col in zip(clus, rc[0] if okc else []):
            if sizes[int(c)] < 2:
                okc = okc and col == black
            else:
                okc = okc and col != black and by_cluster.setdefault(int(c), col) == col
        okc = okc and len(set(by_cluster.values())) == len(by_cluster)
        if not okc:
            chk.violation("C19|similarity_clustermap|cluster-colours", "the cluster colour bar does not give equal clusters equal colours, "
                          "distinct clusters distinct colours and singleton clusters black, row by row", {**meta, "clusters": [int(c) for c in clus], "colours": str(rc[:1])})
        if meta_mode is not None and len(rc) == 2:
            lab = list(cg.row_color_labels)
            if lab != ["Cluster", "Shown name" if meta_mode == "dict" else "meta"]:
                chk.violation("C19|similarity_clustermap|colour-labels", f"colour bars are labelled {lab}", meta)
            col_of = {}
            okm = all(col_of.setdefault(v, col) == col for v, col in zip(metav, rc[1])) and len(set(col_of.values())) == len(col_of)
            if meta_mode == "mapper":
                okm = okm and rc[1] == red_blue(metav)
            if not okm:
                chk.violation("C19|similarity_clustermap|meta-colours", "the metadata colour bar does not colour each row by its own metadata value",
                              {**meta, "meta": metav, "colours": str(rc[1])})
        plt.close("all")


def replay(path):
    r = json.load(open(path))
    print(json.dumps(r, indent=1)[:3000])
    return 0
