"""C04 — hash_based and kdtree equal the default search."""
import json
import os

import numpy as np

from harness import core, gen, search
from harness.gen import AA

TRUSTED = [
    "Lean 4.33.0 kernel; axioms propext, Classical.choice, Quot.sound only (audited per theorem)",
    "rapidfuzz Levenshtein.distance / process.extract(score_cutoff) modelled by `lev` and the filter lev <= k",
    "SciPy KDTree.query_ball_point(r = np.sqrt(2) * k) modelled by the integer predicate sqdist <= 2k^2; the FLOAT radius is "
    "not covered by a theorem: validated on boundary constellations by the kd_ball operation on every run (PARTIAL clause)",
    "correspondence check (harness + compiled driver): differential, bounded by its generators",
]


def kd_ball_cases(chk, nn, kmax):
    """real _histogram_encode + scipy KDTree exactly as _kdtree_leven does, on boundary constellations,
    against the integer predicate"""
    from scipy.spatial import KDTree
    rng = chk.rng
    bad = None
    n = 0
    for k in range(1, kmax + 1):
        # A^k G vs C^k G: k substitutions of one letter by another: squared distance exactly 2k^2
        pairs = [("A" * k + "G", "C" * k + "G"), ("A" * k, "Y" * k), ("A" * k + "C" * k, "C" * k + "A" * k)]
        if k <= 40:
            # mixed +-: k1 letters A->C and k2 letters D->E with k1 + k2 = k
            k1 = rng.randint(0, k)
            pairs.append(("A" * k1 + "D" * (k - k1), "C" * k1 + "E" * (k - k1)))
            pairs.append(("A" * k, ""))                   # k deletions: squared distance k^2
        for comp in (1, 2, 3):
            for a, b in pairs:
                m = [nn._histogram_encode(a, comp), nn._histogram_encode(b, comp)]
                tree = KDTree(m, compact_nodes=True, balanced_tree=True)
                got = [sorted(int(x) for x in r) for r in tree.query_ball_point(m, r=np.sqrt(2) * k, workers=1)]
                sq = int(((m[0] - m[1]) ** 2).sum())
                want = [[0, 1], [0, 1]] if sq <= 2 * k * k else [[0], [1]]
                n += 1
                if got != want and bad is None:
                    bad = {"a": a, "b": b, "k": k, "compression": comp, "sqdist": sq, "got": got, "want": want}
    chk.count("corr:kd_ball(float radius)", n)
    chk.evaluations += n
    return bad


def radius_model_cases(chk, nn, kmax):
    """tie of Model/Radius.lean: (1) the radius expression re-read from the source, evaluated by NumPy, has the bits of the modelled
    `radius k`; (2) SciPy's ball query keeps / drops a boundary pair exactly as the modelled comparison `sq <= r*r` says - for the
    code's radius AND for nearby radii (so the model of the comparison is validated in both directions)."""
    import importlib.util
    import struct
    from scipy.spatial import KDTree
    spec = importlib.util.spec_from_file_location("gen_lean_tables", os.path.join(core.VERIF, "tools", "gen_lean_tables.py"))
    mod = importlib.util.module_from_spec(spec)
    spec.loader.exec_module(mod)
    expr = mod.radius_expr()
    bits = lambda x: struct.unpack("<Q", struct.pack("<d", float(x)))[0]  # noqa
    ks = list(range(1, kmax + 1))
    ans = core.run_driver([{"op": "radius", "k": k} for k in ks])
    ops, metas = [], []
    for k, a in zip(ks, ans):
        try:
            r_src = float(eval(expr, {"np": np, "max_edits": k}))      # the source expression, as NumPy evaluates it
        except Exception as e:  # noqa
            chk.broken_obligations.append(f"corr:radius expression {expr!r} cannot be evaluated: {e!r}")
            return
        if a[0] != "ok" or int(a[1]["r_bits"]) != bits(r_src):
            chk.broken_obligations.append(f"corr:radius~np: the source radius {expr!r} at max_edits={k} is {r_src!r} (bits {bits(r_src)}), "
                                          f"the modelled radius has bits {a[1]['r_bits'] if a[0] == 'ok' else a}")
            return
        if not a[1]["covers"]:
            chk.broken_obligations.append(f"model: radiusCovers {k} is false")
        m = [nn._histogram_encode("A" * k + "G", 1), nn._histogram_encode("C" * k + "G", 1)]
        tree = KDTree(m, compact_nodes=True, balanced_tree=True)
        for name, R in (("code", r_src), ("sqrt(2k^2)", float(np.sqrt(2 * k * k))), ("below", float(np.nextafter(r_src, 0))),
                        ("above", float(np.nextafter(r_src, np.inf))), ("norm", float(np.linalg.norm([k, -k])))):
            got = 1 in [int(x) for x in tree.query_ball_point(m[0], r=R)]
            ops.append({"op": "in_ball", "r_bits": str(bits(R)), "sq": 2 * k * k})
            metas.append((k, name, R, got))
    chk.count("corr:radius~np", len(ks))
    chk.count("corr:in_ball~KDTree", len(ops))
    chk.evaluations += len(ks) + len(ops)
    for (k, name, R, got), a in zip(metas, core.run_driver_parallel(ops)):
        if a != ("ok", got):
            chk.broken_obligations.append(f"corr:in_ball~KDTree: SciPy {'keeps' if got else 'drops'} the boundary pair at squared distance {2 * k * k} "
                                          f"for r = {R!r} ({name}, k={k}) but the modelled comparison sq <= r*r says {a}")
            return


def run(chk):
    nn = search.nn()
    chk.trusted_base = TRUSTED
    chk.assumptions = ["strings over ACDEFGHIKLMNPQRSTVWY", "Python run without -O"]
    chk.rule = ("exhaustive: every string up to a length bound over 3-letter sub-alphabets straddling the compression bins "
                "({A,C,D},{A,D,G},{C,D,Y}), all in one call and random sub-collections; boundary same-letter multi-substitution "
                "pairs; random repertoires; k=1..3 (kdtree to 6); non-trivial = distinct input with >= 1 neighbour pair")
    chk.build_and_audit()
    rng = chk.rng
    thorough = chk.tier == "thorough"
    L = 4 if thorough else 3
    pools = [(a, gen.all_strings(a, L)) for a in ("ACD", "ADG", "CDY")]

    # ---- internal: _histogram_encode ~ histEncode
    ops, reals = [], []
    for s in ["", "A", "Y", "ACDEFGHIKLMNPQRSTVWY", "AAAC", "WYWY"] + [rng.choice(pools[i % 3][1]) for i in range(20)]:
        for comp in (1, 2, 3, 4, 5, 7, 10, 19, 20, 25):
            ops.append({"op": "hist_encode", "s": s, "A": AA, "c": comp})
            reals.append(core.call_real(lambda s=s, comp=comp: [int(x) for x in nn._histogram_encode(s, comp)]))
    ans = core.run_driver_parallel(ops)
    chk.count("corr:_histogram_encode", len(ops))
    chk.evaluations += len(ops)
    for o, r, a in zip(ops, reals, ans):
        if r[0] != "ok" or a[0] != "ok" or r[1] != a[1]:
            chk.broken_obligations.append(f"corr:_histogram_encode~histEncode differs on {json.dumps(o)}: real={str(r)[:150]} model={str(a)[:150]}")
            break
    # letter outside the alphabet: KeyError in both
    st, _ = core.call_real(lambda: nn._histogram_encode("AXA", 1))
    a = core.run_driver([{"op": "hist_encode", "s": "AXA", "A": AA, "c": 1}])[0]
    if not (st == "error" and a == ("ok", None)):
        chk.broken_obligations.append("corr:_histogram_encode: letter outside alphabet not rejected on both sides")

    # ---- float radius (PARTIAL clause): boundary constellations
    radius_model_cases(chk, nn, 128)
    bad = kd_ball_cases(chk, nn, 64 if not thorough else 1024)
    if bad:
        chk.violation("C04|kd_ball|float-radius-miss",
                      f"KDTree.query_ball_point(r=np.sqrt(2)*k) misses a point at integer squared distance <= 2k^2: {bad}", bad)

    # ---- API level
    b = search.Batch(chk, "corr:engines")

    def add(label, xs, k, comp=1, model=True, engines=("hash_based", "kdtree")):
        sop = {"op": "brute_self", "xs": xs, "k": k, "mode": "lev"}
        meta = {"xs": xs, "k": k, "compression": comp}
        if "hash_based" in engines:
            small = model and k == 1 and max(len(x) for x in xs) <= 6
            mop = {"op": "lookupdb", "ref": xs, "qs": xs, "k": k, "mode": "lev", "pdist": True, "A": AA} if small else None
            b.add("hash_based|" + label, lambda: nn.hash_based(xs, max_edits=k), mop, sop, meta,
                  factory=lambda c: (lambda: nn.hash_based(c, max_edits=k), {"op": "brute_self", "xs": c, "k": k, "mode": "lev"}))
        if "kdtree" in engines:
            mop = {"op": "kdtree", "xs": xs, "k": k, "c": comp, "A": AA, "mode": "lev"} if model else None
            b.add("kdtree|" + label, lambda: nn.kdtree(xs, max_edits=k, compression=comp), mop, sop, meta,
                  factory=lambda c: (lambda: nn.kdtree(c, max_edits=k, compression=comp), {"op": "brute_self", "xs": c, "k": k, "mode": "lev"}))
        b.add("symdel|" + label, lambda: nn.symdel(xs, max_edits=k), None, sop, meta)

    for alpha, pool in pools:
        for k in (1, 2):
            add(f"E({alpha})-all", list(pool), k, comp=rng.choice([1, 2, 3]), model=len(pool) <= 45)
        add(f"E({alpha})-all", list(pool), 3, comp=2, model=False, engines=("kdtree",))
    boundary = []
    for k in (1, 2, 3):
        boundary.append((["A" * k + "G", "C" * k + "G", "AAG"], k))
        boundary.append((["A" * k, "", "C" * k], k))
        boundary.append((["ACD" * k, "CDA" * k], k))
    # small lists in which EVERY sequence shares a prefix and a suffix, and the shared parts overlap on the shortest one
    # (an insertion / deletion inside a run of one letter or inside a tandem repeat)
    for xs in (["CASSF", "CASSSF"], ["CASF", "CASGSF", "CASSF"], ["AAA", "AA"], ["ABAB", "ABABAB"], ["CAF", "CAAF", "CAAAF"],
               ["CASSLGF", "CASSLGLGF", "CASSLGGF"], ["CC", "C", "CCC"]):
        for k in (1, 2):
            add("shared-affixes", [x.replace("B", "D") for x in xs], k, comp=rng.choice([1, 2]))
    # the documented default radius (max_edits omitted) is 1, for every engine
    for xs in (["CASSLGF", "CASSLGY", "CASSLG", "CQSSLGF"], ["AC", "AD", "A", "ACD"]):
        sop_d = {"op": "brute_self", "xs": xs, "k": 1, "mode": "lev"}
        b.add("hash_based|default-max_edits", lambda xs=xs: nn.hash_based(xs), None, sop_d, {"xs": xs, "k": "default"})
        b.add("kdtree|default-max_edits", lambda xs=xs: nn.kdtree(xs), None, sop_d, {"xs": xs, "k": "default"})
    for xs, k in boundary:
        for comp in (1, 2, 5):
            add("boundary", xs, k, comp=comp, engines=("kdtree",) if k > 2 else ("hash_based", "kdtree"))
    for _ in range(80 if not thorough else 800):
        alpha, pool = rng.choice(pools)
        xs = gen.sub_collection(rng, pool, rng.randint(1, 12))
        k = rng.choice([1, 1, 2, 2, 3])
        add(f"E({alpha})-sub", xs, k, comp=rng.choice([1, 1, 2, 3, 4, 7, 20]),
            engines=("kdtree",) if k > 2 else ("hash_based", "kdtree"))
    for _ in range(10 if not thorough else 60):
        n = rng.choice([2, 10, 40, 100] if not thorough else [10, 100, 400])
        xs = gen.repertoire(rng, n, allow_empty=True)
        k = rng.choice([1, 2, 3, 4, 6])
        add("R", xs, k, comp=rng.choice([1, 2, 5]), model=n <= 12, engines=("kdtree",) if k > 1 else ("hash_based", "kdtree"))
    # worker count must not matter (details in C11): a few parallel runs with a remainder
    for _ in range(4 if not thorough else 20):
        xs = gen.sub_collection(rng, pools[0][1], rng.choice([5, 7, 11]))
        sop = {"op": "brute_self", "xs": xs, "k": 1, "mode": "lev"}
        ncpu = rng.choice([2, 3, 4])
        b.add("kdtree-parallel|E(ACD)", lambda xs=xs, ncpu=ncpu: nn.kdtree(xs, max_edits=1, n_cpu=ncpu), None, sop, {"xs": xs, "k": 1, "n_cpu": ncpu})
    # long sequences (letter counts beyond 255) with strong compression
    for comp in (1, 20, 25):
        base = "".join(rng.choice(AA) for _ in range(255))
        xs = [base, base + "A", base[:-1], base[:100] + "C" + base[100:], "A" * 256, "A" * 257]
        sop = {"op": "brute_self", "xs": xs, "k": 1, "mode": "lev"}
        b.add("kdtree|long", lambda xs=xs, comp=comp: nn.kdtree(xs, max_edits=1, compression=comp), None, sop, {"n": len(xs), "compression": comp, "k": 1})
    # hash_based at max_edits = 3 and 4 (the edit ball is built level by level; tiny strings keep it small)
    for _ in range(6 if not thorough else 30):
        xs = ["".join(rng.choice("ACDW") for _ in range(rng.randint(0, 2))) for _ in range(rng.randint(2, 5))] + ["C", "AAA"]
        sop = {"op": "brute_self", "xs": xs, "k": 3, "mode": "lev"}
        b.add("hash_based|k3-tiny", lambda xs=xs: nn.hash_based(xs, max_edits=3), None, sop, {"xs": xs, "k": 3})
    chk.exhaustive = True
    b.run()

    # ---- a large collection (several thousand sequences: internal block sizes / chunking): the three engines must agree triplet
    # for triplet; a disagreement is settled pair by pair with the true distance and reported against the engine that is wrong
    from Levenshtein import distance as levd
    nbig = 4500 if not thorough else 9000
    big = gen.repertoire(rng, nbig, minlen=6, maxlen=9, allow_empty=False)
    outs = {}
    for name, fn in (("nearest_neighbor", lambda: nn.nearest_neighbor(big, max_edits=1)), ("kdtree", lambda: nn.kdtree(big, max_edits=1)),
                     ("hash_based", lambda: nn.hash_based(big, max_edits=1))):
        r = core.call_real(lambda: set((int(a), int(b_), int(d)) for a, b_, d in fn()))
        chk.case(nontrivial_key=("large", name))
        chk.count("large-collection")
        if r[0] != "ok":
            chk.violation(f"C04|{name}|large|raises-{r[1]}", f"{name} raised {r[1]} on {nbig} sequences", {"n": nbig})
        else:
            outs[name] = r[1]
    if len(outs) >= 2:
        union = set().union(*outs.values())
        for name, got in outs.items():
            wrong = [t for t in got if not (t[0] != t[1] and 0 <= t[0] < nbig and 0 <= t[1] < nbig and levd(big[t[0]], big[t[1]]) == t[2] <= 1)]
            missing = [t for t in union - got if t[0] != t[1] and 0 <= t[0] < nbig and 0 <= t[1] < nbig and levd(big[t[0]], big[t[1]]) == t[2] <= 1]
            if wrong or missing:
                ex = (wrong or missing)[0]
                chk.violation(f"C04|{name}|large|{'spurious' if wrong else 'missing'}",
                              f"{name} on {nbig} sequences: {len(wrong)} reported triplets are not true neighbour pairs, {len(missing)} true pairs found by "
                              f"another engine are missing, e.g. {ex}: {big[ex[0]]!r} / {big[ex[1]]!r}",
                              {"n": nbig, "example": list(ex), "seq_i": big[ex[0]], "seq_j": big[ex[1]], "n_wrong": len(wrong), "n_missing": len(missing),
                               "generator": "gen.repertoire(rng(seed), n, minlen=6, maxlen=9, allow_empty=False)"})


def replay(path):
    nn = search.nn()
    r = json.load(open(path))
    print(json.dumps({k: (v if len(str(v)) < 1500 else str(v)[:1500]) for k, v in r.items()}, indent=1))
    meta = r.get("meta")
    if not meta or "xs" not in meta:
        return 0
    xs, k, comp = meta["xs"], meta["k"], meta.get("compression", 1)
    sp = core.canon_model_trips(core.run_driver([{"op": "brute_self", "xs": xs, "k": k, "mode": "lev"}])[0][1])
    ok = True
    for name, fn in (("hash_based", lambda: nn.hash_based(xs, max_edits=k)),
                     ("kdtree", lambda: nn.kdtree(xs, max_edits=k, compression=comp))):
        if name == "hash_based" and k > 2:
            continue
        real = core.call_real(lambda: core.canon_trips(fn()))
        print(name, "agrees" if real == ("ok", sp) else f"DIFFERS: {str(real)[:300]}")
        ok = ok and real == ("ok", sp)
    print("verdict:", "holds" if ok else "VIOLATES")
    return 0 if ok else 1
