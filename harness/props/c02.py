"""C02 — pc is the exact fraction of coinciding pairs."""
import itertools
import json
import warnings
from fractions import Fraction

import numpy as np
import pandas as pd

from harness import core, gen

TRUSTED = [
    "Lean 4.33.0 kernel; axioms propext, Classical.choice, Quot.sound only (audited per theorem)",
    "np.unique / np.intersect1d are modelled by multiplicity counting (`counts`, `crossCount`); elements are mapped injectively "
    "to strings by the harness (justified by theorem C02_relabel)",
    "the single float division of two integers < 2^53 is correctly rounded: the real float is compared for EQUALITY with "
    "float(Fraction(num, den)) of the model's exact rational",
    "pandas fillna/apply/astype are modelled by cellText/encodeRow; tied by the pc_table / pc_joint operations",
]


def realise(pattern, kind, rng):
    """a sample with the given multiplicity pattern and element kind; returns (python sample, string keys)"""
    n = len(pattern)
    if kind == "str":
        vals = rng.sample(["A", "B", "AB", "BA", "CASSL", "", "a", "C.D", "x_y", "Z", "AA", "ü"], n)
    elif kind == "int":
        vals = rng.sample(range(-5, 40), n)
    else:
        vals = rng.sample([0.5, 1.5, 2.25, -3.0, 1e-3, 7.0, 100.125, 3.5, 9.75, 0.1, 0.2, 0.3], n)
    sample = [v for v, c in zip(vals, pattern) for _ in range(c)]
    rng.shuffle(sample)
    return sample, [repr(v) for v in sample]


def run(chk):
    import pyrepseq.stats as st
    warnings.simplefilter("ignore")
    chk.trusted_base = TRUSTED
    chk.assumptions = ["flat samples are type-homogeneous (strings, ints or floats)", "table cell text contains neither '.' nor '_'"]
    chk.rule = ("every multiplicity pattern (integer partition) of N <= bound realised with strings, ints, floats and 1-4 column rows; "
                "adversarial rows whose concatenations collide; missing cells; random samples to N = 500; two-sample form; "
                "non-trivial = distinct sample with at least one coinciding pair")
    chk.build_and_audit()
    rng = chk.rng
    thorough = chk.tier == "thorough"
    maxN = 12 if not thorough else 20
    ops, checks = [], []

    def expect(op, thunk, label, meta, nontriv):
        ops.append(op)
        checks.append((core.call_real(thunk), label, meta, nontriv))

    # ---- flat samples, every multiplicity pattern
    for N in range(2, maxN + 1):
        for pat in gen.partitions(N):
            if len(pat) > 12:
                continue
            kind = rng.choice(["str", "int", "float"])
            sample, keys = realise(pat, kind, rng)
            nt = any(c > 1 for c in pat)
            expect({"op": "pc1", "xs": keys}, lambda s=sample: float(st.pc(s)), f"pc[{kind}]", {"sample": keys}, nt)
            expect({"op": "pc_n", "n": list(pat)}, lambda p=pat: float(st.pc_n(list(p))), "pc_n", {"n": list(pat)}, nt)
            if rng.random() < 0.3:
                arr = np.array(sample)
                expect({"op": "pc1", "xs": keys}, lambda a=arr: float(st.pc(a)), f"pc[ndarray-{kind}]", {"sample": keys}, nt)
                ser = pd.Series(sample, index=range(7, 7 + len(sample)))
                expect({"op": "pc1", "xs": keys}, lambda a=ser: float(st.pc(a)), f"pc[series-{kind}]", {"sample": keys}, nt)
    chk.exhaustive = True
    for _ in range(30 if not thorough else 300):
        N = rng.randint(2, 500)
        K = rng.randint(1, 30)
        sample = [f"s{rng.randrange(K)}" for _ in range(N)]
        expect({"op": "pc1", "xs": sample}, lambda s=sample: float(st.pc(s)), "pc[random]", {"N": N, "K": K}, True)
        other = [f"s{rng.randrange(K + 3)}" for _ in range(rng.randint(1, 300))]
        expect({"op": "pc2", "as": sample, "bs": other}, lambda s=sample, o=other: float(st.pc(s, o)), "pc2[random]", {"N": N}, True)
    # two-sample, small exhaustive-ish
    for _ in range(80 if not thorough else 800):
        a = [rng.choice("ABCD") for _ in range(rng.randint(1, 7))]
        b = [rng.choice("ABCDE") for _ in range(rng.randint(1, 7))]
        expect({"op": "pc2", "as": a, "bs": b}, lambda a=a, b=b: float(st.pc(a, b)), "pc2", {"a": a, "b": b}, bool(set(a) & set(b)))

    # two samples whose NumPy dtypes differ: longer strings / floats in the second sample must not be cut to the first one's dtype
    for _ in range(30 if not thorough else 300):
        a = [rng.choice(["CAS", "CAT", "CA", "C"]) for _ in range(rng.randint(1, 6))]
        b = [rng.choice(["CASS", "CASSL", "CATT", "CAS", "CAQQQQQQ"]) for _ in range(rng.randint(1, 6))]
        for x, y in ((a, b), (b, a), (np.array(a), np.array(b))):
            expect({"op": "pc2", "as": list(map(str, x)), "bs": list(map(str, y))}, lambda x=x, y=y: float(st.pc(x, y)), "pc2[width]",
                   {"a": list(map(str, x)), "b": list(map(str, y))}, bool(set(map(str, x)) & set(map(str, y))))
        ia = [rng.choice([1, 2, 3]) for _ in range(rng.randint(1, 5))]
        fb = [rng.choice([1.0, 1.5, 2.25, 2.75, 7.0]) for _ in range(rng.randint(1, 5))]
        for x, y in ((ia, fb), (fb, ia)):
            expect({"op": "pc2", "as": [repr(float(v)) for v in x], "bs": [repr(float(v)) for v in y]}, lambda x=x, y=y: float(st.pc(x, y)),
                   "pc2[int-vs-float]", {"a": x, "b": y}, True)
    # ---- tables
    def cell_json(v):
        return None if v is None or (isinstance(v, float) and np.isnan(v)) else str(v)

    cols = ["c1", "c2", "c3", "c4"]
    adversarial = [
        [("AB", "C"), ("A", "BC"), ("AB", "C")],
        [("", "A"), ("A", ""), ("", "A"), ("A", "")],
        [("A", None), ("A", ""), (None, "A"), ("A", None)],
        [("A", "B", "C"), ("AB", "", "C"), ("A", "B", "C"), ("A", "BC", "")],
        [("x",), ("x",), ("y",)],
        [("A", float("nan")), ("A", float("nan")), ("B", "z")],
    ]
    tables = list(adversarial)
    for _ in range(40 if not thorough else 400):
        w = rng.randint(1, 4)
        n = rng.randint(2, 10)
        base = [tuple(rng.choice(["A", "B", "AB", "", "C", None]) for _ in range(w)) for _ in range(rng.randint(1, 4))]
        tables.append([rng.choice(base) for _ in range(n)])
    for rows in tables:
        w = len(rows[0])
        df = pd.DataFrame(rows, columns=cols[:w])
        jrows = [[cell_json(v) for v in r] for r in rows]
        has_missing = any(c is None for r in jrows for c in r)
        nt = len(set(map(tuple, jrows))) < len(jrows)
        meta = {"rows": jrows}
        expect({"op": "pc_table", "rows": jrows}, lambda d=df: float(st.pc(d)), "pc[table]", meta, nt)
        expect({"op": "pc_joint", "rows": jrows, "sep": "_"}, lambda d=df, w=w: float(st.pc_joint(d, cols[:w])),
               "pc_joint" + ("[missing-cell]" if has_missing else ""), meta, nt)
        expect({"op": "pc_joint", "rows": jrows, "sep": "|"}, lambda d=df, w=w: float(st.pc_joint(d, cols[:w], gap_token="|")),
               "pc_joint[gap_token]", meta, nt)
        if w >= 2:
            sub = [r[:2] for r in jrows]
            expect({"op": "pc_joint", "rows": sub, "sep": "_"}, lambda d=df: float(st.pc_joint(d, cols[:2])),
                   "pc_joint[subset]" + ("[missing-cell]" if any(c is None for r in sub for c in r) else ""), {"rows": sub}, nt)
        # second table
        rows2 = [rng.choice(rows) for _ in range(rng.randint(1, 5))] + [tuple("Q" for _ in range(w))]
        df2 = pd.DataFrame(rows2, columns=cols[:w])
        jrows2 = [[cell_json(v) for v in r] for r in rows2]
        expect({"op": "pc_table", "rows": jrows, "rows2": jrows2}, lambda d=df, e=df2: float(st.pc(d, e)), "pc2[table]",
               {"rows": jrows, "rows2": jrows2}, True)
        expect({"op": "pc_joint", "rows": jrows, "rows2": jrows2, "sep": "|"},
               lambda d=df, e=df2, w=w: float(st.pc_joint(d, cols[:w], e, "|")), "pc_joint2[gap_token]", {"rows": jrows, "rows2": jrows2}, True)
        if w >= 2:
            # the second table holds the same columns in ANOTHER order: rows are compared column by column in the order of `on`
            df2r = df2[cols[:w][::-1]]
            expect({"op": "pc_joint", "rows": jrows, "rows2": jrows2, "sep": "_"},
                   lambda d=df, e=df2r, w=w: float(st.pc_joint(d, cols[:w], e)), "pc_joint2[second table, columns reordered]",
                   {"rows": jrows, "rows2": jrows2}, True)
        hm2 = has_missing or any(c is None for r in jrows2 for c in r)
        expect({"op": "pc_joint", "rows": jrows, "rows2": jrows2, "sep": "_"},
               lambda d=df, e=df2, w=w: float(st.pc_joint(d, cols[:w], e)), "pc_joint2" + ("[missing-cell]" if hm2 else ""),
               {"rows": jrows, "rows2": jrows2}, True)
    # numeric cells: the cell text is str(value)
    for _ in range(10):
        n = rng.randint(2, 8)
        a = [rng.choice([1, 2, 11]) for _ in range(n)]
        b = [rng.choice([1.5, 2.0, 12.25]) for _ in range(n)]
        dfn = pd.DataFrame({"c1": a, "c2": b})
        jrows = [[str(x), str(y)] for x, y in zip(dfn["c1"], dfn["c2"])]
        expect({"op": "pc_table", "rows": jrows}, lambda d=dfn: float(st.pc(d)), "pc[table-numeric]", {"rows": jrows}, True)
        expect({"op": "pc_joint", "rows": jrows, "sep": "_"}, lambda d=dfn: float(st.pc_joint(d, ["c1", "c2"])), "pc_joint[numeric]", {"rows": jrows}, True)
    # a column that happens to be called clone_count / count (an integer column like any other: every column is part of the row),
    # and cells holding line-breaking characters
    for _ in range(8 if not thorough else 40):
        n = rng.randint(3, 8)
        seqs_ = [rng.choice(["CASSA", "CASSB"]) for _ in range(n)]
        cc_ = [rng.choice([1, 2, 5]) for _ in range(n)]
        for cname_ in ("clone_count", "count", "size"):
            dfc = pd.DataFrame({"CDR3B": seqs_, cname_: cc_})
            jr = [[a_, str(b_)] for a_, b_ in zip(seqs_, cc_)]
            expect({"op": "pc_table", "rows": jr}, lambda d=dfc: float(st.pc(d)), f"pc[table with an integer column named {cname_}]", {"rows": jr}, True)
            expect({"op": "pc_table", "rows": jr, "rows2": jr[:2]}, lambda d=dfc: float(st.pc(d, d.iloc[:2])), f"pc2[table with an integer column named {cname_}]", {"rows": jr}, True)
        brk = [rng.choice(["CA\nSS", "CASS", "CA", "SS", "CA\u2028SS", "CA\rSS"]) for _ in range(n)]
        dfb = pd.DataFrame({"a": brk, "b": [rng.choice(["x", "y"]) for _ in range(n)]})
        jb_ = [[a_.replace("\n", "<LF>").replace("\r", "<CR>").replace("\u2028", "<LS>"), b_] for a_, b_ in zip(dfb["a"], dfb["b"])]
        expect({"op": "pc_table", "rows": jb_}, lambda d=dfb: float(st.pc(d)), "pc[table, cells with line breaks]", {"rows": jb_}, True)
    # two tables cut from ONE parent table with an integer column beside a float column, where only one of the two holds a missing
    # cell: a row's label must depend on the row alone (not on whether its table has a missing value elsewhere)
    for _ in range(10 if not thorough else 80):
        n = rng.randint(4, 9)
        parent = pd.DataFrame({"i": [rng.choice([0, 1, 2]) for _ in range(n)], "f": [rng.choice([0.5, 1.5]) for _ in range(n)]})
        k_ = rng.randint(1, n - 1)
        parent.loc[rng.randrange(k_), "f"] = float("nan")          # the first part gets a missing cell, the second has none
        d1, d2 = parent.iloc[:k_], parent.iloc[k_:]
        cellnum = lambda v: None if (isinstance(v, float) and np.isnan(v)) else repr(float(v))  # noqa
        j1 = [[cellnum(x), cellnum(y)] for x, y in zip(d1["i"].tolist(), d1["f"].tolist())]
        j2 = [[cellnum(x), cellnum(y)] for x, y in zip(d2["i"].tolist(), d2["f"].tolist())]
        for sw, (da, db, ja, jb) in enumerate(((d1, d2, j1, j2), (d2, d1, j2, j1))):
            expect({"op": "pc_joint", "rows": ja, "rows2": jb, "sep": "_"}, lambda da=da, db=db: float(st.pc_joint(da, ["i", "f"], db)),
                   "pc_joint2[int-beside-float, one table with a missing cell]", {"rows": ja, "rows2": jb}, True)
    # a LARGE table (1000+ rows) and a small one cut from ONE parent (an int column beside a float column; text columns): the text
    # a row is keyed by depends on the row alone, not on how many rows its table has
    for it_big in range(2 if not thorough else 6):
        n = 1003 + rng.randint(0, 60)
        if it_big % 2 == 0:
            parent = pd.DataFrame({"i": [rng.choice([0, 1, 2]) for _ in range(n)], "f": [rng.choice([0.5, 1.5]) for _ in range(n)]})
            tocell = lambda v: repr(float(v))  # noqa: E731
        else:
            parent = pd.DataFrame({"i": [rng.choice(["A", "B", "AB"]) for _ in range(n)], "f": [rng.choice(["", "B", "C"]) for _ in range(n)]})
            tocell = str
        ks = rng.randint(3, 9)
        small, big = parent.iloc[:ks], parent.iloc[ks:]
        js = [[tocell(x), tocell(y)] for x, y in zip(small["i"].tolist(), small["f"].tolist())]
        jb = [[tocell(x), tocell(y)] for x, y in zip(big["i"].tolist(), big["f"].tolist())]
        expect({"op": "pc_table", "rows": jb, "rows2": js}, lambda a=big, b=small: float(st.pc(a, b)), "pc2[table, 1000+ rows against a few]", {"rows2": js, "n_rows": len(jb)}, True)
        expect({"op": "pc_table", "rows": js, "rows2": jb}, lambda a=small, b=big: float(st.pc(a, b)), "pc2[table, a few rows against 1000+]", {"rows": js, "n_rows2": len(jb)}, True)
        expect({"op": "pc_joint", "rows": jb, "rows2": js, "sep": "_"}, lambda a=big, b=small: float(st.pc_joint(a, ["i", "f"], b)),
               "pc_joint2[1000+ rows against a few]", {"rows2": js, "n_rows": len(jb)}, True)
        expect({"op": "pc_table", "rows": jb}, lambda a=big: float(st.pc(a)), "pc[table, 1000+ rows]", {"n_rows": len(jb)}, True)
    # very unequal sample sizes (the larger sample holds elements the smaller one lacks), and samples whose elements are tuples
    for _ in range(10 if not thorough else 60):
        a = [rng.choice("ABCDEFG") for _ in range(rng.randint(40, 400))]
        b = [rng.choice("ABX") for _ in range(rng.randint(1, 4))]
        for x, y in ((a, b), (b, a), (np.array(a), np.array(b)), (pd.Series(b), pd.Series(a))):
            expect({"op": "pc2", "as": list(map(str, x)), "bs": list(map(str, y))}, lambda x=x, y=y: float(st.pc(x, y)), "pc2[very unequal sizes]",
                   {"a": list(map(str, x))[:50], "b": list(map(str, y))[:50]}, True)
        t = [(rng.choice(["CAS", "CAT"]), rng.choice(["x", "y"])) for _ in range(rng.randint(2, 9))]
        u = [(rng.choice(["CAS", "CAT"]), rng.choice(["x", "z"])) for _ in range(rng.randint(1, 6))]
        expect({"op": "pc1", "xs": [repr(v) for v in t]}, lambda t=t: float(st.pc(pd.Series(t))), "pc[series-of-tuples]", {"sample": [list(v) for v in t]},
               len(set(t)) < len(t))
        expect({"op": "pc2", "as": [repr(v) for v in t], "bs": [repr(v) for v in u]}, lambda t=t, u=u: float(st.pc(pd.Series(t), pd.Series(u))),
               "pc2[series-of-tuples]", {"a": [list(v) for v in t], "b": [list(v) for v in u]}, True)
    # numeric cells that need every digit: close floats, large integers beside a float column, an integer column
    # that pandas upcasts to float because of a missing value
    for _ in range(12 if not thorough else 120):
        n = rng.randint(3, 8)
        kind = rng.choice(["close-floats", "big-ints", "upcast"])
        if kind == "close-floats":
            a = [rng.choice([0.12345671, 0.12345674, 0.1234567, 1234567.25, 1234567.75]) for _ in range(n)]
            b = [rng.choice(["x", "y"]) for _ in range(n)]
        elif kind == "big-ints":
            a = [rng.choice([1000001, 1000002, 1000000, 123456789, 123456788]) for _ in range(n)]
            b = [rng.choice([0.5, 1.5]) for _ in range(n)]
        else:
            a = [rng.choice([1000001, 1000002, 7, None]) for _ in range(n - 1)] + [None]
            b = [rng.choice(["x", "y"]) for _ in range(n)]
        dfn = pd.DataFrame({"c1": a, "c2": b})
        jrows = [[cell_json(x), cell_json(y)] for x, y in zip(dfn["c1"].tolist(), dfn["c2"].tolist())]
        expect({"op": "pc_table", "rows": jrows}, lambda d=dfn: float(st.pc(d)), f"pc[table-{kind}]", {"rows": jrows}, True)
        if kind != "upcast":
            expect({"op": "pc_joint", "rows": jrows, "sep": "_"}, lambda d=dfn: float(st.pc_joint(d, ["c1", "c2"])), f"pc_joint[{kind}]", {"rows": jrows}, True)
        # the single column alone, as a flat sample of floats / ints
        if kind != "upcast":
            expect({"op": "pc1", "xs": [repr(v) for v in a]}, lambda a=a: float(st.pc(a)), f"pc[{kind}]", {"sample": [repr(v) for v in a]}, True)
    # numeric cells whose Python hashes collide (-1 / -2, n / n + 2^61 - 1): rows coincide only when the cells are equal
    for _ in range(8 if not thorough else 60):
        n = rng.randint(3, 8)
        a = [rng.choice([-1, -2, 5, 5 + (2 ** 61 - 1), 0]) for _ in range(n)]
        b = [rng.choice(["x", "y"]) for _ in range(n)]
        dfn = pd.DataFrame({"c1": a, "c2": b})
        jrows = [[cell_json(x), cell_json(y)] for x, y in zip(dfn["c1"].tolist(), dfn["c2"].tolist())]
        expect({"op": "pc_table", "rows": jrows}, lambda d=dfn: float(st.pc(d)), "pc[table-hash-colliding-ints]", {"rows": jrows}, True)
        expect({"op": "pc1", "xs": [repr(v) for v in a]}, lambda a=a: float(st.pc(a)), "pc[hash-colliding-ints]", {"sample": [repr(v) for v in a]}, True)
        k_ = rng.randint(1, n - 1)
        dfa, dfb = dfn.iloc[:k_], dfn.iloc[k_:]
        expect({"op": "pc_table", "rows": jrows[:k_], "rows2": jrows[k_:]}, lambda d=dfa, e=dfb: float(st.pc(d, e)), "pc2[table-hash-colliding-ints]",
               {"rows": jrows[:k_], "rows2": jrows[k_:]}, True)
    # pandas categorical / nullable-string Series: the VALUES are compared, whatever the category lists or codes are
    for _ in range(12 if not thorough else 100):
        a = [rng.choice(["CAS", "CAT", "CQ"]) for _ in range(rng.randint(2, 7))]
        b = [rng.choice(["CAT", "CQ", "CW", "CAS"]) for _ in range(rng.randint(1, 7))]
        ca, cb = pd.Series(a).astype("category"), pd.Series(b).astype("category")
        cb_rev = pd.Series(pd.Categorical(b, categories=sorted(set(b), reverse=True)))
        expect({"op": "pc1", "xs": a}, lambda c=ca: float(st.pc(c)), "pc[categorical]", {"sample": a}, True)
        for nm, x, y in (("cat-cat", ca, cb), ("cat-cat-reversed-categories", ca, cb_rev), ("cat-list", ca, list(b)), ("list-cat", list(a), cb),
                         ("string-dtype", pd.Series(a, dtype="string"), pd.Series(b, dtype="string"))):
            expect({"op": "pc2", "as": a, "bs": b}, lambda x=x, y=y: float(st.pc(x, y)), f"pc2[{nm}]", {"a": a, "b": b}, bool(set(a) & set(b)))
    # a writable, unsorted ndarray is used again after the call, position-aligned with other data: it must not have been reordered
    for _ in range(10 if not thorough else 100):
        n = rng.randint(4, 9)
        al = [rng.choice(["CD", "CB", "CA", "CC"]) for _ in range(n)]
        be = [rng.choice(["CX", "CY"]) for _ in range(n)]
        arr = np.array(al)
        keep = arr.copy()
        first = core.call_real(lambda: float(st.pc(arr)))
        chk.case(nontrivial_key=("reuse", tuple(al), tuple(be)))
        chk.count("op:pc-reuse")
        if not np.array_equal(arr, keep):
            chk.violation("C02|pc|reorders-input", "pc changed the ndarray it was given (a later position-aligned use of the same array is wrong)",
                          {"sample": al, "after": arr.tolist()})
        jrows = [[a_, b_] for a_, b_ in zip(al, be)]
        expect({"op": "pc1", "xs": al}, lambda f=first: f[1] if f[0] == "ok" else (_ for _ in ()).throw(RuntimeError(f[1])), "pc[ndarray-first-use]", {"sample": al}, True)
        expect({"op": "pc_table", "rows": jrows}, lambda arr=arr, be=be: float(st.pc((arr, np.array(be)))), "pc[tuple-after-reuse]", {"rows": jrows}, True)
        m1 = [i % 2 == 0 for i in range(n)]
        expect({"op": "pc2", "as": [x for x, m in zip(al, m1) if m], "bs": [x for x, m in zip(al, m1) if not m]},
               lambda arr=arr, m1=m1: float(st.pc(arr[np.array(m1)], arr[~np.array(m1)])), "pc2[masks-after-reuse]", {"sample": al}, True)
    # legacy (alpha, beta) tuple input becomes a two-column table
    for _ in range(10):
        n = rng.randint(2, 8)
        al = [rng.choice(["CA", "CB", "C"]) for _ in range(n)]
        be = [rng.choice(["CX", "CY"]) for _ in range(n)]
        jrows = [[a, b] for a, b in zip(al, be)]
        expect({"op": "pc_table", "rows": jrows}, lambda al=al, be=be: float(st.pc((al, be))), "pc[tuple]", {"rows": jrows}, True)
        # the two chains as pandas Series carrying different index labels: pairing is positional
        sa = pd.Series(al, index=rng.sample(range(100), n))
        sb = pd.Series(be, index=rng.sample(range(100, 200), n))
        expect({"op": "pc_table", "rows": jrows}, lambda sa=sa, sb=sb: float(st.pc((sa, sb))), "pc[tuple-of-series]", {"rows": jrows}, True)
        perm = rng.sample(range(n), n)
        sc = pd.Series(be, index=perm)
        expect({"op": "pc_table", "rows": jrows}, lambda al=al, sc=sc: float(st.pc((pd.Series(al), sc))), "pc[tuple-of-series-permuted]", {"rows": jrows}, True)

    # tables whose columns share a label (two chains concatenated side by side, v / j / v): every column counts
    for _ in range(8 if not thorough else 60):
        n = rng.randint(3, 8)
        c1 = [rng.choice(["CA", "CB", "CC"]) for _ in range(n)]
        c2 = [rng.choice(["x", "y"]) for _ in range(n)]
        c3 = [rng.choice(["CA", "CB"]) for _ in range(n)]
        dup = pd.concat([pd.Series(c1, name="cdr3"), pd.Series(c2, name="j"), pd.Series(c3, name="cdr3")], axis=1)
        jrows = [[a_, b_, c_] for a_, b_, c_ in zip(c1, c2, c3)]
        expect({"op": "pc_table", "rows": jrows}, lambda d=dup: float(st.pc(d)), "pc[table-duplicate-column-labels]", {"rows": jrows}, True)
        k_ = rng.randint(1, n - 1)
        expect({"op": "pc_table", "rows": jrows[:k_], "rows2": jrows[k_:]}, lambda d=dup, k_=k_: float(st.pc(d.iloc[:k_], d.iloc[k_:])),
               "pc2[table-duplicate-column-labels]", {"rows": jrows[:k_], "rows2": jrows[k_:]}, True)
    # the legacy (alphas, betas) tuple form in the TWO-sample call, any number of rows on either side, also against a table
    for _ in range(8 if not thorough else 60):
        n1, n2 = rng.randint(1, 6), rng.randint(1, 6)
        a1 = [rng.choice(["CA", "CB"]) for _ in range(n1)]
        b1 = [rng.choice(["CX", "CY"]) for _ in range(n1)]
        a2 = [rng.choice(["CA", "CB"]) for _ in range(n2)]
        b2 = [rng.choice(["CX", "CY"]) for _ in range(n2)]
        j1, j2 = [[x, y] for x, y in zip(a1, b1)], [[x, y] for x, y in zip(a2, b2)]
        t2 = pd.DataFrame({"CDR3A": a2, "CDR3B": b2})
        expect({"op": "pc_table", "rows": j1, "rows2": j2}, lambda a1=a1, b1=b1, a2=a2, b2=b2: float(st.pc((a1, b1), (a2, b2))), "pc2[tuple-tuple]",
               {"rows": j1, "rows2": j2}, True)
        expect({"op": "pc_table", "rows": j1, "rows2": j2}, lambda a1=a1, b1=b1, t2=t2: float(st.pc((a1, b1), t2)), "pc2[tuple-table]",
               {"rows": j1, "rows2": j2}, True)
    ans = core.run_driver_parallel(ops)
    for (real, label, meta, nt), a, op in zip(checks, ans, ops):
        chk.case(sample={"label": label, **{k: v for k, v in meta.items() if len(str(v)) < 200}} if chk.evaluations % 150 == 0 else None,
                 nontrivial_key=(label, json.dumps(op, sort_keys=True)[:600]) if nt else None)
        chk.count("op:" + label.split("[")[0])
        if a[0] != "ok" or a[1] is None:
            continue
        want = float(Fraction(a[1]))
        if real == ("ok", want):
            continue
        # triage with the direct pair-counting oracle (independent of the model)
        if op["op"] in ("pc1", "pc_n", "pc2"):
            if op["op"] == "pc1":
                xs = op["xs"]
                num = sum(1 for i in range(len(xs)) for j in range(len(xs)) if i != j and xs[i] == xs[j])
                oracle = float(Fraction(num, len(xs) * (len(xs) - 1)))
            elif op["op"] == "pc2":
                num = sum(1 for x in op["as"] for y in op["bs"] if x == y)
                oracle = float(Fraction(num, len(op["as"]) * len(op["bs"])))
            else:
                n = op["n"]
                oracle = float(Fraction(sum(c * (c - 1) for c in n), sum(n) * (sum(n) - 1)))
            if oracle != want:
                chk.model_error(f"{label}: model {want} differs from pair counting {oracle} on {str(op)[:200]}")
                continue
        sig = f"C02|{label}|" + (f"raises-{real[1]}" if real[0] == "error" else "differs")
        chk.violation(sig, f"{label}: real {str(real)[:80]} != exact pair fraction {want} (= {a[1]})",
                      {"op": op, "real": str(real), "model": a[1], **meta})


def replay(path):
    r = json.load(open(path))
    print(json.dumps(r, indent=1)[:3000])
    return 0
