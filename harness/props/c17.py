"""C17 — resampling and power-law utilities conserve counts and honour their bounds."""
import json
import math
import warnings

import numpy as np
import pandas as pd

from harness import core

TRUSTED = [
    "Lean 4.33.0 kernel; axioms propext, Classical.choice, Quot.sound only (audited per theorem)",
    "NumPy's generator is NOT modelled: np.random.choice(replace=False) is replaced by the relation 'any size-n sub-multiset' "
    "(IsSubsample / IsDownsample); uniformity is a statistical check with false-alarm probability 1e-9 per test",
    "float rounding in powerlaw_sample and the scalar optimiser of powerlaw_mle_alpha('exact') are outside the model: validated numerically",
]


def is_subsample(counts, n, idx, cnt):
    idx, cnt = [int(x) for x in idx], [int(x) for x in cnt]
    if len(idx) != len(cnt):
        return "lengths differ"
    if any(a >= b for a, b in zip(idx, idx[1:])):
        return "indices not strictly increasing"
    if any(c <= 0 for c in cnt):
        return "non-positive count"
    if sum(cnt) != n:
        return f"counts sum to {sum(cnt)} != {n}"
    for i, c in zip(idx, cnt):
        if not (0 <= i < len(counts)) or c > counts[i]:
            return f"category {i}: {c} > original {counts[i] if 0 <= i < len(counts) else None}"
    return None


def run(chk):
    import pyrepseq.stats as st
    import pyrepseq.distance as ds
    from scipy.stats import chi2
    import scipy.special
    warnings.simplefilter("ignore")
    chk.trusted_base = TRUSTED
    chk.assumptions = ["count vectors have length >= 1", "NumPy global RNG seeded from VERIF_SEED"]
    chk.rule = ("count vectors (zeros, singletons, large) x 0 <= n <= total and n = total + 1 over many generator seeds: the contract "
                "IsSubsample is evaluated on the real output; downsample on lists / arrays / tables x maxseqs; powerlaw_sample sizes x "
                "xmin x alpha; MLE closed forms; non-trivial = distinct (input, seed) with a non-empty result")
    chk.build_and_audit()
    rng = chk.rng
    thorough = chk.tier == "thorough"
    seed0 = chk.seed * 100003 + 17

    # ---- model sanity: unpackCounts ~ np.repeat construction, recount ~ np.unique
    ops, reals = [], []
    for _ in range(30):
        counts = [rng.randint(0, 4) for _ in range(rng.randint(1, 6))]
        ops.append({"op": "unpack_counts", "counts": counts})
        reals.append([int(x) for x in np.concatenate([np.repeat(np.array(i,), c) for i, c in enumerate(counts)])])
        sample = [rng.randint(0, 5) for _ in range(rng.randint(0, 8))]
        ops.append({"op": "recount", "sample": sample})
        u, c = np.unique(np.array(sample, dtype=int), return_counts=True)
        reals.append([[int(x) for x in u], [int(x) for x in c]])
    for o, r, a in zip(ops, reals, core.run_driver(ops)):
        if a != ("ok", r):
            chk.broken_obligations.append(f"corr:np.repeat/np.unique~unpackCounts/recount differs on {o}: numpy={r} model={a}")
            break

    # ---- subsample contract
    vecs = [[1], [0, 1], [3], [1, 1, 1, 1], [0, 0, 5, 0], [2, 0, 3, 1], [10, 1], [100, 50, 1, 0, 7], [1] * 30]
    for _ in range(20 if not thorough else 200):
        vecs.append([rng.choice([0, 0, 1, 1, 2, 5, 40]) for _ in range(rng.randint(1, 12))])
    k = 0
    for counts in vecs:
        total = sum(counts)
        ns = sorted(set([0, 1, total // 2, max(total - 1, 0), total]))
        for n in ns:
            if n > total:
                continue
            for rep in range(3 if not thorough else 10):
                np.random.seed((seed0 + k) % (2 ** 32))
                k += 1
                real = core.call_real(lambda: st.subsample(counts, n))
                chk.case(sample={"counts": counts, "n": n} if k % 200 == 1 else None,
                         nontrivial_key=("sub", tuple(counts), n, rep) if n > 0 else None)
                chk.count("subsample")
                if real[0] != "ok":
                    chk.violation(f"C17|subsample|raises-{real[1]}", f"subsample({counts}, {n}) raised {real[1]}", {"counts": counts, "n": n})
                    continue
                why = is_subsample(counts, n, real[1][0], real[1][1])
                if why:
                    chk.violation(f"C17|subsample|contract", f"subsample({counts}, {n}) breaks its contract: {why}",
                                  {"counts": counts, "n": n, "idx": [int(x) for x in real[1][0]], "cnt": [int(x) for x in real[1][1]], "why": why})
        # refuses n > total
        real = core.call_real(lambda: st.subsample(counts, total + 1))
        chk.case(nontrivial_key=("refuse", tuple(counts)))
        if real[0] == "ok":
            chk.violation("C17|subsample|not-refused", f"subsample({counts}, {total + 1}) returned a result for n > total",
                          {"counts": counts, "n": total + 1})
    # ---- uniformity (statistical; fixed false-alarm probability 1e-9)
    # (the last two: SPARSE draws - one or two items out of hundreds - where the item in the last position must be kept as often as any)
    for counts, n in [([3, 1, 2, 4], 4), ([1] * 8, 3), ([5, 5], 7), ([150, 150, 1], 1), ([100, 100, 1], 2)]:
        T = sum(counts)
        R = 4000 if not thorough else 40000
        if T > 100:
            R = 40000
        # per-category expected kept fraction n/T for every item: category i keeps counts[i]*n/T on average
        kept = np.zeros(len(counts))
        np.random.seed((seed0 + 999) % (2 ** 32))
        for _ in range(R):
            u, c = st.subsample(counts, n)
            kept[np.asarray(u, dtype=int)] += c
        p = n / T
        stat = 0.0
        for i, ci in enumerate(counts):
            exp = R * ci * p
            # hypergeometric variance of the number kept from category i
            var = R * n * (ci / T) * (1 - ci / T) * (T - n) / (T - 1) if T > 1 else 1.0
            if var > 0:
                stat += (kept[i] - exp) ** 2 / var
        dof = len(counts) - 1
        pval = chi2.sf(stat * (len(counts) - 1) / len(counts), dof) if dof > 0 else 1.0
        chk.case(nontrivial_key=("uniform", tuple(counts), n))
        chk.count("uniformity")
        if pval < 1e-9:
            chk.violation("C17|subsample|non-uniform", f"subsample({counts}, {n}): items are not kept with equal probability (p={pval:.2e})",
                          {"counts": counts, "n": n, "kept": kept.tolist(), "R": R})

    # ---- downsample
    from collections import Counter
    for _ in range(60 if not thorough else 600):
        N = rng.randint(0, 15)
        xs = [rng.choice(["CA", "CB", "CC", "CAD"]) for _ in range(N)]
        m = rng.choice([None, 0, 1, 2, N, N + 1, max(N - 1, 0), 5])
        if _ % 3 == 0 and N >= 4:
            # short sequences first, LONGER ones later (every drawn element is an element of the input, whole)
            xs = ["CA"] * 2 + [rng.choice(["CASSLGQYF", "CASSF", "CAVRDNYGQNFVF", "CAS"]) for _ in range(N - 2)]
            m = rng.choice([1, 2, 3]) if _ else 3
        cont = rng.choice(["list", "array", "series", "frame"])
        if _ == 0:
            cont = "list"
        if 1 <= _ <= 6:
            # every run: a single element and no element drawn from a list / Series / array (a one-element draw is still a collection of one)
            cont, m = (("list", 1), ("series", 1), ("list", 0), ("array", 1), ("series", 0), ("list", 2))[_ - 1]
            xs = [rng.choice(["CA", "CB", "CC", "CAD"]) for _i in range(6)]
            N = 6
        np.random.seed((seed0 + k) % (2 ** 32))
        k += 1
        if cont == "frame":
            idx_kind = rng.choice(["unique", "repeated", "string"])
            index = list(range(3, 3 + N)) if idx_kind == "unique" else ([i // 2 for i in range(N)] if idx_kind == "repeated" else [f"r{i % 3}" for i in range(N)])
            df = pd.DataFrame({"CDR3B": xs, "n": list(range(N))}, index=index)
            before = df.copy(deep=True)
            real = core.call_real(lambda: ds.downsample(df, m))
            chk.case(nontrivial_key=("down", cont, tuple(xs), m))
            if real[0] != "ok":
                chk.violation(f"C17|downsample|frame|raises-{real[1]}", f"downsample(table, {m}) raised", {"xs": xs, "m": m})
                continue
            out = real[1]
            if not before.equals(df):
                chk.violation("C17|downsample|mutates", "downsample modified the caller's table", {"xs": xs, "m": m})
            if m is None or N <= m:
                ok = out is df or out.equals(df)
            else:
                # a subset of ROWS: exactly m rows, each an input row, no input row used twice (column n identifies the row)
                ok = len(out) == m and out["n"].is_unique and set(out["n"]) <= set(df["n"]) and \
                    all(list(out.iloc[r]) == list(df[df["n"] == out.iloc[r]["n"]].iloc[0]) and out.index[r] == df.index[int(out.iloc[r]["n"])] for r in range(len(out)))
            if not ok:
                chk.violation("C17|downsample|frame|contract", f"downsample(table of {N}, {m}) is not a {m}-row subset / identity",
                              {"xs": xs, "m": m, "out_index": [str(i) for i in out.index]})
            continue
        obj = xs if cont == "list" else (np.array(xs, dtype=object) if cont == "array" else pd.Series(xs, dtype=object))
        real = core.call_real(lambda: ds.downsample(obj, m))
        chk.case(nontrivial_key=("down", cont, tuple(xs), m))
        chk.count(f"downsample[{cont}]")
        if real[0] != "ok":
            chk.violation(f"C17|downsample|{cont}|raises-{real[1]}", f"downsample({cont} of {N}, {m}) raised {real[1]}", {"xs": xs, "m": m})
            continue
        try:
            out = list(real[1])
        except TypeError:
            chk.violation(f"C17|downsample|{cont}|not-a-collection", f"downsample({cont} of {N}, {m}) returned {real[1]!r:.80}, which is not a collection "
                          f"of {m if (m is not None and N > m) else N} elements", {"xs": xs, "m": m})
            continue
        if m is None or N <= m:
            ok = out == xs
        else:
            co, cx = Counter(out), Counter(xs)
            ok = len(out) == m and all(co[v] <= cx[v] for v in co)
        if not ok:
            chk.violation(f"C17|downsample|{cont}|contract", f"downsample({cont} of {N}, {m}) is not identity / size-{m} sub-multiset",
                          {"xs": xs, "m": m, "out": out})

    # ---- powerlaw_sample
    # (alpha = 1.02: a tail so heavy that many draws exceed 2**63 - the documented result is still an integer-VALUED sample >= xmin)
    for size in (0, 1, 7, 1000):
        for xmin in (1, 2, 5, 37):
            for alpha in (1.02, 1.2, 2.0, 3.5):
                np.random.seed((seed0 + k) % (2 ** 32))
                k += 1
                real = core.call_real(lambda: st.powerlaw_sample(size=size, xmin=xmin, alpha=alpha))
                chk.case(nontrivial_key=("pl", size, xmin, alpha) if size else None)
                chk.count("powerlaw_sample")
                if real[0] != "ok":
                    chk.violation(f"C17|powerlaw_sample|raises-{real[1]}", "powerlaw_sample raised", {"size": size, "xmin": xmin, "alpha": alpha})
                    continue
                v = np.asarray(real[1])
                if len(v) != size or not np.all(v == np.floor(v)) or not np.all(v >= xmin):
                    chk.violation("C17|powerlaw_sample|contract", f"powerlaw_sample(size={size}, xmin={xmin}, alpha={alpha}) returned "
                                  f"{len(v)} values, min {v.min() if len(v) else None}", {"size": size, "xmin": xmin, "alpha": alpha})
    # ---- MLE closed forms and the 'exact' maximiser
    # (every run: steep samples whose maximiser lies high inside the default bounds, and samples starting below cmin)
    forced_mle = [(1, 1, 3.6), (1, 1, 4.0), (1, 2, 2.5), (1, 3, 2.2), (2, 2, 3.8), (1, 1, 2.0), (0, 200000, 2.5), (0, 1000000, 2.2)]
    for it_m in range(len(forced_mle) + (20 if not thorough else 200)):
        cmin = rng.choice([1, 2, 3])
        if it_m < len(forced_mle):
            x0, cmin, al_ = forced_mle[it_m]
            np.random.seed((seed0 + k) % (2 ** 32))
            k += 1
            c = [int(x) for x in st.powerlaw_sample(size=400, xmin=x0, alpha=al_)] + [cmin + 1]
            if x0 == 0:
                # a LARGE threshold with many counts just below it (cmin - 1, cmin - 2): ">= cmin" is an exact comparison
                c = [cmin * int(x) + rng.randint(0, 999) for x in st.powerlaw_sample(size=300, xmin=1, alpha=al_)] + [cmin - 1] * 40 + [cmin - 2] * 10 + [cmin + 1]
        elif rng.random() < 0.5:
            c = [rng.randint(1, 60) for _ in range(rng.randint(5, 60))] + [cmin + 1, cmin + 4]
        else:
            np.random.seed((seed0 + k) % (2 ** 32))
            k += 1
            # a power-law sample that starts BELOW cmin half of the time: the fit is over the counts >= cmin only, and the maximiser
            # lies inside the bounds (a fit over all counts gives a different exponent)
            x0 = cmin if rng.random() < 0.5 else 1
            c = [int(x) for x in st.powerlaw_sample(size=rng.randint(60, 300), xmin=x0, alpha=rng.choice([1.8, 2.2, 3.0]))] + [cmin + 1]
        kept = [x for x in c if x >= cmin]
        want_s = 1.0 + len(kept) / sum(math.log(x / cmin) for x in kept)
        want_c = 1.0 + len(kept) / sum(math.log(x / (cmin - 0.5)) for x in kept)
        # the counts as a list or as a NumPy array of any integer width that holds them (8-bit ... 64-bit, signed or not) or float64 (a float32 array gives a float32-accurate answer: not claimed)
        cont = rng.choice(["list", "list", "ndarray", "ndarray", "series"])
        if cont == "ndarray":
            fits = [dt for dt in (np.uint8, np.int8, np.uint16, np.int16, np.int32, np.int64, np.float64) if max(c) <= (np.iinfo(dt).max if np.issubdtype(dt, np.integer) else 1e6)]
            c_in = np.array(c, dtype=rng.choice(fits))
        elif cont == "series":
            import pandas as _pd
            c_in = _pd.Series(c, index=rng.sample(range(1000), len(c)))
        else:
            c_in = c
        rs = core.call_real(lambda: float(st.powerlaw_mle_alpha(c_in, cmin=cmin, method="simple")))
        # the method given POSITIONALLY (third argument), as the signature allows
        rs_pos = core.call_real(lambda: float(st.powerlaw_mle_alpha(c_in, cmin, "simple")))
        if rs_pos != rs:
            chk.violation("C17|powerlaw_mle_alpha|positional-method", f"powerlaw_mle_alpha(c, cmin, 'simple') = {rs_pos} differs from the keyword form {rs}",
                          {"c": c, "cmin": cmin})
        rc = core.call_real(lambda: float(st.powerlaw_mle_alpha(c_in, cmin=cmin, method="continuitycorrection")))
        re_ = core.call_real(lambda: float(st.powerlaw_mle_alpha(c, cmin=cmin, method="exact")))
        chk.case(nontrivial_key=("mle", tuple(c), cmin))
        chk.count("powerlaw_mle_alpha")
        if rs[0] != "ok" or abs(rs[1] - want_s) > 1e-12 * want_s:
            chk.violation("C17|powerlaw_mle_alpha|simple", f"'simple' estimate {rs} != 1 + n/sum ln(c/cmin) = {want_s} (counts given as {cont} {getattr(c_in, 'dtype', '')})", {"c": c, "cmin": cmin, "container": cont, "dtype": str(getattr(c_in, "dtype", ""))})
        if rc[0] != "ok" or abs(rc[1] - want_c) > 1e-12 * want_c:
            chk.violation("C17|powerlaw_mle_alpha|continuitycorrection", f"'continuitycorrection' estimate {rc} != {want_c} (counts given as {cont} {getattr(c_in, 'dtype', '')})", {"c": c, "cmin": cmin, "container": cont, "dtype": str(getattr(c_in, "dtype", ""))})
        if re_[0] != "ok" or not (1.5 <= re_[1] <= 4.5):
            chk.violation("C17|powerlaw_mle_alpha|exact-bounds", f"'exact' estimate {re_} outside its bounds [1.5, 4.5]", {"c": c, "cmin": cmin})
        else:
            arr = np.asarray(kept, dtype=float)
            ll = lambda a: -len(arr) * np.log(scipy.special.zeta(a, cmin)) - a * np.sum(np.log(arr))  # noqa
            grid = np.linspace(1.5, 4.5, 601)
            best = max(ll(a) for a in grid)
            # the bounded scalar optimiser stops within xatol (1e-5) of the maximiser: allow slope * 3e-5
            slope = abs(ll(min(re_[1] + 1e-6, 4.5)) - ll(max(re_[1] - 1e-6, 1.5))) / 2e-6
            if ll(re_[1]) < best - (slope * 3e-5 + 1e-9 * max(1.0, abs(best))):
                chk.violation("C17|powerlaw_mle_alpha|exact-not-maximiser", f"'exact' estimate {re_[1]} has likelihood below a grid point",
                              {"c": c, "cmin": cmin, "ll": float(ll(re_[1])), "grid_best": float(best)})
            # the objective itself (the private helper the translated theorem C17_source_loglik is about), where it exists under this name:
            # -n ln zeta(a, cmin) - a sum ln c over the counts >= cmin, the mask applied by the helper
            fobj = getattr(st, "_discrete_loglikelihood", None)
            if fobj is not None:
                for a_ in (1.5, 2.0, 2.75, 4.5):
                    got = core.call_real(lambda: float(fobj(np.asarray(c, dtype=float), a_, cmin)))
                    chk.count("discrete_loglikelihood")
                    if got[0] != "ok" or abs(got[1] - ll(a_)) > 1e-9 * max(1.0, abs(ll(a_))):
                        chk.violation("C17|powerlaw_mle_alpha|objective", f"_discrete_loglikelihood(c, {a_}, {cmin}) = {got} is not the discrete "
                                      f"power-law log-likelihood {float(ll(a_))} of the counts >= cmin", {"c": c, "cmin": cmin, "alpha": a_})
                        break
    # history: custom optimiser options in one call must not leak into a later default call
    np.random.seed((seed0 + 4242) % (2 ** 32))
    c = [int(x) for x in st.powerlaw_sample(size=400, xmin=1, alpha=2.0)]
    d0 = core.call_real(lambda: float(st.powerlaw_mle_alpha(c, cmin=1, method="exact")))
    cb = core.call_real(lambda: float(st.powerlaw_mle_alpha(c, cmin=1, method="exact", bounds=[2.6, 3.4])))
    d1 = core.call_real(lambda: float(st.powerlaw_mle_alpha(c, cmin=1, method="exact")))
    chk.case(nontrivial_key="mle-history")
    if cb[0] != "ok" or not (2.6 <= cb[1] <= 3.4):
        chk.violation("C17|powerlaw_mle_alpha|custom-bounds", f"'exact' with bounds=[2.6, 3.4] returned {cb}", {})
    if d0[0] != "ok" or d1[0] != "ok" or abs(d0[1] - d1[1]) > 1e-4:
        chk.violation("C17|powerlaw_mle_alpha|history", f"default 'exact' fit changed after a call with custom bounds: {d0} then {d1}", {})
    st_bad = core.call_real(lambda: st.powerlaw_mle_alpha([1, 2, 3], method="bogus"))
    if st_bad != ("error", "ValueError"):
        chk.violation("C17|powerlaw_mle_alpha|bad-method", f"unknown method not rejected with ValueError: {st_bad}", {})


def replay(path):
    r = json.load(open(path))
    print(json.dumps(r, indent=1)[:3000])
    return 0
